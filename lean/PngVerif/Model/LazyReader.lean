/-!
# The call protocol of `Reader` over a LAZY image-data source

A second, small model of `Reader` (`src/decoder/mod.rs:335-692`, `src/decoder/read_decoder.rs:100-163`) that
abstracts everything except the call protocol and the ARRIVAL of image data.  `Model/Reader.lean` instantiates the
inflater with a function that hands out every decodable byte at once, so "the end of a data-chunk sequence delivers
no image data" is an invariant of that model; the real inflater (fdeflate) may hold bytes back and hand out the
tail of a frame only when the data sequence is finished (`ImageDataCompletionStatus::Done` arrives TOGETHER with
rows).  Defects D23 / D24 (DESIGN.md Appendix E) live in states that model cannot reach.  Here the image-data
source is a parameter (`Arrival`), and the theorems (`Props/C04Lazy.lean`) quantify over every arrival.

Abstraction:
* a file is a list of frames; a frame has `rowlens` (the byte length `rowlen` of every row-unit in delivery order:
  `height` equal entries for a non-interlaced frame, the non-empty Adam7 pass rows otherwise) and `avail`, the
  number of bytes its data sequence inflates to (fewer than `Σ rowlens` -> `NoMoreImageData`, more -> discarded);
* all input is present (no `UnexpectedEof` inside the file: truncation is C05's business), the file ends with
  `IEND`, filter bytes are valid, `Limits` are not exceeded, the caller's buffers are large enough;
* pixel values, `Info`, transformations are not modelled: a result says WHICH row / frame was delivered.

Every `assert!` / `unreachable!` / violated prerequisite on the modelled path is an explicit `Res.panic`.
Core Lean only (linked into `pngmodel`).
-/
namespace Png.Lazy

/-- one (sub)frame of the file -/
structure Frame where
  /-- `rowlen` (filter byte included) of each row-unit, in delivery order -/
  rowlens : List Nat
  /-- the number of bytes the frame's `IDAT` / `fdAT` sequence inflates to -/
  avail : Nat
deriving Repr, DecidableEq

/-- How the bytes of one data sequence come out over successive `decode_image_data` calls
    (read_decoder.rs:124-140): `pulls` = the calls answering `ExpectingMoreData` with that many new bytes each
    (0 for events such as `ChunkBegin`), then ONE call answering `Done` that brings `last` more bytes
    (`ImageDataFlushed`: what `finish_compressed_chunks` still had to hand out). -/
structure Arrival where
  pulls : List Nat
  last : Nat
deriving Repr, DecidableEq

def Arrival.total (a : Arrival) : Nat := a.pulls.sum + a.last

/-- the eager inflater of `Model/Reader.lean`: everything in the first pull, nothing with `Done` -/
def Arrival.eager (n : Nat) : Arrival := ⟨[n], 0⟩
/-- the laziest inflater: everything together with `Done` -/
def Arrival.lazyAll (n : Nat) : Arrival := ⟨[], n⟩

/-- the file and its image-data source -/
structure Env where
  /-- `info().interlaced` (selects the branch of `next_frame`, mod.rs:446) -/
  interlaced : Bool
  frames : List Frame
  /-- one arrival per frame -/
  arrs : List Arrival
deriving Repr

/-- the source hands out exactly the bytes of each frame -/
def Env.Valid (e : Env) : Prop :=
  e.arrs.length = e.frames.length ∧
  ∀ (k : Nat) (f : Frame) (a : Arrival), e.frames[k]? = some f → e.arrs[k]? = some a → a.total = f.avail

/-- `Env.Valid` as a check -/
def Env.validB (e : Env) : Bool :=
  e.arrs.length == e.frames.length && (e.frames.zip e.arrs).all fun fa => fa.2.total == fa.1.avail

inductive ErrC
  /-- `ParameterErrorKind::PolledAfterEndOfImage` -/
  | polled
  /-- `FormatErrorInner::NoMoreImageData` (mod.rs:677) -/
  | noMoreImageData
  /-- `FormatErrorInner::MissingImageData` (read_decoder.rs:108) -/
  | missingImageData
  /-- `UnexpectedEof`: a read after `IEND` was consumed (read_decoder.rs:64-66) -/
  | eof
deriving Repr, DecidableEq

inductive Site
  /-- `assert!(self.remaining_frames > 0)` (mod.rs:482) -/
  | markAssert
  /-- `assert!(self.subframe.current_interlace_info.is_none())` (mod.rs:493) -/
  | finishAssert
  /-- `decode_image_data` outside a data sequence: `unreachable!` (read_decoder.rs:138) -/
  | pullOutside
  /-- `read_until_image_data` inside a data sequence: `assert!(buf.is_empty())` (read_decoder.rs:79) -/
  | readInside
  /-- a loop of the model ran out of fuel (model artefact; shown impossible) -/
  | fuel
deriving Repr, DecidableEq

/-- the observable result of one public call -/
inductive Res
  /-- `Ok(Some(row))`: row-unit `i` of frame `k` -/
  | row (k i : Nat)
  /-- `Ok(None)` -/
  | none
  /-- `next_frame` succeeded on frame `k`; `written` = the row-units this call wrote into the caller's buffer -/
  | frame (k : Nat) (written : List Nat)
  /-- `next_frame_info` succeeded: now at frame `k` -/
  | fctl (k : Nat)
  /-- `finish` succeeded -/
  | ok
  | err (c : ErrC)
  | panic (s : Site)
deriving Repr, DecidableEq

/-- the protocol fields of `Reader` (mod.rs:299-333) and of the input position -/
structure St where
  /-- `remaining_frames` -/
  rem : Nat
  /-- index (in `Env.frames`) of the frame whose data sequence was reached last -/
  fi : Nat
  /-- `subframe`: the row lengths the `interlace_info_iter` of this subframe runs over -/
  sub : List Nat
  /-- `subframe.current_interlace_info`: the row-unit to be delivered next -/
  cur : Option Nat
  /-- `subframe.consumed_and_flushed` -/
  caf : Bool
  /-- `unfiltering_buffer.curr_row_len()`: bytes buffered and not yet consumed by a row -/
  buf : Nat
  /-- `finished` -/
  finished : Bool
  /-- where we are in the data sequence of frame `fi`: the steps still to come; `none` = not inside a data
      sequence (its `Done` step was taken) -/
  src : Option Arrival
  /-- `IEND` has been consumed -/
  atEnd : Bool
deriving Repr, DecidableEq

def firstRow (sub : List Nat) : Option Nat := if 0 < sub.length then some 0 else none

/-- `interlace_info_iter.next()` after row-unit `cur` (mod.rs:617) -/
def advance (s : St) : Option Nat :=
  match s.cur with
  | some i => if i + 1 < s.sub.length then some (i + 1) else none
  | none => none

def srcLen : Option Arrival → Nat
  | none => 0
  | some a => a.pulls.length + 1

def srcTotal : Option Arrival → Nat
  | none => 0
  | some a => a.total

def fuelOf (s : St) : Nat := srcLen s.src + 1

/-- The state after `Decoder::read_info` (mod.rs:189-249): `read_until_image_data` reached the first data
    sequence; `rem0` = the initial `remaining_frames` (1 for a still image, `num_frames [+1]`, at least 1).
    `none`: no image data at all (`read_info` fails, no `Reader`). -/
def init (e : Env) (rem0 : Nat) : Option St :=
  match e.frames[0]?, e.arrs[0]? with
  | some f, some a =>
    some { rem := rem0, fi := 0, sub := f.rowlens, cur := firstRow f.rowlens, caf := false, buf := 0,
           finished := false, src := some a, atEnd := false }
  | _, _ => none

inductive Pull
  | more (n : Nat)
  | done (m : Nat)
  | outside

/-- `ReadDecoder::decode_image_data` (read_decoder.rs:124-140): the next step of the arrival -/
def pull (s : St) : St × Pull :=
  match s.src with
  | none => (s, .outside)
  | some ⟨[], m⟩ => ({ s with src := none }, .done m)
  | some ⟨n :: ns, m⟩ => ({ s with src := some ⟨ns, m⟩ }, .more n)

/-- `mark_subframe_as_consumed_and_flushed` (mod.rs:481-486) -/
def mark (s : St) : Except Res St :=
  if s.rem = 0 then .error (.panic .markAssert)
  else .ok { s with rem := s.rem - 1, caf := true }

/-- `next_raw_interlaced_row` (mod.rs:672-691); `none` = `Ok(())` -/
def nextRaw (rowlen : Nat) : Nat → St → St × Option Res
  | 0, s => (s, some (.panic .fuel))
  | fuel + 1, s =>
    if s.buf < rowlen then                                       -- mod.rs:674
      if s.caf then (s, some (.err .noMoreImageData)) else       -- mod.rs:675-678
      match pull s with                                          -- mod.rs:681-683
      | (s', .outside) => (s', some (.panic .pullOutside))
      | (s', .more n) => nextRaw rowlen fuel { s' with buf := s'.buf + n }    -- mod.rs:685
      | (s', .done m) =>                                         -- mod.rs:686
        match mark { s' with buf := s'.buf + m } with
        | .error e => ({ s' with buf := s'.buf + m }, some e)
        | .ok s2 => nextRaw rowlen fuel s2
    else ({ s with buf := s.buf - rowlen }, none)                -- mod.rs:690 `unfilter_curr_row`

/-- `next_interlaced_row_impl` (mod.rs:599-619) for row-unit `i` -/
def rowImpl (s : St) (i : Nat) : St × Option Res :=
  match nextRaw (s.sub.getD i 0) (fuelOf s) s with
  | (s', some e) => (s', some e)
  | (s', none) => ({ s' with cur := advance s' }, none)          -- mod.rs:617

/-- `ReadDecoder::finish_decoding_image_data` (read_decoder.rs:145-152) -/
def discard : Nat → St → St × Option Res
  | 0, s => (s, some (.panic .fuel))
  | fuel + 1, s =>
    match pull s with
    | (s', .outside) => (s', some (.panic .pullOutside))
    | (s', .done _) => (s', none)
    | (s', .more _) => discard fuel s'

/-- `finish_decoding` (mod.rs:490-502) -/
def finishDecoding (s : St) : St × Option Res :=
  if s.cur.isSome then (s, some (.panic .finishAssert)) else     -- mod.rs:493
  if s.caf then (s, none) else                                   -- mod.rs:496
  match discard (fuelOf s) s with                                -- mod.rs:497
  | (s', some e) => (s', some e)
  | (s', none) =>
    match mark s' with                                           -- mod.rs:498
    | .error e => (s', some e)
    | .ok s2 => (s2, none)

/-- `Reader::read_until_image_data` (mod.rs:370-391) on top of `ReadDecoder::read_until_image_data`
    (read_decoder.rs:103-118): on to the data sequence of the next frame -/
def readUntilImageData (e : Env) (s : St) : St × Option Res :=
  if s.atEnd then (s, some (.err .eof)) else                     -- read_decoder.rs:64-66
  if s.src.isSome then (s, some (.panic .readInside)) else       -- read_decoder.rs:79
  match e.frames[s.fi + 1]?, e.arrs[s.fi + 1]? with
  | some f, some a =>
    ({ s with fi := s.fi + 1, sub := f.rowlens, cur := firstRow f.rowlens, caf := false, buf := 0,
              src := some a }, none)                             -- mod.rs:386-388
  | _, _ => ({ s with atEnd := true }, some (.err .missingImageData))   -- read_decoder.rs:107-111

/-- `read_row` (mod.rs:540-567) with a buffer that is large enough = `next_interlaced_row` = `next_row` -/
def nextRow (s : St) : St × Res :=
  match s.cur with
  | none =>
    match finishDecoding s with                                  -- mod.rs:546
    | (s', some e) => (s', e)
    | (s', none) => (s', .none)
  | some i =>
    match rowImpl s i with                                       -- mod.rs:564
    | (s', some e) => (s', e)
    | (s', none) => (s', .row s.fi i)

/-- the row loop of `next_frame`, non-interlaced (mod.rs:461-472): `n` more rows starting with row `j` -/
def frameRows : Nat → Nat → St → List Nat → St × List Nat × Option Res
  | 0, _, s, w => (s, w, none)
  | n + 1, j, s, w =>
    match rowImpl s j with                                       -- mod.rs:471
    | (s', some e) => (s', w, some e)
    | (s', none) => frameRows n (j + 1) s' (w ++ [j])

/-- the row loop of `next_frame`, interlaced (mod.rs:450-459): `next_interlaced_row` until `None` -/
def frameInterlaced : Nat → St → List Nat → St × List Nat × Option Res
  | 0, s, w => (s, w, some (.panic .fuel))
  | fuel + 1, s, w =>
    match nextRow s with
    | (s', .row _ i) => frameInterlaced fuel s' (w ++ [i])
    | (s', .none) => (s', w, none)
    | (s', r) => (s', w, some r)

/-- `next_frame` once the reader stands in the frame's image data (mod.rs:427-478): the row loop, then
    `finish_decoding` -/
def frameInto (e : Env) (s1 : St) : St × Res :=
  let body :=
    if e.interlaced then frameInterlaced (s1.sub.length + 2) s1 []
    else
      let done := s1.cur.getD s1.sub.length                      -- `already_done_rows` (mod.rs:462-464)
      frameRows (s1.sub.length - done) done s1 []
  match body with
  | (s2, _, some r) => (s2, r)
  | (s2, w, none) =>
    match finishDecoding s2 with                                 -- mod.rs:476
    | (s3, some r) => (s3, r)
    | (s3, none) => (s3, .frame s1.fi w)

/-- `next_frame` (mod.rs:413-479) with a buffer of `output_buffer_size()` bytes -/
def nextFrame (e : Env) (s : St) : St × Res :=
  let adv : St × Option Res :=
    if s.cur.isSome then (s, none)                               -- mod.rs:414-416 (repair 429476f)
    else if s.rem = 0 then (s, some (.err .polled))              -- mod.rs:417-420
    else if s.caf then readUntilImageData e s                    -- mod.rs:421-424
    else (s, none)
  match adv with
  | (s1, some r) => (s1, r)
  | (s1, none) => frameInto e s1

/-- `next_frame_info` (mod.rs:343-366) -/
def nextFrameInfo (e : Env) (s : St) : St × Res :=
  let r := if s.caf then s.rem else s.rem - 1                    -- mod.rs:344-349 (`saturating_sub`)
  if r = 0 then (s, .err .polled) else                           -- mod.rs:350-354
  let fin : St × Option Res :=
    if !s.caf then finishDecoding { s with cur := none }         -- mod.rs:356-359
    else (s, none)
  match fin with
  | (s1, some r) => (s1, r)
  | (s1, none) =>
    match readUntilImageData e s1 with                           -- mod.rs:360
    | (s2, some r) => (s2, r)
    | (s2, none) => (s2, .fctl s2.fi)

/-- `finish` (mod.rs:579-596) -/
def finish (s : St) : St × Res :=
  if s.finished then (s, .err .polled) else                      -- mod.rs:580-584
  let s := { s with rem := 0, buf := 0, cur := none, caf := true }   -- mod.rs:586-591
  if s.atEnd then (s, .err .eof) else                            -- read_decoder.rs:64-66
  ({ s with src := none, atEnd := true, finished := true }, .ok) -- mod.rs:592-595

inductive Op
  | nextFrame | nextRow | nextFrameInfo | finish
deriving Repr, DecidableEq

def step (e : Env) (s : St) : Op → St × Res
  | .nextFrame => nextFrame e s
  | .nextRow => nextRow s
  | .nextFrameInfo => nextFrameInfo e s
  | .finish => finish s

/-- a sequence of calls; the results in order -/
def run (e : Env) : St → List Op → St × List Res
  | s, [] => (s, [])
  | s, op :: ops =>
    let (s1, r) := step e s op
    let (s2, rs) := run e s1 ops
    (s2, r :: rs)

/-! ## Specification: the same calls without a data source

`Spec.step` says what each call answers from the file alone: row-unit `i` of a frame can be delivered iff the
frame's data covers rows `0..i` (`Frame.covers`).  The only thing the file does not determine is whether the end
of the data sequence has already been seen after a row call delivered a row (`caf`): that bit is an explicit
oracle input `b` of the step.  `Props/C04Lazy.lean`: every run of the model above is a run of this specification
for some oracle bits (namely the `caf` values of the run), for every arrival. -/

/-- bytes needed for row-units `0..i-1` -/
def upto (sub : List Nat) (i : Nat) : Nat := (sub.take i).sum

/-- the data of the frame covers row-units `0..i` -/
def covers (sub : List Nat) (avail i : Nat) : Bool := upto sub (i + 1) ≤ avail

/-- how many leading row-units the data covers -/
def nDeliv : List Nat → Nat → Nat
  | [], _ => 0
  | l :: ls, a => if l ≤ a then nDeliv ls (a - l) + 1 else 0

namespace Spec

/-- `St` without the data source and its buffer -/
structure A where
  rem : Nat
  fi : Nat
  sub : List Nat
  cur : Option Nat
  caf : Bool
  finished : Bool
  atEnd : Bool
deriving Repr, DecidableEq

def availOf (frames : List Frame) (k : Nat) : Nat := (frames[k]?.map (·.avail)).getD 0

def advance (a : A) : Option Nat :=
  match a.cur with
  | some i => if i + 1 < a.sub.length then some (i + 1) else none
  | none => none

/-- the frame is left: its data sequence is consumed to the end -/
def close (a : A) : A := if a.caf then a else { a with rem := a.rem - 1, caf := true }

def readUntilImageData (frames : List Frame) (a : A) : A × Option Res :=
  if a.atEnd then (a, some (.err .eof)) else
  match frames[a.fi + 1]? with
  | some f => ({ a with fi := a.fi + 1, sub := f.rowlens, cur := firstRow f.rowlens, caf := false }, none)
  | none => ({ a with atEnd := true }, some (.err .missingImageData))

def nextRow (frames : List Frame) (a : A) (b : Bool) : A × Res :=
  match a.cur with
  | none => (close a, .none)
  | some i =>
    if covers a.sub (availOf frames a.fi) i then
      -- delivered; whether the end of the data has been seen by now depends on the source
      let a1 := if b then close a else a
      ({ a1 with cur := advance a }, .row a.fi i)
    else (close a, .err .noMoreImageData)

/-- the rest of the current frame: rows `lo..` as far as the data covers them -/
def frameInto (frames : List Frame) (a1 : A) : A × Res :=
  let lo := a1.cur.getD a1.sub.length
  let j := max lo (nDeliv a1.sub (availOf frames a1.fi))
  if j < a1.sub.length then ({ close a1 with cur := some j }, .err .noMoreImageData)
  else ({ close a1 with cur := none }, .frame a1.fi (List.range' lo (a1.sub.length - lo)))

def nextFrame (frames : List Frame) (a : A) : A × Res :=
  let adv : A × Option Res :=
    if a.cur.isSome then (a, none)
    else if a.rem = 0 then (a, some (.err .polled))
    else if a.caf then readUntilImageData frames a
    else (a, none)
  match adv with
  | (a1, some r) => (a1, r)
  | (a1, none) => frameInto frames a1

def nextFrameInfo (frames : List Frame) (a : A) : A × Res :=
  let r := if a.caf then a.rem else a.rem - 1
  if r = 0 then (a, .err .polled) else
  match readUntilImageData frames (close { a with cur := if a.caf then a.cur else none }) with
  | (a2, some r) => (a2, r)
  | (a2, none) => (a2, .fctl a2.fi)

def finish (a : A) : A × Res :=
  if a.finished then (a, .err .polled) else
  let a := { a with rem := 0, cur := none, caf := true }
  if a.atEnd then (a, .err .eof) else
  ({ a with atEnd := true, finished := true }, .ok)

/-- one call; `b` = the oracle bit (only read by a row call that delivers a row) -/
def step (frames : List Frame) (a : A) (op : Op) (b : Bool) : A × Res :=
  match op with
  | .nextFrame => nextFrame frames a
  | .nextRow => nextRow frames a b
  | .nextFrameInfo => nextFrameInfo frames a
  | .finish => finish a

/-- a sequence of calls with one oracle bit per call (missing bits count as `false`) -/
def run (frames : List Frame) : A → List Op → List Bool → A × List Res
  | a, [], _ => (a, [])
  | a, op :: ops, bs =>
    let (a1, r) := step frames a op (bs.headD false)
    let (a2, rs) := run frames a1 ops bs.tail
    (a2, r :: rs)

def init (frames : List Frame) (rem0 : Nat) : Option A :=
  match frames[0]? with
  | some f => some { rem := rem0, fi := 0, sub := f.rowlens, cur := firstRow f.rowlens, caf := false,
                     finished := false, atEnd := false }
  | none => none

end Spec

/-! ## Vocabulary of the delivery-independence statement -/

/-- the number of row-units of frame `k` of the file -/
def rowsLen (fr : List Frame) (k : Nat) : Nat := (fr[k]?.map (·.rowlens.length)).getD 0

/-- Is the reader, after call `op` answered `r`, in the state "all rows of the current frame were delivered by row
    calls and nothing has closed the frame yet" (the state of finding D24)?  `u` = was it before the call.
    A row call that delivers the last row-unit of its frame enters the state; a refused `next_frame_info` / `finish`
    (`PolledAfterEndOfImage`: nothing happens) stays in it; everything else leaves it. -/
def track (fr : List Frame) (u : Bool) (op : Op) (r : Res) : Bool :=
  match op, r with
  | .nextRow, .row k i => i + 1 == rowsLen fr k
  | .nextFrameInfo, .err .polled => u
  | .finish, .err .polled => u
  | _, _ => false

/-- a failed `read_until_image_data` (the file has fewer frames than it declares, or a read after `IEND`) -/
def fatal (r : Res) : Bool := r == .err .missingImageData || r == .err .eof

/-- `Polled`: `next_frame` is never issued in the D24 state (up to the first `fatal` result); `ops` = the calls,
    the third argument = their results -/
def polledRes (fr : List Frame) : Bool → List Op → List Res → Bool
  | u, op :: ops, r :: rs => (op != .nextFrame || !u) && (fatal r || polledRes fr (track fr u op r) ops rs)
  | _, _, _ => true

/-- the narrower class: neither `next_frame` nor `next_frame_info` nor `finish` is issued in the D24 state -/
def polledStrictRes (fr : List Frame) : Bool → List Op → List Res → Bool
  | u, op :: ops, r :: rs => (op == .nextRow || !u) && (fatal r || polledStrictRes fr (track fr u op r) ops rs)
  | _, _, _ => true

/-- the results up to and including the first `fatal` one -/
def cutFatal : List Res → List Res
  | [] => []
  | r :: rs => if fatal r then [r] else r :: cutFatal rs

/-! ## Vocabulary of the row-accounting statement -/

/-- the frame a result speaks about -/
def frameOf : Res → Option Nat
  | .row k _ => some k
  | .frame k _ => some k
  | .fctl k => some k
  | _ => none

/-- the row-units of frame `k` a result hands to the caller -/
def rowsOf (k : Nat) : Res → List Nat
  | .row k' i => if k' = k then [i] else []
  | .frame k' w => if k' = k then w else []
  | _ => []

/-- all row-units of frame `k` handed to the caller during a run, in order -/
def delivered (k : Nat) (rs : List Res) : List Nat := rs.flatMap (rowsOf k)

def rowlensOf (fr : List Frame) (k : Nat) : List Nat := (fr[k]?.map (·.rowlens)).getD []

/-- the rows a result hands out are covered by the data of their frame -/
def Backed (fr : List Frame) : Res → Prop
  | .row k i => covers (rowlensOf fr k) (Spec.availOf fr k) i = true
  | .frame k w => ∀ i ∈ w, covers (rowlensOf fr k) (Spec.availOf fr k) i = true
  | _ => True

/-- forget the data source -/
def St.abs (s : St) : Spec.A :=
  { rem := s.rem, fi := s.fi, sub := s.sub, cur := s.cur, caf := s.caf, finished := s.finished, atEnd := s.atEnd }

end Png.Lazy
