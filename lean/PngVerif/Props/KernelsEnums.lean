import PngVerif.Generated.KernelsEnums
import PngVerif.Model.Basic
import PngVerif.Model.Filter
import PngVerif.Model.Transform
import PngVerif.Model.Framing
import PngVerif.Model.Validator
import PngVerif.Proofs.KernelTactic
/-!
# Tie A, part 2 (translator): the byte → enum decoders of `src/common.rs` / `src/filter.rs` and the chunk-type bit tests of `src/chunk.rs`

`Generated/KernelsEnums.lean` is rewritten by `tools/rs2lean.py` from the Rust source on every run.  An enum value is carried as its
discriminant (read from the `enum` declaration), `Option<Enum>` as `Option Int`.

* `ColorType::from_u8`, `BitDepth::from_u8`, `Unit::from_u8`, `DisposeOp::from_u8`, `BlendOp::from_u8`,
  `SrgbRenderingIntent::from_raw`, `RowFilter::from_u8`: for EVERY byte the translated function accepts exactly what the models accept
  (`colorOk` / `depthOk` of `Model/Basic.lean`, used by `Framing.parseIhdr`; `Transform.ColorType.ofNat?` / `BitDepth.ofNat?`;
  the tests `u > 1`, `dis > 2`, `bl > 1`, `r > 3` of `Framing.parsePhys` / `parseFctl` / `parseSrgb` and of `Val.checkFctl`;
  `FilterType.ofNat?` of `Model/Filter.lean`) and returns the variant whose discriminant IS the byte — which is what lets the models
  carry these values as the bytes themselves.  The proofs evaluate the translated function on all 256 bytes (`allBytes`), so they do
  not depend on how the Rust function is written (a `match`, an `if` chain, a range test).
* `chunk::is_critical`, `is_private`, `reserved_set`, `safe_to_copy`: for every four type bytes, bit 5 of byte 0 / 1 / 2 / 3, as
  `Framing.isCritical` and `Val.tyCritical` / `tyPrivate` / `tyReservedOk` compute it on the big-endian number of the four bytes.
-/
namespace Png.Kernels
open Png

/-- a Bool property of all 256 byte values, checked by evaluation -/
def allBytes (p : Nat → Bool) : Bool := (List.range 256).all p

theorem allBytes_spec {p : Nat → Bool} (h : allBytes p = true) {n : Nat} (hn : n < 256) : p n = true := by
  unfold allBytes at h
  rw [List.all_eq_true] at h
  exact h n (List.mem_range.mpr hn)

/-- `Option Int` against `Option Nat` -/
def optEq (a : Option Int) (b : Option Nat) : Bool := a == b.map Int.ofNat

theorem optEq_spec {a : Option Int} {b : Option Nat} (h : optEq a b = true) : a = b.map Int.ofNat := by
  simpa [optEq] using h

/-- `ColorType::from_u8` (common.rs:42): `Some` exactly on the bytes `colorOk` accepts (`Framing.parseIhdr`: `InvalidColorType`
    otherwise), and then the variant with that discriminant; the same function as `Transform.ColorType.ofNat?` -/
theorem kernel_color_from_u8 (n : Nat) (hn : n < 256) :
    Gen.ColorType_from_u8 n = (if colorOk n then some n else none : Option Nat).map Int.ofNat ∧
    Gen.ColorType_from_u8 n = ((Transform.ColorType.ofNat? n).map Transform.ColorType.toNat).map Int.ofNat ∧
    Gen.ColorType_from_u8_ok n = true := by
  have h := allBytes_spec (p := fun n =>
    optEq (Gen.ColorType_from_u8 n) (if colorOk n then some n else none) &&
    optEq (Gen.ColorType_from_u8 n) ((Transform.ColorType.ofNat? n).map Transform.ColorType.toNat) &&
    Gen.ColorType_from_u8_ok n) (by decide +kernel) hn
  simp only [Bool.and_eq_true] at h
  exact ⟨optEq_spec h.1.1, optEq_spec h.1.2, h.2⟩

/-- `BitDepth::from_u8` (common.rs:123): `depthOk` (`Framing.parseIhdr`: `InvalidBitDepth` otherwise), `Transform.BitDepth.ofNat?` -/
theorem kernel_depth_from_u8 (n : Nat) (hn : n < 256) :
    Gen.BitDepth_from_u8 n = (if depthOk n then some n else none : Option Nat).map Int.ofNat ∧
    Gen.BitDepth_from_u8 n = ((Transform.BitDepth.ofNat? n).map Transform.BitDepth.toNat).map Int.ofNat ∧
    Gen.BitDepth_from_u8_ok n = true := by
  have h := allBytes_spec (p := fun n =>
    optEq (Gen.BitDepth_from_u8 n) (if depthOk n then some n else none) &&
    optEq (Gen.BitDepth_from_u8 n) ((Transform.BitDepth.ofNat? n).map Transform.BitDepth.toNat) &&
    Gen.BitDepth_from_u8_ok n) (by decide +kernel) hn
  simp only [Bool.and_eq_true] at h
  exact ⟨optEq_spec h.1.1, optEq_spec h.1.2, h.2⟩

/-- the fifteen legal pairs: what `from_u8` twice followed by `is_combination_invalid` lets through is `legalPairs`
    (`Model/Basic.lean`; `Props/KernelsCommon.kernel_combination_invalid` is the third ingredient: it is stated for the values that
    passed the two `from_u8`, `colorOk c` and `depthOk d`, which is exactly where the first two conjuncts here are `true`; off that
    domain `is_combination_invalid` is never called and nothing is claimed about it) -/
theorem kernel_legal_pairs (c d : Nat) (hc : c < 256) (hd : d < 256) :
    ((Gen.ColorType_from_u8 c).isSome && (Gen.BitDepth_from_u8 d).isSome && !combinationInvalid c d) = decide ((c, d) ∈ legalPairs) := by
  have hcn := (kernel_color_from_u8 c hc).1
  have hdn := (kernel_depth_from_u8 d hd).1
  rw [hcn, hdn]
  by_cases h1 : colorOk c = true <;> by_cases h2 : depthOk d = true
  · have hc' : c = 0 ∨ c = 2 ∨ c = 3 ∨ c = 4 ∨ c = 6 := by simp [colorOk] at h1; omega
    have hd' : d = 1 ∨ d = 2 ∨ d = 4 ∨ d = 8 ∨ d = 16 := by simp [depthOk] at h2; omega
    rcases hc' with h | h | h | h | h <;> subst h <;> rcases hd' with h | h | h | h | h <;> subst h <;> decide
  · have : ∀ p ∈ legalPairs, depthOk p.2 = true := by decide
    have hn : (c, d) ∉ legalPairs := fun hm => h2 (this _ hm)
    simp [h1, h2, hn]
  · have : ∀ p ∈ legalPairs, colorOk p.1 = true := by decide
    have hn : (c, d) ∉ legalPairs := fun hm => h1 (this _ hm)
    simp [h1, hn]
  · have : ∀ p ∈ legalPairs, colorOk p.1 = true := by decide
    have hn : (c, d) ∉ legalPairs := fun hm => h1 (this _ hm)
    simp [h1, hn]

/-- `Unit::from_u8` (common.rs:160): the test `u > 1 → InvalidUnit` of `Framing.parsePhys` -/
theorem kernel_unit_from_u8 (n : Nat) (hn : n < 256) :
    Gen.Unit_from_u8 n = (if n > 1 then none else some n : Option Nat).map Int.ofNat ∧ Gen.Unit_from_u8_ok n = true := by
  have h := allBytes_spec (p := fun n =>
    optEq (Gen.Unit_from_u8 n) (if n > 1 then none else some n) && Gen.Unit_from_u8_ok n) (by decide +kernel) hn
  simp only [Bool.and_eq_true] at h
  exact ⟨optEq_spec h.1, h.2⟩

/-- `DisposeOp::from_u8` (common.rs:183): the test `dis > 2 → InvalidDisposeOp` of `Framing.parseFctl` (`fctl-dispose-op` of
    `Val.checkFctl`, `FC.inRange` of the encoder model: `dispose ≤ 2`) -/
theorem kernel_dispose_from_u8 (n : Nat) (hn : n < 256) :
    Gen.DisposeOp_from_u8 n = (if n > 2 then none else some n : Option Nat).map Int.ofNat ∧ Gen.DisposeOp_from_u8_ok n = true := by
  have h := allBytes_spec (p := fun n =>
    optEq (Gen.DisposeOp_from_u8 n) (if n > 2 then none else some n) && Gen.DisposeOp_from_u8_ok n) (by decide +kernel) hn
  simp only [Bool.and_eq_true] at h
  exact ⟨optEq_spec h.1, h.2⟩

/-- `BlendOp::from_u8` (common.rs:216): the test `bl > 1 → InvalidBlendOp` of `Framing.parseFctl` -/
theorem kernel_blend_from_u8 (n : Nat) (hn : n < 256) :
    Gen.BlendOp_from_u8 n = (if n > 1 then none else some n : Option Nat).map Int.ofNat ∧ Gen.BlendOp_from_u8_ok n = true := by
  have h := allBytes_spec (p := fun n =>
    optEq (Gen.BlendOp_from_u8 n) (if n > 1 then none else some n) && Gen.BlendOp_from_u8_ok n) (by decide +kernel) hn
  simp only [Bool.and_eq_true] at h
  exact ⟨optEq_spec h.1, h.2⟩

/-- `SrgbRenderingIntent::from_raw` (common.rs:541): the test `r > 3 → InvalidSrgbRenderingIntent` of `Framing.parseSrgb`;
    `into_raw` is its inverse on the four intents (what `Enc.preChunks` writes as the sRGB byte) -/
theorem kernel_srgb_from_raw (n : Nat) (hn : n < 256) :
    Gen.SrgbRenderingIntent_from_raw n = (if n > 3 then none else some n : Option Nat).map Int.ofNat ∧
    Gen.SrgbRenderingIntent_from_raw_ok n = true ∧
    (n ≤ 3 → Gen.SrgbRenderingIntent_into_raw n = n ∧ Gen.SrgbRenderingIntent_into_raw_ok n = true ∧
             Gen.SrgbRenderingIntent_from_raw (Gen.SrgbRenderingIntent_into_raw n) = some (n : Int)) := by
  have h := allBytes_spec (p := fun n =>
    optEq (Gen.SrgbRenderingIntent_from_raw n) (if n > 3 then none else some n) && Gen.SrgbRenderingIntent_from_raw_ok n &&
    (decide (n ≤ 3) → (Gen.SrgbRenderingIntent_into_raw n == (n : Int) && Gen.SrgbRenderingIntent_into_raw_ok n &&
       Gen.SrgbRenderingIntent_from_raw (Gen.SrgbRenderingIntent_into_raw n) == some (n : Int)))) (by decide +kernel) hn
  simp only [Bool.and_eq_true, decide_eq_true_eq, beq_iff_eq] at h
  refine ⟨optEq_spec h.1.1, h.1.2, fun h3 => ?_⟩
  have := h.2
  simp only [h3, forall_const] at this
  exact ⟨this.1.1, this.1.2, this.2⟩

/-- `RowFilter::from_u8` (filter.rs:290): `FilterType.ofNat?` of `Model/Filter.lean` (the filter byte of a scanline) -/
theorem kernel_rowfilter_from_u8 (n : Nat) (hn : n < 256) :
    Gen.RowFilter_from_u8 n = ((FilterType.ofNat? n).map FilterType.toNat).map Int.ofNat ∧
    Gen.RowFilter_from_u8 n = (if n ≤ 4 then some n else none : Option Nat).map Int.ofNat ∧
    Gen.RowFilter_from_u8_ok n = true := by
  have h := allBytes_spec (p := fun n =>
    optEq (Gen.RowFilter_from_u8 n) ((FilterType.ofNat? n).map FilterType.toNat) &&
    optEq (Gen.RowFilter_from_u8 n) (if n ≤ 4 then some n else none) &&
    Gen.RowFilter_from_u8_ok n) (by decide +kernel) hn
  simp only [Bool.and_eq_true] at h
  exact ⟨optEq_spec h.1.1, optEq_spec h.1.2, h.2⟩

/-- the four type bytes as the number the models carry (`Framing.mkType`, `Val.Ty`) -/
def typeNum (b0 b1 b2 b3 : Nat) : Nat := ((b0 * 256 + b1) * 256 + b2) * 256 + b3

theorem typeNum_bytes (b0 b1 b2 b3 : Nat) (_h0 : b0 < 256) (h1 : b1 < 256) (h2 : b2 < 256) (h3 : b3 < 256) :
    typeNum b0 b1 b2 b3 / 16777216 = b0 ∧ typeNum b0 b1 b2 b3 / 65536 % 256 = b1 ∧
    typeNum b0 b1 b2 b3 / 256 % 256 = b2 ∧ typeNum b0 b1 b2 b3 % 256 = b3 ∧ typeNum b0 b1 b2 b3 / 32 % 2 = b3 / 32 % 2 := by
  unfold typeNum; omega

/-- the models' bit tests on the number, in terms of the byte concerned (`Framing.ChunkType` and `Val.Ty` are abbreviations of
    `Nat`; the right-hand sides are stated over `Nat` itself so that `omega` reads them) -/
theorem model_bits (b0 b1 b2 b3 : Nat) (h0 : b0 < 256) (h1 : b1 < 256) (h2 : b2 < 256) (h3 : b3 < 256) :
    Framing.isCritical (typeNum b0 b1 b2 b3) = decide (b0 % 64 < 32) ∧
    Val.tyCritical (typeNum b0 b1 b2 b3) = (b0 % 256 / 32 % 2 == 0) ∧
    Val.tyPrivate (typeNum b0 b1 b2 b3) = (b1 / 32 % 2 == 1) ∧
    Val.tyReservedOk (typeNum b0 b1 b2 b3) = (b2 / 32 % 2 == 0) := by
  obtain ⟨e0, e1, e2, -, -⟩ := typeNum_bytes b0 b1 b2 b3 h0 h1 h2 h3
  refine ⟨?_, ?_, ?_, ?_⟩
  · show decide (typeNum b0 b1 b2 b3 / 16777216 % 64 < 32) = _
    rw [e0]
  · show (typeNum b0 b1 b2 b3 / 16777216 % 256 / 32 % 2 == 0) = _
    rw [e0]
  · show (typeNum b0 b1 b2 b3 / 65536 % 256 / 32 % 2 == 1) = _
    rw [e1]
  · show (typeNum b0 b1 b2 b3 / 256 % 256 / 32 % 2 == 0) = _
    rw [e2]

/-- `chunk::is_critical` (chunk.rs:67): bit 5 of the first type byte is clear — `Framing.isCritical`, `Val.tyCritical` -/
theorem kernel_is_critical (b0 b1 b2 b3 : Nat) (h0 : b0 < 256) (h1 : b1 < 256) (h2 : b2 < 256) (h3 : b3 < 256) :
    Gen.is_critical b0 b1 b2 b3 = Framing.isCritical (typeNum b0 b1 b2 b3) ∧
    Gen.is_critical b0 b1 b2 b3 = Val.tyCritical (typeNum b0 b1 b2 b3) ∧
    Gen.is_critical b0 b1 b2 b3 = !b0.testBit 5 ∧ Gen.is_critical_ok b0 b1 b2 b3 = true := by
  obtain ⟨m0, m1, -, -⟩ := model_bits b0 b1 b2 b3 h0 h1 h2 h3
  rw [m0, m1]
  refine ⟨?_, ?_, ?_, rfl⟩ <;> rw [Bool.eq_iff_iff] <;>
    simp [Gen.is_critical, Nat.testBit, Nat.shiftRight_eq_div_pow] <;> omega

/-- `chunk::is_private` (chunk.rs:72): bit 5 of the second type byte is set — `Val.tyPrivate` -/
theorem kernel_is_private (b0 b1 b2 b3 : Nat) (h0 : b0 < 256) (h1 : b1 < 256) (h2 : b2 < 256) (h3 : b3 < 256) :
    Gen.is_private b0 b1 b2 b3 = Val.tyPrivate (typeNum b0 b1 b2 b3) ∧
    Gen.is_private b0 b1 b2 b3 = b1.testBit 5 ∧ Gen.is_private_ok b0 b1 b2 b3 = true := by
  obtain ⟨-, -, m2, -⟩ := model_bits b0 b1 b2 b3 h0 h1 h2 h3
  rw [m2]
  refine ⟨?_, ?_, rfl⟩ <;> rw [Bool.eq_iff_iff] <;>
    simp [Gen.is_private, Nat.testBit, Nat.shiftRight_eq_div_pow] <;> omega

/-- `chunk::reserved_set` (chunk.rs:78): bit 5 of the third type byte is set — the negation of `Val.tyReservedOk` -/
theorem kernel_reserved_set (b0 b1 b2 b3 : Nat) (h0 : b0 < 256) (h1 : b1 < 256) (h2 : b2 < 256) (h3 : b3 < 256) :
    Gen.reserved_set b0 b1 b2 b3 = !Val.tyReservedOk (typeNum b0 b1 b2 b3) ∧
    Gen.reserved_set b0 b1 b2 b3 = b2.testBit 5 ∧ Gen.reserved_set_ok b0 b1 b2 b3 = true := by
  obtain ⟨-, -, -, m3⟩ := model_bits b0 b1 b2 b3 h0 h1 h2 h3
  rw [m3]
  refine ⟨?_, ?_, rfl⟩ <;> rw [Bool.eq_iff_iff] <;>
    simp [Gen.reserved_set, Nat.testBit, Nat.shiftRight_eq_div_pow] <;> omega

/-- `chunk::safe_to_copy` (chunk.rs:83): bit 5 of the fourth type byte is set (no model definition uses it; stated against the bit) -/
theorem kernel_safe_to_copy (b0 b1 b2 b3 : Nat) (h0 : b0 < 256) (h1 : b1 < 256) (h2 : b2 < 256) (h3 : b3 < 256) :
    Gen.safe_to_copy b0 b1 b2 b3 = b3.testBit 5 ∧ Gen.safe_to_copy b0 b1 b2 b3 = decide (typeNum b0 b1 b2 b3 / 32 % 2 = 1) ∧
    Gen.safe_to_copy_ok b0 b1 b2 b3 = true := by
  obtain ⟨-, -, -, -, e4⟩ := typeNum_bytes b0 b1 b2 b3 h0 h1 h2 h3
  rw [e4]
  refine ⟨?_, ?_, rfl⟩ <;> rw [Bool.eq_iff_iff] <;>
    simp [Gen.safe_to_copy, Nat.testBit, Nat.shiftRight_eq_div_pow] <;> omega

/-- `typeNum` is `Framing.mkType` on the characters; `IDAT` is critical, `tEXt` is ancillary and safe to copy, `prVt` is private -/
example : typeNum 73 68 65 84 = Framing.IDAT ∧ Gen.is_critical 73 68 65 84 = true ∧ Gen.is_critical 116 69 88 116 = false ∧
    Gen.safe_to_copy 116 69 88 116 = true ∧ Gen.is_private 112 114 86 116 = true ∧ Gen.reserved_set 112 114 118 116 = true ∧
    Gen.ColorType_from_u8 5 = none ∧ Gen.ColorType_from_u8 6 = some 6 ∧ Gen.BitDepth_from_u8 16 = some 16 ∧
    Gen.DisposeOp_from_u8 3 = none ∧ Gen.RowFilter_from_u8 4 = some 4 ∧ Gen.SrgbRenderingIntent_from_raw 4 = none := by decide

end Png.Kernels
