import PngVerif.Proofs.RoundTripDecode
import PngVerif.Proofs.RoundTripHeader
import PngVerif.Proofs.RoundTripText
import PngVerif.Proofs.RoundTripStreamDecode
/-!
# C03 — Encode then decode is lossless: the end-to-end composition, at the byte level

Encoder side: the model of `Encoder` / `Writer::write_header` / `write_image_data` / `finish` with its sink
(`Model/Encoder.lean`), the back-end `scanCodec compress choose` (filter every row with the type `choose` picks, then
compress; `Proofs/Encoder.lean`).  Decoder side: the models of `StreamingDecoder` and `Decoder` / `Reader`
(`Model/Framing.lean`, `Model/Reader.lean`) as composed in `Props/C01Decode.lean`.  The two models share nothing but
`be32Bytes`, the filter specification `filtRow` / `reconRow` (C14) and the colour type tables.

`C03_encode_decode`: THE BYTES the sink holds after `write_header`, `write_image_data(data)`, `finish`, fed to
`read_info` + `next_frame`, give back `data` and the configured geometry.

Proof (`Proofs/RoundTrip*.lean`): the run of the writer is computed (`Enc.runWriter_still`: signature, `IHDR`, the metadata
chunks, the zlib stream cut into `IDAT` chunks, `IEND`, all complete); these bytes are `WellFormed.wellFormedStill`
(`RoundTrip.fileBytes_stillChunks`); the decoder accepts every metadata chunk `encode_header` writes (`RoundTrip.header_accepted`);
the scanline stream is legal for the header and the specification's pixels of it are `data` (`RoundTrip.rawOk_encode`,
`RoundTrip.specPixels_encode`: `reconRow_filtRow`); `C01.C01_decode_chunks_any_length` does the rest.

Parameters outside image-png, used through explicit hypotheses only: the compressor / inflater pair (`cfg.InflateOk`; the
inflater maps the compressed scanline stream back to it and reports the stream complete; an empty input is not a
complete stream), the CRC function (the decoder's is the one the chunks were written with) and the row transformation
(`TCfg.IsIdentity`).
-/
namespace Png.C03
open Png Png.Val Png.Enc Png.Framing Png.Reader Png.WellFormed Png.RoundTrip

/-- **C03, end to end.**  For every still-image configuration `c` the encoder accepts (`Enc.Cfg.Still`: no animation;
    width and height `1 ≤ · < 2^32`; each of the fifteen colour type / bit depth pairs; a palette if the colour type is
    indexed; text chunks whose `encode` succeeds; ANY metadata: `pHYs`, `sRGB`, `gAMA`, `cHRM`, `iCCP`, `eXIf`, `PLTE`,
    `tRNS`, text chunks; `validate_sequence` on or off), every `data` of `height` rows of `rowLen` bytes (fewer than `2^64`
    in all: beyond that `write_image_data` and the decoder's size check both refuse), every filter
    choice `choose`, every compressor `compress` whose output for the scanline stream the decoder's inflater maps back to
    it (`hinf`; `hnil`: the empty input is not a complete zlib stream), the same CRC function on both sides, every
    identity transformation, ALL decoder options, every prefill byte `p` and every limit that covers one row and the
    metadata (`metaCost`: three times the bytes of the metadata chunk bodies, plus a bound `P` on the decompressed ICC
    profile), provided the decoder can read the metadata chunks at all (`MetaOk`: the text chunks are well-formed `tEXt` /
    `zTXt` / `iTXt` chunks — the decoder treats a malformed one as fatal —, bodies shorter than `2^32`):

    `write_header`, `write_image_data(data)` and `finish` return `Ok` on a sink that never fails, and the bytes the sink
    then holds, given to `read_info` and `next_frame` (into a buffer pre-filled with `p`), produce
    `[header, frame {width, height, colour type, bit depth, line size} data]` — exactly the bytes that were encoded,
    with the configured geometry. -/
theorem C03_encode_decode (cfg : Framing.Cfg) (t : TCfg) (f : Flags) (opts : Options) (limit P : Nat)
    (compress : Bytes → Bytes) (choose : Bytes → Bytes → FilterType) (c : Enc.Cfg) (data : Bytes) (p : UInt8)
    (hI : cfg.InflateOk) (hcrc : ∀ b, cfg.crc b = crcOfList b) (ht : t.IsIdentity f)
    (hs : c.Still) (hm : MetaOk cfg opts.ignoreText P c)
    (hlen : data.length = c.rowLen * c.height) (hsz : c.rowLen * c.height < 2 ^ 64)
    (hnil : ∀ o, cfg.inflate [] ≠ some (o, true))
    (hinf : cfg.inflate (compress (rawOf choose c data)) = some (rawOf choose c data, true))
    (hlimit : c.rowLen + metaCost P c ≤ limit) :
    (runWriter (scanCodec compress choose) c {} [.image data] .finish).header = .ok ∧
    (runWriter (scanCodec compress choose) c {} [.image data] .finish).results = [.ok] ∧
    (runWriter (scanCodec compress choose) c {} [.image data] .finish).final = some .ok ∧
    (Reader.run cfg t
      (R.init opts limit f (runWriter (scanCodec compress choose) c {} [.image data] .finish).state.sink.bytes
        (runWriter (scanCodec compress choose) c {} [.image data] .finish).state.sink.bytes.length)
      [.readInfo, .nextFrame p]).2 =
      [.header, .frame { width := c.width, height := c.height, color := c.color, depth := c.depth,
                         lineSize := c.rowLen } data] := by
  obtain ⟨r1, r2, r3, _⟩ := runWriter_still (scanCodec compress choose) c hs data hlen hsz
  obtain ⟨dA, hanc, hlim⟩ := header_accepted cfg opts limit P c c.rowLen hm hlimit
  exact ⟨r1, r2, r3, encode_decode_core cfg t f opts limit compress choose c data p dA hI hcrc ht hs hlen hsz hnil hinf
    hanc hlim⟩

/-- **C03 end to end, row by row**: the same hypotheses; the caller pulls the image with `next_row`: `height` calls
    return the rows of `data` in order (`rowResults 0 (rowsOfCfg c data)`: row `l` with `InterlaceInfo::Null(l)`), one more
    call returns `None` -/
theorem C03_encode_decode_rows (cfg : Framing.Cfg) (t : TCfg) (f : Flags) (opts : Options) (limit P : Nat)
    (compress : Bytes → Bytes) (choose : Bytes → Bytes → FilterType) (c : Enc.Cfg) (data : Bytes)
    (hI : cfg.InflateOk) (hcrc : ∀ b, cfg.crc b = crcOfList b) (ht : t.IsIdentity f)
    (hs : c.Still) (hm : MetaOk cfg opts.ignoreText P c)
    (hlen : data.length = c.rowLen * c.height) (hsz : c.rowLen * c.height < 2 ^ 64)
    (hnil : ∀ o, cfg.inflate [] ≠ some (o, true))
    (hinf : cfg.inflate (compress (rawOf choose c data)) = some (rawOf choose c data, true))
    (hlimit : c.rowLen + metaCost P c ≤ limit) :
    (Reader.run cfg t
      (R.init opts limit f (runWriter (scanCodec compress choose) c {} [.image data] .finish).state.sink.bytes
        (runWriter (scanCodec compress choose) c {} [.image data] .finish).state.sink.bytes.length)
      (.readInfo :: List.replicate (c.height + 1) .nextRow)).2 =
      .header :: (rowResults 0 (rowsOfCfg c data) ++ [.noRow]) ∧
    (rowsOfCfg c data).flatten = data ∧ (rowsOfCfg c data).length = c.height ∧
    ∀ r ∈ rowsOfCfg c data, r.length = c.rowLen := by
  obtain ⟨dA, hanc, hlim⟩ := header_accepted cfg opts limit P c c.rowLen hm hlimit
  obtain ⟨h1, h2⟩ := rowsOf_spec c.rowLen c.height data hlen
  exact ⟨encode_decode_rows_core cfg t f opts limit compress choose c data dA hI hcrc ht hs hlen hsz hnil hinf hanc hlim,
    rowsOf_flatten c.rowLen c.height data hlen, h1, h2⟩

/-- **decoding does not depend on how the zlib stream is cut into `IDAT` chunks**: the file with the header chunks of `c` and
    ANY cut `zs` (at least one piece, empty pieces allowed, each shorter than `2^32`) of ANY byte string the inflater maps
    to the encoder's scanline stream decodes to `data`.  (`write_image_data` cuts at `2^31 − 1` bytes, the stream writer at
    its buffer size.) -/
theorem C03_decode_any_idat_split (cfg : Framing.Cfg) (t : TCfg) (f : Flags) (opts : Options) (limit P : Nat)
    (choose : Bytes → Bytes → FilterType) (c : Enc.Cfg) (data : Bytes) (zs : List Bytes) (p : UInt8)
    (hI : cfg.InflateOk) (hcrc : ∀ b, cfg.crc b = crcOfList b) (ht : t.IsIdentity f)
    (hs : c.Still) (hm : MetaOk cfg opts.ignoreText P c)
    (hlen : data.length = c.rowLen * c.height) (hsz : c.rowLen * c.height < 2 ^ 64)
    (hzs : zs ≠ []) (hzl : ∀ z ∈ zs, z.length < 2 ^ 32)
    (hinf : cfg.inflate zs.flatten = some (rawOf choose c data, true))
    (hlimit : c.rowLen + metaCost P c ≤ limit) :
    (Reader.run cfg t
      (R.init opts limit f (fileBytes (mkIhdr c :: metaChunks c ++ zs.map mkIdat ++ [iendChunk]))
        (fileBytes (mkIhdr c :: metaChunks c ++ zs.map mkIdat ++ [iendChunk])).length)
      [.readInfo, .nextFrame p]).2 =
      [.header, .frame { width := c.width, height := c.height, color := c.color, depth := c.depth,
                         lineSize := c.rowLen } data] := by
  obtain ⟨dA, hanc, hlim⟩ := header_accepted cfg opts limit P c c.rowLen hm hlimit
  exact decode_stillChunks cfg t f opts limit choose c data zs p dA hI hcrc ht hs hlen hsz hzs hzl hinf hanc hlim

/-- **the limit hypothesis in closed form**: `metaCost P c ≤ 3 · (bytes of the chunk bodies between IHDR and IDAT) + P`
    (`encode_header` writes at most one `iCCP` chunk) -/
theorem C03_metaCost_le (cfg : Framing.Cfg) (ig : Bool) (P : Nat) (c : Enc.Cfg) (hm : MetaOk cfg ig P c) :
    metaCost P c ≤ 3 * metaBytes c + P := by
  apply metaCost_le
  intro ch h hi
  have hne : tyICCP ≠ tEXt ∧ tyICCP ≠ zTXt ∧ tyICCP ≠ iTXt := by decide +kernel
  rcases (hm.texts ch h).1 with h1 | h1 | h1 <;> rw [hi] at h1
  · exact hne.1 h1
  · exact hne.2.1 h1
  · exact hne.2.2 h1

/-- **C03 end to end with the limit in closed form**: a limit of one row, three times the bytes of the chunk bodies between
    `IHDR` and `IDAT`, and `P` (a bound on the decompressed ICC profile; `0` will do without `iCCP`) suffices -/
theorem C03_encode_decode_limit (cfg : Framing.Cfg) (t : TCfg) (f : Flags) (opts : Options) (limit P : Nat)
    (compress : Bytes → Bytes) (choose : Bytes → Bytes → FilterType) (c : Enc.Cfg) (data : Bytes) (p : UInt8)
    (hI : cfg.InflateOk) (hcrc : ∀ b, cfg.crc b = crcOfList b) (ht : t.IsIdentity f)
    (hs : c.Still) (hm : MetaOk cfg opts.ignoreText P c)
    (hlen : data.length = c.rowLen * c.height) (hsz : c.rowLen * c.height < 2 ^ 64)
    (hnil : ∀ o, cfg.inflate [] ≠ some (o, true))
    (hinf : cfg.inflate (compress (rawOf choose c data)) = some (rawOf choose c data, true))
    (hlimit : c.rowLen + 3 * metaBytes c + P ≤ limit) :
    (Reader.run cfg t
      (R.init opts limit f (runWriter (scanCodec compress choose) c {} [.image data] .finish).state.sink.bytes
        (runWriter (scanCodec compress choose) c {} [.image data] .finish).state.sink.bytes.length)
      [.readInfo, .nextFrame p]).2 =
      [.header, .frame { width := c.width, height := c.height, color := c.color, depth := c.depth,
                         lineSize := c.rowLen } data] :=
  (C03_encode_decode cfg t f opts limit P compress choose c data p hI hcrc ht hs hm hlen hsz hnil hinf
    (by have := C03_metaCost_le cfg opts.ignoreText P c hm; omega)).2.2.2

/-- **C03 end to end for the model's own transformation** (`Model/Transform.lean` as the driver wires it into the `Reader`
    model, `Transformations::IDENTITY`): no contract hypothesis about the row transformation is left -/
theorem C03_encode_decode_realT (cfg : Framing.Cfg) (opts : Options) (limit P : Nat)
    (compress : Bytes → Bytes) (choose : Bytes → Bytes → FilterType) (c : Enc.Cfg) (data : Bytes) (p : UInt8)
    (hI : cfg.InflateOk) (hcrc : ∀ b, cfg.crc b = crcOfList b)
    (hs : c.Still) (hm : MetaOk cfg opts.ignoreText P c)
    (hlen : data.length = c.rowLen * c.height) (hsz : c.rowLen * c.height < 2 ^ 64)
    (hnil : ∀ o, cfg.inflate [] ≠ some (o, true))
    (hinf : cfg.inflate (compress (rawOf choose c data)) = some (rawOf choose c data, true))
    (hlimit : c.rowLen + metaCost P c ≤ limit) :
    (Reader.run cfg Png.Driver.realT
      (R.init opts limit {} (runWriter (scanCodec compress choose) c {} [.image data] .finish).state.sink.bytes
        (runWriter (scanCodec compress choose) c {} [.image data] .finish).state.sink.bytes.length)
      [.readInfo, .nextFrame p]).2 =
      [.header, .frame { width := c.width, height := c.height, color := c.color, depth := c.depth,
                         lineSize := c.rowLen } data] :=
  (C03_encode_decode cfg Png.Driver.realT {} opts limit P compress choose c data p hI hcrc
    C01.identity_contract_of_transform_model hs hm hlen hsz hnil hinf hlimit).2.2.2

/-- **the hypothesis about text chunks holds for what the crate's text encoders build** (`Model/Text.lean`:
    `TEXtChunk::encode`, `ZTXtChunk::encode`, `ITXtChunk::encode` with any compressor): whenever `encode` succeeds the body
    is one the decoder accepts; for `iTXt` the decoder's UTF-8 test has to be the real one -/
theorem C03_text_chunks_ok (cfg : Framing.Cfg) (ig : Bool) (z : Png.ZCodec) :
    (∀ (c : TEXt) body, c.encodeBody = .ok body → TextChunkOk cfg ig tEXt body) ∧
    (∀ (c : ZTXt) body, c.encodeBody z = .ok body → TextChunkOk cfg ig zTXt body) ∧
    ((∀ b, cfg.utf8Ok b = (utf8Decode b).isSome) →
      ∀ (c : ITXt) body, c.encodeBody z = .ok body → TextChunkOk cfg ig iTXt body) :=
  ⟨fun c body h => ⟨Or.inl rfl, fun _ => textBodyOk_tEXt cfg c body h⟩,
   fun c body h => ⟨Or.inr (Or.inl rfl), fun _ => textBodyOk_zTXt cfg z c body h⟩,
   fun hu c body h => ⟨Or.inr (Or.inr rfl), fun _ => textBodyOk_iTXt cfg hu z c body h⟩⟩

/-- **what the sink holds**, as chunks: `IHDR`, the metadata chunks, the `IDAT` chunks (the compressed scanline stream cut
    into pieces of at most `2^31 − 1` bytes), `IEND`; and as bytes: the signature and these chunks, each with its length
    and CRC (`Val.fileBytes`) -/
theorem C03_encoded_file (compress : Bytes → Bytes) (choose : Bytes → Bytes → FilterType) (c : Enc.Cfg) (data : Bytes)
    (hs : c.Still) (hlen : data.length = c.rowLen * c.height) (hsz : c.rowLen * c.height < 2 ^ 64) :
    (runWriter (scanCodec compress choose) c {} [.image data] .finish).state.sink.chunks =
      mkIhdr c :: metaChunks c ++ (chunksOf maxIdatChunkLen (compress (rawOf choose c data))).map mkIdat ++ [iendChunk] ∧
    (runWriter (scanCodec compress choose) c {} [.image data] .finish).state.sink.bytes =
      fileBytes (mkIhdr c :: metaChunks c ++ (chunksOf maxIdatChunkLen (compress (rawOf choose c data))).map mkIdat ++
        [iendChunk]) := by
  obtain ⟨h1, h2⟩ := still_file (scanCodec compress choose) c hs data hlen hsz
  have : c.fileChunks (scanCodec compress choose) data =
      mkIhdr c :: metaChunks c ++ (chunksOf maxIdatChunkLen (compress (rawOf choose c data))).map mkIdat ++ [iendChunk] := by
    simp only [Enc.Cfg.fileChunks, headerChunks_still hs.actl, zstream_scanCodec]
  rw [this] at h1 h2
  exact ⟨h2, h1⟩

/-- **`Still` is exactly what the writer accepts**: a configuration without animation whose fields are in their Rust types'
    ranges and for which `write_header` and `write_image_data(data)` return `Ok` (sink that never fails) is `Still`, and `data`
    has the length of the image — the configuration hypothesis of `C03_encode_decode` excludes nothing that can be encoded -/
theorem C03_still_of_accepted (E : Codec) (c : Enc.Cfg) (hr : c.inRange) (ha : c.actl = none) (hf : c.fctl = none)
    (data : Bytes) (h1 : (runWriter E c {} [.image data] .finish).header = .ok)
    (h2 : (runWriter E c {} [.image data] .finish).results = [.ok]) :
    c.Still ∧ (c.rowLen * c.height < 2 ^ 64 → data.length = c.rowLen * c.height) :=
  still_of_accepted E c hr ha hf data h1 h2

/-- **C03 end to end through an owned `StreamWriter`.**  The same configuration and decoder hypotheses; the image goes
    through `write_header`, `into_stream_writer_with_size(size)` (ANY requested buffer size), `write_all` of the pieces `ds` —
    ANY partition of `data`, pieces that straddle row ends and empty pieces included —, `finish`.  The streaming back-end
    is `scanZ compress chooseZ`: every complete row is filtered with the type `chooseZ` picks against the previous row (the
    first against a zero row: `chooseFirst`), the compressor may hold back its output until it is finished.  Every call
    returns `Ok` and the sink's bytes decode to `data`. -/
theorem C03_stream_encode_decode (cfg : Framing.Cfg) (t : TCfg) (f : Flags) (opts : Options) (limit P : Nat) (E : Codec)
    (compress : Bytes → Bytes) (chooseZ : Bytes → Bytes → FilterType) (c : Enc.Cfg) (size : Nat) (ds : List Bytes)
    (data : Bytes) (p : UInt8)
    (hI : cfg.InflateOk) (hcrc : ∀ b, cfg.crc b = crcOfList b) (ht : t.IsIdentity f)
    (hs : c.Still) (hm : MetaOk cfg opts.ignoreText P c)
    (hds : ds.flatten = data) (hlen : data.length = c.rowLen * c.height) (hsz : c.rowLen * c.height < 2 ^ 64)
    (hnil : ∀ o, cfg.inflate [] ≠ some (o, true))
    (hinf : cfg.inflate (compress (rawOf (chooseFirst chooseZ) c data)) = some (rawOf (chooseFirst chooseZ) c data, true))
    (hlimit : c.rowLen + metaCost P c ≤ limit) :
    (runProg E (scanZ compress chooseZ) c {} [] (.intoStream size (ds.map .write) .finish)).header = .ok ∧
    (runProg E (scanZ compress chooseZ) c {} [] (.intoStream size (ds.map .write) .finish)).final =
      .ok :: (ds.map fun _ => Res.ok) ++ [.ok] ∧
    (Reader.run cfg t
      (R.init opts limit f
        (runProg E (scanZ compress chooseZ) c {} [] (.intoStream size (ds.map .write) .finish)).state.sink.bytes
        (runProg E (scanZ compress chooseZ) c {} [] (.intoStream size (ds.map .write) .finish)).state.sink.bytes.length)
      [.readInfo, .nextFrame p]).2 =
      [.header, .frame { width := c.width, height := c.height, color := c.color, depth := c.depth,
                         lineSize := c.rowLen } data] := by
  obtain ⟨w, s1, w1, zs, hdone⟩ := session_done (scanZ compress chooseZ) c hs true size ds data hds hlen hsz
  obtain ⟨r1, r2, hlog⟩ := stream_owned_log E (scanZ compress chooseZ) c size ds data hdone
  obtain ⟨dA, hanc, hlim⟩ := header_accepted cfg opts limit P c c.rowLen hm hlimit
  exact ⟨r1, r2, (decode_of_streamLog cfg t f opts limit (chooseFirst chooseZ) c data zs _ p dA hI hcrc ht hs hlen hsz hlog
    (fun z hz => Nat.lt_of_le_of_lt (hdone.lens z hz) (by decide)) (sessionDone_stream_scanZ hdone) hnil hinf hanc hlim).2⟩

/-- **C03 end to end through a borrowed `StreamWriter`**: `write_header`, `stream_writer_with_size(size)`, the pieces `ds`,
    the stream writer `finish`ed or dropped (`fin`), then `Writer::finish`: every call returns `Ok` and the sink's bytes
    decode to `data` -/
theorem C03_stream_borrowed_encode_decode (cfg : Framing.Cfg) (t : TCfg) (f : Flags) (opts : Options) (limit P : Nat)
    (E : Codec) (compress : Bytes → Bytes) (chooseZ : Bytes → Bytes → FilterType) (c : Enc.Cfg) (size : Nat)
    (ds : List Bytes) (fin : Final) (data : Bytes) (p : UInt8)
    (hI : cfg.InflateOk) (hcrc : ∀ b, cfg.crc b = crcOfList b) (ht : t.IsIdentity f)
    (hs : c.Still) (hm : MetaOk cfg opts.ignoreText P c)
    (hds : ds.flatten = data) (hlen : data.length = c.rowLen * c.height) (hsz : c.rowLen * c.height < 2 ^ 64)
    (hnil : ∀ o, cfg.inflate [] ≠ some (o, true))
    (hinf : cfg.inflate (compress (rawOf (chooseFirst chooseZ) c data)) = some (rawOf (chooseFirst chooseZ) c data, true))
    (hlimit : c.rowLen + metaCost P c ≤ limit) :
    (runProg E (scanZ compress chooseZ) c {} [.stream size (ds.map .write) fin] .finish).header = .ok ∧
    (runProg E (scanZ compress chooseZ) c {} [.stream size (ds.map .write) fin] .finish).results =
      [.ok :: (ds.map fun _ => Res.ok) ++ [.ok]] ∧
    (runProg E (scanZ compress chooseZ) c {} [.stream size (ds.map .write) fin] .finish).final = [.ok] ∧
    (Reader.run cfg t
      (R.init opts limit f
        (runProg E (scanZ compress chooseZ) c {} [.stream size (ds.map .write) fin] .finish).state.sink.bytes
        (runProg E (scanZ compress chooseZ) c {} [.stream size (ds.map .write) fin] .finish).state.sink.bytes.length)
      [.readInfo, .nextFrame p]).2 =
      [.header, .frame { width := c.width, height := c.height, color := c.color, depth := c.depth,
                         lineSize := c.rowLen } data] := by
  obtain ⟨w, s1, w1, zs, hdone⟩ := session_done (scanZ compress chooseZ) c hs false size ds data hds hlen hsz
  obtain ⟨r1, r2, r3, hlog⟩ := stream_borrowed_log E (scanZ compress chooseZ) c size ds data fin hdone
  obtain ⟨dA, hanc, hlim⟩ := header_accepted cfg opts limit P c c.rowLen hm hlimit
  exact ⟨r1, r2, r3, (decode_of_streamLog cfg t f opts limit (chooseFirst chooseZ) c data zs _ p dA hI hcrc ht hs hlen hsz hlog
    (fun z hz => Nat.lt_of_le_of_lt (hdone.lens z hz) (by decide)) (sessionDone_stream_scanZ hdone) hnil hinf hanc hlim).2⟩

/-- **the stream writer and `write_image_data` write the same file up to the cut into `IDAT` chunks** (and the filter choice
    for the first row: `chooseFirst`): both leave `IHDR`, the metadata chunks, `IDAT` chunks, `IEND`, and the `IDAT` payloads
    concatenate to the same compressed scanline stream -/
theorem C03_stream_same_stream (E : Codec) (compress : Bytes → Bytes) (chooseZ : Bytes → Bytes → FilterType) (c : Enc.Cfg)
    (hs : c.Still) (size : Nat) (ds : List Bytes) (data : Bytes) (hds : ds.flatten = data)
    (hlen : data.length = c.rowLen * c.height) (hsz : c.rowLen * c.height < 2 ^ 64) :
    ∃ zs : List Bytes,
      (runProg E (scanZ compress chooseZ) c {} [] (.intoStream size (ds.map .write) .finish)).state.sink.chunks =
        mkIhdr c :: metaChunks c ++ zs.map mkIdat ++ [iendChunk] ∧
      (∀ z ∈ zs, z ≠ []) ∧
      zs.flatten = compress (rawOf (chooseFirst chooseZ) c data) ∧
      (runWriter (scanCodec compress (chooseFirst chooseZ)) c {} [.image data] .finish).state.sink.chunks =
        mkIhdr c :: metaChunks c ++
          (chunksOf maxIdatChunkLen (compress (rawOf (chooseFirst chooseZ) c data))).map mkIdat ++ [iendChunk] ∧
      (chunksOf maxIdatChunkLen (compress (rawOf (chooseFirst chooseZ) c data))).flatten =
        compress (rawOf (chooseFirst chooseZ) c data) := by
  obtain ⟨w, s1, w1, zs, hdone⟩ := session_done (scanZ compress chooseZ) c hs true size ds data hds hlen hsz
  obtain ⟨_, _, hlog⟩ := stream_owned_log E (scanZ compress chooseZ) c size ds data hdone
  have hch := (bytes_of_fullLog _ _ hlog).2
  rw [headerChunks_still hs.actl] at hch
  exact ⟨zs, hch, hdone.ne, (sessionDone_stream_scanZ hdone), (C03_encoded_file compress (chooseFirst chooseZ) c data hs hlen hsz).1,
    chunksOf_flatten _ (by decide) _⟩

/-- **C03 end to end without metadata**: a configuration that makes `encode_header` write nothing but `IHDR` (then the
    colour type is not indexed: the twelve other pairs); the limit only has to cover one row -/
theorem C03_encode_decode_plain (cfg : Framing.Cfg) (t : TCfg) (f : Flags) (opts : Options) (limit : Nat)
    (compress : Bytes → Bytes) (choose : Bytes → Bytes → FilterType) (c : Enc.Cfg) (data : Bytes) (p : UInt8)
    (hI : cfg.InflateOk) (hcrc : ∀ b, cfg.crc b = crcOfList b) (ht : t.IsIdentity f)
    (hs : c.Still) (hmeta : metaChunks c = [])
    (hlen : data.length = c.rowLen * c.height) (hsz : c.rowLen * c.height < 2 ^ 64)
    (hnil : ∀ o, cfg.inflate [] ≠ some (o, true))
    (hinf : cfg.inflate (compress (rawOf choose c data)) = some (rawOf choose c data, true))
    (hlimit : c.rowLen ≤ limit) :
    (Reader.run cfg t
      (R.init opts limit f (runWriter (scanCodec compress choose) c {} [.image data] .finish).state.sink.bytes
        (runWriter (scanCodec compress choose) c {} [.image data] .finish).state.sink.bytes.length)
      [.readInfo, .nextFrame p]).2 =
      [.header, .frame { width := c.width, height := c.height, color := c.color, depth := c.depth,
                         lineSize := c.rowLen } data] := by
  have htx : (textPrefix c.texts).1 = [] := by
    have := hmeta
    simp only [metaChunks, List.append_eq_nil_iff] at this
    exact this.2
  have hm : MetaOk cfg opts.ignoreText 0 c :=
    ⟨fun ch h => (by rw [htx] at h; cases h), fun ch h => (by rw [hmeta] at h; cases h),
      fun ch h => (by rw [hmeta] at h; cases h)⟩
  exact (C03_encode_decode cfg t f opts limit 0 compress choose c data p hI hcrc ht hs hm hlen hsz hnil hinf
    (by simp only [metaCost, hmeta, listCost_nil]; exact hlimit)).2.2.2

/-- a configuration without metadata is not indexed -/
theorem C03_plain_not_indexed (c : Enc.Cfg) (hs : c.Still) (hmeta : metaChunks c = []) : c.color ≠ 3 := by
  intro h3
  have hp := hs.pal h3
  cases hpal : c.palette with
  | none => rw [hpal] at hp; cases hp
  | some pal =>
    simp only [metaChunks, hpal, optChunk, List.append_eq_nil_iff] at hmeta
    exact absurd hmeta.1.1.2 (by simp)

/-- **C03 end to end for indexed colour** (and any other colour type given a palette): `PLTE`, of any length, is the only
    chunk between `IHDR` and `IDAT`; the limit covers one row and three times the palette -/
theorem C03_encode_decode_palette (cfg : Framing.Cfg) (t : TCfg) (f : Flags) (opts : Options) (limit : Nat)
    (compress : Bytes → Bytes) (choose : Bytes → Bytes → FilterType) (c : Enc.Cfg) (pal data : Bytes) (p : UInt8)
    (hI : cfg.InflateOk) (hcrc : ∀ b, cfg.crc b = crcOfList b) (ht : t.IsIdentity f)
    (hs : c.Still) (hp : c.palette = some pal) (hmd : c.md = {}) (htr : c.trns = none) (htx : c.texts = [])
    (hpal : pal.length < 2 ^ 32)
    (hlen : data.length = c.rowLen * c.height) (hsz : c.rowLen * c.height < 2 ^ 64)
    (hnil : ∀ o, cfg.inflate [] ≠ some (o, true))
    (hinf : cfg.inflate (compress (rawOf choose c data)) = some (rawOf choose c data, true))
    (hlimit : c.rowLen + 3 * pal.length ≤ limit) :
    (Reader.run cfg t
      (R.init opts limit f (runWriter (scanCodec compress choose) c {} [.image data] .finish).state.sink.bytes
        (runWriter (scanCodec compress choose) c {} [.image data] .finish).state.sink.bytes.length)
      [.readInfo, .nextFrame p]).2 =
      [.header, .frame { width := c.width, height := c.height, color := c.color, depth := c.depth,
                         lineSize := c.rowLen } data] := by
  have hne : ¬ (tyPLTE = tyICCP) := by decide
  have hmeta : metaChunks c = [⟨tyPLTE, pal⟩] := by
    simp only [metaChunks, hp, hmd, htr, htx, optChunk, textPrefix, List.append_nil]
    rfl
  have hm : MetaOk cfg opts.ignoreText 0 c := by
    refine ⟨fun ch h => (by rw [htx] at h; cases h), fun ch h => ?_, fun ch h hi => ?_⟩
    · rw [hmeta, List.mem_singleton] at h; rw [h]; exact hpal
    · rw [hmeta, List.mem_singleton] at h; rw [h] at hi; exact absurd hi hne
  exact (C03_encode_decode cfg t f opts limit 0 compress choose c data p hI hcrc ht hs hm hlen hsz hnil hinf
    (by simp [metaCost, hmeta, listCost, chunkCost, iccpExtra, hne]; omega)).2.2.2

/-! ## Non-vacuity: every hypothesis instantiated on concrete images -/

section Examples
open Png.Framing.Toy Png.Reader.Toy

/-- the toy inflater of `Proofs/FramingToy.lean` (a length byte, then the payload) with the real CRC-32 -/
def rtCfg : Framing.Cfg := { toyCfg with crc := crcOfList }

theorem rtCfg_inflateOk : rtCfg.InflateOk := ⟨toy_inflateOk.mono, toy_inflateOk.done⟩

theorem rtCfg_nil : ∀ o, rtCfg.inflate [] ≠ some (o, true) := by
  intro o h; simp [rtCfg, toyCfg, toyInflate] at h

/-- the matching compressor (for streams shorter than 255 bytes) -/
def storeZ (x : Bytes) : Bytes := x.length.toUInt8 :: x

/-- 2×2, 8-bit RGB, no metadata; every row filtered with Paeth -/
def cfgRgb : Enc.Cfg := { width := 2, height := 2, color := 2, depth := 8 }
def dataRgb : Bytes := [1, 2, 3, 4, 5, 6, 7, 8, 9, 10, 11, 250]

example : cfgRgb.Still ∧ metaChunks cfgRgb = [] ∧ cfgRgb.rowLen = 6 ∧
    rawOf (fun _ _ => .paeth) cfgRgb dataRgb = [4, 1, 2, 3, 3, 3, 3, 4, 6, 6, 6, 3, 3, 241] := by decide

example :
    (Reader.run rtCfg idT
      (R.init {} 1000 {} (runWriter (scanCodec storeZ fun _ _ => .paeth) cfgRgb {} [.image dataRgb] .finish).state.sink.bytes
        (runWriter (scanCodec storeZ fun _ _ => .paeth) cfgRgb {} [.image dataRgb] .finish).state.sink.bytes.length)
      [.readInfo, .nextFrame 7]).2 = [.header, .frame ⟨2, 2, 2, 8, 6⟩ dataRgb] :=
  C03_encode_decode_plain rtCfg idT {} {} 1000 storeZ (fun _ _ => .paeth) cfgRgb dataRgb 7 rtCfg_inflateOk (fun _ => rfl)
    C01.idT_isIdentity (by decide) (by decide) (by decide) (by decide) rtCfg_nil (by decide) (by decide)

/-- 3×2, 2-bit palette (rows end in padding bits), with `pHYs`, `gAMA`, `iCCP`, `PLTE`, `tRNS` and a `tEXt` chunk;
    `validate_sequence` on; the filter type alternates -/
def cfgPal : Enc.Cfg :=
  { width := 3, height := 2, color := 3, depth := 2, validate := true,
    palette := some [0, 0, 0, 255, 0, 0, 0, 255, 0, 0, 0, 255], trns := some [0, 128],
    md := { phys := some [0, 0, 11, 19, 0, 0, 11, 19, 1], gama := some 45455, iccp := some [95, 0, 0, 1, 2, 3] },
    texts := [some ⟨tyTEXT, [65, 0, 66]⟩] }
def dataPal : Bytes := [0x6C, 0xB4]
def choosePal (prev _cur : Bytes) : FilterType := if prev = [] then .sub else .up

example : cfgPal.Still ∧ (metaChunks cfgPal).map (·.ty) = [tyPHYS, tyGAMA, tyICCP, tyPLTE, tyTRNS, tyTEXT] ∧
    cfgPal.rowLen = 1 ∧ metaCost 6 cfgPal = 3 * (9 + 4 + 6 + 12 + 2 + 3) + 6 := by decide

theorem cfgPal_metaOk (ig : Bool) : MetaOk rtCfg ig 6 cfgPal := by
  refine ⟨?_, by decide, ?_⟩
  · intro ch h
    have : ch = ⟨tyTEXT, [65] ++ 0 :: [66]⟩ := by simpa [cfgPal, textPrefix] using h
    rw [this]
    exact ⟨Or.inl ty_eqs.2.2.2.2.2.2.2.2.2.2.2.1, fun _ => by
      rw [show tyTEXT = tEXt from ty_eqs.2.2.2.2.2.2.2.2.2.2.2.1]
      exact .tEXt [65] [66] ⟨by decide, by decide, by decide⟩⟩
  · intro ch h hi z n prof hsuf hz
    have hd : ch.data.length ≤ 6 := by
      have : ∀ ch ∈ metaChunks cfgPal, ch.ty = tyICCP → ch.data.length ≤ 6 := by decide
      exact this ch h hi
    have : prof = z := by simp [rtCfg, toyCfg] at hz; exact hz.symm
    rw [this]
    exact Nat.le_trans hsuf.length_le hd

example :
    (Reader.run rtCfg idT
      (R.init {} 200 {} (runWriter (scanCodec storeZ choosePal) cfgPal {} [.image dataPal] .finish).state.sink.bytes
        (runWriter (scanCodec storeZ choosePal) cfgPal {} [.image dataPal] .finish).state.sink.bytes.length)
      [.readInfo, .nextFrame 0]).2 = [.header, .frame ⟨3, 2, 3, 2, 1⟩ dataPal] :=
  (C03_encode_decode rtCfg idT {} {} 200 6 storeZ choosePal cfgPal dataPal 0 rtCfg_inflateOk (fun _ => rfl)
    C01.idT_isIdentity (by decide) (cfgPal_metaOk _) (by decide) (by decide) rtCfg_nil (by decide) (by decide)).2.2.2

/-- the RGB image through the stream writer: a 1-byte buffer request (the chunk writer takes 5), the twelve bytes in five
    `write_all` calls, one of them empty, two straddling the end of the first row -/
example :
    (Reader.run rtCfg idT
      (R.init {} 1000 {}
        (runProg Enc.toyCodec (scanZ storeZ fun _ _ => .avg) cfgRgb {} []
          (.intoStream 1 ([[1, 2], [], [3, 4, 5, 6, 7], [8], [9, 10, 11, 250]].map .write) .finish)).state.sink.bytes
        (runProg Enc.toyCodec (scanZ storeZ fun _ _ => .avg) cfgRgb {} []
          (.intoStream 1 ([[1, 2], [], [3, 4, 5, 6, 7], [8], [9, 10, 11, 250]].map .write) .finish)).state.sink.bytes.length)
      [.readInfo, .nextFrame 7]).2 = [.header, .frame ⟨2, 2, 2, 8, 6⟩ dataRgb] :=
  (C03_stream_encode_decode rtCfg idT {} {} 1000 0 Enc.toyCodec storeZ (fun _ _ => .avg) cfgRgb 1
    [[1, 2], [], [3, 4, 5, 6, 7], [8], [9, 10, 11, 250]] dataRgb 7 rtCfg_inflateOk (fun _ => rfl) C01.idT_isIdentity
    (by decide) ⟨fun _ h => (by cases h), fun _ h => (by cases h), fun _ h => (by cases h)⟩ (by decide) (by decide) (by decide)
    rtCfg_nil (by decide) (by decide)).2.2

/-- the palette image: row by row; with the `IDAT` stream cut into single bytes and an empty chunk; through a borrowed stream
    writer that is dropped; with the limit in closed form -/
example :
    (Reader.run rtCfg idT
      (R.init {} 200 {} (runWriter (scanCodec storeZ choosePal) cfgPal {} [.image dataPal] .finish).state.sink.bytes
        (runWriter (scanCodec storeZ choosePal) cfgPal {} [.image dataPal] .finish).state.sink.bytes.length)
      [.readInfo, .nextRow, .nextRow, .nextRow]).2 = [.header, .row (.null 0) [0x6C], .row (.null 1) [0xB4], .noRow] :=
  (C03_encode_decode_rows rtCfg idT {} {} 200 6 storeZ choosePal cfgPal dataPal rtCfg_inflateOk (fun _ => rfl)
    C01.idT_isIdentity (by decide) (cfgPal_metaOk _) (by decide) (by decide) rtCfg_nil (by decide) (by decide)).1

example : storeZ (rawOf choosePal cfgPal dataPal) = [4, 1, 0x6C, 2, 0x48] := by decide

example :
    (Reader.run rtCfg idT
      (R.init {} 200 {} (fileBytes (mkIhdr cfgPal :: metaChunks cfgPal ++ [[4], [1], [], [0x6C], [2, 0x48]].map mkIdat ++ [iendChunk]))
        (fileBytes (mkIhdr cfgPal :: metaChunks cfgPal ++ [[4], [1], [], [0x6C], [2, 0x48]].map mkIdat ++ [iendChunk])).length)
      [.readInfo, .nextFrame 0]).2 = [.header, .frame ⟨3, 2, 3, 2, 1⟩ dataPal] :=
  C03_decode_any_idat_split rtCfg idT {} {} 200 6 choosePal cfgPal dataPal [[4], [1], [], [0x6C], [2, 0x48]] 0 rtCfg_inflateOk
    (fun _ => rfl) C01.idT_isIdentity (by decide) (cfgPal_metaOk _) (by decide) (by decide) (by decide) (by decide) (by decide)
    (by decide)

example :
    (Reader.run rtCfg idT
      (R.init {} 200 {}
        (runProg Enc.toyCodec (scanZ storeZ choosePal) cfgPal {} [.stream 4096 ([[0x6C, 0xB4]].map .write) .drop] .finish).state.sink.bytes
        (runProg Enc.toyCodec (scanZ storeZ choosePal) cfgPal {} [.stream 4096 ([[0x6C, 0xB4]].map .write) .drop] .finish).state.sink.bytes.length)
      [.readInfo, .nextFrame 0]).2 = [.header, .frame ⟨3, 2, 3, 2, 1⟩ dataPal] :=
  (C03_stream_borrowed_encode_decode rtCfg idT {} {} 200 6 Enc.toyCodec storeZ choosePal cfgPal 4096 [[0x6C, 0xB4]] .drop dataPal 0
    rtCfg_inflateOk (fun _ => rfl) C01.idT_isIdentity (by decide) (cfgPal_metaOk _) (by decide) (by decide) (by decide)
    rtCfg_nil (by decide) (by decide)).2.2.2

example : metaBytes cfgPal = 36 ∧ cfgPal.rowLen + 3 * metaBytes cfgPal + 6 ≤ 200 := by decide

/-- 4×1, 8-bit palette with a 3-entry palette only (`C03_encode_decode_palette`) -/
def cfgPal8 : Enc.Cfg := { width := 4, height := 1, color := 3, depth := 8, palette := some [1, 2, 3, 4, 5, 6, 7, 8, 9] }

example :
    (Reader.run rtCfg idT
      (R.init {} 31 {} (runWriter (scanCodec storeZ fun _ _ => .sub) cfgPal8 {} [.image [2, 0, 1, 2]] .finish).state.sink.bytes
        (runWriter (scanCodec storeZ fun _ _ => .sub) cfgPal8 {} [.image [2, 0, 1, 2]] .finish).state.sink.bytes.length)
      [.readInfo, .nextFrame 9]).2 = [.header, .frame ⟨4, 1, 3, 8, 4⟩ [2, 0, 1, 2]] :=
  C03_encode_decode_palette rtCfg idT {} {} 31 storeZ (fun _ _ => .sub) cfgPal8 [1, 2, 3, 4, 5, 6, 7, 8, 9] [2, 0, 1, 2] 9
    rtCfg_inflateOk (fun _ => rfl) C01.idT_isIdentity (by decide) rfl rfl rfl rfl (by decide) (by decide) (by decide) rtCfg_nil
    (by decide) (by decide)

/-- the first example, evaluated: the model really returns the image (the kernel runs both models, CRC-32 included) -/
example :
    (Reader.run rtCfg idT
      (R.init {} 1000 {} (runWriter (scanCodec storeZ fun _ _ => .paeth) cfgRgb {} [.image dataRgb] .finish).state.sink.bytes
        (runWriter (scanCodec storeZ fun _ _ => .paeth) cfgRgb {} [.image dataRgb] .finish).state.sink.bytes.length)
      [.readInfo, .nextFrame 7]).2 = [.header, .frame ⟨2, 2, 2, 8, 6⟩ dataRgb] := by decide +kernel

/-! ## The hypothesis "an empty input is not a complete zlib stream" is necessary -/

/-- `C03_encode_decode_plain` WITHOUT the hypothesis `hnil` -/
def C03_without_hnil_statement : Prop :=
  ∀ (cfg : Framing.Cfg) (t : TCfg) (f : Flags) (opts : Options) (limit : Nat)
    (compress : Bytes → Bytes) (choose : Bytes → Bytes → FilterType) (c : Enc.Cfg) (data : Bytes) (p : UInt8),
    cfg.InflateOk → (∀ b, cfg.crc b = crcOfList b) → t.IsIdentity f → c.Still → metaChunks c = [] →
    data.length = c.rowLen * c.height → c.rowLen * c.height < 2 ^ 64 →
    cfg.inflate (compress (rawOf choose c data)) = some (rawOf choose c data, true) → c.rowLen ≤ limit →
    (Reader.run cfg t
      (R.init opts limit f (runWriter (scanCodec compress choose) c {} [.image data] .finish).state.sink.bytes
        (runWriter (scanCodec compress choose) c {} [.image data] .finish).state.sink.bytes.length)
      [.readInfo, .nextFrame p]).2 =
      [.header, .frame { width := c.width, height := c.height, color := c.color, depth := c.depth,
                         lineSize := c.rowLen } data]

/-- an inflater that takes every input, the empty one included, for the complete stream of one particular image -/
def cfgConst : Framing.Cfg := { toyCfg with crc := crcOfList, inflate := fun _ => some ([0, 9], true) }

theorem cfgConst_inflateOk : cfgConst.InflateOk :=
  ⟨fun _ _ o2 d2 h => ⟨[0, 9], true, rfl, by cases h; exact List.prefix_refl _⟩, fun _ _ _ h => h⟩

/-- 1×1, 8-bit grayscale -/
def cfgGray1 : Enc.Cfg := { width := 1, height := 1 }

/-- **counterexample**: a compressor that emits NOTHING for this image, matched by an inflater that reads the image out of
    nothing, satisfies every other hypothesis; `write_image_data` then writes no `IDAT` chunk at all
    (`data.chunks(MAX_IDAT_CHUNK_LEN)` of an empty stream) and the decoder reports `MissingImageData`.  No real zlib
    compressor emits an empty stream (the header alone has two bytes). -/
theorem C03_hnil_necessary : ¬ C03_without_hnil_statement := by
  intro h
  have := h cfgConst idT {} {} 1000 (fun _ => []) (fun _ _ => .none) cfgGray1 [9] 7 cfgConst_inflateOk (fun _ => rfl)
    C01.idT_isIdentity (by decide) (by decide) (by decide) (by decide) (by decide) (by decide)
  revert this
  decide +kernel

end Examples

end Png.C03
