import PngVerif.Proofs.TransformContract
import PngVerif.Proofs.TrnsShape
import PngVerif.Proofs.TransformContractRun
import PngVerif.Props.C02
import PngVerif.Props.C05
import PngVerif.Props.C13
/-!
# The contracts of the row transformation, discharged for the instance the executable model runs

`Model/Reader.lean` takes the row transformation as a parameter `t : TCfg`; the `Reader` theorems C02
(no panic), C05 (resumability) and C13 (path agreement) assume the contracts `TCfg.Ok`, `TCfg.Stable`,
`TCfg.SnapIndep`.  `Driver.realT` is the instance `pngmodel` runs (`Model/Transform.lean`, the subject of
C08).  This file contains the property theorems only (lemmas: `Proofs/TransformContract.lean`,
`Proofs/TrnsShape.lean`, `Proofs/TransformContractRun.lean`).

**Finding.**  `Driver.realT.Ok` is FALSE as stated (`realT_not_ok`, witness `realT_applyOk_counterexample`):
the field `applyOk` quantifies over every `Info` with a legal colour type / bit depth pair and positive
size (`InfoLegal`), among them a grayscale `Info` below 8 bits whose stored `tRNS` is the EMPTY byte
string; under EXPAND / ALPHA `expand_gray_u8_with_trns` reads `trns[0]` (transform.rs:193) and panics.
That `Info` is UNREACHABLE: `parse_trns` (stream.rs:1241-1253) rejects a grayscale `tRNS` chunk shorter
than 2 bytes and stores exactly one byte below 16 bits — `trns_shape_invariant`.  So this is a gap in the
contract (`InfoLegal` / `DInv` do not record the shape of `tRNS`), not a defect of the crate.  It is the ONLY
excluded shape (`realT_ok_partial`): colour keys of a wrong length (grayscale / RGB `tRNS` chunks of 16-bit
images are stored whole, whatever their length ≥ 2 / ≥ 6), an RGB `tRNS` of any length, palettes of any
length (0, not a multiple of 3, more than 256 entries) and an indexed `tRNS` of any length are all covered.

**Repair used here** (without touching the `Reader` proofs): `Driver.realTK` is `realT` with `apply`
patched on that one shape; it satisfies all three contracts in full (`realTK_contracts`), and the
`Reader` model cannot tell the two apart on a reader whose decoder has the `parse_trns` shape
(`realT_indistinguishable`) — which `R.init` has and every call keeps.  The corollaries `C02_no_panic_real`,
`C05_resume_from_start_real`, `C13_paths_agree_file_real` are therefore about the ACTUAL `Driver.realT` and
carry NO contract hypothesis; `C05_resume_complete_real`, about an arbitrary start reader `r0`, carries the
shape of `r0`'s decoder as the explicit hypothesis `KeyInv r0.dec`.
-/
namespace Png.TContract
open Png Png.Framing Png.Reader Png.Driver

/-! ## The contracts for `Driver.realT` -/

/-- **`TCfg.Stable` holds for `realT`**: `output_color_type` depends on the IHDR fields and on `tRNS` only -/
theorem realT_stable : realT.Stable := Driver.realT_stable

/-- **`TCfg.SnapIndep` holds for `realT`** (`Proofs/ReaderPathsReal.lean`) -/
theorem realT_snapIndep : realT.SnapIndep := Driver.realT_snapIndep

/-- the full statement of the first contract for `realT` — FALSE, see `realT_not_ok` -/
def realT_ok_statement : Prop := realT.Ok

/-- **`TCfg.Ok` for `realT`, outside the gap.**  `outLegal` and `createOk` hold in full; `applyOk` holds for
    every snapshot, flag set, current `Info`, row and width of the contract, with ANY palette and `tRNS`
    contents, provided `keyGap cur f = false` — i.e. unless the current `Info` is grayscale (colour type 0)
    with bit depth below 8, its stored `tRNS` is `some []`, and EXPAND or ALPHA is requested.  (The
    contract's `1 ≤ w` is not needed.) -/
theorem realT_ok_partial :
    (∀ i f, InfoLegal i → ((realT.outColorDepth i f).1, (realT.outColorDepth i f).2) ∈ legalPairs) ∧
    (∀ i f w, InfoLegal i → realT.create i f = .error w → w.startsWith "panic" = false) ∧
    (∀ snap f cur row w, InfoLegal cur → Evolves snap cur → realT.create snap f = .ok () →
      row.length + 1 = rawRowLengthFromWidth cur.color cur.depth w → keyGap cur f = false →
      ∃ out, realT.apply snap f cur row (outLineSize realT cur f w) = some out ∧
        out.length = outLineSize realT cur f w) :=
  ⟨realT_outLegal, realT_createOk, realT_applyOk_partial⟩

/-- **counterexample**: `gapInfo` = 1×1, grayscale, depth 2, `tRNS = some []`; flags EXPAND; the row `[0x40]`
    (one 2-bit pixel).  Every hypothesis of `TCfg.Ok.applyOk` holds — `InfoLegal`, `Evolves` (reflexive),
    creation succeeded, the row has the raw row length, the buffer has `output_line_size = 2` bytes — and
    `realT.apply` answers `none`: the `trns[0]` of `expand_gray_u8_with_trns` (transform.rs:193).
    UNREACHABLE from any byte stream: `parse_trns` rejects a grayscale `tRNS` shorter than 2 bytes and stores
    exactly one byte below 16 bits (`trns_shape_invariant`). -/
theorem realT_applyOk_counterexample :
    InfoLegal gapInfo ∧ Evolves gapInfo gapInfo ∧ realT.create gapInfo gapFlags = .ok () ∧
    ([0x40] : Bytes).length + 1 = rawRowLengthFromWidth gapInfo.color gapInfo.depth 1 ∧
    outLineSize realT gapInfo gapFlags 1 = 2 ∧
    realT.apply gapInfo gapFlags gapInfo [0x40] (outLineSize realT gapInfo gapFlags 1) = none ∧
    keyGap gapInfo gapFlags = true :=
  Driver.realT_applyOk_counterexample

/-- **the exclusion is exact**: on EVERY current `Info` of the gap (any width, any snapshot it evolved from,
    any row) `realT.apply` answers `none` as soon as the output buffer holds one output pixel (2 bytes:
    gray + alpha) — `realT_ok_partial` excludes nothing that works -/
theorem realT_apply_fails_on_gap (snap : Info) (f : Flags) (cur : Info) (row : Bytes) (n : Nat) (hl : InfoLegal cur)
    (he : Evolves snap cur) (hc : realT.create snap f = .ok ()) (hgap : keyGap cur f = true) (hn : 2 ≤ n) :
    realT.apply snap f cur row n = none :=
  Driver.realT_apply_gap snap f cur row n hl he hc hgap hn

/-- … hence **`TCfg.Ok` as stated does not hold for `realT`**.  (The `Info` of the witness is unreachable:
    a contract gap, not a crate defect.) -/
theorem realT_not_ok : ¬ realT_ok_statement := Driver.realT_not_ok

/-- **all three contracts hold for `realTK`** — `realT` with `apply` returning a zero row on `keyGap` -/
theorem realTK_contracts : realTK.Ok ∧ realTK.Stable ∧ realTK.SnapIndep :=
  ⟨realTK_ok, realTK_stable, realTK_snapIndep⟩

/-! ## The gap is unreachable -/

/-- **the stored `tRNS` always has the shape `parse_trns` gives it** (`TrnsShape`: grayscale — one byte
    below 16 bits, at least 2 bytes at 16 bits; RGB — three bytes below 16 bits, at least 6 at 16 bits):
    a new decoder has it and every `update` call keeps it, whatever the input and whatever it returns.  In
    particular a grayscale `Info` never has `tRNS = some []`. -/
theorem trns_shape_invariant :
    (∀ opts limit, KeyInv ({ opts := opts, limit := limit } : Dec)) ∧
    (∀ (cfg : Cfg) d buf, KeyInv d → KeyInv (update cfg d buf).1) ∧
    (∀ i, TrnsShape i → i.color = 0 → i.trns ≠ some []) :=
  ⟨keyInv_new, update_keyInv, fun _ h hc => h.no_gap hc⟩

/-- every public call of the `Reader` model keeps that shape, for every transformation -/
theorem step_keeps_trns_shape (cfg : Cfg) (t : TCfg) (r : R) (op : Op) (h : KeyInv r.dec) :
    KeyInv (step cfg t r op).1.dec := step_ki cfg t r op h

/-- **the `Reader` model cannot tell `realT` from `realTK`**: from a reader whose decoder has the shape, every
    call sequence ends in the same reader with the same results -/
theorem realT_indistinguishable (cfg : Cfg) (r : R) (h : KeyInv r.dec) (ops : List Op) :
    run cfg realTK r ops = run cfg realT r ops := run_agree realT_agree cfg r h ops

/-! ## The `Reader` theorems at `Driver.realT`, without contract hypotheses -/

/-- **C02 for the executable model's transformation**: for every CRC / inflater / UTF-8 parameter, every
    input shorter than 4 GiB, every option set, limit, transformation flags, every schedule of input growth
    and every finite sequence of public calls with at most one `read_info`, no call of the `Reader` model
    running `Model/Transform.lean` returns a panic -/
theorem C02_no_panic_real (cfg : Cfg) (opts : Options) (limit : Nat) (flags : Flags) (input : Bytes) (visible : Nat)
    (ops : List Op) (hlen : input.length < 2 ^ 32) (hops : ops.count Op.readInfo ≤ 1) :
    ∀ res ∈ (run cfg realT (R.init opts limit flags input visible) ops).2, res.isPanic = false := by
  have h := C02.C02_no_panic cfg realTK realTK_ok opts limit flags input visible ops hlen hops
  rw [run_agree realT_agree cfg _ (ki_init opts limit flags input visible) ops] at h
  exact h

/-- **C13 for the executable model's transformation**, stated for a file: any input shorter than 4 GiB on
    which `read_info` succeeds and whose frames all decode by whole-frame calls (`refFrames`) — every
    interleaving of `next_frame`, `next_row`, `read_row`, `next_frame_info` assembles exactly those frames -/
theorem C13_paths_agree_file_real (cfg : Cfg) (opts : Options) (limit : Nat) (flags : Flags) (input : Bytes)
    (hlen : input.length < 2 ^ 32) (r0 : R) (fresh : Bytes) (ref : List Bytes)
    (h : step cfg realT (R.init opts limit flags input input.length) .readInfo = (r0, .header))
    (href : refFrames cfg realT fresh r0.remaining r0 = some ref) (ops : List PathOp) :
    (asmRun cfg realT fresh (r0, Asm.init fresh) ops).2.problem = false ∧
    ∀ k px, (k, px) ∈ (asmRun cfg realT fresh (r0, Asm.init fresh) ops).2.frames → ref[k]? = some px := by
  have hk0 := ki_init opts limit flags input input.length
  have hk : KI r0 := ki_of_eq h (step_ki cfg realT _ .readInfo hk0)
  have h' : step cfg realTK (R.init opts limit flags input input.length) .readInfo = (r0, .header) := by
    rw [step_agree realT_agree cfg _ hk0]; exact h
  have href' : refFrames cfg realTK fresh r0.remaining r0 = some ref := by
    rw [refFrames_agree realT_agree cfg fresh _ r0 hk]; exact href
  have := C13.C13_paths_agree_file cfg realTK realTK_ok realTK_snapIndep opts limit flags input hlen r0 fresh ref h' href' ops
  rw [asmRun_agree realT_agree cfg fresh ops (r0, Asm.init fresh) hk] at this
  exact this

/-- **C05 (`C05_resume_complete`) for the executable model's transformation**, from an arbitrary live reader
    `r0` satisfying the protocol invariant: the other hypotheses of `Png.C05.C05_resume_complete` are kept;
    instead of the two contracts, the shape of `r0`'s stored `tRNS` (`KeyInv r0.dec` — true of every reader
    reached from a new decoder, `step_keeps_trns_shape`) -/
theorem C05_resume_complete_real (cfg : Cfg) (hI : cfg.InflateOk) (r0 : R) (hInv : Inv realT r0) (hk : KeyInv r0.dec)
    (hr : r0.isReader = true) (hd : r0.dead = false) (L : Nat) (hL : r0.visible ≤ L) (ops : List Op)
    (hc : ∀ op ∈ ops, op.isCall = true) (sched : List Nat) (hs : L ≤ r0.visible + sched.sum)
    (hg : ∀ x ∈ (run cfg realT (growTo r0 L) ops).2, x.isGood = true) :
    resumeRun cfg realT L sched ops r0 = (run cfg realT (growTo r0 L) ops).2 := by
  have hkg : KI (growTo r0 L) := hk
  have := C05.C05_resume_complete cfg hI realTK realTK_ok realTK_stable r0 (hInv.of_agree realT_agree) hr hd L hL ops hc
    sched hs (by rw [run_agree realT_agree cfg _ hkg ops]; exact hg)
  rw [resumeRun_agree realT_agree cfg L sched ops r0 hk, run_agree realT_agree cfg _ hkg ops] at this
  exact this

/-- **C05 from the start** (`C05_resume_from_start`) for the executable model's transformation and a NEW
    decoder: no hypothesis about the transformation or the reader at all.  `read_info` succeeds on the
    visible prefix; the caller then makes the calls `ops`, retrying every call that runs out of input; if no
    call of the run `read_info, ops` on the whole input (`L` bytes) fails, the retrying caller's results
    other than `UnexpectedEof` are the first results of that run, and all of them if the schedule delivers
    everything -/
theorem C05_resume_from_start_real (cfg : Cfg) (hI : cfg.InflateOk) (opts : Options) (limit : Nat) (flags : Flags)
    (input : Bytes) (visible : Nat) (hlen : input.length < 2 ^ 32) (r0 : R) (L : Nat) (hv : visible ≤ L)
    (h : step cfg realT (R.init opts limit flags input visible) .readInfo = (r0, .header)) (ops : List Op)
    (hc : ∀ op ∈ ops, op.isCall = true) (sched : List Nat)
    (hg : ∀ x ∈ (run cfg realT (growTo (R.init opts limit flags input visible) L) (.readInfo :: ops)).2, x.isGood = true) :
    ∃ zs, (run cfg realT (growTo (R.init opts limit flags input visible) L) (.readInfo :: ops)).2 =
        .header :: (resumeRun cfg realT L sched ops r0 ++ zs) ∧
      (L ≤ visible + sched.sum → zs = []) := by
  have hk0 := ki_init opts limit flags input visible
  have hkg : KI (growTo (R.init opts limit flags input visible) L) := hk0
  have hk : KI r0 := ki_of_eq h (step_ki cfg realT _ .readInfo hk0)
  have hP : PreInv (R.init opts limit flags input visible) := by
    rcases rinv_init realTK opts limit flags input visible hlen with ⟨k, _⟩ | ⟨_, k, _⟩ | ⟨_, _, k⟩
    · cases k
    · cases k
    · exact k
  have h' : step cfg realTK (R.init opts limit flags input visible) .readInfo = (r0, .header) := by
    rw [step_agree realT_agree cfg _ hk0]; exact h
  have := C05.C05_resume_from_start cfg hI realTK realTK_ok realTK_stable (R.init opts limit flags input visible) r0 hP rfl rfl
    L hv h' ops hc sched (by rw [run_agree realT_agree cfg _ hkg]; exact hg)
  rw [run_agree realT_agree cfg _ hkg, resumeRun_agree realT_agree cfg L sched ops r0 hk] at this
  exact this

/-- **C05 up to the first failure (`C05_resume_until_failure`) for the executable model's transformation**: `good` are
    calls none of which fails on the reader that sees everything, `more` are any further calls; the contracts are
    replaced by the shape of `r0`'s stored `tRNS` as in `C05_resume_complete_real` -/
theorem C05_resume_until_failure_real (cfg : Cfg) (hI : cfg.InflateOk) (r0 : R) (hInv : Inv realT r0) (hk : KeyInv r0.dec)
    (hr : r0.isReader = true) (hd : r0.dead = false) (L : Nat) (hL : r0.visible ≤ L) (good more : List Op)
    (hc : ∀ op ∈ good, op.isCall = true) (sched : List Nat)
    (hg : ∀ x ∈ (run cfg realT (growTo r0 L) good).2, x.isGood = true) :
    ∃ ys zs zs', (run cfg realT (growTo r0 L) (good ++ more)).2 = (run cfg realT (growTo r0 L) good).2 ++ ys ∧
      (run cfg realT (growTo r0 L) good).2 = resumeRun cfg realT L sched good r0 ++ zs ∧
      (L ≤ r0.visible + sched.sum → zs = []) ∧
      resumeRun cfg realT L sched (good ++ more) r0 = resumeRun cfg realT L sched good r0 ++ zs' := by
  have hkg : KI (growTo r0 L) := hk
  have := C05.C05_resume_until_failure cfg hI realTK realTK_ok realTK_stable r0 (hInv.of_agree realT_agree) hr hd L hL
    good more hc sched (by rw [run_agree realT_agree cfg _ hkg good]; exact hg)
  rw [resumeRun_agree realT_agree cfg L sched good r0 hk, resumeRun_agree realT_agree cfg L sched (good ++ more) r0 hk,
    run_agree realT_agree cfg _ hkg good, run_agree realT_agree cfg _ hkg (good ++ more)] at this
  exact this

/-- **C05 from the start, up to the first failure** for the executable model's transformation and a NEW decoder: no
    hypothesis about the transformation or the reader -/
theorem C05_resume_from_start_until_failure_real (cfg : Cfg) (hI : cfg.InflateOk) (opts : Options) (limit : Nat)
    (flags : Flags) (input : Bytes) (visible : Nat) (hlen : input.length < 2 ^ 32) (r0 : R) (L : Nat) (hv : visible ≤ L)
    (h : step cfg realT (R.init opts limit flags input visible) .readInfo = (r0, .header)) (good more : List Op)
    (hc : ∀ op ∈ good, op.isCall = true) (sched : List Nat)
    (hg : ∀ x ∈ (run cfg realT (growTo (R.init opts limit flags input visible) L) (.readInfo :: good)).2, x.isGood = true) :
    ∃ ys zs zs', (run cfg realT (growTo (R.init opts limit flags input visible) L) (.readInfo :: (good ++ more))).2 =
        (run cfg realT (growTo (R.init opts limit flags input visible) L) (.readInfo :: good)).2 ++ ys ∧
      (run cfg realT (growTo (R.init opts limit flags input visible) L) (.readInfo :: good)).2 =
        .header :: (resumeRun cfg realT L sched good r0 ++ zs) ∧
      (L ≤ visible + sched.sum → zs = []) ∧
      resumeRun cfg realT L sched (good ++ more) r0 = resumeRun cfg realT L sched good r0 ++ zs' := by
  have hk0 := ki_init opts limit flags input visible
  have hkg : KI (growTo (R.init opts limit flags input visible) L) := hk0
  have hk : KI r0 := ki_of_eq h (step_ki cfg realT _ .readInfo hk0)
  have hP : PreInv (R.init opts limit flags input visible) := by
    rcases rinv_init realTK opts limit flags input visible hlen with ⟨k, _⟩ | ⟨_, k, _⟩ | ⟨_, _, k⟩
    · cases k
    · cases k
    · exact k
  have h' : step cfg realTK (R.init opts limit flags input visible) .readInfo = (r0, .header) := by
    rw [step_agree realT_agree cfg _ hk0]; exact h
  have := C05.C05_resume_from_start_until_failure cfg hI realTK realTK_ok realTK_stable (R.init opts limit flags input visible)
    r0 hP rfl rfl L hv h' good more hc sched (by rw [run_agree realT_agree cfg _ hkg]; exact hg)
  rw [run_agree realT_agree cfg _ hkg, run_agree realT_agree cfg _ hkg,
    resumeRun_agree realT_agree cfg L sched good r0 hk, resumeRun_agree realT_agree cfg L sched (good ++ more) r0 hk] at this
  exact this

/-! ## Non-vacuity: concrete `Info`s, rows and flags -/

/-- decidable equality of creation results (for the `decide` examples below only) -/
local instance : DecidableEq (Except String Unit) := fun a b =>
  match a, b with
  | .ok (), .ok () => isTrue rfl
  | .error x, .error y => if h : x = y then isTrue (by rw [h]) else isFalse (fun e => h (by cases e; rfl))
  | .ok _, .error _ => isFalse (fun e => by cases e)
  | .error _, .ok _ => isFalse (fun e => by cases e)

/-- indexed, 2 bits, 4×1; a palette of three entries and a `tRNS` of two alphas -/
def idx2 : Info :=
  { width := 4, height := 1, depth := 2, color := 3, interlaced := false,
    palette := some [10, 20, 30, 40, 50, 60, 70, 80, 90], trns := some [0, 128] }

/-- the hypotheses of `realT_ok_partial` hold for it -/
example : InfoLegal idx2 ∧ keyGap idx2 { expand := true } = false := ⟨⟨by decide, by decide, by decide⟩, by decide⟩

/-- under EXPAND creation succeeds; the output type is RGBA 8 and a row has 16 bytes -/
example : realT.create idx2 { expand := true } = .ok () := by decide +kernel
example : realT.outColorDepth idx2 { expand := true } = (6, 8) ∧ outLineSize realT idx2 { expand := true } 4 = 16 := by
  decide +kernel

/-- the row `[0x1B]` = pixels 0, 1, 2, 3: entries 0 and 1 with their `tRNS` alpha, entry 2 opaque, index 3
    (beyond the palette) opaque black -/
example : realT.apply idx2 { expand := true } idx2 [0x1B] 16 =
    some [10, 20, 30, 0, 40, 50, 60, 128, 70, 80, 90, 255, 0, 0, 0, 255] := by decide +kernel

/-- a PLTE chunk that is not a whole number of entries (7 bytes = 2 entries and a stray byte): creation
    succeeds, the stray byte is no entry — pixel 2 is black; `tRNS` longer than the palette is ignored -/
example : realT.apply { idx2 with palette := some [10, 20, 30, 40, 50, 60, 70], trns := some [1, 2, 3] } { expand := true }
      { idx2 with palette := some [10, 20, 30, 40, 50, 60, 70], trns := some [1, 2, 3] } [0x1B] 16 =
    some [10, 20, 30, 255, 40, 50, 60, 255, 0, 0, 0, 255, 0, 0, 0, 255] := by decide +kernel

/-- without a palette creation fails with the `Format` error, not a panic; an empty palette is fine -/
example : realT.create { idx2 with palette := none } { expand := true } = .error "PaletteRequired" := by decide +kernel
example : realT.apply { idx2 with palette := some [] } { expand := true } { idx2 with palette := some [] } [0x1B] 16 =
    some [0, 0, 0, 255, 0, 0, 0, 255, 0, 0, 0, 255, 0, 0, 0, 255] := by decide +kernel

/-- a function created before PLTE changed nothing it reads: created from the `Info` without palette under
    STRIP_16 (the identity for 2-bit samples), applied to the current `Info` — the packed row is copied -/
example : realT.apply { idx2 with palette := none, trns := none } { strip16 := true } { idx2 with trns := none } [0x1B] 1 =
    some [0x1B] := by decide +kernel

/-- 16-bit grayscale with a 3-byte `tRNS` (a colour key of the wrong length, stored whole by `parse_trns`):
    no pixel matches, every alpha is 0xFFFF; with STRIP_16 the high bytes and alpha 0xFF -/
example : realT.apply { gapInfo with depth := 16, trns := some [0, 1, 2] } { expand := true }
      { gapInfo with depth := 16, trns := some [0, 1, 2] } [0, 1] 4 = some [0, 1, 255, 255] := by decide +kernel
example : realT.apply { gapInfo with depth := 16, trns := some [0, 1] } { expand := true, strip16 := true }
      { gapInfo with depth := 16, trns := some [0, 1] } [0, 1] 2 = some [0, 0] := by decide +kernel

/-- grayscale below 8 bits with the one-byte key `parse_trns` stores: pixel value 1 of depth 2 is the key -/
example : realT.apply { gapInfo with trns := some [1] } gapFlags { gapInfo with trns := some [1] } [0x40] 2 = some [85, 0] :=
  realT_apply_one_byte_key

/-- `realTK` differs from `realT` on the gap only -/
example : realTK.apply gapInfo gapFlags gapInfo [0x40] 2 = some [0, 0] := by decide +kernel
example : realTK.apply idx2 { expand := true } idx2 [0x1B] 16 = realT.apply idx2 { expand := true } idx2 [0x1B] 16 :=
  realTK_apply _ _ _ _ _ (by decide)

/-- the shape invariant on concrete `Info`s: `idx2` and the one-byte key have it, `gapInfo` does not -/
example : TrnsShape idx2 := by
  intro t _; exact ⟨fun h => absurd h (by decide), fun h => absurd h (by decide)⟩
example : TrnsShape { gapInfo with trns := some [1] } := by
  intro t ht; cases ht; exact ⟨fun _ => by decide, fun h => absurd h (by decide)⟩
example : ¬ TrnsShape gapInfo := fun h => h.no_gap rfl rfl

end Png.TContract
