import PngVerif.Proofs.DataPath
import PngVerif.Proofs.DataPathRows
/-!
# C06 — Reader-side buffers are bounded (image-data path: `ZlibStream` window, `UnfilteringBuffer`,
scratch row, discard vector)

Property theorems only (lemmas: `PngVerif/Proofs/DataPath.lean`; model: `PngVerif/Model/DataPath.lean`, built
from the existing `ZW` and `UB` component models).  `Props/C06.lean` bounds what the framing layer holds;
this file bounds everything between the compressed `IDAT`/`fdAT` bytes and the caller.

For EVERY operation sequence the Reader's discipline allows (`DP.run … = .ok st`; the discipline is
`next_raw_interlaced_row`'s loop condition: data is fetched only `while curr_row_len() < rowlen`, and pass
rows are at most as long as the frame's row), EVERY inflater behaviour (how many bytes each call produces:
arbitrary `k`), EVERY row length, frame sequence, `max_total_output` setting and stream content:

* `ZlibStream::out_buffer.len() ≤ W` at all times, the inside of calls included (`zHigh`), with
  `W = 2·(LOOKBACK_SIZE·4 + CHUNK_BUFFER_SIZE) = 327 680`;
* `UnfilteringBuffer::data_stream.len() ≤ 2·rowlen − 2 + max(W, F)` where `rowlen` is the frame's raw row
  length (filter byte included) and `F` is the most any single `finish_compressed_chunks` call has produced
  (`flushHigh ≤` what the inflater wanted there: output it can still produce after its last input byte — a
  property of the inflater, for `fdeflate` a few KiB, measured by the harness);
* every `to_be_discarded` vector `≤ max(W, F)`;
* `scratch_buffer.len()` = the output line of a frame that was started and paid for, and it and the current
  output line are covered by the bytes charged: `≤ L − limit ≤ L`.

WHAT IS CHARGED TO `Limits` AND WHAT IS NOT.  The Reader charges exactly one thing: `output_line_size(subframe
width)` bytes, once per started (sub)frame (`reserve_bytes`, mod.rs:366-367), never refunded; that is the
length `scratch_buffer` is resized to (mod.rs:505).  NOT charged: `out_buffer` (≤ W), the unfiltering buffer
(≤ 2·rowlen − 2 + max(W,F); `rowlen − 1 ≤ 2·output line`, equality for 16-bit input under `STRIP_16`), the discard
vectors, `Vec` capacity slack (`vecGrow_bounded`: capacity ≤ 2 × the largest length, std's amortised growth).
Hence (`C06_reader_heap`) the Reader-side heap is `≤ (2a+1)·L + W + 2·max(W,F)` with `a = 1`
(no `STRIP_16` of 16-bit data: `3·L + …`) or `a = 2` (always: `5·L + …`), independent of the image height, of
declared chunk lengths and of the decompressed size of the stream — a FULL theorem since the repair below.

THE PINNED TREE VIOLATED THIS (repaired by 0a2b38f).  The old `Reader::read_until_image_data` installed the new
`SubframeInfo` BEFORE `reserve_bytes`.  When `next_frame_info`/`next_frame` returned `Err(LimitsExceeded)` for a
later frame the Reader stayed usable, and the next `next_row`/`next_frame` decoded that frame anyway: scratch row
and unfiltering buffer sized by the refused frame, nothing charged (APNG, frame 0 = 1×1, frame 1 = 4096×2 RGBA8,
`Limits{bytes: 10000}`: `next_frame_info` → `LimitsExceeded`, then `next_row` → `Ok`, `scratch_buffer.capacity()
= 16384`).  The repaired code reserves FIRST and installs the frame only on success; on refusal the old, paid-for
subframe is kept with no rows and no frames left.  `DP.step` models the repaired code; `DP.stepPinned` keeps the old
behaviour (they differ only in a refused frame start: `DP.stepPinned_eq`), and
`C06_reader_heap_pinned_counterexample` is the decided run on which the pinned tree broke the bound.  The harness class
`scratch-row-after-refused-frame` fires again if the defect returns.

TIES TO THE `Reader` MODEL (`Model/Reader.lean`, transformation `Driver.realT`): `reader_frame_real` (the frame
`⟨Sub.new(i).rowlen, outLineSize …, bpp⟩` the model installs and charges satisfies `2 ≤ rowlen ≤ 2·outLine + 1`, and
`≤ outLine + 1` without `STRIP_16` on 16-bit data) and `reader_pass_real` (Adam7 pass rows are between 2 bytes and the
frame's row) discharge the model's frame assumptions.  Assumed, not modelled here: the output line of a frame does not
change while it is current (`realT_stable`: it depends on IHDR and `tRNS` only, and `tRNS` after `IDAT` is refused);
the fixed-size pieces (`fdeflate::Decompressor` box, the boxed `transform_fn` with its 1 KiB palette memo).
Other results: `reader_datapath_panics` (the only reachable panic is zlib.rs:141's progress `assert!`),
`reader_flush_bounded`, `reader_scratch_le_line`, `reader_limit_hit_keeps_frame`, `vec_capacity_bounded`.
-/
namespace Png.C06
open Png

/-- the window constant of all bounds, from the source constants (Tie A) -/
abbrev W : Nat := 2 * (Params.lookbackSize * Params.compactFactor + Params.chunkBufferSize)

theorem W_value : W = 327680 := by decide

theorem W_eq_window : ZCfg.current.window = W := rfl

/-- **C06, Reader side: every buffer of the image-data path is bounded, whatever the file claims.**
    `L` = budget left when the first image data is reached, `fr` the first frame, `O` the first stream's
    ideal output; `ops` any operation sequence (see `DPOp`) the Reader's discipline allows, with arbitrary
    inflater production sizes.  In the state reached (hence in every state on the way: every prefix of `ops`
    is such a sequence; the high-water marks cover the inside of calls):
    1. `data_stream.len() + 2 ≤ 2·rowlen + max(W, flushHigh)`;
    2. `out_buffer.len() ≤ zHigh ≤ W`;
    3. every discard vector so far `≤ max(W, flushHigh)`;
    4. `limit ≤ L`, and the scratch row and the current frame's output line are `≤ L − limit` (covered by what
       was charged: a frame whose charge `Limits` refuses is never installed). -/
theorem C06_reader_buffers_bounded (L : Nat) (fr : DPFrame) (O : Bytes) (ops : List DPOp) (st0 st : DP)
    (h0 : DP.start L fr O = some st0) (hr : DP.run ZCfg.current ops st0 = .ok st) :
    st.ub.data.length + 2 ≤ 2 * st.frame.rowlen + max W st.flushHigh ∧
    st.z.bufLen ≤ st.zHigh ∧ st.zHigh ≤ W ∧
    st.tmpHigh ≤ max W st.flushHigh ∧
    st.limit ≤ L ∧
    st.scratchLen ≤ L - st.limit ∧ st.frame.outLine ≤ L - st.limit := by
  have hi := DP.run_inv ZCfg.current ZCfg.current_ok L ops st0 st
    (DP.start_inv ZCfg.current L fr O st0 h0).1 hr
  exact ⟨hi.ublen, hi.zcur, hi.zhigh, hi.tmp, hi.lim, hi.paid.1, hi.paid.2⟩

/-- the index invariants of `UnfilteringBuffer` (`debug_assert_invariants`) and the shape the bound rests
    on: the previous row is absent or one pass row long, and the pass row is at most the frame's row -/
theorem reader_buffers_shape (L : Nat) (fr : DPFrame) (O : Bytes) (ops : List DPOp) (st0 st : DP)
    (h0 : DP.start L fr O = some st0) (hr : DP.run ZCfg.current ops st0 = .ok st) :
    st.ub.Inv ∧ (st.ub.curStart - st.ub.prevStart = 0 ∨ st.ub.curStart - st.ub.prevStart = st.rowlen - 1) ∧
    2 ≤ st.rowlen ∧ st.rowlen ≤ st.frame.rowlen ∧
    st.z.hist.length ≤ st.z.bufLen ∧ st.z.readPos = st.z.hist.length ∧
    st.z.hist.length ≤ Params.lookbackSize * Params.compactFactor := by
  have hi := DP.run_inv ZCfg.current ZCfg.current_ok L ops st0 st
    (DP.start_inv ZCfg.current L fr O st0 h0).1 hr
  exact ⟨hi.ubinv, hi.prev, hi.row2, hi.rowle, hi.zsz.1.1, hi.zsz.2, hi.zsz.1.2.1⟩

/-- **the flush term is what the inflater wanted**: if in no `finish_compressed_chunks` of the run the
    inflater wants to produce more than `F` bytes (output it still owes after its last input byte), then
    `flushHigh ≤ F` -/
theorem reader_flush_bounded (L F : Nat) (fr : DPFrame) (O : Bytes) (ops : List DPOp) (st0 st : DP)
    (h0 : DP.start L fr O = some st0) (hr : DP.run ZCfg.current ops st0 = .ok st)
    (hF : ∀ op ∈ ops, op.flushWant ≤ F) : st.flushHigh ≤ F := by
  obtain ⟨hi0, _, _⟩ := DP.start_inv ZCfg.current L fr O st0 h0
  refine DP.run_flushHigh ZCfg.current ZCfg.current_ok L F ops st0 st hi0 hr ?_ hF
  unfold DP.start at h0
  split at h0
  · cases h0
  · simp only [Option.some.injEq] at h0; subst h0; exact Nat.zero_le _

/-- **no panic on the data path except the deliberate progress `assert!`** (zlib.rs:141): if a run panics,
    the operations before the panic succeed and the panicking one is a flush in which some non-final
    iteration of the finish loop neither produced nor transferred anything -/
theorem reader_datapath_panics (L : Nat) (fr : DPFrame) (O : Bytes) (ops : List DPOp) (st0 : DP)
    (h0 : DP.start L fr O = some st0) (hr : DP.run ZCfg.current ops st0 = .panic) :
    ∃ pre op post st1 ks kl O', ops = pre ++ op :: post ∧ DP.run ZCfg.current pre st0 = .ok st1 ∧
      (op = .pullFlush (.loop ks kl) O' ∨ op = .skipFlush (.loop ks kl) O') ∧
      ZW.finishIters ZCfg.current st1.O ks { st1.z with delivered := [] } = none :=
  DP.run_panic ZCfg.current ZCfg.current_ok L ops st0 (DP.start_inv ZCfg.current L fr O st0 h0).1 hr

/-- in particular a run whose flushes have no non-final iteration never panics -/
theorem reader_datapath_no_panic (L : Nat) (fr : DPFrame) (O : Bytes) (ops : List DPOp) (st0 : DP)
    (h0 : DP.start L fr O = some st0)
    (hops : ∀ op ∈ ops, ∀ k ks kl O', op ≠ .pullFlush (.loop (k :: ks) kl) O' ∧ op ≠ .skipFlush (.loop (k :: ks) kl) O') :
    DP.run ZCfg.current ops st0 ≠ .panic := by
  intro hr
  obtain ⟨pre, op, post, st1, ks, kl, O', he, _, hop, hn⟩ := reader_datapath_panics L fr O ops st0 h0 hr
  cases ks with
  | nil => simp [ZW.finishIters] at hn
  | cons k ks =>
    have hm : op ∈ ops := by rw [he]; simp
    have := hops op hm k ks kl O'
    rcases hop with h | h
    · exact this.1 h
    · exact this.2 h

/-- the Reader-side heap of a state: the three persistent buffers plus the largest discard vector -/
def readerHeap (st : DP) : Nat := st.ub.data.length + st.z.bufLen + st.scratchLen + st.tmpHigh

/-- **C06, Reader side, in terms of the configured limit.**  `a` relates the raw row to the charged output
    line (`rowlen ≤ a·outLine + 1`: `a = 1` unless 16-bit samples are stripped to 8, `a = 2` always:
    `reader_frame_real`).  Then on EVERY run
    `data_stream + out_buffer + scratch_buffer + largest discard vector ≤ (2a+1)·(L − limit) + W + 2·max(W,F)`:
    a fixed linear function of the budget actually spent, hence of `L`; no term depends on the image height,
    on declared chunk lengths or on how much the stream decompresses to. -/
theorem C06_reader_heap (a L F : Nat) (fr : DPFrame) (O : Bytes) (ops : List DPOp) (st0 st : DP)
    (h0 : DP.start L fr O = some st0) (hr : DP.run ZCfg.current ops st0 = .ok st)
    (ha0 : fr.rowlen ≤ a * fr.outLine + 1)
    (ha : ∀ f, DPOp.newFrame f ∈ ops → f.rowlen ≤ a * f.outLine + 1)
    (hF : ∀ op ∈ ops, op.flushWant ≤ F) :
    readerHeap st ≤ 2 * (a * (L - st.limit)) + (L - st.limit) + W + 2 * max W F ∧
    readerHeap st ≤ 2 * (a * L) + L + W + 2 * max W F := by
  obtain ⟨h1, h2, h3, h4, h5, h7, h8⟩ := C06_reader_buffers_bounded L fr O ops st0 st h0 hr
  have hfl := reader_flush_bounded L F fr O ops st0 st h0 hr hF
  have hfr : st.frame.rowlen ≤ a * st.frame.outLine + 1 := by
    refine DP.run_frame ZCfg.current (fun f => f.rowlen ≤ a * f.outLine + 1) ops st0 st hr ?_ ha
    rw [(DP.start_inv ZCfg.current L fr O st0 h0).2.2]; exact ha0
  have hm : a * st.frame.outLine ≤ a * (L - st.limit) := Nat.mul_le_mul_left _ h8
  have hm2 : a * (L - st.limit) ≤ a * L := Nat.mul_le_mul_left _ (Nat.sub_le _ _)
  have hW : W = 327680 := W_value
  unfold readerHeap
  constructor <;> omega

/-- the two instances: `3·L + c` when raw rows are no longer than the output line plus the filter byte,
    `5·L + c` in general (`c = W + 2·max(W,F)`, `= 983 040` when `F ≤ W`) -/
theorem C06_reader_heap_3L (L F : Nat) (fr : DPFrame) (O : Bytes) (ops : List DPOp) (st0 st : DP)
    (h0 : DP.start L fr O = some st0) (hr : DP.run ZCfg.current ops st0 = .ok st)
    (ha0 : fr.rowlen ≤ fr.outLine + 1) (ha : ∀ f, DPOp.newFrame f ∈ ops → f.rowlen ≤ f.outLine + 1)
    (hF : ∀ op ∈ ops, op.flushWant ≤ F) :
    readerHeap st ≤ 3 * L + (W + 2 * max W F) := by
  have := (C06_reader_heap 1 L F fr O ops st0 st h0 hr (by omega)
    (fun f hf => by have := ha f hf; omega) hF).2
  omega

theorem C06_reader_heap_5L (L F : Nat) (fr : DPFrame) (O : Bytes) (ops : List DPOp) (st0 st : DP)
    (h0 : DP.start L fr O = some st0) (hr : DP.run ZCfg.current ops st0 = .ok st)
    (ha0 : fr.rowlen ≤ 2 * fr.outLine + 1) (ha : ∀ f, DPOp.newFrame f ∈ ops → f.rowlen ≤ 2 * f.outLine + 1)
    (hF : ∀ op ∈ ops, op.flushWant ≤ F) :
    readerHeap st ≤ 5 * L + (W + 2 * max W F) := by
  have := (C06_reader_heap 2 L F fr O ops st0 st h0 hr ha0 ha hF).2
  omega

/-- **the frame assumptions hold for what the `Reader` model computes with the actual transformation**
    (`Model/Reader.lean`: `Sub.new` and the amount `readUntilImageData` charges; `Driver.realT`).  For an `Info`
    that passed the IHDR validation (`InfoLegal`) and a (sub)frame at least one pixel wide, the frame
    `⟨subframe.rowlen, output_line_size(subframe.width), bpp⟩` has `2 ≤ rowlen ≤ 2·outLine + 1` (the hypothesis
    `a = 2` of `C06_reader_heap`), `rowlen ≤ outLine + 1` unless 16-bit samples are stripped (`a = 1`), and
    every pass `1 ≤ w' ≤ width` has `2 ≤ r ≤ rowlen` (what `newPass` requires). -/
theorem reader_frame_real (i : Framing.Info) (f : Reader.Flags) (bpp : Nat) (hl : Framing.InfoLegal i)
    (hw : 1 ≤ (Reader.Sub.dims i).1) :
    let fr : DPFrame := ⟨(Reader.Sub.new i).rowlen, Reader.outLineSize Driver.realT i f (Reader.Sub.new i).width, bpp⟩
    2 ≤ fr.rowlen ∧ fr.rowlen ≤ 2 * fr.outLine + 1 ∧
    ((i.depth ≠ 16 ∨ f.strip16 = false) → fr.rowlen ≤ fr.outLine + 1) ∧
    ∀ w', 1 ≤ w' → w' ≤ (Reader.Sub.dims i).1 →
      2 ≤ rawRowLengthFromWidth i.color i.depth w' ∧ rawRowLengthFromWidth i.color i.depth w' ≤ fr.rowlen :=
  Driver.readerFrame_ok i f bpp hl hw

/-- an Adam7 pass of the frame (pass `p`, non-empty — what the `Reader` model's invariant `CurOk` records about
    the row iterator) has a raw row of at least 2 bytes and at most the frame's: `newPass` is never refused -/
theorem reader_pass_real (c d width p : Nat) (hl : (c, d) ∈ legalPairs) (hp : 1 ≤ p ∧ p ≤ 7)
    (hw : 1 ≤ Adam7.passW width p) :
    2 ≤ rawRowLengthFromWidth c d (Adam7.passW width p) ∧
    rawRowLengthFromWidth c d (Adam7.passW width p) ≤ rawRowLengthFromWidth c d width :=
  Driver.adam7_pass_row_ok c d width p hl hp hw

/-- the bound `a = 2` is attained: RGBA 16-bit under `STRIP_16`, 10 pixels: raw row 81 bytes, output line 40 -/
example : rawRowLengthFromWidth 6 16 10 = 81 ∧
    Reader.outLineSize Driver.realT { width := 10, height := 1, depth := 16, color := 6, interlaced := false }
      { strip16 := true } 10 = 40 := by decide

/-- a refused frame start: budget 4; frame 0 has a 4-byte line (paid); its data sequence ends; the next frame
    start asks for 10 000 000 bytes and is refused; a row call follows -/
def refusedFrameRun : List DPOp :=
  [.pullFlush .idle [], .newFrame ⟨10000001, 10000000, 4⟩, .scratch]

/-- **a refused frame start installs nothing** (repaired code): the old frame stays current, the scratch row is
    sized by it, no further frame can be started, nothing but the flags changes -/
theorem reader_limit_hit_keeps_frame (st : DP) (fr : DPFrame)
    (hg : st.flushed = true ∧ st.noFrames = false ∧ 2 ≤ fr.rowlen) (hl : st.limit < fr.outLine) :
    st.step ZCfg.current (.newFrame fr) = .ok { st with flushed := true, noFrames := true, limitHit := true } ∧
    ∀ fr', ({ st with flushed := true, noFrames := true, limitHit := true } : DP).step ZCfg.current (.newFrame fr')
      = .refused := by
  obtain ⟨h1, h2, h3⟩ := hg
  constructor
  · simp only [DP.step, h1, h2]
    rw [if_neg (by simp; omega), if_neg (by omega)]
  · intro fr'
    simp [DP.step]

/-- on the repaired tree the run ends with the scratch row sized by the paid 4-byte line -/
example : DP.runFrom ZCfg.current 4 ⟨5, 4, 4⟩ [] refusedFrameRun = some (.ok
    { ubLen := 0, prevStart := 0, curStart := 0, bufLen := 0, outPos := 0, readPos := 0,
      scratchLen := 4, limit := 0, flushed := true, limitHit := true,
      zHigh := 0, tmpHigh := 0, flushHigh := 0 }) := by decide

/-- the heap statement over the PINNED tree's step (`DP.runPinned`: the frame is installed before the charge) -/
def C06_reader_heap_statement_pinned : Prop :=
  ∀ (a L F : Nat) (fr : DPFrame) (O : Bytes) (ops : List DPOp) (st0 st : DP),
    DP.start L fr O = some st0 → DP.runPinned ZCfg.current ops st0 = .ok st →
    fr.rowlen ≤ a * fr.outLine + 1 → (∀ f, DPOp.newFrame f ∈ ops → f.rowlen ≤ a * f.outLine + 1) →
    (∀ op ∈ ops, op.flushWant ≤ F) →
    readerHeap st ≤ 2 * (a * L) + L + W + 2 * max W F

/-- **The pinned tree violated this (repaired by 0a2b38f).**  On the old code a refused frame start stayed
    installed and the next row call sized the scratch row by it: 10 000 000 bytes under a budget of 4. -/
theorem C06_reader_heap_pinned_counterexample : ¬ C06_reader_heap_statement_pinned := by
  intro h
  have hobs : DP.runFromPinned ZCfg.current 4 ⟨5, 4, 4⟩ [] refusedFrameRun = some (.ok
      { ubLen := 0, prevStart := 0, curStart := 0, bufLen := 0, outPos := 0, readPos := 0,
        scratchLen := 10000000, limit := 0, flushed := false, limitHit := true,
        zHigh := 0, tmpHigh := 0, flushHigh := 0 }) := by decide
  obtain ⟨st0, st, hs, hr, hsz⟩ := DP.runFromPinned_ok _ _ _ _ _ _ hobs
  have hsc : st.scratchLen = 10000000 := congrArg DPSizes.scratchLen hsz
  have := h 1 4 0 ⟨5, 4, 4⟩ [] refusedFrameRun st0 st hs hr (by decide)
    (by intro f hf
        simp only [refusedFrameRun, List.mem_cons, List.not_mem_nil, or_false, reduceCtorEq, false_or,
          DPOp.newFrame.injEq] at hf
        subst hf; decide)
    (by decide)
  have hW : W = 327680 := W_value
  unfold readerHeap at this
  omega

/-- independently of the ledger: the scratch row is never longer than the longest output line among the frames
    the run tried to start (for an APNG: at most the canvas line, since `fcTL` regions lie inside the canvas) -/
theorem reader_scratch_le_line (B L : Nat) (fr : DPFrame) (O : Bytes) (ops : List DPOp) (st0 st : DP)
    (h0 : DP.start L fr O = some st0) (hr : DP.run ZCfg.current ops st0 = .ok st)
    (hB0 : fr.outLine ≤ B) (hB : ∀ f, DPOp.newFrame f ∈ ops → f.outLine ≤ B) :
    st.scratchLen ≤ B ∧ st.frame.outLine ≤ B := by
  have hfr := (DP.start_inv ZCfg.current L fr O st0 h0).2.2
  refine DP.run_scratch ZCfg.current B ops st0 st hr ?_ (by rw [hfr]; exact hB0) hB
  unfold DP.start at h0
  split at h0
  · cases h0
  · simp only [Option.some.injEq] at h0; subst h0; exact Nat.zero_le _

/-- `Vec` capacity: a vector whose requested lengths never exceed `B` never holds more than `max (2·B) 8`
    elements of capacity under std's amortised growth (`RawVec::grow_amortized`); with the length bounds
    above this bounds the real allocations by twice the logical sizes -/
theorem vec_capacity_bounded (B : Nat) (needs : List Nat) (h : ∀ n ∈ needs, n ≤ B) :
    needs.foldl vecGrow 0 ≤ max (2 * B) 8 :=
  vecGrow_bounded B needs 0 (by omega) h

/-! ## non-vacuity -/
section examples

/-- a 2-row frame of `rowlen` 5 (`Sub` then `Up`, bpp 4): the 10 stream bytes arrive in calls producing
    3, 4, and 3 bytes; two rows are unfiltered through the scratch path; the sequence is flushed; a second frame
    (rowlen 3, line 2) is started and paid for; the rest of its data is skipped -/
def demoOps : List DPOp :=
  [.setMax 10, .pull 3, .pullNone, .pull 4, .scratch, .row, .pull 100, .row, .pullFlush (.loop [] 0) [0, 7, 7, 0, 1, 1],
   .newFrame ⟨3, 2, 1⟩, .newPass 3, .pull 4, .scratch, .row, .skip 100, .skipFlush .idle [], .finish]

example : DP.runFrom ZCfg.current 100 ⟨5, 4, 4⟩ [1, 1, 2, 3, 4, 2, 1, 1, 1, 1] demoOps = some (.ok
    { ubLen := 0, prevStart := 0, curStart := 0, bufLen := 0, outPos := 0, readPos := 0,
      scratchLen := 2, limit := 94, flushed := true, limitHit := false,
      zHigh := 65536, tmpHigh := 2, flushHigh := 0 }) := by decide

/-- the state in the middle of the first frame (`max_total_output = 10` caps `out_buffer`): the first row is
    unfiltered, compaction dropped its filter byte, the second row is complete -/
example : DP.runFrom ZCfg.current 100 ⟨5, 4, 4⟩ [1, 1, 2, 3, 4, 2, 1, 1, 1, 1] (demoOps.take 7) = some (.ok
    { ubLen := 9, prevStart := 0, curStart := 4, bufLen := 10, outPos := 10, readPos := 10,
      scratchLen := 4, limit := 96, flushed := false, limitHit := false,
      zHigh := 10, tmpHigh := 0, flushHigh := 0 }) := by decide

/-- the hypotheses of `C06_reader_heap` hold on it (`a = 1`, `F = 0`) -/
example : (5 ≤ 1 * 4 + 1) ∧ (∀ f, DPOp.newFrame f ∈ demoOps → f.rowlen ≤ 1 * f.outLine + 1) ∧
    (∀ op ∈ demoOps, op.flushWant ≤ 0) := by
  refine ⟨by decide, ?_, ?_⟩
  · intro f hf
    simp only [demoOps, List.mem_cons, List.not_mem_nil, or_false, reduceCtorEq, false_or, DPOp.newFrame.injEq] at hf
    subst hf; decide
  · decide

/-- the discipline refuses fetching data while a whole row is present, and unfiltering before it is -/
example : DP.runFrom ZCfg.current 100 ⟨5, 4, 4⟩ [1, 1, 2, 3, 4, 2, 1, 1, 1, 1] [.pull 7, .pull 1] = some .refused ∧
    DP.runFrom ZCfg.current 100 ⟨5, 4, 4⟩ [1, 1, 2, 3, 4, 2, 1, 1, 1, 1] [.pull 3, .row] = some .refused := by
  decide

/-- the one reachable panic: a finish-loop iteration in which the inflater stalls -/
example : DP.runFrom ZCfg.current 100 ⟨5, 4, 4⟩ [1, 1, 2] [.pull 3, .pullFlush (.loop [0] 0) []] = some .panic := by
  decide

/-- **the flush term `F` is necessary** for an abstract inflater: with small constants (look-back 4, factor 2,
    chunk 3: window bound 22) a finish loop of seven productive iterations appends 51 bytes in ONE
    `decode_image_data` call, so `data_stream.len() = 52 > 2·rowlen − 2 + 22`; the bound with
    `max(window, flushHigh)` holds (`52 + 2 ≤ 2·2 + 51`).  (A real inflater has consumed all its input by then and
    owes only a few KiB: the harness measures `F`.) -/
example : (⟨4, 2, 3⟩ : ZCfg).Ok ∧ (⟨4, 2, 3⟩ : ZCfg).window = 22 ∧
    DP.runFrom ⟨4, 2, 3⟩ 100 ⟨2, 1, 1⟩ (List.replicate 60 0) [.pull 1, .pullFlush (.loop [8, 8, 8, 8, 8, 8] 8) []] = some (.ok
      { ubLen := 52, prevStart := 0, curStart := 0, bufLen := 0, outPos := 0, readPos := 0,
        scratchLen := 0, limit := 99, flushed := true, limitHit := false,
        zHigh := 12, tmpHigh := 0, flushHigh := 51 }) :=
  ⟨⟨by decide, by decide, by decide⟩, by decide, by decide⟩

/-- a first frame the budget does not cover: `read_info` fails, there is no `Reader` -/
example : DP.start 3 ⟨5, 4, 4⟩ [] = none := by decide

example : vecGrow 0 5 = 8 ∧ vecGrow 8 9 = 16 ∧ vecGrow 16 100 = 100 ∧ vecGrow 100 60 = 100 := by decide

end examples
end Png.C06
