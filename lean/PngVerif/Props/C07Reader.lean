import PngVerif.Props.C02
/-!
# C07 at the `Reader` level: every public call does a bounded amount of decoder work

Every loop of the `Reader` model (`read_until_image_data`, `decode_image_data`, `finish_decoding_image_data`,
`read_until_end_of_input`, the row loop of `next_frame`) is structurally bounded by a fuel argument and answers
`.panic "fuel"` when the fuel runs out.  The fuel every public call hands to its loops is `fuelOf r`, linear in the
input that is visible and not yet consumed.  `C02_no_panic` shows that no reachable call ever returns a panic - the
fuel panic included - so the real loops terminate within that many decoder events (`decode_next` calls), each of which
is bounded by `C07.update_fuel_suffices` at the framing level.
-/
namespace Png.C07
open Png Png.Reader Png.Framing

/-- the fuel of a public call is linear in the visible input not yet consumed -/
theorem reader_fuel_linear (r : R) : fuelOf r = 6 * (r.visible - r.pos) + 16 := rfl

/-- the remaining-work measure (`mu`: five steps per available byte plus the rank of the pending state) is below it -/
theorem reader_fuel_suffices (r : R) : M r < fuelOf r := fuelOf_ge r

/-- no reachable public call exhausts its fuel: no result of any run is the fuel panic (nor any other) -/
theorem reader_calls_within_fuel (cfg : Cfg) (t : TCfg) (ht : t.Ok) (opts : Options) (limit : Nat) (flags : Flags)
    (input : Bytes) (visible : Nat) (ops : List Op) (hlen : input.length < 2 ^ 32)
    (hops : ops.count Op.readInfo ≤ 1) :
    ∀ res ∈ (run cfg t (R.init opts limit flags input visible) ops).2, res ≠ .panic "fuel" := by
  intro res hres h
  have := Png.C02.C02_no_panic cfg t ht opts limit flags input visible ops hlen hops res hres
  rw [h] at this
  simp [Res.isPanic] at this

end Png.C07
