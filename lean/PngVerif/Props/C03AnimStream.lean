import PngVerif.Proofs.RoundTripAnimStreamDefault
import PngVerif.Props.C03AnimMeta
/-!
# C03 — animations through ONE owned `StreamWriter`, end to end at the byte level

`write_header`, `into_stream_writer_with_size(size)` (any `size`; the chunk writer takes at least 5 bytes), then for every frame
the stream writer's own frame setters (`SetOp`) and the frame's bytes in ANY partition into `write_all` calls (`SFrame`, `sOps`),
then `finish` — against `read_info` + `next_frame` of the decoder model.  Streaming back-end `scanZ compress chooseZ`: every
complete row is filtered with the type `chooseZ` picks against the previous row (the first row of EVERY frame against a zero
row: `chooseFirst`), the compressor may hold back its output until it is finished.

Which frame control a frame gets (read off the model, `Proofs/RoundTripAnimStreamRun.lean`): the first frame's `fcTL` is written
by `StreamWriter::new` from the `Writer`'s frame control `f0`; the setters only change the stream writer's copy, which
`new_frame` installs (with the `Writer`'s sequence number) at the first non-empty `write` of the next frame.  So setter calls
issued before the first frame's bytes take effect for the SECOND frame, together with those issued after it (`fcOfS`).

Proof: `Proofs/Encoder.lean` (`HeaderRel.sim`, `Completed`): a complete stream image leaves the `Writer` as `emitImage wpre ds ds`
does, `ds` being the chunk writer's cut; `Proofs/RoundTripStream.lean` (`InsideD`, `CompletedD`, `Lens`): which rows went into the
stream and how long the chunks are; `Proofs/RoundTripAnimStreamEnc.lean`: both carried through `new_frame` (`begin_frame`,
`frame_done`, `emitImage_later_cut`); `Proofs/RoundTripAnimStreamDecode.lean`: for any such cuts the file is `Reader.apngFile` and
`Reader.apng_wf_gen` applies; `Proofs/RoundTripAnimStreamDefault.lean`: the same with a separate default image
(`C03_anim_default_stream_encode_decode`).
-/
namespace Png.C03
open Png Png.Val Png.Enc Png.Framing Png.Reader Png.WellFormed Png.RoundTrip

/-- **C03 for animations through one owned stream writer.**  For every animated configuration `write_header` accepts
    (`Enc.Cfg.Anim`) without a separate default image whose frame control `f0` covers the canvas (anything else
    `StreamWriter::new` refuses for the first image), ANY metadata (`MetaOk`), every requested buffer size, every list of `n`
    frames `fr0 :: frs`, each with any sequence of setter calls (arguments in the ranges of their types; refused calls included)
    followed by the frame's bytes in any partition into `write_all` calls (empty calls and pieces that straddle row ends
    included), such that
    * the first frame has the size of the canvas and every later frame the size of the stream writer's copy of the frame
      control at that time (`SLaterOk`) — a sub-frame anywhere inside the canvas,
    * the sequence numbers stay below `2^32` — guaranteed by the budget `sBudget`: one `fcTL` and at most one `fdAT` chunk per
      byte of the compressed stream, for every later frame (the chunk writer's cut is existential in the proof),
    every filter choice, every compressor whose output for the scanline stream of each frame the decoder's inflater maps back to
    it (`hinf0`, `hinf` over `sRaws`; `hnil`), the same CRC function on both sides, every identity transformation, ALL decoder
    options, every limit that covers one line per frame and the metadata, all pre-fill bytes:

    `write_header`, `into_stream_writer`, every `write_all` and `finish` return `Ok` and no call panics (`SResOk`), and the bytes the
    sink then holds, given to `read_info` and `n` calls of `next_frame` (and one more), produce the header, then for every frame —
    in order — the geometry of its frame control and a buffer that holds EXACTLY THE BYTES WRITTEN FOR THAT FRAME followed by the
    pre-fill (`sFrameResults`), then `PolledAfterEndOfImage`. -/
theorem C03_anim_stream_encode_decode (cfg : Framing.Cfg) (t : TCfg) (f : Flags) (opts : Options) (limit P : Nat) (E : Codec)
    (compress : Bytes → Bytes) (chooseZ : Bytes → Bytes → FilterType) (c : Enc.Cfg) (n plays : Nat) (f0 : FC) (size : Nat)
    (fr0 : SFrame) (frs : List SFrame) (p0 : UInt8) (ps : List UInt8) (q : UInt8)
    (hI : cfg.InflateOk) (hcrc : ∀ b, cfg.crc b = crcOfList b) (ht : t.IsIdentity f)
    (hc : c.Anim n plays f0) (hsep : c.sepDefImg = false) (hm : MetaOk cfg opts.ignoreText P c)
    (hcov : f0.x = 0 ∧ f0.y = 0 ∧ f0.w = c.width ∧ f0.h = c.height)
    (hn : n = frs.length + 1) (hpre0 : ∀ o ∈ fr0.pre, o.inRange)
    (hlen0 : fr0.pieces.flatten.length = c.rowLen * c.height)
    (hl : SLaterOk c (fcOfS c.width c.height f0 fr0.pre) frs) (hsz : c.rowLen * c.height < 2 ^ 64)
    (hbud : 1 + sBudget compress chooseZ c (fcOfS c.width c.height f0 fr0.pre) frs < 2 ^ 32)
    (hnil : ∀ o, cfg.inflate [] ≠ some (o, true))
    (hinf0 : cfg.inflate (compress (rawOf (chooseFirst chooseZ) c fr0.pieces.flatten)) =
      some (rawOf (chooseFirst chooseZ) c fr0.pieces.flatten, true))
    (hinf : ∀ raw ∈ sRaws chooseZ c (fcOfS c.width c.height f0 fr0.pre) frs, cfg.inflate (compress raw) = some (raw, true))
    (hlimit : c.rowLen + sLineSum c (fcOfS c.width c.height f0 fr0.pre) frs + metaCost P c ≤ limit)
    (hps : ps.length = frs.length) :
    (runProg E (scanZ compress chooseZ) c {} [] (.intoStream size (sOps (fr0 :: frs)) .finish)).header = .ok ∧
    (∃ rs, (runProg E (scanZ compress chooseZ) c {} [] (.intoStream size (sOps (fr0 :: frs)) .finish)).final =
        .ok :: rs ++ [.ok] ∧ SResOk (sOps (fr0 :: frs)) rs) ∧
    (Reader.run cfg t
      (R.init opts limit f
        (runProg E (scanZ compress chooseZ) c {} [] (.intoStream size (sOps (fr0 :: frs)) .finish)).state.sink.bytes
        (runProg E (scanZ compress chooseZ) c {} [] (.intoStream size (sOps (fr0 :: frs)) .finish)).state.sink.bytes.length)
      (.readInfo :: .nextFrame p0 :: (ps.map Op.nextFrame ++ [.nextFrame q]))).2 =
      .header :: .frame { width := c.width, height := c.height, color := c.color, depth := c.depth,
                          lineSize := c.rowLen } fr0.pieces.flatten ::
        (sFrameResults c (fcOfS c.width c.height f0 fr0.pre) frs ps ++ [.err .parameter "PolledAfterEndOfImage"]) := by
  obtain ⟨r1, r2, _⟩ := anim_stream_log E compress chooseZ c n plays f0 hc hsep hcov size fr0 frs hn hlen0 hl hsz hbud
  exact ⟨r1, r2, anim_stream_encode_decode_core cfg t f opts limit P E compress chooseZ c n plays f0 size fr0 frs p0 ps q hI hcrc
    ht hc hsep hm hcov hn hpre0 hlen0 hl hsz hbud hnil hinf0 hinf hlimit hps⟩

/-- **what the sink holds** after the session, as chunks and as bytes: the header chunks, `fcTL` number 0 and `IDAT` chunks `ds0`,
    for every later frame `fcTL` and `fdAT` chunks with consecutive sequence numbers (`gChunks gs`), `IEND`.  Every cut consists
    of non-empty pieces no longer than the chunk writer's buffer (`max (min (2^31 − 1) size) 5`; an `fdAT` payload four bytes
    less) that concatenate to the compressed scanline stream of the frame's bytes; the frame controls are the copies the
    setters left, numbered consecutively (`GsOk`). -/
theorem C03_anim_stream_file (E : Codec) (compress : Bytes → Bytes) (chooseZ : Bytes → Bytes → FilterType) (c : Enc.Cfg)
    (n plays : Nat) (f0 : FC) (hc : c.Anim n plays f0) (hsep : c.sepDefImg = false)
    (hcov : f0.x = 0 ∧ f0.y = 0 ∧ f0.w = c.width ∧ f0.h = c.height) (size : Nat)
    (fr0 : SFrame) (frs : List SFrame) (hn : n = frs.length + 1)
    (hlen0 : fr0.pieces.flatten.length = c.rowLen * c.height)
    (hl : SLaterOk c (fcOfS c.width c.height f0 fr0.pre) frs) (hsz : c.rowLen * c.height < 2 ^ 64)
    (hbud : 1 + sBudget compress chooseZ c (fcOfS c.width c.height f0 fr0.pre) frs < 2 ^ 32) :
    ∃ ds0 gs,
      (runProg E (scanZ compress chooseZ) c {} [] (.intoStream size (sOps (fr0 :: frs)) .finish)).state.sink.chunks =
        sAnimChunks c f0 ds0 gs ∧
      (runProg E (scanZ compress chooseZ) c {} [] (.intoStream size (sOps (fr0 :: frs)) .finish)).state.sink.bytes =
        fileBytes (sAnimChunks c f0 ds0 gs) ∧
      (∀ d ∈ ds0, d ≠ []) ∧ (∀ d ∈ ds0, d.length ≤ max (min chunkCap size) streamMinBuffer) ∧
      ds0.flatten = compress (rawOf (chooseFirst chooseZ) c fr0.pieces.flatten) ∧
      GsOk compress chooseZ c (max (min chunkCap size) streamMinBuffer) (fcOfS c.width c.height f0 fr0.pre) 1 frs gs := by
  obtain ⟨_, _, ds0, gs, hlog, h1, h2, h3, h4⟩ :=
    anim_stream_log E compress chooseZ c n plays f0 hc hsep hcov size fr0 frs hn hlen0 hl hsz hbud
  exact ⟨ds0, gs, (bytes_of_fullLog _ _ hlog).2, (bytes_of_fullLog _ _ hlog).1, h1, h2, h3, h4⟩

/-- **C03 for animations with a SEPARATE DEFAULT IMAGE through one owned stream writer** (`sepDefImg`, `n = frs.length`): the first
    image of the session (`fr0`, canvas size) is the default image — plain `IDAT` chunks, no `fcTL` —, the `n` frames `frs` follow
    as `fcTL` + `fdAT` chunks; the first of them carries the stream writer's copy of the frame control after the setter calls of
    `fr0` and its own, with the sequence number 0.  Same hypotheses as `C03_anim_stream_encode_decode` otherwise (the budget
    without the `fcTL` of the first image); the decoder (not asked to skip the default image) returns the default image, then
    the frames in order with exactly their bytes. -/
theorem C03_anim_default_stream_encode_decode (cfg : Framing.Cfg) (t : TCfg) (f : Flags) (opts : Options) (limit P : Nat)
    (E : Codec) (compress : Bytes → Bytes) (chooseZ : Bytes → Bytes → FilterType) (c : Enc.Cfg) (n plays : Nat) (f0 : FC)
    (size : Nat) (fr0 : SFrame) (frs : List SFrame) (p0 : UInt8) (ps : List UInt8) (q : UInt8)
    (hI : cfg.InflateOk) (hcrc : ∀ b, cfg.crc b = crcOfList b) (ht : t.IsIdentity f)
    (hc : c.Anim n plays f0) (hsep : c.sepDefImg = true) (hm : MetaOk cfg opts.ignoreText P c)
    (hcov : f0.x = 0 ∧ f0.y = 0 ∧ f0.w = c.width ∧ f0.h = c.height)
    (hn : n = frs.length) (hpre0 : ∀ o ∈ fr0.pre, o.inRange)
    (hlen0 : fr0.pieces.flatten.length = c.rowLen * c.height)
    (hl : SLaterOk c (fcOfS c.width c.height f0 fr0.pre) frs) (hsz : c.rowLen * c.height < 2 ^ 64)
    (hbud : sBudget compress chooseZ c (fcOfS c.width c.height f0 fr0.pre) frs < 2 ^ 32)
    (hnil : ∀ o, cfg.inflate [] ≠ some (o, true))
    (hinf0 : cfg.inflate (compress (rawOf (chooseFirst chooseZ) c fr0.pieces.flatten)) =
      some (rawOf (chooseFirst chooseZ) c fr0.pieces.flatten, true))
    (hinf : ∀ raw ∈ sRaws chooseZ c (fcOfS c.width c.height f0 fr0.pre) frs, cfg.inflate (compress raw) = some (raw, true))
    (hlimit : c.rowLen + sLineSum c (fcOfS c.width c.height f0 fr0.pre) frs + metaCost P c ≤ limit)
    (hps : ps.length = frs.length) :
    (runProg E (scanZ compress chooseZ) c {} [] (.intoStream size (sOps (fr0 :: frs)) .finish)).header = .ok ∧
    (∃ rs, (runProg E (scanZ compress chooseZ) c {} [] (.intoStream size (sOps (fr0 :: frs)) .finish)).final =
        .ok :: rs ++ [.ok] ∧ SResOk (sOps (fr0 :: frs)) rs) ∧
    (Reader.run cfg t
      (R.init opts limit f
        (runProg E (scanZ compress chooseZ) c {} [] (.intoStream size (sOps (fr0 :: frs)) .finish)).state.sink.bytes
        (runProg E (scanZ compress chooseZ) c {} [] (.intoStream size (sOps (fr0 :: frs)) .finish)).state.sink.bytes.length)
      (.readInfo :: .nextFrame p0 :: (ps.map Op.nextFrame ++ [.nextFrame q]))).2 =
      .header :: .frame { width := c.width, height := c.height, color := c.color, depth := c.depth,
                          lineSize := c.rowLen } fr0.pieces.flatten ::
        (sFrameResults c (fcOfS c.width c.height f0 fr0.pre) frs ps ++ [.err .parameter "PolledAfterEndOfImage"]) := by
  obtain ⟨r1, r2, _⟩ := anim_default_stream_log E compress chooseZ c n plays f0 hc hsep hcov size fr0 frs hn hlen0 hl hsz hbud
  exact ⟨r1, r2, anim_default_stream_encode_decode_core cfg t f opts limit P E compress chooseZ c n plays f0 size fr0 frs p0 ps q
    hI hcrc ht hc hsep hm hcov hn hpre0 hlen0 hl hsz hbud hnil hinf0 hinf hlimit hps⟩

/-- **what the sink holds** with a separate default image: header chunks, `IDAT` chunks `ds0`, for every frame `fcTL` and `fdAT`
    chunks numbered consecutively from 0 (`gChunks gs`), `IEND` -/
theorem C03_anim_default_stream_file (E : Codec) (compress : Bytes → Bytes) (chooseZ : Bytes → Bytes → FilterType) (c : Enc.Cfg)
    (n plays : Nat) (f0 : FC) (hc : c.Anim n plays f0) (hsep : c.sepDefImg = true)
    (hcov : f0.x = 0 ∧ f0.y = 0 ∧ f0.w = c.width ∧ f0.h = c.height) (size : Nat)
    (fr0 : SFrame) (frs : List SFrame) (hn : n = frs.length)
    (hlen0 : fr0.pieces.flatten.length = c.rowLen * c.height)
    (hl : SLaterOk c (fcOfS c.width c.height f0 fr0.pre) frs) (hsz : c.rowLen * c.height < 2 ^ 64)
    (hbud : sBudget compress chooseZ c (fcOfS c.width c.height f0 fr0.pre) frs < 2 ^ 32) :
    ∃ ds0 gs,
      (runProg E (scanZ compress chooseZ) c {} [] (.intoStream size (sOps (fr0 :: frs)) .finish)).state.sink.chunks =
        sAnimDefaultChunks c ds0 gs ∧
      (runProg E (scanZ compress chooseZ) c {} [] (.intoStream size (sOps (fr0 :: frs)) .finish)).state.sink.bytes =
        fileBytes (sAnimDefaultChunks c ds0 gs) ∧
      (∀ d ∈ ds0, d ≠ []) ∧ (∀ d ∈ ds0, d.length ≤ max (min chunkCap size) streamMinBuffer) ∧
      ds0.flatten = compress (rawOf (chooseFirst chooseZ) c fr0.pieces.flatten) ∧
      GsOk compress chooseZ c (max (min chunkCap size) streamMinBuffer) (fcOfS c.width c.height f0 fr0.pre) 0 frs gs := by
  obtain ⟨_, _, ds0, gs, hlog, h1, h2, h3, h4⟩ :=
    anim_default_stream_log E compress chooseZ c n plays f0 hc hsep hcov size fr0 frs hn hlen0 hl hsz hbud
  exact ⟨ds0, gs, (bytes_of_fullLog _ _ hlog).2, (bytes_of_fullLog _ _ hlog).1, h1, h2, h3, h4⟩

/-- **the sequence-number budget in closed form**: if the compressor returns at most `B` bytes for the scanline stream of every
    later frame (`sRaws`), `frs.length * (1 + B)` bounds the budget — `hbud` then follows from `1 + frs.length * (1 + B) < 2^32` -/
theorem C03_anim_stream_budget_le (compress : Bytes → Bytes) (chooseZ : Bytes → Bytes → FilterType) (c : Enc.Cfg) (B : Nat) :
    ∀ (frs : List SFrame) (g : FC), (∀ raw ∈ sRaws chooseZ c g frs, (compress raw).length ≤ B) →
    sBudget compress chooseZ c g frs ≤ frs.length * (1 + B) := by
  intro frs
  induction frs with
  | nil => intro g _; simp [sBudget]
  | cons fr rest ih =>
    intro g hB
    have h1 := hB (rawOf (chooseFirst chooseZ) (c.sub (fcOfS c.width c.height g fr.pre)) fr.pieces.flatten) (by simp [sRaws])
    have h2 := ih (fcOfS c.width c.height g fr.pre) (fun raw hr => hB raw (by simp [sRaws, hr]))
    simp only [sBudget, List.length_cons, Nat.succ_mul]
    omega

/-- **the limit in closed form**: one line of the canvas per frame and `metaCost` suffice -/
theorem C03_anim_stream_limit_le (c : Enc.Cfg) (n plays : Nat) (f0 : FC) (hc : c.Anim n plays f0) (fr0 : SFrame)
    (frs : List SFrame) :
    c.rowLen + sLineSum c (fcOfS c.width c.height f0 fr0.pre) frs ≤ (frs.length + 1) * c.rowLen := by
  have := sLineSum_le c hc.depth frs _ (fcOf_in (W := c.width) (H := c.height) (fr0.pre.map SetOp.toOp) f0 hc.rect)
  rw [Nat.succ_mul]
  unfold fcOfS
  omega

/-! ## Non-vacuity -/

section Examples
open Png.Framing.Toy Png.Reader.Toy

theorem cfgAnim3_metaOk (ig : Bool) : MetaOk rtCfg ig 0 cfgAnim3 := by
  refine ⟨(cfgAnim3_postOk ig).texts, by decide, ?_⟩
  intro ch h hi
  exfalso
  have : ∀ ch ∈ metaChunks cfgAnim3, ch.ty ≠ tyICCP := by decide
  exact this ch h hi

/-- the frames of `framesAnim3` through a stream writer: a delay set before the first frame's bytes (it reaches the second
    frame), the first frame in three `write_all` calls (one empty), the 1×1 sub-frame at (1, 1), the whole canvas again in two
    calls -/
def sFramesAnim3 : List SFrame :=
  [⟨[.delay 1 10], [[1, 2], [], [3, 4]]⟩,
   ⟨[.dim 1 1, .pos 1 1, .dim 5 5, .blend 1], [[9]]⟩,
   ⟨[.resetPos, .resetDim, .dispose 2], [[5], [6, 7, 8]]⟩]

example : fcOfS 2 2 fcAnim3 [.delay 1 10] = { w := 2, h := 2, delayNum := 1, delayDen := 10 } ∧
    fcOfS 2 2 { w := 2, h := 2, delayNum := 1, delayDen := 10 } [.dim 1 1, .pos 1 1, .dim 5 5, .blend 1] =
      { w := 1, h := 1, x := 1, y := 1, delayNum := 1, delayDen := 10, blend := 1 } := by decide

/-- a requested buffer of 0 bytes: the chunk writer takes 5, every `fdAT` chunk carries one byte of the stream -/
example :
    (Reader.run rtCfg idT
      (R.init {} 1000 {}
        (runProg Enc.toyCodec (scanZ storeZ fun _ _ => .sub) cfgAnim3 {} [] (.intoStream 0 (sOps sFramesAnim3) .finish)).state.sink.bytes
        (runProg Enc.toyCodec (scanZ storeZ fun _ _ => .sub) cfgAnim3 {} [] (.intoStream 0 (sOps sFramesAnim3) .finish)).state.sink.bytes.length)
      [.readInfo, .nextFrame 0, .nextFrame 7, .nextFrame 8, .nextFrame 0]).2 =
      [.header, .frame ⟨2, 2, 0, 8, 2⟩ [1, 2, 3, 4], .frame ⟨1, 1, 0, 8, 1⟩ [9, 7, 7, 7], .frame ⟨2, 2, 0, 8, 2⟩ [5, 6, 7, 8],
       .err .parameter "PolledAfterEndOfImage"] :=
  (C03_anim_stream_encode_decode rtCfg idT {} {} 1000 0 Enc.toyCodec storeZ (fun _ _ => .sub) cfgAnim3 3 7 fcAnim3 0
    ⟨[.delay 1 10], [[1, 2], [], [3, 4]]⟩
    [⟨[.dim 1 1, .pos 1 1, .dim 5 5, .blend 1], [[9]]⟩, ⟨[.resetPos, .resetDim, .dispose 2], [[5], [6, 7, 8]]⟩]
    0 [7, 8] 0 rtCfg_inflateOk (fun _ => rfl) C01.idT_isIdentity (by decide) (by decide) (cfgAnim3_metaOk _) (by decide)
    (by decide) (by decide) (by decide) (by decide) (by decide) (by decide) rtCfg_nil (by decide) (by decide) (by decide)
    (by decide)).2.2

/-- the chunks in the sink, evaluated: `fcTL` + one `IDAT` chunk per 5 bytes of the first stream, `fcTL` + one `fdAT` chunk per byte
    of the others; the second `fcTL` carries the delay set before the first frame's bytes and the sub-frame -/
example :
    (runProg Enc.toyCodec (scanZ storeZ fun _ _ => .sub) cfgAnim3 {} [] (.intoStream 0 (sOps sFramesAnim3) .finish)).state.sink.chunks.map
      (·.ty) = [tyIHDR, tyACTL, tyTEXT, tyFCTL, tyIDAT, tyIDAT, tyFCTL, tyFDAT, tyFDAT, tyFDAT, tyFCTL, tyFDAT, tyFDAT, tyFDAT,
        tyFDAT, tyFDAT, tyFDAT, tyFDAT, tyIEND] := by decide +kernel

/-- the same session behind a separate default image: two frames declared, three images written; requested buffer 3 -/
example :
    (Reader.run rtCfg idT
      (R.init {} 1000 {}
        (runProg Enc.toyCodec (scanZ storeZ fun _ _ => .up) cfgAnimDef {} [] (.intoStream 3 (sOps sFramesAnim3) .finish)).state.sink.bytes
        (runProg Enc.toyCodec (scanZ storeZ fun _ _ => .up) cfgAnimDef {} [] (.intoStream 3 (sOps sFramesAnim3) .finish)).state.sink.bytes.length)
      [.readInfo, .nextFrame 0, .nextFrame 7, .nextFrame 8, .nextFrame 0]).2 =
      [.header, .frame ⟨2, 2, 0, 8, 2⟩ [1, 2, 3, 4], .frame ⟨1, 1, 0, 8, 1⟩ [9, 7, 7, 7], .frame ⟨2, 2, 0, 8, 2⟩ [5, 6, 7, 8],
       .err .parameter "PolledAfterEndOfImage"] :=
  (C03_anim_default_stream_encode_decode rtCfg idT {} {} 1000 0 Enc.toyCodec storeZ (fun _ _ => .up) cfgAnimDef 2 0 fcAnim3 3
    ⟨[.delay 1 10], [[1, 2], [], [3, 4]]⟩
    [⟨[.dim 1 1, .pos 1 1, .dim 5 5, .blend 1], [[9]]⟩, ⟨[.resetPos, .resetDim, .dispose 2], [[5], [6, 7, 8]]⟩]
    0 [7, 8] 0 rtCfg_inflateOk (fun _ => rfl) C01.idT_isIdentity (by decide) (by decide)
    ⟨fun _ h => (by cases h), by decide, fun _ h => (by cases h)⟩ (by decide)
    (by decide) (by decide) (by decide) (by decide) (by decide) (by decide) rtCfg_nil (by decide) (by decide) (by decide)
    (by decide)).2.2

example :
    (runProg Enc.toyCodec (scanZ storeZ fun _ _ => .up) cfgAnimDef {} [] (.intoStream 3 (sOps sFramesAnim3) .finish)).state.sink.chunks.map
      (·.ty) = [tyIHDR, tyACTL, tyIDAT, tyIDAT, tyFCTL, tyFDAT, tyFDAT, tyFDAT, tyFCTL, tyFDAT, tyFDAT, tyFDAT,
        tyFDAT, tyFDAT, tyFDAT, tyFDAT, tyIEND] := by decide +kernel

/-- the budget of the first example, evaluated: one `fcTL` and one `fdAT` chunk per byte of the compressed stream for each of the
    two later frames, and the `fcTL` of the first -/
example : 1 + sBudget storeZ (fun _ _ => .sub) cfgAnim3 (fcOfS 2 2 fcAnim3 [.delay 1 10]) (sFramesAnim3.drop 1) = 13 := by decide

example : sBudget storeZ (fun _ _ => .sub) cfgAnim3 (fcOfS 2 2 fcAnim3 [.delay 1 10]) (sFramesAnim3.drop 1) ≤ 2 * (1 + 7) :=
  C03_anim_stream_budget_le storeZ (fun _ _ => .sub) cfgAnim3 7 (sFramesAnim3.drop 1) _ (by decide)

end Examples

end Png.C03
