import PngVerif.Generated.Params
import PngVerif.Model.Framing
import PngVerif.Model.Text
import PngVerif.Model.EncodeMeta
import PngVerif.Model.Basic
import PngVerif.Model.Encoder
import PngVerif.Proofs.FramingLogic
/-!
# Tie A consistency theorems

The model is written by hand; the constants and tables it relies on are re-extracted from `/repo`'s
current source on every run (`tools/extract_params.py` → `Generated/Params.lean`).  Each theorem
below pins a definition of the model to the extracted value, so a change of the constant in the
Rust source breaks a proof obligation of the properties listed in `registry.json`.
-/
namespace Png.TieA
open Png Png.Framing

/-- the kinds whose `Format` errors `parse_chunk` swallows are exactly those in the source's `matches!` -/
theorem benign_list_matches :
    Params.benignChunks.map (fun l => ((l.getD 0 0 * 256 + l.getD 1 0) * 256 + l.getD 2 0) * 256 + l.getD 3 0)
      = [cHRM, gAMA, iCCP, pHYs, sBIT, sRGB, tRNS] := by decide

theorem benign_iff (t : ChunkType) :
    benign t = true ↔ t ∈ [cHRM, gAMA, iCCP, pHYs, sBIT, sRGB, tRNS] := by
  simp [benign, List.mem_cons, Bool.or_eq_true, beq_iff_eq, or_assoc]

/-- keyword bounds used by the text model = the literals in `text_metadata.rs` and `stream.rs` -/
theorem keyword_bounds : Params.keywordMaxEncode = 79 ∧ Params.keywordMaxDecode = 79 := by decide

/-- default decompression limit of text chunks and default `Limits.bytes` -/
theorem limits_values : Params.decompressionLimit = 2097152 ∧ Params.defaultLimitBytes = 67108864 := by decide

/-- the inflate window kept by `ZlibStream` covers the deflate window; the chunk buffer is 32 KiB -/
theorem buffer_constants : Params.lookbackSize ≥ 32768 ∧ Params.compactFactor ≥ 1 ∧ Params.chunkBufferSize = 32768 := by decide

/-- the PNG signature -/
theorem signature_value : Params.signature = [137, 80, 78, 71, 13, 10, 26, 10] := by decide

/-- sRGB substitutes for gamma and chromaticities (PNG specification 11.3.3.5) -/
theorem srgb_substitutes : Params.srgbSubstitutes = [45455, 31270, 32900, 64000, 33000, 30000, 60000, 15000, 6000] := by decide

/-- the text model's own constants are the extracted ones -/
theorem text_model_constants :
    Png.maxKeywordLen = Params.keywordMaxEncode ∧ Png.maxKeywordLen = Params.keywordMaxDecode ∧
    Png.decompressionLimit = Params.decompressionLimit := by decide

/-- the encoder-metadata model's sRGB substitutes are the extracted ones (`srgb.rs`) -/
theorem encode_meta_srgb_constants :
    EncodeMeta.substituteGamma :: EncodeMeta.substituteChroma.toList = Params.srgbSubstitutes := by decide

/-- colour types, samples per pixel and bit depths of `common.rs` = the model's `samplesOf` / `depthOk`
    (checked for every `u8` value) -/
def colorDepthOk : Bool :=
  Params.colorTypes.all (fun p => samplesOf p.1 == p.2) &&
  (List.range 256).all (fun c => (Params.colorTypes.map (·.1)).contains c || samplesOf c == 0) &&
  (List.range 256).all (fun d => depthOk d == Params.bitDepths.contains d)
theorem color_depth_tables : colorDepthOk = true := by decide +kernel

/-- `is_combination_invalid` of the source = the model's `combinationInvalid` (for every pair of values up to 16: beyond that `from_u8` of one of the two has already refused), and the
    fifteen legal pairs are exactly the (colour, depth) pairs of the two tables that are not excluded -/
def combosOk : Bool :=
  (List.range 17).all (fun c => (List.range 17).all (fun d =>
    combinationInvalid c d == Params.invalidCombos.any (fun p => p.1 == c && p.2 == d)))
theorem invalid_combos_table : combosOk = true := by decide +kernel
theorem legal_pairs_table :
    legalPairs = (Params.colorTypes.map (·.1)).flatMap (fun c => (Params.bitDepths.filter (fun d => !(Params.invalidCombos.any (fun p => p.1 == c && p.2 == d)))).map (fun d => (c, d))) := by
  decide +kernel

/-- the chunk kinds `parse_chunk` has an arm for = the kinds the model's `dispatch` knows (`dispatch_unknown`) -/
theorem parse_dispatch_kinds :
    Params.parseDispatch.map (fun l => ((l.getD 0 0 * 256 + l.getD 1 0) * 256 + l.getD 2 0) * 256 + l.getD 3 0) = knownTypes := by decide

/-- `chunk::is_critical` tests bit 5 of the first type byte -/
theorem critical_bit (t : ChunkType) : isCritical t = decide ((t / 16777216) % (2 * Params.criticalMask) < Params.criticalMask) := by
  rfl

/-- the filter-type bytes `RowFilter::from_u8` accepts -/
theorem row_filter_bytes : Params.rowFilters = [0, 1, 2, 3, 4] := by decide

/-- chunk-size constants of the encoder model -/
theorem encoder_constants :
    Enc.maxIdatChunkLen = Params.maxIdatChunkLen ∧ Enc.maxFdatChunkLen = Params.maxFdatChunkLen ∧
    Enc.chunkCap = Params.streamChunkCap ∧ Enc.streamMinBuffer = Params.streamMinBuffer ∧
    Enc.defaultBufferLength = Params.defaultBufferLength := by decide

end Png.TieA
