import PngVerif.Generated.Params
import PngVerif.Model.Framing
import PngVerif.Model.Text
/-!
# Tie A consistency theorems

The model is written by hand; the constants and tables it relies on are re-extracted from `/repo`'s
current source on every run (`tools/extract_params.py` → `Generated/Params.lean`).  Each theorem
below pins a definition of the model to the extracted value, so a change of the constant in the
Rust source breaks a proof obligation of the properties listed in `registry.json`.
-/
namespace Png.TieA
open Png Png.Framing

/-- the kinds whose `Format` errors `parse_chunk` swallows are exactly those in the source's `matches!` -/
theorem benign_list_matches :
    Params.benignChunks.map (fun l => ((l.getD 0 0 * 256 + l.getD 1 0) * 256 + l.getD 2 0) * 256 + l.getD 3 0)
      = [cHRM, gAMA, iCCP, pHYs, sBIT, sRGB, tRNS] := by decide

theorem benign_iff (t : ChunkType) :
    benign t = true ↔ t ∈ [cHRM, gAMA, iCCP, pHYs, sBIT, sRGB, tRNS] := by
  simp [benign, List.mem_cons, Bool.or_eq_true, beq_iff_eq, or_assoc]

/-- keyword bounds used by the text model = the literals in `text_metadata.rs` and `stream.rs` -/
theorem keyword_bounds : Params.keywordMaxEncode = 79 ∧ Params.keywordMaxDecode = 79 := by decide

/-- default decompression limit of text chunks and default `Limits.bytes` -/
theorem limits_values : Params.decompressionLimit = 2097152 ∧ Params.defaultLimitBytes = 67108864 := by decide

/-- the inflate window kept by `ZlibStream` covers the deflate window; the chunk buffer is 32 KiB -/
theorem buffer_constants : Params.lookbackSize ≥ 32768 ∧ Params.compactFactor ≥ 1 ∧ Params.chunkBufferSize = 32768 := by decide

/-- the PNG signature -/
theorem signature_value : Params.signature = [137, 80, 78, 71, 13, 10, 26, 10] := by decide

/-- sRGB substitutes for gamma and chromaticities (PNG specification 11.3.3.5) -/
theorem srgb_substitutes : Params.srgbSubstitutes = [45455, 31270, 32900, 64000, 33000, 30000, 60000, 15000, 6000] := by decide

end Png.TieA
