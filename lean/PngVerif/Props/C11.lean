import PngVerif.Proofs.FramingLogic
import PngVerif.Proofs.FramingToy
/-!
# C11 — checksum policy: corrupt data is refused, disabled checks are inert

Property theorems only (lemmas: `PngVerif/Proofs/FramingLogic.lean`), about the CRC arm of `parse_u32`
(`Model/Framing.lean`, `stream.rs:891-925`) for an ARBITRARY `cfg : Cfg` (so for any CRC function, in
particular the real CRC-32) and ARBITRARY decoder values.

* `crc_mismatch_outcome`, `crc_mismatch_fatal`, `crc_mismatch_animation_fatal`, `crc_mismatch_skipped`,
  `crc_match_accepted`: the outcomes of the comparison.  `Skippable t` = ancillary and none of acTL / fcTL / fdAT
  (since d89703f the animation chunks are never skipped); `crc_skip_domain` says exactly which kinds are.
* `crc_covers_type_and_data`: what is compared — the invariant `CrcInv` (running CRC = type bytes ++
  body collected so far; for data chunks type bytes ++ sequence-number bytes ++ the bytes fed to the
  inflater from this chunk) holds along every run from a new decoder.
* `crc_bad_chunk_inert_partial`: a bad CRC in a critical chunk or in acTL / fcTL / fdAT (any options), or in
  any chunk with `skip_ancillary_crc_failures = false`, ends the run with `CrcMismatch` and poisons the decoder.
* `crc_bad_chunk_inert_statement` is FALSE for the code as it is (defect D10: a chunk is parsed when its
  last body byte arrives, before the CRC is compared, and `crc_mismatch_skipped` leaves the decoder
  otherwise unchanged): `bad_crc_ancillary_contributes`, `crc_bad_chunk_inert_false`.  D10 remains open for
  exactly the `Skippable` kinds (`crc_skip_domain`): every ancillary kind other than acTL / fcTL / fdAT.
* `ignore_crc_inert`, `ignore_crc_acc_unused`: with `ignore_crc` the CRC step does not depend on the four
  CRC bytes (except that `ChunkComplete` reports them) nor on the running CRC — ONE STEP; the lift of the
  byte-independence to whole runs (two streams differing only inside CRC fields) is NOT done.
  `ignore_crc_fn_unused` IS for whole runs: the CRC function is never consulted.
* Adler-32: `adler_policy_is_cfg` — the model passes `ignore_adler32` on to nothing but `cfg`.
-/
namespace Png.C11
open Png Png.Framing

/-- the kinds whose CRC mismatch the `skip_ancillary_crc_failures` option skips: ancillary, and not one of the
    animation chunks acTL / fcTL / fdAT (which have been acted on already: `stream.rs:917-921`) -/
def Skippable (t : ChunkType) : Prop := isCritical t = false ∧ t ≠ acTL ∧ t ≠ fcTL ∧ t ≠ fdAT

instance (t : ChunkType) : Decidable (Skippable t) := by unfold Skippable; infer_instance

/-- **The outcome of a CRC mismatch** (CRC checking enabled): skipped exactly when the option is on and the kind is
    `Skippable`; in every other case `CrcMismatch` -/
theorem crc_mismatch_outcome (cfg : Cfg) (d : Dec) (t : ChunkType) (b0 b1 b2 b3 : UInt8)
    (hig : d.opts.ignoreCrc = false) (hbad : be32 b0 b1 b2 b3 ≠ cfg.crc d.crcAcc) :
    parseU32 cfg d (.crc t) b0 b1 b2 b3 =
      if d.opts.skipAncillaryCrcFailures = true ∧ Skippable t then
        .ok (.nothing, { d with state := some (.u32 .length []) })
      else .error (.format "CrcMismatch") := by
  rw [parseU32_crc]
  simp only [hig, Bool.false_eq_true, if_false]
  rw [if_neg hbad]
  by_cases hc : d.opts.skipAncillaryCrcFailures = true ∧ Skippable t
  · rw [if_pos hc, if_pos ⟨hc.1, by simp [hc.2.1], hc.2.2⟩]
  · rw [if_neg hc, if_neg]
    rintro ⟨h1, h2, h3⟩
    exact hc ⟨h1, by simpa using h2, h3⟩

/-- **A CRC mismatch is fatal** for a critical chunk and for acTL / fcTL / fdAT (whatever the options), and for every
    chunk when `skip_ancillary_crc_failures` is off (CRC checking enabled). -/
theorem crc_mismatch_fatal (cfg : Cfg) (d : Dec) (t : ChunkType) (b0 b1 b2 b3 : UInt8)
    (hig : d.opts.ignoreCrc = false) (hbad : be32 b0 b1 b2 b3 ≠ cfg.crc d.crcAcc)
    (hcrit : isCritical t = true ∨ d.opts.skipAncillaryCrcFailures = false ∨ t = acTL ∨ t = fcTL ∨ t = fdAT) :
    parseU32 cfg d (.crc t) b0 b1 b2 b3 = .error (.format "CrcMismatch") := by
  rw [crc_mismatch_outcome cfg d t b0 b1 b2 b3 hig hbad, if_neg]
  rintro ⟨h1, h2, h3, h4, h5⟩
  rcases hcrit with h | h | h | h | h
  · rw [h] at h2; cases h2
  · rw [h] at h1; cases h1
  · exact h3 h
  · exact h4 h
  · exact h5 h

/-- **The animation chunks are never skipped**: with the default `skip_ancillary_crc_failures = true` a CRC mismatch
    on acTL, fcTL or fdAT is `CrcMismatch` (and poisons the decoder: `crc_error_poisons`,
    `crc_bad_chunk_inert_partial`) — repaired in d89703f; before, a corrupted fdAT was decoded into a frame -/
theorem crc_mismatch_animation_fatal (cfg : Cfg) (d : Dec) (t : ChunkType) (b0 b1 b2 b3 : UInt8)
    (hig : d.opts.ignoreCrc = false) (hbad : be32 b0 b1 b2 b3 ≠ cfg.crc d.crcAcc)
    (ht : t = acTL ∨ t = fcTL ∨ t = fdAT) :
    parseU32 cfg d (.crc t) b0 b1 b2 b3 = .error (.format "CrcMismatch") :=
  crc_mismatch_fatal cfg d t b0 b1 b2 b3 hig hbad (Or.inr (Or.inr ht))

/-- **A `Skippable` ancillary chunk with a bad CRC is "skipped"**: `Ok(Nothing)`, and the decoder is UNCHANGED except
    that the state moves on to the next chunk — whatever the chunk's parser did when the last body
    byte arrived stays in place (this is defect D10, which remains open for exactly these kinds). -/
theorem crc_mismatch_skipped (cfg : Cfg) (d : Dec) (t : ChunkType) (b0 b1 b2 b3 : UInt8)
    (hig : d.opts.ignoreCrc = false) (hbad : be32 b0 b1 b2 b3 ≠ cfg.crc d.crcAcc)
    (hskip : d.opts.skipAncillaryCrcFailures = true) (hanc : Skippable t) :
    parseU32 cfg d (.crc t) b0 b1 b2 b3 = .ok (.nothing, { d with state := some (.u32 .length []) }) := by
  rw [crc_mismatch_outcome cfg d t b0 b1 b2 b3 hig hbad, if_pos ⟨hskip, hanc⟩]

/-- **Which kinds remain affected by D10**: a chunk whose stored CRC does not match survives the CRC step (no error)
    iff the skip option is on and the kind is ancillary and none of acTL / fcTL / fdAT — for every known ancillary
    kind other than these three (gAMA, cHRM, sRGB, iCCP, pHYs, sBIT, bKGD, tRNS, cICP, mDCV, cLLI, eXIf, tEXt, zTXt, iTXt)
    and for every unknown ancillary type -/
theorem crc_skip_domain (cfg : Cfg) (d : Dec) (t : ChunkType) (b0 b1 b2 b3 : UInt8)
    (hig : d.opts.ignoreCrc = false) (hbad : be32 b0 b1 b2 b3 ≠ cfg.crc d.crcAcc) :
    ((∃ r, parseU32 cfg d (.crc t) b0 b1 b2 b3 = .ok r) ↔ d.opts.skipAncillaryCrcFailures = true ∧ Skippable t) ∧
    (∀ t' ∈ [gAMA, cHRM, sRGB, iCCP, pHYs, sBIT, bKGD, tRNS, cICP, mDCV, cLLI, eXIf, tEXt, zTXt, iTXt], Skippable t') ∧
    ¬ Skippable acTL ∧ ¬ Skippable fcTL ∧ ¬ Skippable fdAT ∧ ¬ Skippable IHDR ∧ ¬ Skippable PLTE ∧ ¬ Skippable IDAT ∧
    ¬ Skippable IEND := by
  refine ⟨?_, by decide, by decide, by decide, by decide, by decide, by decide, by decide, by decide⟩
  rw [crc_mismatch_outcome cfg d t b0 b1 b2 b3 hig hbad]
  constructor
  · rintro ⟨r, hr⟩
    split at hr
    · assumption
    · cases hr
  · intro h; rw [if_pos h]; exact ⟨_, rfl⟩

/-- a matching CRC: `ChunkComplete` (or `ImageEnd` for IEND, which finishes the decoder) -/
theorem crc_match_accepted (cfg : Cfg) (d : Dec) (t : ChunkType) (b0 b1 b2 b3 : UInt8)
    (hok : d.opts.ignoreCrc = true ∨ be32 b0 b1 b2 b3 = cfg.crc d.crcAcc) :
    parseU32 cfg d (.crc t) b0 b1 b2 b3 =
      if t = IEND then .ok (.imageEnd, d)
      else .ok (.chunkComplete (be32 b0 b1 b2 b3) t, { d with state := some (.u32 .length []) }) := by
  rw [parseU32_crc, if_pos]
  rcases hok with h | h
  · simp [h]
  · cases d.opts.ignoreCrc <;> simp [h]

/-- every error of an `update` call poisons the decoder (`C07.error_poisons`), so a fatal CRC mismatch does -/
theorem crc_error_poisons (cfg : Cfg) (d d' : Dec) (buf : Bytes) (e : Err) (h : update cfg d buf = (d', .error e)) :
    d'.state = none := Framing.error_poisons cfg d d' buf e h

/-- **What the CRC covers**: `CrcInv` holds for a new decoder and is preserved by every successful
    `next_state` call, hence holds after every run.  `CrcInv d` says (when CRCs are checked): in
    `ReadChunkData(t)` / `ParseChunkData(t)` the running CRC is over `type bytes ++ raw_bytes`
    (`BufCrc`, and `t` is not a data chunk); in `ImageData(t)` it is over `type bytes ++ [sequence-number
    bytes for fdAT] ++ the bytes of this chunk fed to the inflater` (`DataCrc`); in `U32(Crc(t))` one of
    the two. -/
theorem crc_covers_type_and_data (cfg : Cfg) :
    (∀ opts, CrcInv (Dec.new opts)) ∧
    (∀ (d d' : Dec) (st : St) (buf : Bytes) (n : Nat) (ev : Ev), d.state = some st → CrcInv d →
      nextState cfg d st buf = .ok (n, ev, d') → CrcInv d') ∧
    (∀ (f : Nat) (d : Dec) (buf : Bytes), CrcInv d → CrcInv (run cfg f d buf).1) :=
  ⟨crcInv_new, fun _ _ _ _ _ _ hs hi h => nextState_crcInv hs hi h, run_crcInv cfg⟩

/-- at the CRC field of a buffered (non-data) chunk the stored value is compared with the CRC of
    exactly `type bytes ++ body` -/
theorem crc_compares_type_and_body (d : Dec) (t : ChunkType) (acc : Bytes) (hinv : CrcInv d)
    (hs : d.state = some (.u32 (.crc t) acc)) (hig : d.opts.ignoreCrc = false) (h1 : t ≠ IDAT) (h2 : t ≠ fdAT) :
    d.crcAcc = typeBytes t ++ d.raw := by
  have := hinv hig
  rw [hs] at this
  rcases this with h | ⟨_, _, _, _, h | h⟩
  · exact h.2.2
  · exact absurd h.1 h1
  · exact absurd h.1 h2

/-- **Partial inertness (what holds today)**: at the CRC field of a chunk, with CRC checking enabled, a
    stored CRC that differs from the running CRC — for a critical chunk and for acTL / fcTL / fdAT under any
    options (so under the DEFAULT options too), or for any chunk under `skip_ancillary_crc_failures = false` —
    ends the run with `CrcMismatch`; the decoder is poisoned; nothing after the chunk is looked at. -/
theorem crc_bad_chunk_inert_partial (cfg : Cfg) (d : Dec) (t : ChunkType) (acc buf : Bytes) (b0 b1 b2 b3 : UInt8)
    (hs : d.state = some (.u32 (.crc t) acc)) (hbuf : buf ≠ [])
    (hcrc : acc ++ buf.take (4 - acc.length) = [b0, b1, b2, b3])
    (hig : d.opts.ignoreCrc = false) (hbad : be32 b0 b1 b2 b3 ≠ cfg.crc d.crcAcc)
    (hcrit : isCritical t = true ∨ d.opts.skipAncillaryCrcFailures = false ∨ t = acTL ∨ t = fcTL ∨ t = fdAT) :
    runF cfg d buf = (d.withState none, [], some (.format "CrcMismatch")) ∧
    (update cfg d buf).2 = .error (.format "CrcMismatch") ∧ (update cfg d buf).1.state = none := by
  have hstep : nextState cfg d (.u32 (.crc t) acc) buf = .error (.format "CrcMismatch") := by
    rw [nextState_u32_complete cfg d _ acc buf b0 b1 b2 b3 hcrc,
      crc_mismatch_fatal cfg { d with state := none } t b0 b1 b2 b3 hig hbad hcrit]
    rfl
  refine ⟨runF_error cfg hs hbuf hstep, ?_⟩
  rw [update_error_of_step hs hbuf hstep]
  exact ⟨rfl, rfl⟩

/-- the same from a new decoder, for ANY chunk kind (data chunks included): if the run over `pre` (no error) stops
    inside the CRC field of a chunk `t` (having read `acc`, the first bytes of the field) whose stored CRC differs
    from the running CRC, and the chunk is critical, or one of acTL / fcTL / fdAT, or
    `skip_ancillary_crc_failures` is off, then the run over the whole stream fails with `CrcMismatch`,
    whatever follows (`cfg.InflateOk` is needed only to split the run at `pre`). -/
theorem crc_bad_chunk_fails_run_acc (cfg : Cfg) (hI : cfg.InflateOk) (opts : Options) (pre rest acc : Bytes)
    (t : ChunkType) (b0 b1 b2 b3 : UInt8) (hig : opts.ignoreCrc = false)
    (hpre : (runF cfg (Dec.new opts) pre).2.2 = none)
    (hs : (runF cfg (Dec.new opts) pre).1.state = some (.u32 (.crc t) acc))
    (hrest : rest ≠ []) (hcrc : acc ++ rest.take (4 - acc.length) = [b0, b1, b2, b3])
    (hbad : be32 b0 b1 b2 b3 ≠ cfg.crc (runF cfg (Dec.new opts) pre).1.crcAcc)
    (hcrit : isCritical t = true ∨ opts.skipAncillaryCrcFailures = false ∨ t = acTL ∨ t = fcTL ∨ t = fdAT) :
    (runF cfg (Dec.new opts) (pre ++ rest)).2.2 = some (.format "CrcMismatch") := by
  have hsplit := runF_append cfg hI (Dec.new opts) pre rest
  have herr := congrArg (fun r : Res => r.2.2) hsplit
  simp only [Res.proj] at herr
  rw [herr]
  generalize hr : runF cfg (Dec.new opts) pre = r at hpre hs hbad
  obtain ⟨d1, es, e⟩ := r
  simp only at hpre hs hbad
  subst hpre
  have hfr : d1.opts = opts := by
    have := (runF_stepFrame cfg (Dec.new opts) pre).opts
    rw [hr] at this; exact this
  have := (crc_bad_chunk_inert_partial cfg d1 t acc rest b0 b1 b2 b3 hs hrest hcrc (hfr ▸ hig) hbad (hfr ▸ hcrit)).1
  simp only [Res.bind, this]

/-- for a buffered chunk the running CRC is the CRC of `type bytes ++ body` (`crc_covers_type_and_data`): the stored
    CRC of a critical chunk, of acTL or fcTL (any options), or of any buffered chunk with the skip option off,
    that differs from the CRC of `type bytes ++ body` fails the run -/
theorem crc_bad_chunk_fails_run (cfg : Cfg) (hI : cfg.InflateOk) (opts : Options) (pre rest acc : Bytes) (t : ChunkType)
    (b0 b1 b2 b3 : UInt8) (hig : opts.ignoreCrc = false)
    (hpre : (runF cfg (Dec.new opts) pre).2.2 = none)
    (hs : (runF cfg (Dec.new opts) pre).1.state = some (.u32 (.crc t) acc))
    (hrest : rest ≠ []) (hcrc : acc ++ rest.take (4 - acc.length) = [b0, b1, b2, b3])
    (h1 : t ≠ IDAT) (h2 : t ≠ fdAT)
    (hbad : be32 b0 b1 b2 b3 ≠ cfg.crc (typeBytes t ++ (runF cfg (Dec.new opts) pre).1.raw))
    (hcrit : isCritical t = true ∨ opts.skipAncillaryCrcFailures = false ∨ t = acTL ∨ t = fcTL) :
    (runF cfg (Dec.new opts) (pre ++ rest)).2.2 = some (.format "CrcMismatch") := by
  have hfr : (runF cfg (Dec.new opts) pre).1.opts = opts := (runF_stepFrame cfg (Dec.new opts) pre).opts
  have hinv : CrcInv (runF cfg (Dec.new opts) pre).1 := run_crcInv cfg _ _ _ (crcInv_new opts)
  have hig' : (runF cfg (Dec.new opts) pre).1.opts.ignoreCrc = false := by rw [hfr]; exact hig
  have hacc := crc_compares_type_and_body _ t acc hinv hs hig' h1 h2
  refine crc_bad_chunk_fails_run_acc cfg hI opts pre rest acc t b0 b1 b2 b3 hig hpre hs hrest hcrc (hacc ▸ hbad) ?_
  rcases hcrit with h | h | h | h
  · exact Or.inl h
  · exact Or.inr (Or.inl h)
  · exact Or.inr (Or.inr (Or.inl h))
  · exact Or.inr (Or.inr (Or.inr (Or.inl h)))

/-! ## `ignore_crc` -/

/-- the only thing the CRC step reports about the four CRC bytes: `ChunkComplete(crc, type)` -/
def eraseCrc : Ev → Ev
  | .chunkComplete _ t => .chunkComplete 0 t
  | ev => ev

/-- **With `ignore_crc` the CRC step does not depend on the four CRC bytes**: same decoder afterwards, same
    event up to the CRC value that `ChunkComplete` carries; it never fails. -/
theorem ignore_crc_inert (cfg : Cfg) (d : Dec) (t : ChunkType) (a0 a1 a2 a3 b0 b1 b2 b3 : UInt8)
    (hig : d.opts.ignoreCrc = true) :
    (∃ ev d', parseU32 cfg d (.crc t) a0 a1 a2 a3 = .ok (ev, d') ∧
      parseU32 cfg d (.crc t) b0 b1 b2 b3 = .ok (if t = IEND then ev else .chunkComplete (be32 b0 b1 b2 b3) t, d') ∧
      eraseCrc ev = eraseCrc (if t = IEND then ev else .chunkComplete (be32 b0 b1 b2 b3) t)) := by
  rw [crc_match_accepted cfg d t a0 a1 a2 a3 (Or.inl hig), crc_match_accepted cfg d t b0 b1 b2 b3 (Or.inl hig)]
  by_cases h : t = IEND
  · rw [if_pos h, if_pos h]; exact ⟨_, _, rfl, by rw [if_pos h], by rw [if_pos h]⟩
  · rw [if_neg h, if_neg h]; exact ⟨_, _, rfl, by rw [if_neg h], by rw [if_neg h]; simp only [eraseCrc]⟩

/-- **With `ignore_crc` the running CRC and the CRC function are never consulted** by the CRC step: any
    other accumulated bytes and any other `cfg.crc` give the same result (up to the carried `crcAcc`). -/
theorem ignore_crc_acc_unused (cfg cfg' : Cfg) (d : Dec) (t : ChunkType) (b0 b1 b2 b3 : UInt8) (x : Bytes)
    (hig : d.opts.ignoreCrc = true) :
    parseU32 cfg' { d with crcAcc := x } (.crc t) b0 b1 b2 b3 =
      (parseU32 cfg d (.crc t) b0 b1 b2 b3).map fun (ev, d') => (ev, { d' with crcAcc := x }) := by
  rw [crc_match_accepted cfg d t b0 b1 b2 b3 (Or.inl hig),
    crc_match_accepted cfg' { d with crcAcc := x } t b0 b1 b2 b3 (Or.inl hig)]
  by_cases h : t = IEND <;> simp [h, Except.map]

/-- **With `ignore_crc` whole runs never consult the CRC function** (hence never the running CRC, which nothing else
    reads): replacing `cfg.crc` by ANY other function leaves every run unchanged — events, errors, final
    decoder — for every input and every decoder with the option set -/
theorem ignore_crc_fn_unused (cfg : Cfg) (c' : Bytes → Nat) (f : Nat) (d : Dec) (buf : Bytes)
    (hig : d.opts.ignoreCrc = true) : run { cfg with crc := c' } f d buf = run cfg f d buf :=
  run_crcfn cfg c' f d buf hig

/-- with `ignore_crc` the steps that feed the CRC leave the accumulator alone (so it is not even
    maintained), except `ImageData`, which updates it unconditionally (`stream.rs:782`) -/
theorem ignore_crc_acc_frozen (d : Dec) (n : Nat) (piece : Bytes) (hig : d.opts.ignoreCrc = true) :
    (d.readPiece n piece).crcAcc = d.crcAcc := by
  simp [Dec.readPiece, hig]

/-! ## Adler-32 -/

/-- **Adler-32 policy lives in `cfg`**: the framing model never looks at `opts.ignoreAdler`; whether a wrong
    zlib checksum makes `cfg.inflate` answer `none` (corrupt: `adler_checked`) or is ignored
    (`adler_inert`) is a property of the `Cfg.inflate` instance, i.e. of `fdeflate` configured with
    `ignore_adler32`.  What the model guarantees is only that `none` becomes an error
    (`C10.corrupt_stream_rejected`).  Formally: every step is the same for two decoders that differ
    only in `opts.ignoreAdler` — stated here for the steps that call the inflater. -/
theorem adler_policy_is_cfg (cfg : Cfg) (d : Dec) (t : ChunkType) (buf : Bytes) (b : Bool) :
    stepImage cfg { d with opts := { d.opts with ignoreAdler := b } } t buf =
      (stepImage cfg d t buf).map (fun (n, ev, d') => (n, ev, { d' with opts := { d'.opts with ignoreAdler := b } })) ∧
    flushData cfg { d with opts := { d.opts with ignoreAdler := b } } =
      (flushData cfg d).map (fun d' => { d' with opts := { d'.opts with ignoreAdler := b } }) := by
  constructor
  · unfold stepImage
    simp only
    cases cfg.inflate (d.zin ++ List.take (min buf.length d.remaining) buf) with
    | none => rfl
    | some r => rfl
  · unfold flushData
    simp only
    by_cases hz : (!d.zstarted) = true
    · rw [if_pos hz, if_pos hz]; rfl
    · rw [if_neg hz, if_neg hz]
      cases cfg.inflate d.zin with
      | none => rfl
      | some r => obtain ⟨o, c⟩ := r; cases c <;> rfl

/-! ## the full inertness statement is false today (defect D10) -/

/-- a chunk as it appears in the stream -/
def chunkBytes (t : ChunkType) (body crc : Bytes) : Bytes := be32Bytes body.length ++ typeBytes t ++ body ++ crc

/-- **Full statement (FALSE for the code as it is)**: a chunk whose stored CRC does not match contributes
    nothing — decoding the stream is an error, or the final `Info` and image data equal those of the
    stream without that chunk. -/
def crc_bad_chunk_inert_statement : Prop :=
  ∀ (cfg : Cfg) (opts : Options) (pre post body : Bytes) (t : ChunkType) (c0 c1 c2 c3 : UInt8),
    opts.ignoreCrc = false →
    (runF cfg (Dec.new opts) pre).2.2 = none → (runF cfg (Dec.new opts) pre).1.state = some (.u32 .length []) →
    body.length < 2 ^ 31 → t < 2 ^ 32 →
    be32 c0 c1 c2 c3 ≠ cfg.crc (typeBytes t ++ body) →
    (runF cfg (Dec.new opts) (pre ++ chunkBytes t body [c0, c1, c2, c3] ++ post)).2.2 ≠ none ∨
    ((runF cfg (Dec.new opts) (pre ++ chunkBytes t body [c0, c1, c2, c3] ++ post)).1.info =
        (runF cfg (Dec.new opts) (pre ++ post)).1.info ∧
     (runF cfg (Dec.new opts) (pre ++ chunkBytes t body [c0, c1, c2, c3] ++ post)).1.out =
        (runF cfg (Dec.new opts) (pre ++ post)).1.out)

section counterexample
open Png.Framing.Toy

/-- gAMA = 100000 with stored CRC 1; the toy CRC of everything is 0 -/
def gamaBad : Bytes := chunkBytes gAMA [0, 1, 134, 160] [0, 0, 0, 1]

/-- **Counterexample (D10)**: default options; signature, IHDR, then a gAMA chunk whose stored CRC is wrong:
    no error, the chunk is "skipped" (no `ChunkComplete`), and yet `info.gama` is set — whereas the
    stream without the chunk has no gamma. -/
theorem bad_crc_ancillary_contributes :
    (runF toyCfg (Dec.new {}) (sig ++ ihdr ++ gamaBad)).2.2 = none ∧
    (runF toyCfg (Dec.new {}) (sig ++ ihdr ++ gamaBad)).2.1 =
      [.chunkBegin 13 IHDR, .header 1 1 8 0 false, .chunkComplete 0 IHDR, .chunkBegin 4 gAMA] ∧
    ((runF toyCfg (Dec.new {}) (sig ++ ihdr ++ gamaBad)).1.info.bind (·.gama)) = some 100000 ∧
    ((runF toyCfg (Dec.new {}) (sig ++ ihdr)).1.info.bind (·.gama)) = none := by
  decide +kernel

theorem crc_bad_chunk_inert_false : ¬ crc_bad_chunk_inert_statement := by
  intro h
  have := h toyCfg {} (sig ++ ihdr) [] [0, 1, 134, 160] gAMA 0 0 0 1 rfl (by decide +kernel) (by decide +kernel)
    (by decide) (by decide) (by decide)
  revert this
  decide +kernel

end counterexample

/-! ## non-vacuity -/
section examples
open Png.Framing.Toy

/-- `crc_mismatch_fatal` / `crc_bad_chunk_inert_partial`: IHDR (critical) with a wrong stored CRC -/
example :
    let d := (runF toyCfg (Dec.new {}) (sig ++ ihdr.take 22)).1
    d.state = some (.u32 (.crc IHDR) [0]) ∧ d.crcAcc = typeBytes IHDR ++ d.raw ∧ CrcInv d ∧
    (runF toyCfg d [0, 0, 7]).2.2 = some (.format "CrcMismatch") ∧ (update toyCfg d [0, 0, 7]).1.state = none :=
  ⟨by decide +kernel, by decide +kernel, run_crcInv toyCfg _ _ _ (crcInv_new _), by decide +kernel, by decide +kernel⟩

/-- the same gAMA chunk under `skip_ancillary_crc_failures = false`: the run fails -/
example :
    (runF toyCfg (Dec.new { skipAncillaryCrcFailures := false }) (sig ++ ihdr ++ gamaBad)).2.2 =
      some (.format "CrcMismatch") := by
  decide +kernel

/-- `ignore_crc`: any CRC bytes are accepted and the gamma is reported -/
example :
    (runF toyCfg (Dec.new { ignoreCrc := true }) (sig ++ ihdr ++ gamaBad)).2.2 = none ∧
    (runF toyCfg (Dec.new { ignoreCrc := true }) (sig ++ ihdr ++ gamaBad)).2.1.getLast? = some (.chunkComplete 1 gAMA) := by
  decide +kernel


/-- animation chunks under the DEFAULT options: an fcTL and an fdAT with a wrong stored CRC are `CrcMismatch`
    (before d89703f both were skipped after having taken effect); with the right CRC the stream decodes -/
example :
    let fc := chunkBytes fcTL (encodeFctl { seq := 0, width := 1, height := 1, x := 0, y := 0, delayNum := 1, delayDen := 1,
                                            dispose := 0, blend := 0 })
    (runF toyCfg (Dec.new {}) (sig ++ ihdr ++ fc [0, 0, 0, 1])).2.2 = some (.format "CrcMismatch") ∧
    (runF toyCfg (Dec.new {}) (sig ++ ihdr ++ fc [0, 0, 0, 0] ++ chunkBytes fdAT [0, 0, 0, 1, 2, 7, 9] [0, 0, 0, 5])).2.2 =
      some (.format "CrcMismatch") ∧
    (runF toyCfg (Dec.new {}) (sig ++ ihdr ++ chunkBytes acTL [0, 0, 0, 1, 0, 0, 0, 0] [9, 0, 0, 0])).2.2 =
      some (.format "CrcMismatch") ∧
    (runF toyCfg (Dec.new {}) (sig ++ ihdr ++ fc [0, 0, 0, 0] ++ chunkBytes fdAT [0, 0, 0, 1, 2, 7, 9] [0, 0, 0, 0] ++ iend)).2.2 =
      none := by
  decide +kernel

/-- D10 remains for the other ancillary kinds, e.g. a tEXt and a tRNS chunk with a wrong stored CRC still contribute -/
example :
    (runF toyCfg (Dec.new {}) (sig ++ ihdr ++ chunkBytes tEXt [97, 0, 98] [0, 0, 0, 1])).2.2 = none ∧
    ((runF toyCfg (Dec.new {}) (sig ++ ihdr ++ chunkBytes tEXt [97, 0, 98] [0, 0, 0, 1])).1.info.map (·.text)) =
      some [.tEXt [97] [98]] ∧
    ((runF toyCfg (Dec.new {}) (sig ++ ihdr ++ chunkBytes tRNS [0, 5] [0, 0, 0, 1])).1.info.bind (·.trns)) = some [5] := by
  decide +kernel

end examples
end Png.C11
