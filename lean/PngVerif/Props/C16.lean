import PngVerif.Proofs.FramingLogic
import PngVerif.Proofs.FramingToy
/-!
# C16 — metadata is reported faithfully; malformed optional chunks never break the image

Property theorems only (lemmas: `PngVerif/Proofs/FramingLogic.lean`), about the chunk parsers and
`parse_chunk` of `Model/Framing.lean`, for an ARBITRARY `cfg : Cfg` and ARBITRARY decoder values
satisfying the stated hypotheses (IHDR seen: `d.info = some i`; position relative to PLTE / IDAT where the
parser checks it; budget where the parser reserves).

* `parse_encode_K`: for the byte layout of legal field values (big-endian fields in chunk order, written
  with `be32Bytes` / `be16Bytes`) the parser stores exactly those values.  fcTL: `C10.fctl_accepts` /
  `C10.fctl_bounds`; IHDR: `C10.ihdr_accepts_iff`.
* `first_wins_benign`, `first_wins_silent`: duplicates are ignored.
* `benign_inert`: EVERY failing payload of a benign kind is ignored, with the exact residue.
* `unknown_inert`, `after_idat_ignored`, `sbit_trns_prechecks_ignored`.
* `text_errors_fatal`: documents real behaviour — malformed tEXt/zTXt/iTXt are NOT benign.
* `srgb_overrides`: accessor fact.
All of this holds for EVERY body length, 0 included: since f31d047 a chunk of length 0 is handed to `parse_chunk`
like any other (`C10.every_chunk_parsed`, `C10.empty_chunk_parsed`).  So an empty gAMA/cHRM/sRGB/pHYs/sBIT/tRNS/iCCP is a
too-short body of a benign kind — ignored (`benign_inert`); an empty unknown chunk is ignored (`unknown_inert`); an empty
eXIf is the empty block (`parse_encode_eXIf_empty`); an empty tEXt/zTXt/iTXt is fatal (`text_without_nul_fatal`, which
covers the empty body), as is an empty acTL/fcTL (`C10.actl_short_rejected`, `C10.fctl_short_rejected`).
-/
namespace Png.C16
open Png Png.Framing

/-! ## `parse_encode_K` -/

/-- gAMA: one big-endian `u32` -/
theorem parse_encode_gAMA (d : Dec) (i : Info) (g : Nat) (rest : Bytes) (hg : g < 2 ^ 32)
    (hi : d.info = some i) (hidat : d.haveIdat = false) (hfirst : i.gama = none) (hraw : d.raw = be32Bytes g ++ rest) :
    parseGama d = .ok (setInfo d (fun i => { i with gama := some g }), .nothing) := by
  simp [parseGama, withInfo, hi, hidat, hfirst, hraw, rdU32_be32Bytes hg, eofOr, bind, Except.bind, pure, Except.pure]

/-- glue: `parse_chunk(t)` on a complete body runs the parser of `t` on the decoder with `state = U32 Crc(t)`
    (`Dec.atCrc`, all other fields as they are) and returns its `Ok` result as it is; which parser that is:
    `Framing.dispatch_gAMA`, `dispatch_cHRM`, … (one lemma per known type).  E.g. for gAMA: -/
theorem parse_chunk_runs_parser (cfg : Cfg) (d d' : Dec) (t : ChunkType) (ev : Ev)
    (h : dispatch cfg (d.atCrc t) t = .ok (d', ev)) : parseChunk cfg d t = .ok (ev, d') := parseChunk_of_ok h

theorem parse_encode_gAMA_chunk (cfg : Cfg) (d : Dec) (i : Info) (g : Nat) (rest : Bytes) (hg : g < 2 ^ 32)
    (hi : d.info = some i) (hidat : d.haveIdat = false) (hfirst : i.gama = none) (hraw : d.raw = be32Bytes g ++ rest) :
    parseChunk cfg d gAMA = .ok (.nothing, setInfo (d.atCrc gAMA) (fun i => { i with gama := some g })) :=
  parseChunk_of_ok (by rw [dispatch_gAMA]; exact parse_encode_gAMA (d.atCrc gAMA) i g rest hg hi hidat hfirst hraw)

/-- cHRM: eight big-endian `u32` in the order white x, y, red x, y, green x, y, blue x, y -/
theorem parse_encode_cHRM (d : Dec) (i : Info) (vs : List Nat) (rest : Bytes) (hlen : vs.length = 8)
    (hv : ∀ v ∈ vs, v < 2 ^ 32) (hi : d.info = some i) (hidat : d.haveIdat = false) (hfirst : i.chrm = none)
    (hraw : d.raw = vs.flatMap be32Bytes ++ rest) :
    parseChrm d = .ok (setInfo d (fun i => { i with chrm := some vs }), .nothing) := by
  have := rdU32s_encode vs hv rest
  rw [hlen] at this
  simp [parseChrm, withInfo, hi, hidat, hfirst, hraw, this, eofOr, bind, Except.bind, pure, Except.pure]

/-- sRGB: one byte, the rendering intent 0..3 -/
theorem parse_encode_sRGB (d : Dec) (i : Info) (r : Nat) (rest : Bytes) (hr : r ≤ 3)
    (hi : d.info = some i) (hidat : d.haveIdat = false) (hfirst : i.srgb = none) (hraw : d.raw = r.toUInt8 :: rest) :
    parseSrgb d = .ok (setInfo d (fun i => { i with srgb := some r }), .nothing) := by
  have h1 : ¬ r > 3 := by omega
  simp [parseSrgb, withInfo, hi, hidat, hfirst, hraw, rdU8_toUInt8 (show r < 256 by omega), eofOr, bind, Except.bind,
    pure, Except.pure, h1]

/-- pHYs: x, y pixels per unit (`u32` each), unit 0 or 1; also reported as `PixelDimensions` -/
theorem parse_encode_pHYs (d : Dec) (i : Info) (x y u : Nat) (rest : Bytes) (hx : x < 2 ^ 32) (hy : y < 2 ^ 32) (hu : u ≤ 1)
    (hi : d.info = some i) (hidat : d.haveIdat = false) (hfirst : i.pixelDims = none)
    (hraw : d.raw = be32Bytes x ++ be32Bytes y ++ u.toUInt8 :: rest) :
    parsePhys d = .ok (setInfo d (fun i => { i with pixelDims := some (x, y, u) }), .pixelDimensions x y u) := by
  have h1 : ¬ u > 1 := by omega
  simp [parsePhys, withInfo, hi, hidat, hfirst, hraw, rdU32_be32Bytes hx, rdU32_be32Bytes hy,
    rdU8_toUInt8 (show u < 256 by omega), eofOr, bind, Except.bind, pure, Except.pure, h1]

/-- acTL: number of frames, number of plays (`u32` each); also reported as `AnimationControl` -/
theorem parse_encode_acTL (d : Dec) (i : Info) (nf np : Nat) (rest : Bytes) (hf : nf < 2 ^ 32) (hp : np < 2 ^ 32)
    (hi : d.info = some i) (hidat : d.haveIdat = false) (hraw : d.raw = be32Bytes nf ++ be32Bytes np ++ rest) :
    parseActl d = .ok (setInfo d (fun i => { i with actl := some (nf, np) }), .animationControl nf np) := by
  simp [parseActl, withInfo, hi, hidat, hraw, rdU32_be32Bytes hf, rdU32_be32Bytes hp, eofOr, bind, Except.bind]

/-- cLLI: max content light level, max frame-average light level (`u32` each), exactly 8 bytes -/
theorem parse_encode_cLLI (d : Dec) (i : Info) (a c : Nat) (ha : a < 2 ^ 32) (hc : c < 2 ^ 32)
    (hi : d.info = some i) (hfirst : i.clli = none) (hraw : d.raw = be32Bytes a ++ be32Bytes c) :
    parseClli d = .ok (setInfo d (fun i => { i with clli := some (a, c) }), .nothing) := by
  have h1 : rdU32 (be32Bytes c) = some (c, []) := by simpa using rdU32_be32Bytes hc []
  simp [parseClli, withInfo, hi, hfirst, hraw, rdU32_be32Bytes ha, h1, bind, Option.bind]

/-- cICP: colour primaries, transfer function, matrix coefficients (must be 0), full-range flag 0/1; exactly 4 bytes -/
theorem parse_encode_cICP (d : Dec) (i : Info) (cp tf fr : UInt8) (hfr : fr.toNat ≤ 1)
    (hi : d.info = some i) (hidat : d.haveIdat = false) (hplte : i.palette = none) (hfirst : i.cicp = none)
    (hraw : d.raw = [cp, tf, 0, fr]) :
    parseCicp d = .ok (setInfo d (fun i => { i with cicp := some (cp.toNat, tf.toNat, 0, fr.toNat == 1) }), .nothing) := by
  have h1 : ¬ fr.toNat > 1 := by omega
  simp [parseCicp, withInfo, hi, hidat, hplte, hfirst, hraw, rdU8, bind, Option.bind, h1]

/-- mDCV: chromaticities in the order red, green, blue, white (`u16` x, y each), then max and min luminance
    (`u32`), exactly 24 bytes; REPORTED in the order white, red, green, blue with every coordinate × 2 -/
theorem parse_encode_mDCV (d : Dec) (i : Info) (rx ry gx gy bx by_ wx wy mx mn : Nat)
    (hc : ∀ v ∈ [rx, ry, gx, gy, bx, by_, wx, wy], v < 2 ^ 16) (hmx : mx < 2 ^ 32) (hmn : mn < 2 ^ 32)
    (hi : d.info = some i) (hidat : d.haveIdat = false) (hplte : i.palette = none) (hfirst : i.mdcv = none)
    (hraw : d.raw = [rx, ry, gx, gy, bx, by_, wx, wy].flatMap be16Bytes ++ (be32Bytes mx ++ be32Bytes mn)) :
    parseMdcv d =
      .ok (setInfo d (fun i => { i with mdcv := some ([wx * 2, wy * 2, rx * 2, ry * 2, gx * 2, gy * 2, bx * 2, by_ * 2], mx, mn) }),
           .nothing) := by
  have h0 : rdU16s 8 ([rx, ry, gx, gy, bx, by_, wx, wy].flatMap be16Bytes ++ (be32Bytes mx ++ be32Bytes mn)) =
      some ([rx, ry, gx, gy, bx, by_, wx, wy], be32Bytes mx ++ be32Bytes mn) :=
    rdU16s_encode [rx, ry, gx, gy, bx, by_, wx, wy] hc (be32Bytes mx ++ be32Bytes mn)
  have h1 : rdU32 (be32Bytes mn) = some (mn, []) := by simpa using rdU32_be32Bytes hmn []
  unfold parseMdcv withInfo
  simp only [hi, hraw, h0, rdU32_be32Bytes hmx, h1, bind, Option.bind, hidat, hplte, hfirst]
  simp

/-- eXIf: the body, verbatim -/
theorem parse_encode_eXIf (d : Dec) (i : Info) (hi : d.info = some i) (hfirst : i.exif = none) :
    parseExif d = .ok (setInfo d (fun i => { i with exif := some d.raw }), .nothing) := by
  simp [parseExif, withInfo, hi, hfirst]

/-- in particular the EMPTY eXIf chunk (parsed since f31d047): the empty block is reported -/
theorem parse_encode_eXIf_empty (cfg : Cfg) (d : Dec) (i : Info) (hi : d.info = some i) (hfirst : i.exif = none)
    (hraw : d.raw = []) :
    parseChunk cfg d eXIf = .ok (.nothing, setInfo (d.atCrc eXIf) (fun i => { i with exif := some [] })) := by
  have := parse_encode_eXIf (d.atCrc eXIf) i hi hfirst
  rw [show (d.atCrc eXIf).raw = [] from hraw] at this
  exact parseChunk_of_ok (by rw [dispatch_eXIf]; exact this)

/-- sBIT: one byte per channel (`sbitExpected` of the colour type), each between 1 and the sample depth;
    stored verbatim; the bytes are charged to `Limits` -/
theorem parse_encode_sBIT (d : Dec) (i : Info) (hi : d.info = some i) (hplte : i.palette = none)
    (hidat : d.haveIdat = false) (hfirst : i.sbit = none) (hlim : d.raw.length ≤ d.limit)
    (hlen : d.raw.length = sbitExpected i.color)
    (hval : ∀ s ∈ d.raw, 1 ≤ s.toNat ∧ s.toNat ≤ (if i.color = 3 then 8 else i.depth)) :
    parseSbit d =
      .ok (setInfo { d with limit := d.limit - d.raw.length } (fun i => { i with sbit := some d.raw }), .nothing) := by
  unfold parseSbit withInfo
  simp only [hi, hplte, hidat, hfirst, reserve_ok d _ hlim, bind, Except.bind, pure, Except.pure]
  generalize (if i.color = 3 then 8 else i.depth) = sd at hval ⊢
  simp [hlen]
  intro x hx
  have := hval x hx
  omega

/-- bKGD: 1 byte (palette index; needs a PLTE before), 2 bytes (gray) or 6 bytes (RGB), stored verbatim -/
theorem parse_encode_bKGD (d : Dec) (i : Info) (hi : d.info = some i) (hidat : d.haveIdat = false)
    (hfirst : i.bkgd = none)
    (hlen : (i.color = 3 ∧ i.palette.isSome = true ∧ d.raw.length = 1) ∨
            ((i.color = 0 ∨ i.color = 4) ∧ d.raw.length = 2) ∨
            (i.color ≠ 3 ∧ i.color ≠ 0 ∧ i.color ≠ 4 ∧ d.raw.length = 6)) :
    parseBkgd d = .ok (setInfo d (fun i => { i with bkgd := some d.raw }), .nothing) := by
  unfold parseBkgd withInfo
  simp only [hi, hfirst, hidat]
  rcases hlen with ⟨h1, h2, h3⟩ | ⟨h1, h3⟩ | ⟨h1, h2, h4, h3⟩
  · cases hp : i.palette <;> simp [hp] at h2
    simp [h1, h3]
  · rcases h1 with h1 | h1 <;> simp [h1, h3]
  · simp [h1, h2, h4, h3]

/-- tRNS, grayscale: one `u16` sample; for bit depths below 16 only the LOW byte is stored -/
theorem parse_encode_tRNS_gray (d : Dec) (i : Info) (hi lo : UInt8) (rest : Bytes) (hinfo : d.info = some i)
    (hcol : i.color = 0) (hidat : d.haveIdat = false) (hfirst : i.trns = none) (hlim : d.raw.length ≤ d.limit)
    (hraw : d.raw = hi :: lo :: rest) :
    parseTrns d =
      .ok (setInfo { d with limit := d.limit - d.raw.length }
             (fun i' => { i' with trns := some (if i.depth < 16 then [lo] else d.raw) }), .nothing) := by
  unfold parseTrns withInfo
  simp only [hinfo, hidat, hfirst, reserve_ok d _ hlim, bind, Except.bind, pure, Except.pure, hcol]
  simp [hraw]

/-- tRNS, RGB: three `u16` samples; for bit depths below 16 the three LOW bytes are stored -/
theorem parse_encode_tRNS_rgb (d : Dec) (i : Info) (r1 r0 g1 g0 b1 b0 : UInt8) (rest : Bytes) (hinfo : d.info = some i)
    (hcol : i.color = 2) (hidat : d.haveIdat = false) (hfirst : i.trns = none) (hlim : d.raw.length ≤ d.limit)
    (hraw : d.raw = r1 :: r0 :: g1 :: g0 :: b1 :: b0 :: rest) :
    parseTrns d =
      .ok (setInfo { d with limit := d.limit - d.raw.length }
             (fun i' => { i' with trns := some (if i.depth < 16 then [r0, g0, b0] else d.raw) }), .nothing) := by
  unfold parseTrns withInfo
  simp only [hinfo, hidat, hfirst, reserve_ok d _ hlim, bind, Except.bind, pure, Except.pure, hcol]
  simp [hraw]

/-- tRNS, indexed: the alpha table, verbatim (any length — the code does not compare it with the palette);
    needs a PLTE before -/
theorem parse_encode_tRNS_indexed (d : Dec) (i : Info) (hinfo : d.info = some i)
    (hcol : i.color = 3) (hplte : i.palette.isSome = true) (hidat : d.haveIdat = false) (hfirst : i.trns = none)
    (hlim : d.raw.length ≤ d.limit) :
    parseTrns d =
      .ok (setInfo { d with limit := d.limit - d.raw.length } (fun i' => { i' with trns := some d.raw }), .nothing) := by
  unfold parseTrns withInfo
  simp only [hinfo, hidat, hfirst, reserve_ok d _ hlim, bind, Except.bind, pure, Except.pure, hcol]
  cases hp : i.palette <;> simp [hp] at hplte
  simp

/-- tEXt: keyword, NUL, text -/
theorem parse_encode_tEXt (d : Dec) (i : Info) (kw text : Bytes) (hk : KeywordOk kw) (hinfo : d.info = some i)
    (hlim : d.raw.length ≤ d.limit) (hraw : d.raw = kw ++ 0 :: text) :
    parseText d = .ok (addText { d with limit := d.limit - d.raw.length } (.tEXt kw text), .nothing) := by
  unfold parseText
  rw [reserve_ok d _ hlim]
  simp only [bind, Except.bind, hraw, splitKeyword_encode kw text hk, withInfo, hinfo]

/-- zTXt: keyword, NUL, compression method 0, compressed text -/
theorem parse_encode_zTXt (d : Dec) (i : Info) (kw z : Bytes) (hk : KeywordOk kw) (hinfo : d.info = some i)
    (hlim : d.raw.length ≤ d.limit) (hraw : d.raw = kw ++ 0 :: 0 :: z) :
    parseZtxt d = .ok (addText { d with limit := d.limit - d.raw.length } (.zTXt kw z), .nothing) := by
  unfold parseZtxt
  rw [reserve_ok d _ hlim]
  simp only [bind, Except.bind, hraw, splitKeyword_encode kw (0 :: z) hk, withInfo, hinfo]
  simp

/-- iTXt: keyword, NUL, compression flag, method, language tag, NUL, translated keyword, NUL, text -/
theorem parse_encode_iTXt (cfg : Cfg) (d : Dec) (i : Info) (kw lang trans text : Bytes) (flag method : UInt8)
    (hk : KeywordOk kw) (hinfo : d.info = some i) (hlim : d.raw.length ≤ d.limit)
    (hflag : flag.toNat ≤ 1) (hmethod : flag = 1 → method = 0)
    (hlang : ∀ b ∈ lang, b ≠ 0 ∧ b.toNat < 128) (htrans : (∀ b ∈ trans, b ≠ 0) ∧ cfg.utf8Ok trans = true)
    (htext : flag = 1 ∨ cfg.utf8Ok text = true)
    (hraw : d.raw = kw ++ 0 :: flag :: method :: (lang ++ 0 :: (trans ++ 0 :: text))) :
    parseItxt cfg d =
      .ok (addText { d with limit := d.limit - d.raw.length } (.iTXt kw (flag = 1) lang trans text), .nothing) := by
  have hl1 : (lang ++ 0 :: (trans ++ 0 :: text)).findIdx? (· = 0) = some lang.length :=
    findIdx_nul lang _ (fun b hb => (hlang b hb).1)
  have hl2 : (trans ++ 0 :: text).findIdx? (· = 0) = some trans.length := findIdx_nul trans _ htrans.1
  have hany : lang.any (fun b => decide (b.toNat ≥ 128)) = false := by
    rw [List.any_eq_false]; intro b hb; have := (hlang b hb).2; simp; omega
  have ht1 : ∀ X : Bytes, List.take lang.length (lang ++ 0 :: X) = lang := fun X => by simp
  have hd1 : ∀ X : Bytes, List.drop (lang.length + 1) (lang ++ 0 :: X) = X := fun X => by simp
  have ht2 : List.take trans.length (trans ++ 0 :: text) = trans := by simp
  have hd2 : List.drop (trans.length + 1) (trans ++ 0 :: text) = text := by simp
  have c1 : ¬ flag.toNat > 1 := by omega
  have c2 : ¬ (flag = 1 ∧ method ≠ 0) := fun ⟨a, b⟩ => b (hmethod a)
  have c3 : ¬ ((!decide (flag = 1)) = true ∧ (!cfg.utf8Ok text) = true) := by
    rcases htext with h | h <;> simp [h]
  unfold parseItxt
  rw [reserve_ok d _ hlim]
  simp only [bind, Except.bind, hraw, splitKeyword_encode kw _ hk, hl1, hd1, ht1, hl2, ht2, hd2, withInfo, hinfo,
    if_neg c1, if_neg c2, hany, Bool.false_eq_true, if_false, htrans.2, Bool.not_true, if_neg c3]

/-- iCCP: profile name (1–79 bytes, no NUL), NUL, compression method 0, zlib stream: the stored profile is what
    the bounded inflater returns for the stream (the inflater is outside image-png: `cfg.inflateBounded`);
    its length is charged to `Limits`; `have_iccp` is set -/
theorem parse_encode_iCCP (cfg : Cfg) (d : Dec) (name z profile : Bytes) (hk : KeywordOk name)
    (hidat : d.haveIdat = false) (hfirst : d.haveIccp = false)
    (hz : cfg.inflateBounded z d.limit = .ok profile) (hlim : profile.length ≤ d.limit)
    (hraw : d.raw = name ++ 0 :: 0 :: z) :
    parseIccp cfg d =
      .ok (setInfo { d with haveIccp := true, limit := d.limit - profile.length } (fun i => { i with icc := some profile }),
           .nothing) := by
  unfold parseIccp
  rw [if_neg (by simp [hidat]), if_neg (by simp [hfirst])]
  simp only
  rw [parseIccpRaw_encode cfg { d with haveIccp := true } name z profile hk hz hlim hraw]

/-! ## first occurrence wins -/

/-- **Duplicates of gAMA, cHRM, sRGB, pHYs, sBIT, tRNS are ignored**: the parser reports `DuplicateChunk`, which
    `parse_chunk` swallows (benign); the decoder is unchanged except for `state` — nothing is charged to
    `Limits` either (the duplicate check precedes the reservation). -/
theorem first_wins_benign (cfg : Cfg) (d : Dec) (i : Info) (hi : d.info = some i) (hidat : d.haveIdat = false) :
    (i.gama.isSome = true → parseChunk cfg d gAMA = .ok (.nothing, d.atCrc gAMA)) ∧
    (i.chrm.isSome = true → parseChunk cfg d cHRM = .ok (.nothing, d.atCrc cHRM)) ∧
    (i.srgb.isSome = true → parseChunk cfg d sRGB = .ok (.nothing, d.atCrc sRGB)) ∧
    (i.pixelDims.isSome = true → parseChunk cfg d pHYs = .ok (.nothing, d.atCrc pHYs)) ∧
    (i.palette = none → i.sbit.isSome = true → parseChunk cfg d sBIT = .ok (.nothing, d.atCrc sBIT)) ∧
    (i.trns.isSome = true → parseChunk cfg d tRNS = .ok (.nothing, d.atCrc tRNS)) := by
  have hi' : ∀ t, (d.atCrc t).info = some i := fun _ => hi
  have hd' : ∀ t, (d.atCrc t).haveIdat = false := fun _ => hidat
  refine ⟨fun h => ?_, fun h => ?_, fun h => ?_, fun h => ?_, fun hp h => ?_, fun h => ?_⟩
  · have : dispatch cfg (d.atCrc gAMA) gAMA = .error (.format "DuplicateChunk gAMA") := by
      rw [dispatch_gAMA]; simp [parseGama, withInfo, hi', hd', h, bind, Except.bind, throw, throwThe, MonadExceptOf.throw]
    rw [parseChunk_of_benign this rfl (by decide),
      benignResidue_of_not_charged (benignCharged_other _ (by decide) (by decide))]
  · have : dispatch cfg (d.atCrc cHRM) cHRM = .error (.format "DuplicateChunk cHRM") := by
      rw [dispatch_cHRM]; simp [parseChrm, withInfo, hi', hd', h, bind, Except.bind, throw, throwThe, MonadExceptOf.throw]
    rw [parseChunk_of_benign this rfl (by decide),
      benignResidue_of_not_charged (benignCharged_other _ (by decide) (by decide))]
  · have : dispatch cfg (d.atCrc sRGB) sRGB = .error (.format "DuplicateChunk sRGB") := by
      rw [dispatch_sRGB]; simp [parseSrgb, withInfo, hi', hd', h, bind, Except.bind, throw, throwThe, MonadExceptOf.throw]
    rw [parseChunk_of_benign this rfl (by decide),
      benignResidue_of_not_charged (benignCharged_other _ (by decide) (by decide))]
  · have : dispatch cfg (d.atCrc pHYs) pHYs = .error (.format "DuplicateChunk pHYs") := by
      rw [dispatch_pHYs]; simp [parsePhys, withInfo, hi', hd', h, bind, Except.bind, throw, throwThe, MonadExceptOf.throw]
    rw [parseChunk_of_benign this rfl (by decide),
      benignResidue_of_not_charged (benignCharged_other _ (by decide) (by decide))]
  · have : dispatch cfg (d.atCrc sBIT) sBIT = .error (.format "DuplicateChunk sBIT") := by
      rw [dispatch_sBIT]
      simp [parseSbit, withInfo, hi', hd', h, hp, bind, Except.bind, throw, throwThe, MonadExceptOf.throw]
    rw [parseChunk_of_benign this rfl (by decide), benignResidue_of_not_charged]
    simp [benignCharged, hi', h]
  · have : dispatch cfg (d.atCrc tRNS) tRNS = .error (.format "DuplicateChunk tRNS") := by
      rw [dispatch_tRNS]; simp [parseTrns, withInfo, hi', h, bind, Except.bind, throw, throwThe, MonadExceptOf.throw]
    rw [parseChunk_of_benign this rfl (by decide), benignResidue_of_not_charged]
    simp (decide := true) [benignCharged, hi', h]

/-- **cICP, mDCV, cLLI, eXIf, bKGD: the first occurrence wins silently**, **iCCP**: once `have_iccp` is set later
    iCCP chunks are ignored — the parser returns the decoder unchanged -/
theorem first_wins_silent (cfg : Cfg) (d : Dec) (i : Info) (hi : d.info = some i) :
    (i.cicp.isSome = true → parseCicp d = .ok (d, .nothing)) ∧
    (i.mdcv.isSome = true → parseMdcv d = .ok (d, .nothing)) ∧
    (i.clli.isSome = true → parseClli d = .ok (d, .nothing)) ∧
    (i.exif.isSome = true → parseExif d = .ok (d, .nothing)) ∧
    (i.bkgd.isSome = true → parseBkgd d = .ok (d, .nothing)) ∧
    (d.haveIdat = false → d.haveIccp = true → parseIccp cfg d = .ok (d, .nothing)) := by
  refine ⟨fun h => ?_, fun h => ?_, fun h => ?_, fun h => ?_, fun h => ?_, fun h1 h2 => ?_⟩
  · cases hc : i.cicp <;> simp [hc] at h; simp [parseCicp, withInfo, hi, hc]
  · cases hc : i.mdcv <;> simp [hc] at h; simp [parseMdcv, withInfo, hi, hc]
  · cases hc : i.clli <;> simp [hc] at h; simp [parseClli, withInfo, hi, hc]
  · cases hc : i.exif <;> simp [hc] at h; simp [parseExif, withInfo, hi, hc]
  · cases hc : i.bkgd <;> simp [hc] at h; simp [parseBkgd, withInfo, hi, hc]
  · simp [parseIccp, h1, h2]

/-- sBIT after PLTE, after IDAT or duplicated, tRNS after IDAT or duplicated: ignored, nothing charged -/
theorem sbit_trns_prechecks_ignored (cfg : Cfg) (d : Dec) (i : Info) (hi : d.info = some i) :
    (i.palette.isSome = true ∨ d.haveIdat = true ∨ i.sbit.isSome = true →
      parseChunk cfg d sBIT = .ok (.nothing, d.atCrc sBIT)) ∧
    (i.trns.isSome = true ∨ d.haveIdat = true → parseChunk cfg d tRNS = .ok (.nothing, d.atCrc tRNS)) := by
  have hi' : ∀ t, (d.atCrc t).info = some i := fun _ => hi
  have hd' : ∀ t, (d.atCrc t).haveIdat = d.haveIdat := fun _ => rfl
  constructor
  · intro h
    have : ∃ w, dispatch cfg (d.atCrc sBIT) sBIT = .error (.format w) := by
      rw [dispatch_sBIT]
      by_cases h1 : i.palette.isSome = true
      · exact ⟨"AfterPlte sBIT", by
          simp [parseSbit, withInfo, hi', h1, bind, Except.bind, throw, throwThe, MonadExceptOf.throw]⟩
      · by_cases h2 : d.haveIdat = true
        · exact ⟨"AfterIdat sBIT", by
            simp [parseSbit, withInfo, hi', hd', h1, h2, bind, Except.bind, throw, throwThe, MonadExceptOf.throw]⟩
        · have h3 : i.sbit.isSome = true := by
            rcases h with h | h | h
            · exact absurd h h1
            · exact absurd h h2
            · exact h
          exact ⟨"DuplicateChunk sBIT", by
            simp [parseSbit, withInfo, hi', hd', h1, h2, h3, bind, Except.bind, throw, throwThe, MonadExceptOf.throw]⟩
    obtain ⟨w, hw⟩ := this
    rw [parseChunk_of_benign hw rfl (by decide), benignResidue_of_not_charged]
    simp only [benignCharged, hi', hd', if_true]
    rcases h with h | h | h <;> simp [h]
  · intro h
    have : ∃ w, dispatch cfg (d.atCrc tRNS) tRNS = .error (.format w) := by
      rw [dispatch_tRNS]
      by_cases h1 : i.trns.isSome = true
      · exact ⟨"DuplicateChunk tRNS", by
          simp [parseTrns, withInfo, hi', h1, bind, Except.bind, throw, throwThe, MonadExceptOf.throw]⟩
      · have h2 : d.haveIdat = true := by
          rcases h with h | h
          · exact absurd h h1
          · exact h
        exact ⟨"AfterIdat tRNS", by
          simp [parseTrns, withInfo, hi', hd', h1, h2, bind, Except.bind, throw, throwThe, MonadExceptOf.throw]⟩
    obtain ⟨w, hw⟩ := this
    rw [parseChunk_of_benign hw rfl (by decide), benignResidue_of_not_charged]
    simp (decide := true) only [benignCharged, hi', hd', if_false, if_true]
    rcases h with h | h <;> simp [h]

/-- **Misplaced after the image data** (`have_idat`): gAMA, cHRM, sRGB, pHYs, iCCP (and sBIT, tRNS:
    `sbit_trns_prechecks_ignored`) report `AfterIdat`, which is benign — the chunk is ignored, decoder unchanged;
    cICP, mDCV, bKGD are ignored silently by their parsers.  NOT so acTL: `AfterIdat acTL` is fatal. -/
theorem after_idat_ignored (cfg : Cfg) (d : Dec) (i : Info) (hi : d.info = some i) (hidat : d.haveIdat = true) :
    parseChunk cfg d gAMA = .ok (.nothing, d.atCrc gAMA) ∧
    parseChunk cfg d cHRM = .ok (.nothing, d.atCrc cHRM) ∧
    parseChunk cfg d sRGB = .ok (.nothing, d.atCrc sRGB) ∧
    parseChunk cfg d pHYs = .ok (.nothing, d.atCrc pHYs) ∧
    (d.opts.ignoreIccp = false → parseChunk cfg d iCCP = .ok (.nothing, d.atCrc iCCP)) ∧
    parseCicp d = .ok (d, .nothing) ∧ parseMdcv d = .ok (d, .nothing) ∧ parseBkgd d = .ok (d, .nothing) ∧
    parseChunk cfg d acTL = .error (.format "AfterIdat acTL") := by
  have hi' : ∀ t, (d.atCrc t).info = some i := fun _ => hi
  have hd' : ∀ t, (d.atCrc t).haveIdat = true := fun _ => hidat
  refine ⟨?_, ?_, ?_, ?_, fun ho => ?_, ?_, ?_, ?_, ?_⟩
  · have : dispatch cfg (d.atCrc gAMA) gAMA = .error (.format "AfterIdat gAMA") := by
      rw [dispatch_gAMA]; simp [parseGama, withInfo, hi', hd', bind, Except.bind, throw, throwThe, MonadExceptOf.throw]
    rw [parseChunk_of_benign this rfl (by decide),
      benignResidue_of_not_charged (benignCharged_other _ (by decide) (by decide))]
  · have : dispatch cfg (d.atCrc cHRM) cHRM = .error (.format "AfterIdat cHRM") := by
      rw [dispatch_cHRM]; simp [parseChrm, withInfo, hi', hd', bind, Except.bind, throw, throwThe, MonadExceptOf.throw]
    rw [parseChunk_of_benign this rfl (by decide),
      benignResidue_of_not_charged (benignCharged_other _ (by decide) (by decide))]
  · have : dispatch cfg (d.atCrc sRGB) sRGB = .error (.format "AfterIdat sRGB") := by
      rw [dispatch_sRGB]; simp [parseSrgb, withInfo, hi', hd', bind, Except.bind, throw, throwThe, MonadExceptOf.throw]
    rw [parseChunk_of_benign this rfl (by decide),
      benignResidue_of_not_charged (benignCharged_other _ (by decide) (by decide))]
  · have : dispatch cfg (d.atCrc pHYs) pHYs = .error (.format "AfterIdat pHYs") := by
      rw [dispatch_pHYs]; simp [parsePhys, withInfo, hi', hd', bind, Except.bind, throw, throwThe, MonadExceptOf.throw]
    rw [parseChunk_of_benign this rfl (by decide),
      benignResidue_of_not_charged (benignCharged_other _ (by decide) (by decide))]
  · have : dispatch cfg (d.atCrc iCCP) iCCP = .error (.format "AfterIdat iCCP") := by
      rw [dispatch_iCCP cfg (d.atCrc iCCP) ho]; simp [parseIccp, hd']
    rw [parseChunk_of_benign this rfl (by decide),
      benignResidue_of_not_charged (benignCharged_other _ (by decide) (by decide))]
  · simp [parseCicp, withInfo, hi, hidat]
  · simp [parseMdcv, withInfo, hi, hidat]
  · simp [parseBkgd, withInfo, hi, hidat]
  · have : dispatch cfg (d.atCrc acTL) acTL = .error (.format "AfterIdat acTL") := by
      rw [dispatch_acTL]; simp [parseActl, hd', bind, Except.bind, throw, throwThe, MonadExceptOf.throw]
    exact parseChunk_of_error this (by decide)

/-! ## malformed benign chunks, unknown chunks -/

/-- **A malformed instance of a benign kind is ignored**: for every kind in `benign` (cHRM, gAMA, iCCP, pHYs, sBIT,
    sRGB, tRNS) and EVERY payload / decoder on which its parser fails with a `Format` error (including a
    too-short body), `parse_chunk` returns `Ok(Nothing)` and the decoder is exactly
    `benignResidue (d.atCrc t) t`: `d` with `state` moved on, and — for sBIT and tRNS only, when the failure
    came after their `reserve_bytes` call — `limit` reduced by the body length.  In particular `info` is
    untouched. -/
theorem benign_inert (cfg : Cfg) (d : Dec) (t : ChunkType) (e : PErr) (hb : benign t = true)
    (he : dispatch cfg (d.atCrc t) t = .error e) (hf : e.isFormat = true) :
    parseChunk cfg d t = .ok (.nothing, benignResidue (d.atCrc t) t) ∧
    (benignResidue (d.atCrc t) t).info = d.info ∧
    FrameG (d.atCrc t) (benignResidue (d.atCrc t) t) ∧
    (t ≠ sBIT → t ≠ tRNS → benignResidue (d.atCrc t) t = d.atCrc t) ∧
    ((benignResidue (d.atCrc t) t).limit = d.limit ∨
      ((t = sBIT ∨ t = tRNS) ∧ (benignResidue (d.atCrc t) t).limit = d.limit - d.raw.length)) := by
  refine ⟨parseChunk_of_benign he hf hb, benignResidue_info _ _, benignResidue_frame _ _,
    fun h1 h2 => benignResidue_of_not_charged (benignCharged_other _ h1 h2), ?_⟩
  by_cases hc : benignCharged (d.atCrc t) t = true
  · have ht : t = sBIT ∨ t = tRNS := by
      by_cases h1 : t = sBIT
      · exact Or.inl h1
      · by_cases h2 : t = tRNS
        · exact Or.inr h2
        · rw [benignCharged_other _ h1 h2] at hc; cases hc
    unfold benignResidue
    rw [hc, if_pos rfl, reserveOrKeep_eq]
    split
    · exact Or.inr ⟨ht, rfl⟩
    · exact Or.inl rfl
  · rw [benignResidue_of_not_charged (by simpa using hc)]
    exact Or.inl rfl

/-- the errors that are NOT swallowed even for benign kinds: `Limits` (sBIT, tRNS: the reservation itself) -/
theorem benign_limits_fatal (cfg : Cfg) (d : Dec) (t : ChunkType) (he : dispatch cfg (d.atCrc t) t = .error .limits) :
    parseChunk cfg d t = .error .limits := parseChunk_of_error he rfl

/-- **An unknown chunk type is ignored**: for a type that matches none of the arms (also iCCP under `ignore_iccp`,
    the text kinds under `ignore_text`), whatever the payload, `parse_chunk` reports `PartialChunk` and
    changes nothing but `state` -/
theorem unknown_inert (cfg : Cfg) (d : Dec) (t : ChunkType)
    (h : t ∉ knownTypes ∨ (t = iCCP ∧ d.opts.ignoreIccp = true) ∨
      ((t = tEXt ∨ t = zTXt ∨ t = iTXt) ∧ d.opts.ignoreText = true)) :
    parseChunk cfg d t = .ok (.partialChunk t, d.atCrc t) ∧ (d.atCrc t).info = d.info ∧ (d.atCrc t).limit = d.limit :=
  ⟨parseChunk_of_ok (dispatch_unknown cfg (d.atCrc t) t h), rfl, rfl⟩

/-- **Malformed text chunks are FATAL** (tEXt, zTXt, iTXt are not in the benign list): every parser error
    becomes the error of `parse_chunk` and poisons the decoder; e.g. a body without NUL separator (`text_without_nul_fatal`:
    in particular the EMPTY body, which is parsed since f31d047) -/
theorem text_errors_fatal (cfg : Cfg) (d : Dec) (t : ChunkType) (e : PErr) (ht : t = tEXt ∨ t = zTXt ∨ t = iTXt)
    (he : dispatch cfg (d.atCrc t) t = .error e) : parseChunk cfg d t = .error e.toErr := by
  apply parseChunk_of_error he
  rcases ht with rfl | rfl | rfl <;> simp (decide := true)

theorem text_without_nul_fatal (cfg : Cfg) (d : Dec) (hopt : d.opts.ignoreText = false) (hlim : d.raw.length ≤ d.limit)
    (hnul : ∀ b ∈ d.raw, b ≠ 0) :
    parseChunk cfg d tEXt = .error (.format "MissingNullSeparator") ∧
    parseChunk cfg d zTXt = .error (.format "MissingNullSeparator") ∧
    parseChunk cfg d iTXt = .error (.format "MissingNullSeparator") := by
  have key : ∀ d : Dec, d.raw.length ≤ d.limit → (∀ b ∈ d.raw, b ≠ 0) →
      parseText d = .error (.format "MissingNullSeparator") ∧ parseZtxt d = .error (.format "MissingNullSeparator") ∧
      parseItxt cfg d = .error (.format "MissingNullSeparator") := by
    intro d hlim hnul
    have hr : reserve d d.raw.length = .ok { d with limit := d.limit - d.raw.length } := by
      unfold reserve; rw [if_pos hlim]
    have hs : splitKeyword ({ d with limit := d.limit - d.raw.length } : Dec).raw =
        .error (.format "MissingNullSeparator") := splitKeyword_no_nul d.raw hnul
    refine ⟨?_, ?_, ?_⟩
    · unfold parseText; rw [hr]; simp only [bind, Except.bind]; rw [hs]
    · unfold parseZtxt; rw [hr]; simp only [bind, Except.bind]; rw [hs]
    · unfold parseItxt; rw [hr]; simp only [bind, Except.bind]; rw [hs]
  refine ⟨?_, ?_, ?_⟩
  · exact parseChunk_of_error (e := .format "MissingNullSeparator")
      (by rw [dispatch_tEXt cfg (d.atCrc tEXt) hopt]; exact (key (d.atCrc tEXt) hlim hnul).1) (by decide)
  · exact parseChunk_of_error (e := .format "MissingNullSeparator")
      (by rw [dispatch_zTXt cfg (d.atCrc zTXt) hopt]; exact (key (d.atCrc zTXt) hlim hnul).2.1) (by decide)
  · exact parseChunk_of_error (e := .format "MissingNullSeparator")
      (by rw [dispatch_iTXt cfg (d.atCrc iTXt) hopt]; exact (key (d.atCrc iTXt) hlim hnul).2.2) (by decide)

/-! ## sRGB overrides gamma and chromaticities (accessors of `png::Info`, `common.rs:807-823`) -/

/-- `Info::gamma()`: the sRGB substitute when an sRGB chunk is present -/
def gamma (i : Info) (srgbGamma : Nat) : Option Nat := if i.srgb.isSome then some srgbGamma else i.gama
/-- `Info::chromaticities()` -/
def chromaticities (i : Info) (srgbChrm : List Nat) : Option (List Nat) := if i.srgb.isSome then some srgbChrm else i.chrm

theorem srgb_overrides (i : Info) (g : Nat) (c : List Nat) :
    (i.srgb.isSome = true → gamma i g = some g ∧ chromaticities i c = some c) ∧
    (i.srgb = none → gamma i g = i.gama ∧ chromaticities i c = i.chrm) := by
  constructor
  · intro h; simp [gamma, chromaticities, h]
  · intro h; simp [gamma, chromaticities, h]

/-- with the substitutes extracted from `src/srgb.rs` (Tie A: `Params.srgbSubstitutes` = gamma, then white, red,
    green, blue x/y): an sRGB chunk makes the accessors report gamma 45455 and the sRGB primaries, whatever gAMA
    and cHRM chunks said -/
theorem srgb_overrides_values (i : Info) (h : i.srgb.isSome = true) :
    gamma i (Params.srgbSubstitutes.getD 0 0) = some 45455 ∧
    chromaticities i (Params.srgbSubstitutes.drop 1) = some [31270, 32900, 64000, 33000, 30000, 60000, 15000, 6000] := by
  have := (srgb_overrides i (Params.srgbSubstitutes.getD 0 0) (Params.srgbSubstitutes.drop 1)).1 h
  exact this

/-! ## non-vacuity -/
section examples
open Png.Framing.Toy

/-- a chunk with the toy CRC (0) -/
def chunk (t : ChunkType) (body : Bytes) : Bytes := be32Bytes body.length ++ typeBytes t ++ body ++ [0, 0, 0, 0]
def tIME := mkType 't' 'I' 'M' 'E'

/-- one stream with: gAMA, sRGB, pHYs, tEXt, cLLI, eXIf; a DUPLICATE gAMA (ignored), a MALFORMED (2-byte) gAMA
    (ignored), an unknown chunk (ignored), a gAMA after IDAT (ignored): no error, pixels delivered, exactly the
    first values reported -/
example :
    let s := sig ++ ihdr ++ chunk gAMA (be32Bytes 45455) ++ chunk sRGB [1] ++ chunk pHYs (be32Bytes 2835 ++ be32Bytes 2836 ++ [1]) ++
      chunk tEXt [97, 98, 0, 99, 100] ++ chunk cLLI (be32Bytes 1000 ++ be32Bytes 400) ++ chunk eXIf [77, 77, 0, 42] ++
      chunk gAMA (be32Bytes 1) ++ chunk gAMA [1, 2] ++ chunk tIME [1, 2, 3, 4, 5, 6, 7] ++ idat ++ chunk gAMA (be32Bytes 2) ++ iend
    let r := runF toyCfg d0 s
    r.2.2 = none ∧ r.1.out = [7, 9] ∧
    r.1.info = some { width := 1, height := 1, depth := 8, color := 0, interlaced := false,
                      gama := some 45455, srgb := some 1, pixelDims := some (2835, 2836, 1),
                      text := [.tEXt [97, 98] [99, 100]], clli := some (1000, 400), exif := some [77, 77, 0, 42] } := by
  decide +kernel

/-- mDCV: red, green, blue, white in the chunk — white, red, green, blue (× 2) in `Info` -/
example :
    let body := [1, 2, 3, 4, 5, 6, 7, 8].flatMap be16Bytes ++ (be32Bytes 9 ++ be32Bytes 10)
    ((runF toyCfg d0 (sig ++ ihdr ++ chunk mDCV body)).1.info.bind (·.mdcv)) = some ([14, 16, 2, 4, 6, 8, 10, 12], 9, 10) := by
  decide +kernel

/-- tRNS for 8-bit grayscale keeps the low byte only; sBIT is charged to `Limits` even when it is then rejected as
    malformed (and ignored) -/
example :
    ((runF toyCfg d0 (sig ++ ihdr ++ chunk tRNS [1, 200])).1.info.bind (·.trns)) = some [200] ∧
    (runF toyCfg d0 (sig ++ ihdr ++ chunk sBIT [9])).2.2 = none ∧
    ((runF toyCfg d0 (sig ++ ihdr ++ chunk sBIT [9])).1.info.bind (·.sbit)) = none ∧
    (runF toyCfg d0 (sig ++ ihdr ++ chunk sBIT [9])).1.limit = d0.limit - 1 := by
  decide +kernel

/-- EMPTY bodies (parsed since f31d047): an empty gAMA, sRGB, tRNS, sBIT is a malformed benign chunk — ignored, nothing
    reported; an empty unknown chunk is ignored; an empty eXIf is the empty block; the image still decodes -/
example :
    let s := sig ++ ihdr ++ chunk gAMA [] ++ chunk sRGB [] ++ chunk tRNS [] ++ chunk sBIT [] ++ chunk tIME [] ++ chunk eXIf [] ++
      idat ++ iend
    let r := runF toyCfg d0 s
    r.2.2 = none ∧ r.1.out = [7, 9] ∧
    r.1.info = some { width := 1, height := 1, depth := 8, color := 0, interlaced := false, exif := some [] } := by
  decide +kernel

/-- a malformed text chunk is fatal -/
example : (runF toyCfg d0 (sig ++ ihdr ++ chunk tEXt [97, 98] ++ idat ++ iend)).2.2 =
    some (.format "MissingNullSeparator") := by
  decide +kernel

end examples

end Png.C16
