import PngVerif.Generated.KernelsReaderGeom
import PngVerif.Props.KernelsCommon
import PngVerif.Model.Transform
import PngVerif.Model.Framing
import PngVerif.Model.Reader
import PngVerif.Driver.Reader
import PngVerif.Proofs.KernelTactic
/-!
# Tie A, part 2 (translator): output geometry of `Reader` under a transformation and the byte ledger (`src/decoder/mod.rs`)

`Generated/KernelsReaderGeom.lean` is rewritten by `tools/rs2lean.py` from the Rust source on every run: `Info::size`,
`Reader::output_color_type`, `output_line_size`, `output_buffer_size`, `output_line_size_for_interlace_info`, `Limits::reserve_bytes`.

**How the model's transformation parameter corresponds to the translated parameters.**  `Transformations` is a `bitflags!` type; the
translator reads its declaration in `common.rs` and gives the kernel one `Bool` per single-bit constant, in declaration order
(`self_transform_STRIP_16`, `self_transform_EXPAND`, `self_transform_ALPHA`; `IDENTITY = 0` is the empty set).  `t == IDENTITY` is
"all three false", `t.contains(X)` / `t.intersects(X)` (X a single flag) is the Bool of X.  The model's `Transform.Flags` /
`Reader.Flags` `⟨expand, strip16, alpha⟩` is the same triple: `expand = t.contains(EXPAND)`, `strip16 = t.contains(STRIP_16)`,
`alpha = t.contains(ALPHA)` (`Transform.Flags.ofNat n`, the harness numbering 0..7, has bit 0 = EXPAND, bit 1 = STRIP_16, bit 2 = ALPHA).
A fourth flag added to the declaration changes the signature of the generated functions, so these theorems stop type-checking.
`info.color_type` / `info.bit_depth` are the discriminants (= the PNG bytes, `ColorType.toNat` / `BitDepth.toNat`), `info.trns.is_some()`
is a `Bool`, `self.info().size()` are the two `u32`s of `Info::size` (translated as well).

The theorems hold for ALL five colour types × five depths (not only the fifteen legal pairs), all eight flag sets, both values of
`trns.is_some()` and every `u32` width / height; `BitDepth::from_u8(bits).unwrap()` (a panic site) is shown never to panic (`_ok`).
-/
namespace Png.Kernels
open Png

/-- `Info::size` (common.rs:744) -/
theorem kernel_info_size (w h : Int) : Gen.Info_size w h = (w, h) ∧ Gen.Info_size_ok w h = true := ⟨rfl, rfl⟩

/-- the translated `output_color_type` on model values -/
def genOutColor (info : Transform.Info) (f : Transform.Flags) : Int × Int :=
  Gen.Reader_output_color_type f.strip16 f.expand f.alpha info.colorType.toNat info.bitDepth.toNat info.trns.isSome

def genOutColorOk (info : Transform.Info) (f : Transform.Flags) : Bool :=
  Gen.Reader_output_color_type_ok f.strip16 f.expand f.alpha info.colorType.toNat info.bitDepth.toNat info.trns.isSome

/-- `Reader::output_color_type` (mod.rs:613-647) = `Transform.outputColorType`, for every `Info` and every flag set; the
    `unwrap()` of `BitDepth::from_u8(bits)` is never reached with `None` -/
theorem kernel_output_color_type (info : Transform.Info) (f : Transform.Flags) :
    ∃ c d, Transform.outputColorType info f = .ok (c, d) ∧ genOutColor info f = ((c.toNat : Int), (d.toNat : Int)) ∧
      genOutColorOk info f = true := by
  rcases info with ⟨ct, bd, pal, trns⟩
  rcases f with ⟨e, s, a⟩
  cases ct <;> cases bd <;> cases e <;> cases s <;> cases a <;> cases trns <;> exact ⟨_, _, rfl, rfl, rfl⟩

/-- the model's `Reader` sees the transformation through `Driver.realT.outColorDepth` (bytes, for an `Info` with a legal colour
    type and depth byte) -/
theorem kernel_output_color_type_reader (i : Framing.Info) (f : Reader.Flags) (hc : colorOk i.color = true) (hd : depthOk i.depth = true) :
    let p := Driver.realT.outColorDepth i f
    Gen.Reader_output_color_type f.strip16 f.expand f.alpha i.color i.depth i.trns.isSome = ((p.1 : Int), (p.2 : Int)) ∧
    Gen.Reader_output_color_type_ok f.strip16 f.expand f.alpha i.color i.depth i.trns.isSome = true ∧
    colorOk p.1 = true ∧ depthOk p.2 = true := by
  have hc' : i.color = 0 ∨ i.color = 2 ∨ i.color = 3 ∨ i.color = 4 ∨ i.color = 6 := colorOk_cases hc
  have hd' : i.depth = 1 ∨ i.depth = 2 ∨ i.depth = 4 ∨ i.depth = 8 ∨ i.depth = 16 := depthOk_cases hd
  obtain ⟨ct, hct⟩ : ∃ ct, Transform.ColorType.ofNat? i.color = some ct := by
    rcases hc' with h | h | h | h | h <;> rw [h] <;> exact ⟨_, rfl⟩
  obtain ⟨bd, hbd⟩ : ∃ bd, Transform.BitDepth.ofNat? i.depth = some bd := by
    rcases hd' with h | h | h | h | h <;> rw [h] <;> exact ⟨_, rfl⟩
  have hcn : ct.toNat = i.color := by
    rcases hc' with h | h | h | h | h <;> rw [h] at hct ⊢ <;> cases hct <;> rfl
  have hdn : bd.toNat = i.depth := by
    rcases hd' with h | h | h | h | h <;> rw [h] at hbd ⊢ <;> cases hbd <;> rfl
  obtain ⟨c, d, hm, hg, hok⟩ := kernel_output_color_type
    { colorType := ct, bitDepth := bd, palette := i.palette, trns := i.trns } ⟨f.expand, f.strip16, f.alpha⟩
  have hp : Driver.realT.outColorDepth i f = (c.toNat, d.toNat) := by
    simp only [Driver.realT, Driver.tInfo, hct, hbd, Driver.tFlags]
    simp only [Option.bind_eq_bind, Option.bind_some]
    rw [hm]
  simp only [genOutColor, genOutColorOk, hcn, hdn] at hg hok
  rw [hp]
  refine ⟨hg, hok, ?_, ?_⟩
  · cases c <;> rfl
  · cases d <;> rfl

/-- the two row-length functions of the model agree (`Model/Basic.lean` on bytes, `Model/Transform.lean` on the enums) -/
theorem rawRowLength_toNat (c : Transform.ColorType) (d : Transform.BitDepth) (w : Nat) :
    Transform.rawRowLengthFromWidth c d w = rawRowLengthFromWidth c.toNat d.toNat w := by
  cases c <;> cases d <;> simp [Transform.rawRowLengthFromWidth, rawRowLengthFromWidth, Transform.ColorType.toNat,
    Transform.BitDepth.toNat, Transform.ColorType.samples, samplesOf]

theorem rawRowLength_pos (c d w : Nat) : 1 ≤ rawRowLengthFromWidth c d w := by
  unfold rawRowLengthFromWidth; dsimp only; omega

theorem rawRowLength_lt (c d w : Nat) (hc : colorOk c = true) (hd : depthOk d = true) (hw : w < 2 ^ 32) :
    rawRowLengthFromWidth c d w < 2 ^ 64 := by
  rcases colorOk_cases hc with h | h | h | h | h <;> subst h <;>
  rcases depthOk_cases hd with h | h | h | h | h <;> subst h <;>
  simp [rawRowLengthFromWidth, samplesOf] <;> (try split) <;> omega

/-- `output_line_size` in terms of the translated `output_color_type` and `raw_row_length_from_width` (both proved equal to the
    model elsewhere): what the body of the Rust function says, whatever its shape -/
theorem gen_line_size_eq (w : Int) (s e a : Bool) (c d : Int) (t : Bool) :
    Gen.Reader_output_line_size w s e a c d t =
      Gen.ColorType_raw_row_length_from_width (Gen.Reader_output_color_type s e a c d t).1 (Gen.Reader_output_color_type s e a c d t).2 w - 1 ∧
    (Gen.Reader_output_line_size_ok w s e a c d t = true ↔
      (Gen.Reader_output_color_type_ok s e a c d t = true ∧
       Gen.ColorType_raw_row_length_from_width_ok (Gen.Reader_output_color_type s e a c d t).1 (Gen.Reader_output_color_type s e a c d t).2 w = true ∧
       0 ≤ Gen.ColorType_raw_row_length_from_width (Gen.Reader_output_color_type s e a c d t).1 (Gen.Reader_output_color_type s e a c d t).2 w - 1 ∧
       Gen.ColorType_raw_row_length_from_width (Gen.Reader_output_color_type s e a c d t).1 (Gen.Reader_output_color_type s e a c d t).2 w - 1 ≤ 18446744073709551615)) := by
  refine ⟨by simp [Gen.Reader_output_line_size], ?_⟩
  unfold Gen.Reader_output_line_size_ok
  dsimp only
  simp only [Bool.and_eq_true, decide_eq_true_eq]
  try (constructor <;> intro h <;> simp_all)

/-- the translated `output_line_size` on model values -/
def genLineSize (info : Transform.Info) (f : Transform.Flags) (w : Nat) : Int :=
  Gen.Reader_output_line_size w f.strip16 f.expand f.alpha info.colorType.toNat info.bitDepth.toNat info.trns.isSome

def genLineSizeOk (info : Transform.Info) (f : Transform.Flags) (w : Nat) : Bool :=
  Gen.Reader_output_line_size_ok w f.strip16 f.expand f.alpha info.colorType.toNat info.bitDepth.toNat info.trns.isSome

/-- core: whenever the translated `output_color_type` answers the bytes `(c, d)` of a colour type and a depth, the translated
    `output_line_size` is the model's row length minus the filter byte, inside `usize` -/
theorem line_size_core (w : Nat) (s e a : Bool) (ci di : Int) (t : Bool) (c d : Nat) (hw : w < 2 ^ 32)
    (hg : Gen.Reader_output_color_type s e a ci di t = ((c : Int), (d : Int))) (hok : Gen.Reader_output_color_type_ok s e a ci di t = true)
    (hc : colorOk c = true) (hd : depthOk d = true) :
    Gen.Reader_output_line_size w s e a ci di t = ((rawRowLengthFromWidth c d w - 1 : Nat) : Int) ∧
    Gen.Reader_output_line_size_ok w s e a ci di t = true := by
  obtain ⟨h1, h2⟩ := gen_line_size_eq w s e a ci di t
  obtain ⟨hr, hrok⟩ := kernel_raw_row_length c d w hc hd hw
  have hpos := rawRowLength_pos c d w
  have hlt := rawRowLength_lt c d w hc hd hw
  rw [h1, h2, hg, hok]
  simp only [hr, hrok, true_and]
  omega

/-- `Reader::output_line_size` (mod.rs:656-659) = `Transform.outputLineSize` for every `u32` width; neither the row length nor the
    `- 1` leaves `usize` -/
theorem kernel_output_line_size (info : Transform.Info) (f : Transform.Flags) (w : Nat) (hw : w < 2 ^ 32) :
    ∃ n : Nat, Transform.outputLineSize info f w = .ok n ∧ genLineSize info f w = (n : Int) ∧ genLineSizeOk info f w = true := by
  obtain ⟨c, d, hm, hg, hok⟩ := kernel_output_color_type info f
  have hco : colorOk c.toNat = true := by cases c <;> rfl
  have hdo : depthOk d.toNat = true := by cases d <;> rfl
  obtain ⟨h1, h2⟩ := line_size_core w _ _ _ _ _ _ c.toNat d.toNat hw hg hok hco hdo
  refine ⟨Transform.rawRowLengthFromWidth c d w - 1, ?_, ?_, h2⟩
  · simp only [Transform.outputLineSize, hm]
  · rw [rawRowLength_toNat]; exact h1

/-- the `Reader` model's `outLineSize` (what `read_until_image_data` charges; the documented length of a row buffer) -/
theorem kernel_output_line_size_reader (i : Framing.Info) (f : Reader.Flags) (w : Nat) (hc : colorOk i.color = true) (hd : depthOk i.depth = true)
    (hw : w < 2 ^ 32) :
    Gen.Reader_output_line_size w f.strip16 f.expand f.alpha i.color i.depth i.trns.isSome = (Reader.outLineSize Driver.realT i f w : Nat) ∧
    Gen.Reader_output_line_size_ok w f.strip16 f.expand f.alpha i.color i.depth i.trns.isSome = true := by
  obtain ⟨hg, hok, hco, hdo⟩ := kernel_output_color_type_reader i f hc hd
  exact line_size_core w _ _ _ _ _ _ _ _ hw hg hok hco hdo

/-- `output_buffer_size` in terms of the translated `Info::size` and `output_line_size` -/
theorem gen_buffer_size_eq (s e a : Bool) (c d w h : Int) (t : Bool) :
    Gen.Reader_output_buffer_size s e a c d w h t = Gen.Reader_output_line_size w s e a c d t * h ∧
    (Gen.Reader_output_buffer_size_ok s e a c d w h t = true ↔
      (Gen.Reader_output_line_size_ok w s e a c d t = true ∧
       0 ≤ Gen.Reader_output_line_size w s e a c d t * h ∧ Gen.Reader_output_line_size w s e a c d t * h ≤ 18446744073709551615)) := by
  refine ⟨by simp [Gen.Reader_output_buffer_size, Gen.Info_size], ?_⟩
  unfold Gen.Reader_output_buffer_size_ok
  dsimp only [Gen.Info_size, Gen.Info_size_ok]
  simp only [Bool.and_eq_true, decide_eq_true_eq]
  try (constructor <;> intro h <;> simp_all)

/-- `Reader::output_buffer_size` (mod.rs:649-653) = `Transform.outputBufferSize`: the product `size * height as usize` is the one
    place that can overflow a 64-bit `usize`; the translated `_ok` is false exactly when the model answers `panic` -/
theorem kernel_output_buffer_size (info : Transform.Info) (f : Transform.Flags) (w h : Nat) (hw : w < 2 ^ 32) :
    let g := Gen.Reader_output_buffer_size f.strip16 f.expand f.alpha info.colorType.toNat info.bitDepth.toNat w h info.trns.isSome
    let ok := Gen.Reader_output_buffer_size_ok f.strip16 f.expand f.alpha info.colorType.toNat info.bitDepth.toNat w h info.trns.isSome
    (ok = true → ∃ n : Nat, Transform.outputBufferSize info f w h = .ok n ∧ g = (n : Int)) ∧
    (ok = false → Transform.outputBufferSize info f w h = .error .panic) := by
  obtain ⟨n, hm, hg, hok⟩ := kernel_output_line_size info f w hw
  obtain ⟨h1, h2⟩ := gen_buffer_size_eq f.strip16 f.expand f.alpha info.colorType.toNat info.bitDepth.toNat w h info.trns.isSome
  simp only [genLineSize, genLineSizeOk] at hg hok
  simp only [Bool.eq_false_iff, ne_eq, h1, h2, hg, hok, true_and, Transform.outputBufferSize, hm]
  have hnn : (0 : Int) ≤ (n : Int) * (h : Int) := Int.mul_nonneg (Int.natCast_nonneg n) (Int.natCast_nonneg h)
  have hcast : ((n * h : Nat) : Int) = (n : Int) * (h : Int) := by simp
  constructor
  · intro hle
    have : n * h < 2 ^ 64 := by omega
    exact ⟨n * h, by simp [this], hcast.symm⟩
  · intro hnle
    have : ¬ n * h < 2 ^ 64 := by omega
    simp [this]

/-- the `Reader` model's `frameInto` / `nextFrameOp` use the exact natural product `outLineSize * height` as the required buffer
    length: it is the translated value (which is the value the Rust function returns whenever `_ok` holds, see above) -/
theorem kernel_output_buffer_size_reader (i : Framing.Info) (f : Reader.Flags) (hc : colorOk i.color = true) (hd : depthOk i.depth = true)
    (hw : i.width < 2 ^ 32) :
    Gen.Reader_output_buffer_size f.strip16 f.expand f.alpha i.color i.depth i.width i.height i.trns.isSome =
      ((Reader.outLineSize Driver.realT i f i.width * i.height : Nat) : Int) := by
  obtain ⟨h1, _⟩ := gen_buffer_size_eq f.strip16 f.expand f.alpha i.color i.depth i.width i.height i.trns.isSome
  obtain ⟨hg, _⟩ := kernel_output_line_size_reader i f i.width hc hd hw
  rw [h1, hg]; simp

/-- `Reader::output_line_size_for_interlace_info` (mod.rs:559-565) = `Reader.lineSizeFor`: the translated function takes the
    `InterlaceInfo` as the index of its variant in the declaration (`Null` = 0, `Adam7` = 1) and the `width` of the `Adam7Info` -/
def iiTag : Reader.IInfo → Int
  | .null _ => 0
  | .adam7 _ _ _ => 1

def iiWidth : Reader.IInfo → Nat
  | .null _ => 0
  | .adam7 _ _ w => w

theorem kernel_line_size_for_interlace_info (r : Reader.R) (i : Framing.Info) (ii : Reader.IInfo) (hc : colorOk i.color = true)
    (hd : depthOk i.depth = true) (hsw : r.sub.width < 2 ^ 32) (hiw : iiWidth ii < 2 ^ 32) :
    Gen.Reader_output_line_size_for_interlace_info (iiTag ii) (iiWidth ii) r.flags.strip16 r.flags.expand r.flags.alpha r.sub.width
        i.color i.depth i.trns.isSome = (Reader.lineSizeFor Driver.realT r i ii : Nat) ∧
    Gen.Reader_output_line_size_for_interlace_info_ok (iiTag ii) (iiWidth ii) r.flags.strip16 r.flags.expand r.flags.alpha r.sub.width
        i.color i.depth i.trns.isSome = true := by
  cases ii with
  | null l =>
    have := kernel_output_line_size_reader i r.flags r.sub.width hc hd hsw
    simpa [Gen.Reader_output_line_size_for_interlace_info, Gen.Reader_output_line_size_for_interlace_info_ok, iiTag, Reader.lineSizeFor] using this
  | adam7 p l w =>
    have := kernel_output_line_size_reader i r.flags w hc hd hiw
    simpa [Gen.Reader_output_line_size_for_interlace_info, Gen.Reader_output_line_size_for_interlace_info_ok, iiTag, iiWidth, Reader.lineSizeFor] using this

/-- `Limits::reserve_bytes` (mod.rs:70-77) = `Framing.reserve` / `Reader.reserveBytes` on the decoder's budget: result 0 and the budget
    reduced, or result 1 (`LimitsExceeded`) and the budget unchanged; the subtraction cannot underflow -/
theorem kernel_reserve_bytes (d : Framing.Dec) (n : Nat) :
    Gen.Limits_reserve_bytes n d.limit =
      (match Framing.reserve d n with
       | .ok d' => ((0 : Int), (d'.limit : Int))
       | .error _ => (1, (d.limit : Int))) ∧
    (Framing.reserve d n = .error .limits ∨ ∃ d', Framing.reserve d n = .ok d' ∧ d' = { d with limit := d.limit - n }) ∧
    (d.limit < 2 ^ 64 → Gen.Limits_reserve_bytes_ok n d.limit = true) := by
  unfold Framing.reserve
  by_cases h : d.limit ≥ n
  · refine ⟨?_, Or.inr ⟨_, by simp [h], rfl⟩, fun hl => ?_⟩
    · simp only [h, if_true]
      have : Gen.Limits_reserve_bytes n d.limit = (0, (d.limit : Int) - n) := by
        simp [Gen.Limits_reserve_bytes]; omega
      rw [this]; simp; omega
    · simp [Gen.Limits_reserve_bytes_ok]; omega
  · refine ⟨?_, Or.inl (by simp [h]), fun hl => ?_⟩
    · simp only [h, if_false]
      simp [Gen.Limits_reserve_bytes]; omega
    · simp [Gen.Limits_reserve_bytes_ok]; omega

/-- the same ledger step in the `Reader` model -/
theorem kernel_reserve_bytes_reader (r : Reader.R) (n : Nat) :
    (Gen.Limits_reserve_bytes n r.dec.limit).1 = (match Reader.reserveBytes r n with | .ok _ => (0 : Int) | .error _ => 1) ∧
    (∀ r', Reader.reserveBytes r n = .ok r' → (Gen.Limits_reserve_bytes n r.dec.limit).2 = (r'.dec.limit : Int)) := by
  unfold Reader.reserveBytes
  by_cases h : r.dec.limit ≥ n
  · have : Gen.Limits_reserve_bytes n r.dec.limit = (0, (r.dec.limit : Int) - n) := by
      simp [Gen.Limits_reserve_bytes]; omega
    refine ⟨by simp [h, this], fun r' hr => ?_⟩
    simp only [h, if_true, Except.ok.injEq] at hr
    subst hr; rw [this]; simp; omega
  · have : Gen.Limits_reserve_bytes n r.dec.limit = (1, (r.dec.limit : Int)) := by
      simp [Gen.Limits_reserve_bytes]; omega
    refine ⟨by simp [h, this], fun r' hr => ?_⟩
    simp [h] at hr

/-- indexed 1-bit with EXPAND becomes RGB 8-bit: a row of 5 pixels takes 15 bytes; with a tRNS chunk, 20; 16-bit RGBA with STRIP_16
    halves; the ledger refuses 65 of 64 -/
example : Gen.Reader_output_color_type false true false 3 1 false = (2, 8) ∧ Gen.Reader_output_line_size 5 false true false 3 1 false = 15 ∧
    Gen.Reader_output_line_size 5 false true false 3 1 true = 20 ∧ Gen.Reader_output_color_type true false false 6 16 false = (6, 8) ∧
    Gen.Reader_output_buffer_size false false false 0 1 9 3 false = 6 ∧
    Gen.Reader_output_buffer_size_ok false false false 6 16 4294967295 4294967295 false = false ∧
    Gen.Limits_reserve_bytes 65 64 = (1, 64) ∧ Gen.Limits_reserve_bytes 60 64 = (0, 4) := by decide

end Png.Kernels
