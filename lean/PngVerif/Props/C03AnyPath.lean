import PngVerif.Proofs.RoundTripAnyAnim
import PngVerif.Proofs.RoundTripAnyAnimStream
import PngVerif.Props.C03AnimStream
/-!
# C03 — Encode then decode is lossless, under ANY call path and ANY delivery of the encoder's bytes

`Props/C03RoundTrip.lean`, `C03Anim.lean`, `C03AnimMeta.lean`, `C03AnimStream.lean` decode the bytes the encoder model leaves in
the sink with `read_info` and one `next_frame` per image, all bytes being visible when the `Decoder` is created.  This file
composes them with

* **C13** (`Props/C09AnyPath.lean`, `Png.AnyPath`): EVERY list of `next_frame`, `next_row` / `next_interlaced_row`, `read_row`,
  `next_frame_info` calls made from the reader `read_info` returns, the caller placing delivered rows into a frame buffer of
  `output_buffer_size()` bytes pre-filled with `p` (`asmRun`): no call fails with anything but `Parameter` (end of image),
  no row arrives for a completed frame (`problem = false`), and every frame the caller completes — recorded with its index
  `k` — is EXACTLY the bytes given to the encoder for image `k` (followed by the pre-fill, for a sub-frame of an
  animation): the `…_any_path` theorems;
* **C05** (`Props/C04Delivery.lean`, `Reader.delivery_from_start'`): `read_info` succeeds on ANY prefix of `v` bytes, the rest
  arrives under ANY growth schedule, the caller repeats every call that ran out of input (`resumeRun`): the results are a
  prefix of — and, if the schedule delivers the file, exactly — the images given to the encoder: the `…_any_delivery`
  theorems.

The bridge (`Proofs/RoundTripAny*.lean`): the encoder's bytes are a `wellFormedStill` / `wellFormedApng` / `Reader.apngFile`
byte stream whose inflated streams are legal for the header and whose specification pixels are the image bytes
(`fileBytes_stillChunks`, `animBytes_eq`, `animBytesMeta_eq`, `sAnimBytes_eq`; `rawOk_encode`, `specPixels_encode`,
`specFrame_encode`), so `AnyPath.C01_any_path_of` / `C09_any_path_of` (and their re-proofs for `acTL` behind other metadata,
`Proofs/RoundTripAnyGen.lean`) apply.

Hypotheses beyond those of the C03 theorems — all inherited from C13 / C05, none about the encoder:
* the file is shorter than 4 GiB (`h32`; the `Decoder` invariant of C13 / C05);
* any path: the contracts `t.Ok`, `t.SnapIndep` of C13 on the row transformation; any delivery: `t.ResumeOk` of C05.  The
  `…_real` theorems are the instances at `Driver.realT` (the transformation the executable model runs, no flags) and carry
  NO hypothesis about the transformation.  Theorems stated with `hap : AnyPathOk cfg t` hold in both cases
  (`Reader.anyPathOk_of_contracts`, `Reader.anyPathOk_real`).
DISCHARGED for the encoder's output (not hypotheses here): "no `acTL` chunk before the image data of a still image"
(`RoundTrip.noActl_meta`: `encode_header` of a configuration without animation writes none), `RawOk`, `FrameOk`, `FcOk`,
sequence numbers, the `AncChunksG` trace of the metadata chunks.

Every theorem takes the file as `file` with `hfile : file = …sink.bytes`, the sink of the C03 theorem of the same name.
-/
namespace Png.C03
open Png Png.Val Png.Enc Png.Framing Png.Reader Png.WellFormed Png.RoundTrip Png.AnyPath Png.Driver

/-! ## Still images: any call path -/

/-- **C03 on any call path.**  Under the hypotheses of `C03_encode_decode` (every still configuration the encoder accepts, ANY
    metadata, every `data` of `height` rows, every filter choice, every compressor the decoder's inflater inverts, the same CRC
    on both sides, every identity transformation, all decoder options, a limit covering one row and the metadata), the
    contracts `t.Ok` / `t.SnapIndep` of C13, and a file shorter than 4 GiB: for EVERY list `ops` of calls (`next_frame`,
    `next_row` / `next_interlaced_row`, `read_row` with any sufficient buffer, `next_frame_info`) made on the bytes
    `write_header`, `write_image_data(data)`, `finish` left in the sink, the caller placing delivered rows into a buffer of
    `output_buffer_size()` bytes pre-filled with `p`: no call fails with anything but `Parameter`, no row arrives for a
    completed frame (`problem = false`), and every frame the caller completes has index 0 and is EXACTLY `data`.
    (That the encoder writes no `acTL` — the extra hypothesis of `C01_any_path` — is proved from the encoder model.) -/
theorem C03_encode_decode_any_path (cfg : Framing.Cfg) (t : TCfg) (f : Flags) (opts : Options) (limit P : Nat)
    (compress : Bytes → Bytes) (choose : Bytes → Bytes → FilterType) (c : Enc.Cfg) (data : Bytes) (p : UInt8)
    (hI : cfg.InflateOk) (hcrc : ∀ b, cfg.crc b = crcOfList b) (ht : t.IsIdentity f) (hok : t.Ok) (hsi : t.SnapIndep)
    (hs : c.Still) (hm : MetaOk cfg opts.ignoreText P c)
    (hlen : data.length = c.rowLen * c.height) (hsz : c.rowLen * c.height < 2 ^ 64)
    (hnil : ∀ o, cfg.inflate [] ≠ some (o, true))
    (hinf : cfg.inflate (compress (rawOf choose c data)) = some (rawOf choose c data, true))
    (hlimit : c.rowLen + metaCost P c ≤ limit)
    (file : Bytes)
    (hfile : file =
      (runWriter (scanCodec compress choose) c {} [.image data] .finish).state.sink.bytes)
    (h32 : file.length < 2 ^ 32) (ops : List PathOp) :
    (asmRun cfg t (List.replicate (c.rowLen * c.height) p)
      (readerOf cfg t opts limit f file, Asm.init (List.replicate (c.rowLen * c.height) p)) ops).2.problem = false ∧
    ∀ k px, (k, px) ∈ (asmRun cfg t (List.replicate (c.rowLen * c.height) p)
      (readerOf cfg t opts limit f file, Asm.init (List.replicate (c.rowLen * c.height) p)) ops).2.frames →
      k = 0 ∧ px = data := by
  subst hfile
  obtain ⟨dA, hanc, hlim⟩ := header_accepted cfg opts limit P c c.rowLen hm hlimit
  exact anyPath_encoded_of cfg t (anyPathOk_of_contracts cfg hok hsi) f opts limit compress choose c data p dA hI hcrc ht hs
    hlen hsz
    hnil hinf hanc (noActl_meta cfg _ P c hm) hlim h32 ops

/-- **C03 on any call path, for the transformation the executable model runs** (`Driver.realT` = `Model/Transform.lean` with
    `Transformations::IDENTITY`): NO hypothesis on the row transformation is left -/
theorem C03_encode_decode_any_path_real (cfg : Framing.Cfg) (opts : Options) (limit P : Nat)
    (compress : Bytes → Bytes) (choose : Bytes → Bytes → FilterType) (c : Enc.Cfg) (data : Bytes) (p : UInt8)
    (hI : cfg.InflateOk) (hcrc : ∀ b, cfg.crc b = crcOfList b)
    (hs : c.Still) (hm : MetaOk cfg opts.ignoreText P c)
    (hlen : data.length = c.rowLen * c.height) (hsz : c.rowLen * c.height < 2 ^ 64)
    (hnil : ∀ o, cfg.inflate [] ≠ some (o, true))
    (hinf : cfg.inflate (compress (rawOf choose c data)) = some (rawOf choose c data, true))
    (hlimit : c.rowLen + metaCost P c ≤ limit)
    (file : Bytes)
    (hfile : file =
      (runWriter (scanCodec compress choose) c {} [.image data] .finish).state.sink.bytes)
    (h32 : file.length < 2 ^ 32) (ops : List PathOp) :
    (asmRun cfg realT (List.replicate (c.rowLen * c.height) p)
      (readerOf cfg realT opts limit {} file, Asm.init (List.replicate (c.rowLen * c.height) p)) ops).2.problem = false ∧
    ∀ k px, (k, px) ∈ (asmRun cfg realT (List.replicate (c.rowLen * c.height) p)
      (readerOf cfg realT opts limit {} file, Asm.init (List.replicate (c.rowLen * c.height) p)) ops).2.frames →
      k = 0 ∧ px = data := by
  subst hfile
  obtain ⟨dA, hanc, hlim⟩ := header_accepted cfg opts limit P c c.rowLen hm hlimit
  exact anyPath_encoded_of cfg realT (anyPathOk_real cfg) {} opts limit compress choose c data p dA hI hcrc realT_isIdentity hs
    hlen hsz
    hnil hinf hanc (noActl_meta cfg _ P c hm) hlim h32 ops

/-- **C03 on any call path, through an owned `StreamWriter`**: the bytes `write_header`, `into_stream_writer_with_size(size)`,
    `write_all` of ANY partition `ds` of `data`, `finish` leave (hypotheses of `C03_stream_encode_decode`), decoded by ANY
    list of path operations: `problem = false`, every completed frame has index 0 and is exactly `data` -/
theorem C03_stream_encode_decode_any_path (cfg : Framing.Cfg) (t : TCfg) (f : Flags) (opts : Options) (limit P : Nat)
    (E : Codec) (compress : Bytes → Bytes) (chooseZ : Bytes → Bytes → FilterType) (c : Enc.Cfg) (size : Nat) (ds : List Bytes)
    (data : Bytes) (p : UInt8)
    (hI : cfg.InflateOk) (hcrc : ∀ b, cfg.crc b = crcOfList b) (ht : t.IsIdentity f) (hok : t.Ok) (hsi : t.SnapIndep)
    (hs : c.Still) (hm : MetaOk cfg opts.ignoreText P c)
    (hds : ds.flatten = data) (hlen : data.length = c.rowLen * c.height) (hsz : c.rowLen * c.height < 2 ^ 64)
    (hnil : ∀ o, cfg.inflate [] ≠ some (o, true))
    (hinf : cfg.inflate (compress (rawOf (chooseFirst chooseZ) c data)) = some (rawOf (chooseFirst chooseZ) c data, true))
    (hlimit : c.rowLen + metaCost P c ≤ limit)
    (file : Bytes)
    (hfile : file =
      (runProg E (scanZ compress chooseZ) c {} [] (.intoStream size (ds.map .write) .finish)).state.sink.bytes)
    (h32 : file.length < 2 ^ 32) (ops : List PathOp) :
    (asmRun cfg t (List.replicate (c.rowLen * c.height) p)
      (readerOf cfg t opts limit f file, Asm.init (List.replicate (c.rowLen * c.height) p)) ops).2.problem = false ∧
    ∀ k px, (k, px) ∈ (asmRun cfg t (List.replicate (c.rowLen * c.height) p)
      (readerOf cfg t opts limit f file, Asm.init (List.replicate (c.rowLen * c.height) p)) ops).2.frames →
      k = 0 ∧ px = data := by
  subst hfile
  obtain ⟨dA, hanc, hlim⟩ := header_accepted cfg opts limit P c c.rowLen hm hlimit
  obtain ⟨w, s1, w1, zs, hdone⟩ := session_done (scanZ compress chooseZ) c hs true size ds data hds hlen hsz
  obtain ⟨_, _, hlog⟩ := stream_owned_log E (scanZ compress chooseZ) c size ds data hdone
  exact anyPath_streamLog_of cfg t (anyPathOk_of_contracts cfg hok hsi) f opts limit (chooseFirst chooseZ) c data zs _ _ p dA
    hI hcrc ht hs
    hlen hsz hlog (fun z hz => Nat.lt_of_le_of_lt (hdone.lens z hz) (by decide)) (sessionDone_stream_scanZ hdone) hnil hinf hanc
    (noActl_meta cfg _ P c hm) hlim h32 ops

/-- … for the transformation the executable model runs: no hypothesis on the row transformation -/
theorem C03_stream_encode_decode_any_path_real (cfg : Framing.Cfg) (opts : Options) (limit P : Nat)
    (E : Codec) (compress : Bytes → Bytes) (chooseZ : Bytes → Bytes → FilterType) (c : Enc.Cfg) (size : Nat) (ds : List Bytes)
    (data : Bytes) (p : UInt8)
    (hI : cfg.InflateOk) (hcrc : ∀ b, cfg.crc b = crcOfList b)
    (hs : c.Still) (hm : MetaOk cfg opts.ignoreText P c)
    (hds : ds.flatten = data) (hlen : data.length = c.rowLen * c.height) (hsz : c.rowLen * c.height < 2 ^ 64)
    (hnil : ∀ o, cfg.inflate [] ≠ some (o, true))
    (hinf : cfg.inflate (compress (rawOf (chooseFirst chooseZ) c data)) = some (rawOf (chooseFirst chooseZ) c data, true))
    (hlimit : c.rowLen + metaCost P c ≤ limit)
    (file : Bytes)
    (hfile : file =
      (runProg E (scanZ compress chooseZ) c {} [] (.intoStream size (ds.map .write) .finish)).state.sink.bytes)
    (h32 : file.length < 2 ^ 32) (ops : List PathOp) :
    (asmRun cfg realT (List.replicate (c.rowLen * c.height) p)
      (readerOf cfg realT opts limit {} file, Asm.init (List.replicate (c.rowLen * c.height) p)) ops).2.problem = false ∧
    ∀ k px, (k, px) ∈ (asmRun cfg realT (List.replicate (c.rowLen * c.height) p)
      (readerOf cfg realT opts limit {} file, Asm.init (List.replicate (c.rowLen * c.height) p)) ops).2.frames →
      k = 0 ∧ px = data := by
  subst hfile
  obtain ⟨dA, hanc, hlim⟩ := header_accepted cfg opts limit P c c.rowLen hm hlimit
  obtain ⟨w, s1, w1, zs, hdone⟩ := session_done (scanZ compress chooseZ) c hs true size ds data hds hlen hsz
  obtain ⟨_, _, hlog⟩ := stream_owned_log E (scanZ compress chooseZ) c size ds data hdone
  exact anyPath_streamLog_of cfg realT (anyPathOk_real cfg) {} opts limit (chooseFirst chooseZ) c data zs _ _ p dA hI hcrc
    realT_isIdentity hs
    hlen hsz hlog (fun z hz => Nat.lt_of_le_of_lt (hdone.lens z hz) (by decide)) (sessionDone_stream_scanZ hdone) hnil hinf hanc
    (noActl_meta cfg _ P c hm) hlim h32 ops

/-- **… through a borrowed `StreamWriter`** (`stream_writer_with_size`, the pieces `ds`, `finish`ed or dropped, then
    `Writer::finish`), for every transformation with `AnyPathOk` — i.e. under the contracts of C13
    (`Reader.anyPathOk_of_contracts`) and for `Driver.realT` (`Reader.anyPathOk_real`) -/
theorem C03_stream_borrowed_encode_decode_any_path (cfg : Framing.Cfg) (t : TCfg) (f : Flags) (opts : Options) (limit P : Nat)
    (E : Codec) (compress : Bytes → Bytes) (chooseZ : Bytes → Bytes → FilterType) (c : Enc.Cfg) (size : Nat) (ds : List Bytes)
    (fin : Final) (data : Bytes) (p : UInt8)
    (hap : AnyPathOk cfg t) (hI : cfg.InflateOk) (hcrc : ∀ b, cfg.crc b = crcOfList b) (ht : t.IsIdentity f)
    (hs : c.Still) (hm : MetaOk cfg opts.ignoreText P c)
    (hds : ds.flatten = data) (hlen : data.length = c.rowLen * c.height) (hsz : c.rowLen * c.height < 2 ^ 64)
    (hnil : ∀ o, cfg.inflate [] ≠ some (o, true))
    (hinf : cfg.inflate (compress (rawOf (chooseFirst chooseZ) c data)) = some (rawOf (chooseFirst chooseZ) c data, true))
    (hlimit : c.rowLen + metaCost P c ≤ limit)
    (file : Bytes)
    (hfile : file =
      (runProg E (scanZ compress chooseZ) c {} [.stream size (ds.map .write) fin] .finish).state.sink.bytes)
    (h32 : file.length < 2 ^ 32) (ops : List PathOp) :
    (asmRun cfg t (List.replicate (c.rowLen * c.height) p)
      (readerOf cfg t opts limit f file, Asm.init (List.replicate (c.rowLen * c.height) p)) ops).2.problem = false ∧
    ∀ k px, (k, px) ∈ (asmRun cfg t (List.replicate (c.rowLen * c.height) p)
      (readerOf cfg t opts limit f file, Asm.init (List.replicate (c.rowLen * c.height) p)) ops).2.frames →
      k = 0 ∧ px = data := by
  subst hfile
  obtain ⟨dA, hanc, hlim⟩ := header_accepted cfg opts limit P c c.rowLen hm hlimit
  obtain ⟨w, s1, w1, zs, hdone⟩ := session_done (scanZ compress chooseZ) c hs false size ds data hds hlen hsz
  obtain ⟨_, _, _, hlog⟩ := stream_borrowed_log E (scanZ compress chooseZ) c size ds data fin hdone
  exact anyPath_streamLog_of cfg t hap f opts limit (chooseFirst chooseZ) c data zs _ _ p dA hI hcrc ht hs
    hlen hsz hlog (fun z hz => Nat.lt_of_le_of_lt (hdone.lens z hz) (by decide)) (sessionDone_stream_scanZ hdone) hnil hinf hanc
    (noActl_meta cfg _ P c hm) hlim h32 ops

/-! ## Still images: any delivery -/

/-- **C03 under any delivery.**  Hypotheses of `C03_encode_decode`, the contract `t.ResumeOk` of C05 (`t.Ok` and `t.Stable` up to
    `Info`s no stream produces), a file shorter than 4 GiB.  The caller sees the first `v` bytes of the encoder's file — ANY `v`
    on which `read_info` succeeds —, then the file grows under ANY schedule `sched`, and `next_frame` is repeated whenever it
    ran out of input (`resumeRun`).  The caller has obtained nothing yet or EXACTLY the image given to `write_image_data`, with
    the configured geometry — never anything else; and if the schedule delivers the file, the image. -/
theorem C03_encode_decode_any_delivery (cfg : Framing.Cfg) (t : TCfg) (f : Flags) (opts : Options) (limit P : Nat)
    (compress : Bytes → Bytes) (choose : Bytes → Bytes → FilterType) (c : Enc.Cfg) (data : Bytes) (p : UInt8)
    (hI : cfg.InflateOk) (hcrc : ∀ b, cfg.crc b = crcOfList b) (ht : t.IsIdentity f) (hT : t.ResumeOk)
    (hs : c.Still) (hm : MetaOk cfg opts.ignoreText P c)
    (hlen : data.length = c.rowLen * c.height) (hsz : c.rowLen * c.height < 2 ^ 64)
    (hnil : ∀ o, cfg.inflate [] ≠ some (o, true))
    (hinf : cfg.inflate (compress (rawOf choose c data)) = some (rawOf choose c data, true))
    (hlimit : c.rowLen + metaCost P c ≤ limit)
    (file : Bytes)
    (hfile : file =
      (runWriter (scanCodec compress choose) c {} [.image data] .finish).state.sink.bytes)
    (h32 : file.length < 2 ^ 32)
    (v : Nat) (hvis : v ≤ file.length) (r0 : R)
    (hri : step cfg t (R.init opts limit f file v) .readInfo = (r0, .header)) (sched : List Nat) :
    (resumeRun cfg t file.length sched [.nextFrame p] r0 = [] ∨
     resumeRun cfg t file.length sched [.nextFrame p] r0 =
      [.frame { width := c.width, height := c.height, color := c.color, depth := c.depth, lineSize := c.rowLen } data]) ∧
    (file.length ≤ v + sched.sum →
      resumeRun cfg t file.length sched [.nextFrame p] r0 =
        [.frame { width := c.width, height := c.height, color := c.color, depth := c.depth, lineSize := c.rowLen } data]) := by
  subst hfile
  exact delivery_one_of_run cfg hI hT opts limit f _ h32 v hvis r0 hri (.nextFrame p) rfl sched _
    (C03_encode_decode cfg t f opts limit P compress choose c data p hI hcrc ht hs hm hlen hsz hnil hinf hlimit).2.2.2 rfl

/-- **C03 under any delivery, for the transformation the executable model runs**: no hypothesis on the row transformation -/
theorem C03_encode_decode_any_delivery_real (cfg : Framing.Cfg) (opts : Options) (limit P : Nat)
    (compress : Bytes → Bytes) (choose : Bytes → Bytes → FilterType) (c : Enc.Cfg) (data : Bytes) (p : UInt8)
    (hI : cfg.InflateOk) (hcrc : ∀ b, cfg.crc b = crcOfList b)
    (hs : c.Still) (hm : MetaOk cfg opts.ignoreText P c)
    (hlen : data.length = c.rowLen * c.height) (hsz : c.rowLen * c.height < 2 ^ 64)
    (hnil : ∀ o, cfg.inflate [] ≠ some (o, true))
    (hinf : cfg.inflate (compress (rawOf choose c data)) = some (rawOf choose c data, true))
    (hlimit : c.rowLen + metaCost P c ≤ limit)
    (file : Bytes)
    (hfile : file =
      (runWriter (scanCodec compress choose) c {} [.image data] .finish).state.sink.bytes)
    (h32 : file.length < 2 ^ 32)
    (v : Nat) (hvis : v ≤ file.length) (r0 : R)
    (hri : step cfg realT (R.init opts limit {} file v) .readInfo = (r0, .header)) (sched : List Nat) :
    (resumeRun cfg realT file.length sched [.nextFrame p] r0 = [] ∨
     resumeRun cfg realT file.length sched [.nextFrame p] r0 =
      [.frame { width := c.width, height := c.height, color := c.color, depth := c.depth, lineSize := c.rowLen } data]) ∧
    (file.length ≤ v + sched.sum →
      resumeRun cfg realT file.length sched [.nextFrame p] r0 =
        [.frame { width := c.width, height := c.height, color := c.color, depth := c.depth, lineSize := c.rowLen } data]) := by
  subst hfile
  exact delivery_one_of_run cfg hI realT_resumeOk opts limit {} _ h32 v hvis r0 hri (.nextFrame p) rfl sched _
    (C03_encode_decode cfg realT {} opts limit P compress choose c data p hI hcrc realT_isIdentity hs hm hlen hsz hnil hinf
      hlimit).2.2.2 rfl

/-- **C03 under any delivery, through an owned `StreamWriter`** (hypotheses of `C03_stream_encode_decode`) -/
theorem C03_stream_encode_decode_any_delivery (cfg : Framing.Cfg) (t : TCfg) (f : Flags) (opts : Options) (limit P : Nat)
    (E : Codec) (compress : Bytes → Bytes) (chooseZ : Bytes → Bytes → FilterType) (c : Enc.Cfg) (size : Nat) (ds : List Bytes)
    (data : Bytes) (p : UInt8)
    (hI : cfg.InflateOk) (hcrc : ∀ b, cfg.crc b = crcOfList b) (ht : t.IsIdentity f) (hT : t.ResumeOk)
    (hs : c.Still) (hm : MetaOk cfg opts.ignoreText P c)
    (hds : ds.flatten = data) (hlen : data.length = c.rowLen * c.height) (hsz : c.rowLen * c.height < 2 ^ 64)
    (hnil : ∀ o, cfg.inflate [] ≠ some (o, true))
    (hinf : cfg.inflate (compress (rawOf (chooseFirst chooseZ) c data)) = some (rawOf (chooseFirst chooseZ) c data, true))
    (hlimit : c.rowLen + metaCost P c ≤ limit)
    (file : Bytes)
    (hfile : file =
      (runProg E (scanZ compress chooseZ) c {} [] (.intoStream size (ds.map .write) .finish)).state.sink.bytes)
    (h32 : file.length < 2 ^ 32)
    (v : Nat) (hvis : v ≤ file.length) (r0 : R)
    (hri : step cfg t (R.init opts limit f file v) .readInfo = (r0, .header)) (sched : List Nat) :
    (resumeRun cfg t file.length sched [.nextFrame p] r0 = [] ∨
     resumeRun cfg t file.length sched [.nextFrame p] r0 =
      [.frame { width := c.width, height := c.height, color := c.color, depth := c.depth, lineSize := c.rowLen } data]) ∧
    (file.length ≤ v + sched.sum →
      resumeRun cfg t file.length sched [.nextFrame p] r0 =
        [.frame { width := c.width, height := c.height, color := c.color, depth := c.depth, lineSize := c.rowLen } data]) := by
  subst hfile
  exact delivery_one_of_run cfg hI hT opts limit f _ h32 v hvis r0 hri (.nextFrame p) rfl sched _
    (C03_stream_encode_decode cfg t f opts limit P E compress chooseZ c size ds data p hI hcrc ht hs hm hds hlen hsz hnil
    hinf hlimit).2.2 rfl

/-- … for the transformation the executable model runs -/
theorem C03_stream_encode_decode_any_delivery_real (cfg : Framing.Cfg) (opts : Options) (limit P : Nat)
    (E : Codec) (compress : Bytes → Bytes) (chooseZ : Bytes → Bytes → FilterType) (c : Enc.Cfg) (size : Nat) (ds : List Bytes)
    (data : Bytes) (p : UInt8)
    (hI : cfg.InflateOk) (hcrc : ∀ b, cfg.crc b = crcOfList b)
    (hs : c.Still) (hm : MetaOk cfg opts.ignoreText P c)
    (hds : ds.flatten = data) (hlen : data.length = c.rowLen * c.height) (hsz : c.rowLen * c.height < 2 ^ 64)
    (hnil : ∀ o, cfg.inflate [] ≠ some (o, true))
    (hinf : cfg.inflate (compress (rawOf (chooseFirst chooseZ) c data)) = some (rawOf (chooseFirst chooseZ) c data, true))
    (hlimit : c.rowLen + metaCost P c ≤ limit)
    (file : Bytes)
    (hfile : file =
      (runProg E (scanZ compress chooseZ) c {} [] (.intoStream size (ds.map .write) .finish)).state.sink.bytes)
    (h32 : file.length < 2 ^ 32)
    (v : Nat) (hvis : v ≤ file.length) (r0 : R)
    (hri : step cfg realT (R.init opts limit {} file v) .readInfo = (r0, .header)) (sched : List Nat) :
    (resumeRun cfg realT file.length sched [.nextFrame p] r0 = [] ∨
     resumeRun cfg realT file.length sched [.nextFrame p] r0 =
      [.frame { width := c.width, height := c.height, color := c.color, depth := c.depth, lineSize := c.rowLen } data]) ∧
    (file.length ≤ v + sched.sum →
      resumeRun cfg realT file.length sched [.nextFrame p] r0 =
        [.frame { width := c.width, height := c.height, color := c.color, depth := c.depth, lineSize := c.rowLen } data]) := by
  subst hfile
  exact delivery_one_of_run cfg hI realT_resumeOk opts limit {} _ h32 v hvis r0 hri (.nextFrame p) rfl sched _
    (C03_stream_encode_decode cfg realT {} opts limit P E compress chooseZ c size ds data p hI hcrc realT_isIdentity hs hm hds
      hlen hsz hnil
    hinf hlimit).2.2 rfl

/-- **… through a borrowed `StreamWriter`** (hypotheses of `C03_stream_borrowed_encode_decode`) -/
theorem C03_stream_borrowed_encode_decode_any_delivery (cfg : Framing.Cfg) (t : TCfg) (f : Flags) (opts : Options) (limit P : Nat)
    (E : Codec) (compress : Bytes → Bytes) (chooseZ : Bytes → Bytes → FilterType) (c : Enc.Cfg) (size : Nat) (ds : List Bytes)
    (fin : Final) (data : Bytes) (p : UInt8)
    (hI : cfg.InflateOk) (hcrc : ∀ b, cfg.crc b = crcOfList b) (ht : t.IsIdentity f) (hT : t.ResumeOk)
    (hs : c.Still) (hm : MetaOk cfg opts.ignoreText P c)
    (hds : ds.flatten = data) (hlen : data.length = c.rowLen * c.height) (hsz : c.rowLen * c.height < 2 ^ 64)
    (hnil : ∀ o, cfg.inflate [] ≠ some (o, true))
    (hinf : cfg.inflate (compress (rawOf (chooseFirst chooseZ) c data)) = some (rawOf (chooseFirst chooseZ) c data, true))
    (hlimit : c.rowLen + metaCost P c ≤ limit)
    (file : Bytes)
    (hfile : file =
      (runProg E (scanZ compress chooseZ) c {} [.stream size (ds.map .write) fin] .finish).state.sink.bytes)
    (h32 : file.length < 2 ^ 32)
    (v : Nat) (hvis : v ≤ file.length) (r0 : R)
    (hri : step cfg t (R.init opts limit f file v) .readInfo = (r0, .header)) (sched : List Nat) :
    (resumeRun cfg t file.length sched [.nextFrame p] r0 = [] ∨
     resumeRun cfg t file.length sched [.nextFrame p] r0 =
      [.frame { width := c.width, height := c.height, color := c.color, depth := c.depth, lineSize := c.rowLen } data]) ∧
    (file.length ≤ v + sched.sum →
      resumeRun cfg t file.length sched [.nextFrame p] r0 =
        [.frame { width := c.width, height := c.height, color := c.color, depth := c.depth, lineSize := c.rowLen } data]) := by
  subst hfile
  exact delivery_one_of_run cfg hI hT opts limit f _ h32 v hvis r0 hri (.nextFrame p) rfl sched _
    (C03_stream_borrowed_encode_decode cfg t f opts limit P E compress chooseZ c size ds fin data p hI hcrc ht hs hm hds hlen
    hsz hnil hinf hlimit).2.2.2 rfl

/-- **C03 row by row under any delivery**: the caller pulls the image with `next_row` (`height + 1` calls), repeating every call
    that ran out of input: the rows obtained are the FIRST rows of `data`, in order, each with `InterlaceInfo::Null(line)`
    (`rowResults 0 (rowsOfCfg c data)`), and under a schedule that delivers the file all `height` rows, then `None`;
    `rowsOfCfg c data` are the `height` rows of `rowLen` bytes that concatenate to `data` -/
theorem C03_encode_decode_rows_any_delivery (cfg : Framing.Cfg) (t : TCfg) (f : Flags) (opts : Options) (limit P : Nat)
    (compress : Bytes → Bytes) (choose : Bytes → Bytes → FilterType) (c : Enc.Cfg) (data : Bytes)
    (hI : cfg.InflateOk) (hcrc : ∀ b, cfg.crc b = crcOfList b) (ht : t.IsIdentity f) (hT : t.ResumeOk)
    (hs : c.Still) (hm : MetaOk cfg opts.ignoreText P c)
    (hlen : data.length = c.rowLen * c.height) (hsz : c.rowLen * c.height < 2 ^ 64)
    (hnil : ∀ o, cfg.inflate [] ≠ some (o, true))
    (hinf : cfg.inflate (compress (rawOf choose c data)) = some (rawOf choose c data, true))
    (hlimit : c.rowLen + metaCost P c ≤ limit)
    (file : Bytes) (hfile : file = (runWriter (scanCodec compress choose) c {} [.image data] .finish).state.sink.bytes)
    (h32 : file.length < 2 ^ 32)
    (v : Nat) (hvis : v ≤ file.length) (r0 : R)
    (hri : step cfg t (R.init opts limit f file v) .readInfo = (r0, .header)) (sched : List Nat) :
    resumeRun cfg t file.length sched (List.replicate (c.height + 1) .nextRow) r0 <+:
      rowResults 0 (rowsOfCfg c data) ++ [.noRow] ∧
    (file.length ≤ v + sched.sum →
      resumeRun cfg t file.length sched (List.replicate (c.height + 1) .nextRow) r0 =
        rowResults 0 (rowsOfCfg c data) ++ [.noRow]) ∧
    (rowsOfCfg c data).flatten = data ∧ (rowsOfCfg c data).length = c.height ∧
    ∀ r ∈ rowsOfCfg c data, r.length = c.rowLen := by
  subst hfile
  obtain ⟨h1, h2, h3, h4⟩ := C03_encode_decode_rows cfg t f opts limit P compress choose c data hI hcrc ht hs hm hlen hsz hnil
    hinf
    hlimit
  obtain ⟨d1, d2⟩ := delivery_of_run cfg hI hT opts limit f _ h32 v hvis r0 hri _ (isCall_nextRows _) sched _ h1
    (rowResults_good _ 0)
  exact ⟨d1, d2, h2, h3, h4⟩

/-! ## Animations: any call path -/

/-- **C03 for animations on any call path** (through `AnyPath.C09_any_path`).  Under the hypotheses of `C03_anim_encode_decode`
    (every animated configuration `write_header` accepts without a separate default image and without metadata in front of
    `acTL`; `n` frames, each with ANY frame-setter calls in front of its image; every filter choice; every compressor the
    inflater inverts; a limit covering one line per frame and the chunks behind `acTL`), the contracts `t.Ok` / `t.SnapIndep`
    of C13 and a file shorter than 4 GiB: for EVERY list `ops` of calls — rows of some frames, whole other frames, frames
    skipped before or after some of their rows — with a buffer of `output_buffer_size()` bytes pre-filled with `p` for every
    frame: `problem = false`, and every frame the caller completes, recorded with index `k`, is EXACTLY THE BYTES GIVEN TO
    `write_image_data` FOR IMAGE `k`, followed by the pre-fill (a sub-frame occupies the first `line_size × height` bytes of the
    buffer; the first frame fills it). -/
theorem C03_anim_encode_decode_any_path (cfg : Framing.Cfg) (t : TCfg) (f : Flags) (opts : Options) (limit : Nat)
    (compress : Bytes → Bytes) (choose : Bytes → Bytes → FilterType) (c : Enc.Cfg) (n plays : Nat) (f0 : FC)
    (fr0 : Frame) (frs : List Frame) (p : UInt8)
    (hI : cfg.InflateOk) (hcrc : ∀ b, cfg.crc b = crcOfList b) (ht : t.IsIdentity f) (hok : t.Ok) (hsi : t.SnapIndep)
    (hc : c.Anim n plays f0) (hsep : c.sepDefImg = false) (hmd : preChunks c.md = []) (hm : PostOk cfg opts.ignoreText c)
    (hn : n = frs.length + 1) (h0 : FirstOk c f0 fr0)
    (hl : LaterOk (scanCodec compress choose) c { fcOf c.width c.height f0 fr0.pre with seq := 1 } frs)
    (hsz : c.rowLen * c.height < 2 ^ 64)
    (hnil : ∀ o, cfg.inflate [] ≠ some (o, true))
    (hinf0 : cfg.inflate (compress (rawOf choose c fr0.data)) = some (rawOf choose c fr0.data, true))
    (hinf : ∀ x ∈ decFrames compress choose c { fcOf c.width c.height f0 fr0.pre with seq := 1 } frs,
      cfg.inflate (compress x.2.2) = some (x.2.2, true))
    (hlimit : c.rowLen + lineSum c (fcOf c.width c.height f0 fr0.pre) frs + postCost c ≤ limit)
    (file : Bytes)
    (hfile : file =
      (runWriter (scanCodec compress choose) c {} (animOps (fr0 :: frs)) .finish).state.sink.bytes)
    (h32 : file.length < 2 ^ 32) (ops : List PathOp) :
    (asmRun cfg t (List.replicate (c.rowLen * c.height) p)
      (readerOf cfg t opts limit f file, Asm.init (List.replicate (c.rowLen * c.height) p)) ops).2.problem = false ∧
    ∀ k px, (k, px) ∈ (asmRun cfg t (List.replicate (c.rowLen * c.height) p)
      (readerOf cfg t opts limit f file, Asm.init (List.replicate (c.rowLen * c.height) p)) ops).2.frames →
      ∃ fr, (fr0 :: frs)[k]? = some fr ∧
        px = fr.data ++ List.replicate (c.rowLen * c.height - fr.data.length) p := by
  subst hfile
  exact anyPath_anim_of cfg t (anyPathOk_of_contracts cfg hok hsi) f opts limit compress choose c n plays f0 fr0 frs p hI hcrc
    ht hc hsep hmd hm
    hn h0 hl hsz hnil hinf0 hinf hlimit h32 ops

/-- **C03 for animations on any call path, for the transformation the executable model runs**: no hypothesis on the row
    transformation -/
theorem C03_anim_encode_decode_any_path_real (cfg : Framing.Cfg) (opts : Options) (limit : Nat)
    (compress : Bytes → Bytes) (choose : Bytes → Bytes → FilterType) (c : Enc.Cfg) (n plays : Nat) (f0 : FC)
    (fr0 : Frame) (frs : List Frame) (p : UInt8)
    (hI : cfg.InflateOk) (hcrc : ∀ b, cfg.crc b = crcOfList b)
    (hc : c.Anim n plays f0) (hsep : c.sepDefImg = false) (hmd : preChunks c.md = []) (hm : PostOk cfg opts.ignoreText c)
    (hn : n = frs.length + 1) (h0 : FirstOk c f0 fr0)
    (hl : LaterOk (scanCodec compress choose) c { fcOf c.width c.height f0 fr0.pre with seq := 1 } frs)
    (hsz : c.rowLen * c.height < 2 ^ 64)
    (hnil : ∀ o, cfg.inflate [] ≠ some (o, true))
    (hinf0 : cfg.inflate (compress (rawOf choose c fr0.data)) = some (rawOf choose c fr0.data, true))
    (hinf : ∀ x ∈ decFrames compress choose c { fcOf c.width c.height f0 fr0.pre with seq := 1 } frs,
      cfg.inflate (compress x.2.2) = some (x.2.2, true))
    (hlimit : c.rowLen + lineSum c (fcOf c.width c.height f0 fr0.pre) frs + postCost c ≤ limit)
    (file : Bytes)
    (hfile : file =
      (runWriter (scanCodec compress choose) c {} (animOps (fr0 :: frs)) .finish).state.sink.bytes)
    (h32 : file.length < 2 ^ 32) (ops : List PathOp) :
    (asmRun cfg realT (List.replicate (c.rowLen * c.height) p)
      (readerOf cfg realT opts limit {} file, Asm.init (List.replicate (c.rowLen * c.height) p)) ops).2.problem = false ∧
    ∀ k px, (k, px) ∈ (asmRun cfg realT (List.replicate (c.rowLen * c.height) p)
      (readerOf cfg realT opts limit {} file, Asm.init (List.replicate (c.rowLen * c.height) p)) ops).2.frames →
      ∃ fr, (fr0 :: frs)[k]? = some fr ∧
        px = fr.data ++ List.replicate (c.rowLen * c.height - fr.data.length) p := by
  subst hfile
  exact anyPath_anim_of cfg realT (anyPathOk_real cfg) {} opts limit compress choose c n plays f0 fr0 frs p hI hcrc
    realT_isIdentity hc hsep hmd hm
    hn h0 hl hsz hnil hinf0 hinf hlimit h32 ops

/-- **… with a separate default image** (`sepDefImg`; through `AnyPath.C09_default_image_any_path`): index 0 is the default image,
    index `j + 1` the `j`-th frame of the animation; for every transformation with `AnyPathOk` (the contracts of C13:
    `Reader.anyPathOk_of_contracts`; `Driver.realT`: `Reader.anyPathOk_real`) -/
theorem C03_anim_default_encode_decode_any_path (cfg : Framing.Cfg) (t : TCfg) (f : Flags) (opts : Options) (limit : Nat)
    (compress : Bytes → Bytes) (choose : Bytes → Bytes → FilterType) (c : Enc.Cfg) (n plays : Nat) (f0 : FC)
    (fr0 : Frame) (frs : List Frame) (p : UInt8)
    (hap : AnyPathOk cfg t) (hI : cfg.InflateOk) (hcrc : ∀ b, cfg.crc b = crcOfList b) (ht : t.IsIdentity f)
    (hc : c.Anim n plays f0) (hsep : c.sepDefImg = true) (hmd : preChunks c.md = []) (hm : PostOk cfg opts.ignoreText c)
    (hn : n = frs.length) (h0 : FirstOk c f0 fr0)
    (hl : LaterOk (scanCodec compress choose) c (fcOf c.width c.height f0 fr0.pre) frs)
    (hsz : c.rowLen * c.height < 2 ^ 64)
    (hnil : ∀ o, cfg.inflate [] ≠ some (o, true))
    (hinf0 : cfg.inflate (compress (rawOf choose c fr0.data)) = some (rawOf choose c fr0.data, true))
    (hinf : ∀ x ∈ decFrames compress choose c (fcOf c.width c.height f0 fr0.pre) frs,
      cfg.inflate (compress x.2.2) = some (x.2.2, true))
    (hlimit : c.rowLen + lineSum c (fcOf c.width c.height f0 fr0.pre) frs + postCost c ≤ limit)
    (file : Bytes)
    (hfile : file =
      (runWriter (scanCodec compress choose) c {} (animOps (fr0 :: frs)) .finish).state.sink.bytes)
    (h32 : file.length < 2 ^ 32) (ops : List PathOp) :
    (asmRun cfg t (List.replicate (c.rowLen * c.height) p)
      (readerOf cfg t opts limit f file, Asm.init (List.replicate (c.rowLen * c.height) p)) ops).2.problem = false ∧
    ∀ k px, (k, px) ∈ (asmRun cfg t (List.replicate (c.rowLen * c.height) p)
      (readerOf cfg t opts limit f file, Asm.init (List.replicate (c.rowLen * c.height) p)) ops).2.frames →
      ∃ fr, (fr0 :: frs)[k]? = some fr ∧
        px = fr.data ++ List.replicate (c.rowLen * c.height - fr.data.length) p := by
  subst hfile
  exact anyPath_anim_default_of cfg t hap f opts limit compress choose c n plays f0 fr0 frs p hI hcrc ht hc hsep hmd hm
    hn h0 hl hsz hnil hinf0 hinf hlimit h32 ops

/-- **C03 for animations on any call path, ANY metadata** (hypotheses of `C03_anim_meta_encode_decode`: `pHYs`, `sRGB`, `gAMA`,
    `cHRM`, `iCCP`, `eXIf` in front of `acTL`; `PLTE`, `tRNS`, text chunks behind it) — the composition with C13 re-proved for
    this layout (`AnyPath.C09_any_path_gen_of`) -/
theorem C03_anim_meta_encode_decode_any_path (cfg : Framing.Cfg) (t : TCfg) (f : Flags) (opts : Options) (limit P : Nat)
    (compress : Bytes → Bytes) (choose : Bytes → Bytes → FilterType) (c : Enc.Cfg) (n plays : Nat) (f0 : FC)
    (fr0 : Frame) (frs : List Frame) (p : UInt8)
    (hI : cfg.InflateOk) (hcrc : ∀ b, cfg.crc b = crcOfList b) (ht : t.IsIdentity f) (hok : t.Ok) (hsi : t.SnapIndep)
    (hc : c.Anim n plays f0) (hsep : c.sepDefImg = false) (hm : MetaOk cfg opts.ignoreText P c)
    (hn : n = frs.length + 1) (h0 : FirstOk c f0 fr0)
    (hl : LaterOk (scanCodec compress choose) c { fcOf c.width c.height f0 fr0.pre with seq := 1 } frs)
    (hsz : c.rowLen * c.height < 2 ^ 64)
    (hnil : ∀ o, cfg.inflate [] ≠ some (o, true))
    (hinf0 : cfg.inflate (compress (rawOf choose c fr0.data)) = some (rawOf choose c fr0.data, true))
    (hinf : ∀ x ∈ decFrames compress choose c { fcOf c.width c.height f0 fr0.pre with seq := 1 } frs,
      cfg.inflate (compress x.2.2) = some (x.2.2, true))
    (hlimit : c.rowLen + lineSum c (fcOf c.width c.height f0 fr0.pre) frs + metaCost P c ≤ limit)
    (file : Bytes)
    (hfile : file =
      (runWriter (scanCodec compress choose) c {} (animOps (fr0 :: frs)) .finish).state.sink.bytes)
    (h32 : file.length < 2 ^ 32) (ops : List PathOp) :
    (asmRun cfg t (List.replicate (c.rowLen * c.height) p)
      (readerOf cfg t opts limit f file, Asm.init (List.replicate (c.rowLen * c.height) p)) ops).2.problem = false ∧
    ∀ k px, (k, px) ∈ (asmRun cfg t (List.replicate (c.rowLen * c.height) p)
      (readerOf cfg t opts limit f file, Asm.init (List.replicate (c.rowLen * c.height) p)) ops).2.frames →
      ∃ fr, (fr0 :: frs)[k]? = some fr ∧
        px = fr.data ++ List.replicate (c.rowLen * c.height - fr.data.length) p := by
  subst hfile
  exact anyPath_anim_meta_of cfg t (anyPathOk_of_contracts cfg hok hsi) f opts limit P compress choose c n plays f0 fr0 frs p
    hI hcrc ht hc hsep hm
    hn h0 hl hsz hnil hinf0 hinf hlimit h32 ops

/-- … for the transformation the executable model runs: no hypothesis on the row transformation -/
theorem C03_anim_meta_encode_decode_any_path_real (cfg : Framing.Cfg) (opts : Options) (limit P : Nat)
    (compress : Bytes → Bytes) (choose : Bytes → Bytes → FilterType) (c : Enc.Cfg) (n plays : Nat) (f0 : FC)
    (fr0 : Frame) (frs : List Frame) (p : UInt8)
    (hI : cfg.InflateOk) (hcrc : ∀ b, cfg.crc b = crcOfList b)
    (hc : c.Anim n plays f0) (hsep : c.sepDefImg = false) (hm : MetaOk cfg opts.ignoreText P c)
    (hn : n = frs.length + 1) (h0 : FirstOk c f0 fr0)
    (hl : LaterOk (scanCodec compress choose) c { fcOf c.width c.height f0 fr0.pre with seq := 1 } frs)
    (hsz : c.rowLen * c.height < 2 ^ 64)
    (hnil : ∀ o, cfg.inflate [] ≠ some (o, true))
    (hinf0 : cfg.inflate (compress (rawOf choose c fr0.data)) = some (rawOf choose c fr0.data, true))
    (hinf : ∀ x ∈ decFrames compress choose c { fcOf c.width c.height f0 fr0.pre with seq := 1 } frs,
      cfg.inflate (compress x.2.2) = some (x.2.2, true))
    (hlimit : c.rowLen + lineSum c (fcOf c.width c.height f0 fr0.pre) frs + metaCost P c ≤ limit)
    (file : Bytes)
    (hfile : file =
      (runWriter (scanCodec compress choose) c {} (animOps (fr0 :: frs)) .finish).state.sink.bytes)
    (h32 : file.length < 2 ^ 32) (ops : List PathOp) :
    (asmRun cfg realT (List.replicate (c.rowLen * c.height) p)
      (readerOf cfg realT opts limit {} file, Asm.init (List.replicate (c.rowLen * c.height) p)) ops).2.problem = false ∧
    ∀ k px, (k, px) ∈ (asmRun cfg realT (List.replicate (c.rowLen * c.height) p)
      (readerOf cfg realT opts limit {} file, Asm.init (List.replicate (c.rowLen * c.height) p)) ops).2.frames →
      ∃ fr, (fr0 :: frs)[k]? = some fr ∧
        px = fr.data ++ List.replicate (c.rowLen * c.height - fr.data.length) p := by
  subst hfile
  exact anyPath_anim_meta_of cfg realT (anyPathOk_real cfg) {} opts limit P compress choose c n plays f0 fr0 frs p hI hcrc
    realT_isIdentity hc hsep hm
    hn h0 hl hsz hnil hinf0 hinf hlimit h32 ops

/-- **… with a separate default image, any metadata**, for every transformation with `AnyPathOk` -/
theorem C03_anim_default_meta_encode_decode_any_path (cfg : Framing.Cfg) (t : TCfg) (f : Flags) (opts : Options) (limit P : Nat)
    (compress : Bytes → Bytes) (choose : Bytes → Bytes → FilterType) (c : Enc.Cfg) (n plays : Nat) (f0 : FC)
    (fr0 : Frame) (frs : List Frame) (p : UInt8)
    (hap : AnyPathOk cfg t) (hI : cfg.InflateOk) (hcrc : ∀ b, cfg.crc b = crcOfList b) (ht : t.IsIdentity f)
    (hc : c.Anim n plays f0) (hsep : c.sepDefImg = true) (hm : MetaOk cfg opts.ignoreText P c)
    (hn : n = frs.length) (h0 : FirstOk c f0 fr0)
    (hl : LaterOk (scanCodec compress choose) c (fcOf c.width c.height f0 fr0.pre) frs)
    (hsz : c.rowLen * c.height < 2 ^ 64)
    (hnil : ∀ o, cfg.inflate [] ≠ some (o, true))
    (hinf0 : cfg.inflate (compress (rawOf choose c fr0.data)) = some (rawOf choose c fr0.data, true))
    (hinf : ∀ x ∈ decFrames compress choose c (fcOf c.width c.height f0 fr0.pre) frs,
      cfg.inflate (compress x.2.2) = some (x.2.2, true))
    (hlimit : c.rowLen + lineSum c (fcOf c.width c.height f0 fr0.pre) frs + metaCost P c ≤ limit)
    (file : Bytes)
    (hfile : file =
      (runWriter (scanCodec compress choose) c {} (animOps (fr0 :: frs)) .finish).state.sink.bytes)
    (h32 : file.length < 2 ^ 32) (ops : List PathOp) :
    (asmRun cfg t (List.replicate (c.rowLen * c.height) p)
      (readerOf cfg t opts limit f file, Asm.init (List.replicate (c.rowLen * c.height) p)) ops).2.problem = false ∧
    ∀ k px, (k, px) ∈ (asmRun cfg t (List.replicate (c.rowLen * c.height) p)
      (readerOf cfg t opts limit f file, Asm.init (List.replicate (c.rowLen * c.height) p)) ops).2.frames →
      ∃ fr, (fr0 :: frs)[k]? = some fr ∧
        px = fr.data ++ List.replicate (c.rowLen * c.height - fr.data.length) p := by
  subst hfile
  exact anyPath_anim_default_meta_of cfg t hap f opts limit P compress choose c n plays f0 fr0 frs p hI hcrc ht hc hsep hm
    hn h0 hl hsz hnil hinf0 hinf hlimit h32 ops

/-- **C03 for animations written through ONE owned `StreamWriter`, on any call path** (hypotheses of
    `C03_anim_stream_encode_decode`: any metadata, any buffer size, every frame's bytes in any partition into `write_all` calls):
    every completed frame with index `k` is exactly the bytes written for frame `k`, followed by the pre-fill -/
theorem C03_anim_stream_encode_decode_any_path (cfg : Framing.Cfg) (t : TCfg) (f : Flags) (opts : Options) (limit P : Nat)
    (E : Codec) (compress : Bytes → Bytes) (chooseZ : Bytes → Bytes → FilterType) (c : Enc.Cfg) (n plays : Nat) (f0 : FC) (size
      : Nat)
    (fr0 : SFrame) (frs : List SFrame) (p : UInt8)
    (hI : cfg.InflateOk) (hcrc : ∀ b, cfg.crc b = crcOfList b) (ht : t.IsIdentity f) (hok : t.Ok) (hsi : t.SnapIndep)
    (hc : c.Anim n plays f0) (hsep : c.sepDefImg = false) (hm : MetaOk cfg opts.ignoreText P c)
    (hcov : f0.x = 0 ∧ f0.y = 0 ∧ f0.w = c.width ∧ f0.h = c.height)
    (hn : n = frs.length + 1) (hpre0 : ∀ o ∈ fr0.pre, o.inRange)
    (hlen0 : fr0.pieces.flatten.length = c.rowLen * c.height)
    (hl : SLaterOk c (fcOfS c.width c.height f0 fr0.pre) frs) (hsz : c.rowLen * c.height < 2 ^ 64)
    (hbud : 1 + sBudget compress chooseZ c (fcOfS c.width c.height f0 fr0.pre) frs < 2 ^ 32)
    (hnil : ∀ o, cfg.inflate [] ≠ some (o, true))
    (hinf0 : cfg.inflate (compress (rawOf (chooseFirst chooseZ) c fr0.pieces.flatten)) =
      some (rawOf (chooseFirst chooseZ) c fr0.pieces.flatten, true))
    (hinf : ∀ raw ∈ sRaws chooseZ c (fcOfS c.width c.height f0 fr0.pre) frs, cfg.inflate (compress raw) = some (raw, true))
    (hlimit : c.rowLen + sLineSum c (fcOfS c.width c.height f0 fr0.pre) frs + metaCost P c ≤ limit)
    (file : Bytes)
    (hfile : file =
      (runProg E (scanZ compress chooseZ) c {} [] (.intoStream size (sOps (fr0 :: frs)) .finish)).state.sink.bytes)
    (h32 : file.length < 2 ^ 32) (ops : List PathOp) :
    (asmRun cfg t (List.replicate (c.rowLen * c.height) p)
      (readerOf cfg t opts limit f file, Asm.init (List.replicate (c.rowLen * c.height) p)) ops).2.problem = false ∧
    ∀ k px, (k, px) ∈ (asmRun cfg t (List.replicate (c.rowLen * c.height) p)
      (readerOf cfg t opts limit f file, Asm.init (List.replicate (c.rowLen * c.height) p)) ops).2.frames →
      ∃ fr, (fr0 :: frs)[k]? = some fr ∧
        px = fr.pieces.flatten ++ List.replicate (c.rowLen * c.height - fr.pieces.flatten.length) p := by
  subst hfile
  exact anyPath_anim_stream_of cfg t (anyPathOk_of_contracts cfg hok hsi) f opts limit P E compress chooseZ c n plays f0 size
    fr0 frs p hI hcrc ht hc hsep
    hm hcov hn hpre0 hlen0 hl hsz hbud hnil hinf0 hinf hlimit h32 ops

/-- … for the transformation the executable model runs: no hypothesis on the row transformation -/
theorem C03_anim_stream_encode_decode_any_path_real (cfg : Framing.Cfg) (opts : Options) (limit P : Nat)
    (E : Codec) (compress : Bytes → Bytes) (chooseZ : Bytes → Bytes → FilterType) (c : Enc.Cfg) (n plays : Nat) (f0 : FC) (size
      : Nat)
    (fr0 : SFrame) (frs : List SFrame) (p : UInt8)
    (hI : cfg.InflateOk) (hcrc : ∀ b, cfg.crc b = crcOfList b)
    (hc : c.Anim n plays f0) (hsep : c.sepDefImg = false) (hm : MetaOk cfg opts.ignoreText P c)
    (hcov : f0.x = 0 ∧ f0.y = 0 ∧ f0.w = c.width ∧ f0.h = c.height)
    (hn : n = frs.length + 1) (hpre0 : ∀ o ∈ fr0.pre, o.inRange)
    (hlen0 : fr0.pieces.flatten.length = c.rowLen * c.height)
    (hl : SLaterOk c (fcOfS c.width c.height f0 fr0.pre) frs) (hsz : c.rowLen * c.height < 2 ^ 64)
    (hbud : 1 + sBudget compress chooseZ c (fcOfS c.width c.height f0 fr0.pre) frs < 2 ^ 32)
    (hnil : ∀ o, cfg.inflate [] ≠ some (o, true))
    (hinf0 : cfg.inflate (compress (rawOf (chooseFirst chooseZ) c fr0.pieces.flatten)) =
      some (rawOf (chooseFirst chooseZ) c fr0.pieces.flatten, true))
    (hinf : ∀ raw ∈ sRaws chooseZ c (fcOfS c.width c.height f0 fr0.pre) frs, cfg.inflate (compress raw) = some (raw, true))
    (hlimit : c.rowLen + sLineSum c (fcOfS c.width c.height f0 fr0.pre) frs + metaCost P c ≤ limit)
    (file : Bytes)
    (hfile : file =
      (runProg E (scanZ compress chooseZ) c {} [] (.intoStream size (sOps (fr0 :: frs)) .finish)).state.sink.bytes)
    (h32 : file.length < 2 ^ 32) (ops : List PathOp) :
    (asmRun cfg realT (List.replicate (c.rowLen * c.height) p)
      (readerOf cfg realT opts limit {} file, Asm.init (List.replicate (c.rowLen * c.height) p)) ops).2.problem = false ∧
    ∀ k px, (k, px) ∈ (asmRun cfg realT (List.replicate (c.rowLen * c.height) p)
      (readerOf cfg realT opts limit {} file, Asm.init (List.replicate (c.rowLen * c.height) p)) ops).2.frames →
      ∃ fr, (fr0 :: frs)[k]? = some fr ∧
        px = fr.pieces.flatten ++ List.replicate (c.rowLen * c.height - fr.pieces.flatten.length) p := by
  subst hfile
  exact anyPath_anim_stream_of cfg realT (anyPathOk_real cfg) {} opts limit P E compress chooseZ c n plays f0 size fr0 frs p hI
    hcrc realT_isIdentity hc hsep
    hm hcov hn hpre0 hlen0 hl hsz hbud hnil hinf0 hinf hlimit h32 ops

/-- **… with a separate default image**, for every transformation with `AnyPathOk` -/
theorem C03_anim_default_stream_encode_decode_any_path (cfg : Framing.Cfg) (t : TCfg) (f : Flags) (opts : Options) (limit P : Nat)
    (E : Codec) (compress : Bytes → Bytes) (chooseZ : Bytes → Bytes → FilterType) (c : Enc.Cfg) (n plays : Nat) (f0 : FC) (size
      : Nat)
    (fr0 : SFrame) (frs : List SFrame) (p : UInt8)
    (hap : AnyPathOk cfg t) (hI : cfg.InflateOk) (hcrc : ∀ b, cfg.crc b = crcOfList b) (ht : t.IsIdentity f)
    (hc : c.Anim n plays f0) (hsep : c.sepDefImg = true) (hm : MetaOk cfg opts.ignoreText P c)
    (hcov : f0.x = 0 ∧ f0.y = 0 ∧ f0.w = c.width ∧ f0.h = c.height)
    (hn : n = frs.length) (hpre0 : ∀ o ∈ fr0.pre, o.inRange)
    (hlen0 : fr0.pieces.flatten.length = c.rowLen * c.height)
    (hl : SLaterOk c (fcOfS c.width c.height f0 fr0.pre) frs) (hsz : c.rowLen * c.height < 2 ^ 64)
    (hbud : sBudget compress chooseZ c (fcOfS c.width c.height f0 fr0.pre) frs < 2 ^ 32)
    (hnil : ∀ o, cfg.inflate [] ≠ some (o, true))
    (hinf0 : cfg.inflate (compress (rawOf (chooseFirst chooseZ) c fr0.pieces.flatten)) =
      some (rawOf (chooseFirst chooseZ) c fr0.pieces.flatten, true))
    (hinf : ∀ raw ∈ sRaws chooseZ c (fcOfS c.width c.height f0 fr0.pre) frs, cfg.inflate (compress raw) = some (raw, true))
    (hlimit : c.rowLen + sLineSum c (fcOfS c.width c.height f0 fr0.pre) frs + metaCost P c ≤ limit)
    (file : Bytes)
    (hfile : file =
      (runProg E (scanZ compress chooseZ) c {} [] (.intoStream size (sOps (fr0 :: frs)) .finish)).state.sink.bytes)
    (h32 : file.length < 2 ^ 32) (ops : List PathOp) :
    (asmRun cfg t (List.replicate (c.rowLen * c.height) p)
      (readerOf cfg t opts limit f file, Asm.init (List.replicate (c.rowLen * c.height) p)) ops).2.problem = false ∧
    ∀ k px, (k, px) ∈ (asmRun cfg t (List.replicate (c.rowLen * c.height) p)
      (readerOf cfg t opts limit f file, Asm.init (List.replicate (c.rowLen * c.height) p)) ops).2.frames →
      ∃ fr, (fr0 :: frs)[k]? = some fr ∧
        px = fr.pieces.flatten ++ List.replicate (c.rowLen * c.height - fr.pieces.flatten.length) p := by
  subst hfile
  exact anyPath_anim_default_stream_of cfg t hap f opts limit P E compress chooseZ c n plays f0 size fr0 frs p hI hcrc ht hc hsep
    hm hcov hn hpre0 hlen0 hl hsz hbud hnil hinf0 hinf hlimit h32 ops

/-! ## Animations: any delivery -/

/-- **C03 for animations under any delivery.**  Hypotheses of `C03_anim_encode_decode`, the contract `t.ResumeOk` of C05, a file
    shorter than 4 GiB; `read_info` succeeds on the first `v` bytes, the rest arrives under ANY schedule; the caller asks for
    the frames one after the other (pre-fill `p0`, then `ps`), repeating every call that ran out of input.  The results
    obtained are the FIRST of: frame 0 with the canvas geometry and exactly `fr0.data`, then every later frame with the geometry
    of its frame control and exactly its data followed by the pre-fill (`frameResults`) — every frame handed out is the right
    one; and under a schedule that delivers the file, all of them. -/
theorem C03_anim_encode_decode_any_delivery (cfg : Framing.Cfg) (t : TCfg) (f : Flags) (opts : Options) (limit : Nat)
    (compress : Bytes → Bytes) (choose : Bytes → Bytes → FilterType) (c : Enc.Cfg) (n plays : Nat) (f0 : FC)
    (fr0 : Frame) (frs : List Frame) (p0 : UInt8) (ps : List UInt8)
    (hI : cfg.InflateOk) (hcrc : ∀ b, cfg.crc b = crcOfList b) (ht : t.IsIdentity f) (hT : t.ResumeOk)
    (hc : c.Anim n plays f0) (hsep : c.sepDefImg = false) (hmd : preChunks c.md = []) (hm : PostOk cfg opts.ignoreText c)
    (hn : n = frs.length + 1) (h0 : FirstOk c f0 fr0)
    (hl : LaterOk (scanCodec compress choose) c { fcOf c.width c.height f0 fr0.pre with seq := 1 } frs)
    (hsz : c.rowLen * c.height < 2 ^ 64)
    (hnil : ∀ o, cfg.inflate [] ≠ some (o, true))
    (hinf0 : cfg.inflate (compress (rawOf choose c fr0.data)) = some (rawOf choose c fr0.data, true))
    (hinf : ∀ x ∈ decFrames compress choose c { fcOf c.width c.height f0 fr0.pre with seq := 1 } frs,
      cfg.inflate (compress x.2.2) = some (x.2.2, true))
    (hlimit : c.rowLen + lineSum c (fcOf c.width c.height f0 fr0.pre) frs + postCost c ≤ limit)
    (hps : ps.length = frs.length)
    (file : Bytes)
    (hfile : file =
      (runWriter (scanCodec compress choose) c {} (animOps (fr0 :: frs)) .finish).state.sink.bytes)
    (h32 : file.length < 2 ^ 32)
    (v : Nat) (hvis : v ≤ file.length) (r0 : R)
    (hri : step cfg t (R.init opts limit f file v) .readInfo = (r0, .header)) (sched : List Nat) :
    resumeRun cfg t file.length sched (.nextFrame p0 :: ps.map Op.nextFrame) r0 <+:
        .frame { width := c.width, height := c.height, color := c.color, depth := c.depth, lineSize := c.rowLen } fr0.data ::
          frameResults c (fcOf c.width c.height f0 fr0.pre) frs ps ∧
    (file.length ≤ v + sched.sum →
      resumeRun cfg t file.length sched (.nextFrame p0 :: ps.map Op.nextFrame) r0 =
        .frame { width := c.width, height := c.height, color := c.color, depth := c.depth, lineSize := c.rowLen } fr0.data ::
          frameResults c (fcOf c.width c.height f0 fr0.pre) frs ps) := by
  subst hfile
  exact delivery_of_run cfg hI hT opts limit f _ h32 v hvis r0 hri _ (isCall_nextFrames p0 ps) sched _
    (run_frames_drop_last cfg t _ _ _ _ _ _ _
      (C03_anim_encode_decode cfg t f opts limit compress choose c n plays f0 fr0 frs p0 ps 0 hI hcrc ht hc hsep hmd hm hn h0
        hl hsz
      hnil hinf0 hinf hlimit hps).2.2.2)
    (good_frames _ _ (frameResults_good c _ _ ps))

/-- **… for the transformation the executable model runs**: no hypothesis on the row transformation -/
theorem C03_anim_encode_decode_any_delivery_real (cfg : Framing.Cfg) (opts : Options) (limit : Nat)
    (compress : Bytes → Bytes) (choose : Bytes → Bytes → FilterType) (c : Enc.Cfg) (n plays : Nat) (f0 : FC)
    (fr0 : Frame) (frs : List Frame) (p0 : UInt8) (ps : List UInt8)
    (hI : cfg.InflateOk) (hcrc : ∀ b, cfg.crc b = crcOfList b)
    (hc : c.Anim n plays f0) (hsep : c.sepDefImg = false) (hmd : preChunks c.md = []) (hm : PostOk cfg opts.ignoreText c)
    (hn : n = frs.length + 1) (h0 : FirstOk c f0 fr0)
    (hl : LaterOk (scanCodec compress choose) c { fcOf c.width c.height f0 fr0.pre with seq := 1 } frs)
    (hsz : c.rowLen * c.height < 2 ^ 64)
    (hnil : ∀ o, cfg.inflate [] ≠ some (o, true))
    (hinf0 : cfg.inflate (compress (rawOf choose c fr0.data)) = some (rawOf choose c fr0.data, true))
    (hinf : ∀ x ∈ decFrames compress choose c { fcOf c.width c.height f0 fr0.pre with seq := 1 } frs,
      cfg.inflate (compress x.2.2) = some (x.2.2, true))
    (hlimit : c.rowLen + lineSum c (fcOf c.width c.height f0 fr0.pre) frs + postCost c ≤ limit)
    (hps : ps.length = frs.length)
    (file : Bytes)
    (hfile : file =
      (runWriter (scanCodec compress choose) c {} (animOps (fr0 :: frs)) .finish).state.sink.bytes)
    (h32 : file.length < 2 ^ 32)
    (v : Nat) (hvis : v ≤ file.length) (r0 : R)
    (hri : step cfg realT (R.init opts limit {} file v) .readInfo = (r0, .header)) (sched : List Nat) :
    resumeRun cfg realT file.length sched (.nextFrame p0 :: ps.map Op.nextFrame) r0 <+:
        .frame { width := c.width, height := c.height, color := c.color, depth := c.depth, lineSize := c.rowLen } fr0.data ::
          frameResults c (fcOf c.width c.height f0 fr0.pre) frs ps ∧
    (file.length ≤ v + sched.sum →
      resumeRun cfg realT file.length sched (.nextFrame p0 :: ps.map Op.nextFrame) r0 =
        .frame { width := c.width, height := c.height, color := c.color, depth := c.depth, lineSize := c.rowLen } fr0.data ::
          frameResults c (fcOf c.width c.height f0 fr0.pre) frs ps) := by
  subst hfile
  exact delivery_of_run cfg hI realT_resumeOk opts limit {} _ h32 v hvis r0 hri _ (isCall_nextFrames p0 ps) sched _
    (run_frames_drop_last cfg realT _ _ _ _ _ _ _
      (C03_anim_encode_decode cfg realT {} opts limit compress choose c n plays f0 fr0 frs p0 ps 0 hI hcrc realT_isIdentity hc
        hsep hmd hm hn h0 hl hsz
      hnil hinf0 hinf hlimit hps).2.2.2)
    (good_frames _ _ (frameResults_good c _ _ ps))

/-- **… with a separate default image** (hypotheses of `C03_anim_default_encode_decode`): the default image first -/
theorem C03_anim_default_encode_decode_any_delivery (cfg : Framing.Cfg) (t : TCfg) (f : Flags) (opts : Options) (limit : Nat)
    (compress : Bytes → Bytes) (choose : Bytes → Bytes → FilterType) (c : Enc.Cfg) (n plays : Nat) (f0 : FC)
    (fr0 : Frame) (frs : List Frame) (p0 : UInt8) (ps : List UInt8)
    (hI : cfg.InflateOk) (hcrc : ∀ b, cfg.crc b = crcOfList b) (ht : t.IsIdentity f) (hT : t.ResumeOk)
    (hc : c.Anim n plays f0) (hsep : c.sepDefImg = true) (hmd : preChunks c.md = []) (hm : PostOk cfg opts.ignoreText c)
    (hn : n = frs.length) (h0 : FirstOk c f0 fr0)
    (hl : LaterOk (scanCodec compress choose) c (fcOf c.width c.height f0 fr0.pre) frs)
    (hsz : c.rowLen * c.height < 2 ^ 64)
    (hnil : ∀ o, cfg.inflate [] ≠ some (o, true))
    (hinf0 : cfg.inflate (compress (rawOf choose c fr0.data)) = some (rawOf choose c fr0.data, true))
    (hinf : ∀ x ∈ decFrames compress choose c (fcOf c.width c.height f0 fr0.pre) frs,
      cfg.inflate (compress x.2.2) = some (x.2.2, true))
    (hlimit : c.rowLen + lineSum c (fcOf c.width c.height f0 fr0.pre) frs + postCost c ≤ limit)
    (hps : ps.length = frs.length)
    (file : Bytes)
    (hfile : file =
      (runWriter (scanCodec compress choose) c {} (animOps (fr0 :: frs)) .finish).state.sink.bytes)
    (h32 : file.length < 2 ^ 32)
    (v : Nat) (hvis : v ≤ file.length) (r0 : R)
    (hri : step cfg t (R.init opts limit f file v) .readInfo = (r0, .header)) (sched : List Nat) :
    resumeRun cfg t file.length sched (.nextFrame p0 :: ps.map Op.nextFrame) r0 <+:
        .frame { width := c.width, height := c.height, color := c.color, depth := c.depth, lineSize := c.rowLen } fr0.data ::
          frameResults c (fcOf c.width c.height f0 fr0.pre) frs ps ∧
    (file.length ≤ v + sched.sum →
      resumeRun cfg t file.length sched (.nextFrame p0 :: ps.map Op.nextFrame) r0 =
        .frame { width := c.width, height := c.height, color := c.color, depth := c.depth, lineSize := c.rowLen } fr0.data ::
          frameResults c (fcOf c.width c.height f0 fr0.pre) frs ps) := by
  subst hfile
  exact delivery_of_run cfg hI hT opts limit f _ h32 v hvis r0 hri _ (isCall_nextFrames p0 ps) sched _
    (run_frames_drop_last cfg t _ _ _ _ _ _ _
      (C03_anim_default_encode_decode cfg t f opts limit compress choose c n plays f0 fr0 frs p0 ps 0 hI hcrc ht hc hsep hmd hm
        hn h0 hl hsz
      hnil hinf0 hinf hlimit hps).2.2.2)
    (good_frames _ _ (frameResults_good c _ _ ps))

/-- **C03 for animations under any delivery, ANY metadata** (hypotheses of `C03_anim_meta_encode_decode`) -/
theorem C03_anim_meta_encode_decode_any_delivery (cfg : Framing.Cfg) (t : TCfg) (f : Flags) (opts : Options) (limit P : Nat)
    (compress : Bytes → Bytes) (choose : Bytes → Bytes → FilterType) (c : Enc.Cfg) (n plays : Nat) (f0 : FC)
    (fr0 : Frame) (frs : List Frame) (p0 : UInt8) (ps : List UInt8)
    (hI : cfg.InflateOk) (hcrc : ∀ b, cfg.crc b = crcOfList b) (ht : t.IsIdentity f) (hT : t.ResumeOk)
    (hc : c.Anim n plays f0) (hsep : c.sepDefImg = false) (hm : MetaOk cfg opts.ignoreText P c)
    (hn : n = frs.length + 1) (h0 : FirstOk c f0 fr0)
    (hl : LaterOk (scanCodec compress choose) c { fcOf c.width c.height f0 fr0.pre with seq := 1 } frs)
    (hsz : c.rowLen * c.height < 2 ^ 64)
    (hnil : ∀ o, cfg.inflate [] ≠ some (o, true))
    (hinf0 : cfg.inflate (compress (rawOf choose c fr0.data)) = some (rawOf choose c fr0.data, true))
    (hinf : ∀ x ∈ decFrames compress choose c { fcOf c.width c.height f0 fr0.pre with seq := 1 } frs,
      cfg.inflate (compress x.2.2) = some (x.2.2, true))
    (hlimit : c.rowLen + lineSum c (fcOf c.width c.height f0 fr0.pre) frs + metaCost P c ≤ limit)
    (hps : ps.length = frs.length)
    (file : Bytes)
    (hfile : file =
      (runWriter (scanCodec compress choose) c {} (animOps (fr0 :: frs)) .finish).state.sink.bytes)
    (h32 : file.length < 2 ^ 32)
    (v : Nat) (hvis : v ≤ file.length) (r0 : R)
    (hri : step cfg t (R.init opts limit f file v) .readInfo = (r0, .header)) (sched : List Nat) :
    resumeRun cfg t file.length sched (.nextFrame p0 :: ps.map Op.nextFrame) r0 <+:
        .frame { width := c.width, height := c.height, color := c.color, depth := c.depth, lineSize := c.rowLen } fr0.data ::
          frameResults c (fcOf c.width c.height f0 fr0.pre) frs ps ∧
    (file.length ≤ v + sched.sum →
      resumeRun cfg t file.length sched (.nextFrame p0 :: ps.map Op.nextFrame) r0 =
        .frame { width := c.width, height := c.height, color := c.color, depth := c.depth, lineSize := c.rowLen } fr0.data ::
          frameResults c (fcOf c.width c.height f0 fr0.pre) frs ps) := by
  subst hfile
  exact delivery_of_run cfg hI hT opts limit f _ h32 v hvis r0 hri _ (isCall_nextFrames p0 ps) sched _
    (run_frames_drop_last cfg t _ _ _ _ _ _ _
      (C03_anim_meta_encode_decode cfg t f opts limit P compress choose c n plays f0 fr0 frs p0 ps 0 hI hcrc ht hc hsep hm hn
        h0 hl hsz
      hnil hinf0 hinf hlimit hps).2.2.2)
    (good_frames _ _ (frameResults_good c _ _ ps))

/-- … for the transformation the executable model runs: no hypothesis on the row transformation -/
theorem C03_anim_meta_encode_decode_any_delivery_real (cfg : Framing.Cfg) (opts : Options) (limit P : Nat)
    (compress : Bytes → Bytes) (choose : Bytes → Bytes → FilterType) (c : Enc.Cfg) (n plays : Nat) (f0 : FC)
    (fr0 : Frame) (frs : List Frame) (p0 : UInt8) (ps : List UInt8)
    (hI : cfg.InflateOk) (hcrc : ∀ b, cfg.crc b = crcOfList b)
    (hc : c.Anim n plays f0) (hsep : c.sepDefImg = false) (hm : MetaOk cfg opts.ignoreText P c)
    (hn : n = frs.length + 1) (h0 : FirstOk c f0 fr0)
    (hl : LaterOk (scanCodec compress choose) c { fcOf c.width c.height f0 fr0.pre with seq := 1 } frs)
    (hsz : c.rowLen * c.height < 2 ^ 64)
    (hnil : ∀ o, cfg.inflate [] ≠ some (o, true))
    (hinf0 : cfg.inflate (compress (rawOf choose c fr0.data)) = some (rawOf choose c fr0.data, true))
    (hinf : ∀ x ∈ decFrames compress choose c { fcOf c.width c.height f0 fr0.pre with seq := 1 } frs,
      cfg.inflate (compress x.2.2) = some (x.2.2, true))
    (hlimit : c.rowLen + lineSum c (fcOf c.width c.height f0 fr0.pre) frs + metaCost P c ≤ limit)
    (hps : ps.length = frs.length)
    (file : Bytes)
    (hfile : file =
      (runWriter (scanCodec compress choose) c {} (animOps (fr0 :: frs)) .finish).state.sink.bytes)
    (h32 : file.length < 2 ^ 32)
    (v : Nat) (hvis : v ≤ file.length) (r0 : R)
    (hri : step cfg realT (R.init opts limit {} file v) .readInfo = (r0, .header)) (sched : List Nat) :
    resumeRun cfg realT file.length sched (.nextFrame p0 :: ps.map Op.nextFrame) r0 <+:
        .frame { width := c.width, height := c.height, color := c.color, depth := c.depth, lineSize := c.rowLen } fr0.data ::
          frameResults c (fcOf c.width c.height f0 fr0.pre) frs ps ∧
    (file.length ≤ v + sched.sum →
      resumeRun cfg realT file.length sched (.nextFrame p0 :: ps.map Op.nextFrame) r0 =
        .frame { width := c.width, height := c.height, color := c.color, depth := c.depth, lineSize := c.rowLen } fr0.data ::
          frameResults c (fcOf c.width c.height f0 fr0.pre) frs ps) := by
  subst hfile
  exact delivery_of_run cfg hI realT_resumeOk opts limit {} _ h32 v hvis r0 hri _ (isCall_nextFrames p0 ps) sched _
    (run_frames_drop_last cfg realT _ _ _ _ _ _ _
      (C03_anim_meta_encode_decode cfg realT {} opts limit P compress choose c n plays f0 fr0 frs p0 ps 0 hI hcrc
        realT_isIdentity hc hsep hm hn h0 hl hsz
      hnil hinf0 hinf hlimit hps).2.2.2)
    (good_frames _ _ (frameResults_good c _ _ ps))

/-- **… with a separate default image, any metadata** -/
theorem C03_anim_default_meta_encode_decode_any_delivery (cfg : Framing.Cfg) (t : TCfg) (f : Flags) (opts : Options) (limit P :
    Nat)
    (compress : Bytes → Bytes) (choose : Bytes → Bytes → FilterType) (c : Enc.Cfg) (n plays : Nat) (f0 : FC)
    (fr0 : Frame) (frs : List Frame) (p0 : UInt8) (ps : List UInt8)
    (hI : cfg.InflateOk) (hcrc : ∀ b, cfg.crc b = crcOfList b) (ht : t.IsIdentity f) (hT : t.ResumeOk)
    (hc : c.Anim n plays f0) (hsep : c.sepDefImg = true) (hm : MetaOk cfg opts.ignoreText P c)
    (hn : n = frs.length) (h0 : FirstOk c f0 fr0)
    (hl : LaterOk (scanCodec compress choose) c (fcOf c.width c.height f0 fr0.pre) frs)
    (hsz : c.rowLen * c.height < 2 ^ 64)
    (hnil : ∀ o, cfg.inflate [] ≠ some (o, true))
    (hinf0 : cfg.inflate (compress (rawOf choose c fr0.data)) = some (rawOf choose c fr0.data, true))
    (hinf : ∀ x ∈ decFrames compress choose c (fcOf c.width c.height f0 fr0.pre) frs,
      cfg.inflate (compress x.2.2) = some (x.2.2, true))
    (hlimit : c.rowLen + lineSum c (fcOf c.width c.height f0 fr0.pre) frs + metaCost P c ≤ limit)
    (hps : ps.length = frs.length)
    (file : Bytes)
    (hfile : file =
      (runWriter (scanCodec compress choose) c {} (animOps (fr0 :: frs)) .finish).state.sink.bytes)
    (h32 : file.length < 2 ^ 32)
    (v : Nat) (hvis : v ≤ file.length) (r0 : R)
    (hri : step cfg t (R.init opts limit f file v) .readInfo = (r0, .header)) (sched : List Nat) :
    resumeRun cfg t file.length sched (.nextFrame p0 :: ps.map Op.nextFrame) r0 <+:
        .frame { width := c.width, height := c.height, color := c.color, depth := c.depth, lineSize := c.rowLen } fr0.data ::
          frameResults c (fcOf c.width c.height f0 fr0.pre) frs ps ∧
    (file.length ≤ v + sched.sum →
      resumeRun cfg t file.length sched (.nextFrame p0 :: ps.map Op.nextFrame) r0 =
        .frame { width := c.width, height := c.height, color := c.color, depth := c.depth, lineSize := c.rowLen } fr0.data ::
          frameResults c (fcOf c.width c.height f0 fr0.pre) frs ps) := by
  subst hfile
  exact delivery_of_run cfg hI hT opts limit f _ h32 v hvis r0 hri _ (isCall_nextFrames p0 ps) sched _
    (run_frames_drop_last cfg t _ _ _ _ _ _ _
      (C03_anim_default_meta_encode_decode cfg t f opts limit P compress choose c n plays f0 fr0 frs p0 ps 0 hI hcrc ht hc hsep
        hm hn h0 hl hsz
      hnil hinf0 hinf hlimit hps).2.2.2)
    (good_frames _ _ (frameResults_good c _ _ ps))

/-- **C03 for animations written through one owned `StreamWriter`, under any delivery** (hypotheses of
    `C03_anim_stream_encode_decode`) -/
theorem C03_anim_stream_encode_decode_any_delivery (cfg : Framing.Cfg) (t : TCfg) (f : Flags) (opts : Options) (limit P : Nat)
    (E : Codec) (compress : Bytes → Bytes) (chooseZ : Bytes → Bytes → FilterType) (c : Enc.Cfg) (n plays : Nat) (f0 : FC) (size
      : Nat)
    (fr0 : SFrame) (frs : List SFrame) (p0 : UInt8) (ps : List UInt8)
    (hI : cfg.InflateOk) (hcrc : ∀ b, cfg.crc b = crcOfList b) (ht : t.IsIdentity f) (hT : t.ResumeOk)
    (hc : c.Anim n plays f0) (hsep : c.sepDefImg = false) (hm : MetaOk cfg opts.ignoreText P c)
    (hcov : f0.x = 0 ∧ f0.y = 0 ∧ f0.w = c.width ∧ f0.h = c.height)
    (hn : n = frs.length + 1) (hpre0 : ∀ o ∈ fr0.pre, o.inRange)
    (hlen0 : fr0.pieces.flatten.length = c.rowLen * c.height)
    (hl : SLaterOk c (fcOfS c.width c.height f0 fr0.pre) frs) (hsz : c.rowLen * c.height < 2 ^ 64)
    (hbud : 1 + sBudget compress chooseZ c (fcOfS c.width c.height f0 fr0.pre) frs < 2 ^ 32)
    (hnil : ∀ o, cfg.inflate [] ≠ some (o, true))
    (hinf0 : cfg.inflate (compress (rawOf (chooseFirst chooseZ) c fr0.pieces.flatten)) =
      some (rawOf (chooseFirst chooseZ) c fr0.pieces.flatten, true))
    (hinf : ∀ raw ∈ sRaws chooseZ c (fcOfS c.width c.height f0 fr0.pre) frs, cfg.inflate (compress raw) = some (raw, true))
    (hlimit : c.rowLen + sLineSum c (fcOfS c.width c.height f0 fr0.pre) frs + metaCost P c ≤ limit)
    (hps : ps.length = frs.length)
    (file : Bytes)
    (hfile : file =
      (runProg E (scanZ compress chooseZ) c {} [] (.intoStream size (sOps (fr0 :: frs)) .finish)).state.sink.bytes)
    (h32 : file.length < 2 ^ 32)
    (v : Nat) (hvis : v ≤ file.length) (r0 : R)
    (hri : step cfg t (R.init opts limit f file v) .readInfo = (r0, .header)) (sched : List Nat) :
    resumeRun cfg t file.length sched (.nextFrame p0 :: ps.map Op.nextFrame) r0 <+:
        .frame { width := c.width, height := c.height, color := c.color, depth := c.depth, lineSize := c.rowLen }
          fr0.pieces.flatten :: sFrameResults c (fcOfS c.width c.height f0 fr0.pre) frs ps ∧
    (file.length ≤ v + sched.sum →
      resumeRun cfg t file.length sched (.nextFrame p0 :: ps.map Op.nextFrame) r0 =
        .frame { width := c.width, height := c.height, color := c.color, depth := c.depth, lineSize := c.rowLen }
          fr0.pieces.flatten :: sFrameResults c (fcOfS c.width c.height f0 fr0.pre) frs ps) := by
  subst hfile
  exact delivery_of_run cfg hI hT opts limit f _ h32 v hvis r0 hri _ (isCall_nextFrames p0 ps) sched _
    (run_frames_drop_last cfg t _ _ _ _ _ _ _
      (C03_anim_stream_encode_decode cfg t f opts limit P E compress chooseZ c n plays f0 size fr0 frs p0 ps 0 hI hcrc ht hc
        hsep hm hcov hn
      hpre0 hlen0 hl hsz hbud hnil hinf0 hinf hlimit hps).2.2)
    (good_frames _ _ (sFrameResults_good c _ _ ps))

/-- … for the transformation the executable model runs: no hypothesis on the row transformation -/
theorem C03_anim_stream_encode_decode_any_delivery_real (cfg : Framing.Cfg) (opts : Options) (limit P : Nat)
    (E : Codec) (compress : Bytes → Bytes) (chooseZ : Bytes → Bytes → FilterType) (c : Enc.Cfg) (n plays : Nat) (f0 : FC) (size
      : Nat)
    (fr0 : SFrame) (frs : List SFrame) (p0 : UInt8) (ps : List UInt8)
    (hI : cfg.InflateOk) (hcrc : ∀ b, cfg.crc b = crcOfList b)
    (hc : c.Anim n plays f0) (hsep : c.sepDefImg = false) (hm : MetaOk cfg opts.ignoreText P c)
    (hcov : f0.x = 0 ∧ f0.y = 0 ∧ f0.w = c.width ∧ f0.h = c.height)
    (hn : n = frs.length + 1) (hpre0 : ∀ o ∈ fr0.pre, o.inRange)
    (hlen0 : fr0.pieces.flatten.length = c.rowLen * c.height)
    (hl : SLaterOk c (fcOfS c.width c.height f0 fr0.pre) frs) (hsz : c.rowLen * c.height < 2 ^ 64)
    (hbud : 1 + sBudget compress chooseZ c (fcOfS c.width c.height f0 fr0.pre) frs < 2 ^ 32)
    (hnil : ∀ o, cfg.inflate [] ≠ some (o, true))
    (hinf0 : cfg.inflate (compress (rawOf (chooseFirst chooseZ) c fr0.pieces.flatten)) =
      some (rawOf (chooseFirst chooseZ) c fr0.pieces.flatten, true))
    (hinf : ∀ raw ∈ sRaws chooseZ c (fcOfS c.width c.height f0 fr0.pre) frs, cfg.inflate (compress raw) = some (raw, true))
    (hlimit : c.rowLen + sLineSum c (fcOfS c.width c.height f0 fr0.pre) frs + metaCost P c ≤ limit)
    (hps : ps.length = frs.length)
    (file : Bytes)
    (hfile : file =
      (runProg E (scanZ compress chooseZ) c {} [] (.intoStream size (sOps (fr0 :: frs)) .finish)).state.sink.bytes)
    (h32 : file.length < 2 ^ 32)
    (v : Nat) (hvis : v ≤ file.length) (r0 : R)
    (hri : step cfg realT (R.init opts limit {} file v) .readInfo = (r0, .header)) (sched : List Nat) :
    resumeRun cfg realT file.length sched (.nextFrame p0 :: ps.map Op.nextFrame) r0 <+:
        .frame { width := c.width, height := c.height, color := c.color, depth := c.depth, lineSize := c.rowLen }
          fr0.pieces.flatten :: sFrameResults c (fcOfS c.width c.height f0 fr0.pre) frs ps ∧
    (file.length ≤ v + sched.sum →
      resumeRun cfg realT file.length sched (.nextFrame p0 :: ps.map Op.nextFrame) r0 =
        .frame { width := c.width, height := c.height, color := c.color, depth := c.depth, lineSize := c.rowLen }
          fr0.pieces.flatten :: sFrameResults c (fcOfS c.width c.height f0 fr0.pre) frs ps) := by
  subst hfile
  exact delivery_of_run cfg hI realT_resumeOk opts limit {} _ h32 v hvis r0 hri _ (isCall_nextFrames p0 ps) sched _
    (run_frames_drop_last cfg realT _ _ _ _ _ _ _
      (C03_anim_stream_encode_decode cfg realT {} opts limit P E compress chooseZ c n plays f0 size fr0 frs p0 ps 0 hI hcrc
        realT_isIdentity hc hsep hm hcov hn
      hpre0 hlen0 hl hsz hbud hnil hinf0 hinf hlimit hps).2.2)
    (good_frames _ _ (sFrameResults_good c _ _ ps))

/-- **… with a separate default image** -/
theorem C03_anim_default_stream_encode_decode_any_delivery (cfg : Framing.Cfg) (t : TCfg) (f : Flags) (opts : Options) (limit P
    : Nat)
    (E : Codec) (compress : Bytes → Bytes) (chooseZ : Bytes → Bytes → FilterType) (c : Enc.Cfg) (n plays : Nat) (f0 : FC) (size
      : Nat)
    (fr0 : SFrame) (frs : List SFrame) (p0 : UInt8) (ps : List UInt8)
    (hI : cfg.InflateOk) (hcrc : ∀ b, cfg.crc b = crcOfList b) (ht : t.IsIdentity f) (hT : t.ResumeOk)
    (hc : c.Anim n plays f0) (hsep : c.sepDefImg = true) (hm : MetaOk cfg opts.ignoreText P c)
    (hcov : f0.x = 0 ∧ f0.y = 0 ∧ f0.w = c.width ∧ f0.h = c.height)
    (hn : n = frs.length) (hpre0 : ∀ o ∈ fr0.pre, o.inRange)
    (hlen0 : fr0.pieces.flatten.length = c.rowLen * c.height)
    (hl : SLaterOk c (fcOfS c.width c.height f0 fr0.pre) frs) (hsz : c.rowLen * c.height < 2 ^ 64)
    (hbud : sBudget compress chooseZ c (fcOfS c.width c.height f0 fr0.pre) frs < 2 ^ 32)
    (hnil : ∀ o, cfg.inflate [] ≠ some (o, true))
    (hinf0 : cfg.inflate (compress (rawOf (chooseFirst chooseZ) c fr0.pieces.flatten)) =
      some (rawOf (chooseFirst chooseZ) c fr0.pieces.flatten, true))
    (hinf : ∀ raw ∈ sRaws chooseZ c (fcOfS c.width c.height f0 fr0.pre) frs, cfg.inflate (compress raw) = some (raw, true))
    (hlimit : c.rowLen + sLineSum c (fcOfS c.width c.height f0 fr0.pre) frs + metaCost P c ≤ limit)
    (hps : ps.length = frs.length)
    (file : Bytes)
    (hfile : file =
      (runProg E (scanZ compress chooseZ) c {} [] (.intoStream size (sOps (fr0 :: frs)) .finish)).state.sink.bytes)
    (h32 : file.length < 2 ^ 32)
    (v : Nat) (hvis : v ≤ file.length) (r0 : R)
    (hri : step cfg t (R.init opts limit f file v) .readInfo = (r0, .header)) (sched : List Nat) :
    resumeRun cfg t file.length sched (.nextFrame p0 :: ps.map Op.nextFrame) r0 <+:
        .frame { width := c.width, height := c.height, color := c.color, depth := c.depth, lineSize := c.rowLen }
          fr0.pieces.flatten :: sFrameResults c (fcOfS c.width c.height f0 fr0.pre) frs ps ∧
    (file.length ≤ v + sched.sum →
      resumeRun cfg t file.length sched (.nextFrame p0 :: ps.map Op.nextFrame) r0 =
        .frame { width := c.width, height := c.height, color := c.color, depth := c.depth, lineSize := c.rowLen }
          fr0.pieces.flatten :: sFrameResults c (fcOfS c.width c.height f0 fr0.pre) frs ps) := by
  subst hfile
  exact delivery_of_run cfg hI hT opts limit f _ h32 v hvis r0 hri _ (isCall_nextFrames p0 ps) sched _
    (run_frames_drop_last cfg t _ _ _ _ _ _ _
      (C03_anim_default_stream_encode_decode cfg t f opts limit P E compress chooseZ c n plays f0 size fr0 frs p0 ps 0 hI hcrc
        ht hc hsep hm hcov hn
      hpre0 hlen0 hl hsz hbud hnil hinf0 hinf hlimit hps).2.2)
    (good_frames _ _ (sFrameResults_good c _ _ ps))

/-! ## `read_info` on the complete file: `v = file.length` is always an admissible truncation point -/

/-- **the hypothesis `hri` of the delivery theorems is satisfiable for EVERY file the encoder writes**: on the complete file
    (`v = file.length`) `read_info` succeeds (for `Driver.realT` take `t := realT`, `f := {}`, `ht := realT_isIdentity`) -/
theorem C03_encode_decode_read_info (cfg : Framing.Cfg) (t : TCfg) (f : Flags) (opts : Options) (limit P : Nat)
    (compress : Bytes → Bytes) (choose : Bytes → Bytes → FilterType) (c : Enc.Cfg) (data : Bytes)
    (hI : cfg.InflateOk) (hcrc : ∀ b, cfg.crc b = crcOfList b) (ht : t.IsIdentity f)
    (hs : c.Still) (hm : MetaOk cfg opts.ignoreText P c)
    (hlen : data.length = c.rowLen * c.height) (hsz : c.rowLen * c.height < 2 ^ 64)
    (hnil : ∀ o, cfg.inflate [] ≠ some (o, true))
    (hinf : cfg.inflate (compress (rawOf choose c data)) = some (rawOf choose c data, true))
    (hlimit : c.rowLen + metaCost P c ≤ limit)
    (file : Bytes)
    (hfile : file =
      (runWriter (scanCodec compress choose) c {} [.image data] .finish).state.sink.bytes) :
    step cfg t (R.init opts limit f file file.length) .readInfo =
      ((step cfg t (R.init opts limit f file file.length) .readInfo).1, .header) := by
  subst hfile
  exact readInfo_of_run (C03_encode_decode cfg t f opts limit P compress choose c data 0 hI hcrc ht hs hm hlen hsz hnil hinf
    hlimit).2.2.2

/-- … through an owned `StreamWriter` -/
theorem C03_stream_encode_decode_read_info (cfg : Framing.Cfg) (t : TCfg) (f : Flags) (opts : Options) (limit P : Nat)
    (E : Codec) (compress : Bytes → Bytes) (chooseZ : Bytes → Bytes → FilterType) (c : Enc.Cfg) (size : Nat) (ds : List Bytes)
    (data : Bytes)
    (hI : cfg.InflateOk) (hcrc : ∀ b, cfg.crc b = crcOfList b) (ht : t.IsIdentity f)
    (hs : c.Still) (hm : MetaOk cfg opts.ignoreText P c)
    (hds : ds.flatten = data) (hlen : data.length = c.rowLen * c.height) (hsz : c.rowLen * c.height < 2 ^ 64)
    (hnil : ∀ o, cfg.inflate [] ≠ some (o, true))
    (hinf : cfg.inflate (compress (rawOf (chooseFirst chooseZ) c data)) = some (rawOf (chooseFirst chooseZ) c data, true))
    (hlimit : c.rowLen + metaCost P c ≤ limit)
    (file : Bytes)
    (hfile : file =
      (runProg E (scanZ compress chooseZ) c {} [] (.intoStream size (ds.map .write) .finish)).state.sink.bytes) :
    step cfg t (R.init opts limit f file file.length) .readInfo =
      ((step cfg t (R.init opts limit f file file.length) .readInfo).1, .header) := by
  subst hfile
  exact readInfo_of_run (C03_stream_encode_decode cfg t f opts limit P E compress chooseZ c size ds data 0 hI hcrc ht hs hm hds
    hlen hsz hnil
    hinf hlimit).2.2

/-- … for animations (hypotheses of `C03_anim_encode_decode`) -/
theorem C03_anim_encode_decode_read_info (cfg : Framing.Cfg) (t : TCfg) (f : Flags) (opts : Options) (limit : Nat)
    (compress : Bytes → Bytes) (choose : Bytes → Bytes → FilterType) (c : Enc.Cfg) (n plays : Nat) (f0 : FC)
    (fr0 : Frame) (frs : List Frame)
    (hI : cfg.InflateOk) (hcrc : ∀ b, cfg.crc b = crcOfList b) (ht : t.IsIdentity f)
    (hc : c.Anim n plays f0) (hsep : c.sepDefImg = false) (hmd : preChunks c.md = []) (hm : PostOk cfg opts.ignoreText c)
    (hn : n = frs.length + 1) (h0 : FirstOk c f0 fr0)
    (hl : LaterOk (scanCodec compress choose) c { fcOf c.width c.height f0 fr0.pre with seq := 1 } frs)
    (hsz : c.rowLen * c.height < 2 ^ 64)
    (hnil : ∀ o, cfg.inflate [] ≠ some (o, true))
    (hinf0 : cfg.inflate (compress (rawOf choose c fr0.data)) = some (rawOf choose c fr0.data, true))
    (hinf : ∀ x ∈ decFrames compress choose c { fcOf c.width c.height f0 fr0.pre with seq := 1 } frs,
      cfg.inflate (compress x.2.2) = some (x.2.2, true))
    (hlimit : c.rowLen + lineSum c (fcOf c.width c.height f0 fr0.pre) frs + postCost c ≤ limit)
    (file : Bytes)
    (hfile : file =
      (runWriter (scanCodec compress choose) c {} (animOps (fr0 :: frs)) .finish).state.sink.bytes) :
    step cfg t (R.init opts limit f file file.length) .readInfo =
      ((step cfg t (R.init opts limit f file file.length) .readInfo).1, .header) := by
  subst hfile
  exact readInfo_of_run
    (C03_anim_encode_decode cfg t f opts limit compress choose c n plays f0 fr0 frs 0 (List.replicate frs.length 0) 0 hI hcrc
      ht hc hsep hmd hm hn h0 hl hsz
      hnil hinf0 hinf hlimit (by simp)).2.2.2

/-- … for animations with any metadata -/
theorem C03_anim_meta_encode_decode_read_info (cfg : Framing.Cfg) (t : TCfg) (f : Flags) (opts : Options) (limit P : Nat)
    (compress : Bytes → Bytes) (choose : Bytes → Bytes → FilterType) (c : Enc.Cfg) (n plays : Nat) (f0 : FC)
    (fr0 : Frame) (frs : List Frame)
    (hI : cfg.InflateOk) (hcrc : ∀ b, cfg.crc b = crcOfList b) (ht : t.IsIdentity f)
    (hc : c.Anim n plays f0) (hsep : c.sepDefImg = false) (hm : MetaOk cfg opts.ignoreText P c)
    (hn : n = frs.length + 1) (h0 : FirstOk c f0 fr0)
    (hl : LaterOk (scanCodec compress choose) c { fcOf c.width c.height f0 fr0.pre with seq := 1 } frs)
    (hsz : c.rowLen * c.height < 2 ^ 64)
    (hnil : ∀ o, cfg.inflate [] ≠ some (o, true))
    (hinf0 : cfg.inflate (compress (rawOf choose c fr0.data)) = some (rawOf choose c fr0.data, true))
    (hinf : ∀ x ∈ decFrames compress choose c { fcOf c.width c.height f0 fr0.pre with seq := 1 } frs,
      cfg.inflate (compress x.2.2) = some (x.2.2, true))
    (hlimit : c.rowLen + lineSum c (fcOf c.width c.height f0 fr0.pre) frs + metaCost P c ≤ limit)
    (file : Bytes)
    (hfile : file =
      (runWriter (scanCodec compress choose) c {} (animOps (fr0 :: frs)) .finish).state.sink.bytes) :
    step cfg t (R.init opts limit f file file.length) .readInfo =
      ((step cfg t (R.init opts limit f file file.length) .readInfo).1, .header) := by
  subst hfile
  exact readInfo_of_run
    (C03_anim_meta_encode_decode cfg t f opts limit P compress choose c n plays f0 fr0 frs 0 (List.replicate frs.length 0) 0 hI
      hcrc ht hc hsep hm hn h0 hl hsz
      hnil hinf0 hinf hlimit (by simp)).2.2.2

/-- … for animations written through one owned `StreamWriter` -/
theorem C03_anim_stream_encode_decode_read_info (cfg : Framing.Cfg) (t : TCfg) (f : Flags) (opts : Options) (limit P : Nat)
    (E : Codec) (compress : Bytes → Bytes) (chooseZ : Bytes → Bytes → FilterType) (c : Enc.Cfg) (n plays : Nat) (f0 : FC) (size
      : Nat)
    (fr0 : SFrame) (frs : List SFrame)
    (hI : cfg.InflateOk) (hcrc : ∀ b, cfg.crc b = crcOfList b) (ht : t.IsIdentity f)
    (hc : c.Anim n plays f0) (hsep : c.sepDefImg = false) (hm : MetaOk cfg opts.ignoreText P c)
    (hcov : f0.x = 0 ∧ f0.y = 0 ∧ f0.w = c.width ∧ f0.h = c.height)
    (hn : n = frs.length + 1) (hpre0 : ∀ o ∈ fr0.pre, o.inRange)
    (hlen0 : fr0.pieces.flatten.length = c.rowLen * c.height)
    (hl : SLaterOk c (fcOfS c.width c.height f0 fr0.pre) frs) (hsz : c.rowLen * c.height < 2 ^ 64)
    (hbud : 1 + sBudget compress chooseZ c (fcOfS c.width c.height f0 fr0.pre) frs < 2 ^ 32)
    (hnil : ∀ o, cfg.inflate [] ≠ some (o, true))
    (hinf0 : cfg.inflate (compress (rawOf (chooseFirst chooseZ) c fr0.pieces.flatten)) =
      some (rawOf (chooseFirst chooseZ) c fr0.pieces.flatten, true))
    (hinf : ∀ raw ∈ sRaws chooseZ c (fcOfS c.width c.height f0 fr0.pre) frs, cfg.inflate (compress raw) = some (raw, true))
    (hlimit : c.rowLen + sLineSum c (fcOfS c.width c.height f0 fr0.pre) frs + metaCost P c ≤ limit)
    (file : Bytes)
    (hfile : file =
      (runProg E (scanZ compress chooseZ) c {} [] (.intoStream size (sOps (fr0 :: frs)) .finish)).state.sink.bytes) :
    step cfg t (R.init opts limit f file file.length) .readInfo =
      ((step cfg t (R.init opts limit f file file.length) .readInfo).1, .header) := by
  subst hfile
  exact readInfo_of_run
    (C03_anim_stream_encode_decode cfg t f opts limit P E compress chooseZ c n plays f0 size fr0 frs 0 (List.replicate
      frs.length 0) 0 hI hcrc ht hc hsep hm hcov hn
      hpre0 hlen0 hl hsz hbud hnil hinf0 hinf hlimit (by simp)).2.2

/-! ## Non-vacuity: every hypothesis instantiated on the concrete images of `Props/C03RoundTrip.lean`, `C03Anim.lean`,
`C03AnimMeta.lean`, `C03AnimStream.lean` (toy inflater with the real CRC-32, `rtCfg`), and concrete runs evaluated by the kernel
(few: the kernel computes every CRC-32 the decoder checks) -/

section Examples
open Png.Framing.Toy Png.Reader.Toy Png.Reader.ToyLate Png.Reader.PathsToy

/-- the toy identity transformation satisfies the contract of C05 -/
theorem idT_resumeOk : idT.ResumeOk := .of_contracts idT_ok idT_stable

/-- the encoder's file for the 2×2 RGB image (Paeth on every row), the same image through an owned stream writer (1-byte buffer
    request, five `write_all` calls, one empty, two straddling the end of the first row), the 3×2 two-bit palette image with
    `pHYs`, `gAMA`, `iCCP`, `PLTE`, `tRNS`, `tEXt`, the three-frame animation `framesAnim3`, the two-frame palette animation with
    metadata in front of `acTL`, and `sFramesAnim3` through a stream writer -/
def fileRgb : Bytes := (runWriter (scanCodec storeZ fun _ _ => .paeth) cfgRgb {} [.image dataRgb] .finish).state.sink.bytes
def fileRgbS : Bytes :=
  (runProg Enc.toyCodec (scanZ storeZ fun _ _ => .avg) cfgRgb {} []
    (.intoStream 1 ([[1, 2], [], [3, 4, 5, 6, 7], [8], [9, 10, 11, 250]].map .write) .finish)).state.sink.bytes
def filePal : Bytes := (runWriter (scanCodec storeZ choosePal) cfgPal {} [.image dataPal] .finish).state.sink.bytes
def fileAnim3 : Bytes := (runWriter (scanCodec storeZ fun _ _ => .sub) cfgAnim3 {} (animOps framesAnim3) .finish).state.sink.bytes
def fileAnimPal : Bytes :=
  (runWriter (scanCodec storeZ choosePal) cfgAnimPal {}
    (animOps [⟨[], [0x6C, 0xB4]⟩, ⟨[.setDim 2 1, .setPos 1 1], [0x90]⟩]) .finish).state.sink.bytes
def fileStream3 : Bytes :=
  (runProg Enc.toyCodec (scanZ storeZ fun _ _ => .sub) cfgAnim3 {} [] (.intoStream 0 (sOps sFramesAnim3)
    .finish)).state.sink.bytes

theorem files_len : fileRgb.length = 72 ∧ fileRgbS.length = 96 ∧ filePal.length = 170 ∧ fileAnim3.length = 255 ∧
    fileAnimPal.length = 285 ∧ fileStream3.length = 395 := by decide +kernel

theorem fileRgb_lt : fileRgb.length < 2 ^ 32 := by rw [files_len.1]; decide
theorem fileRgbS_lt : fileRgbS.length < 2 ^ 32 := by rw [files_len.2.1]; decide
theorem filePal_lt : filePal.length < 2 ^ 32 := by rw [files_len.2.2.1]; decide
theorem fileAnim3_lt : fileAnim3.length < 2 ^ 32 := by rw [files_len.2.2.2.1]; decide
theorem fileAnimPal_lt : fileAnimPal.length < 2 ^ 32 := by rw [files_len.2.2.2.2.1]; decide
theorem fileStream3_lt : fileStream3.length < 2 ^ 32 := by rw [files_len.2.2.2.2.2]; decide

/-- the metadata hypothesis for a configuration without metadata -/
theorem cfgRgb_metaOk (ig : Bool) : MetaOk rtCfg ig 0 cfgRgb :=
  ⟨fun _ h => (by cases h), fun _ h => (by cases h), fun _ h => (by cases h)⟩

/-! ### still images, any call path -/

/-- `C03_encode_decode_any_path` applies to the RGB image: every hypothesis holds, for every list of calls -/
example (ops : List PathOp) :=
  C03_encode_decode_any_path rtCfg idT {} {} 1000 0 storeZ (fun _ _ => .paeth) cfgRgb dataRgb 7 rtCfg_inflateOk (fun _ => rfl)
    C01.idT_isIdentity idT_ok idT_snapIndep (by decide) (cfgRgb_metaOk _)
    (by decide) (by decide) rtCfg_nil (by decide) (by decide) fileRgb rfl fileRgb_lt ops

/-- … to the palette image with all its metadata (rows end in padding bits; `validate_sequence` on) -/
example (ops : List PathOp) :=
  C03_encode_decode_any_path rtCfg idT {} {} 200 6 storeZ choosePal cfgPal dataPal 0xFF rtCfg_inflateOk (fun _ => rfl)
    C01.idT_isIdentity idT_ok idT_snapIndep (by decide) (cfgPal_metaOk _)
    (by decide) (by decide) rtCfg_nil (by decide) (by decide) filePal rfl filePal_lt ops

/-- … and `C03_encode_decode_any_path_real` (the executable model's transformation, no contract hypothesis) to both -/
example (ops : List PathOp) :=
  C03_encode_decode_any_path_real rtCfg {} 1000 0 storeZ (fun _ _ => .paeth) cfgRgb dataRgb 7 rtCfg_inflateOk (fun _ => rfl)
    (by decide) (cfgRgb_metaOk _) (by decide) (by decide) rtCfg_nil (by decide) (by decide) fileRgb rfl fileRgb_lt ops
example (ops : List PathOp) :=
  C03_encode_decode_any_path_real rtCfg {} 200 6 storeZ choosePal cfgPal dataPal 0xFF rtCfg_inflateOk (fun _ => rfl)
    (by decide) (cfgPal_metaOk _) (by decide) (by decide) rtCfg_nil (by decide) (by decide) filePal rfl filePal_lt ops

/-- a concrete run, evaluated: a row by `next_row`, one by `read_row` into a longer buffer, the rest by `next_frame`, then
    `next_frame_info` (refused: end of image) -/
example : (asmRun rtCfg idT (List.replicate 12 7) (readerOf rtCfg idT {} 1000 {} fileRgb, Asm.init (List.replicate 12 7))
    [.nextRow, .readRow 1, .nextFrame, .nextFrameInfo]).2.frames = [(0, dataRgb)] := by decide +kernel

/-- `C03_stream_encode_decode_any_path`: the RGB image through an owned stream writer; the borrowed one for the palette image,
    dropped -/
example (ops : List PathOp) :=
  C03_stream_encode_decode_any_path rtCfg idT {} {} 1000 0 Enc.toyCodec storeZ (fun _ _ => .avg) cfgRgb 1
    [[1, 2], [], [3, 4, 5, 6, 7], [8], [9, 10, 11, 250]] dataRgb 7 rtCfg_inflateOk (fun _ => rfl) C01.idT_isIdentity
    idT_ok idT_snapIndep (by decide) (cfgRgb_metaOk _)
    (by decide) (by decide) (by decide) rtCfg_nil (by decide) (by decide) fileRgbS rfl fileRgbS_lt ops
example (ops : List PathOp) :=
  C03_stream_encode_decode_any_path_real rtCfg {} 1000 0 Enc.toyCodec storeZ (fun _ _ => .avg) cfgRgb 1
    [[1, 2], [], [3, 4, 5, 6, 7], [8], [9, 10, 11, 250]] dataRgb 7 rtCfg_inflateOk (fun _ => rfl)
    (by decide) (cfgRgb_metaOk _)
    (by decide) (by decide) (by decide) rtCfg_nil (by decide) (by decide) fileRgbS rfl fileRgbS_lt ops
example (ops : List PathOp) :=
  C03_stream_borrowed_encode_decode_any_path rtCfg idT {} {} 200 6 Enc.toyCodec storeZ choosePal cfgPal 4096 [[0x6C, 0xB4]] .drop
    dataPal 0 (anyPathOk_of_contracts rtCfg idT_ok idT_snapIndep) rtCfg_inflateOk (fun _ => rfl) C01.idT_isIdentity
    (by decide) (cfgPal_metaOk _) (by decide) (by decide) (by decide) rtCfg_nil (by decide) (by decide) _ rfl
    (by decide +kernel) ops

/-! ### still images, any delivery -/

/-- `read_info` needs the first 41 bytes of the RGB file (up to the first byte of `IDAT` data): with 40 it runs out of input -/
theorem fileRgb_ri : (step rtCfg idT (R.init {} 1000 {} fileRgb 40) .readInfo).2 = .err .eof "UnexpectedEof" ∧
    (step rtCfg idT (R.init {} 1000 {} fileRgb 41) .readInfo).2 = .header := by decide +kernel

/-- **the instance of `C03_encode_decode_any_delivery`** for the RGB file, `v = 41`, the other 31 bytes arriving ONE BY ONE:
    all hypotheses hold, the retrying caller obtains exactly the image -/
example : resumeRun rtCfg idT fileRgb.length (List.replicate 31 1) [.nextFrame 7]
      (step rtCfg idT (R.init {} 1000 {} fileRgb 41) .readInfo).1 = [.frame ⟨2, 2, 2, 8, 6⟩ dataRgb] :=
  (C03_encode_decode_any_delivery rtCfg idT {} {} 1000 0 storeZ (fun _ _ => .paeth) cfgRgb dataRgb 7 rtCfg_inflateOk
    (fun _ => rfl) C01.idT_isIdentity idT_resumeOk (by decide) (cfgRgb_metaOk _)
    (by decide) (by decide) rtCfg_nil (by decide) (by decide) fileRgb rfl fileRgb_lt 41 (by rw [files_len.1]; decide) _
    (step_eq_of_snd fileRgb_ri.2) (List.replicate 31 1)).2 (by rw [files_len.1]; decide)

/-- … evaluated for a schedule that stops after 20 more bytes: the caller has nothing yet -/
example : resumeRun rtCfg idT fileRgb.length (List.replicate 20 1) [.nextFrame 7]
      (step rtCfg idT (R.init {} 1000 {} fileRgb 41) .readInfo).1 = [] := by decide +kernel

/-- row by row, byte by byte: both rows of the RGB image and `None` -/
example : resumeRun rtCfg idT fileRgb.length (List.replicate 31 1) (List.replicate 3 .nextRow)
      (step rtCfg idT (R.init {} 1000 {} fileRgb 41) .readInfo).1 =
      [.row (.null 0) [1, 2, 3, 4, 5, 6], .row (.null 1) [7, 8, 9, 10, 11, 250], .noRow] :=
  (C03_encode_decode_rows_any_delivery rtCfg idT {} {} 1000 0 storeZ (fun _ _ => .paeth) cfgRgb dataRgb rtCfg_inflateOk
    (fun _ => rfl) C01.idT_isIdentity idT_resumeOk (by decide) (cfgRgb_metaOk _)
    (by decide) (by decide) rtCfg_nil (by decide) (by decide) fileRgb rfl fileRgb_lt 41 (by rw [files_len.1]; decide) _
    (step_eq_of_snd fileRgb_ri.2) (List.replicate 31 1)).2.1 (by rw [files_len.1]; decide)

/-- the instances for the executable model's transformation (`Driver.realT`), every schedule, `read_info` on the complete file
    (`C03_encode_decode_read_info`): the palette file; the RGB file written through the stream writer -/
example (sched : List Nat) :=
  C03_encode_decode_any_delivery_real rtCfg {} 200 6 storeZ choosePal cfgPal dataPal 0 rtCfg_inflateOk (fun _ => rfl)
    (by decide) (cfgPal_metaOk _) (by decide) (by decide) rtCfg_nil (by decide) (by decide) filePal rfl filePal_lt
    filePal.length (Nat.le_refl _) _
    (C03_encode_decode_read_info rtCfg realT {} {} 200 6 storeZ choosePal cfgPal dataPal rtCfg_inflateOk (fun _ => rfl)
      realT_isIdentity (by decide) (cfgPal_metaOk _) (by decide) (by decide) rtCfg_nil (by decide) (by decide) filePal rfl) sched
example (sched : List Nat) :=
  C03_stream_encode_decode_any_delivery_real rtCfg {} 1000 0 Enc.toyCodec storeZ (fun _ _ => .avg) cfgRgb 1
    [[1, 2], [], [3, 4, 5, 6, 7], [8], [9, 10, 11, 250]] dataRgb 7 rtCfg_inflateOk (fun _ => rfl)
    (by decide) (cfgRgb_metaOk _) (by decide) (by decide) (by decide) rtCfg_nil (by decide) (by decide) fileRgbS rfl fileRgbS_lt
    fileRgbS.length (Nat.le_refl _) _
    (C03_stream_encode_decode_read_info rtCfg realT {} {} 1000 0 Enc.toyCodec storeZ (fun _ _ => .avg) cfgRgb 1
      [[1, 2], [], [3, 4, 5, 6, 7], [8], [9, 10, 11, 250]] dataRgb rtCfg_inflateOk (fun _ => rfl) realT_isIdentity
      (by decide) (cfgRgb_metaOk _) (by decide) (by decide) (by decide) rtCfg_nil (by decide) (by decide) fileRgbS rfl) sched

/-! ### animations, any call path -/

/-- `C03_anim_encode_decode_any_path` applies to the three-frame animation of `Props/C03Anim.lean` (frame setters, a refused
    one included; the second frame is the single pixel at (1, 1)) -/
example (ops : List PathOp) :=
  C03_anim_encode_decode_any_path rtCfg idT {} {} 1000 storeZ (fun _ _ => .sub) cfgAnim3 3 7 fcAnim3
    ⟨[.setDelay 1 10], [1, 2, 3, 4]⟩
    [⟨[.setDim 1 1, .setPos 1 1, .setDim 5 5, .setBlend 1], [9]⟩, ⟨[.resetPos, .resetDim, .setDispose 2], [5, 6, 7, 8]⟩]
    7 rtCfg_inflateOk (fun _ => rfl) C01.idT_isIdentity idT_ok idT_snapIndep (by decide) (by decide) (by decide)
    (cfgAnim3_postOk _) (by decide) (by decide) (by decide) (by decide) rtCfg_nil (by decide) (by decide) (by decide)
    fileAnim3 rfl fileAnim3_lt ops

example (ops : List PathOp) :=
  C03_anim_encode_decode_any_path_real rtCfg {} 1000 storeZ (fun _ _ => .sub) cfgAnim3 3 7 fcAnim3
    ⟨[.setDelay 1 10], [1, 2, 3, 4]⟩
    [⟨[.setDim 1 1, .setPos 1 1, .setDim 5 5, .setBlend 1], [9]⟩, ⟨[.resetPos, .resetDim, .setDispose 2], [5, 6, 7, 8]⟩]
    7 rtCfg_inflateOk (fun _ => rfl) (by decide) (by decide) (by decide)
    (cfgAnim3_postOk _) (by decide) (by decide) (by decide) (by decide) rtCfg_nil (by decide) (by decide) (by decide)
    fileAnim3 rfl fileAnim3_lt ops

/-- … and `C03_anim_default_encode_decode_any_path` to the same frames behind a separate default image -/
example (ops : List PathOp) :=
  C03_anim_default_encode_decode_any_path rtCfg idT {} {} 1000 storeZ (fun _ _ => .up) cfgAnimDef 2 0 fcAnim3
    ⟨[.setDelay 1 10], [1, 2, 3, 4]⟩
    [⟨[.setDim 1 1, .setPos 1 1, .setDim 5 5, .setBlend 1], [9]⟩, ⟨[.resetPos, .resetDim, .setDispose 2], [5, 6, 7, 8]⟩]
    7 (anyPathOk_of_contracts rtCfg idT_ok idT_snapIndep) rtCfg_inflateOk (fun _ => rfl) C01.idT_isIdentity
    (by decide) (by decide) (by decide) ⟨fun _ h => (by cases h), fun _ h => (by cases h)⟩
    (by decide) (by decide) (by decide) (by decide) rtCfg_nil (by decide) (by decide) (by decide)
    _ rfl (by decide +kernel) ops

/-- a concrete run on the three-frame animation, evaluated: a row of frame 0, the rest by `next_frame`; `next_frame_info`,
    frame 1 by its one row; frame 2 by `next_frame`.  Frame 1 is its one byte followed by the pre-fill. -/
example : (asmRun rtCfg idT (List.replicate 4 7) (readerOf rtCfg idT {} 1000 {} fileAnim3, Asm.init (List.replicate 4 7))
    [.nextRow, .nextFrame, .nextFrameInfo, .nextRow, .nextFrame]).2.frames = [(1, [9, 7, 7, 7]), (0, [1, 2, 3, 4])] := by
  decide +kernel

/-- `C03_anim_meta_encode_decode_any_path` applies to the palette animation with `pHYs`, `gAMA`, `iCCP` in front of `acTL` -/
example (ops : List PathOp) :=
  C03_anim_meta_encode_decode_any_path rtCfg idT {} {} 300 6 storeZ choosePal cfgAnimPal 2 0 { w := 3, h := 2 }
    ⟨[], [0x6C, 0xB4]⟩ [⟨[.setDim 2 1, .setPos 1 1], [0x90]⟩] 0xFF rtCfg_inflateOk (fun _ => rfl) C01.idT_isIdentity
    idT_ok idT_snapIndep (by decide) (by decide) (cfgAnimPal_metaOk _) (by decide) (by decide) (by decide) (by decide) rtCfg_nil
    (by decide) (by decide) (by decide) fileAnimPal rfl fileAnimPal_lt ops
example (ops : List PathOp) :=
  C03_anim_meta_encode_decode_any_path_real rtCfg {} 300 6 storeZ choosePal cfgAnimPal 2 0 { w := 3, h := 2 }
    ⟨[], [0x6C, 0xB4]⟩ [⟨[.setDim 2 1, .setPos 1 1], [0x90]⟩] 0xFF rtCfg_inflateOk (fun _ => rfl)
    (by decide) (by decide) (cfgAnimPal_metaOk _) (by decide) (by decide) (by decide) (by decide) rtCfg_nil
    (by decide) (by decide) (by decide) fileAnimPal rfl fileAnimPal_lt ops

/-- `C03_anim_stream_encode_decode_any_path` applies to the stream-writer session of `Props/C03AnimStream.lean` -/
example (ops : List PathOp) :=
  C03_anim_stream_encode_decode_any_path rtCfg idT {} {} 1000 0 Enc.toyCodec storeZ (fun _ _ => .sub) cfgAnim3 3 7 fcAnim3 0
    ⟨[.delay 1 10], [[1, 2], [], [3, 4]]⟩
    [⟨[.dim 1 1, .pos 1 1, .dim 5 5, .blend 1], [[9]]⟩, ⟨[.resetPos, .resetDim, .dispose 2], [[5], [6, 7, 8]]⟩]
    7 rtCfg_inflateOk (fun _ => rfl) C01.idT_isIdentity idT_ok idT_snapIndep (by decide) (by decide) (cfgAnim3_metaOk _)
    (by decide) (by decide) (by decide) (by decide) (by decide) (by decide) (by decide) rtCfg_nil (by decide) (by decide)
    (by decide) fileStream3 rfl fileStream3_lt ops
example (ops : List PathOp) :=
  C03_anim_stream_encode_decode_any_path_real rtCfg {} 1000 0 Enc.toyCodec storeZ (fun _ _ => .sub) cfgAnim3 3 7 fcAnim3 0
    ⟨[.delay 1 10], [[1, 2], [], [3, 4]]⟩
    [⟨[.dim 1 1, .pos 1 1, .dim 5 5, .blend 1], [[9]]⟩, ⟨[.resetPos, .resetDim, .dispose 2], [[5], [6, 7, 8]]⟩]
    7 rtCfg_inflateOk (fun _ => rfl) (by decide) (by decide) (cfgAnim3_metaOk _)
    (by decide) (by decide) (by decide) (by decide) (by decide) (by decide) (by decide) rtCfg_nil (by decide) (by decide)
    (by decide) fileStream3 rfl fileStream3_lt ops

/-! ### animations, any delivery -/

/-- `read_info` needs 114 bytes of the three-frame animation (up to the first byte of `IDAT` data) -/
theorem fileAnim3_ri : (step rtCfg idT (R.init {} 1000 {} fileAnim3 114) .readInfo).2 = .header := by decide +kernel

/-- **the instance of `C03_anim_encode_decode_any_delivery`**: the other 141 bytes arrive one by one; the retrying caller
    obtains the three frames, each with exactly its bytes (the second: its one byte, then the pre-fill) -/
example : resumeRun rtCfg idT fileAnim3.length (List.replicate 141 1) [.nextFrame 0, .nextFrame 7, .nextFrame 8]
      (step rtCfg idT (R.init {} 1000 {} fileAnim3 114) .readInfo).1 =
      [.frame ⟨2, 2, 0, 8, 2⟩ [1, 2, 3, 4], .frame ⟨1, 1, 0, 8, 1⟩ [9, 7, 7, 7], .frame ⟨2, 2, 0, 8, 2⟩ [5, 6, 7, 8]] :=
  (C03_anim_encode_decode_any_delivery rtCfg idT {} {} 1000 storeZ (fun _ _ => .sub) cfgAnim3 3 7 fcAnim3
    ⟨[.setDelay 1 10], [1, 2, 3, 4]⟩
    [⟨[.setDim 1 1, .setPos 1 1, .setDim 5 5, .setBlend 1], [9]⟩, ⟨[.resetPos, .resetDim, .setDispose 2], [5, 6, 7, 8]⟩]
    0 [7, 8] rtCfg_inflateOk (fun _ => rfl) C01.idT_isIdentity idT_resumeOk (by decide) (by decide) (by decide)
    (cfgAnim3_postOk _) (by decide) (by decide) (by decide) (by decide) rtCfg_nil (by decide) (by decide) (by decide) (by decide)
    fileAnim3 rfl fileAnim3_lt 114 (by rw [files_len.2.2.2.1]; decide) _ (step_eq_of_snd fileAnim3_ri)
    (List.replicate 141 1)).2 (by rw [files_len.2.2.2.1]; decide +kernel)

/-- the instances for the executable model's transformation, every schedule, `read_info` on the complete file: the animation
    with metadata in front of `acTL`, and the stream-writer animation -/
example (sched : List Nat) :=
  C03_anim_meta_encode_decode_any_delivery_real rtCfg {} 300 6 storeZ choosePal cfgAnimPal 2 0 { w := 3, h := 2 }
    ⟨[], [0x6C, 0xB4]⟩ [⟨[.setDim 2 1, .setPos 1 1], [0x90]⟩] 0 [0xFF] rtCfg_inflateOk (fun _ => rfl)
    (by decide) (by decide) (cfgAnimPal_metaOk _) (by decide) (by decide) (by decide) (by decide) rtCfg_nil
    (by decide) (by decide) (by decide) (by decide) fileAnimPal rfl fileAnimPal_lt fileAnimPal.length (Nat.le_refl _) _
    (C03_anim_meta_encode_decode_read_info rtCfg realT {} {} 300 6 storeZ choosePal cfgAnimPal 2 0 { w := 3, h := 2 }
      ⟨[], [0x6C, 0xB4]⟩ [⟨[.setDim 2 1, .setPos 1 1], [0x90]⟩] rtCfg_inflateOk (fun _ => rfl) realT_isIdentity
      (by decide) (by decide) (cfgAnimPal_metaOk _) (by decide) (by decide) (by decide) (by decide) rtCfg_nil
      (by decide) (by decide) (by decide) fileAnimPal rfl) sched
example (sched : List Nat) :=
  C03_anim_stream_encode_decode_any_delivery_real rtCfg {} 1000 0 Enc.toyCodec storeZ (fun _ _ => .sub) cfgAnim3 3 7 fcAnim3 0
    ⟨[.delay 1 10], [[1, 2], [], [3, 4]]⟩
    [⟨[.dim 1 1, .pos 1 1, .dim 5 5, .blend 1], [[9]]⟩, ⟨[.resetPos, .resetDim, .dispose 2], [[5], [6, 7, 8]]⟩]
    0 [7, 8] rtCfg_inflateOk (fun _ => rfl) (by decide) (by decide) (cfgAnim3_metaOk _)
    (by decide) (by decide) (by decide) (by decide) (by decide) (by decide) (by decide) rtCfg_nil (by decide) (by decide)
    (by decide) (by decide) fileStream3 rfl fileStream3_lt fileStream3.length (Nat.le_refl _) _
    (C03_anim_stream_encode_decode_read_info rtCfg realT {} {} 1000 0 Enc.toyCodec storeZ (fun _ _ => .sub) cfgAnim3 3 7
      fcAnim3 0 ⟨[.delay 1 10], [[1, 2], [], [3, 4]]⟩
      [⟨[.dim 1 1, .pos 1 1, .dim 5 5, .blend 1], [[9]]⟩, ⟨[.resetPos, .resetDim, .dispose 2], [[5], [6, 7, 8]]⟩]
      rtCfg_inflateOk (fun _ => rfl) realT_isIdentity (by decide) (by decide) (cfgAnim3_metaOk _)
      (by decide) (by decide) (by decide) (by decide) (by decide) (by decide) (by decide) rtCfg_nil (by decide) (by decide)
      (by decide) fileStream3 rfl) sched

end Examples

end Png.C03
