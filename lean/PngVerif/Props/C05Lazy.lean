import PngVerif.Proofs.LazyEofRun
import PngVerif.Props.C04Lazy
/-!
# C05 at the call-protocol level, for EVERY laziness of the inflater  (`Model/LazyReaderEof.lean`)

C05: a call that runs out of input answers `UnexpectedEof`; when more bytes have become available and THE SAME CALL
IS REPEATED — under any schedule of growth — the final outcome is that of decoding the complete input in one go.
`Props/C05.lean` proves this for the byte-level `Reader` model and its eager inflater.  Here the model is the call
protocol of `Png.Lazy` (`Props/C04Lazy.lean`: every arrival of the image data), extended with `Eof` pseudo-steps
anywhere in the arrival of every frame's data and in the stretches of chunks between the frames
(`Png.LazyEof`).  A read that finds a marker answers `.err .eof` and consumes the marker (the input has grown by
the next attempt).  `Env.base` = the same file and arrival with all markers removed.

Vocabulary: `LazyEof.step` = one ATTEMPT of a public call; `LazyEof.run` = a sequence of attempts (a caller that
repeats a call after `UnexpectedEof`, and one that goes on with a different call, are both such sequences);
`LazyEof.resume` = the caller that repeats the call while it answers `UnexpectedEof`, at most `n` times;
`LazyEof.resumeRun` / `resumeTraceRun` = a sequence of such calls: the final answers / all answers.
-/
namespace Png.C05Lazy
open Png.Lazy (Frame Arrival Res ErrC Site Op)

/-- the runs the theorems speak about: a source that hands out exactly each frame's data (markers anywhere),
    `remaining_frames ≥ 1`, the state after `read_info` -/
structure Start (e : LazyEof.Env) (rem0 : Nat) (s0 : LazyEof.St) : Prop where
  valid : e.base.Valid
  rem_pos : 1 ≤ rem0
  init : LazyEof.init e rem0 = some s0

/-- the run without markers starts in the state without markers -/
theorem Start.base {e : LazyEof.Env} {rem0 : Nat} {s0 : LazyEof.St} (h : Start e rem0 s0) :
    C04Lazy.Start e.base rem0 s0.core :=
  ⟨h.valid, h.rem_pos, (LazyEof.init_goodE e h.valid rem0 h.rem_pos s0 h.init).2⟩

theorem Start.good {e : LazyEof.Env} {rem0 : Nat} {s0 : LazyEof.St} (h : Start e rem0 s0) : LazyEof.GoodE e s0 :=
  (LazyEof.init_goodE e h.valid rem0 h.rem_pos s0 h.init).1

/-! ## 1. no panic -/

/-- **No attempt panics — for every file, every arrival, every placement of `Eof` markers, every sequence of
    attempts** (`ops` lists the attempts: after an `UnexpectedEof` the caller may repeat the call, or go on with any
    other call).  The state an interrupted call leaves behind satisfies the invariant `LazyEof.GoodE`. -/
theorem lazy_eof_no_panic (e : LazyEof.Env) (rem0 : Nat) (s0 : LazyEof.St) (h : Start e rem0 s0) (ops : List Op) :
    ∀ r ∈ (LazyEof.run e s0 ops).2, ∀ site, r ≠ .panic site :=
  (LazyEof.run_no_panic e h.valid ops s0 h.good).2

/-- the same spelled out for the caller that repeats each call while it answers `UnexpectedEof`, whatever the
    number `n` of repetitions it allows itself (also fewer than there are markers): none of the answers is a panic -/
theorem lazy_eof_no_panic_retrying (e : LazyEof.Env) (rem0 : Nat) (s0 : LazyEof.St) (h : Start e rem0 s0) (n : Nat)
    (ops : List Op) : ∀ r ∈ LazyEof.resumeTraceRun e n s0 ops, ∀ site, r ≠ .panic site :=
  LazyEof.resumeTraceRun_no_panic e h.valid n ops s0 h.good

/-! ## 2. the retrying caller sees the uninterrupted run -/

/-- **Resume completeness, for every laziness and every growth schedule.**  For every file, every arrival, every
    placement of `Eof` markers and EVERY call sequence: the caller that repeats each call while it answers
    `UnexpectedEof` (allowed at least as many repetitions as there are markers) gets, call by call, exactly the answers
    of the same call sequence on the same file and arrival with all markers removed — rows, frames (with ALL the rows
    written to the buffer over the attempts), errors, in order — and ends in the same reader state. -/
theorem lazy_resume_complete (e : LazyEof.Env) (rem0 : Nat) (s0 : LazyEof.St) (h : Start e rem0 s0) (n : Nat)
    (hn : LazyEof.marks e s0 ≤ n) (ops : List Op) :
    (LazyEof.resumeRun e n s0 ops).2 = (Png.Lazy.run e.base s0.core ops).2 ∧
    (LazyEof.resumeRun e n s0 ops).1.core = (Png.Lazy.run e.base s0.core ops).1 := by
  obtain ⟨h1, h2, _⟩ := LazyEof.resumeRun_sim e h.valid n ops s0 h.good hn
  exact ⟨h2, h1⟩

/-- the same on the level of everything the caller is answered: the answers other than `UnexpectedEof` are exactly
    the answers other than `UnexpectedEof` of the uninterrupted run (the uninterrupted run answers `UnexpectedEof`
    only for a read after `IEND`, `lazy_resume_complete` covers those) -/
theorem lazy_resume_complete_trace (e : LazyEof.Env) (rem0 : Nat) (s0 : LazyEof.St) (h : Start e rem0 s0) (n : Nat)
    (hn : LazyEof.marks e s0 ≤ n) (ops : List Op) :
    LazyEof.noEof (LazyEof.resumeTraceRun e n s0 ops) = LazyEof.noEof (Png.Lazy.run e.base s0.core ops).2 := by
  rw [LazyEof.traceRun_noEof, (lazy_resume_complete e rem0 s0 h n hn ops).1]

/-- **Independent of the arrival AND of the growth schedule** (with `C04Lazy.lazy_arrival_independent_upto_fatal`):
    two arrivals of the same file, each with its own `Eof` markers, a `Polled` call sequence: the retrying callers
    get the same answers up to and including the first failed `read_until_image_data`. -/
theorem lazy_resume_independent_upto_fatal (e1 e2 : LazyEof.Env) (rem0 : Nat) (s1 s2 : LazyEof.St)
    (hf : e1.base.frames = e2.base.frames) (h1 : Start e1 rem0 s1) (h2 : Start e2 rem0 s2) (n1 n2 : Nat)
    (hn1 : LazyEof.marks e1 s1 ≤ n1) (hn2 : LazyEof.marks e2 s2 ≤ n2) (ops : List Op)
    (hp : Png.Lazy.polledRes e1.base.frames false ops (LazyEof.resumeRun e1 n1 s1 ops).2 = true) :
    Png.Lazy.cutFatal (LazyEof.resumeRun e1 n1 s1 ops).2 = Png.Lazy.cutFatal (LazyEof.resumeRun e2 n2 s2 ops).2 := by
  rw [(lazy_resume_complete e1 rem0 s1 h1 n1 hn1 ops).1] at hp ⊢
  rw [(lazy_resume_complete e2 rem0 s2 h2 n2 hn2 ops).1]
  exact C04Lazy.lazy_arrival_independent_upto_fatal e1.base e2.base rem0 s1.core s2.core hf h1.base h2.base ops hp

/-- ... and for a file that contains the frames it declares the answer lists are equal -/
theorem lazy_resume_independent_partial (e1 e2 : LazyEof.Env) (rem0 : Nat) (s1 s2 : LazyEof.St)
    (hf : e1.base.frames = e2.base.frames) (h1 : Start e1 rem0 s1) (h2 : Start e2 rem0 s2)
    (hc : rem0 ≤ e1.base.frames.length) (n1 n2 : Nat)
    (hn1 : LazyEof.marks e1 s1 ≤ n1) (hn2 : LazyEof.marks e2 s2 ≤ n2) (ops : List Op)
    (hp : Png.Lazy.polledRes e1.base.frames false ops (LazyEof.resumeRun e1 n1 s1 ops).2 = true) :
    (LazyEof.resumeRun e1 n1 s1 ops).2 = (LazyEof.resumeRun e2 n2 s2 ops).2 := by
  rw [(lazy_resume_complete e1 rem0 s1 h1 n1 hn1 ops).1] at hp ⊢
  rw [(lazy_resume_complete e2 rem0 s2 h2 n2 hn2 ops).1]
  exact C04Lazy.lazy_arrival_independent_partial e1.base e2.base rem0 s1.core s2.core hf h1.base h2.base hc ops hp

/-! ## 3. an interrupted call fabricates nothing -/

/-- **An attempt that answers `UnexpectedEof` has delivered nothing the uninterrupted call does not deliver.**
    In any state reachable by any sequence of attempts `pre`, if an attempt of `op` answers `.err .eof` having written
    the row-units `w` into the caller's buffer (it reports no row and no frame), then
    (a) every row of `w` is a row of the frame the reader stands in, covered by that frame's data;
    (b) if the uninterrupted call answers `.frame k w0`, `w` is an initial part of `w0`;
    (c) the same call on the state left behind answers what the uninterrupted call answers (with `w` already in the
        buffer) and ends in the same state: nothing is lost, nothing is decoded twice. -/
theorem lazy_eof_never_fabricates (e : LazyEof.Env) (rem0 : Nat) (s0 : LazyEof.St) (h : Start e rem0 s0)
    (pre : List Op) (op : Op) (s' : LazyEof.St) (w : List Nat)
    (ha : LazyEof.step e (LazyEof.run e s0 pre).1 op = (s', .err .eof, w)) :
    (∀ i ∈ w, Png.Lazy.covers (Png.Lazy.rowlensOf e.base.frames s'.core.fi)
      (Png.Lazy.Spec.availOf e.base.frames s'.core.fi) i = true) ∧
    (∀ k w0, (Png.Lazy.step e.base (LazyEof.run e s0 pre).1.core op).2 = .frame k w0 → ∃ rest, w0 = w ++ rest) ∧
    Png.Lazy.step e.base (LazyEof.run e s0 pre).1.core op =
      LazyEof.addWp w (Png.Lazy.step e.base s'.core op) := by
  have hg := (LazyEof.run_no_panic e h.valid pre s0 h.good).1
  obtain ⟨_, h2, h3, h4⟩ := LazyEof.eof_attempt e h.valid _ hg op s' w ha
  exact ⟨h2, h3, h4⟩

/-- ... and what the retrying caller is handed is backed by the data of the file: no frame is reported for
    incomplete data, no row twice, none skipped (`C04Lazy.lazy_rows_exact` carried over) -/
theorem lazy_resume_rows_exact (e : LazyEof.Env) (rem0 : Nat) (s0 : LazyEof.St) (h : Start e rem0 s0) (n : Nat)
    (hn : LazyEof.marks e s0 ≤ n) (ops : List Op) :
    (∀ k, ∃ d, d ≤ Png.Lazy.rowsLen e.base.frames k ∧
      Png.Lazy.delivered k (LazyEof.resumeRun e n s0 ops).2 = List.range d) ∧
    (∀ p k w, (LazyEof.resumeRun e n s0 ops).2[p]? = some (.frame k w) →
      Png.Lazy.delivered k ((LazyEof.resumeRun e n s0 ops).2.take (p + 1)) =
        List.range (Png.Lazy.rowsLen e.base.frames k)) ∧
    (∀ r ∈ (LazyEof.resumeRun e n s0 ops).2, Png.Lazy.Backed e.base.frames r) := by
  rw [(lazy_resume_complete e rem0 s0 h n hn ops).1]
  obtain ⟨_, h2, h3, h4⟩ := C04Lazy.lazy_rows_exact e.base rem0 s0.core h.base ops
  exact ⟨h2, h3, h4⟩

/-! ## 4. the caller must repeat THE SAME call -/

def runFrom (e : LazyEof.Env) (rem0 : Nat) (ops : List Op) : Option (List Res) :=
  (LazyEof.init e rem0).map fun s => (LazyEof.run e s ops).2

def resumeFrom (e : LazyEof.Env) (n rem0 : Nat) (ops : List Op) : Option (List Res) :=
  (LazyEof.init e rem0).map fun s => (LazyEof.resumeRun e n s ops).2

def traceFrom (e : LazyEof.Env) (n rem0 : Nat) (ops : List Op) : Option (List Res) :=
  (LazyEof.init e rem0).map fun s => LazyEof.resumeTraceRun e n s ops

/-- a still image of two rows of three bytes -/
def swFile : List Frame := [⟨[3, 3], 6⟩]
/-- the data arrives in two pieces; the input ends before the end of the data sequence is seen -/
def swSmall : LazyEof.Env := .ofFlat false swFile [([some 3, some 3, none], 0, 0)]
/-- the same file, the same place where the input ends; the inflater hands out everything with `Done` -/
def swLarge : LazyEof.Env := .ofFlat false swFile [([none], 6, 0)]

/-- **Switching to another call after `UnexpectedEof` shows the arrival** (the situation in which the harness stops
    comparing, DESIGN Appendix F).  `next_frame` answers `UnexpectedEof`; the caller goes on with row calls instead of
    repeating it.  Small pieces: both rows were consumed by the interrupted `next_frame` (they are in ITS buffer), the
    row calls answer `None`.  One large piece: nothing was consumed, the row calls deliver both rows.  The caller that
    repeats `next_frame` gets the frame in both cases, as `lazy_resume_complete` says. -/
theorem lazy_eof_switch_counterexample :
    runFrom swSmall 1 [.nextFrame, .nextRow, .nextRow] = some [.err .eof, .none, .none] ∧
    runFrom swLarge 1 [.nextFrame, .nextRow, .nextRow] = some [.err .eof, .row 0 0, .row 0 1] ∧
    swSmall.base.frames = swLarge.base.frames ∧
    resumeFrom swSmall 1 1 [.nextFrame, .nextRow, .nextRow] = some [.frame 0 [0, 1], .none, .none] ∧
    resumeFrom swLarge 1 1 [.nextFrame, .nextRow, .nextRow] = some [.frame 0 [0, 1], .none, .none] ∧
    traceFrom swSmall 1 1 [.nextFrame, .nextRow, .nextRow] = some [.err .eof, .frame 0 [0, 1], .none, .none] := by
  decide

/-! ## non-vacuity: concrete files, arrivals, `Eof` placements -/

/-- the interlaced animation of `C04Lazy.exFile` (third frame with short data); markers in front of the first pull,
    between pulls, in front of `Done`, and in the stretches after each frame -/
def exE : LazyEof.Env :=
  .ofFlat true C04Lazy.exFile
    [([none, some 1, some 0, none, none, some 5, some 2, none], 7, 2), ([some 0, none, some 3], 8, 0),
     ([none, some 7, none], 0, 3)]

/-- without the markers it is the environment of `C04Lazy` -/
example : exE.base.frames = C04Lazy.exFile ∧ exE.base.arrs = C04Lazy.exEnv.arrs ∧ exE.eofs = [[1, 0, 2, 0, 1], [0, 1, 0], [1, 1]] ∧
    exE.gaps = [2, 0, 3] := by decide

example : ∃ s, Start exE 3 s ∧ LazyEof.marks exE s = 12 :=
  ⟨_, ⟨Png.Lazy.valid_of_validB _ (by decide), by decide, rfl⟩, by decide⟩

/-- the retrying caller on a mixed call sequence: the answers of `C04Lazy`'s example, although 12 attempts answered
    `UnexpectedEof` on the way -/
example :
    resumeFrom exE 12 3 C04Lazy.exOps = C04Lazy.runFrom C04Lazy.exEnv 3 C04Lazy.exOps ∧
    ((traceFrom exE 12 3 C04Lazy.exOps).map fun t => (t.length, (LazyEof.noEof t).length)) = some (28, 16) := by
  decide

/-- `next_frame` interrupted after its first row, repeated: the frame with BOTH rows; `next_frame_info`, `next_frame`,
    `finish` interrupted in the stretches between the frames and repeated -/
def anE : LazyEof.Env :=
  .ofFlat false [⟨[3, 3], 6⟩, ⟨[2], 2⟩] [([some 3, none, some 3], 0, 1), ([none, some 2], 0, 2)]

example :
    traceFrom anE 5 2 [.nextFrame, .nextFrameInfo, .nextFrame, .finish, .finish] =
      some [.err .eof, .frame 0 [0, 1], .err .eof, .fctl 1, .err .eof, .frame 1 [0], .err .eof, .err .eof, .ok,
        .err .polled] ∧
    resumeFrom anE 5 2 [.nextFrame, .nextFrameInfo, .nextFrame, .finish, .finish] =
      some [.frame 0 [0, 1], .fctl 1, .frame 1 [0], .ok, .err .polled] := by
  decide

/-- a caller that never repeats: the interrupted `next_frame` keeps row 0 (the following `next_frame_info` drops the
    rest of the frame); every answer is an answer, none a panic -/
example :
    runFrom anE 2 [.nextFrame, .nextFrameInfo, .nextFrameInfo, .nextFrame, .nextFrame, .nextFrame, .finish, .finish,
      .finish, .finish] =
      some [.err .eof, .err .eof, .fctl 1, .err .eof, .frame 1 [0], .err .polled, .err .eof, .err .eof, .ok,
        .err .polled] := by
  decide

end Png.C05Lazy
