import PngVerif.Proofs.TextReportedRun
import PngVerif.Proofs.FramingToy
import PngVerif.Props.C20
/-!
# C16 ∘ C20 — text chunks AS REPORTED: what `png::Info` holds for tEXt / zTXt / iTXt is the specification's decoding

`Props/C16.lean` proves that the stream decoder (`Model/Framing.lean`) stores the right FIELDS of a text chunk as byte
strings; `Props/C20.lean` proves the text codecs (`Model/Text.lean`).  The crate reports chunk VALUES
(`TEXtChunk { keyword: String, text: String }`, `ZTXtChunk`, `ITXtChunk`) built by `TEXtChunk::decode` /
`ZTXtChunk::decode` / `ITXtChunk::decode` from the stored fields (stream.rs:1729, 1747, 1788) and pushed onto three
vectors of `Info`.  This file ties the two models (property theorems only; lemmas: `Proofs/TextReported.lean`,
`Proofs/TextReportedRun.lean`):

* `reportedText` is that composition; `uncompressedLatin1Text` / `compressedLatin1Text` / `utf8Text` are the three
  vectors (the framing model keeps one list in order of arrival; each vector is its sub-list of one kind, order kept);
* **the two models agree on EVERY chunk body** — `split_keyword_models_agree`, `text_parsers_agree`,
  `tEXt_chunk_reported`, `zTXt_chunk_reported`, `iTXt_chunk_reported`, `text_chunk_accept_iff`: `parse_chunk` accepts a
  text chunk exactly when the text model's parser accepts its body; the entry appended to the vector of its kind is
  exactly the chunk value the text model computes, the other two vectors are untouched; a refused chunk is refused with
  the `Format` error that names the text model's `TextDecodingError`, fatally.  No corner disagrees (keyword of length
  0 / 79 / 80, missing NUL, empty body, empty text, missing flag or method, bad flag, bad method, non-ASCII language tag,
  ill-formed UTF-8): no finding about either model;
* (a) `tEXt_reported`, `reported_latin1_exact`; (b) `zTXt_reported`, `zTXt_entry_text`; (c) `iTXt_accept_iff`,
  `iTXt_reported`, `iTXt_entry_text_compressed`; (d) `text_order`, `text_order_big`, `text_order_stream`,
  `text_ignored`, `accepted_text_chunks_reported_in_order`, `stored_records_all_reported`.

For iTXt the framing model's abstract UTF-8 test must be the real one: hypothesis
`hu : ∀ b, cfg.utf8Ok b = (utf8Decode b).isSome` (as in `C03`'s `textBodyOk_iTXt`); satisfiable: `cfgU` below.
-/
namespace Png.C16
open Png Png.Framing

/-! ## the two models agree on every body -/

/-- **`split_keyword`** (stream.rs:1706-1717): the framing model's and the text model's versions return the same
    slices / the same error on every byte string -/
theorem split_keyword_models_agree (b : Bytes) :
    Framing.splitKeyword b = match Png.splitKeyword b with
      | .ok p => .ok p
      | .error e => .error (.format (errName e)) := splitKeyword_tie b

/-- **`parse_text` / `parse_ztxt` / `parse_itxt`, for EVERY chunk body** (`d.raw`), any decoder that has seen `IHDR` and
    whose `Limits` cover the body: the framing parser succeeds exactly when the text model's parser does; the record
    `rec` it appends to `Info` is reported (`reportedText`: the crate's `decode` call on the stored fields) as exactly
    the chunk value of the text model; otherwise it fails with the `Format` error naming the text model's error.  The
    `expect` in `decode_ascii` never fires. -/
theorem text_parsers_agree (cfg : Cfg) (hu : ∀ b, cfg.utf8Ok b = (utf8Decode b).isSome) (d : Dec) (i : Info)
    (hi : d.info = some i) (hlim : d.raw.length ≤ d.limit) :
    (match Png.parseTEXt d.raw with
      | .ok c => ∃ rec, parseText d = .ok (addText (charged d) rec, .nothing) ∧ reportedText rec = .ok (.tEXt c)
      | .error e => parseText d = .error (.format (errName e))) ∧
    (match Png.parseZTXt d.raw with
      | .ok c => ∃ rec, parseZtxt d = .ok (addText (charged d) rec, .nothing) ∧ reportedText rec = .ok (.zTXt c)
      | .error e => parseZtxt d = .error (.format (errName e))) ∧
    (match Png.parseITXt d.raw with
      | .ok c => ∃ rec, parseItxt cfg d = .ok (addText (charged d) rec, .nothing) ∧ reportedText rec = .ok (.iTXt c)
      | .err e => parseItxt cfg d = .error (.format (errName e))
      | .panic => False) :=
  ⟨parseText_tie d i hi hlim, parseZtxt_tie d i hi hlim, parseItxt_tie cfg hu d i hi hlim⟩

/-- the `Format` error determines the `TextDecodingError` -/
theorem error_names_distinct (a b : TextDecErr) (h : errName a = errName b) : a = b := errName_injective a b h

/-- **a tEXt chunk through `parse_chunk`, any body**: accepted by the text model ⟹ accepted, `Decoded::Nothing`, the
    body charged to `Limits`, the text model's chunk appended to `uncompressed_latin1_text`, the other vectors
    untouched; refused by the text model ⟹ the same error, fatal -/
theorem tEXt_chunk_reported (cfg : Cfg) (d : Dec) (i : Info) (hi : d.info = some i) (ho : d.opts.ignoreText = false)
    (hlim : d.raw.length ≤ d.limit) :
    match Png.parseTEXt d.raw with
    | .ok c => ∃ d' i', parseChunk cfg d tEXt = .ok (.nothing, d') ∧ d'.info = some i' ∧ d'.limit = d.limit - d.raw.length ∧
        uncompressedLatin1Text i' = uncompressedLatin1Text i ++ [c] ∧
        compressedLatin1Text i' = compressedLatin1Text i ∧ utf8Text i' = utf8Text i
    | .error e => parseChunk cfg d tEXt = .error (.format (errName e)) := by
  have := tEXt_chunk_tie cfg d i hi ho hlim
  cases hp : Png.parseTEXt d.raw with
  | error e => rw [hp] at this; exact this
  | ok c =>
    rw [hp] at this
    obtain ⟨d', i', h1, h2, h3, h4⟩ := this
    obtain ⟨v1, v2, v3⟩ := vectors_append i i' _ h4
    exact ⟨d', i', h1, h2, h3, v1, v2.trans (List.append_nil _), v3.trans (List.append_nil _)⟩

/-- **a zTXt chunk through `parse_chunk`, any body** -/
theorem zTXt_chunk_reported (cfg : Cfg) (d : Dec) (i : Info) (hi : d.info = some i) (ho : d.opts.ignoreText = false)
    (hlim : d.raw.length ≤ d.limit) :
    match Png.parseZTXt d.raw with
    | .ok c => ∃ d' i', parseChunk cfg d zTXt = .ok (.nothing, d') ∧ d'.info = some i' ∧ d'.limit = d.limit - d.raw.length ∧
        compressedLatin1Text i' = compressedLatin1Text i ++ [c] ∧
        uncompressedLatin1Text i' = uncompressedLatin1Text i ∧ utf8Text i' = utf8Text i
    | .error e => parseChunk cfg d zTXt = .error (.format (errName e)) := by
  have := zTXt_chunk_tie cfg d i hi ho hlim
  cases hp : Png.parseZTXt d.raw with
  | error e => rw [hp] at this; exact this
  | ok c =>
    rw [hp] at this
    obtain ⟨d', i', h1, h2, h3, h4⟩ := this
    obtain ⟨v1, v2, v3⟩ := vectors_append i i' _ h4
    exact ⟨d', i', h1, h2, h3, v2, v1.trans (List.append_nil _), v3.trans (List.append_nil _)⟩

/-- **an iTXt chunk through `parse_chunk`, any body** (real UTF-8 test) -/
theorem iTXt_chunk_reported (cfg : Cfg) (hu : ∀ b, cfg.utf8Ok b = (utf8Decode b).isSome) (d : Dec) (i : Info)
    (hi : d.info = some i) (ho : d.opts.ignoreText = false) (hlim : d.raw.length ≤ d.limit) :
    match Png.parseITXt d.raw with
    | .ok c => ∃ d' i', parseChunk cfg d iTXt = .ok (.nothing, d') ∧ d'.info = some i' ∧ d'.limit = d.limit - d.raw.length ∧
        utf8Text i' = utf8Text i ++ [c] ∧
        uncompressedLatin1Text i' = uncompressedLatin1Text i ∧ compressedLatin1Text i' = compressedLatin1Text i
    | .err e => parseChunk cfg d iTXt = .error (.format (errName e))
    | .panic => False := by
  have := iTXt_chunk_tie cfg hu d i hi ho hlim
  cases hp : Png.parseITXt d.raw with
  | err e => rw [hp] at this; exact this
  | panic => rw [hp] at this; exact this
  | ok c =>
    rw [hp] at this
    obtain ⟨d', i', h1, h2, h3, h4⟩ := this
    obtain ⟨v1, v2, v3⟩ := vectors_append i i' _ h4
    exact ⟨d', i', h1, h2, h3, v3, v1.trans (List.append_nil _), v2.trans (List.append_nil _)⟩

/-- **acceptance, any body**: `parse_chunk` accepts a text chunk iff the text model's parser accepts its body
    (what those bodies are: `C20.tEXt_layout`, `C20.zTXt_layout`, `C20.iTXt_layout`) -/
theorem text_chunk_accept_iff (cfg : Cfg) (hu : ∀ b, cfg.utf8Ok b = (utf8Decode b).isSome) (d : Dec) (i : Info)
    (hi : d.info = some i) (ho : d.opts.ignoreText = false) (hlim : d.raw.length ≤ d.limit) :
    ((∃ ev d', parseChunk cfg d tEXt = .ok (ev, d')) ↔ ∃ c, Png.parseTEXt d.raw = .ok c) ∧
    ((∃ ev d', parseChunk cfg d zTXt = .ok (ev, d')) ↔ ∃ c, Png.parseZTXt d.raw = .ok c) ∧
    ((∃ ev d', parseChunk cfg d iTXt = .ok (ev, d')) ↔ ∃ c, Png.parseITXt d.raw = .ok c) := by
  refine ⟨?_, ?_, ?_⟩
  · have := tEXt_chunk_tie cfg d i hi ho hlim
    cases hp : Png.parseTEXt d.raw with
    | error e =>
      rw [hp] at this
      exact ⟨fun ⟨ev, d', h⟩ => (by rw [this] at h; cases h), fun ⟨c, h⟩ => (by cases h)⟩
    | ok c =>
      rw [hp] at this
      obtain ⟨d', _, h1, _⟩ := this
      exact ⟨fun _ => ⟨c, rfl⟩, fun _ => ⟨_, d', h1⟩⟩
  · have := zTXt_chunk_tie cfg d i hi ho hlim
    cases hp : Png.parseZTXt d.raw with
    | error e =>
      rw [hp] at this
      exact ⟨fun ⟨ev, d', h⟩ => (by rw [this] at h; cases h), fun ⟨c, h⟩ => (by cases h)⟩
    | ok c =>
      rw [hp] at this
      obtain ⟨d', _, h1, _⟩ := this
      exact ⟨fun _ => ⟨c, rfl⟩, fun _ => ⟨_, d', h1⟩⟩
  · have := iTXt_chunk_tie cfg hu d i hi ho hlim
    cases hp : Png.parseITXt d.raw with
    | err e =>
      rw [hp] at this
      exact ⟨fun ⟨ev, d', h⟩ => (by rw [this] at h; cases h), fun ⟨c, h⟩ => (by cases h)⟩
    | panic => rw [hp] at this; exact this.elim
    | ok c =>
      rw [hp] at this
      obtain ⟨d', _, h1, _⟩ := this
      exact ⟨fun _ => ⟨c, rfl⟩, fun _ => ⟨_, d', h1⟩⟩

/-! ## (a) tEXt: Latin-1, byte for code point -/

theorem keywordBytes_of_ok {kw : Bytes} (h : KeywordOk kw) : KeywordBytes kw :=
  ⟨h.1, h.2.1, fun hm => h.2.2 0 hm rfl⟩

/-- **(a)** a tEXt chunk with body `kw ++ [0] ++ txt` (keyword of 1..79 non-zero bytes; the text may contain ANY byte,
    zero included) is reported as `TEXtChunk { keyword: latin1(kw), text: latin1(txt) }`, appended to
    `uncompressed_latin1_text`; the reported text has exactly as many characters as `txt` has bytes, the `j`-th
    character's code point is the `j`-th byte's value (nothing dropped, nothing reordered), and the bytes are
    recoverable from the reported string -/
theorem tEXt_reported (cfg : Cfg) (d : Dec) (i : Info) (kw txt : Bytes) (hk : KeywordOk kw) (hi : d.info = some i)
    (ho : d.opts.ignoreText = false) (hlim : d.raw.length ≤ d.limit) (hraw : d.raw = kw ++ [0] ++ txt) :
    (∃ d' i', parseChunk cfg d tEXt = .ok (.nothing, d') ∧ d'.info = some i' ∧
      uncompressedLatin1Text i' = uncompressedLatin1Text i ++ [⟨decodeLatin1 kw, decodeLatin1 txt⟩] ∧
      compressedLatin1Text i' = compressedLatin1Text i ∧ utf8Text i' = utf8Text i) ∧
    (decodeLatin1 txt).length = txt.length ∧
    (∀ j (h : j < txt.length), ((decodeLatin1 txt).toList[j]?).map Char.toNat = some txt[j].toNat) ∧
    encodeLatin1 (decodeLatin1 txt) = .ok txt ∧
    (decodeLatin1 kw).length = kw.length ∧
    (∀ j (h : j < kw.length), ((decodeLatin1 kw).toList[j]?).map Char.toNat = some kw[j].toNat) := by
  have hl : Png.parseTEXt d.raw = .ok ⟨decodeLatin1 kw, decodeLatin1 txt⟩ := by
    rw [hraw, List.append_assoc]; exact parseTEXt_layout kw txt (keywordBytes_of_ok hk)
  have := tEXt_chunk_reported cfg d i hi ho hlim
  rw [hl] at this
  obtain ⟨d', i', h1, h2, _, h4, h5, h6⟩ := this
  exact ⟨⟨d', i', h1, h2, h4, h5, h6⟩, (C20.latin1_positions txt).1, (C20.latin1_positions txt).2,
    C20.latin1_decode_encode txt, (C20.latin1_positions kw).1, (C20.latin1_positions kw).2⟩

/-- all 256 byte values: byte `b` is reported as the character with code point `b` (`C20.latin1_pointwise`), so a
    reported Latin-1 string (keyword or text of tEXt, keyword of zTXt / iTXt, inflated text of zTXt) determines the
    bytes of the chunk field (`decodeLatin1` is injective) -/
theorem reported_latin1_exact :
    (∀ b : UInt8, (decodeLatin1 [b]).toList = [Char.ofNat b.toNat] ∧ (Char.ofNat b.toNat).toNat = b.toNat) ∧
    (∀ a b : Bytes, decodeLatin1 a = decodeLatin1 b → a = b) ∧
    (∀ a b : Bytes, decodeLatin1 (a ++ b) = decodeLatin1 a ++ decodeLatin1 b) :=
  ⟨fun b => ⟨(C20.latin1_pointwise.1 b).1, (C20.latin1_pointwise.1 b).2.1⟩, decodeLatin1_injective, decodeLatin1_append⟩

/-! ## (b) zTXt: the payload is stored untouched; its text is the Latin-1 decoding of what it inflates to -/

/-- **(b), the entry**: a zTXt chunk `kw ++ [0, 0] ++ zs` (compression method 0) is reported as
    `ZTXtChunk { keyword: latin1(kw), text: Compressed(zs) }`, appended to `compressed_latin1_text` -/
theorem zTXt_reported (cfg : Cfg) (d : Dec) (i : Info) (kw zs : Bytes) (hk : KeywordOk kw) (hi : d.info = some i)
    (ho : d.opts.ignoreText = false) (hlim : d.raw.length ≤ d.limit) (hraw : d.raw = kw ++ [0, 0] ++ zs) :
    ∃ d' i', parseChunk cfg d zTXt = .ok (.nothing, d') ∧ d'.info = some i' ∧
      compressedLatin1Text i' = compressedLatin1Text i ++ [⟨decodeLatin1 kw, .compressed zs⟩] ∧
      uncompressedLatin1Text i' = uncompressedLatin1Text i ∧ utf8Text i' = utf8Text i := by
  have hl : Png.parseZTXt d.raw = .ok ⟨decodeLatin1 kw, .compressed zs⟩ := by
    rw [hraw, List.append_assoc]; exact parseZTXt_layout kw zs (keywordBytes_of_ok hk)
  have := zTXt_chunk_reported cfg d i hi ho hlim
  rw [hl] at this
  obtain ⟨d', i', h1, h2, _, h4, h5, h6⟩ := this
  exact ⟨d', i', h1, h2, h4, h5, h6⟩

/-- **(b), its text**: for the reported entry `c = ZTXtChunk { keyword, text: Compressed(zs) }` and any inflater
    satisfying its contract: `get_text` = Latin-1 decoding of the inflated payload (`InflationError` if it does not
    inflate); `decompress_text_with_limit(n)` stores that decoding when the payload inflates to at most `n` bytes, and
    otherwise fails with `OutOfDecompressionSpace` (too long) / `InflationError` or `OutOfDecompressionSpace` (corrupt),
    the chunk unchanged — in particular still holding the payload, so a retry with a larger limit succeeds -/
theorem zTXt_entry_text (z : ZCodec) (hz : z.Ok) (keyword : String) (zs : Bytes) :
    let c : ZTXt := ⟨keyword, .compressed zs⟩
    (c.getText z = match z.decompress zs with
      | none => .error .inflationError
      | some raw => .ok (decodeLatin1 raw)) ∧
    (∀ n raw, z.decompress zs = some raw → raw.length ≤ n →
      c.decompressWithLimit z n = (⟨keyword, .uncompressed (decodeLatin1 raw)⟩, .ok ()) ∧
      (ZTXt.mk keyword (.uncompressed (decodeLatin1 raw))).getText z = .ok (decodeLatin1 raw)) ∧
    (∀ n raw, z.decompress zs = some raw → raw.length > n →
      c.decompressWithLimit z n = (c, .error .outOfDecompressionSpace)) ∧
    (∀ n, z.decompress zs = none →
      c.decompressWithLimit z n = (c, .error .inflationError) ∨
      c.decompressWithLimit z n = (c, .error .outOfDecompressionSpace)) ∧
    (∀ n e, (c.decompressWithLimit z n).2 = .error e → (c.decompressWithLimit z n).1 = c) := by
  intro c
  refine ⟨C20.ztxt_getText z c zs rfl, ?_, ?_, ?_, ?_⟩
  · intro n raw hd hn
    refine ⟨?_, rfl⟩
    show ({ c with text := (c.text.decompressWithLimit z latin1Coding n).1 }, (c.text.decompressWithLimit z latin1Coding n).2) = _
    rw [show c.text = .compressed zs from rfl, OptC.decompress_of_valid hz n zs raw (decodeLatin1 raw) hd hn rfl]
  · intro n raw hd hn; exact (C20.ztxt_limit_respected z hz n c).2.1 zs raw rfl hd hn
  · intro n hd; exact (C20.ztxt_limit_respected z hz n c).2.2.1 zs rfl hd
  · intro n e he; exact (C20.ztxt_limit_respected z hz n c).1 e he

/-! ## (c) iTXt -/

/-- **(c), acceptance**: an iTXt chunk with the three separators in place — body
    `kw 0 flag method lang 0 tk 0 text`, keyword of 1..79 non-zero bytes, no zero byte in the language tag and the
    translated keyword — is accepted iff: the flag is 0 or 1; the method is 0 if the flag is 1; the language tag is
    ASCII; the translated keyword is valid UTF-8; and, if the flag is 0, the text is valid UTF-8
    (`C20.utf8_itxt_accept_iff` is the flag-0 case; what "valid UTF-8" means: `C20.utf8_exact`) -/
theorem iTXt_accept_iff (cfg : Cfg) (hu : ∀ b, cfg.utf8Ok b = (utf8Decode b).isSome) (d : Dec) (i : Info)
    (kw lang tk text : Bytes) (flag method : UInt8) (hk : KeywordOk kw) (hl : ∀ b ∈ lang, b ≠ 0) (ht : ∀ b ∈ tk, b ≠ 0)
    (hi : d.info = some i) (ho : d.opts.ignoreText = false) (hlim : d.raw.length ≤ d.limit)
    (hraw : d.raw = kw ++ 0 :: flag :: method :: (lang ++ 0 :: (tk ++ 0 :: text))) :
    (∃ ev d', parseChunk cfg d iTXt = .ok (ev, d')) ↔
      flag.toNat ≤ 1 ∧ (flag = 1 → method = 0) ∧ isAsciiBytes lang = true ∧ (utf8Decode tk).isSome = true ∧
      (flag = 0 → (utf8Decode text).isSome = true) := by
  have hkb := keywordBytes_of_ok hk
  have hl : Png.parseITXt d.raw = ITXt.decode kw flag method lang tk text := by
    rw [hraw]; exact parseITXt_layout kw lang tk text flag method hkb (fun h => hl 0 h rfl) (fun h => ht 0 h rfl)
  rw [(text_chunk_accept_iff cfg hu d i hi ho hlim).2.2, hl, ITXt_decode_accept_iff]
  have hb : badKeywordLen kw = false := (badKeywordLen_eq_false kw).mpr ⟨hkb.1, hkb.2.1⟩
  simp only [hb, true_and]

/-- **(c), the entry**: an accepted iTXt chunk of that layout is reported as the `ITXtChunk` `c` appended to `utf8_text`
    with: keyword and language tag code point for byte; the translated keyword the string whose UTF-8 encoding is the
    field, byte for byte; flag 0: `compressed = false` and the text the string whose UTF-8 encoding is the text field,
    byte for byte — reported unchanged — and `get_text` returns it; flag 1: `compressed = true` and the payload
    stored untouched -/
theorem iTXt_reported (cfg : Cfg) (hu : ∀ b, cfg.utf8Ok b = (utf8Decode b).isSome) (z : ZCodec) (d : Dec) (i : Info)
    (kw lang tk text : Bytes) (flag method : UInt8) (hk : KeywordOk kw) (hl : ∀ b ∈ lang, b ≠ 0) (ht : ∀ b ∈ tk, b ≠ 0)
    (hi : d.info = some i) (ho : d.opts.ignoreText = false) (hlim : d.raw.length ≤ d.limit)
    (hraw : d.raw = kw ++ 0 :: flag :: method :: (lang ++ 0 :: (tk ++ 0 :: text)))
    (ev : Ev) (d' : Dec) (hacc : parseChunk cfg d iTXt = .ok (ev, d')) :
    ∃ i' c, ev = .nothing ∧ d'.info = some i' ∧ utf8Text i' = utf8Text i ++ [c] ∧
      uncompressedLatin1Text i' = uncompressedLatin1Text i ∧ compressedLatin1Text i' = compressedLatin1Text i ∧
      c.keyword = decodeLatin1 kw ∧ c.languageTag = decodeLatin1 lang ∧ utf8Encode c.translatedKeyword = tk ∧
      ((flag = 0 ∧ c.compressed = false ∧ ∃ s, c.text = .uncompressed s ∧ utf8Encode s = text ∧ c.getText z = .ok s) ∨
       (flag = 1 ∧ method = 0 ∧ c.compressed = true ∧ c.text = .compressed text)) := by
  have hkb := keywordBytes_of_ok hk
  have hl : Png.parseITXt d.raw = ITXt.decode kw flag method lang tk text := by
    rw [hraw]; exact parseITXt_layout kw lang tk text flag method hkb (fun h => hl 0 h rfl) (fun h => ht 0 h rfl)
  have := iTXt_chunk_reported cfg hu d i hi ho hlim
  cases hp : Png.parseITXt d.raw with
  | err e => rw [hp] at this; rw [this] at hacc; cases hacc
  | panic => rw [hp] at this; exact this.elim
  | ok c =>
    rw [hp] at this
    obtain ⟨d2, i', h1, h2, _, h4, h5, h6⟩ := this
    rw [h1] at hacc
    cases hacc
    obtain ⟨f1, f2, f3, f4⟩ := ITXt_decode_fields kw lang tk text flag method c (hl ▸ hp)
    refine ⟨i', c, rfl, h2, h4, h5, h6, f1, f2, f3, ?_⟩
    rcases f4 with ⟨g1, g2, s, g3, g4⟩ | g
    · exact Or.inl ⟨g1, g2, s, g3, g4, by unfold ITXt.getText; rw [g3]; rfl⟩
    · exact Or.inr g

/-- **(c), the text of a compressed entry** (flag 1), as in (b) with UTF-8 in place of Latin-1: `get_text` answers `s` iff
    the payload inflates to the UTF-8 encoding of `s`; `decompress_text_with_limit(n)` fails — chunk unchanged — with
    `OutOfDecompressionSpace` when the payload inflates to more than `n` bytes, with `Unrepresentable` when it inflates
    within the limit to bytes that are not UTF-8, and with `InflationError` / `OutOfDecompressionSpace` when it is
    corrupt; when it succeeds the stored text is the string with exactly the inflated bytes -/
theorem iTXt_entry_text_compressed (z : ZCodec) (hz : z.Ok) (c : ITXt) (v : Bytes) (hc : c.text = .compressed v) :
    (∀ s, c.getText z = .ok s ↔ ∃ raw, z.decompress v = some raw ∧ utf8Decode raw = some s) ∧
    (∀ n e, (c.decompressWithLimit z n).2 = .error e → (c.decompressWithLimit z n).1 = c) ∧
    (∀ n x, z.decompress v = some x → x.length > n → c.decompressWithLimit z n = (c, .error .outOfDecompressionSpace)) ∧
    (∀ n, z.decompress v = none →
      c.decompressWithLimit z n = (c, .error .inflationError) ∨
      c.decompressWithLimit z n = (c, .error .outOfDecompressionSpace)) ∧
    (∀ n x, z.decompress v = some x → x.length ≤ n → utf8Decode x = none →
      c.decompressWithLimit z n = (c, .error .unrepresentable)) ∧
    (∀ n x s, z.decompress v = some x → x.length ≤ n → utf8Decode x = some s →
      c.decompressWithLimit z n = ({ c with text := .uncompressed s }, .ok ()) ∧ utf8Encode s = x) := by
  refine ⟨(C20.utf8_itxt_compressed z c v hc).1, fun n => (C20.itxt_limit_respected z hz n c).1,
    fun n x => (C20.itxt_limit_respected z hz n c).2.1 v x hc, fun n => (C20.itxt_limit_respected z hz n c).2.2.1 v hc,
    fun n x => (C20.itxt_limit_respected z hz n c).2.2.2.1 v x hc, ?_⟩
  intro n x s hd hn hs
  refine ⟨?_, utf8Encode_of_utf8Decode x s hs⟩
  show ({ c with text := (c.text.decompressWithLimit z utf8Coding n).1 }, (c.text.decompressWithLimit z utf8Coding n).2) = _
  rw [hc, OptC.decompress_of_valid hz n v x s hd hn hs]

/-! ## (d) the order of the entries is the order of the chunks in the stream -/

/-- **(d)** for every sequence `cs` of chunks that `parse_chunk` accepts one after the other (`AncChunks`: any types but
    `IHDR`, `IDAT`, `fdAT`, `IEND`, `fcTL`, bodies that fit the chunk buffer), starting from any decoder that has seen
    `IHDR`, with text chunks not ignored: afterwards each of the three text vectors of `Info` is what it was before
    followed by the text model's decodings of the bodies of the chunks of its kind in `cs`, IN THE ORDER OF `cs`; and
    every text chunk of `cs` contributes one entry (none is dropped: its body is one the text model accepts) -/
theorem text_order (cfg : Cfg) (hu : ∀ b, cfg.utf8Ok b = (utf8Decode b).isSome) {d d' : Dec}
    {cs : List (ChunkType × Bytes)} (h : AncChunks cfg d cs d') (i : Info) (hi : d.info = some i)
    (ho : d.opts.ignoreText = false) :
    ∃ i', d'.info = some i' ∧
      uncompressedLatin1Text i' = uncompressedLatin1Text i ++
        cs.filterMap (fun c => if c.1 = tEXt then (Png.parseTEXt c.2).toOption else none) ∧
      compressedLatin1Text i' = compressedLatin1Text i ++
        cs.filterMap (fun c => if c.1 = zTXt then (Png.parseZTXt c.2).toOption else none) ∧
      utf8Text i' = utf8Text i ++
        cs.filterMap (fun c => if c.1 = iTXt then ITXtOut.toOption (Png.parseITXt c.2) else none) ∧
      (∀ c ∈ cs, (c.1 = tEXt → ∃ x, Png.parseTEXt c.2 = .ok x) ∧ (c.1 = zTXt → ∃ x, Png.parseZTXt c.2 = .ok x) ∧
        (c.1 = iTXt → ∃ x, Png.parseITXt c.2 = .ok x)) := by
  obtain ⟨i', h1, _, h3, h4⟩ := ancChunks_reported cfg hu h i hi
  rw [ho] at h3
  obtain ⟨v1, v2, v3⟩ := vectors_append i i' _ h3
  obtain ⟨k1, k2, k3⟩ := streamReported_kinds cs
  rw [k1] at v1; rw [k2] at v2; rw [k3] at v3
  exact ⟨i', h1, v1, v2, v3, fun c hc => accepted_of_entry c (h4 ho c hc)⟩
where
  accepted_of_entry (c : ChunkType × Bytes)
      (h : (c.1 = tEXt ∨ c.1 = zTXt ∨ c.1 = iTXt) → ∃ x, chunkReported false c.1 c.2 = [x]) :
      (c.1 = tEXt → ∃ x, Png.parseTEXt c.2 = .ok x) ∧ (c.1 = zTXt → ∃ x, Png.parseZTXt c.2 = .ok x) ∧
      (c.1 = iTXt → ∃ x, Png.parseITXt c.2 = .ok x) := by
    obtain ⟨n1, n2, n3⟩ := tEXt_ne
    refine ⟨fun ht => ?_, fun ht => ?_, fun ht => ?_⟩
    · obtain ⟨x, hx⟩ := h (Or.inl ht)
      cases hp : Png.parseTEXt c.2 with
      | ok y => exact ⟨y, rfl⟩
      | error e => simp [chunkReported, ht, hp, Except.toOption] at hx
    · obtain ⟨x, hx⟩ := h (Or.inr (Or.inl ht))
      cases hp : Png.parseZTXt c.2 with
      | ok y => exact ⟨y, rfl⟩
      | error e => simp [chunkReported, ht, hp, Except.toOption, n1.symm] at hx
    · obtain ⟨x, hx⟩ := h (Or.inr (Or.inr ht))
      cases hp : Png.parseITXt c.2 with
      | ok y => exact ⟨y, rfl⟩
      | err e => simp [chunkReported, ht, hp, ITXtOut.toOption, n2.symm, n3.symm] at hx
      | panic => simp [chunkReported, ht, hp, ITXtOut.toOption, n2.symm, n3.symm] at hx

/-- **(d), chunks of any length** (`AncChunksG`: the chunk buffer grows as `reserve_current_chunk` allows) -/
theorem text_order_big (cfg : Cfg) (hu : ∀ b, cfg.utf8Ok b = (utf8Decode b).isSome) {d d' : Dec}
    {cs : List (ChunkType × Bytes)} (h : AncChunksG cfg d cs d') (i : Info) (hi : d.info = some i)
    (ho : d.opts.ignoreText = false) :
    ∃ i', d'.info = some i' ∧
      uncompressedLatin1Text i' = uncompressedLatin1Text i ++
        cs.filterMap (fun c => if c.1 = tEXt then (Png.parseTEXt c.2).toOption else none) ∧
      compressedLatin1Text i' = compressedLatin1Text i ++
        cs.filterMap (fun c => if c.1 = zTXt then (Png.parseZTXt c.2).toOption else none) ∧
      utf8Text i' = utf8Text i ++
        cs.filterMap (fun c => if c.1 = iTXt then ITXtOut.toOption (Png.parseITXt c.2) else none) ∧
      (∀ c ∈ cs, (c.1 = tEXt → ∃ x, Png.parseTEXt c.2 = .ok x) ∧ (c.1 = zTXt → ∃ x, Png.parseZTXt c.2 = .ok x) ∧
        (c.1 = iTXt → ∃ x, Png.parseITXt c.2 = .ok x)) := by
  obtain ⟨i', h1, _, h3, h4⟩ := ancChunksG_reported cfg hu h i hi
  rw [ho] at h3
  obtain ⟨v1, v2, v3⟩ := vectors_append i i' _ h3
  obtain ⟨k1, k2, k3⟩ := streamReported_kinds cs
  rw [k1] at v1; rw [k2] at v2; rw [k3] at v3
  exact ⟨i', h1, v1, v2, v3, fun c hc => text_order.accepted_of_entry c (h4 ho c hc)⟩

/-- under `ignore_text_chunk` nothing is reported: the three vectors stay as they are (the chunks are skipped as
    unknown: `C16.unknown_inert`) -/
theorem text_ignored (cfg : Cfg) (hu : ∀ b, cfg.utf8Ok b = (utf8Decode b).isSome) {d d' : Dec}
    {cs : List (ChunkType × Bytes)} (h : AncChunksG cfg d cs d') (i : Info) (hi : d.info = some i)
    (ho : d.opts.ignoreText = true) :
    ∃ i', d'.info = some i' ∧ uncompressedLatin1Text i' = uncompressedLatin1Text i ∧
      compressedLatin1Text i' = compressedLatin1Text i ∧ utf8Text i' = utf8Text i := by
  obtain ⟨i', h1, _, h3, _⟩ := ancChunksG_reported cfg hu h i hi
  rw [ho, streamReported_ignored, List.append_nil] at h3
  unfold uncompressedLatin1Text compressedLatin1Text utf8Text
  exact ⟨i', h1, by rw [h3], by rw [h3], by rw [h3]⟩

/-- **(d) at stream level**: the BYTES `chunks cfg cs` of such a sequence right behind `IHDR` take the decoder, by
    `update` calls (`AncTrace`: whatever follows, without image data), to a decoder whose three vectors are exactly the
    text model's decodings of the text chunks of `cs`, in stream order -/
theorem text_order_stream (cfg : Cfg) (hu : ∀ b, cfg.utf8Ok b = (utf8Decode b).isSome) (hC : cfg.CrcOk) (opts : Options)
    (limit : Nat) (h : WellFormed.Header) (cs : List (ChunkType × Bytes)) (dA : Dec)
    (hcs : AncChunks cfg (afterIhdr cfg opts limit h) cs dA) (ho : opts.ignoreText = false) :
    AncTrace cfg (afterIhdr cfg opts limit h) (WellFormed.chunks cfg cs) dA ∧
    ∃ i', dA.info = some i' ∧
      uncompressedLatin1Text i' = cs.filterMap (fun c => if c.1 = tEXt then (Png.parseTEXt c.2).toOption else none) ∧
      compressedLatin1Text i' = cs.filterMap (fun c => if c.1 = zTXt then (Png.parseZTXt c.2).toOption else none) ∧
      utf8Text i' = cs.filterMap (fun c => if c.1 = iTXt then ITXtOut.toOption (Png.parseITXt c.2) else none) := by
  refine ⟨(anc_chunks cfg hC (idle_afterIhdr cfg opts limit h) hcs).1, ?_⟩
  obtain ⟨i', h1, v1, v2, v3, _⟩ := text_order cfg hu hcs h.info rfl ho
  exact ⟨i', h1, by simpa [uncompressedLatin1Text, reported, reportedList, WellFormed.Header.info] using v1,
    by simpa [compressedLatin1Text, reported, reportedList, WellFormed.Header.info] using v2,
    by simpa [utf8Text, reported, reportedList, WellFormed.Header.info] using v3⟩

/-- **the hypothesis of (d) is satisfiable by every list of text chunks the text model accepts**: such a list (each body
    fitting the chunk buffer, the total length within `Limits`) is accepted by the stream decoder chunk after chunk, and
    then reported in order -/
theorem accepted_text_chunks_reported_in_order (cfg : Cfg) (hu : ∀ b, cfg.utf8Ok b = (utf8Decode b).isSome) (d : Dec)
    (i : Info) (cs : List (ChunkType × Bytes)) (hi : d.info = some i) (ho : d.opts.ignoreText = false)
    (hall : ∀ c ∈ cs, TextAccepted c.1 c.2 ∧ c.2.length ≤ d.cap ∧ c.2.length < 2 ^ 32)
    (hsum : (cs.map fun c => c.2.length).sum ≤ d.limit) :
    ∃ d' i', AncChunks cfg d cs d' ∧ d'.info = some i' ∧
      uncompressedLatin1Text i' = uncompressedLatin1Text i ++
        cs.filterMap (fun c => if c.1 = tEXt then (Png.parseTEXt c.2).toOption else none) ∧
      compressedLatin1Text i' = compressedLatin1Text i ++
        cs.filterMap (fun c => if c.1 = zTXt then (Png.parseZTXt c.2).toOption else none) ∧
      utf8Text i' = utf8Text i ++
        cs.filterMap (fun c => if c.1 = iTXt then ITXtOut.toOption (Png.parseITXt c.2) else none) := by
  obtain ⟨d', hd'⟩ := ancChunks_of_text cfg hu cs d i hi ho hall hsum
  obtain ⟨i', h1, v1, v2, v3, _⟩ := text_order cfg hu hd' i hi ho
  exact ⟨d', i', hd', h1, v1, v2, v3⟩

/-- **nothing that was stored is missing from the three vectors**: `TextInv d` — every text record in `d`'s `Info` is one
    the crate's `decode` call accepts — holds for a new decoder and is kept by EVERY `update` call, whatever the input and
    whatever the call returns (real UTF-8 test); under it the three vectors together have exactly one entry per stored
    record.  (So defining the vectors as "the accepted decodings of the stored records" drops nothing.) -/
theorem stored_records_all_reported (cfg : Cfg) (hu : ∀ b, cfg.utf8Ok b = (utf8Decode b).isSome) :
    (∀ opts limit, TextInv ({ opts := opts, limit := limit } : Dec)) ∧
    (∀ d buf, TextInv d → TextInv (update cfg d buf).1) ∧
    (∀ d i, TextInv d → d.info = some i →
      (uncompressedLatin1Text i).length + (compressedLatin1Text i).length + (utf8Text i).length = i.text.length) := by
  refine ⟨textInv_new, fun d buf => update_textInv cfg hu d buf, fun d i hd hi => ?_⟩
  unfold uncompressedLatin1Text compressedLatin1Text utf8Text
  rw [vectors_length, reported_length (hd i hi)]

/-! ## Non-vacuity: hypotheses are satisfiable, statements say something on concrete streams -/
section examples
open Png.Framing.Toy

/-- the toy configuration (CRC 0, "stored" inflater) with the REAL UTF-8 test: the hypothesis `hu` holds for it -/
def cfgU : Cfg := { toyCfg with utf8Ok := fun b => (utf8Decode b).isSome }
theorem cfgU_utf8 : ∀ b, cfgU.utf8Ok b = (utf8Decode b).isSome := fun _ => rfl

/-- a chunk with the toy CRC (0) -/
def tchunk (t : ChunkType) (body : Bytes) : Bytes := be32Bytes body.length ++ typeBytes t ++ body ++ [0, 0, 0, 0]

def iEx : Info := { width := 1, height := 1, depth := 8, color := 0, interlaced := false }
/-- a decoder that has seen `IHDR` and holds the chunk body `body` -/
def dEx (body : Bytes) : Dec := { info := some iEx, raw := body }

/-- ONE STREAM through the byte-level decoder (`runF`): a tEXt whose text holds 0x00 and bytes ≥ 0x80, a plain iTXt, a
    gAMA in between, a zTXt, a compressed iTXt with empty language tag and translated keyword, and — AFTER the image
    data — a tEXt with EMPTY text: no error, and the three vectors hold exactly these entries, in stream order -/
example :
    let s := sig ++ ihdr ++ tchunk tEXt [0x6B, 0, 0x41, 0x00, 0xE9, 0xFF] ++
      tchunk iTXt [0x6B, 0, 0, 0, 0x65, 0x6E, 0, 0xC3, 0xA9, 0, 0xE2, 0x82, 0xAC] ++ tchunk gAMA (be32Bytes 45455) ++
      tchunk zTXt [0x7A, 0, 0, 0x78, 0x61, 0x62] ++ tchunk iTXt [0x63, 0, 1, 0, 0, 0, 0x78, 0xC3, 0xA9] ++ idat ++
      tchunk tEXt [0x74, 0] ++ iend
    let r := runF cfgU d0 s
    r.2.2 = none ∧ r.1.out = [7, 9] ∧
    r.1.info.map uncompressedLatin1Text = some [⟨"k", "A\x00éÿ"⟩, ⟨"t", ""⟩] ∧
    r.1.info.map compressedLatin1Text = some [⟨"z", .compressed [0x78, 0x61, 0x62]⟩] ∧
    r.1.info.map utf8Text =
      some [⟨"k", false, "en", "é", .uncompressed "€"⟩, ⟨"c", true, "", "", .compressed [0x78, 0xC3, 0xA9]⟩] := by
  decide +kernel

/-- refusals, on the stream and in the text model alike: ill-formed UTF-8 in an uncompressed iTXt; a keyword of 80
    bytes (79 is accepted); a zTXt with method 1; an iTXt with flag 2 -/
example :
    (runF cfgU d0 (sig ++ ihdr ++ tchunk iTXt [0x6B, 0, 0, 0, 0, 0, 0xFF])).2.2 = some (.format "Unrepresentable") ∧
    Png.parseITXt [0x6B, 0, 0, 0, 0, 0, 0xFF] = .err .unrepresentable ∧
    (runF cfgU d0 (sig ++ ihdr ++ tchunk tEXt (List.replicate 80 0x61 ++ [0, 0x62]))).2.2 = some (.format "InvalidKeywordSize") ∧
    Png.parseTEXt (List.replicate 80 0x61 ++ [0, 0x62]) = .error .invalidKeywordSize ∧
    (runF cfgU d0 (sig ++ ihdr ++ tchunk tEXt (List.replicate 79 0x61 ++ [0, 0x62]))).2.2 = none ∧
    (runF cfgU d0 (sig ++ ihdr ++ tchunk zTXt [0x6B, 0, 1, 0x78])).2.2 = some (.format "InvalidCompressionMethod") ∧
    Png.parseZTXt [0x6B, 0, 1, 0x78] = .error .invalidCompressionMethod ∧
    (runF cfgU d0 (sig ++ ihdr ++ tchunk iTXt [0x6B, 0, 2, 0, 0, 0])).2.2 = some (.format "InvalidCompressionFlag") ∧
    Png.parseITXt [0x6B, 0, 2, 0, 0, 0] = .err .invalidCompressionFlag := by
  decide +kernel

/-- corners: EMPTY body (parsed since f31d047: no separator); empty keyword; iTXt without flag / without method; an
    uncompressed iTXt with method 7 and all fields empty is ACCEPTED by both models (`ITXtChunk::decode` reads the
    method of compressed chunks only) -/
example :
    (runF cfgU d0 (sig ++ ihdr ++ tchunk tEXt [])).2.2 = some (.format "MissingNullSeparator") ∧
    Png.parseTEXt [] = .error .missingNullSeparator ∧
    (runF cfgU d0 (sig ++ ihdr ++ tchunk zTXt [0, 0x61])).2.2 = some (.format "InvalidKeywordSize") ∧
    Png.parseZTXt [0, 0x61] = .error .invalidKeywordSize ∧
    (runF cfgU d0 (sig ++ ihdr ++ tchunk iTXt [0x6B, 0])).2.2 = some (.format "MissingCompressionFlag") ∧
    Png.parseITXt [0x6B, 0] = .err .missingCompressionFlag ∧
    (runF cfgU d0 (sig ++ ihdr ++ tchunk iTXt [0x6B, 0, 0])).2.2 = some (.format "InvalidCompressionMethod") ∧
    Png.parseITXt [0x6B, 0, 0] = .err .invalidCompressionMethod ∧
    (runF cfgU d0 (sig ++ ihdr ++ tchunk iTXt [0x6B, 0, 0, 7, 0, 0])).2.2 = none ∧
    (runF cfgU d0 (sig ++ ihdr ++ tchunk iTXt [0x6B, 0, 0, 7, 0, 0])).1.info.map utf8Text =
      some [⟨"k", false, "", "", .uncompressed ""⟩] ∧
    Png.parseITXt [0x6B, 0, 0, 7, 0, 0] = .ok ⟨"k", false, "", "", .uncompressed ""⟩ := by
  decide +kernel

/-- the hypotheses of `text_parsers_agree` / the `_chunk_reported` theorems / `text_chunk_accept_iff` hold for a decoder
    after `IHDR` holding a 6-byte body -/
example := text_parsers_agree cfgU cfgU_utf8 (dEx [0x6B, 0, 0x41, 0x00, 0xE9, 0xFF]) iEx rfl (by decide)
example := text_chunk_accept_iff cfgU cfgU_utf8 (dEx [0x6B, 0, 0x41, 0x00, 0xE9, 0xFF]) iEx rfl rfl (by decide)

/-- (a) instantiated: keyword `k`, text `A 00 E9 FF`; the reported strings -/
example := tEXt_reported cfgU (dEx [0x6B, 0, 0x41, 0x00, 0xE9, 0xFF]) iEx [0x6B] [0x41, 0x00, 0xE9, 0xFF]
  ⟨by decide, by decide, by decide⟩ rfl rfl (by decide) rfl
example : decodeLatin1 [0x6B] = "k" ∧ decodeLatin1 [0x41, 0x00, 0xE9, 0xFF] = "A\x00éÿ" := by decide

/-- (b) instantiated on the toy codec ("compressed" form of `x` is `0x78 :: x`): the entry's text is `ab`; limit 1 is
    refused, the chunk unchanged; a corrupt payload -/
example := zTXt_reported cfgU (dEx [0x7A, 0, 0, 0x78, 0x61, 0x62]) iEx [0x7A] [0x78, 0x61, 0x62]
  ⟨by decide, by decide, by decide⟩ rfl rfl (by decide) rfl
example := zTXt_entry_text toyCodec toyCodec_ok "z" [0x78, 0x61, 0x62]
example : (ZTXt.mk "z" (.compressed [0x78, 0x61, 0x62])).getText toyCodec = .ok "ab" ∧
    (ZTXt.mk "z" (.compressed [0x78, 0x61, 0x62])).decompressWithLimit toyCodec 2 = (⟨"z", .uncompressed "ab"⟩, .ok ()) ∧
    (ZTXt.mk "z" (.compressed [0x78, 0x61, 0x62])).decompressWithLimit toyCodec 1 =
      (⟨"z", .compressed [0x78, 0x61, 0x62]⟩, .error .outOfDecompressionSpace) ∧
    (ZTXt.mk "z" (.compressed [0x00])).getText toyCodec = .error .inflationError := by decide

/-- (c) instantiated: `k 0 0 0 en 0 é 0 €` — the hypotheses hold, and so does the right-hand side of the iff -/
example := iTXt_accept_iff cfgU cfgU_utf8 (dEx [0x6B, 0, 0, 0, 0x65, 0x6E, 0, 0xC3, 0xA9, 0, 0xE2, 0x82, 0xAC]) iEx
  [0x6B] [0x65, 0x6E] [0xC3, 0xA9] [0xE2, 0x82, 0xAC] 0 0 ⟨by decide, by decide, by decide⟩ (by decide) (by decide) rfl rfl
  (by decide) rfl
example : (0 : UInt8).toNat ≤ 1 ∧ isAsciiBytes [0x65, 0x6E] = true ∧ (utf8Decode [0xC3, 0xA9]).isSome = true ∧
    (utf8Decode [0xE2, 0x82, 0xAC]).isSome = true ∧ (utf8Decode [0xFF]).isSome = false := by decide
example := iTXt_entry_text_compressed toyCodec toyCodec_ok ⟨"c", true, "", "", .compressed [0x78, 0xC3, 0xA9]⟩
  [0x78, 0xC3, 0xA9] rfl
example : (ITXt.mk "c" true "" "" (.compressed [0x78, 0xC3, 0xA9])).getText toyCodec = .ok "é" := by decide

/-- (d) instantiated: four text chunks (tEXt, iTXt, zTXt, tEXt) behind `IHDR` — the text model accepts each, so the
    stream decoder accepts the sequence (`AncChunks`) and the vectors are the decodings in order -/
def csEx : List (ChunkType × Bytes) :=
  [(tEXt, [0x6B, 0, 0x41, 0x00, 0xE9, 0xFF]), (iTXt, [0x6B, 0, 0, 0, 0x65, 0x6E, 0, 0xC3, 0xA9, 0, 0xE2, 0x82, 0xAC]),
   (zTXt, [0x7A, 0, 0, 0x78, 0x61, 0x62]), (tEXt, [0x74, 0])]

example : ∃ d' i', AncChunks cfgU (afterIhdr cfgU {} (2 ^ 64 - 1) ⟨1, 1, 0, 8, false⟩) csEx d' ∧ d'.info = some i' ∧
    uncompressedLatin1Text i' = [⟨"k", "A\x00éÿ"⟩, ⟨"t", ""⟩] ∧
    compressedLatin1Text i' = [⟨"z", .compressed [0x78, 0x61, 0x62]⟩] ∧
    utf8Text i' = [⟨"k", false, "en", "é", .uncompressed "€"⟩] := by
  have hall : ∀ c ∈ csEx, TextAccepted c.1 c.2 ∧ c.2.length ≤ (afterIhdr cfgU {} (2 ^ 64 - 1) ⟨1, 1, 0, 8, false⟩).cap ∧
      c.2.length < 2 ^ 32 := by
    intro c hc
    simp only [csEx, List.mem_cons, List.mem_nil_iff, or_false] at hc
    rcases hc with rfl | rfl | rfl | rfl
    · exact ⟨Or.inl ⟨rfl, ⟨"k", "A\x00éÿ"⟩, by decide⟩, by decide, by decide⟩
    · exact ⟨Or.inr (Or.inr ⟨rfl, ⟨"k", false, "en", "é", .uncompressed "€"⟩, by decide⟩), by decide, by decide⟩
    · exact ⟨Or.inr (Or.inl ⟨rfl, ⟨"z", .compressed [0x78, 0x61, 0x62]⟩, by decide⟩), by decide, by decide⟩
    · exact ⟨Or.inl ⟨rfl, ⟨"t", ""⟩, by decide⟩, by decide, by decide⟩
  obtain ⟨d', i', h0, h1, v1, v2, v3⟩ := accepted_text_chunks_reported_in_order cfgU cfgU_utf8
    (afterIhdr cfgU {} (2 ^ 64 - 1) ⟨1, 1, 0, 8, false⟩) _ csEx rfl rfl hall (by decide)
  refine ⟨d', i', h0, h1, ?_, ?_, ?_⟩
  · rw [v1]; decide
  · rw [v2]; decide
  · rw [v3]; decide

end examples

end Png.C16
