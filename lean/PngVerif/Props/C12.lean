import PngVerif.Proofs.Encoder
/-!
# C12 — Everything the encoder emits is a specification-conformant PNG/APNG

Model: `Model/Encoder.lean` (implementation-shaped `Encoder::with_info`, `Writer`, `ChunkWriter`,
`StreamWriter`; sink and compressors abstract).  Validator: `Model/Validator.lean` (`validPng`; its
sequencing part is `skeletonOfChunks`, parametrised by the rule `imgOk` for the concatenated payload
of an image).

What is proved here, for ALL configurations / operation sequences / payloads in the stated domains:

* `C12_writer` — the FULL statement for the whole-image API (`write_image_data`, frame setters at any
  time with any arguments, raw private ancillary chunks and text chunks, `finish` or drop): for every
  configuration an `Encoder` can hold (`Cfg.Accepted`: whatever `Encoder::with_info` lets through, or
  `Encoder::new` + `set_animated`) and every operation sequence that supplies exactly the declared
  images, the chunks the sink holds at the end satisfy every sequencing rule of the validator (IHDR
  first and once, PLTE before IDAT, acTL before IDAT, one fcTL per frame, IDAT only for the first
  image and consecutive, fdAT afterwards, sequence numbers 0,1,2,… without gaps over fcTL and fdAT,
  frame rectangles inside the canvas, first frame = canvas, declared number of fcTL, one IEND, last,
  empty), with the image rule applied to every image's concatenated payload.  (Before the repairs
  f1da483 "with_info validates the frame control" and 92ed98c "the first image covers the canvas" this
  was `C12_writer_partial` with two extra hypotheses; the counterexamples
  `C12_writer_counterexample_with_info` / `…_first_image_subframe` are gone.)
* `C12_writer_payload`: the image rule of the specification (one zlib stream inflating to exactly
  `height × (1 + row bytes)` with filter bytes ≤ 4) holds for every back-end of the form "filter each
  row somehow, then compress" whose compressor the inflater inverts — via `Png.C03.scanlines_roundtrip`'s
  underlying lemma.  Together: `C12_writer_conformant`.
* `C12_stream_partial`: the stream writer on a still picture, every buffer size ≥ 1, every partition of
  the data, every interleaving of flushes: same skeleton as `write_image_data`, payload = the
  compressor's output.
* The full statement is still FALSE for the stream writer: `C12_stream_animated_counterexample` (D13),
  `C12_stream_abandoned_counterexample` (N10).

Not proved in Lean (tied by the harness instead): `parseStrict (fileBytes chunks) = chunks` (byte
framing and CRC), the placement pass `orderOk` and the payload pass `contentOk` for the model's
output, and the equality of `specImgOk` with the executable `realImgOk`.
-/
namespace Png.C12
open Png Png.Val Png.Enc

/-- **C12 for `Writer`: the full statement for the whole-image API.**  `c.WellFormed`: field types in
    range, a configuration an `Encoder` can hold, legal pass-through payloads (palette bytes, text chunk
    types); `SuppliesDeclaredImages`: `write_header` succeeds, arguments in their types' ranges, raw
    chunks are private ancillary ones, and the number of successful image writes is the declared one.
    Nothing fails at the end, nothing panics, and the sink's chunks are `IHDR :: rest` with `rest`
    accepted by the sequencing automaton under the image rule. -/
theorem C12_writer (imgOk : ImgRule) (E : Codec) (c : Cfg) (hw : c.WellFormed)
    (hE : Codec.Ok imgOk E c.color c.depth) (ops : List Op) (fin : Final)
    (hdom : SuppliesDeclaredImages E c ops) :
    (runWriter E c {} ops fin).header = .ok ∧
    anyPanic (runWriter E c {} ops fin).results = false ∧
    (runWriter E c {} ops fin).final = some .ok ∧
    ∃ rest, (runWriter E c {} ops fin).state.sink.chunks = mkIhdr c :: rest ∧
      skeletonOfChunks imgOk c.width c.height c.color rest = .ok () :=
  writer_skeleton_valid imgOk E c hw hE ops fin hdom

/-- what `Encoder::with_info` guarantees about a configuration it lets through, and what it does to one
    it changes: the sequence number is 0 and the frame is non-empty and inside a non-empty canvas -/
theorem C12_with_info_guarantee {c : Cfg} (h : c.Accepted) :
    (c.actl = none ↔ c.fctl = none) ∧ (∀ n p, c.actl = some (n, p) → 0 < n) ∧
    ∀ f, c.fctl = some f → f.seq = 0 ∧
      (0 < c.width → 0 < c.height → 0 < f.w ∧ 0 < f.h ∧ f.x + f.w ≤ c.width ∧ f.y + f.h ≤ c.height) :=
  accepted_spec h

/-- the zlib payload part: any filter choice, any compressor inverted by the inflater -/
theorem C12_writer_payload (compress : Bytes → Bytes) (inflate : Bytes → Option Bytes)
    (choose : Bytes → Bytes → FilterType) (color depth : Nat)
    (hic : ∀ x, inflate (compress x) = some x) (hnil : inflate [] = none) :
    Codec.Ok (specImgOk inflate color depth) (scanCodec compress choose) color depth :=
  scanCodec_ok compress inflate choose color depth hic hnil

/-- skeleton and payload together, for the real shape of `write_image_data` -/
theorem C12_writer_conformant (compress : Bytes → Bytes) (inflate : Bytes → Option Bytes)
    (choose : Bytes → Bytes → FilterType) (hic : ∀ x, inflate (compress x) = some x) (hnil : inflate [] = none)
    (c : Cfg) (hw : c.WellFormed) (ops : List Op) (fin : Final)
    (hdom : SuppliesDeclaredImages (scanCodec compress choose) c ops) :
    ∃ rest, (runWriter (scanCodec compress choose) c {} ops fin).state.sink.chunks = mkIhdr c :: rest ∧
      skeletonOfChunks (specImgOk inflate c.color c.depth) c.width c.height c.color rest = .ok () :=
  (writer_skeleton_valid _ _ c hw (scanCodec_ok compress inflate choose c.color c.depth hic hnil) ops fin hdom).2.2.2

/-- **C12 for `StreamWriter` on a still picture (partial: no animation).**  `write_header`, one
    `stream_writer_with_size(size ≥ 1)` session that writes exactly the image in pieces of ANY sizes with
    any `flush` calls and (refused) setter calls in between, ended by `finish()` or by a drop, then the
    `Writer` goes out of scope.  For every chunk buffer size, every compressor: no call fails or
    panics, and the sink holds the header chunks followed by IDAT chunks ONLY (none empty, no
    fcTL/fdAT, no sequence numbers — the same skeleton as `write_image_data`) followed by IEND; the
    IDAT payloads concatenate to everything the streaming compressor produced up to and including
    its `finish` — nothing lost, duplicated or reordered by `ChunkWriter` and flate2's output buffer —
    and the skeleton is valid whenever that zlib stream satisfies the image rule.  (`hpal`: an indexed
    image has a palette — otherwise `StreamWriter::new` refuses with `NoPalette`, repair 90b6476.) -/
theorem C12_stream_partial (imgOk : ImgRule) (E : Codec) (Z : ZCodec) (c : Cfg) (hw : c.WellFormed)
    (hstill : c.actl = none) (hpal : c.color = 3 → c.palette.isSome = true)
    (hh : (writeHeader c {}).2 = .ok) (size : Nat) (hs : 0 < size) (ops : List SOp)
    (hfit : (rawRowLengthFromWidth c.color c.depth c.width - 1) * c.height < 2 ^ 64)
    (htot : totalWritten ops = (rawRowLengthFromWidth c.color c.depth c.width - 1) * c.height) (fin : Final) :
    (runProg E Z c {} [.stream size ops fin] .drop).header = .ok ∧
    (runProg E Z c {} [.stream size ops fin] .drop).results.any anyPanic = false ∧
    (∀ rs ∈ (runProg E Z c {} [.stream size ops fin] .drop).results, rs.getLast? = some .ok) ∧
    ∃ (ds : List Bytes) (hist : List ZOp),
      (runProg E Z c {} [.stream size ops fin] .drop).state.sink.chunks =
        headerChunks c ++ ds.map mkIdat ++ [iendChunk] ∧
      ds.flatten = outs Z (hist ++ [ZOp.finish]) ∧ (∀ d ∈ ds, d ≠ []) ∧
      (ds ≠ [] → imgOk c.width c.height ds.flatten = .ok () →
        skeletonOfChunks imgOk c.width c.height c.color ((headerChunks c).tail ++ ds.map mkIdat ++ [iendChunk]) = .ok ()) :=
  stream_still_valid imgOk E Z c hw hstill hpal hh size hs ops hfit htot fin

/-- The property for the stream writer: every program that writes the declared images through
    stream writers and ends successfully leaves a valid skeleton. -/
def C12_stream_statement : Prop :=
  ∀ (c : Cfg) (size : Nat) (ops : List SOp),
    c.WellFormed → (runProg toyCodec toyZ c {} [] (.intoStream size ops .finish)).final.all (· == .ok) = true →
    runSkeletonOk c (runProg toyCodec toyZ c {} [] (.intoStream size ops .finish)).state = true

/-- D13: two frames 1×1 through `into_stream_writer`: all calls `Ok`, the second image is emitted
    as IDAT and the sequence numbers 1, 2, 3 sit inside the IDAT payloads -/
theorem C12_stream_animated_counterexample :
    runD13.final = [.ok, .ok, .ok, .ok] ∧
    runD13.state.sink.chunks.map (·.ty) = [tyIHDR, tyACTL, tyFCTL, tyIDAT, tyFCTL, tyIDAT, tyIEND] ∧
    (runD13.state.sink.chunks.map (·.data.take 4)).drop 3 = [[0, 0, 0, 1], [0, 0, 0, 2], [0, 0, 0, 3], []] ∧
    ¬ C12_stream_statement := by
  refine ⟨runD13_facts.1, runD13_facts.2.1, runD13_facts.2.2.1, fun h => ?_⟩
  have := h (cfgAnim 2) 64 [.write [7], .write [9]] (by decide) (by decide)
  rw [show runProg toyCodec toyZ (cfgAnim 2) {} [] (.intoStream 64 [.write [7], .write [9]] .finish) = runD13 from rfl,
    runD13_facts.2.2.2] at this
  cases this

/-- N10: a stream writer that is opened and dropped still emits an IDAT chunk -/
theorem C12_stream_abandoned_counterexample :
    runN10.final = [.ok] ∧ runN10.state.sink.chunks.map (·.ty) = [tyIHDR, tyIDAT, tyIDAT, tyIEND] :=
  ⟨runN10_facts.2.1, runN10_facts.2.2⟩

/-! non-vacuity: the hypotheses hold on non-trivial values; the repaired behaviour on the former
    counterexamples -/
set_option maxRecDepth 100000 in
example : (cfgAnim 2).WellFormed ∧
    SuppliesDeclaredImages toyCodec (cfgAnim 2) [.setDelay 3 4, .image [7], .chunk 1886541428 [1], .setBlend 1, .image [9]] := by
  decide
set_option maxRecDepth 100000 in
example : SuppliesDeclaredImages toyCodec { cfgAnim22 with actl := some (2, 0), sepDefImg := true }
    [.image [1, 2, 3, 4], .image [1, 2, 3, 4], .setDim 1 1, .setPos 1 1, .image [9]] := by decide
/-- a frame setter BEFORE the first image is inside the domain now: the sub-frame image is refused
    (`OutOfBounds`), the full-canvas one accepted, the output valid -/
example : cfgAnim22.WellFormed ∧ runSubframe.results = [.ok, .err .outOfBounds, .ok, .ok] ∧
    runSubframe.final = some .ok ∧ runSkeletonOk cfgAnim22 runSubframe.state = true := runSubframe_facts
set_option maxRecDepth 100000 in
example : SuppliesDeclaredImages toyCodec cfgAnim22 [.setDim 1 1, .image [7], .resetDim, .image [1, 2, 3, 4]] := by decide
-- a frame control inside the canvas but not covering it, accepted by `with_info`: in the domain
set_option maxRecDepth 100000 in
example : let c : Cfg := { width := 2, height := 2, actl := some (2, 0), fctl := some { w := 1, h := 1, x := 1 } }
    c.WellFormed ∧ SuppliesDeclaredImages toyCodec c [.image [7], .resetPos, .resetDim, .image [1, 2, 3, 4], .image [4, 3, 2, 1]] := by
  decide
/-- `with_info` on the former counterexample configurations -/
example : withInfo cfgSeq5 = .ok { cfgSeq5 with fctl := some { w := 1, h := 1 } } ∧
    withInfo cfgOff = .error .outOfBounds ∧ withInfo cfgW0 = .error .zeroWidth :=
  ⟨withInfo_facts.1, withInfo_facts.2.1, withInfo_facts.2.2.1⟩
set_option maxRecDepth 100000 in
example : let c : Cfg := { width := 2, height := 2 }
    c.WellFormed ∧ (writeHeader c {}).2 = .ok ∧ totalWritten [.write [1], .flush, .write [2, 3, 4]] = 4 ∧
    (runProg toyCodec toyZ c {} [.stream 5 [.write [1], .flush, .write [2, 3, 4]] .finish] .drop).state.sink.chunks.map (·.ty)
      = [tyIHDR, tyIDAT, tyIDAT, tyIEND] := by decide
example : ∃ inflate : Bytes → Option Bytes, (∀ x, inflate ((120 : UInt8) :: x) = some x) ∧ inflate [] = none :=
  ⟨fun z => match z with | [] => none | _ :: x => some x, fun _ => rfl, rfl⟩

end Png.C12
