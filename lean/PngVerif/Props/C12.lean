import PngVerif.Proofs.Encoder
/-!
# C12 — Everything the encoder emits is a specification-conformant PNG/APNG

Model: `Model/Encoder.lean` (implementation-shaped `Encoder::with_info`, `Writer`, `ChunkWriter`,
`StreamWriter`; sink and compressors abstract).  Validator: `Model/Validator.lean` (`validPng`; its
sequencing part is `skeletonOfChunks`, parametrised by the rule `imgOk` for the concatenated payload
of an image).

What is proved here, for ALL configurations / operation sequences / payloads in the stated domains:

* `C12_writer` — the FULL statement for the whole-image API (`write_image_data`, frame setters at any
  time with any arguments, raw private ancillary chunks and text chunks, `finish` or drop): for every
  configuration an `Encoder` can hold (`Cfg.Accepted`: whatever `Encoder::with_info` lets through, or
  `Encoder::new` + `set_animated`) and every operation sequence that supplies exactly the declared
  images, the chunks the sink holds at the end satisfy every sequencing rule of the validator (IHDR
  first and once, PLTE before IDAT, acTL before IDAT, one fcTL per frame, IDAT only for the first
  image and consecutive, fdAT afterwards, sequence numbers 0,1,2,… without gaps over fcTL and fdAT,
  frame rectangles inside the canvas, first frame = canvas, declared number of fcTL, one IEND, last,
  empty), with the image rule applied to every image's concatenated payload.  (Before the repairs
  f1da483 "with_info validates the frame control" and 92ed98c "the first image covers the canvas" this
  was `C12_writer_partial` with two extra hypotheses; the counterexamples
  `C12_writer_counterexample_with_info` / `…_first_image_subframe` are gone.)
* `C12_writer_payload`: the image rule of the specification (one zlib stream inflating to exactly
  `height × (1 + row bytes)` with filter bytes ≤ 4) holds for every back-end of the form "filter each
  row somehow, then compress" whose compressor the inflater inverts — via `Png.C03.scanlines_roundtrip`'s
  underlying lemma.  Together: `C12_writer_conformant`.
* `C12_stream_partial`: the stream writer IN GENERAL (since the repairs d0d021f … 9136341 of the
  `StreamWriter` family: chunk kind, counting, `finish_image`, row buffers per frame, minimum chunk
  buffer, `set_fctl`, validation in `new`).  Programs over both APIs: any number of borrowed stream-writer
  sessions (`stream_writer_with_size`) mixed with `write_image_data`, frame setters of both writers,
  pass-through chunks; closed by `Writer::finish`, by a drop, or by an owned stream writer
  (`into_stream_writer_with_size`) that is finished or dropped.  Still pictures and animations, default
  image separate or not, sub-frames; EVERY requested chunk buffer size (0, 1, … — the crate rounds up to
  5 bytes), every way of cutting the rows into `write` calls, flushes anywhere.  Inside the domain nothing
  panics and the chunks in the sink satisfy every sequencing rule of the validator, with the image rule
  applied to every image's concatenated payload.  The proof shows that a complete stream image leaves
  the `Writer` in exactly the state `write_image_data` leaves it in for the same zlib stream cut the
  same way (`HeaderRel.sim`), so everything known about `Writer` carries over.
  It stays `_partial` for two reasons: (1) the domain asks that every session is COMPLETE — after its
  last operation the stream writer stands between two images (`SessionComplete`; for a session ended
  with `finish()` this is exactly "`finish` did not return `MissingData`").  Without that the statement
  is false: `C12_stream_abandoned_counterexample` (N10, open).  (2) `Cfg.Small`: the canvas has fewer than
  2^61 pixels, so that `next_frame_info`'s `usize` product is exact (8 bytes per pixel at most).
* `C12_stream_payload` / `C12_stream_conformant_partial`: the contract asked of the streaming back-end
  holds for every filter choice and every compressor the inflater inverts, with the image rule of the
  specification — the rows reach the compressor filtered against the right predecessor (an all-zero row
  of the frame's width for the first row of every frame).

Not proved in Lean (tied by the harness instead): `parseStrict (fileBytes chunks) = chunks` (byte
framing and CRC), the placement pass `orderOk` and the payload pass `contentOk` for the model's
output, and the equality of `specImgOk` with the executable `realImgOk`.
-/
namespace Png.C12
open Png Png.Val Png.Enc

/-- **C12 for `Writer`: the full statement for the whole-image API.**  `c.WellFormed`: field types in
    range, a configuration an `Encoder` can hold, legal pass-through payloads (palette bytes, text chunk
    types); `SuppliesDeclaredImages`: `write_header` succeeds, arguments in their types' ranges, raw
    chunks are private ancillary ones, and the number of successful image writes is the declared one.
    Nothing fails at the end, nothing panics, and the sink's chunks are `IHDR :: rest` with `rest`
    accepted by the sequencing automaton under the image rule. -/
theorem C12_writer (imgOk : ImgRule) (E : Codec) (c : Cfg) (hw : c.WellFormed)
    (hE : Codec.Ok imgOk E c.color c.depth) (ops : List Op) (fin : Final)
    (hdom : SuppliesDeclaredImages E c ops) :
    (runWriter E c {} ops fin).header = .ok ∧
    anyPanic (runWriter E c {} ops fin).results = false ∧
    (runWriter E c {} ops fin).final = some .ok ∧
    ∃ rest, (runWriter E c {} ops fin).state.sink.chunks = mkIhdr c :: rest ∧
      skeletonOfChunks imgOk c.width c.height c.color rest = .ok () :=
  writer_skeleton_valid imgOk E c hw hE ops fin hdom

/-- what `Encoder::with_info` guarantees about a configuration it lets through, and what it does to one
    it changes: the sequence number is 0 and the frame is non-empty and inside a non-empty canvas -/
theorem C12_with_info_guarantee {c : Cfg} (h : c.Accepted) :
    (c.actl = none ↔ c.fctl = none) ∧ (∀ n p, c.actl = some (n, p) → 0 < n) ∧
    ∀ f, c.fctl = some f → f.seq = 0 ∧
      (0 < c.width → 0 < c.height → 0 < f.w ∧ 0 < f.h ∧ f.x + f.w ≤ c.width ∧ f.y + f.h ≤ c.height) :=
  accepted_spec h

/-- the zlib payload part: any filter choice, any compressor inverted by the inflater -/
theorem C12_writer_payload (compress : Bytes → Bytes) (inflate : Bytes → Option Bytes)
    (choose : Bytes → Bytes → FilterType) (color depth : Nat)
    (hic : ∀ x, inflate (compress x) = some x) (hnil : inflate [] = none) :
    Codec.Ok (specImgOk inflate color depth) (scanCodec compress choose) color depth :=
  scanCodec_ok compress inflate choose color depth hic hnil

/-- skeleton and payload together, for the real shape of `write_image_data` -/
theorem C12_writer_conformant (compress : Bytes → Bytes) (inflate : Bytes → Option Bytes)
    (choose : Bytes → Bytes → FilterType) (hic : ∀ x, inflate (compress x) = some x) (hnil : inflate [] = none)
    (c : Cfg) (hw : c.WellFormed) (ops : List Op) (fin : Final)
    (hdom : SuppliesDeclaredImages (scanCodec compress choose) c ops) :
    ∃ rest, (runWriter (scanCodec compress choose) c {} ops fin).state.sink.chunks = mkIhdr c :: rest ∧
      skeletonOfChunks (specImgOk inflate c.color c.depth) c.width c.height c.color rest = .ok () :=
  (writer_skeleton_valid _ _ c hw (scanCodec_ok compress inflate choose c.color c.depth hic hnil) ops fin hdom).2.2.2

/-- **C12 for programs that use `StreamWriter` (partial: every session complete, canvas < 2^61 pixels).**
    `StreamDomain`: `write_header` succeeds; all arguments are in their types' ranges (raw chunks are
    private ancillary ones); every stream-writer session — borrowed ones among the steps, an owned one
    at the end — is complete: after its last operation no image is left unfinished (`SessionComplete`;
    a session whose `new` is refused started nothing).  `declaredWritten`: at the end the number of
    images written (by either API) is the declared one.  The chunk buffer sizes, the partition of the
    rows into `write` calls, the flushes, the setter calls (of either writer, in or out of bounds) and the
    way every session and the program end (`finish` or drop) are arbitrary.  Then: `write_header` is `Ok`,
    no call panics, and the sink's chunks are `IHDR :: rest` with `rest` accepted by the sequencing
    automaton under the image rule. -/
theorem C12_stream_partial (imgOk : ImgRule) (E : Codec) (Z : ZCodec) (c : Cfg) (hw : c.WellFormed) (hsm : c.Small)
    (hE : Codec.Ok imgOk E c.color c.depth) (hZ : ZCodec.Ok imgOk Z c.color c.depth)
    (steps : List Step) (fin : PFinal) (hdom : StreamDomain E Z c steps fin)
    (hcount : (runProg E Z c {} steps fin).declaredWritten) :
    (runProg E Z c {} steps fin).header = .ok ∧
    (runProg E Z c {} steps fin).results.any anyPanic = false ∧
    anyPanic (runProg E Z c {} steps fin).final = false ∧
    ∃ rest, (runProg E Z c {} steps fin).state.sink.chunks = mkIhdr c :: rest ∧
      skeletonOfChunks imgOk c.width c.height c.color rest = .ok () :=
  stream_skeleton_valid imgOk E Z c hw hsm hE hZ steps fin hdom hcount

/-- the core of the proof, as a statement of its own: on a sink that never fails, the frame header
    `ChunkWriter::write_header` writes, followed by ANY cut `ds` of a zlib stream into data chunks and the
    image counter, is exactly what `write_image_data` does with the same stream and the same cut
    (`wH`: the `Writer` after the header; `fd`: the image goes into fdAT chunks) -/
theorem C12_stream_simulates_writer {wpre : WState} (cap : Nat) (curr : Ty) (hg : wpre.sink.good)
    (ha : ∀ f, wpre.fctl = some f → wpre.animWritten + 1 < 2 ^ 32) :
    ∃ wH, CW.writeHeader ⟨wpre, cap, [], curr⟩ = (⟨wH, cap, [], chunkKind wpre⟩, .ok) ∧
      ∀ ds : List Bytes, emitImage wpre ds ds =
        (incrementImagesWritten { (if (chunkKind wpre == tyFDAT) = true then bumpSeq wH ds.length else wH) with
          sink := (wH.sink.emitChunks (dataChunks (chunkKind wpre == tyFDAT) (seq0Of wH) ds)).1 }, .ok) :=
  let ⟨wH, h1, h2, _⟩ := writeHeader_rel cap curr hg ha
  ⟨wH, h1, h2.sim⟩

/-- the streaming back-end: any filter choice, any compressor inverted by the inflater (it may hold
    back its output as long as it likes) meets the contract with the image rule of the specification -/
theorem C12_stream_payload (compress : Bytes → Bytes) (inflate : Bytes → Option Bytes)
    (choose : Bytes → Bytes → FilterType) (color depth : Nat)
    (hic : ∀ x, inflate (compress x) = some x) (hnil : inflate [] = none) :
    ZCodec.Ok (specImgOk inflate color depth) (scanZ compress choose) color depth :=
  scanZ_ok compress inflate choose color depth hic hnil

/-- skeleton and payload together for programs over both APIs -/
theorem C12_stream_conformant_partial (compress : Bytes → Bytes) (inflate : Bytes → Option Bytes)
    (choose chooseZ : Bytes → Bytes → FilterType) (hic : ∀ x, inflate (compress x) = some x) (hnil : inflate [] = none)
    (c : Cfg) (hw : c.WellFormed) (hsm : c.Small) (steps : List Step) (fin : PFinal)
    (hdom : StreamDomain (scanCodec compress choose) (scanZ compress chooseZ) c steps fin)
    (hcount : (runProg (scanCodec compress choose) (scanZ compress chooseZ) c {} steps fin).declaredWritten) :
    ∃ rest, (runProg (scanCodec compress choose) (scanZ compress chooseZ) c {} steps fin).state.sink.chunks
        = mkIhdr c :: rest ∧
      skeletonOfChunks (specImgOk inflate c.color c.depth) c.width c.height c.color rest = .ok () :=
  (stream_skeleton_valid _ _ _ c hw hsm (scanCodec_ok compress inflate choose c.color c.depth hic hnil)
    (scanZ_ok compress inflate chooseZ c.color c.depth hic hnil) steps fin hdom hcount).2.2.2

/-- `C12_stream_partial` WITHOUT the requirement that every session is complete: arguments in range, the
    declared number of images written at the end — stated for the most permissive image rule. -/
def C12_stream_abandoned_statement : Prop :=
  ∀ (c : Cfg) (steps : List Step) (fin : PFinal), c.WellFormed → c.Small →
    (∀ s ∈ steps, s.inRange) → fin.inRange →
    (runProg toyCodec toyZ c {} steps fin).header = .ok →
    (runProg toyCodec toyZ c {} steps fin).declaredWritten →
    runSkeletonOk c (runProg toyCodec toyZ c {} steps fin).state = true

/-- N10 (open): a stream writer that is opened and dropped (or `finish`ed with `MissingData`) before its
    image is complete leaves that image's fcTL and the beginning of its data in the file and counts the
    fcTL as a frame, but not the image; the `Writer` carries on.  Two frames declared: frame 1, an
    abandoned session, frame 2 — every call returns `Ok`, two images are counted, and the file has three
    fcTL chunks (the validator refuses it under every image rule).  The still-picture variant leaves a
    stray IDAT chunk in front of the image's own. -/
theorem C12_stream_abandoned_counterexample :
    ¬ C12_stream_abandoned_statement ∧
    runN10a.results = [[.ok], [.ok, .ok], [.ok]] ∧ runN10a.final = [.ok] ∧ runN10a.state.imagesWritten = 2 ∧
    runN10a.state.sink.chunks.map (·.ty) =
      [tyIHDR, tyACTL, tyFCTL, tyIDAT, tyFCTL, tyFDAT, tyFCTL, tyFDAT, tyIEND] ∧
    runN10.final = [.ok] ∧ runN10.state.sink.chunks.map (·.ty) = [tyIHDR, tyIDAT, tyIDAT, tyIEND] :=
  ⟨stream_abandoned_skeleton_counterexample, runN10a_facts.1, runN10a_facts.2.1, runN10a_facts.2.2.1,
    runN10a_facts.2.2.2.1, runN10_facts.2.1, runN10_facts.2.2⟩

/-- the former counterexample D13 (two frames through `into_stream_writer`) is inside the domain now
    and valid: IDAT for the first frame, fdAT for the second -/
theorem C12_stream_animated_repaired :
    runD13.final = [.ok, .ok, .ok, .ok] ∧
    runD13.state.sink.chunks.map (·.ty) = [tyIHDR, tyACTL, tyFCTL, tyIDAT, tyFCTL, tyFDAT, tyIEND] ∧
    runSkeletonOk (cfgAnim 2) runD13.state = true := runD13_facts

/-! non-vacuity: the hypotheses hold on non-trivial values; the repaired behaviour on the former
    counterexamples -/
set_option maxRecDepth 100000 in
example : (cfgAnim 2).WellFormed ∧
    SuppliesDeclaredImages toyCodec (cfgAnim 2) [.setDelay 3 4, .image [7], .chunk 1886541428 [1], .setBlend 1, .image [9]] := by
  decide
set_option maxRecDepth 100000 in
example : SuppliesDeclaredImages toyCodec { cfgAnim22 with actl := some (2, 0), sepDefImg := true }
    [.image [1, 2, 3, 4], .image [1, 2, 3, 4], .setDim 1 1, .setPos 1 1, .image [9]] := by decide
/-- a frame setter BEFORE the first image is inside the domain now: the sub-frame image is refused
    (`OutOfBounds`), the full-canvas one accepted, the output valid -/
example : cfgAnim22.WellFormed ∧ runSubframe.results = [.ok, .err .outOfBounds, .ok, .ok] ∧
    runSubframe.final = some .ok ∧ runSkeletonOk cfgAnim22 runSubframe.state = true := runSubframe_facts
set_option maxRecDepth 100000 in
example : SuppliesDeclaredImages toyCodec cfgAnim22 [.setDim 1 1, .image [7], .resetDim, .image [1, 2, 3, 4]] := by decide
-- a frame control inside the canvas but not covering it, accepted by `with_info`: in the domain
set_option maxRecDepth 100000 in
example : let c : Cfg := { width := 2, height := 2, actl := some (2, 0), fctl := some { w := 1, h := 1, x := 1 } }
    c.WellFormed ∧ SuppliesDeclaredImages toyCodec c [.image [7], .resetPos, .resetDim, .image [1, 2, 3, 4], .image [4, 3, 2, 1]] := by
  decide
/-- `with_info` on the former counterexample configurations -/
example : withInfo cfgSeq5 = .ok { cfgSeq5 with fctl := some { w := 1, h := 1 } } ∧
    withInfo cfgOff = .error .outOfBounds ∧ withInfo cfgW0 = .error .zeroWidth :=
  ⟨withInfo_facts.1, withInfo_facts.2.1, withInfo_facts.2.2.1⟩
/-- the domain of `C12_stream_partial` on a program that uses everything: four frames on a 2x2 canvas —
    `write_image_data`; two frames through one borrowed stream writer with a requested buffer of 0 bytes,
    single-byte writes, a flush, every frame setter with non-default values between the frames (the next
    frame is a 1x1 sub-frame at (1,1)); the last frame through an owned stream writer, `finish` -/
example : cfgAnim4.WellFormed ∧ cfgAnim4.Small ∧ StreamDomain toyCodec toyZ cfgAnim4 stepsMixed finMixed ∧
    runMixed.declaredWritten ∧ runSkeletonOk cfgAnim4 runMixed.state = true :=
  ⟨runMixed_facts.1, runMixed_facts.2.1, runMixed_facts.2.2.1, runMixed_facts.2.2.2.1, runMixed_facts.2.2.2.2.2.2.2⟩
/-- a still picture through a borrowed stream writer (1-byte buffer request, a refused flush in the middle
    of a row), the session dropped, the `Writer` finished -/
example : StreamDomain toyCodec toyZ { width := 2, height := 2, validate := true }
      [.stream 1 [.write [1, 2, 3], .flush, .write [4]] .drop] .finish ∧ runStill.declaredWritten :=
  ⟨runStill_facts.1, runStill_facts.2.1⟩
example : Codec.Ok anyImg toyCodec 0 8 ∧ ZCodec.Ok anyImg toyZ 0 8 := ⟨toyCodec_ok 0 8, toyZ_ok 0 8⟩
example : ∃ inflate : Bytes → Option Bytes, (∀ x, inflate ((120 : UInt8) :: x) = some x) ∧ inflate [] = none :=
  ⟨fun z => match z with | [] => none | _ :: x => some x, fun _ => rfl, rfl⟩

end Png.C12
