import PngVerif.Proofs.DeliveryEnd
import PngVerif.Proofs.AnyPathBufStart
import PngVerif.Props.C04Delivery
/-!
# C04 / C05 ∘ C01 / C09 — the retrying caller's LAST result: the call behind the last frame is refused

`Props/C04Delivery.lean` proves that under ANY delivery of the bytes of a well-formed image the retrying caller obtains
exactly the specification's frames, and leaves one statement open: `C09_any_delivery_with_refusal_statement` — that one
more `next_frame`, behind the last frame, is refused with `Parameter(PolledAfterEndOfImage)` for the retrying caller too
(C05 itself cannot give it: a call that FAILS on the complete file is outside `C05_resume`).  This file proves it.

The two lemmas its doc comment names as missing:
1. the relation of the two FINAL readers — `Proofs/DeliveryEnd.lean` re-proves `Reader.runUntilEof_spec` /
   `Reader.resumeRun_spec` keeping `LagSome` to the end (`JStE`, `resumeEnd_spec`): when all calls have returned, the
   retrying caller's reader lags behind the reader the complete run ends in, so both have the same `remaining` and
   `sub.cur` (`LagLe.fields`), and `Reader.nextFrameOp_polled` applies (`resume_then_polled`, `delivery_then_polled'`);
2. the complete run ends with `remaining = 0` and `sub.cur = none` — `Proofs/AnyPathBufFrames.lean` … `AnyPathBufStart.lean`
   re-prove `Reader.frames_run` / `Reader.apng_wf` / `Reader.decode_wf` keeping the reader (`WholeFrames`,
   `WholeFrames.run_end`).

* `C09_any_delivery_with_refusal` — the open statement, as a theorem; `…_real` for `Driver.realT`;
* `C09_default_image_any_delivery_with_refusal` — the same for an animation whose `IDAT` image is not part of it;
* `C01_any_delivery_then_refusal` — still images: the frame, then `PolledAfterEndOfImage`.  Additional hypothesis: no
  `acTL` chunk before the image data (`hstill`, as in `C01_any_path`): with one the reader counts a second frame and the
  second `next_frame` fails differently (`AnyPath.acTL_still_has_a_problem`).
-/
namespace Png.C04Delivery
open Png Png.Framing Png.Reader Png.WellFormed

/-- the reader a complete run `read_info, next_frame × n` ends in, from the reader `read_info` returns -/
theorem run_end_of_wholeFrames {cfg : Cfg} {t : TCfg} {need : Nat} {a r0 : R} {ds : List (OutputInfo × Header × Bytes)}
    (h0 : step cfg t a .readInfo = (r0, .header)) (hw : WholeFrames cfg t need r0 ds) (ps : List UInt8)
    (hps : ps.length = ds.length) :
    WholeFrames cfg t need (run cfg t a (.readInfo :: ps.map Op.nextFrame)).1 [] := by
  rw [prun_cons, h0]
  exact WholeFrames.run_end ds ps r0 hps hw

/-! ## C09: animations -/

/-- **C09 under any delivery, with the call behind the last frame** — `C09_any_delivery_with_refusal_statement` of
    `Props/C04Delivery.lean`.  Hypotheses of `C09_any_delivery`.  The caller asks for the frames one after the other and
    then once more, repeating every call that ran out of input, under a schedule that delivers the file in any pieces:
    the results are exactly the frames of the file in file order (each with its own `OutputInfo` and `specFrame` of its
    own data) and then `Parameter(PolledAfterEndOfImage)` — exactly the results of the run on the complete file. -/
theorem C09_any_delivery_with_refusal : C09_any_delivery_with_refusal_statement := by
  intro cfg t f opts limit h plays anc dAnc frames fc0 zs0 raw0 p0 ps hI hC ht hT hv hpl hnf hanc hna hfc0 hzs0 hlen0 hinf0 hraw0
    hframes hseq hsize hlimit hps h32 v hvis r0 hri q sched hs
  obtain ⟨buf0, rs, hrun, hspec, hbl, hfr⟩ := C09.C09_frames cfg t f opts limit h plays anc dAnc frames fc0 zs0 raw0 p0 ps q hI
    hC ht hv hpl hnf hanc hna hfc0 hzs0 hlen0 hinf0 hraw0 hframes hseq hsize hlimit hps
  obtain ⟨rA, hA, _, hw⟩ := apng_first cfg hI hC ht opts limit h hv plays hpl anc dAnc frames hnf hanc hna fc0 zs0 raw0
    hfc0 hzs0 hlen0 hinf0 hraw0 hframes hseq hsize hlimit
  obtain ⟨_, hrem, hcur⟩ := run_end_of_wholeFrames hA hw (p0 :: ps) (by simp [hps])
  refine ⟨buf0, rs, hrun, ?_, hspec, hbl, hfr⟩
  exact delivery_then_polled' cfg hI hT opts limit f (wellFormedApng cfg h plays anc fc0 zs0 (framesOf frames)) h32 v hvis r0
    hri (.nextFrame p0 :: ps.map Op.nextFrame) (isCall_nextFrames p0 ps) sched hs _
    (run_frames_drop_last cfg t _ _ _ _ _ _ _ hrun) (good_frames _ buf0 (framesOk_good h frames ps rs hfr).2) hrem hcur q

/-- **… for the transformation of the executable model** (`Driver.realT`, `Transformations::IDENTITY`): no hypothesis
    about the transformation -/
theorem C09_any_delivery_with_refusal_real (cfg : Cfg) (opts : Options) (limit : Nat) (h : Header) (plays : Nat)
    (anc : List (ChunkType × Bytes)) (dAnc : Dec) (frames : List (FrameControl × List Bytes × Bytes))
    (fc0 : FrameControl) (zs0 : List Bytes) (raw0 : Bytes) (p0 : UInt8) (ps : List UInt8)
    (hI : cfg.InflateOk) (hC : cfg.CrcOk) (hv : h.Valid) (hpl : plays < 2 ^ 32)
    (hnf : frames.length + 1 < 2 ^ 32)
    (hanc : AncChunksG cfg (actlAfter (afterIhdr cfg opts limit h) (frames.length + 1) plays) anc dAnc) (hna : NoActl anc)
    (hfc0 : FcOk h fc0) (hzs0 : zs0 ≠ []) (hlen0 : ∀ z ∈ zs0, z.length < 2 ^ 32)
    (hinf0 : cfg.inflate zs0.flatten = some (raw0, true)) (hraw0 : RawOk (h.frame fc0) raw0)
    (hframes : ∀ fr ∈ frames, FrameOk cfg h fr)
    (hseq : 1 + (frames.map fun x => 1 + x.2.1.length).sum < 2 ^ 32)
    (hsize : h.lineSize * h.height < 2 ^ 64)
    (hlimit : (h.frame fc0).lineSize + (frames.map fun x => (h.frame x.1).lineSize).sum ≤ dAnc.limit)
    (hps : ps.length = frames.length)
    (h32 : (wellFormedApng cfg h plays anc fc0 zs0 (framesOf frames)).length < 2 ^ 32)
    (v : Nat) (hvis : v ≤ (wellFormedApng cfg h plays anc fc0 zs0 (framesOf frames)).length) (r0 : R)
    (hri : step cfg Driver.realT (R.init opts limit {} (wellFormedApng cfg h plays anc fc0 zs0 (framesOf frames)) v) .readInfo =
      (r0, .header)) (q : UInt8)
    (sched : List Nat) (hs : (wellFormedApng cfg h plays anc fc0 zs0 (framesOf frames)).length ≤ v + sched.sum) :
    ∃ buf0 rs,
      resumeRun cfg Driver.realT (wellFormedApng cfg h plays anc fc0 zs0 (framesOf frames)).length sched
        (.nextFrame p0 :: ps.map Op.nextFrame ++ [.nextFrame q]) r0 =
        (.frame { width := fc0.width, height := fc0.height, color := h.color, depth := h.depth,
                  lineSize := (h.frame fc0).lineSize } buf0 :: rs) ++ [.err .parameter "PolledAfterEndOfImage"] ∧
      specFrame (h.frame fc0) raw0 (List.replicate h.bufferSize p0) = some buf0 ∧ buf0.length = h.bufferSize ∧
      FramesOk h frames ps rs := by
  obtain ⟨buf0, rs, _, h2, h3, h4, h5⟩ := C09_any_delivery_with_refusal cfg Driver.realT {} opts limit h plays anc dAnc frames
    fc0 zs0 raw0 p0 ps hI hC Driver.realT_isIdentity Driver.realT_resumeOk hv hpl hnf hanc hna hfc0 hzs0 hlen0 hinf0 hraw0
    hframes hseq hsize hlimit hps h32 v hvis r0 hri q sched hs
  exact ⟨buf0, rs, h2, h3, h4, h5⟩

/-- **C09 under any delivery with the call behind the last frame, the `IDAT` image not part of the animation**
    (hypotheses of `C09_default_image_any_delivery`): the `IDAT` image as for a still image, the frames in file order,
    then `Parameter(PolledAfterEndOfImage)` -/
theorem C09_default_image_any_delivery_with_refusal (cfg : Cfg) (t : TCfg) (f : Flags) (opts : Options) (limit : Nat)
    (h : Header) (plays : Nat) (anc : List (ChunkType × Bytes)) (dAnc : Dec)
    (frames : List (FrameControl × List Bytes × Bytes)) (zs0 : List Bytes) (raw0 : Bytes) (p0 : UInt8) (ps : List UInt8)
    (hI : cfg.InflateOk) (hC : cfg.CrcOk) (ht : t.IsIdentity f) (hT : t.ResumeOk) (hv : h.Valid) (hpl : plays < 2 ^ 32)
    (hnf : frames.length < 2 ^ 32)
    (hanc : AncChunksG cfg (actlAfter (afterIhdr cfg opts limit h) frames.length plays) anc dAnc) (hna : NoActl anc)
    (hzs0 : zs0 ≠ []) (hlen0 : ∀ z ∈ zs0, z.length < 2 ^ 32)
    (hinf0 : cfg.inflate zs0.flatten = some (raw0, true)) (hraw0 : RawOk h raw0)
    (hframes : ∀ fr ∈ frames, FrameOk cfg h fr)
    (hseq : (frames.map fun x => 1 + x.2.1.length).sum < 2 ^ 32)
    (hsize : h.lineSize * h.height < 2 ^ 64)
    (hlimit : h.lineSize + (frames.map fun x => (h.frame x.1).lineSize).sum ≤ dAnc.limit)
    (hps : ps.length = frames.length)
    (h32 : (wellFormedApngDefault cfg h plays anc zs0 (framesOf frames)).length < 2 ^ 32)
    (v : Nat) (hvis : v ≤ (wellFormedApngDefault cfg h plays anc zs0 (framesOf frames)).length) (r0 : R)
    (hri : step cfg t (R.init opts limit f (wellFormedApngDefault cfg h plays anc zs0 (framesOf frames)) v) .readInfo =
      (r0, .header)) (q : UInt8)
    (sched : List Nat) (hs : (wellFormedApngDefault cfg h plays anc zs0 (framesOf frames)).length ≤ v + sched.sum) :
    ∃ buf0 rs,
      resumeRun cfg t (wellFormedApngDefault cfg h plays anc zs0 (framesOf frames)).length sched
        (.nextFrame p0 :: ps.map Op.nextFrame ++ [.nextFrame q]) r0 =
        (.frame { width := h.width, height := h.height, color := h.color, depth := h.depth, lineSize := h.lineSize } buf0 :: rs)
          ++ [.err .parameter "PolledAfterEndOfImage"] ∧
      specPixels h raw0 (List.replicate h.bufferSize p0) = some buf0 ∧ buf0.length = h.bufferSize ∧
      FramesOk h frames ps rs := by
  obtain ⟨buf0, rs, hrun, hspec, hbl, hfr⟩ := C09.C09_default_image cfg t f opts limit h plays anc dAnc frames zs0 raw0 p0 ps q
    hI hC ht hv hpl hnf hanc hna hzs0 hlen0 hinf0 hraw0 hframes hseq hsize hlimit hps
  obtain ⟨rA, hA, _, hw⟩ := apng_default_first cfg hI hC ht opts limit h hv plays hpl anc dAnc frames hnf hanc hna zs0 raw0
    hzs0 hlen0 hinf0 hraw0 hframes hseq hsize hlimit
  obtain ⟨_, hrem, hcur⟩ := run_end_of_wholeFrames hA hw (p0 :: ps) (by simp [hps])
  refine ⟨buf0, rs, ?_, hspec, hbl, hfr⟩
  exact delivery_then_polled' cfg hI hT opts limit f (wellFormedApngDefault cfg h plays anc zs0 (framesOf frames)) h32 v hvis
    r0 hri (.nextFrame p0 :: ps.map Op.nextFrame) (isCall_nextFrames p0 ps) sched hs _
    (run_frames_drop_last cfg t _ _ _ _ _ _ _ hrun) (good_frames _ buf0 (framesOk_good h frames ps rs hfr).2) hrem hcur q

/-! ## C01: still images -/

/-- **C01 under any delivery, then the refusal.**  Hypotheses of `C01_any_delivery` and no `acTL` chunk before the
    image data.  The caller calls `next_frame` twice, repeating every call that ran out of input, under a schedule that
    delivers the file in any pieces: the results are the specification's frame (the header's `OutputInfo`, the buffer
    `specPixels h raw`) and then `Parameter(PolledAfterEndOfImage)` — as on the complete file. -/
theorem C01_any_delivery_then_refusal (cfg : Cfg) (t : TCfg) (f : Flags) (opts : Options) (limit : Nat) (h : Header)
    (anc : Bytes) (dA : Dec) (zs : List Bytes) (raw : Bytes) (post : List (ChunkType × Bytes)) (p q : UInt8)
    (hI : cfg.InflateOk) (hC : cfg.CrcOk) (ht : t.IsIdentity f) (hT : t.ResumeOk) (hv : h.Valid)
    (hanc : AncTrace cfg (afterIhdr cfg opts limit h) anc dA) (hidle : Idle dA h.info.core)
    (hstill : ∀ i, dA.info = some i → i.actl = none)
    (hzs : zs ≠ []) (hlen : ∀ z ∈ zs, z.length < 2 ^ 32) (hinf : cfg.inflate zs.flatten = some (raw, true))
    (hraw : RawOk h raw) (hpost : ∀ c ∈ post, c.1 ≠ IDAT ∧ c.1 < 2 ^ 32 ∧ c.2.length < 2 ^ 32)
    (hsize : h.lineSize * h.height < 2 ^ 64) (hlimit : h.lineSize ≤ dA.limit)
    (h32 : (stillBytes cfg h anc zs post).length < 2 ^ 32)
    (v : Nat) (hvis : v ≤ (stillBytes cfg h anc zs post).length) (r0 : R)
    (hri : step cfg t (R.init opts limit f (stillBytes cfg h anc zs post) v) .readInfo = (r0, .header))
    (sched : List Nat) (hs : (stillBytes cfg h anc zs post).length ≤ v + sched.sum) :
    ∃ buf,
      (run cfg t (R.init opts limit f (stillBytes cfg h anc zs post) (stillBytes cfg h anc zs post).length)
        [.readInfo, .nextFrame p, .nextFrame q]).2 =
        [.header, .frame { width := h.width, height := h.height, color := h.color, depth := h.depth, lineSize := h.lineSize } buf,
         .err .parameter "PolledAfterEndOfImage"] ∧
      resumeRun cfg t (stillBytes cfg h anc zs post).length sched [.nextFrame p, .nextFrame q] r0 =
        [.frame { width := h.width, height := h.height, color := h.color, depth := h.depth, lineSize := h.lineSize } buf,
         .err .parameter "PolledAfterEndOfImage"] ∧
      specPixels h raw (List.replicate h.bufferSize p) = some buf ∧ buf.length = h.bufferSize := by
  obtain ⟨buf, hrun, hspec, hbl⟩ := C01.C01_decode cfg t f opts limit h anc dA zs raw post p hI hC ht hv hanc hidle hzs hlen
    hinf hraw hpost hsize hlimit
  obtain ⟨rA, hA, _, hw⟩ := still_first cfg hI hC ht opts limit h hv anc dA hanc hidle hstill zs raw post hzs hlen hinf hraw
    hpost hsize hlimit
  have hfile : signature ++ chunk cfg IHDR h.body ++ anc ++ idats cfg zs ++ chunks cfg post ++ chunk cfg IEND [] =
      stillBytes cfg h anc zs post := rfl
  rw [hfile] at hrun hA
  have hend : WholeFrames cfg t h.bufferSize
      (run cfg t (R.init opts limit f (stillBytes cfg h anc zs post) (stillBytes cfg h anc zs post).length)
        (.readInfo :: [Op.nextFrame p])).1 [] := run_end_of_wholeFrames hA hw [p] rfl
  have hrun' : (run cfg t (R.init opts limit f (stillBytes cfg h anc zs post) (stillBytes cfg h anc zs post).length)
      (.readInfo :: [Op.nextFrame p])).2 = .header :: [.frame _ buf] := hrun
  refine ⟨buf, ?_, ?_, hspec, hbl⟩
  · have e : [Op.readInfo, .nextFrame p, .nextFrame q] = [Op.readInfo, .nextFrame p] ++ [.nextFrame q] := rfl
    rw [e, Reader.run_append]
    simp only
    rw [hrun', prun_cons, hend.polled q]
    rfl
  · obtain ⟨_, hrem, hcur⟩ := hend
    have key := delivery_then_polled' cfg hI hT opts limit f (stillBytes cfg h anc zs post) h32 v hvis r0 hri [.nextFrame p]
      (isCall_nextFrame p) sched hs [.frame _ buf] hrun' (good_frame _ buf) hrem hcur q
    exact key

/-- **… for the transformation of the executable model** (`Driver.realT`, `Transformations::IDENTITY`) -/
theorem C01_any_delivery_then_refusal_real (cfg : Cfg) (opts : Options) (limit : Nat) (h : Header)
    (anc : Bytes) (dA : Dec) (zs : List Bytes) (raw : Bytes) (post : List (ChunkType × Bytes)) (p q : UInt8)
    (hI : cfg.InflateOk) (hC : cfg.CrcOk) (hv : h.Valid)
    (hanc : AncTrace cfg (afterIhdr cfg opts limit h) anc dA) (hidle : Idle dA h.info.core)
    (hstill : ∀ i, dA.info = some i → i.actl = none)
    (hzs : zs ≠ []) (hlen : ∀ z ∈ zs, z.length < 2 ^ 32) (hinf : cfg.inflate zs.flatten = some (raw, true))
    (hraw : RawOk h raw) (hpost : ∀ c ∈ post, c.1 ≠ IDAT ∧ c.1 < 2 ^ 32 ∧ c.2.length < 2 ^ 32)
    (hsize : h.lineSize * h.height < 2 ^ 64) (hlimit : h.lineSize ≤ dA.limit)
    (h32 : (stillBytes cfg h anc zs post).length < 2 ^ 32)
    (v : Nat) (hvis : v ≤ (stillBytes cfg h anc zs post).length) (r0 : R)
    (hri : step cfg Driver.realT (R.init opts limit {} (stillBytes cfg h anc zs post) v) .readInfo = (r0, .header))
    (sched : List Nat) (hs : (stillBytes cfg h anc zs post).length ≤ v + sched.sum) :
    ∃ buf,
      resumeRun cfg Driver.realT (stillBytes cfg h anc zs post).length sched [.nextFrame p, .nextFrame q] r0 =
        [.frame { width := h.width, height := h.height, color := h.color, depth := h.depth, lineSize := h.lineSize } buf,
         .err .parameter "PolledAfterEndOfImage"] ∧
      specPixels h raw (List.replicate h.bufferSize p) = some buf ∧ buf.length = h.bufferSize := by
  obtain ⟨buf, _, h2, h3, h4⟩ := C01_any_delivery_then_refusal cfg Driver.realT {} opts limit h anc dA zs raw post p q hI hC
    Driver.realT_isIdentity Driver.realT_resumeOk hv hanc hidle hstill hzs hlen hinf hraw hpost hsize hlimit h32 v hvis r0 hri
    sched hs
  exact ⟨buf, h2, h3, h4⟩

/-! ## Non-vacuity: the toy files of `Props/C04Delivery.lean`, byte-by-byte delivery -/

section Examples
open Png.Framing.Toy Png.Reader.Toy Png.Reader.ToyLate Png.C01

/-- **the instance of `C01_any_delivery_then_refusal`** for `file2` (the interlaced 2×2 image, 101 bytes), `v = 41`,
    the remaining 60 bytes arriving one by one: all hypotheses hold -/
example : ∃ buf,
    (run toyCfg idT (R.init {} (2 ^ 64 - 1) {} file2 file2.length) [.readInfo, .nextFrame 7, .nextFrame 9]).2 =
      [.header, .frame ⟨2, 2, 0, 8, 2⟩ buf, .err .parameter "PolledAfterEndOfImage"] ∧
    resumeRun toyCfg idT file2.length (List.replicate 60 1) [.nextFrame 7, .nextFrame 9] reader2 =
      [.frame ⟨2, 2, 0, 8, 2⟩ buf, .err .parameter "PolledAfterEndOfImage"] ∧
    specPixels hGray2i raw2 (List.replicate hGray2i.bufferSize 7) = some buf ∧ buf.length = hGray2i.bufferSize :=
  C01_any_delivery_then_refusal toyCfg idT {} {} (2 ^ 64 - 1) hGray2i [] (afterIhdr toyCfg {} (2 ^ 64 - 1) hGray2i) zs2 raw2 []
    7 9 toy_inflateOk toy_crcOk idT_isIdentity (contracts_suffice idT idT_ok idT_stable) (by decide)
    (AncTrace.nil _ _) (idle_afterIhdr _ _ _ _) (fun i hi => by cases hi; rfl)
    (by decide) (by decide) (by decide) (by decide) (fun _ hc => by cases hc) (by decide) (by decide) (by decide +kernel)
    41 (by decide +kernel) reader2
    (step_eq_of_snd (x := step toyCfg idT (R.init {} (2 ^ 64 - 1) {} file2 41) .readInfo) (by decide +kernel))
    (List.replicate 60 1) (by decide +kernel)

/-- … evaluated, also in pieces of 7, 1, 30, 100 bytes -/
example : resumeRun toyCfg idT file2.length (List.replicate 60 1) [.nextFrame 7, .nextFrame 9] reader2 =
      [.frame ⟨2, 2, 0, 8, 2⟩ [10, 20, 30, 35], .err .parameter "PolledAfterEndOfImage"] ∧
    resumeRun toyCfg idT file2.length [7, 1, 30, 100] [.nextFrame 7, .nextFrame 9] reader2 =
      [.frame ⟨2, 2, 0, 8, 2⟩ [10, 20, 30, 35], .err .parameter "PolledAfterEndOfImage"] := by
  decide +kernel

open Png.C09 in
/-- **the instance of `C09_any_delivery_with_refusal`** for `apng2` (the 2×2 animation with a one-pixel second frame,
    195 bytes), `v = 99`, the remaining 96 bytes arriving one by one: all hypotheses hold -/
example : ∃ buf0 rs,
    (run toyCfg idT (R.init {} (2 ^ 64 - 1) {} apng2 apng2.length)
      (.readInfo :: (.nextFrame 0 :: [7].map Op.nextFrame ++ [.nextFrame 3]))).2 =
      .header :: (.frame ⟨2, 2, 0, 8, 2⟩ buf0 :: rs ++ [.err .parameter "PolledAfterEndOfImage"]) ∧
    resumeRun toyCfg idT apng2.length (List.replicate 96 1) (.nextFrame 0 :: [7].map Op.nextFrame ++ [.nextFrame 3])
      (step toyCfg idT (R.init {} (2 ^ 64 - 1) {} apng2 99) .readInfo).1 =
      (.frame ⟨2, 2, 0, 8, 2⟩ buf0 :: rs) ++ [.err .parameter "PolledAfterEndOfImage"] ∧
    specFrame (hGray2.frame fcFull) [0, 1, 2, 0, 3, 4] (List.replicate hGray2.bufferSize 0) = some buf0 ∧
    buf0.length = hGray2.bufferSize ∧ FramesOk hGray2 framesToy [7] rs :=
  C09_any_delivery_with_refusal toyCfg idT {} {} (2 ^ 64 - 1) hGray2 0 [] _ framesToy fcFull [[6, 0, 1, 2, 0, 3, 4]]
    [0, 1, 2, 0, 3, 4] 0 [7]
    toy_inflateOk toy_crcOk idT_isIdentity (contracts_suffice idT idT_ok idT_stable) (by decide) (by decide) (by decide)
    (.nil _) (fun _ hc => by cases hc)
    ⟨by decide, by decide, by decide, by decide, by decide, by decide, by decide, by decide⟩
    (by decide) (by decide) (by decide) (by decide)
    (fun fr hfr => by
      simp only [framesToy, List.mem_singleton] at hfr
      subst hfr
      exact ⟨⟨by decide, by decide, by decide, by decide, by decide, by decide, by decide, by decide⟩, by decide, by decide,
        by decide, by decide⟩)
    (by decide) (by decide) (by decide +kernel) rfl (by decide +kernel) 99 (by decide +kernel) _
    (step_eq_of_snd (x := step toyCfg idT (R.init {} (2 ^ 64 - 1) {} apng2 99) .readInfo) (by decide +kernel)) 3
    (List.replicate 96 1) (by decide +kernel)

open Png.C09 in
/-- … evaluated (as in `Props/C04Delivery.lean`): both frames, then the refusal -/
example : resumeRun toyCfg idT apng2.length (List.replicate 96 1) [.nextFrame 0, .nextFrame 7, .nextFrame 3]
      (step toyCfg idT (R.init {} (2 ^ 64 - 1) {} apng2 99) .readInfo).1 =
      [.frame ⟨2, 2, 0, 8, 2⟩ [1, 2, 3, 4], .frame ⟨1, 1, 0, 8, 1⟩ [9, 7, 7, 7], .err .parameter "PolledAfterEndOfImage"] := by
  decide +kernel

end Examples

end Png.C04Delivery
