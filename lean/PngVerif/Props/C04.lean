import PngVerif.Proofs.Framing
import PngVerif.Proofs.FramingToy
/-!
# C04 — the decoding result does not depend on how the input bytes are delivered

Property theorems only (lemmas: `PngVerif/Proofs/Framing.lean`).  They are about the model's caller
loop `Framing.feed` (what `Driver/Framing.lean` executes: `update` until the piece is used up) run
over an arbitrary list of pieces (`feedPieces`), for an ARBITRARY `cfg : Cfg` whose inflater satisfies
the contract `Cfg.InflateOk` (prefix-monotone, done-stable), an ARBITRARY decoder value `d` (no
reachability assumption) and ARBITRARY bytes (invalid streams included).

What is compared (`SameObservation`): the error; the events other than the per-call `ImageData`
notifications; the final decoder — completely (so `info`, `out` = image data, limits, …) when there
is no error; after an error up to `Dec.afterError`, i.e. everything except the progress inside the
data chunk in which the failure was detected (`out`, `zin`, `zemitted`, `zstarted`, `crcAcc`,
`remaining`) — the exemption C04 itself makes ("only the amount of partial row data handed out
before a failure is reported may depend on the delivery").
-/
namespace Png.C04
open Png Png.Framing

/-- two results are indistinguishable for C04 -/
def SameObservation (r r' : Res) : Prop :=
  r.2.2 = r'.2.2 ∧ r.2.1.filter Ev.keep = r'.2.1.filter Ev.keep ∧
  (r.2.2 = none → r.1 = r'.1) ∧ r.1.afterError = r'.1.afterError

theorem sameObservation_of_proj {r r' : Res} (h : r.proj = r'.proj) : SameObservation r r' := by
  obtain ⟨h1, h2, h3⟩ := (Res.proj_eq_iff r r').1 h
  refine ⟨h1, h2, ?_, ?_⟩
  · intro hn; rw [hn] at h3; exact h3
  · cases he : r.2.2 with
    | none => rw [he] at h3; simp only at h3; rw [h3]
    | some e => rw [he] at h3; exact h3

/-- **Split invariance**: any two partitions of the same byte string into pieces, fed piece after
    piece, are indistinguishable. -/
theorem split_invariant (cfg : Cfg) (hI : cfg.InflateOk) (d : Dec) (ps qs : List Bytes)
    (h : ps.flatten = qs.flatten) : SameObservation (feedPieces cfg d ps) (feedPieces cfg d qs) :=
  sameObservation_of_proj (feedPieces_split_invariant cfg hI d ps qs h)

/-- **Bytewise**: feeding `x :: xs` in one piece is indistinguishable from feeding `[x]` and then
    `xs` (any fuels `≥ 5·length + 5`). -/
theorem bytewise (cfg : Cfg) (hI : cfg.InflateOk) (d : Dec) (x : UInt8) (xs : Bytes) (f f1 f2 : Nat)
    (hf : 5 * (x :: xs).length + 5 ≤ f) (h1 : 10 ≤ f1) (h2 : 5 * xs.length + 5 ≤ f2) :
    SameObservation (feed cfg f d (x :: xs) [])
      (Res.bind (feed cfg f1 d [x] []) (fun d1 => feed cfg f2 d1 xs [])) := by
  apply sameObservation_of_proj
  rw [feed_eq_runF cfg d _ f hf, feed_eq_runF cfg d [x] f1 (by simpa using h1)]
  have : (fun d1 => feed cfg f2 d1 xs []) = (fun d1 => runF cfg d1 xs) := by
    funext d1; exact feed_eq_runF cfg d1 xs f2 h2
  rw [this]
  exact runF_cons cfg hI d x xs

/-- the same statement for the caller-level semantics `run` (iterate `nextState` directly) -/
theorem bytewise_run (cfg : Cfg) (hI : cfg.InflateOk) (d : Dec) (x : UInt8) (xs : Bytes) (f f1 f2 : Nat)
    (hf : 5 * (x :: xs).length + 5 ≤ f) (h1 : 10 ≤ f1) (h2 : 5 * xs.length + 5 ≤ f2) :
    SameObservation (run cfg f d (x :: xs)) ((run cfg f1 d [x]).bind (fun d1 => run cfg f2 d1 xs)) :=
  sameObservation_of_proj (run_cons cfg hI d x xs f f1 f2 hf h1 h2)

/-- `feed` (through `update`, returning to the caller at every event) computes `run` -/
theorem feed_is_run (cfg : Cfg) (d : Dec) (buf : Bytes) (f f' : Nat)
    (hf : 5 * buf.length + 5 ≤ f) (hf' : 5 * buf.length + 5 ≤ f') :
    feed cfg f d buf [] = run cfg f' d buf := by
  rw [feed_eq_runF cfg d buf f hf, run_eq_runF' cfg d hf']

/-- `info()` after the run (with or without error) does not depend on the delivery -/
theorem info_delivery_independent (cfg : Cfg) (hI : cfg.InflateOk) (d : Dec) (ps qs : List Bytes)
    (h : ps.flatten = qs.flatten) : (feedPieces cfg d ps).1.info = (feedPieces cfg d qs).1.info := by
  have := congrArg Dec.info (split_invariant cfg hI d ps qs h).2.2.2
  exact this

/-- whether the run fails, and with which error, does not depend on the delivery -/
theorem error_delivery_independent (cfg : Cfg) (hI : cfg.InflateOk) (d : Dec) (ps qs : List Bytes)
    (h : ps.flatten = qs.flatten) : (feedPieces cfg d ps).2.2 = (feedPieces cfg d qs).2.2 :=
  (split_invariant cfg hI d ps qs h).1

/-- the reported events (other than `ImageData`) do not depend on the delivery -/
theorem events_delivery_independent (cfg : Cfg) (hI : cfg.InflateOk) (d : Dec) (ps qs : List Bytes)
    (h : ps.flatten = qs.flatten) :
    (feedPieces cfg d ps).2.1.filter Ev.keep = (feedPieces cfg d qs).2.1.filter Ev.keep :=
  (split_invariant cfg hI d ps qs h).2.1

/-- the image data handed to the caller (`out`) of a run without error does not depend on the delivery -/
theorem image_data_delivery_independent (cfg : Cfg) (hI : cfg.InflateOk) (d : Dec) (ps qs : List Bytes)
    (h : ps.flatten = qs.flatten) (hok : (feedPieces cfg d ps).2.2 = none) :
    (feedPieces cfg d qs).2.2 = none ∧ (feedPieces cfg d ps).1.out = (feedPieces cfg d qs).1.out := by
  have hs := split_invariant cfg hI d ps qs h
  exact ⟨hs.1 ▸ hok, congrArg Dec.out (hs.2.2.1 hok)⟩

/-! ## non-vacuity: a concrete 60-byte stream, a concrete inflater satisfying the contract -/
section examples
open Png.Framing.Toy

example : toyCfg.InflateOk := toy_inflateOk

/-- whole, in three pieces, and byte by byte: all events, the image data `[7, 9]`, `info`, no error -/
example :
    let whole := feedPieces toyCfg d0 [good]
    let three := feedPieces toyCfg d0 [good.take 10, (good.drop 10).take 31, good.drop 41]
    let bytes := feedPieces toyCfg d0 (good.map fun b => [b])
    whole.2.2 = none ∧ whole.1.out = [7, 9] ∧ three.1.out = [7, 9] ∧ bytes.1.out = [7, 9] ∧
    whole.2.1 = [.chunkBegin 13 IHDR, .header 1 1 8 0 false, .chunkComplete 0 IHDR, .chunkBegin 3 IDAT,
                 .imageData, .chunkComplete 0 IDAT, .imageDataFlushed, .chunkBegin 0 IEND, .partialChunk IEND, .imageEnd] ∧
    three.2.1.filter Ev.keep = whole.2.1.filter Ev.keep ∧ bytes.2.1.filter Ev.keep = whole.2.1.filter Ev.keep ∧
    bytes.2.1.length = 12 ∧
    whole.1.info = some { width := 1, height := 1, depth := 8, color := 0, interlaced := false } ∧
    bytes.1.info = whole.1.info ∧ whole.1.state = none := by
  decide +kernel

/-- an invalid stream (corrupt data chunk): same error, same events, same `info` under two deliveries;
    the exempted fields do differ (the whole delivery fails before accounting for any byte of the chunk body) -/
example :
    let whole := feedPieces toyCfg d0 [bad]
    let bytes := feedPieces toyCfg d0 (bad.map fun b => [b])
    whole.2.2 = some (.format "CorruptFlateStream") ∧ bytes.2.2 = whole.2.2 ∧
    bytes.2.1.filter Ev.keep = whole.2.1.filter Ev.keep ∧ whole.2.1.length = 4 ∧
    bytes.1.info = whole.1.info ∧ whole.1.info.isSome ∧ whole.1.state = none ∧ bytes.1.state = none := by
  decide +kernel

end examples
end Png.C04
