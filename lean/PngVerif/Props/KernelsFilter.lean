import PngVerif.Generated.KernelsFilter
import PngVerif.Model.Filter
import PngVerif.Proofs.KernelTactic
/-!
# Tie A, part 2 (translator): the Paeth predictors of `src/filter.rs` as translated from the current source

`Generated/KernelsFilter.lean` is rewritten by `tools/rs2lean.py` from `/repo/src/filter.rs` on every run.  The theorems
say that, for ALL byte arguments, what the translator read equals the hand-written model definitions the C14 / C01 theorems
are about (`paethAInt`, `paethStbiInt`, `paethFpngeNat` in `Model/Filter.lean`) and that every run stays inside the Rust
integer types (`_ok`: no overflow of the `i16` / `u8` arithmetic, i.e. no panic in an overflow-checked build and exact-integer
semantics).  With `C14.paeth_A`, `paeth_stbi`, `paeth_fpnge` this ties the specification's predictor to the source text.
-/
namespace Png.Kernels
open Png

theorem filter_paeth_int (a b c : Int) (ha : 0 ≤ a ∧ a < 256) (hb : 0 ≤ b ∧ b < 256) (hc : 0 ≤ c ∧ c < 256) :
    Gen.filter_paeth a b c = paethAInt a b c ∧ Gen.filter_paeth_ok a b c = true := by
  constructor
  · unfold Gen.filter_paeth paethAInt iabs
    kernel_arith
  · unfold Gen.filter_paeth_ok
    kernel_arith

theorem filter_paeth_stbi_int (a b c : Int) (ha : 0 ≤ a ∧ a < 256) (hb : 0 ≤ b ∧ b < 256) (hc : 0 ≤ c ∧ c < 256) :
    Gen.filter_paeth_stbi a b c = paethStbiInt a b c ∧ Gen.filter_paeth_stbi_ok a b c = true := by
  constructor
  · unfold Gen.filter_paeth_stbi paethStbiInt
    kernel_arith
  · unfold Gen.filter_paeth_stbi_ok
    kernel_arith

theorem filter_paeth_fpnge_nat (a b c : Nat) (ha : a < 256) (hb : b < 256) (hc : c < 256) :
    Gen.filter_paeth_fpnge a b c = (paethFpngeNat a b c : Nat) ∧ Gen.filter_paeth_fpnge_ok a b c = true := by
  constructor
  · unfold Gen.filter_paeth_fpnge paethFpngeNat
    kernel_arith
  · unfold Gen.filter_paeth_fpnge_ok
    kernel_arith

/-- **the three Paeth functions of the current source, on bytes, are the model's** (and never overflow) -/
theorem kernel_paeth (a b c : UInt8) :
    (Gen.filter_paeth a.toNat b.toNat c.toNat).toNat.toUInt8 = paethA a b c ∧
    (Gen.filter_paeth_stbi a.toNat b.toNat c.toNat).toNat.toUInt8 = paethStbi a b c ∧
    (Gen.filter_paeth_fpnge a.toNat b.toNat c.toNat).toNat.toUInt8 = paethFpnge a b c ∧
    Gen.filter_paeth_ok a.toNat b.toNat c.toNat = true ∧ Gen.filter_paeth_stbi_ok a.toNat b.toNat c.toNat = true ∧
    Gen.filter_paeth_fpnge_ok a.toNat b.toNat c.toNat = true := by
  have ha := a.toNat_lt; have hb := b.toNat_lt; have hc := c.toNat_lt
  have h1 := filter_paeth_int a.toNat b.toNat c.toNat (by omega) (by omega) (by omega)
  have h2 := filter_paeth_stbi_int a.toNat b.toNat c.toNat (by omega) (by omega) (by omega)
  have h3 := filter_paeth_fpnge_nat a.toNat b.toNat c.toNat (by omega) (by omega) (by omega)
  refine ⟨?_, ?_, ?_, h1.2, h2.2, h3.2⟩
  · rw [h1.1]; rfl
  · rw [h2.1]; rfl
  · rw [h3.1]; simp [paethFpnge]

/-- non-vacuity / sanity: the translated functions compute -/
example : Gen.filter_paeth 10 20 15 = 15 ∧ Gen.filter_paeth_stbi 200 3 100 = 100 ∧ Gen.filter_paeth_fpnge 1 2 3 = 1 := by decide

end Png.Kernels
