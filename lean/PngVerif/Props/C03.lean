import PngVerif.Proofs.Scanlines
/-!
# C03 — Encode then decode is lossless

Scanline-stream level: whatever filter type the encoder picks for each row (fixed, adaptive, or any
other function of the previous and current row), for every bpp, row count and row length, the
specification's reverse filtering of the emitted stream returns exactly the rows given.  The
compressor/inflater pair is outside image-png and enters as the hypothesis `inflate ∘ compress = id`.
-/
namespace Png.C03

/-- decode ∘ encode = id on scanline streams (any trailing bytes after the last row are ignored) -/
theorem scanlines_roundtrip (choose : Bytes → Bytes → FilterType) (bpp rb : Nat) (rows : List Bytes)
    (hlen : ∀ r ∈ rows, r.length = rb) (tail : Bytes) :
    decodeScanlines bpp rb rows.length [] (encodeScanlines choose bpp [] rows ++ tail) = some rows :=
  decode_encode_scanlines choose bpp rb rows hlen [] tail

/-- with an abstract compressor/inflater pair that round-trips, the whole image path round-trips -/
theorem image_roundtrip (compress inflate : Bytes → Bytes) (hc : ∀ x, inflate (compress x) = x)
    (choose : Bytes → Bytes → FilterType) (bpp rb : Nat) (rows : List Bytes)
    (hlen : ∀ r ∈ rows, r.length = rb) :
    decodeScanlines bpp rb rows.length [] (inflate (compress (encodeScanlines choose bpp [] rows))) = some rows := by
  rw [hc]; simpa using decode_encode_scanlines choose bpp rb rows hlen [] []

/-- the encoder filters the first row against a zero row; the specification says "no row": same bytes -/
theorem first_row_zero_prev (ft : FilterType) (bpp n : Nat) (row : Bytes) :
    filtRow ft bpp (List.replicate n 0) row = filtRow ft bpp [] row := filtRow_first ft bpp n row

example : decodeScanlines 1 2 2 [] (encodeScanlines (fun _ _ => .paeth) 1 [] [[1, 2], [3, 250]]) = some [[1, 2], [3, 250]] := by
  decide

end Png.C03
