import PngVerif.Proofs.ReaderEnd
import PngVerif.Proofs.ReaderToy
/-!
# C13 — `next_frame` finishes a frame whose remaining rows are still to be delivered (repair 429476f)

Property theorems only (lemmas: `Proofs/ReaderInv.lean` — `nextFrameBuf_eq`, `nextFrameBuf_some`, `Inside`,
`inside_cases`, `frameInto_spec` —, `Proofs/ReaderEnd.lean` — `frameInto_ns`, `frameInto_kind`, `nextFrameOp_out`), about
`Model/Reader.lean` (`nextFrameBuf`, `frameInto`, `step`).

`Reader::next_frame` (mod.rs:403-415) looks at `current_interlace_info` FIRST: while rows of the current frame are
still to be delivered the call goes straight on to finish this frame, whatever `remaining_frames` and
`consumed_and_flushed` say.  Only with no row pending does it answer `PolledAfterEndOfImage` (no frame left) or
advance to the next frame (`read_until_image_data`, when the current one is consumed).  (Before the repair the frame
counter and `consumed_and_flushed` were looked at first: when the end of a frame's data had been seen while earlier
rows were read — the inflater hands out the tail of a frame, several rows at once, when the `IDAT`/`fdAT` sequence is
finished — a still image answered `PolledAfterEndOfImage` and an animation moved on to the next frame, dropping the
rows.)
-/
namespace Png.C13
open Png Png.Framing Png.Reader

/-- **rows pending: `next_frame` is `frameInto`.**  For EVERY reader state `r` (the invariant is not even needed) with
    `current_interlace_info = Some(_)`, every buffer, every `cfg` and transformation: `next_frame` does exactly what it
    does inside a frame — the buffer size check, the row loop from the first row not yet delivered, `finish_decoding` —
    WHATEVER `r.remaining` and `r.sub.caf` are; in particular with `remaining = 0 ∧ caf = true`.  `frameInto` contains
    neither the `PolledAfterEndOfImage` answer of the frame counter nor the advance to another frame
    (`readUntilImageData`): both are skipped while rows are pending. -/
theorem next_frame_finishes_pending_rows (cfg : Cfg) (t : TCfg) (r : R) (buf : Bytes)
    (hcur : r.sub.cur.isSome = true) : nextFrameBuf cfg t r buf = frameInto cfg t r buf :=
  nextFrameBuf_some cfg t r buf hcur

/-- the three ways into `next_frame`, exhaustively: (1) rows pending, or the frame not yet consumed and a frame left —
    `frameInto` on the current frame; (2) no row pending and no frame left — `PolledAfterEndOfImage`, nothing
    changes; (3) no row pending, the frame consumed, a frame left — advance (`readUntilImageData`), then `frameInto`
    on the new frame -/
theorem next_frame_cases (cfg : Cfg) (t : TCfg) (r : R) (buf : Bytes) :
    ((r.sub.cur.isSome = true ∨ (r.remaining ≠ 0 ∧ r.sub.caf = false)) ∧
      nextFrameBuf cfg t r buf = frameInto cfg t r buf) ∨
    (r.sub.cur = none ∧ r.remaining = 0 ∧
      nextFrameBuf cfg t r buf = (r, .err .parameter "PolledAfterEndOfImage", buf)) ∨
    (r.sub.cur = none ∧ r.remaining ≠ 0 ∧ r.sub.caf = true ∧
      nextFrameBuf cfg t r buf = (match readUntilImageData cfg t r with
        | (r1, .error e) => (r1, e, buf)
        | (r1, .ok ()) => frameInto cfg t r1 buf)) := by
  rcases inside_cases r with hin | ⟨hcur, hrem⟩ | ⟨hcur, hrem, hcaf⟩
  · exact Or.inl ⟨hin, nextFrameBuf_of_inside cfg t r buf hin⟩
  · exact Or.inr (Or.inl ⟨hcur, hrem, nextFrameBuf_polled cfg t r buf hcur hrem⟩)
  · refine Or.inr (Or.inr ⟨hcur, hrem, hcaf, ?_⟩)
    rw [nextFrameBuf_none cfg t r buf hcur]
    unfold nextFrameBuf0
    rw [if_neg hrem, hcaf]
    simp only [if_true]
    cases readUntilImageData cfg t r with
    | mk r1 res => cases res <;> rfl

/-- **the same for the public call**, in a state satisfying the invariant: with rows pending, `next_frame` (the
    model's operation: a buffer of the documented size) answers what `frameInto` answers on that buffer — an error or
    the frame, never a panic —, keeps the invariant, and — when the frame's data was already consumed and flushed
    (`caf = true`, e.g. `remaining = 0` after the last frame's data) — touches neither the stream decoder, nor the read
    position, nor the frame counter: the frame is finished from the rows that are buffered. -/
theorem next_frame_op_finishes_pending_rows (cfg : Cfg) (t : TCfg) (ht : t.Ok) (r : R) (p : UInt8) (i : Info)
    (hI : Inv t r) (hr : r.isReader = true) (hi : r.dec.info = some i) (hcur : r.sub.cur.isSome = true) :
    (step cfg t r (.nextFrame p)).2 =
      (frameInto cfg t { r with pendingBuf := none } (callerBuf r (outLineSize t i r.flags i.width * i.height) p)).2.1 ∧
    ((step cfg t r (.nextFrame p)).2.isErr = true ∨ (step cfg t r (.nextFrame p)).2.isFrame = true) ∧
    Inv t (step cfg t r (.nextFrame p)).1 ∧
    (r.sub.caf = true → Still r (step cfg t r (.nextFrame p)).1) := by
  obtain ⟨s1, _⟩ := step_reader cfg t r hr
  rw [s1 p]
  obtain ⟨o1, o2⟩ := nextFrameOp_out cfg t r p i hi
  have hc : ({ r with pendingBuf := none } : R).sub.cur.isSome = true := hcur
  rw [nextFrameBuf_some cfg t _ _ hc] at o1 o2
  refine ⟨o1, ?_, (nextFrameOp_spec cfg ht r p hI).1, fun hcaf => ?_⟩
  · rw [o1]
    rcases frameInto_kind cfg ht { r with pendingBuf := none }
      (callerBuf r (outLineSize t i r.flags i.width * i.height) p) (hI.setPending none) with h | ⟨oi, b, h⟩
    · exact Or.inl h
    · exact Or.inr (by rw [h]; rfl)
  · have hs0 : Still r { r with pendingBuf := none } := ⟨rfl, rfl, rfl, rfl, rfl, rfl, rfl⟩
    exact hs0.trans ((frameInto_ns cfg t { r with pendingBuf := none }
      (callerBuf r (outLineSize t i r.flags i.width * i.height) p) (Or.inr hcaf)).trans o2)

/-! ## Non-vacuity -/
section examples
open Png.Reader.Toy Png.Framing.Toy

/-- `IHDR` of a 1×2 8-bit grayscale image (toy CRC) -/
def ihdr12 : Bytes := [0, 0, 0, 13, 73, 72, 68, 82,  0, 0, 0, 1,  0, 0, 0, 2,  8, 0, 0, 0, 0,  0, 0, 0, 0]
/-- `IDAT` with the toy stream `[4, 0, 9, 0, 7]`: two rows, filter type 0, pixels 9 and 7 -/
def idat2 : Bytes := [0, 0, 0, 5, 73, 68, 65, 84,  4, 0, 9, 0, 7,  0, 0, 0, 0]
def img12 : Bytes := sig ++ ihdr12 ++ idat2 ++ iend
/-- the same image with data for one row only (`idat1`: toy stream `[2, 0, 9]`) -/
def img12short : Bytes := sig ++ ihdr12 ++ idat1 ++ iend

/-- after `read_info` and one `next_row`: row 0 delivered, row 1 buffered and pending -/
def oneRowRead : R := (run toyCfg idT (R.init {} 1000 {} img12 img12.length) [.readInfo, .nextRow]).1
/-- … in the situation the real decoder reaches when the inflater hands out the tail of the frame only at the end of the
    data sequence: the frame is already flushed and counted (`remaining_frames = 0`, `consumed_and_flushed`), row 1
    is still to be delivered -/
def pendingAfterFlush : R := { oneRowRead with remaining := 0, sub := { oneRowRead.sub with caf := true } }

example : (pendingAfterFlush.remaining, pendingAfterFlush.sub.caf, pendingAfterFlush.sub.cur.isSome,
    pendingAfterFlush.ub.currLen) = (0, true, true, 2) := by decide +kernel

/-- **`next_frame` finishes the frame**: row 1 (pixel 7) is written behind the untouched first line of the caller's
    buffer `[5, 5]`; the frame counter stays 0 … -/
example : (nextFrameBuf toyCfg idT pendingAfterFlush [5, 5]).2 = (.frame ⟨1, 2, 0, 8, 1⟩ [5, 7], [5, 7]) ∧
    (nextFrameBuf toyCfg idT pendingAfterFlush [5, 5]).1.remaining = 0 ∧
    (nextFrameBuf toyCfg idT pendingAfterFlush [5, 5]).1.sub.cur.isNone = true := by decide +kernel

/-- … where the beginning of `next_frame` before the repair (`nextFrameBuf0`: frame counter first) answered
    `PolledAfterEndOfImage` and dropped the row -/
example : (nextFrameBuf0 toyCfg idT pendingAfterFlush [5, 5]).2 =
    (.err .parameter "PolledAfterEndOfImage", [5, 5]) := by decide +kernel

/-- the same with a poisoned stream decoder (a fatal error between the frames): the buffered frame is still completed —
    the reason why `Png.C18.poisoned_absorbing` / `terminal_absorbing` now allow a frame answer of `next_frame` in exactly
    this situation (`cur.isSome ∧ caf`) -/
def pendingPoisoned : R := { pendingAfterFlush with dec := { pendingAfterFlush.dec with state := none } }
example : (nextFrameBuf toyCfg idT pendingPoisoned [5, 5]).2 = (.frame ⟨1, 2, 0, 8, 1⟩ [5, 7], [5, 7]) := by decide +kernel

/-- the hypothesis of `next_frame_finishes_pending_rows` on it, and the conclusion by the theorem -/
example : nextFrameBuf toyCfg idT pendingAfterFlush [5, 5] = frameInto toyCfg idT pendingAfterFlush [5, 5] :=
  next_frame_finishes_pending_rows toyCfg idT pendingAfterFlush [5, 5] (by decide +kernel)

/-- a REACHABLE state with `remaining = 0 ∧ caf = true` and a row pending (the model's inflater is eager, so this needs a
    failed row): the image data ends after one row; the second `next_row` sees the end of the data sequence (frame
    flushed and counted) and fails with `Format(NoMoreImageData)` (11); `next_frame` then goes on with the pending row
    and fails the same way (11) instead of answering `Parameter(PolledAfterEndOfImage)` (12) -/
example : let o := run toyCfg idT (R.init {} 1000 {} img12short img12short.length) [.readInfo, .nextRow, .nextRow]
    (o.2.map code, o.1.remaining, o.1.sub.caf, o.1.sub.cur.isSome) = ([1, 201, 11], 0, true, true) := by decide +kernel
example : (run toyCfg idT (R.init {} 1000 {} img12short img12short.length)
    [.readInfo, .nextRow, .nextRow, .nextFrame 5, .nextRow, .nextFrameInfo]).2.map code = [1, 201, 11, 11, 11, 12] := by
  decide +kernel

end examples
end Png.C13
