import PngVerif.Proofs.LazyRefineTop
import PngVerif.Proofs.ComposeRealT
import PngVerif.Proofs.ReaderPathsToy
import PngVerif.Props.C04Lazy
/-!
# The two `Reader` models: the byte-level model is an instance of the call-protocol model

`Model/Reader.lean` (`Png.Reader`) is the implementation-shaped model of `png::Reader` over the bytes of a file; its
inflater hands out every decodable byte at once.  `Model/LazyReader.lean` (`Png.Lazy`) abstracts a file to frames
(row-unit lengths, available bytes), the arrival of image data to a parameter, and keeps only the call protocol; its
theorems (`Props/C04Lazy.lean`) hold for EVERY arrival.  Here the two are related by a theorem (lemmas:
`Proofs/LazyRefine*.lean`).

* Abstraction (`Proofs/LazyRefineDefs.lean`): `absFile` (the `Lazy` frames of a file: row-unit lengths from the `IHDR` /
  `fcTL` geometry incl. Adam7 passes, `avail` = the length of the inflated data sequence), `absOp` (the public calls),
  `resMatch G rres lres` (the `Lazy` result is the skeleton of the `Reader` result: row-unit `i` of frame `k` ↔ the
  `InterlaceInfo` is the `i`-th scanline of frame `k`; frame / frame control ↔ the size of frame `k`; errors by class).
* Simulation relation `Sim` / `SimI` (`Proofs/LazyRefineAdvance.lean`, `…Run.lean`) — the relational `absR`:
  `remaining_frames`, `consumed_and_flushed`, `finished`, the buffered byte count `curr_row_len()`, the row cursor (the
  iterator stands before a suffix of the frame's row-units ↔ the index of the first of them), the position in the data
  (the `decode_image_data` calls still to come ↔ the arrival still to come: `arrOf`), the rest of the file (`Tail`).
  The frame index is not a field of the `Reader`; it is part of the relation, not a function of the reader.
* Section 1: the simulation for one call and for any call sequence, *result-conditional* (`okRes`): it speaks about the
  calls whose answer the `Lazy` model has a word for — not a panic (C02 shows there is none), not a `Limits` error, not
  an `UnknownFilterMethod` / transformation error: the `Lazy` model abstracts these (`Model/LazyReader.lean`, header).
  It holds for every transformation `t` (`CreateSafe`), every arrival a trace induces, every amount of data.
* Section 2: well-formed stills / animations (`wellFormedStill` without chunks behind the image data, `wellFormedApng`)
  with image data of ANY length (short: `NoMoreImageData`; excess: dropped), identity transformation: the reader
  `read_info` returns is related to `Lazy.init`; the arrivals bring nothing with `Done` (`last = 0`, from `ZInv`).
* Section 3: the same files with exact image data (`RawOk`): UNCONDITIONALLY, every sequence of calls is answered by
  both models alike — and the `Lazy` model runs under the EAGER arrival (`eagerAbsEnv`; `Proofs/LazyRefineEager.lean`:
  arrivals with `last = 0` are indistinguishable from `Arrival.eager`, for every call sequence).
* Section 4: what transfers from `Lazy` to the byte-level model (`lazy_rows_exact`, `lazy_no_panic`), what does not.
-/
namespace Png.C13LazyRefine
open Png Png.Framing Png.WellFormed Png.Reader Png.LazyRefine

/-! ## 1. One call, any sequence of calls -/

/-- **One call.**  `Sim` relates the reader `r` to the `Lazy` state `s`; `op` is a public call of a `Reader`
    (`absOp op = some lop`: `next_frame`, `next_row` / `next_interlaced_row`, `read_row`, `next_frame_info`, `finish`)
    whose answer in the byte-level model is one the `Lazy` model speaks about.  Then the `Lazy` model's answer to `lop`
    is the skeleton of that answer, and the new reader is related to the new `Lazy` state. -/
theorem reader_call_refines_lazy (cfg : Cfg) (t : TCfg) (hts : CreateSafe t) (G : List Header) (e : Lazy.Env)
    (hv : e.Valid) (hG : G.length = e.frames.length) (f : Flags) (i0 : Info) (r : R) (s : Lazy.St)
    (hS : Sim cfg G e (fun i' => outLineSize t i' f (Sub.new i').width) f i0 r s)
    (op : Reader.Op) (lop : Lazy.Op) (hop : absOp op = some lop) (hok : okRes (Reader.step cfg t r op).2 = true) :
    resMatch G (Reader.step cfg t r op).2 (Lazy.step e s lop).2 = true ∧
      Sim cfg G e (fun i' => outLineSize t i' f (Sub.new i').width) f i0 (Reader.step cfg t r op).1 (Lazy.step e s lop).1 :=
  step_sim cfg t hts G e hv hG _ f (fun _ => rfl) i0 r s hS op lop hop hok

/-- **Any sequence of calls**: the answers of the `Lazy` model are, one by one, the skeletons of the answers of the
    byte-level model, as long as the latter are answers the `Lazy` model speaks about. -/
theorem reader_run_refines_lazy (cfg : Cfg) (t : TCfg) (hts : CreateSafe t) (G : List Header) (e : Lazy.Env)
    (hv : e.Valid) (hG : G.length = e.frames.length) (f : Flags) (i0 : Info) (ops : List Reader.Op) (r : R) (s : Lazy.St)
    (hS : Sim cfg G e (fun i' => outLineSize t i' f (Sub.new i').width) f i0 r s)
    (hcalls : ∀ op ∈ ops, isCall op = true) (hok : ∀ res ∈ (Reader.run cfg t r ops).2, okRes res = true) :
    resMatchAll G (Reader.run cfg t r ops).2 (Lazy.run e s (absOps ops)).2 = true ∧
      Sim cfg G e (fun i' => outLineSize t i' f (Sub.new i').width) f i0 (Reader.run cfg t r ops).1
        (Lazy.run e s (absOps ops)).1 :=
  run_sim cfg t hts G e hv hG _ f (fun _ => rfl) i0 ops r s hS hcalls hok

/-! ## 2. Well-formed files, image data of any length (conditional on the answers) -/

/-- the hypotheses of the `Lazy` theorems (`C04Lazy.Start`) -/
theorem start_of (e : Lazy.Env) (rem0 : Nat) (s0 : Lazy.St) (hv : e.Valid) (hr : 1 ≤ rem0) (hi : Lazy.init e rem0 = some s0) :
    C04Lazy.Start e rem0 s0 := ⟨hv, hr, hi⟩

/-- **A well-formed animation whose first frame is the `IDAT` image** (`wellFormedApng`; identity transformation; the
    data of every frame of ANY length: `FrameD`).  `read_info` returns a reader `r0`; there are arrivals `arrs` that hand
    out exactly each frame's data and bring nothing with `Done` (`last = 0`: the arrivals the byte-level model induces
    are of the eager kind) such that, for the `Lazy` environment of the file's abstraction under these arrivals: the
    hypotheses of the `Lazy` theorems hold for `Lazy.init`, and every sequence of `Reader` calls on `r0` whose answers
    the `Lazy` model speaks about is answered by the `Lazy` model with their skeletons. -/
theorem apng_refines_lazy (cfg : Cfg) (hI : cfg.InflateOk) (hC : cfg.CrcOk) {t : TCfg} {f : Flags} (ht : t.IsIdentity f)
    (hts : CreateSafe t) (opts : Options) (limit : Nat) (h : Header) (hv : h.Valid) (plays : Nat) (hplays : plays < 2 ^ 32)
    (anc : List (ChunkType × Bytes)) (dAnc : Dec)
    (frames : List (FrameControl × List Bytes × Bytes)) (hnf : frames.length + 1 < 2 ^ 32)
    (hanc : AncChunksG cfg (actlAfter (afterIhdr cfg opts limit h) (frames.length + 1) plays) anc dAnc) (hna : NoActl anc)
    (fc0 : FrameControl) (zs0 : List Bytes) (raw0 : Bytes) (hfc0 : FcOk h fc0)
    (hzs0 : zs0 ≠ []) (hlen0 : ∀ z ∈ zs0, z.length < 2 ^ 32) (hinf0 : cfg.inflate zs0.flatten = some (raw0, true))
    (hframes : ∀ fr ∈ frames, FrameD cfg h fr)
    (hseq : 1 + (frames.map fun x => 1 + x.2.1.length).sum < 2 ^ 32)
    (hsize : h.lineSize * h.height < 2 ^ 64) (hlimit : (h.frame fc0).lineSize ≤ dAnc.limit) :
    ∃ (r0 : R) (arrs : List Lazy.Arrival) (s0 : Lazy.St),
      Reader.step cfg t (R.init opts limit f (wellFormedApng cfg h plays anc fc0 zs0 (framesOf frames))
        (wellFormedApng cfg h plays anc fc0 zs0 (framesOf frames)).length) .readInfo = (r0, .header) ∧
      C04Lazy.Start (absEnv h (h.frame fc0) raw0 frames arrs) r0.remaining s0 ∧ (∀ a ∈ arrs, a.last = 0) ∧
      ∀ ops : List Reader.Op, (∀ op ∈ ops, isCall op = true) → (∀ res ∈ (Reader.run cfg t r0 ops).2, okRes res = true) →
        resMatchAll (geomOf h (h.frame fc0) frames) (Reader.run cfg t r0 ops).2
          (Lazy.run (absEnv h (h.frame fc0) raw0 frames arrs) s0 (absOps ops)).2 = true := by
  obtain ⟨r0, i0, arrs, s0, h1, h2, h3, hl0, h4, h5⟩ :=
    apng_start cfg hI hC ht opts limit h hv plays hplays anc dAnc frames hnf hanc hna fc0 zs0 raw0 hfc0 hzs0 hlen0 hinf0
      hframes hseq hsize hlimit
  refine ⟨r0, arrs, s0, h1, ⟨h3, by omega, h4⟩, hl0, fun ops hc hok => ?_⟩
  exact (run_sim cfg t hts _ _ h3 (by simp [geomOf, absEnv, absFile]) _ f (fun _ => rfl) i0 ops r0 s0 h5 hc hok).1

/-- **A well-formed still image** (`wellFormedStill` without `acTL` and without chunks behind the image data; identity
    transformation; image data of ANY length) -/
theorem still_refines_lazy (cfg : Cfg) (hI : cfg.InflateOk) (hC : cfg.CrcOk) {t : TCfg} {f : Flags} (ht : t.IsIdentity f)
    (hts : CreateSafe t) (opts : Options) (limit : Nat) (h : Header) (hv : h.Valid) (cs : List (ChunkType × Bytes)) (dA : Dec)
    (hcs : AncChunksG cfg (afterIhdr cfg opts limit h) cs dA) (hna : NoActl cs)
    (zs : List Bytes) (raw : Bytes) (hzs : zs ≠ []) (hlen : ∀ z ∈ zs, z.length < 2 ^ 32)
    (hinf : cfg.inflate zs.flatten = some (raw, true))
    (hsize : h.lineSize * h.height < 2 ^ 64) (hlimit : h.lineSize ≤ dA.limit) :
    ∃ (r0 : R) (arrs : List Lazy.Arrival) (s0 : Lazy.St),
      Reader.step cfg t (R.init opts limit f (wellFormedStill cfg h cs zs []) (wellFormedStill cfg h cs zs []).length)
        .readInfo = (r0, .header) ∧
      C04Lazy.Start (absEnv h h raw [] arrs) r0.remaining s0 ∧ (∀ a ∈ arrs, a.last = 0) ∧
      ∀ ops : List Reader.Op, (∀ op ∈ ops, isCall op = true) → (∀ res ∈ (Reader.run cfg t r0 ops).2, okRes res = true) →
        resMatchAll (geomOf h h []) (Reader.run cfg t r0 ops).2 (Lazy.run (absEnv h h raw [] arrs) s0 (absOps ops)).2 = true := by
  obtain ⟨r0, i0, arrs, s0, h1, h2, h3, hl0, h4, h5⟩ :=
    still_start cfg hI hC ht opts limit h hv cs dA hcs hna zs raw hzs hlen hinf hsize hlimit
  refine ⟨r0, arrs, s0, h1, ⟨h3, by omega, h4⟩, hl0, fun ops hc hok => ?_⟩
  exact (run_sim cfg t hts _ _ h3 (by simp [geomOf, absEnv, absFile]) _ f (fun _ => rfl) i0 ops r0 s0 h5 hc hok).1

/-! ## 3. Well-formed files with exact image data: every call sequence, unconditionally -/

/-- **C13LazyRefine (animation).**  A well-formed animation whose first frame is the `IDAT` image and whose frames carry
    exactly the scanlines of their size with valid filter bytes (`RawOk`), identity transformation, sufficient limits.
    `read_info` returns `r0`; under arrivals `arrs` of the eager kind (`last = 0`) that hand out exactly each frame's
    data, EVERY sequence of `next_frame`, `next_row` / `next_interlaced_row`, `next_frame_info` and `finish` calls on
    `r0` has only answers the `Lazy` model speaks about, and the `Lazy` model — run on the file's abstraction from its
    initial state — answers the same calls, one by one, with the skeletons of these answers. -/
theorem apng_exact_refines_lazy (cfg : Cfg) (hI : cfg.InflateOk) (hC : cfg.CrcOk) {t : TCfg} {f : Flags}
    (ht : t.IsIdentity f) (hts : CreateSafe t) (opts : Options) (limit : Nat) (h : Header) (hv : h.Valid) (plays : Nat)
    (hplays : plays < 2 ^ 32) (anc : List (ChunkType × Bytes)) (dAnc : Dec)
    (frames : List (FrameControl × List Bytes × Bytes)) (hnf : frames.length + 1 < 2 ^ 32)
    (hanc : AncChunksG cfg (actlAfter (afterIhdr cfg opts limit h) (frames.length + 1) plays) anc dAnc) (hna : NoActl anc)
    (fc0 : FrameControl) (zs0 : List Bytes) (raw0 : Bytes) (hfc0 : FcOk h fc0)
    (hzs0 : zs0 ≠ []) (hlen0 : ∀ z ∈ zs0, z.length < 2 ^ 32) (hinf0 : cfg.inflate zs0.flatten = some (raw0, true))
    (hraw0 : RawOk (h.frame fc0) raw0) (hframes : ∀ fr ∈ frames, FrameOk cfg h fr)
    (hseq : 1 + (frames.map fun x => 1 + x.2.1.length).sum < 2 ^ 32)
    (hsize : h.lineSize * h.height < 2 ^ 64)
    (hlimit : (h.frame fc0).lineSize + (frames.map fun x => (h.frame x.1).lineSize).sum ≤ dAnc.limit) :
    ∃ (r0 : R) (arrs : List Lazy.Arrival) (s0 : Lazy.St),
      Reader.step cfg t (R.init opts limit f (wellFormedApng cfg h plays anc fc0 zs0 (framesOf frames))
        (wellFormedApng cfg h plays anc fc0 zs0 (framesOf frames)).length) .readInfo = (r0, .header) ∧
      C04Lazy.Start (absEnv h (h.frame fc0) raw0 frames arrs) r0.remaining s0 ∧ (∀ a ∈ arrs, a.last = 0) ∧
      ∀ ops : List Reader.Op, (∀ op ∈ ops, isCall' op = true) →
        (∀ res ∈ (Reader.run cfg t r0 ops).2, okRes res = true) ∧
        resMatchAll (geomOf h (h.frame fc0) frames) (Reader.run cfg t r0 ops).2
          (Lazy.run (absEnv h (h.frame fc0) raw0 frames arrs) s0 (absOps ops)).2 = true := by
  obtain ⟨r0, arrs, s0, h1, h2, h3, hl0, h4, h5⟩ :=
    apng_exact cfg hI hC ht hts opts limit h hv plays hplays anc dAnc frames hnf hanc hna fc0 zs0 raw0 hfc0 hzs0 hlen0 hinf0
      hraw0 hframes hseq hsize hlimit
  exact ⟨r0, arrs, s0, h1, ⟨h3, by omega, h4⟩, hl0, h5⟩

/-- **C13LazyRefine (still image).**  The same for a well-formed still image that carries exactly its scanlines. -/
theorem still_exact_refines_lazy (cfg : Cfg) (hI : cfg.InflateOk) (hC : cfg.CrcOk) {t : TCfg} {f : Flags}
    (ht : t.IsIdentity f) (hts : CreateSafe t) (opts : Options) (limit : Nat) (h : Header) (hv : h.Valid)
    (cs : List (ChunkType × Bytes)) (dA : Dec)
    (hcs : AncChunksG cfg (afterIhdr cfg opts limit h) cs dA) (hna : NoActl cs)
    (zs : List Bytes) (raw : Bytes) (hzs : zs ≠ []) (hlen : ∀ z ∈ zs, z.length < 2 ^ 32)
    (hinf : cfg.inflate zs.flatten = some (raw, true)) (hraw : RawOk h raw)
    (hsize : h.lineSize * h.height < 2 ^ 64) (hlimit : h.lineSize ≤ dA.limit) :
    ∃ (r0 : R) (arrs : List Lazy.Arrival) (s0 : Lazy.St),
      Reader.step cfg t (R.init opts limit f (wellFormedStill cfg h cs zs []) (wellFormedStill cfg h cs zs []).length)
        .readInfo = (r0, .header) ∧
      C04Lazy.Start (absEnv h h raw [] arrs) r0.remaining s0 ∧ (∀ a ∈ arrs, a.last = 0) ∧
      ∀ ops : List Reader.Op, (∀ op ∈ ops, isCall' op = true) →
        (∀ res ∈ (Reader.run cfg t r0 ops).2, okRes res = true) ∧
        resMatchAll (geomOf h h []) (Reader.run cfg t r0 ops).2 (Lazy.run (absEnv h h raw [] arrs) s0 (absOps ops)).2 = true := by
  obtain ⟨r0, arrs, s0, h1, h2, h3, hl0, h4, h5⟩ :=
    still_exact cfg hI hC ht hts opts limit h hv cs dA hcs hna zs raw hzs hlen hinf hraw hsize hlimit
  exact ⟨r0, arrs, s0, h1, ⟨h3, by omega, h4⟩, hl0, h5⟩

/-- the eager environment of a file is a valid environment -/
theorem eagerAbsEnv_valid (h h0 : Header) (raw0 : Bytes) (frames : List (FrameControl × List Bytes × Bytes)) :
    (eagerAbsEnv h h0 raw0 frames).Valid := eagerEnv_valid (absEnv h h0 raw0 frames [])

/-- **C13LazyRefine under the EAGER arrival (still image).**  No arrival is left existential: the `Lazy` model runs on
    the file's abstraction with `Arrival.eager` for its frame (`eagerAbsEnv`): `read_info` returns `r0`, the `Lazy` model
    has an initial state `s0` for `remaining_frames`, and for EVERY sequence of `next_frame`, `next_row` /
    `next_interlaced_row`, `next_frame_info`, `finish` calls the answers of the byte-level model are answers the `Lazy`
    model speaks about and the `Lazy` model's answers are their skeletons, call by call. -/
theorem still_exact_refines_eager (cfg : Cfg) (hI : cfg.InflateOk) (hC : cfg.CrcOk) {t : TCfg} {f : Flags}
    (ht : t.IsIdentity f) (hts : CreateSafe t) (opts : Options) (limit : Nat) (h : Header) (hv : h.Valid)
    (cs : List (ChunkType × Bytes)) (dA : Dec)
    (hcs : AncChunksG cfg (afterIhdr cfg opts limit h) cs dA) (hna : NoActl cs)
    (zs : List Bytes) (raw : Bytes) (hzs : zs ≠ []) (hlen : ∀ z ∈ zs, z.length < 2 ^ 32)
    (hinf : cfg.inflate zs.flatten = some (raw, true)) (hraw : RawOk h raw)
    (hsize : h.lineSize * h.height < 2 ^ 64) (hlimit : h.lineSize ≤ dA.limit) :
    ∃ (r0 : R) (s0 : Lazy.St),
      Reader.step cfg t (R.init opts limit f (wellFormedStill cfg h cs zs []) (wellFormedStill cfg h cs zs []).length)
        .readInfo = (r0, .header) ∧
      C04Lazy.Start (eagerAbsEnv h h raw []) r0.remaining s0 ∧
      ∀ ops : List Reader.Op, (∀ op ∈ ops, isCall' op = true) →
        (∀ res ∈ (Reader.run cfg t r0 ops).2, okRes res = true) ∧
        resMatchAll (geomOf h h []) (Reader.run cfg t r0 ops).2 (Lazy.run (eagerAbsEnv h h raw []) s0 (absOps ops)).2 = true := by
  obtain ⟨r0, arrs, s0, h1, hS, hl0, h5⟩ :=
    still_exact_refines_lazy cfg hI hC ht hts opts limit h hv cs dA hcs hna zs raw hzs hlen hinf hraw hsize hlimit
  obtain ⟨s0', hi', heq⟩ := to_eager h h raw [] arrs r0.remaining s0 hS.valid hS.rem_pos hl0 hS.init
  refine ⟨r0, s0', h1, ⟨eagerAbsEnv_valid h h raw [], hS.rem_pos, hi'⟩, fun ops hops => ?_⟩
  obtain ⟨a1, a2⟩ := h5 ops hops
  exact ⟨a1, by rw [← heq]; exact a2⟩

/-- **C13LazyRefine under the EAGER arrival (animation).** -/
theorem apng_exact_refines_eager (cfg : Cfg) (hI : cfg.InflateOk) (hC : cfg.CrcOk) {t : TCfg} {f : Flags}
    (ht : t.IsIdentity f) (hts : CreateSafe t) (opts : Options) (limit : Nat) (h : Header) (hv : h.Valid) (plays : Nat)
    (hplays : plays < 2 ^ 32) (anc : List (ChunkType × Bytes)) (dAnc : Dec)
    (frames : List (FrameControl × List Bytes × Bytes)) (hnf : frames.length + 1 < 2 ^ 32)
    (hanc : AncChunksG cfg (actlAfter (afterIhdr cfg opts limit h) (frames.length + 1) plays) anc dAnc) (hna : NoActl anc)
    (fc0 : FrameControl) (zs0 : List Bytes) (raw0 : Bytes) (hfc0 : FcOk h fc0)
    (hzs0 : zs0 ≠ []) (hlen0 : ∀ z ∈ zs0, z.length < 2 ^ 32) (hinf0 : cfg.inflate zs0.flatten = some (raw0, true))
    (hraw0 : RawOk (h.frame fc0) raw0) (hframes : ∀ fr ∈ frames, FrameOk cfg h fr)
    (hseq : 1 + (frames.map fun x => 1 + x.2.1.length).sum < 2 ^ 32)
    (hsize : h.lineSize * h.height < 2 ^ 64)
    (hlimit : (h.frame fc0).lineSize + (frames.map fun x => (h.frame x.1).lineSize).sum ≤ dAnc.limit) :
    ∃ (r0 : R) (s0 : Lazy.St),
      Reader.step cfg t (R.init opts limit f (wellFormedApng cfg h plays anc fc0 zs0 (framesOf frames))
        (wellFormedApng cfg h plays anc fc0 zs0 (framesOf frames)).length) .readInfo = (r0, .header) ∧
      C04Lazy.Start (eagerAbsEnv h (h.frame fc0) raw0 frames) r0.remaining s0 ∧
      ∀ ops : List Reader.Op, (∀ op ∈ ops, isCall' op = true) →
        (∀ res ∈ (Reader.run cfg t r0 ops).2, okRes res = true) ∧
        resMatchAll (geomOf h (h.frame fc0) frames) (Reader.run cfg t r0 ops).2
          (Lazy.run (eagerAbsEnv h (h.frame fc0) raw0 frames) s0 (absOps ops)).2 = true := by
  obtain ⟨r0, arrs, s0, h1, hS, hl0, h5⟩ :=
    apng_exact_refines_lazy cfg hI hC ht hts opts limit h hv plays hplays anc dAnc frames hnf hanc hna fc0 zs0 raw0 hfc0 hzs0
      hlen0 hinf0 hraw0 hframes hseq hsize hlimit
  obtain ⟨s0', hi', heq⟩ := to_eager h (h.frame fc0) raw0 frames arrs r0.remaining s0 hS.valid hS.rem_pos hl0 hS.init
  refine ⟨r0, s0', h1, ⟨eagerAbsEnv_valid h (h.frame fc0) raw0 frames, hS.rem_pos, hi'⟩, fun ops hops => ?_⟩
  obtain ⟨a1, a2⟩ := h5 ops hops
  exact ⟨a1, by rw [← heq]; exact a2⟩

/-- **C13LazyRefine, all five calls (still image).**  With the contract `TCfg.Ok` of the transformation and a file
    shorter than 4 GiB (the hypotheses of C02 / C13, through which `read_row` is reduced to `next_row`), `read_row` with
    the documented buffer is among the calls: EVERY sequence of `next_frame`, `next_row` / `next_interlaced_row`,
    `read_row`, `next_frame_info`, `finish`. -/
theorem still_exact_refines_eager_all (cfg : Cfg) (hI : cfg.InflateOk) (hC : cfg.CrcOk) {t : TCfg} {f : Flags}
    (ht : t.IsIdentity f) (hto : t.Ok) (hts : CreateSafe t) (opts : Options) (limit : Nat) (h : Header) (hv : h.Valid)
    (cs : List (ChunkType × Bytes)) (dA : Dec)
    (hcs : AncChunksG cfg (afterIhdr cfg opts limit h) cs dA) (hna : NoActl cs)
    (zs : List Bytes) (raw : Bytes) (hzs : zs ≠ []) (hlen : ∀ z ∈ zs, z.length < 2 ^ 32)
    (hinf : cfg.inflate zs.flatten = some (raw, true)) (hraw : RawOk h raw)
    (hsize : h.lineSize * h.height < 2 ^ 64) (hlimit : h.lineSize ≤ dA.limit)
    (hfl : (wellFormedStill cfg h cs zs []).length < 2 ^ 32) :
    ∃ (r0 : R) (s0 : Lazy.St),
      Reader.step cfg t (R.init opts limit f (wellFormedStill cfg h cs zs []) (wellFormedStill cfg h cs zs []).length)
        .readInfo = (r0, .header) ∧
      C04Lazy.Start (eagerAbsEnv h h raw []) r0.remaining s0 ∧
      ∀ ops : List Reader.Op, (∀ op ∈ ops, isCall op = true) →
        (∀ res ∈ (Reader.run cfg t r0 ops).2, okRes res = true) ∧
        resMatchAll (geomOf h h []) (Reader.run cfg t r0 ops).2 (Lazy.run (eagerAbsEnv h h raw []) s0 (absOps ops)).2 = true := by
  obtain ⟨r0, arrs, s0, h1, h2, h3, hl0, h4, h5⟩ :=
    still_exact_all cfg hI hC ht hto hts opts limit h hv cs dA hcs hna zs raw hzs hlen hinf hraw hsize hlimit hfl
  obtain ⟨s0', hi', heq⟩ := to_eager h h raw [] arrs r0.remaining s0 h3 (by omega) hl0 h4
  refine ⟨r0, s0', h1, ⟨eagerAbsEnv_valid h h raw [], by omega, hi'⟩, fun ops hops => ?_⟩
  obtain ⟨a1, a2⟩ := h5 ops hops
  exact ⟨a1, by rw [← heq]; exact a2⟩

/-- **C13LazyRefine, all five calls (animation).** -/
theorem apng_exact_refines_eager_all (cfg : Cfg) (hI : cfg.InflateOk) (hC : cfg.CrcOk) {t : TCfg} {f : Flags}
    (ht : t.IsIdentity f) (hto : t.Ok) (hts : CreateSafe t) (opts : Options) (limit : Nat) (h : Header) (hv : h.Valid)
    (plays : Nat) (hplays : plays < 2 ^ 32) (anc : List (ChunkType × Bytes)) (dAnc : Dec)
    (frames : List (FrameControl × List Bytes × Bytes)) (hnf : frames.length + 1 < 2 ^ 32)
    (hanc : AncChunksG cfg (actlAfter (afterIhdr cfg opts limit h) (frames.length + 1) plays) anc dAnc) (hna : NoActl anc)
    (fc0 : FrameControl) (zs0 : List Bytes) (raw0 : Bytes) (hfc0 : FcOk h fc0)
    (hzs0 : zs0 ≠ []) (hlen0 : ∀ z ∈ zs0, z.length < 2 ^ 32) (hinf0 : cfg.inflate zs0.flatten = some (raw0, true))
    (hraw0 : RawOk (h.frame fc0) raw0) (hframes : ∀ fr ∈ frames, FrameOk cfg h fr)
    (hseq : 1 + (frames.map fun x => 1 + x.2.1.length).sum < 2 ^ 32)
    (hsize : h.lineSize * h.height < 2 ^ 64)
    (hlimit : (h.frame fc0).lineSize + (frames.map fun x => (h.frame x.1).lineSize).sum ≤ dAnc.limit)
    (hfl : (wellFormedApng cfg h plays anc fc0 zs0 (framesOf frames)).length < 2 ^ 32) :
    ∃ (r0 : R) (s0 : Lazy.St),
      Reader.step cfg t (R.init opts limit f (wellFormedApng cfg h plays anc fc0 zs0 (framesOf frames))
        (wellFormedApng cfg h plays anc fc0 zs0 (framesOf frames)).length) .readInfo = (r0, .header) ∧
      C04Lazy.Start (eagerAbsEnv h (h.frame fc0) raw0 frames) r0.remaining s0 ∧
      ∀ ops : List Reader.Op, (∀ op ∈ ops, isCall op = true) →
        (∀ res ∈ (Reader.run cfg t r0 ops).2, okRes res = true) ∧
        resMatchAll (geomOf h (h.frame fc0) frames) (Reader.run cfg t r0 ops).2
          (Lazy.run (eagerAbsEnv h (h.frame fc0) raw0 frames) s0 (absOps ops)).2 = true := by
  obtain ⟨r0, arrs, s0, h1, h2, h3, hl0, h4, h5⟩ :=
    apng_exact_all cfg hI hC ht hto hts opts limit h hv plays hplays anc dAnc frames hnf hanc hna fc0 zs0 raw0 hfc0 hzs0
      hlen0 hinf0 hraw0 hframes hseq hsize hlimit hfl
  obtain ⟨s0', hi', heq⟩ := to_eager h (h.frame fc0) raw0 frames arrs r0.remaining s0 h3 (by omega) hl0 h4
  refine ⟨r0, s0', h1, ⟨eagerAbsEnv_valid h (h.frame fc0) raw0 frames, by omega, hi'⟩, fun ops hops => ?_⟩
  obtain ⟨a1, a2⟩ := h5 ops hops
  exact ⟨a1, by rw [← heq]; exact a2⟩

/-- **Inside the `Lazy` model**: two environments over the same file whose arrivals bring nothing with `Done` answer
    EVERY call sequence alike (no `Polled` hypothesis: finding D24 needs bytes that arrive together with `Done`) -/
theorem lazy_last0_independent (e1 e2 : Lazy.Env) (hf : e1.frames = e2.frames) (rem0 : Nat) (s1 s2 : Lazy.St)
    (h1 : C04Lazy.Start e1 rem0 s1) (h2 : C04Lazy.Start e2 rem0 s2) (hl1 : Lazy.EnvLast0 e1) (hl2 : Lazy.EnvLast0 e2)
    (ops : List Lazy.Op) : (Lazy.run e1 s1 ops).2 = (Lazy.run e2 s2 ops).2 :=
  Lazy.last0_independent e1 e2 hf h1.valid h2.valid hl1 hl2 rem0 h1.rem_pos s1 s2 h1.init h2.init ops

/-- The full-strength formulation that is NOT proved here: the still image may have chunks `post` behind the image
    data, and the transformation is any `t` with its contract `TCfg.Ok` (`readInfo_wf` and the row lemmas of
    `Proofs/Compose*.lean` are stated for the identity transformation; the traces of chunks behind the image data are
    not available).  The conditional theorems of section 1 do hold for every `t`. -/
def still_refines_full_statement : Prop :=
  ∀ (cfg : Cfg) (t : TCfg) (f : Flags), cfg.InflateOk → cfg.CrcOk → t.Ok → CreateSafe t →
  ∀ (opts : Options) (limit : Nat) (h : Header) (cs : List (ChunkType × Bytes)) (dA : Dec) (zs : List Bytes) (raw : Bytes)
    (post : List (ChunkType × Bytes)) (r0 : R),
    h.Valid → AncChunksG cfg (afterIhdr cfg opts limit h) cs dA → NoActl cs → zs ≠ [] → (∀ z ∈ zs, z.length < 2 ^ 32) →
    cfg.inflate zs.flatten = some (raw, true) → RawOk h raw →
    (∀ c ∈ post, c.1 ≠ IDAT ∧ c.1 < 2 ^ 32 ∧ c.2.length < 2 ^ 32) →
    (wellFormedStill cfg h cs zs post).length < 2 ^ 32 →
    Reader.step cfg t (R.init opts limit f (wellFormedStill cfg h cs zs post) (wellFormedStill cfg h cs zs post).length)
      .readInfo = (r0, .header) →
    ∃ s0 : Lazy.St, C04Lazy.Start (eagerAbsEnv h h raw []) r0.remaining s0 ∧
      ∀ ops : List Reader.Op, (∀ op ∈ ops, isCall op = true) → (∀ res ∈ (Reader.run cfg t r0 ops).2, okRes res = true) →
        resMatchAll (geomOf h h []) (Reader.run cfg t r0 ops).2 (Lazy.run (eagerAbsEnv h h raw []) s0 (absOps ops)).2 = true

/-! ## 4. What transfers, and what does not -/

/-- **From `Lazy` to `Reader`: row accounting of the byte-level model.**  Whenever the results `rs` of a run of the
    byte-level model have the results `ls` of a run of the `Lazy` model (from its initial state, under any arrival)
    as their skeletons — as sections 1–3 establish — `lazy_rows_exact` and `lazy_no_panic` speak about `rs`: `ls` is
    determined by `rs` (`resMatch`: which row-unit of which frame, which frame), the frames never go back, the row-units
    handed out for each frame (by row calls and by `next_frame` calls together) are `0, 1, …, d-1` without gap or
    repetition, a successful `next_frame` completes its frame, no row-unit is handed out that the frame's data does not
    cover, and no result is a panic. -/
theorem rows_exact_transfers (G : List Header) (e : Lazy.Env) (rem0 : Nat) (s0 : Lazy.St) (hS : C04Lazy.Start e rem0 s0)
    (lops : List Lazy.Op) (rs : List Reader.Res) (hm : resMatchAll G rs (Lazy.run e s0 lops).2 = true) :
    ∃ ls : List Lazy.Res, resMatchAll G rs ls = true ∧
      (ls.filterMap Lazy.frameOf).Pairwise (· ≤ ·) ∧
      (∀ k, ∃ d, d ≤ Lazy.rowsLen e.frames k ∧ Lazy.delivered k ls = List.range d) ∧
      (∀ p k w, ls[p]? = some (.frame k w) → Lazy.delivered k (ls.take (p + 1)) = List.range (Lazy.rowsLen e.frames k)) ∧
      (∀ l ∈ ls, Lazy.Backed e.frames l) ∧ (∀ l ∈ ls, ∀ site, l ≠ .panic site) :=
  ⟨_, hm, (C04Lazy.lazy_rows_exact e rem0 s0 hS lops).1, (C04Lazy.lazy_rows_exact e rem0 s0 hS lops).2.1,
    (C04Lazy.lazy_rows_exact e rem0 s0 hS lops).2.2.1, (C04Lazy.lazy_rows_exact e rem0 s0 hS lops).2.2.2,
    C04Lazy.lazy_no_panic e rem0 s0 hS lops⟩

/-- a matched `Reader` result is a row exactly when the `Lazy` result is, and then the `InterlaceInfo` is the scanline
    the `Lazy` result names -/
theorem resMatch_row_iff (G : List Header) (ii : IInfo) (data : Bytes) (l : Lazy.Res)
    (h : resMatch G (.row ii data) l = true) :
    ∃ k i g, l = .row k i ∧ G[k]? = some g ∧ g.scanlines[i]? = some (descIn g ii) := by
  cases l <;> simp only [resMatch] at h <;> try cases h
  rename_i k i
  cases hg : G[k]? with
  | none => rw [hg] at h; cases h
  | some g =>
    rw [hg] at h
    exact ⟨k, i, g, rfl, hg, by simpa using h⟩

/-- **the row accounting for the byte-level model on a well-formed still image**, all hypotheses discharged: for every
    call sequence the results are matched by `Lazy` results `ls` with the properties of `lazy_rows_exact` -/
theorem still_rows_exact (cfg : Cfg) (hI : cfg.InflateOk) (hC : cfg.CrcOk) {t : TCfg} {f : Flags}
    (ht : t.IsIdentity f) (hts : CreateSafe t) (opts : Options) (limit : Nat) (h : Header) (hv : h.Valid)
    (cs : List (ChunkType × Bytes)) (dA : Dec)
    (hcs : AncChunksG cfg (afterIhdr cfg opts limit h) cs dA) (hna : NoActl cs)
    (zs : List Bytes) (raw : Bytes) (hzs : zs ≠ []) (hlen : ∀ z ∈ zs, z.length < 2 ^ 32)
    (hinf : cfg.inflate zs.flatten = some (raw, true)) (hraw : RawOk h raw)
    (hsize : h.lineSize * h.height < 2 ^ 64) (hlimit : h.lineSize ≤ dA.limit) :
    ∃ r0 : R, Reader.step cfg t (R.init opts limit f (wellFormedStill cfg h cs zs []) (wellFormedStill cfg h cs zs []).length)
        .readInfo = (r0, .header) ∧
      ∀ ops : List Reader.Op, (∀ op ∈ ops, isCall' op = true) →
        ∃ ls : List Lazy.Res, resMatchAll (geomOf h h []) (Reader.run cfg t r0 ops).2 ls = true ∧
          (ls.filterMap Lazy.frameOf).Pairwise (· ≤ ·) ∧
          (∀ k, ∃ d, d ≤ Lazy.rowsLen (absFile h h raw []) k ∧ Lazy.delivered k ls = List.range d) ∧
          (∀ p k w, ls[p]? = some (.frame k w) →
            Lazy.delivered k (ls.take (p + 1)) = List.range (Lazy.rowsLen (absFile h h raw []) k)) ∧
          (∀ l ∈ ls, Lazy.Backed (absFile h h raw []) l) ∧ (∀ l ∈ ls, ∀ site, l ≠ .panic site) := by
  obtain ⟨r0, arrs, s0, h1, hS, _, h5⟩ :=
    still_exact_refines_lazy cfg hI hC ht hts opts limit h hv cs dA hcs hna zs raw hzs hlen hinf hraw hsize hlimit
  exact ⟨r0, h1, fun ops hops => rows_exact_transfers _ _ _ s0 hS (absOps ops) _ (h5 ops hops).2⟩

/-- **What does NOT transfer.**  The `Lazy` theorems that quantify over arrivals (`lazy_arrival_independent_partial`,
    `lazy_pending_rows`, the D23 / D24 states) speak about arrivals the byte-level model cannot exhibit: every arrival
    of sections 2 and 3 has `last = 0` (`ZInv`: the end of a data-chunk sequence delivers no image data), whereas the
    arrivals that separate the behaviours — e.g. `Arrival.lazyAll n`, everything together with `Done`, of
    `C04Lazy.lazy_D24_counterexample` — have `last ≠ 0`.  The byte-level model is one instance (per file) of the `Lazy`
    model's parameter; statements about the other instances are statements about the crate, checked by the harness. -/
theorem lazyAll_not_exhibited (n : Nat) (h : (Lazy.Arrival.lazyAll n).last = 0) : n = 0 := h

/-- the two arrivals of finding D24 differ exactly in this: the eager one is of the kind the byte-level model induces,
    the lazy one is not -/
example : (Lazy.Arrival.eager 6).last = 0 ∧ (Lazy.Arrival.lazyAll 6).last ≠ 0 := by decide

/-! ## 5. Sanity: both models run on the same calls (toy files of `Proofs/ReaderPathsToy.lean`) -/

open Png.Reader.Toy Png.Framing.Toy Png.Reader.PathsToy

/-- 2×3 non-interlaced; 3×3 Adam7; 2×2 with a second 2×2 frame -/
def hG : Header := ⟨2, 3, 0, 8, false⟩
def hA : Header := ⟨3, 3, 0, 8, true⟩
def hP : Header := ⟨2, 2, 0, 8, false⟩
def fcP : FrameControl :=
  { seq := 1, width := 2, height := 2, x := 0, y := 0, delayNum := 0, delayDen := 1, dispose := 0, blend := 0 }
def frP : List (FrameControl × List Bytes × Bytes) := [(fcP, [[6, 0, 9, 8, 1, 1, 1]], [0, 9, 8, 1, 1, 1])]

/-- the abstraction of the three toy files under the eager arrival -/
def envG : Lazy.Env := absEnv hG hG (List.replicate 9 0) [] (eagerArrs (absFile hG hG (List.replicate 9 0) []))
def envA : Lazy.Env := absEnv hA hA (List.replicate 15 0) [] (eagerArrs (absFile hA hA (List.replicate 15 0) []))
def envP : Lazy.Env := absEnv hP hP (List.replicate 6 0) frP (eagerArrs (absFile hP hP (List.replicate 6 0) frP))

example : envG.frames = [⟨[3, 3, 3], 9⟩] ∧ envA.frames = [⟨[2, 2, 3, 2, 2, 4], 15⟩] ∧
    envP.frames = [⟨[3, 3], 6⟩, ⟨[3, 3], 6⟩] := by decide

/-- mixed call sequences on the three files: the skeletons agree call by call -/
example : agree toyCfg idT (geomOf hG hG []) envG rG
    [.nextRow, .readRow, .nextFrame 0, .nextRow, .nextFrame 7, .nextFrameInfo, .finish, .finish, .nextRow] = true := by
  decide +kernel
example : agree toyCfg idT (geomOf hG hG []) envG rG [.nextRow, .nextRow, .nextRow, .nextFrame 0, .nextFrame 0] = true := by
  decide +kernel
example : agree toyCfg idT (geomOf hA hA []) envA rA
    [.nextRow, .readRow, .nextRow, .nextFrame 0, .nextFrame 0, .nextRow, .finish] = true := by decide +kernel
example : agree toyCfg idT (geomOf hA hA []) envA rA
    [.nextRow, .nextRow, .nextRow, .nextRow, .nextRow, .nextRow, .nextRow, .nextFrame 1] = true := by decide +kernel
set_option maxRecDepth 8192 in
example : agree toyCfg idT (geomOf hP hP frP) envP rP
    [.nextRow, .nextFrameInfo, .readRow, .nextFrame 0, .nextFrame 0, .nextFrameInfo, .finish] = true := by decide +kernel
set_option maxRecDepth 8192 in
example : agree toyCfg idT (geomOf hP hP frP) envP rP
    [.nextFrame 0, .nextRow, .nextFrame 0, .nextRow, .nextRow, .finish, .nextFrame 0] = true := by decide +kernel

set_option maxRecDepth 8192 in
/-- the skeleton of one of the runs, spelled out -/
example : (Lazy.init envP rP.remaining).map (fun s0 => (Lazy.run envP s0 [.nextRow, .nextFrameInfo, .nextRow, .nextFrame, .finish]).2) =
    some [.row 0 0, .fctl 1, .row 1 0, .frame 1 [1], .ok] := by decide +kernel

/-! ## 6. The parameters, and non-vacuity of the hypotheses -/

/-- the identity transformation of the toy files satisfies `CreateSafe` and is the identity -/
theorem idT_createSafe : CreateSafe idT := fun _ _ _ h => by cases h

theorem idT_isIdentity : idT.IsIdentity {} where
  out := fun _ => rfl
  create := fun _ _ => rfl
  apply := fun snap cur row _ _ => by show (if row.length = row.length then some row else none) = some row; simp

/-- **`CreateSafe` holds for the transformation of `Model/Transform.lean`** as the executable model uses it: creating
    the row function fails with `PaletteRequired`, `InvalidColorBitDepth` or a panic, never with a message of the
    image-data path -/
theorem realT_createSafe : CreateSafe Driver.realT := by
  intro i f w h
  unfold Driver.realT at h
  simp only at h
  split at h
  · cases h; decide
  · split at h
    · cases h; decide
    · cases h; decide
    · cases h; decide
    · split at h
      · split at h
        · cases h; decide
        · split at h
          · cases h
          · cases h; decide
      · cases h

theorem toy_crcOk : toyCfg.CrcOk := fun _ => by show (0 : Nat) < 2 ^ 32; decide

/-- the toy still image as a `wellFormedStill`: one `IDAT` chunk, the stream of nine bytes -/
def zsG : List Bytes := [[9, 0, 10, 20, 2, 1, 1, 1, 5, 5]]
def rawG : Bytes := [0, 10, 20, 2, 1, 1, 1, 5, 5]

example : wellFormedStill toyCfg hG [] zsG [] = imgG := by decide

/-- the eager environment of the toy still image is the one of the sanity checks above -/
example : (eagerAbsEnv hG hG rawG []).frames = envG.frames ∧ (eagerAbsEnv hG hG rawG []).arrs = envG.arrs := by decide

/-- the hypotheses of `still_exact_refines_eager_all` hold for the toy still image: the theorem's instance — every
    sequence of the five calls on the toy image is answered alike by both models -/
example : ∃ (r0 : R) (s0 : Lazy.St),
    Reader.step toyCfg idT (R.init {} (2 ^ 64 - 1) {} (wellFormedStill toyCfg hG [] zsG [])
      (wellFormedStill toyCfg hG [] zsG []).length) .readInfo = (r0, .header) ∧
    C04Lazy.Start (eagerAbsEnv hG hG rawG []) r0.remaining s0 ∧
    ∀ ops : List Reader.Op, (∀ op ∈ ops, isCall op = true) →
      (∀ res ∈ (Reader.run toyCfg idT r0 ops).2, okRes res = true) ∧
      resMatchAll (geomOf hG hG []) (Reader.run toyCfg idT r0 ops).2
        (Lazy.run (eagerAbsEnv hG hG rawG []) s0 (absOps ops)).2 = true :=
  still_exact_refines_eager_all toyCfg toy_inflateOk toy_crcOk idT_isIdentity idT_ok idT_createSafe {} (2 ^ 64 - 1) hG
    (by decide) [] _ (.nil _) (fun _ h => by cases h) zsG rawG (by decide) (by decide) (by decide) (by decide) (by decide)
    (by decide) (by decide)

end Png.C13LazyRefine
