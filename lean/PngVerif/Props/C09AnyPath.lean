import PngVerif.Proofs.AnyPathBridge
import PngVerif.Proofs.AnyPathStart
import PngVerif.Proofs.AnyPathReal
import PngVerif.Proofs.ReaderPathsToy
import PngVerif.Props.C01Decode
import PngVerif.Props.C08Decode
import PngVerif.Props.C09
import PngVerif.Props.C13
/-!
# Any call path delivers the specification's image: C01 / C09 / C08 composed with C13

`Props/C01Decode.lean`, `Props/C09.lean` and `Props/C08Decode.lean` prove that WHOLE-FRAME decoding (`read_info`, then
one `next_frame` per frame) of a well-formed file returns the specification's pixels.  `Props/C13.lean` proves that
every interleaving of `next_frame`, `next_row` / `next_interlaced_row`, `read_row` and `next_frame_info`, assembled by
the caller as the harness does (`asmRun`), records exactly the frames of whole-frame decoding (`refFrames`).  This
file composes them: on a well-formed file, WHATEVER mixture of row calls, frame calls and skips the caller makes, no
call fails and every frame the caller completes — recorded with its index `k` — is the specification's image of
frame `k`.

The bridge (`Proofs/AnyPathBridge.lean`, `refFrames_of_run`): the results of the whole-frame run of the end-to-end
theorem ARE the reference of C13 (`next_frame` of `Reader.step` is `nextFrameBuf` on a buffer of the documented size
pre-filled with `p`; the fresh buffer of the assembling caller is that buffer).  `Proofs/AnyPathStart.lean`: the
reader `read_info` returns has exactly as many frames remaining as the file has.

Hypotheses added to those of the end-to-end theorems (all needed):
* `t.Ok`, `t.SnapIndep` — the contracts of C13 on the row transformation.  `TCfg.IsIdentity f` (C01 / C09) speaks
  about the flags `f` and an output buffer of the row's length only; it implies neither.  The `…_real` theorems are
  the instances at `Driver.realT` (the transformation the executable model runs): NO hypothesis on the transformation
  (`Proofs/TransformContractRun.lean`: the `Reader` cannot tell `realT` from `realTK`, which satisfies the contracts);
* the file is shorter than 4 GiB (hypothesis of `C13_paths_agree_file`: the protocol invariant of a new decoder);
* for still images: no `acTL` chunk before the image data (`hstill`).  `AncTrace` / `Idle` of `C01_decode` allow one;
  the reader then counts `num_frames + 1` frames, whole-frame decoding of the first frame is still what C01 says, but a
  second `next_frame` or a `next_frame_info` runs into `IEND` and fails — `acTL_still_has_a_problem` below.

The pre-fill: the caller's frame buffer is `List.replicate (output_buffer_size) p` for every frame (`fresh` of
`asmRun`), as in `C01_decode` / `C09_frames`; for Adam7 images with sub-byte padding the padding bits keep `p`'s bits
exactly as `specPixels h raw (List.replicate h.bufferSize p)` says.
-/
namespace Png.AnyPath
open Png Png.Framing Png.Reader Png.WellFormed Png.Driver

/-- the reader `read_info` returns on the whole `file` -/
def readerOf (cfg : Cfg) (t : TCfg) (opts : Options) (limit : Nat) (f : Flags) (file : Bytes) : R :=
  (Reader.step cfg t (R.init opts limit f file file.length) .readInfo).1

/-! ## C01: still images -/

/-- the composition for a still image, from the property `AnyPathOk` of the transformation -/
theorem C01_any_path_of (cfg : Cfg) (t : TCfg) (hap : AnyPathOk cfg t) (f : Flags) (opts : Options) (limit : Nat) (h : Header)
    (anc : Bytes) (dA : Dec) (zs : List Bytes) (raw : Bytes) (post : List (ChunkType × Bytes)) (p : UInt8)
    (hI : cfg.InflateOk) (hC : cfg.CrcOk) (ht : t.IsIdentity f) (hv : h.Valid)
    (hanc : AncTrace cfg (afterIhdr cfg opts limit h) anc dA) (hidle : Idle dA h.info.core)
    (hstill : ∀ i, dA.info = some i → i.actl = none)
    (hzs : zs ≠ []) (hlen : ∀ z ∈ zs, z.length < 2 ^ 32) (hinf : cfg.inflate zs.flatten = some (raw, true))
    (hraw : RawOk h raw) (hpost : ∀ c ∈ post, c.1 ≠ IDAT ∧ c.1 < 2 ^ 32 ∧ c.2.length < 2 ^ 32)
    (hsize : h.lineSize * h.height < 2 ^ 64) (hlimit : h.lineSize ≤ dA.limit)
    (hfile : (signature ++ chunk cfg IHDR h.body ++ anc ++ idats cfg zs ++ chunks cfg post ++ chunk cfg IEND []).length < 2 ^ 32)
    (ops : List PathOp) :
    (asmRun cfg t (List.replicate h.bufferSize p)
      (readerOf cfg t opts limit f
        (signature ++ chunk cfg IHDR h.body ++ anc ++ idats cfg zs ++ chunks cfg post ++ chunk cfg IEND []),
       Asm.init (List.replicate h.bufferSize p)) ops).2.problem = false ∧
    ∀ k px, (k, px) ∈ (asmRun cfg t (List.replicate h.bufferSize p)
      (readerOf cfg t opts limit f
        (signature ++ chunk cfg IHDR h.body ++ anc ++ idats cfg zs ++ chunks cfg post ++ chunk cfg IEND []),
       Asm.init (List.replicate h.bufferSize p)) ops).2.frames →
      k = 0 ∧ specPixels h raw (List.replicate h.bufferSize p) = some px := by
  obtain ⟨r0, h0, hpb, hrem⟩ := still_start cfg hI hC ht opts limit h hv anc dA hanc hidle hstill zs raw post hzs hlen hinf
    hpost hsize hlimit
  obtain ⟨buf, hrun, hspec, hbl⟩ := C01.C01_decode cfg t f opts limit h anc dA zs raw post p hI hC ht hv hanc hidle hzs hlen
    hinf hraw hpost hsize hlimit
  generalize signature ++ chunk cfg IHDR h.body ++ anc ++ idats cfg zs ++ chunks cfg post ++ chunk cfg IEND [] = file at *
  have hr : readerOf cfg t opts limit f file = r0 := by unfold readerOf; rw [h0]
  rw [hr]
  have hrun' := run_after_readInfo h0 hrun
  obtain ⟨a, b⟩ := hap opts limit f file hfile r0 p h.bufferSize [.frame _ buf] [buf] [] [] h0 hpb hrem
    ⟨rfl, hbl, trivial⟩ (by simpa using hrun') ops
  refine ⟨a, fun k px hk => ?_⟩
  obtain ⟨rfl, rfl⟩ := getElem?_singleton_some (b k px hk)
  exact ⟨rfl, hspec⟩

/-- **C01 on any call path.**  Under the hypotheses of `Png.C01.C01_decode` (every inflater / CRC function with their
    contracts, every identity row transformation, every valid header — all colour types and bit depths, both interlace
    methods —, any chunks before the image data read as `AncTrace` / `Idle` demand, any cut of the zlib stream into
    `IDAT` chunks, any filter types, any chunks behind the image data, the two size checks), the contracts `t.Ok` /
    `t.SnapIndep` of C13, no `acTL` chunk, and a file shorter than 4 GiB:

    for EVERY list `ops` of calls (`next_frame`, `next_row` / `next_interlaced_row`, `read_row` with any sufficient
    buffer, `next_frame_info`) made from the reader `read_info` returns, the caller placing delivered rows into a frame
    buffer pre-filled with `p` (`asmRun`): no call fails with anything but `Parameter` (end of image), no row arrives
    for a completed frame, the Adam7 helper accepts every row (`problem = false`) — and every completed frame has
    index 0 and is exactly `specPixels h raw` of the pre-filled buffer. -/
theorem C01_any_path (cfg : Cfg) (t : TCfg) (f : Flags) (opts : Options) (limit : Nat) (h : Header) (anc : Bytes) (dA : Dec)
    (zs : List Bytes) (raw : Bytes) (post : List (ChunkType × Bytes)) (p : UInt8)
    (hI : cfg.InflateOk) (hC : cfg.CrcOk) (ht : t.IsIdentity f) (hok : t.Ok) (hsi : t.SnapIndep) (hv : h.Valid)
    (hanc : AncTrace cfg (afterIhdr cfg opts limit h) anc dA) (hidle : Idle dA h.info.core)
    (hstill : ∀ i, dA.info = some i → i.actl = none)
    (hzs : zs ≠ []) (hlen : ∀ z ∈ zs, z.length < 2 ^ 32) (hinf : cfg.inflate zs.flatten = some (raw, true))
    (hraw : RawOk h raw) (hpost : ∀ c ∈ post, c.1 ≠ IDAT ∧ c.1 < 2 ^ 32 ∧ c.2.length < 2 ^ 32)
    (hsize : h.lineSize * h.height < 2 ^ 64) (hlimit : h.lineSize ≤ dA.limit)
    (hfile : (signature ++ chunk cfg IHDR h.body ++ anc ++ idats cfg zs ++ chunks cfg post ++ chunk cfg IEND []).length < 2 ^ 32)
    (ops : List PathOp) :
    (asmRun cfg t (List.replicate h.bufferSize p)
      (readerOf cfg t opts limit f
        (signature ++ chunk cfg IHDR h.body ++ anc ++ idats cfg zs ++ chunks cfg post ++ chunk cfg IEND []),
       Asm.init (List.replicate h.bufferSize p)) ops).2.problem = false ∧
    ∀ k px, (k, px) ∈ (asmRun cfg t (List.replicate h.bufferSize p)
      (readerOf cfg t opts limit f
        (signature ++ chunk cfg IHDR h.body ++ anc ++ idats cfg zs ++ chunks cfg post ++ chunk cfg IEND []),
       Asm.init (List.replicate h.bufferSize p)) ops).2.frames →
      k = 0 ∧ specPixels h raw (List.replicate h.bufferSize p) = some px :=
  C01_any_path_of cfg t (anyPathOk_of_contracts cfg hok hsi) f opts limit h anc dA zs raw post p hI hC ht hv hanc hidle hstill
    hzs hlen hinf hraw hpost hsize hlimit hfile ops

/-- **C01 on any call path, for the transformation the executable model runs** (`Driver.realT` = `Model/Transform.lean`
    with `Transformations::IDENTITY`): no hypothesis on the transformation is left -/
theorem C01_any_path_real (cfg : Cfg) (opts : Options) (limit : Nat) (h : Header) (anc : Bytes) (dA : Dec)
    (zs : List Bytes) (raw : Bytes) (post : List (ChunkType × Bytes)) (p : UInt8)
    (hI : cfg.InflateOk) (hC : cfg.CrcOk) (hv : h.Valid)
    (hanc : AncTrace cfg (afterIhdr cfg opts limit h) anc dA) (hidle : Idle dA h.info.core)
    (hstill : ∀ i, dA.info = some i → i.actl = none)
    (hzs : zs ≠ []) (hlen : ∀ z ∈ zs, z.length < 2 ^ 32) (hinf : cfg.inflate zs.flatten = some (raw, true))
    (hraw : RawOk h raw) (hpost : ∀ c ∈ post, c.1 ≠ IDAT ∧ c.1 < 2 ^ 32 ∧ c.2.length < 2 ^ 32)
    (hsize : h.lineSize * h.height < 2 ^ 64) (hlimit : h.lineSize ≤ dA.limit)
    (hfile : (signature ++ chunk cfg IHDR h.body ++ anc ++ idats cfg zs ++ chunks cfg post ++ chunk cfg IEND []).length < 2 ^ 32)
    (ops : List PathOp) :
    (asmRun cfg realT (List.replicate h.bufferSize p)
      (readerOf cfg realT opts limit {}
        (signature ++ chunk cfg IHDR h.body ++ anc ++ idats cfg zs ++ chunks cfg post ++ chunk cfg IEND []),
       Asm.init (List.replicate h.bufferSize p)) ops).2.problem = false ∧
    ∀ k px, (k, px) ∈ (asmRun cfg realT (List.replicate h.bufferSize p)
      (readerOf cfg realT opts limit {}
        (signature ++ chunk cfg IHDR h.body ++ anc ++ idats cfg zs ++ chunks cfg post ++ chunk cfg IEND []),
       Asm.init (List.replicate h.bufferSize p)) ops).2.frames →
      k = 0 ∧ specPixels h raw (List.replicate h.bufferSize p) = some px :=
  C01_any_path_of cfg realT (anyPathOk_real cfg) {} opts limit h anc dA zs raw post p hI hC realT_isIdentity hv hanc hidle
    hstill hzs hlen hinf hraw hpost hsize hlimit hfile ops

/-- chunks accepted by `parse_chunk`, none of them `acTL`, leave no animation control -/
theorem no_actl_of_chunks (cfg : Cfg) (opts : Options) (limit : Nat) (h : Header) (cs : List (ChunkType × Bytes)) (dA : Dec)
    (hcs : AncChunksG cfg (afterIhdr cfg opts limit h) cs dA) (hna : NoActl cs) : ∀ i, dA.info = some i → i.actl = none := by
  intro i hi
  have h1 := ancChunksG_actl hcs hna
  have h2 : (afterIhdr cfg opts limit h).info.map (·.actl) = some none := rfl
  rw [hi, h2] at h1
  simpa using h1

/-- **C01 on any call path for `wellFormedStill`**: the chunks before the image data given as a list `cs` of chunks of
    any length that `parse_chunk` accepts (`AncChunksG`), none of them `acTL` -/
theorem C01_any_path_chunks (cfg : Cfg) (t : TCfg) (f : Flags) (opts : Options) (limit : Nat) (h : Header)
    (cs : List (ChunkType × Bytes)) (dA : Dec) (zs : List Bytes) (raw : Bytes) (post : List (ChunkType × Bytes)) (p : UInt8)
    (hI : cfg.InflateOk) (hC : cfg.CrcOk) (ht : t.IsIdentity f) (hok : t.Ok) (hsi : t.SnapIndep) (hv : h.Valid)
    (hcs : AncChunksG cfg (afterIhdr cfg opts limit h) cs dA) (hna : NoActl cs)
    (hzs : zs ≠ []) (hlen : ∀ z ∈ zs, z.length < 2 ^ 32) (hinf : cfg.inflate zs.flatten = some (raw, true))
    (hraw : RawOk h raw) (hpost : ∀ c ∈ post, c.1 ≠ IDAT ∧ c.1 < 2 ^ 32 ∧ c.2.length < 2 ^ 32)
    (hsize : h.lineSize * h.height < 2 ^ 64) (hlimit : h.lineSize ≤ dA.limit)
    (hfile : (wellFormedStill cfg h cs zs post).length < 2 ^ 32) (ops : List PathOp) :
    (asmRun cfg t (List.replicate h.bufferSize p)
      (readerOf cfg t opts limit f (wellFormedStill cfg h cs zs post), Asm.init (List.replicate h.bufferSize p)) ops).2.problem
        = false ∧
    ∀ k px, (k, px) ∈ (asmRun cfg t (List.replicate h.bufferSize p)
      (readerOf cfg t opts limit f (wellFormedStill cfg h cs zs post), Asm.init (List.replicate h.bufferSize p)) ops).2.frames →
      k = 0 ∧ specPixels h raw (List.replicate h.bufferSize p) = some px := by
  obtain ⟨a1, a2, _⟩ := C01.ancillary_chunks_ok_any_length cfg hC opts limit h cs dA hcs
  exact C01_any_path cfg t f opts limit h (chunks cfg cs) dA zs raw post p hI hC ht hok hsi hv a1 a2
    (no_actl_of_chunks cfg opts limit h cs dA hcs hna) hzs hlen hinf hraw hpost hsize hlimit hfile ops

/-! ## C09: animated images -/

/-- the composition for an animation whose first frame is the `IDAT` image, from `AnyPathOk` -/
theorem C09_any_path_of (cfg : Cfg) (t : TCfg) (hap : AnyPathOk cfg t) (f : Flags) (opts : Options) (limit : Nat) (h : Header)
    (plays : Nat) (anc : List (ChunkType × Bytes)) (dAnc : Dec) (frames : List (FrameControl × List Bytes × Bytes))
    (fc0 : FrameControl) (zs0 : List Bytes) (raw0 : Bytes) (p : UInt8)
    (hI : cfg.InflateOk) (hC : cfg.CrcOk) (ht : t.IsIdentity f) (hv : h.Valid)
    (hpl : plays < 2 ^ 32) (hnf : frames.length + 1 < 2 ^ 32)
    (hanc : AncChunksG cfg (actlAfter (afterIhdr cfg opts limit h) (frames.length + 1) plays) anc dAnc) (hna : NoActl anc)
    (hfc0 : FcOk h fc0) (hzs0 : zs0 ≠ []) (hlen0 : ∀ z ∈ zs0, z.length < 2 ^ 32)
    (hinf0 : cfg.inflate zs0.flatten = some (raw0, true)) (hraw0 : RawOk (h.frame fc0) raw0)
    (hframes : ∀ fr ∈ frames, FrameOk cfg h fr)
    (hseq : 1 + (frames.map fun x => 1 + x.2.1.length).sum < 2 ^ 32)
    (hsize : h.lineSize * h.height < 2 ^ 64)
    (hlimit : (h.frame fc0).lineSize + (frames.map fun x => (h.frame x.1).lineSize).sum ≤ dAnc.limit)
    (hfile : (wellFormedApng cfg h plays anc fc0 zs0 (framesOf frames)).length < 2 ^ 32) (ops : List PathOp) :
    (asmRun cfg t (List.replicate h.bufferSize p)
      (readerOf cfg t opts limit f (wellFormedApng cfg h plays anc fc0 zs0 (framesOf frames)),
       Asm.init (List.replicate h.bufferSize p)) ops).2.problem = false ∧
    ∀ k px, (k, px) ∈ (asmRun cfg t (List.replicate h.bufferSize p)
      (readerOf cfg t opts limit f (wellFormedApng cfg h plays anc fc0 zs0 (framesOf frames)),
       Asm.init (List.replicate h.bufferSize p)) ops).2.frames →
      ∃ fr : FrameControl × List Bytes × Bytes, ((fc0, zs0, raw0) :: frames)[k]? = some fr ∧
        specFrame (h.frame fr.1) fr.2.2 (List.replicate h.bufferSize p) = some px := by
  obtain ⟨r0, h0, hpb, hrem⟩ := apng_start cfg hI hC ht opts limit h hv plays hpl anc dAnc frames hnf hanc hna fc0 zs0 raw0
    hfc0 hzs0 hlen0 hinf0 hsize hlimit
  obtain ⟨buf0, rs, hrun, hspec0, hbl0, hfo⟩ := C09.C09_frames cfg t f opts limit h plays anc dAnc frames fc0 zs0 raw0 p
    (List.replicate frames.length p) p hI hC ht hv hpl hnf hanc hna hfc0 hzs0 hlen0 hinf0 hraw0 hframes hseq hsize hlimit
    (by simp)
  obtain ⟨bs, hfb, hrl, hall⟩ := framesOk_bufs h p frames (List.replicate frames.length p) rs
    (fun q hq => (List.mem_replicate.mp hq).2) hfo
  generalize wellFormedApng cfg h plays anc fc0 zs0 (framesOf frames) = file at *
  have hr : readerOf cfg t opts limit f file = r0 := by unfold readerOf; rw [h0]
  rw [hr]
  have hrun' := run_after_readInfo h0 hrun
  have hops : ∀ x : Reader.Res, List.replicate (x :: rs).length (Op.nextFrame p) ++ [Op.nextFrame p] =
      Op.nextFrame p :: ((List.replicate frames.length p).map Op.nextFrame ++ [Op.nextFrame p]) := by
    intro x; simp [hrl, List.replicate_succ]
  obtain ⟨a, b⟩ := hap opts limit f file hfile r0 p h.bufferSize (.frame _ buf0 :: rs) (buf0 :: bs) [.nextFrame p]
    [.err .parameter "PolledAfterEndOfImage"] h0 hpb (by rw [hrem]; simp [hrl]) ⟨rfl, hbl0, hfb⟩
    (by rw [hops]; simpa using hrun') ops
  refine ⟨a, fun k px hk => ?_⟩
  have hb := b k px hk
  cases k with
  | zero =>
    simp only [List.getElem?_cons_zero, Option.some.injEq] at hb
    subst hb
    exact ⟨(fc0, zs0, raw0), rfl, hspec0⟩
  | succ k =>
    simp only [List.getElem?_cons_succ] at hb ⊢
    exact hall k px hb

/-- **C09 on any call path.**  Under the hypotheses of `Png.C09.C09_frames` (a well-formed animation whose first frame
    is the `IDAT` image: any valid header, any play count, any further chunks before the first `fcTL`, every frame with
    its own legal frame control, its own zlib stream cut into `IDAT` / `fdAT` chunks and its own scanlines; sequence
    numbers and limits as there), the contracts `t.Ok` / `t.SnapIndep` of C13 and a file shorter than 4 GiB:

    for EVERY list `ops` of calls (`next_frame`, `next_row` / `next_interlaced_row`, `read_row`, `next_frame_info` —
    rows of some frames, whole other frames, frames skipped before or after some of their rows) made from the reader
    `read_info` returns, with a frame buffer of the image's `output_buffer_size()` pre-filled with `p` for every frame:
    `problem = false`, and every frame the caller completes, recorded with index `k`, is `specFrame` of frame `k`'s OWN
    data with the size of its OWN `fcTL` (frame 0: `fc0`, `raw0`) — the frame's `line_size × height` bytes from the
    start of the buffer, the rest of the buffer keeping the pre-fill, as `C09_frames` states. -/
theorem C09_any_path (cfg : Cfg) (t : TCfg) (f : Flags) (opts : Options) (limit : Nat) (h : Header)
    (plays : Nat) (anc : List (ChunkType × Bytes)) (dAnc : Dec) (frames : List (FrameControl × List Bytes × Bytes))
    (fc0 : FrameControl) (zs0 : List Bytes) (raw0 : Bytes) (p : UInt8)
    (hI : cfg.InflateOk) (hC : cfg.CrcOk) (ht : t.IsIdentity f) (hok : t.Ok) (hsi : t.SnapIndep) (hv : h.Valid)
    (hpl : plays < 2 ^ 32) (hnf : frames.length + 1 < 2 ^ 32)
    (hanc : AncChunksG cfg (actlAfter (afterIhdr cfg opts limit h) (frames.length + 1) plays) anc dAnc) (hna : NoActl anc)
    (hfc0 : FcOk h fc0) (hzs0 : zs0 ≠ []) (hlen0 : ∀ z ∈ zs0, z.length < 2 ^ 32)
    (hinf0 : cfg.inflate zs0.flatten = some (raw0, true)) (hraw0 : RawOk (h.frame fc0) raw0)
    (hframes : ∀ fr ∈ frames, FrameOk cfg h fr)
    (hseq : 1 + (frames.map fun x => 1 + x.2.1.length).sum < 2 ^ 32)
    (hsize : h.lineSize * h.height < 2 ^ 64)
    (hlimit : (h.frame fc0).lineSize + (frames.map fun x => (h.frame x.1).lineSize).sum ≤ dAnc.limit)
    (hfile : (wellFormedApng cfg h plays anc fc0 zs0 (framesOf frames)).length < 2 ^ 32) (ops : List PathOp) :
    (asmRun cfg t (List.replicate h.bufferSize p)
      (readerOf cfg t opts limit f (wellFormedApng cfg h plays anc fc0 zs0 (framesOf frames)),
       Asm.init (List.replicate h.bufferSize p)) ops).2.problem = false ∧
    ∀ k px, (k, px) ∈ (asmRun cfg t (List.replicate h.bufferSize p)
      (readerOf cfg t opts limit f (wellFormedApng cfg h plays anc fc0 zs0 (framesOf frames)),
       Asm.init (List.replicate h.bufferSize p)) ops).2.frames →
      ∃ fr : FrameControl × List Bytes × Bytes, ((fc0, zs0, raw0) :: frames)[k]? = some fr ∧
        specFrame (h.frame fr.1) fr.2.2 (List.replicate h.bufferSize p) = some px :=
  C09_any_path_of cfg t (anyPathOk_of_contracts cfg hok hsi) f opts limit h plays anc dAnc frames fc0 zs0 raw0 p hI hC ht hv
    hpl hnf hanc hna hfc0 hzs0 hlen0 hinf0 hraw0 hframes hseq hsize hlimit hfile ops

/-- **C09 on any call path, for the transformation the executable model runs** (no transformation flags) -/
theorem C09_any_path_real (cfg : Cfg) (opts : Options) (limit : Nat) (h : Header)
    (plays : Nat) (anc : List (ChunkType × Bytes)) (dAnc : Dec) (frames : List (FrameControl × List Bytes × Bytes))
    (fc0 : FrameControl) (zs0 : List Bytes) (raw0 : Bytes) (p : UInt8)
    (hI : cfg.InflateOk) (hC : cfg.CrcOk) (hv : h.Valid)
    (hpl : plays < 2 ^ 32) (hnf : frames.length + 1 < 2 ^ 32)
    (hanc : AncChunksG cfg (actlAfter (afterIhdr cfg opts limit h) (frames.length + 1) plays) anc dAnc) (hna : NoActl anc)
    (hfc0 : FcOk h fc0) (hzs0 : zs0 ≠ []) (hlen0 : ∀ z ∈ zs0, z.length < 2 ^ 32)
    (hinf0 : cfg.inflate zs0.flatten = some (raw0, true)) (hraw0 : RawOk (h.frame fc0) raw0)
    (hframes : ∀ fr ∈ frames, FrameOk cfg h fr)
    (hseq : 1 + (frames.map fun x => 1 + x.2.1.length).sum < 2 ^ 32)
    (hsize : h.lineSize * h.height < 2 ^ 64)
    (hlimit : (h.frame fc0).lineSize + (frames.map fun x => (h.frame x.1).lineSize).sum ≤ dAnc.limit)
    (hfile : (wellFormedApng cfg h plays anc fc0 zs0 (framesOf frames)).length < 2 ^ 32) (ops : List PathOp) :
    (asmRun cfg realT (List.replicate h.bufferSize p)
      (readerOf cfg realT opts limit {} (wellFormedApng cfg h plays anc fc0 zs0 (framesOf frames)),
       Asm.init (List.replicate h.bufferSize p)) ops).2.problem = false ∧
    ∀ k px, (k, px) ∈ (asmRun cfg realT (List.replicate h.bufferSize p)
      (readerOf cfg realT opts limit {} (wellFormedApng cfg h plays anc fc0 zs0 (framesOf frames)),
       Asm.init (List.replicate h.bufferSize p)) ops).2.frames →
      ∃ fr : FrameControl × List Bytes × Bytes, ((fc0, zs0, raw0) :: frames)[k]? = some fr ∧
        specFrame (h.frame fr.1) fr.2.2 (List.replicate h.bufferSize p) = some px :=
  C09_any_path_of cfg realT (anyPathOk_real cfg) {} opts limit h plays anc dAnc frames fc0 zs0 raw0 p hI hC realT_isIdentity hv
    hpl hnf hanc hna hfc0 hzs0 hlen0 hinf0 hraw0 hframes hseq hsize hlimit hfile ops

/-- the composition for an animation whose `IDAT` image is not part of the animation, from `AnyPathOk` -/
theorem C09_default_image_any_path_of (cfg : Cfg) (t : TCfg) (hap : AnyPathOk cfg t) (f : Flags) (opts : Options) (limit : Nat)
    (h : Header) (plays : Nat) (anc : List (ChunkType × Bytes)) (dAnc : Dec)
    (frames : List (FrameControl × List Bytes × Bytes)) (zs0 : List Bytes) (raw0 : Bytes) (p : UInt8)
    (hI : cfg.InflateOk) (hC : cfg.CrcOk) (ht : t.IsIdentity f) (hv : h.Valid)
    (hpl : plays < 2 ^ 32) (hnf : frames.length < 2 ^ 32)
    (hanc : AncChunksG cfg (actlAfter (afterIhdr cfg opts limit h) frames.length plays) anc dAnc) (hna : NoActl anc)
    (hzs0 : zs0 ≠ []) (hlen0 : ∀ z ∈ zs0, z.length < 2 ^ 32)
    (hinf0 : cfg.inflate zs0.flatten = some (raw0, true)) (hraw0 : RawOk h raw0)
    (hframes : ∀ fr ∈ frames, FrameOk cfg h fr)
    (hseq : (frames.map fun x => 1 + x.2.1.length).sum < 2 ^ 32)
    (hsize : h.lineSize * h.height < 2 ^ 64)
    (hlimit : h.lineSize + (frames.map fun x => (h.frame x.1).lineSize).sum ≤ dAnc.limit)
    (hfile : (wellFormedApngDefault cfg h plays anc zs0 (framesOf frames)).length < 2 ^ 32) (ops : List PathOp) :
    (asmRun cfg t (List.replicate h.bufferSize p)
      (readerOf cfg t opts limit f (wellFormedApngDefault cfg h plays anc zs0 (framesOf frames)),
       Asm.init (List.replicate h.bufferSize p)) ops).2.problem = false ∧
    ∀ k px, (k, px) ∈ (asmRun cfg t (List.replicate h.bufferSize p)
      (readerOf cfg t opts limit f (wellFormedApngDefault cfg h plays anc zs0 (framesOf frames)),
       Asm.init (List.replicate h.bufferSize p)) ops).2.frames →
      (k = 0 → specPixels h raw0 (List.replicate h.bufferSize p) = some px) ∧
      (∀ j, k = j + 1 → ∃ fr : FrameControl × List Bytes × Bytes, frames[j]? = some fr ∧
        specFrame (h.frame fr.1) fr.2.2 (List.replicate h.bufferSize p) = some px) := by
  obtain ⟨r0, h0, hpb, hrem⟩ := apng_default_start cfg hI hC ht opts limit h hv plays hpl anc dAnc frames hnf hanc hna zs0 raw0
    hzs0 hlen0 hinf0 hsize hlimit
  obtain ⟨buf0, rs, hrun, hspec0, hbl0, hfo⟩ := C09.C09_default_image cfg t f opts limit h plays anc dAnc frames zs0 raw0 p
    (List.replicate frames.length p) p hI hC ht hv hpl hnf hanc hna hzs0 hlen0 hinf0 hraw0 hframes hseq hsize hlimit
    (by simp)
  obtain ⟨bs, hfb, hrl, hall⟩ := framesOk_bufs h p frames (List.replicate frames.length p) rs
    (fun q hq => (List.mem_replicate.mp hq).2) hfo
  generalize wellFormedApngDefault cfg h plays anc zs0 (framesOf frames) = file at *
  have hr : readerOf cfg t opts limit f file = r0 := by unfold readerOf; rw [h0]
  rw [hr]
  have hrun' := run_after_readInfo h0 hrun
  have hops : ∀ x : Reader.Res, List.replicate (x :: rs).length (Op.nextFrame p) ++ [Op.nextFrame p] =
      Op.nextFrame p :: ((List.replicate frames.length p).map Op.nextFrame ++ [Op.nextFrame p]) := by
    intro x; simp [hrl, List.replicate_succ]
  obtain ⟨a, b⟩ := hap opts limit f file hfile r0 p h.bufferSize (.frame _ buf0 :: rs) (buf0 :: bs) [.nextFrame p]
    [.err .parameter "PolledAfterEndOfImage"] h0 hpb (by rw [hrem]; simp [hrl]) ⟨rfl, hbl0, hfb⟩
    (by rw [hops]; simpa using hrun') ops
  refine ⟨a, fun k px hk => ?_⟩
  have hb := b k px hk
  cases k with
  | zero =>
    simp only [List.getElem?_cons_zero, Option.some.injEq] at hb
    subst hb
    exact ⟨fun _ => hspec0, fun j hj => by omega⟩
  | succ k =>
    simp only [List.getElem?_cons_succ] at hb
    refine ⟨fun hk0 => by omega, fun j hj => ?_⟩
    have : k = j := by omega
    subst this
    exact hall k px hb

/-- **C09 on any call path, the `IDAT` image not being part of the animation** (hypotheses of
    `Png.C09.C09_default_image`, the contracts of C13, a file shorter than 4 GiB): for every list of calls,
    `problem = false`; a completed frame with index 0 is the `IDAT` image exactly as C01 states it (`specPixels h raw0`),
    a completed frame with index `j + 1` is `specFrame` of the `j`-th `fcTL` / `fdAT` frame's own data -/
theorem C09_default_image_any_path (cfg : Cfg) (t : TCfg) (f : Flags) (opts : Options) (limit : Nat)
    (h : Header) (plays : Nat) (anc : List (ChunkType × Bytes)) (dAnc : Dec)
    (frames : List (FrameControl × List Bytes × Bytes)) (zs0 : List Bytes) (raw0 : Bytes) (p : UInt8)
    (hI : cfg.InflateOk) (hC : cfg.CrcOk) (ht : t.IsIdentity f) (hok : t.Ok) (hsi : t.SnapIndep) (hv : h.Valid)
    (hpl : plays < 2 ^ 32) (hnf : frames.length < 2 ^ 32)
    (hanc : AncChunksG cfg (actlAfter (afterIhdr cfg opts limit h) frames.length plays) anc dAnc) (hna : NoActl anc)
    (hzs0 : zs0 ≠ []) (hlen0 : ∀ z ∈ zs0, z.length < 2 ^ 32)
    (hinf0 : cfg.inflate zs0.flatten = some (raw0, true)) (hraw0 : RawOk h raw0)
    (hframes : ∀ fr ∈ frames, FrameOk cfg h fr)
    (hseq : (frames.map fun x => 1 + x.2.1.length).sum < 2 ^ 32)
    (hsize : h.lineSize * h.height < 2 ^ 64)
    (hlimit : h.lineSize + (frames.map fun x => (h.frame x.1).lineSize).sum ≤ dAnc.limit)
    (hfile : (wellFormedApngDefault cfg h plays anc zs0 (framesOf frames)).length < 2 ^ 32) (ops : List PathOp) :
    (asmRun cfg t (List.replicate h.bufferSize p)
      (readerOf cfg t opts limit f (wellFormedApngDefault cfg h plays anc zs0 (framesOf frames)),
       Asm.init (List.replicate h.bufferSize p)) ops).2.problem = false ∧
    ∀ k px, (k, px) ∈ (asmRun cfg t (List.replicate h.bufferSize p)
      (readerOf cfg t opts limit f (wellFormedApngDefault cfg h plays anc zs0 (framesOf frames)),
       Asm.init (List.replicate h.bufferSize p)) ops).2.frames →
      (k = 0 → specPixels h raw0 (List.replicate h.bufferSize p) = some px) ∧
      (∀ j, k = j + 1 → ∃ fr : FrameControl × List Bytes × Bytes, frames[j]? = some fr ∧
        specFrame (h.frame fr.1) fr.2.2 (List.replicate h.bufferSize p) = some px) :=
  C09_default_image_any_path_of cfg t (anyPathOk_of_contracts cfg hok hsi) f opts limit h plays anc dAnc frames zs0 raw0 p hI hC
    ht hv hpl hnf hanc hna hzs0 hlen0 hinf0 hraw0 hframes hseq hsize hlimit hfile ops

/-- … for the transformation the executable model runs (no transformation flags) -/
theorem C09_default_image_any_path_real (cfg : Cfg) (opts : Options) (limit : Nat)
    (h : Header) (plays : Nat) (anc : List (ChunkType × Bytes)) (dAnc : Dec)
    (frames : List (FrameControl × List Bytes × Bytes)) (zs0 : List Bytes) (raw0 : Bytes) (p : UInt8)
    (hI : cfg.InflateOk) (hC : cfg.CrcOk) (hv : h.Valid)
    (hpl : plays < 2 ^ 32) (hnf : frames.length < 2 ^ 32)
    (hanc : AncChunksG cfg (actlAfter (afterIhdr cfg opts limit h) frames.length plays) anc dAnc) (hna : NoActl anc)
    (hzs0 : zs0 ≠ []) (hlen0 : ∀ z ∈ zs0, z.length < 2 ^ 32)
    (hinf0 : cfg.inflate zs0.flatten = some (raw0, true)) (hraw0 : RawOk h raw0)
    (hframes : ∀ fr ∈ frames, FrameOk cfg h fr)
    (hseq : (frames.map fun x => 1 + x.2.1.length).sum < 2 ^ 32)
    (hsize : h.lineSize * h.height < 2 ^ 64)
    (hlimit : h.lineSize + (frames.map fun x => (h.frame x.1).lineSize).sum ≤ dAnc.limit)
    (hfile : (wellFormedApngDefault cfg h plays anc zs0 (framesOf frames)).length < 2 ^ 32) (ops : List PathOp) :
    (asmRun cfg realT (List.replicate h.bufferSize p)
      (readerOf cfg realT opts limit {} (wellFormedApngDefault cfg h plays anc zs0 (framesOf frames)),
       Asm.init (List.replicate h.bufferSize p)) ops).2.problem = false ∧
    ∀ k px, (k, px) ∈ (asmRun cfg realT (List.replicate h.bufferSize p)
      (readerOf cfg realT opts limit {} (wellFormedApngDefault cfg h plays anc zs0 (framesOf frames)),
       Asm.init (List.replicate h.bufferSize p)) ops).2.frames →
      (k = 0 → specPixels h raw0 (List.replicate h.bufferSize p) = some px) ∧
      (∀ j, k = j + 1 → ∃ fr : FrameControl × List Bytes × Bytes, frames[j]? = some fr ∧
        specFrame (h.frame fr.1) fr.2.2 (List.replicate h.bufferSize p) = some px) :=
  C09_default_image_any_path_of cfg realT (anyPathOk_real cfg) {} opts limit h plays anc dAnc frames zs0 raw0 p hI hC
    realT_isIdentity hv hpl hnf hanc hna hzs0 hlen0 hinf0 hraw0 hframes hseq hsize hlimit hfile ops

/-! ## C08: still images decoded with transformations -/

/-- **C08 on any call path, for any row transformation**: the hypotheses of `Png.C08.C08_decode_generic` (the contract
    `t.Converts f i h.width` for the `Info` `i` at the begin of the image data), the contracts of C13, no `acTL`
    chunk, a file shorter than 4 GiB.  Every completed frame has index 0 and is `specPixelsT`: the specification's
    scanlines converted by `t` row by row, de-interlaced with the output pixel width. -/
theorem C08_any_path_generic (cfg : Cfg) (t : TCfg) (f : Flags) (opts : Options) (limit : Nat) (h : Header) (anc : Bytes)
    (dA : Dec) (i : Info) (zs : List Bytes) (raw : Bytes) (post : List (ChunkType × Bytes)) (p : UInt8)
    (hap : AnyPathOk cfg t)
    (hI : cfg.InflateOk) (hC : cfg.CrcOk) (hv : h.Valid)
    (hanc : AncTrace cfg (afterIhdr cfg opts limit h) anc dA) (hidle : Idle dA h.info.core) (hiA : dA.info = some i)
    (hstill : i.actl = none) (hcv : t.Converts f i h.width)
    (hzs : zs ≠ []) (hlen : ∀ z ∈ zs, z.length < 2 ^ 32) (hinf : cfg.inflate zs.flatten = some (raw, true))
    (hraw : RawOk h raw) (hpost : ∀ c ∈ post, c.1 ≠ IDAT ∧ c.1 < 2 ^ 32 ∧ c.2.length < 2 ^ 32)
    (hod0 : depthOk (t.outColorDepth h.info f).2 = true) (hsize : outLineSize t h.info f h.width * h.height < 2 ^ 64)
    (hsize2 : outLineSize t i f h.width * h.height < 2 ^ 64)
    (hlimit : outLineSize t i f h.width ≤ dA.limit)
    (hfile : (signature ++ chunk cfg IHDR h.body ++ anc ++ idats cfg zs ++ chunks cfg post ++ chunk cfg IEND []).length < 2 ^ 32)
    (ops : List PathOp) :
    (asmRun cfg t (List.replicate (outLineSize t i f h.width * h.height) p)
      (readerOf cfg t opts limit f
        (signature ++ chunk cfg IHDR h.body ++ anc ++ idats cfg zs ++ chunks cfg post ++ chunk cfg IEND []),
       Asm.init (List.replicate (outLineSize t i f h.width * h.height) p)) ops).2.problem = false ∧
    ∀ k px, (k, px) ∈ (asmRun cfg t (List.replicate (outLineSize t i f h.width * h.height) p)
      (readerOf cfg t opts limit f
        (signature ++ chunk cfg IHDR h.body ++ anc ++ idats cfg zs ++ chunks cfg post ++ chunk cfg IEND []),
       Asm.init (List.replicate (outLineSize t i f h.width * h.height) p)) ops).2.frames →
      k = 0 ∧
      specPixelsT h (t.conv f i) (outLineSize t i f h.width) (samplesOf (t.outColorDepth i f).1 * (t.outColorDepth i f).2) raw
        (List.replicate (outLineSize t i f h.width * h.height) p) = some px := by
  obtain ⟨r0, h0, hpb, hrem⟩ := stillT_start cfg hI hC t f opts limit h hv anc dA i hanc hidle hiA hstill zs raw post hzs hlen
    hinf hpost hod0 hsize (legal_pos hcv.outLegal).2.2 hsize2 hlimit
  obtain ⟨buf, hrun, hspec, hbl⟩ := C08.C08_decode_generic cfg t f opts limit h anc dA i zs raw post p hI hC hv hanc hidle hiA
    hcv hzs hlen hinf hraw hpost hod0 hsize hsize2 hlimit
  generalize signature ++ chunk cfg IHDR h.body ++ anc ++ idats cfg zs ++ chunks cfg post ++ chunk cfg IEND [] = file at *
  have hr : readerOf cfg t opts limit f file = r0 := by unfold readerOf; rw [h0]
  rw [hr]
  have hrun' := run_after_readInfo h0 hrun
  obtain ⟨a, b⟩ := hap opts limit f file hfile r0 p (outLineSize t i f h.width * h.height) [.frame _ buf] [buf] [] [] h0 hpb hrem
    ⟨rfl, hbl, trivial⟩ (by simpa using hrun') ops
  refine ⟨a, fun k px hk => ?_⟩
  obtain ⟨rfl, rfl⟩ := getElem?_singleton_some (b k px hk)
  exact ⟨rfl, hspec⟩

/-- **C08 on any call path** (`Driver.realT` = `Model/Transform.lean`, every subset `f` of {EXPAND, STRIP_16, ALPHA}): the
    hypotheses of `Png.C08.C08_decode`, no `acTL` chunk, a file shorter than 4 GiB — no hypothesis on the transformation.
    Whatever mixture of row calls, frame calls and skips the caller makes (buffer of `output_buffer_size()` bytes
    pre-filled with `p`), `problem = false`, and every completed frame has index 0 and is the specification's
    reconstructed scanlines converted by the DOCUMENTED conversion `specConvert`, packed or de-interlaced with the
    output bits per pixel: `specPixelsT`, exactly as `C08_decode` states it. -/
theorem C08_any_path (cfg : Cfg) (f : Flags) (opts : Options) (limit : Nat) (h : Header) (anc : Bytes) (dA : Dec) (i : Info)
    (ti : Transform.Info) (zs : List Bytes) (raw : Bytes) (post : List (ChunkType × Bytes)) (p : UInt8)
    (hI : cfg.InflateOk) (hC : cfg.CrcOk) (hv : h.Valid)
    (hanc : AncTrace cfg (afterIhdr cfg opts limit h) anc dA) (hidle : Idle dA h.info.core) (hiA : dA.info = some i)
    (hstill : i.actl = none) (hti : tInfo i = some ti) (hdec : Transform.Decodable ti)
    (hzs : zs ≠ []) (hlen : ∀ z ∈ zs, z.length < 2 ^ 32) (hinf : cfg.inflate zs.flatten = some (raw, true))
    (hraw : RawOk h raw) (hpost : ∀ c ∈ post, c.1 ≠ IDAT ∧ c.1 < 2 ^ 32 ∧ c.2.length < 2 ^ 32)
    (hsize : Transform.specOutputLineSize ti (tFlags f) h.width * h.height < 2 ^ 64)
    (hlimit : Transform.specOutputLineSize ti (tFlags f) h.width ≤ dA.limit)
    (hfile : (signature ++ chunk cfg IHDR h.body ++ anc ++ idats cfg zs ++ chunks cfg post ++ chunk cfg IEND []).length < 2 ^ 32)
    (ops : List PathOp) :
    (asmRun cfg realT (List.replicate (Transform.specOutputLineSize ti (tFlags f) h.width * h.height) p)
      (readerOf cfg realT opts limit f
        (signature ++ chunk cfg IHDR h.body ++ anc ++ idats cfg zs ++ chunks cfg post ++ chunk cfg IEND []),
       Asm.init (List.replicate (Transform.specOutputLineSize ti (tFlags f) h.width * h.height) p)) ops).2.problem = false ∧
    ∀ k px, (k, px) ∈ (asmRun cfg realT (List.replicate (Transform.specOutputLineSize ti (tFlags f) h.width * h.height) p)
      (readerOf cfg realT opts limit f
        (signature ++ chunk cfg IHDR h.body ++ anc ++ idats cfg zs ++ chunks cfg post ++ chunk cfg IEND []),
       Asm.init (List.replicate (Transform.specOutputLineSize ti (tFlags f) h.width * h.height) p)) ops).2.frames →
      k = 0 ∧
      specPixelsT h (fun w row => Transform.specConvert ti (tFlags f) row w)
        (Transform.specOutputLineSize ti (tFlags f) h.width)
        ((Transform.specOutputColor ti (tFlags f)).samples * Transform.specOutputDepth ti (tFlags f)) raw
        (List.replicate (Transform.specOutputLineSize ti (tFlags f) h.width * h.height) p) = some px := by
  -- the `Info` at the begin of the image data has the header's fields (as in `C08_decode`)
  obtain ⟨j, hj, hcj, _⟩ := hidle.info
  have hji : j = i := by rw [hiA] at hj; cases hj; rfl
  subst hji
  simp only [Info.core, Header.info, Prod.mk.injEq] at hcj
  obtain ⟨_, _, c3, c4, _⟩ := hcj
  have hc0 : h.info.color = j.color := c4.symm
  have hd0 : h.info.depth = j.depth := c3.symm
  have hle := realT_outLine_header_le hti hc0 hd0 rfl rfl f h.width
  have hols := realT_outLine hti f h.width
  obtain ⟨r0, h0, hpb, hrem⟩ := stillT_start cfg hI hC realT f opts limit h hv anc dA j hanc hidle hiA hstill zs raw post hzs
    hlen hinf hpost (realT_out_header_depthOk hti hdec.legal hc0 hd0 rfl rfl f)
    (Nat.lt_of_le_of_lt (Nat.mul_le_mul_right _ hle) (by rw [hols]; exact hsize))
    (legal_pos (realT_converts hti hdec f h.width).outLegal).2.2 (by rw [hols]; exact hsize) (by rw [hols]; exact hlimit)
  obtain ⟨buf, hrun, hspec, hbl⟩ := C08.C08_decode cfg f opts limit h anc dA j ti zs raw post p hI hC hv hanc hidle hiA hti hdec
    hzs hlen hinf hraw hpost hsize hlimit
  generalize signature ++ chunk cfg IHDR h.body ++ anc ++ idats cfg zs ++ chunks cfg post ++ chunk cfg IEND [] = file at *
  have hr : readerOf cfg realT opts limit f file = r0 := by unfold readerOf; rw [h0]
  rw [hr]
  have hrun' := run_after_readInfo h0 hrun
  obtain ⟨a, b⟩ := anyPathOk_real cfg opts limit f file hfile r0 p
    (Transform.specOutputLineSize ti (tFlags f) h.width * h.height) [.frame _ buf] [buf] [] [] h0 hpb hrem
    ⟨rfl, hbl, trivial⟩ (by simpa using hrun') ops
  refine ⟨a, fun k px hk => ?_⟩
  obtain ⟨rfl, rfl⟩ := getElem?_singleton_some (b k px hk)
  exact ⟨rfl, hspec⟩

/-! ## Why `hstill` is needed -/

/-- the statement of `C01_any_path` WITHOUT the hypothesis that no `acTL` chunk precedes the image data — i.e. under
    exactly the hypotheses of `C01_decode`, the contracts of C13 and the length bound -/
def C01_any_path_with_acTL_statement : Prop :=
  ∀ (cfg : Cfg) (t : TCfg) (f : Flags) (opts : Options) (limit : Nat) (h : Header) (anc : Bytes) (dA : Dec)
    (zs : List Bytes) (raw : Bytes) (post : List (ChunkType × Bytes)) (p : UInt8),
    cfg.InflateOk → cfg.CrcOk → t.IsIdentity f → t.Ok → t.SnapIndep → h.Valid →
    AncTrace cfg (afterIhdr cfg opts limit h) anc dA → Idle dA h.info.core →
    zs ≠ [] → (∀ z ∈ zs, z.length < 2 ^ 32) → cfg.inflate zs.flatten = some (raw, true) → RawOk h raw →
    (∀ c ∈ post, c.1 ≠ IDAT ∧ c.1 < 2 ^ 32 ∧ c.2.length < 2 ^ 32) →
    h.lineSize * h.height < 2 ^ 64 → h.lineSize ≤ dA.limit →
    (signature ++ chunk cfg IHDR h.body ++ anc ++ idats cfg zs ++ chunks cfg post ++ chunk cfg IEND []).length < 2 ^ 32 →
    ∀ ops : List PathOp,
      (asmRun cfg t (List.replicate h.bufferSize p)
        (readerOf cfg t opts limit f
          (signature ++ chunk cfg IHDR h.body ++ anc ++ idats cfg zs ++ chunks cfg post ++ chunk cfg IEND []),
         Asm.init (List.replicate h.bufferSize p)) ops).2.problem = false

section Counterexample
open Png.Framing.Toy Png.Reader.Toy Png.Reader.PathsToy

/-- **a still image with an `acTL` chunk** (`num_frames = 1`, no `fcTL`): every hypothesis of `C01_decode` holds and
    whole-frame decoding returns the specification's pixels, but the reader counts two frames (`read_info`:
    `num_frames + 1` without a frame control), so a second `next_frame` reads on to `IEND` and fails with
    `Format(MissingImageData)` — the assembling caller sees a problem.  Hence `hstill` in `C01_any_path`. -/
theorem acTL_still_has_a_problem : ¬ C01_any_path_with_acTL_statement := by
  intro hall
  obtain ⟨hs, hi⟩ := ancStep_acTL toyCfg (afterIhdr toyCfg {} (2 ^ 64 - 1) C01.hGray1) C01.hGray1.info 1 0 (by decide) (by decide)
    rfl rfl (by decide)
  obtain ⟨a1, a2, _⟩ := C01.ancillary_chunks_ok toyCfg C01.toy_crcOk {} (2 ^ 64 - 1) C01.hGray1 [(acTL, actlBody 1 0)] _
    (.cons hs (.nil _))
  have := hall toyCfg idT {} {} (2 ^ 64 - 1) C01.hGray1 (chunks toyCfg [(acTL, actlBody 1 0)]) _ [[2, 0, 9]] [0, 9] [] 0
    toy_inflateOk C01.toy_crcOk C01.idT_isIdentity idT_ok idT_snapIndep (by decide) a1 a2 (by decide) (by decide) (by decide)
    (by decide) (fun _ hc => by cases hc) (by decide) (by decide +kernel) (by decide +kernel) [.nextFrame, .nextFrame]
  revert this
  decide +kernel

end Counterexample

/-! ## Non-vacuity: the theorems instantiated on concrete files -/

section Examples
open Png.Framing.Toy Png.Reader.Toy Png.Reader.PathsToy

/-- `C01_any_path` applies to the interlaced 2×2 image of `Props/C01Decode.lean` (three scanlines, the zlib stream
    cut into four `IDAT` chunks, one of them empty): every hypothesis holds -/
example (ops : List PathOp) :=
  C01_any_path toyCfg idT {} {} (2 ^ 64 - 1) C01.hGray2i [] (afterIhdr toyCfg {} (2 ^ 64 - 1) C01.hGray2i) C01.zs2 C01.raw2 [] 7
    toy_inflateOk C01.toy_crcOk C01.idT_isIdentity idT_ok idT_snapIndep (by decide) (AncTrace.nil _ _) (idle_afterIhdr _ _ _ _)
    (fun i hi => by cases hi; rfl) (by decide) (by decide) (by decide) (by decide) (fun _ hc => by cases hc) (by decide)
    (by decide) (by decide +kernel) ops

/-- … and to the 3×2 two-bit Adam7 image whose rows end in padding bits (pre-fill `0xFF`) -/
example (ops : List PathOp) :=
  C01_any_path toyCfg idT {} {} (2 ^ 64 - 1) C01.hPal3i [] (afterIhdr toyCfg {} (2 ^ 64 - 1) C01.hPal3i) C01.zs3 C01.raw3 [] 0xFF
    toy_inflateOk C01.toy_crcOk C01.idT_isIdentity idT_ok idT_snapIndep (by decide) (AncTrace.nil _ _) (idle_afterIhdr _ _ _ _)
    (fun i hi => by cases hi; rfl) (by decide) (by decide) (by decide) (by decide) (fun _ hc => by cases hc) (by decide)
    (by decide) (by decide +kernel) ops

/-- the same for the executable model's transformation -/
example (ops : List PathOp) :=
  C01_any_path_real toyCfg {} (2 ^ 64 - 1) C01.hGray2i [] (afterIhdr toyCfg {} (2 ^ 64 - 1) C01.hGray2i) C01.zs2 C01.raw2 [] 7
    toy_inflateOk C01.toy_crcOk (by decide) (AncTrace.nil _ _) (idle_afterIhdr _ _ _ _)
    (fun i hi => by cases hi; rfl) (by decide) (by decide) (by decide) (by decide) (fun _ hc => by cases hc) (by decide)
    (by decide) (by decide +kernel) ops

/-- concrete runs on these files: rows only; rows through both row-level calls, then the whole-frame call; the
    delivered image is `specPixels` (`[10, 20, 30, 35]`, resp. `[0x6F, 0x6F]` with the padding bits of the pre-fill) -/
example : (asmRun toyCfg idT (List.replicate 4 7)
    (readerOf toyCfg idT {} (2 ^ 64 - 1) {} (wellFormedStill toyCfg C01.hGray2i [] C01.zs2 []), Asm.init (List.replicate 4 7))
    [.nextRow, .readRow 1, .nextRow, .nextRow]).2.frames = [(0, [10, 20, 30, 35])] := by decide +kernel
example : (asmRun toyCfg idT (List.replicate 4 7)
    (readerOf toyCfg idT {} (2 ^ 64 - 1) {} (wellFormedStill toyCfg C01.hGray2i [] C01.zs2 []), Asm.init (List.replicate 4 7))
    [.readRow 0, .nextFrame, .nextFrameInfo, .nextFrame]).2.frames = [(0, [10, 20, 30, 35])] := by decide +kernel
example : (asmRun toyCfg idT (List.replicate 2 0xFF)
    (readerOf toyCfg idT {} (2 ^ 64 - 1) {} (wellFormedStill toyCfg C01.hPal3i [] C01.zs3 []), Asm.init (List.replicate 2 0xFF))
    [.nextRow, .nextRow, .nextFrame]).2.frames = [(0, [0x6F, 0x6F])] := by decide +kernel

/-- the frames of the two-frame animation of `Props/C09.lean` satisfy `FrameOk` -/
theorem framesToy_ok : ∀ fr ∈ C09.framesToy, FrameOk toyCfg C09.hGray2 fr := by
  intro fr hfr
  simp only [C09.framesToy, List.mem_cons, List.mem_nil_iff, or_false] at hfr
  subst hfr
  exact ⟨⟨by decide, by decide, by decide, by decide, by decide, by decide, by decide, by decide⟩, by decide, by decide,
    by decide, by decide⟩

theorem fcFull_ok : FcOk C09.hGray2 C09.fcFull :=
  ⟨by decide, by decide, by decide, by decide, by decide, by decide, by decide, by decide⟩

/-- `C09_any_path` applies to the two-frame animation `apng2` of `Props/C09.lean` (2×2 image; the second frame is the
    single pixel at (1, 1), its stream cut into two `fdAT` chunks): every hypothesis holds -/
example (ops : List PathOp) :=
  C09_any_path toyCfg idT {} {} (2 ^ 64 - 1) C09.hGray2 0 [] _ C09.framesToy C09.fcFull [[6, 0, 1, 2, 0, 3, 4]]
    [0, 1, 2, 0, 3, 4] 7 toy_inflateOk C01.toy_crcOk C01.idT_isIdentity idT_ok idT_snapIndep (by decide) (by decide) (by decide)
    (.nil _) (fun _ hc => by cases hc) fcFull_ok (by decide) (by decide) (by decide) (by decide) framesToy_ok (by decide)
    (by decide) (by decide +kernel) (by decide +kernel) ops

/-- … and `C09_default_image_any_path` to `apng3` (the same frames behind a default image) -/
example (ops : List PathOp) :=
  C09_default_image_any_path toyCfg idT {} {} (2 ^ 64 - 1) C09.hGray2 0 [] _ C09.framesToy [[6, 0, 1, 2, 0, 3, 4]]
    [0, 1, 2, 0, 3, 4] 7 toy_inflateOk C01.toy_crcOk C01.idT_isIdentity idT_ok idT_snapIndep (by decide) (by decide) (by decide)
    (.nil _) (fun _ hc => by cases hc) (by decide) (by decide) (by decide) (by decide) framesToy_ok (by decide)
    (by decide) (by decide +kernel) (by decide +kernel) ops

/-- concrete runs on `apng2`: a row of frame 0, the rest by `next_frame`, frame 1 by rows; frame 0 skipped after one row,
    frame 1 by `next_frame` — frame 1 is `specFrame` of its own data: its one byte at the start of the buffer, the
    other three bytes keep the pre-fill -/
example : (asmRun toyCfg idT (List.replicate 4 7)
    (readerOf toyCfg idT {} (2 ^ 64 - 1) {} C09.apng2, Asm.init (List.replicate 4 7))
    [.nextRow, .nextFrame, .nextFrameInfo, .nextRow, .nextRow]).2.frames = [(1, [9, 7, 7, 7]), (0, [1, 2, 3, 4])] := by
  decide +kernel
example : (asmRun toyCfg idT (List.replicate 4 7)
    (readerOf toyCfg idT {} (2 ^ 64 - 1) {} C09.apng2, Asm.init (List.replicate 4 7))
    [.readRow 2, .nextFrameInfo, .nextFrame, .nextFrame]).2.frames = [(1, [9, 7, 7, 7])] := by decide +kernel
example : specFrame (C09.hGray2.frame C09.fcSub) [0, 9] (List.replicate C09.hGray2.bufferSize 7) = some [9, 7, 7, 7] := by decide

/-- `C08_any_path` applies to the interlaced 2×2 grayscale image under EXPAND (`Driver.realT`) -/
example (ops : List PathOp) :=
  C08_any_path toyCfg C08.fExpand {} (2 ^ 64 - 1) C01.hGray2i [] (afterIhdr toyCfg {} (2 ^ 64 - 1) C01.hGray2i) C01.hGray2i.info
    ⟨.gray, .eight, none, none⟩ C01.zs2 C01.raw2 [] 7 toy_inflateOk C01.toy_crcOk (by decide) (AncTrace.nil _ _)
    (idle_afterIhdr _ _ _ _) rfl rfl rfl ⟨rfl, fun hc => (by cases hc), fun t ht _ => (by cases ht)⟩ (by decide) (by decide)
    (by decide) (by decide) (fun _ hc => by cases hc) (by decide) (by decide) (by decide +kernel) ops

end Examples

end Png.AnyPath
