import PngVerif.Generated.KernelsEncoderSetters
import PngVerif.Model.Encoder
import PngVerif.Model.EncodeMeta
import PngVerif.Proofs.KernelTactic
/-!
# Tie A, part 2 (translator): the frame-rectangle setters and sequence checks of `src/encoder.rs`

`Generated/KernelsEncoderSetters.lean` is rewritten by `tools/rs2lean.py` from the Rust source on every run: `Writer::set_frame_dimension`,
`Writer::set_frame_position`, the same two of `StreamWriter`, `Writer::validate_new_image`, `Writer::validate_first_image_rect`,
`Encoder::set_animated`.

How the translated functions see the state: `self.info.frame_control : Option<FrameControl>` (`self.fctl` in `StreamWriter`) is a
`Bool` `.._is_some` and the fields as `u32` parameters (meaningful when the `Bool` is true); `if let Some(ref mut fctl) = ..` tests the
`Bool`, and `fctl.width = width` updates the parameter; the result is `(code, width, height, x_offset, y_offset)` — the error code
(`0 = Ok(())`, `1 = OutOfBounds`, `2 = ZeroWidth`, `3 = ZeroHeight`, `4 = NotAnimated`: the position of the `FormatErrorKind` in the
kernel's `errors` list) and the four fields of the frame control AFTER the call.  The fields of `FrameControl` that are not outputs
(sequence number, delay, dispose, blend) cannot be assigned by the translated function: an assignment to a field that is not declared
is outside the subset (`TIE-A-BROKEN`).

The theorems: for ALL `u32` arguments, canvas sizes and frame controls (including `x_offset > width`, where `checked_sub` answers
`None` and `Some(_) > None` refuses) the translated function agrees with the three models of these setters — `Enc.setFrameDimension` /
`setFramePosition` (`Writer` model), `Enc.setFc` (`StreamWriter` model), `EncodeMeta.applyOp` (C17's byte-level model) — on the result
AND on the frame control afterwards.
-/
namespace Png.Kernels
open Png

/-- error codes of the setters (position in the kernel's `errors` list) -/
def resCode : Enc.Res → Int
  | .ok => 0
  | .err .outOfBounds => 1
  | .err .zeroWidth => 2
  | .err .zeroHeight => 3
  | .err .notAnimated => 4
  | _ => -1

/-- the four rectangle fields of a frame control, as the translated functions return them -/
def rect (f : Enc.FC) : Int × Int × Int × Int := ((f.w : Int), (f.h : Int), (f.x : Int), (f.y : Int))

/-- closes `translated = normal form` after the Option comparisons have been resolved -/
macro "setter_arith" : tactic =>
  `(tactic| all_goals ((repeat' split) <;> first | rfl | (exfalso; omega) | (simp_all <;> omega)))

/-! ## normal forms: what the four translated setters compute, in the vocabulary of the models (`gtCheckedSub`) -/

theorem gen_writer_dim (cw ch w h fw fh fx fy : Nat) (hcw : cw < 2 ^ 32) (hch : ch < 2 ^ 32) :
    Gen.Writer_set_frame_dimension w h cw ch true fw fh fx fy =
      (if Enc.gtCheckedSub w cw fx || Enc.gtCheckedSub h ch fy then ((1 : Int), (fw : Int), (fh : Int), (fx : Int), (fy : Int))
       else if w = 0 then (2, fw, fh, fx, fy) else if h = 0 then (3, fw, fh, fx, fy) else (0, w, h, fx, fy)) := by
  unfold Gen.Writer_set_frame_dimension Enc.gtCheckedSub
  by_cases hx : fx ≤ cw <;> by_cases hy : fy ≤ ch <;>
    simp [Gen.optLt, hx, hy, show ((cw : Int) - fx ≤ 4294967295) by omega, show ((ch : Int) - fy ≤ 4294967295) by omega]
  setter_arith

theorem gen_stream_dim (cw ch w h fw fh fx fy : Nat) (hcw : cw < 2 ^ 32) (hch : ch < 2 ^ 32) :
    Gen.StreamWriter_set_frame_dimension w h cw ch true fw fh fx fy =
      (if Enc.gtCheckedSub w cw fx || Enc.gtCheckedSub h ch fy then ((1 : Int), (fw : Int), (fh : Int), (fx : Int), (fy : Int))
       else if w = 0 then (2, fw, fh, fx, fy) else if h = 0 then (3, fw, fh, fx, fy) else (0, w, h, fx, fy)) := by
  unfold Gen.StreamWriter_set_frame_dimension Enc.gtCheckedSub
  by_cases hx : fx ≤ cw <;> by_cases hy : fy ≤ ch <;>
    simp [Gen.optLt, hx, hy, show ((cw : Int) - fx ≤ 4294967295) by omega, show ((ch : Int) - fy ≤ 4294967295) by omega]
  setter_arith

theorem gen_writer_pos (cw ch x y fw fh fx fy : Nat) (hcw : cw < 2 ^ 32) (hch : ch < 2 ^ 32) :
    Gen.Writer_set_frame_position x y cw ch true fw fh fx fy =
      (if Enc.gtCheckedSub x cw fw || Enc.gtCheckedSub y ch fh then ((1 : Int), (fw : Int), (fh : Int), (fx : Int), (fy : Int))
       else (0, fw, fh, x, y)) := by
  unfold Gen.Writer_set_frame_position Enc.gtCheckedSub
  by_cases hx : fw ≤ cw <;> by_cases hy : fh ≤ ch <;>
    simp [Gen.optLt, hx, hy, show ((cw : Int) - fw ≤ 4294967295) by omega, show ((ch : Int) - fh ≤ 4294967295) by omega]
  setter_arith

theorem gen_stream_pos (cw ch x y fw fh fx fy : Nat) (hcw : cw < 2 ^ 32) (hch : ch < 2 ^ 32) :
    Gen.StreamWriter_set_frame_position x y cw ch true fw fh fx fy =
      (if Enc.gtCheckedSub x cw fw || Enc.gtCheckedSub y ch fh then ((1 : Int), (fw : Int), (fh : Int), (fx : Int), (fy : Int))
       else (0, fw, fh, x, y)) := by
  unfold Gen.StreamWriter_set_frame_position Enc.gtCheckedSub
  by_cases hx : fw ≤ cw <;> by_cases hy : fh ≤ ch <;>
    simp [Gen.optLt, hx, hy, show ((cw : Int) - fw ≤ 4294967295) by omega, show ((ch : Int) - fh ≤ 4294967295) by omega]
  setter_arith

/-- without a frame control (`None`): `NotAnimated`, nothing changes — whatever the (meaningless) field parameters are -/
theorem gen_setters_not_animated (a b cw ch fw fh fx fy : Int) :
    Gen.Writer_set_frame_dimension a b cw ch false fw fh fx fy = (4, fw, fh, fx, fy) ∧
    Gen.Writer_set_frame_position a b cw ch false fw fh fx fy = (4, fw, fh, fx, fy) ∧
    Gen.StreamWriter_set_frame_dimension a b cw ch false fw fh fx fy = (4, fw, fh, fx, fy) ∧
    Gen.StreamWriter_set_frame_position a b cw ch false fw fh fx fy = (4, fw, fh, fx, fy) := by
  simp [Gen.Writer_set_frame_dimension, Gen.Writer_set_frame_position, Gen.StreamWriter_set_frame_dimension,
    Gen.StreamWriter_set_frame_position]

set_option linter.unusedVariables false in
/-- none of the four can overflow or panic, for `u32` arguments and fields (which of the range hypotheses are needed depends on how the
    Rust functions are written: `checked_sub` needs none, a guarded `-` needs them) -/
theorem gen_setters_ok (a b cw ch : Nat) (s : Bool) (fw fh fx fy : Nat) (ha : a < 2 ^ 32) (hb : b < 2 ^ 32) (hcw : cw < 2 ^ 32)
    (hch : ch < 2 ^ 32) (hfw : fw < 2 ^ 32) (hfh : fh < 2 ^ 32) (hfx : fx < 2 ^ 32) (hfy : fy < 2 ^ 32) :
    Gen.Writer_set_frame_dimension_ok a b cw ch s fw fh fx fy = true ∧ Gen.Writer_set_frame_position_ok a b cw ch s fw fh fx fy = true ∧
    Gen.StreamWriter_set_frame_dimension_ok a b cw ch s fw fh fx fy = true ∧
    Gen.StreamWriter_set_frame_position_ok a b cw ch s fw fh fx fy = true := by
  refine ⟨?_, ?_, ?_, ?_⟩ <;> first | rfl | (cases s <;> simp [Gen.Writer_set_frame_dimension_ok, Gen.Writer_set_frame_position_ok,
    Gen.StreamWriter_set_frame_dimension_ok, Gen.StreamWriter_set_frame_position_ok] <;> omega)

/-! ## `StreamWriter` model: `Enc.setFc` -/

/-- `StreamWriter::set_frame_dimension` (encoder.rs:1501-1517) = `Enc.setFc .. (.dim w h)`: same result, same frame control afterwards -/
theorem kernel_stream_set_frame_dimension (cw ch w h : Nat) (f : Enc.FC) (hcw : cw < 2 ^ 32) (hch : ch < 2 ^ 32) :
    ∃ f', (Enc.setFc cw ch (some f) (.dim w h)).1 = some f' ∧
      Gen.StreamWriter_set_frame_dimension w h cw ch true f.w f.h f.x f.y = (resCode (Enc.setFc cw ch (some f) (.dim w h)).2, rect f') ∧
      f' = { f with w := f'.w, h := f'.h } := by
  rw [gen_stream_dim cw ch w h f.w f.h f.x f.y hcw hch]
  simp only [Enc.setFc]
  (repeat' split) <;> exact ⟨_, rfl, rfl, rfl⟩

/-- `StreamWriter::set_frame_position` (encoder.rs:1528-1540) = `Enc.setFc .. (.pos x y)` -/
theorem kernel_stream_set_frame_position (cw ch x y : Nat) (f : Enc.FC) (hcw : cw < 2 ^ 32) (hch : ch < 2 ^ 32) :
    ∃ f', (Enc.setFc cw ch (some f) (.pos x y)).1 = some f' ∧
      Gen.StreamWriter_set_frame_position x y cw ch true f.w f.h f.x f.y = (resCode (Enc.setFc cw ch (some f) (.pos x y)).2, rect f') ∧
      f' = { f with x := f'.x, y := f'.y } := by
  rw [gen_stream_pos cw ch x y f.w f.h f.x f.y hcw hch]
  simp only [Enc.setFc]
  split <;> exact ⟨_, rfl, rfl, rfl⟩

/-- no frame control: both models answer `NotAnimated` and change nothing, as the translated functions do (`gen_setters_not_animated`) -/
theorem kernel_stream_not_animated (cw ch a b : Nat) :
    Enc.setFc cw ch none (.dim a b) = (none, .err .notAnimated) ∧ Enc.setFc cw ch none (.pos a b) = (none, .err .notAnimated) ∧
    resCode (.err .notAnimated) = 4 := ⟨rfl, rfl, rfl⟩

/-! ## `Writer` model: `Enc.setFrameDimension` / `Enc.setFramePosition` on a `WState` -/

/-- `Writer::set_frame_dimension` (encoder.rs:967-984) = `Enc.setFrameDimension`: same result; the state afterwards differs from the
    state before at most in the frame control, whose four rectangle fields are the translated function's outputs and whose other
    fields are unchanged -/
theorem kernel_writer_set_frame_dimension (s : Enc.WState) (f : Enc.FC) (w h : Nat) (hf : s.fctl = some f)
    (hcw : s.width < 2 ^ 32) (hch : s.height < 2 ^ 32) :
    ∃ f', (Enc.setFrameDimension s w h).1 = { s with fctl := some f' } ∧
      Gen.Writer_set_frame_dimension w h s.width s.height true f.w f.h f.x f.y = (resCode (Enc.setFrameDimension s w h).2, rect f') ∧
      f' = { f with w := f'.w, h := f'.h } := by
  rw [gen_writer_dim s.width s.height w h f.w f.h f.x f.y hcw hch]
  simp only [Enc.setFrameDimension, Enc.withFctl, hf]
  (repeat' split) <;> first | exact ⟨_, rfl, rfl, rfl⟩ | exact ⟨f, by rw [← hf], rfl, rfl⟩

/-- `Writer::set_frame_position` (encoder.rs:996-1009) = `Enc.setFramePosition` -/
theorem kernel_writer_set_frame_position (s : Enc.WState) (f : Enc.FC) (x y : Nat) (hf : s.fctl = some f)
    (hcw : s.width < 2 ^ 32) (hch : s.height < 2 ^ 32) :
    ∃ f', (Enc.setFramePosition s x y).1 = { s with fctl := some f' } ∧
      Gen.Writer_set_frame_position x y s.width s.height true f.w f.h f.x f.y = (resCode (Enc.setFramePosition s x y).2, rect f') ∧
      f' = { f with x := f'.x, y := f'.y } := by
  rw [gen_writer_pos s.width s.height x y f.w f.h f.x f.y hcw hch]
  simp only [Enc.setFramePosition, Enc.withFctl, hf]
  split <;> first | exact ⟨_, rfl, rfl, rfl⟩ | exact ⟨f, by rw [← hf], rfl, rfl⟩

theorem kernel_writer_not_animated (s : Enc.WState) (a b : Nat) (hf : s.fctl = none) :
    Enc.setFrameDimension s a b = (s, .err .notAnimated) ∧ Enc.setFramePosition s a b = (s, .err .notAnimated) := by
  simp [Enc.setFrameDimension, Enc.setFramePosition, Enc.withFctl, hf]

/-! ## C17's model: `EncodeMeta.applyOp` -/

def encErrCode : Except EncodeMeta.EncErr Framing.FrameControl → Int
  | .ok _ => 0
  | .error .outOfBounds => 1
  | .error .zeroWidth => 2
  | .error .zeroHeight => 3
  | .error .notAnimated => 4
  | .error _ => -1

/-- the frame control after a call: the new one, or the old one when the call was refused -/
def fcAfter (fc : Framing.FrameControl) : Except EncodeMeta.EncErr Framing.FrameControl → Framing.FrameControl
  | .ok fc' => fc'
  | .error _ => fc

def rectF (f : Framing.FrameControl) : Int × Int × Int × Int := ((f.width : Int), (f.height : Int), (f.x : Int), (f.y : Int))

/-- `EncodeMeta.applyOp` in the vocabulary of the other two models (`x > b - c ∨ b < c` is `gtCheckedSub`) -/
theorem apply_dim_nf (cw ch w h : Nat) (fc : Framing.FrameControl) :
    EncodeMeta.applyOp cw ch fc (.dimension w h) =
      (if Enc.gtCheckedSub w cw fc.x || Enc.gtCheckedSub h ch fc.y then .error .outOfBounds
       else if w = 0 then .error .zeroWidth else if h = 0 then .error .zeroHeight else .ok { fc with width := w, height := h }) := by
  have e : (cw < fc.x ∨ w > cw - fc.x ∨ ch < fc.y ∨ h > ch - fc.y) ↔ (Enc.gtCheckedSub w cw fc.x || Enc.gtCheckedSub h ch fc.y) = true := by
    simp only [Enc.gtCheckedSub, Bool.or_eq_true]
    by_cases hx : fc.x ≤ cw <;> by_cases hy : fc.y ≤ ch <;> simp [hx, hy] <;> omega
  simp only [EncodeMeta.applyOp, e]

theorem apply_pos_nf (cw ch x y : Nat) (fc : Framing.FrameControl) :
    EncodeMeta.applyOp cw ch fc (.position x y) =
      (if Enc.gtCheckedSub x cw fc.width || Enc.gtCheckedSub y ch fc.height then .error .outOfBounds
       else .ok { fc with x := x, y := y }) := by
  have e : (cw < fc.width ∨ x > cw - fc.width ∨ ch < fc.height ∨ y > ch - fc.height) ↔
      (Enc.gtCheckedSub x cw fc.width || Enc.gtCheckedSub y ch fc.height) = true := by
    simp only [Enc.gtCheckedSub, Bool.or_eq_true]
    by_cases hx : fc.width ≤ cw <;> by_cases hy : fc.height ≤ ch <;> simp [hx, hy] <;> omega
  simp only [EncodeMeta.applyOp, e]

/-- `set_frame_dimension` = `EncodeMeta.applyOp .. (.dimension w h)` (the `Writer` and the `StreamWriter` copy) -/
theorem kernel_apply_dimension (cw ch w h : Nat) (fc : Framing.FrameControl) (hcw : cw < 2 ^ 32) (hch : ch < 2 ^ 32) :
    let r := EncodeMeta.applyOp cw ch fc (.dimension w h)
    Gen.Writer_set_frame_dimension w h cw ch true fc.width fc.height fc.x fc.y = (encErrCode r, rectF (fcAfter fc r)) ∧
    Gen.StreamWriter_set_frame_dimension w h cw ch true fc.width fc.height fc.x fc.y = (encErrCode r, rectF (fcAfter fc r)) ∧
    fcAfter fc r = { fc with width := (fcAfter fc r).width, height := (fcAfter fc r).height } := by
  intro r
  rw [gen_writer_dim cw ch w h _ _ _ _ hcw hch, gen_stream_dim cw ch w h _ _ _ _ hcw hch]
  simp only [r, apply_dim_nf]
  (repeat' split) <;> exact ⟨rfl, rfl, rfl⟩

/-- `set_frame_position` = `EncodeMeta.applyOp .. (.position x y)` -/
theorem kernel_apply_position (cw ch x y : Nat) (fc : Framing.FrameControl) (hcw : cw < 2 ^ 32) (hch : ch < 2 ^ 32) :
    let r := EncodeMeta.applyOp cw ch fc (.position x y)
    Gen.Writer_set_frame_position x y cw ch true fc.width fc.height fc.x fc.y = (encErrCode r, rectF (fcAfter fc r)) ∧
    Gen.StreamWriter_set_frame_position x y cw ch true fc.width fc.height fc.x fc.y = (encErrCode r, rectF (fcAfter fc r)) ∧
    fcAfter fc r = { fc with x := (fcAfter fc r).x, y := (fcAfter fc r).y } := by
  intro r
  rw [gen_writer_pos cw ch x y _ _ _ _ hcw hch, gen_stream_pos cw ch x y _ _ _ _ hcw hch]
  simp only [r, apply_pos_nf]
  (repeat' split) <;> exact ⟨rfl, rfl, rfl⟩

/-! ## sequence checks -/

/-- `Writer::validate_new_image` (encoder.rs:715-736) = `Enc.validateNewImage`: `1 = EndReached` -/
theorem kernel_validate_new_image (s : Enc.WState) :
    Gen.Writer_validate_new_image s.validate s.imagesWritten s.actl.isSome s.fctl.isSome =
      (match Enc.validateNewImage s with | none => 0 | some _ => 1) ∧
    (∀ e, Enc.validateNewImage s = some e → e = .endReached) ∧
    Gen.Writer_validate_new_image_ok s.validate s.imagesWritten s.actl.isSome s.fctl.isSome = true := by
  refine ⟨?_, ?_, rfl⟩
  · unfold Gen.Writer_validate_new_image Enc.validateNewImage
    cases hv : s.validate <;> cases ha : s.actl <;> cases hf : s.fctl <;> simp <;> (try split) <;> simp_all
  · intro e
    unfold Enc.validateNewImage
    cases s.validate <;> cases s.actl <;> cases s.fctl <;> simp <;> (try split) <;> simp_all

/-- `Writer::validate_first_image_rect` (encoder.rs:739-750) = `Enc.validateFirstImageRect`: `1 = OutOfBounds` -/
theorem kernel_validate_first_image_rect (s : Enc.WState) (f : Enc.FC) :
    (s.fctl = some f →
      Gen.Writer_validate_first_image_rect s.imagesWritten s.width s.height true f.w f.h f.x f.y =
        (match Enc.validateFirstImageRect s with | none => 0 | some _ => 1)) ∧
    (s.fctl = none → ∀ fw fh fx fy : Int,
      Gen.Writer_validate_first_image_rect s.imagesWritten s.width s.height false fw fh fx fy = 0 ∧ Enc.validateFirstImageRect s = none) ∧
    (∀ e, Enc.validateFirstImageRect s = some e → e = .outOfBounds) := by
  refine ⟨fun hf => ?_, fun hf fw fh fx fy => ?_, fun e => ?_⟩
  · unfold Gen.Writer_validate_first_image_rect Enc.validateFirstImageRect
    simp only [hf]
    by_cases h0 : s.imagesWritten = 0 <;> by_cases hx : f.x = 0 <;> by_cases hy : f.y = 0 <;> by_cases hw : f.w = s.width <;>
      by_cases hh : f.h = s.height <;> simp [h0, hx, hy, hw, hh] <;> omega
  · simp [Gen.Writer_validate_first_image_rect, Enc.validateFirstImageRect, hf]
  · unfold Enc.validateFirstImageRect
    cases s.fctl <;> simp <;> intro _ _ h <;> exact h.symm

/-! ## `Encoder::set_animated` -/

/-- `Encoder::set_animated` (encoder.rs:219-239) = `EncodeMeta.setAnimated`: zero frames are refused (`1 = ZeroFrames`) and nothing
    changes; otherwise both `Option`s become `Some`, the animation control is `(num_frames, num_plays)` and the frame control is
    `FrameControl::default()` (read from `impl Default for FrameControl`) with the canvas size: `EncodeMeta.initialFc` -/
theorem kernel_set_animated (w h frames plays : Nat) (a0 : Bool) (a1 a2 : Int) (f0 : Bool) (g : Int × Int × Int × Int × Int × Int × Int × Int × Int) :
    Gen.Encoder_set_animated frames plays w h a0 a1 a2 f0 g.1 g.2.1 g.2.2.1 g.2.2.2.1 g.2.2.2.2.1 g.2.2.2.2.2.1 g.2.2.2.2.2.2.1 g.2.2.2.2.2.2.2.1
        g.2.2.2.2.2.2.2.2 =
      (match EncodeMeta.setAnimated w h frames plays with
       | .error _ => (1, a0, a1, a2, f0, g)
       | .ok ((nf, np), fc) => (0, true, (nf : Int), (np : Int), true, (fc.seq : Int), (fc.width : Int), (fc.height : Int), (fc.x : Int), (fc.y : Int),
                                 (fc.delayNum : Int), (fc.delayDen : Int), (fc.dispose : Int), (fc.blend : Int))) ∧
    (∀ e, EncodeMeta.setAnimated w h frames plays = .error e → e = .zeroFrames) := by
  unfold EncodeMeta.setAnimated Gen.Encoder_set_animated EncodeMeta.initialFc
  by_cases h0 : frames = 0
  · subst h0; simp
  · simp [h0]

/-- a frame at (6,6) of 2x2 in an 8x8 canvas is accepted; 3x2 is not; an x offset beyond the canvas refuses every width (`Some(_) > None`);
    a first image that does not cover the canvas is refused; zero frames are refused -/
example : Gen.Writer_set_frame_dimension 2 2 8 8 true 1 1 6 6 = (0, 2, 2, 6, 6) ∧
    Gen.Writer_set_frame_dimension 3 2 8 8 true 1 1 6 6 = (1, 1, 1, 6, 6) ∧
    Gen.StreamWriter_set_frame_dimension 0 0 8 8 true 1 1 9 0 = (1, 1, 1, 9, 0) ∧
    Gen.StreamWriter_set_frame_dimension 0 1 8 8 true 1 1 0 0 = (2, 1, 1, 0, 0) ∧
    Gen.Writer_set_frame_position 4294967295 0 8 8 true 2 2 0 0 = (1, 2, 2, 0, 0) ∧
    Gen.StreamWriter_set_frame_position 6 6 8 8 true 2 2 0 0 = (0, 2, 2, 6, 6) ∧
    Gen.Writer_validate_first_image_rect 0 8 8 true 8 7 0 0 = 1 ∧ Gen.Writer_validate_first_image_rect 1 8 8 true 8 7 0 0 = 0 ∧
    Gen.Writer_validate_new_image true 1 false false = 1 ∧
    (Gen.Encoder_set_animated 0 0 8 8 false 0 0 false 0 0 0 0 0 0 0 0 0).1 = 1 :=
  ⟨rfl, rfl, rfl, rfl, rfl, rfl, rfl, rfl, rfl, rfl⟩

example : Gen.Encoder_set_animated 3 0 8 9 false 0 0 false 7 7 7 7 7 7 7 7 7 = (0, true, 3, 0, true, 0, 8, 9, 0, 0, 1, 30, 0, 0) := rfl

end Png.Kernels
