import PngVerif.Generated.KernelsStream
import PngVerif.Model.Framing
import PngVerif.Proofs.KernelTactic
/-!
# Tie A, part 2 (translator): the frame-rectangle validation `Info::validate` of `src/decoder/stream.rs`

For every header size and EVERY frame control (all `u32` values, including `x_offset + width ≥ 2^32`) the function translated from
the current source takes the decision the framing model takes in `parseFctl` (`fctlInBounds`, which `C10.fctl_bounds` relates to
the specification's `x + w ≤ canvas width ∧ y + h ≤ canvas height` over unbounded naturals): 1 = `InvalidDimensions`,
2 = `BadSubFrameBounds`, 0 = accepted.
-/
namespace Png.Kernels
open Png

theorem kernel_info_validate (i : Framing.Info) (fc : Framing.FrameControl) (hw : i.width < 2 ^ 32) (hh : i.height < 2 ^ 32) :
    Gen.Info_validate fc.width fc.height i.width fc.x i.height fc.y =
      (if fc.width = 0 ∨ fc.height = 0 then 1 else if !Framing.fctlInBounds i fc then 2 else 0) ∧
    Gen.Info_validate_ok fc.width fc.height i.width fc.x i.height fc.y = true := by
  refine ⟨?_, rfl⟩
  unfold Gen.Info_validate Framing.fctlInBounds Gen.optLe
  by_cases h1 : fc.width = 0 <;> by_cases h2 : fc.height = 0 <;> simp [h1, h2]
  by_cases hx : fc.x ≤ i.width <;> by_cases hy : fc.y ≤ i.height <;>
    simp [hx, hy, show ((i.width : Int) - fc.x ≤ 4294967295) by omega, show ((i.height : Int) - fc.y ≤ 4294967295) by omega] <;>
    (repeat' split) <;> omega

/-- the rectangle that wraps around `2^32` (seeded change C10_4) is refused by the source as it is now -/
example : Gen.Info_validate 2 2 8 4294967295 8 0 = 2 ∧ Gen.Info_validate 2 2 8 6 8 6 = 0 ∧ Gen.Info_validate 0 2 8 0 8 0 = 1 := by decide

end Png.Kernels
