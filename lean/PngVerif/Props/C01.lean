import PngVerif.Proofs.Basic
import PngVerif.Props.C01Components
/-!
# C01 — Decoded pixels equal the PNG specification's reconstruction

Geometry part (all widths, all legal colour/depth pairs).  The pipeline components
(`UnfilteringBuffer`, `ZlibStream` window, filters, Adam7) are in `Props/C01Components.lean`,
`Props/C14.lean`, `Props/C15.lean`.
-/
namespace Png.C01

/-- legality test of the decoder (`from_u8` + `is_combination_invalid`) = table 11.1 of the specification -/
theorem legal_pairs (c d : Nat) :
    (c, d) ∈ legalPairs ↔ (colorOk c = true ∧ depthOk d = true ∧ combinationInvalid c d = false) := legal_iff c d

/-- `raw_row_length_from_width = 1 + ⌈w·samples·depth / 8⌉` for every width -/
theorem rowlen_eq (c d w : Nat) (hd : depthOk d = true) :
    rawRowLengthFromWidth c d w = 1 + (w * samplesOf c * d + 7) / 8 := rowlen_spec c d w hd

/-- `checked_raw_row_length` agrees with it whenever it is `Some`, and is `Some` for every `u32` width -/
theorem rowlen_checked_eq (c d w n : Nat) (hd : depthOk d = true)
    (h : checkedRawRowLength c d w = some n) : rawRowLengthFromWidth c d w = n := rowlen_checked c d w hd n h
theorem rowlen_checked_exists (c d w : Nat) (hw : w < 2 ^ 32) (hd : depthOk d = true) :
    ∃ n, checkedRawRowLength c d w = some n := rowlen_checked_some c d w hw hd

/-- the filter unit of every legal pair is one of the six `BytesPerPixel` values: `unreachable!` is unreachable -/
theorem bpp_total (c d : Nat) (h : (c, d) ∈ legalPairs) :
    bppFromUsize (bytesPerPixel c d) = some (bytesPerPixel c d) ∧ 1 ≤ bytesPerPixel c d := Png.bpp_total c d h

/-- every row handed to `unfilter` is a whole number of filter units (so its chunk loops cover it) -/
theorem row_multiple (c d w : Nat) (h : (c, d) ∈ legalPairs) :
    bytesPerPixel c d ∣ (rawRowLengthFromWidth c d w - 1) := rowlen_multiple c d w h

example : rawRowLengthFromWidth 0 1 9 = 3 ∧ rawRowLengthFromWidth 6 16 3 = 25 ∧ (2, 8) ∈ legalPairs := by decide

end Png.C01
