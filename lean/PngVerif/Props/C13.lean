import PngVerif.Proofs.ReaderPathsTop
import PngVerif.Proofs.ReaderPathsToy
import PngVerif.Proofs.ReaderPathsReal
/-!
# C13 — All decoding paths agree: whole frames, single rows, frame skipping

Property theorems only (lemmas: `Proofs/ReaderPaths*.lean`), about `Model/Reader.lean`: the model's
functions for the public calls `next_frame` (`nextFrameBuf`, with the caller's buffer as an argument;
`frameInto` is the same call once the reader stands in the frame's data), `next_row` /
`next_interlaced_row` (`nextInterlacedRow`), `read_row` (`readRow`, with the caller's buffer length) and
`next_frame_info` (`nextFrameInfo`); `Reader.step` wraps exactly these.

Parameters (hypotheses, never axioms):
* `cfg : Cfg` — CRC and inflater, arbitrary (no contract is needed here);
* `t : TCfg` — the row transformation, through its contract `TCfg.Ok` (as in C02) and, where a frame
  may be skipped before the first row of the stream was decoded, `TCfg.SnapIndep`: the transformation
  function does not depend on WHICH `Info` of the stream it was created from (same IHDR fields, `tRNS`
  and palette — `Evolves`).  All colour types, bit depths (sub-byte included) and transformations
  satisfying the contracts are covered; nothing is restricted to the identity;
* the reader: the protocol invariant `Inv` (every reachable state: `Png.C02`), `ZInv` (what the inflater
  produced has been handed out; kept by every call: `step_decP` with `zinv_decPred`) and `Line0Fresh`
  (no previous row at line 0 of a non-interlaced frame).  `reader_after_read_info` shows that all of
  them hold for the reader `read_info` returns, for every input shorter than 4 GiB;
* "decodable": the whole-frame call succeeds (`… = (rE, .frame oi B, B)`), resp. for whole runs
  `refFrames … = some ref` — every remaining frame decodes by one `next_frame` call into a fresh buffer.
  A truncated (not yet fully visible) input makes the reference fail, so end-of-input and resumption
  are not part of these statements (that is C05).

Readers are compared up to `PSim`: the scratch-row length (`next_row` resizes the library's row,
`read_row` and the non-interlaced loop of `next_frame` do not) and — `PSim True` only — the `Info` the
transformation was created from.  `related_readers_behave_alike` shows that nothing observable depends
on either.

What is proved: (1) `read_row` = `next_row`; (2) one row-level call, then `next_frame` = `next_frame`,
and the end of a frame; (3) any number of row-level calls, then `next_frame`; rows alone; (4) why
`next_frame` may decide by `consumed_and_flushed` alone; (5) `next_frame_info` from anywhere inside a
frame, and every later call; (6) whole runs: any interleaving, assembled as the harness does, against
the whole-frame reference.
-/
namespace Png.C13
open Png Png.Framing Png.Reader

/-! ## (1) Caller-owned and library-owned row buffer -/

/-- **`read_row` delivers what `next_row` / `next_interlaced_row` delivers**: into a caller buffer of ANY
    length that holds a row of the current (sub)frame, the same result (the same row bytes and
    interlace information, or the same `None` / error) and the same reader up to the scratch length -/
theorem read_row_eq_next_row (cfg : Cfg) (t : TCfg) (ht : t.Ok) (r : R) (i : Info) (bufLen : Nat) (hI : Inv t r)
    (hi : r.dec.info = some i) (hbuf : outLineSize t i r.flags r.sub.width ≤ bufLen) :
    SimRes False (nextInterlacedRow cfg t r) (readRow cfg t r bufLen) :=
  readRow_eq_nextRow cfg ht bufLen hI hi hbuf

/-- **with or without interlace information**: the `InterlaceInfo` of a delivered row is the reader's
    current row; in a non-interlaced frame it is the row counter, and the next row is the next line — a
    caller of `next_row` (which drops it) can place the rows by counting -/
theorem interlace_info_is_row_counter (cfg : Cfg) (t : TCfg) (ht : t.Ok) (r r1 : R) (i : Info) (ii : IInfo)
    (data : Bytes) (hI : Inv t r) (hi : r.dec.info = some i) (hx : nextInterlacedRow cfg t r = (r1, .row ii data)) :
    r.sub.cur = some ii ∧
    (i.interlaced = false → ∃ k, ii = .null k ∧ k < r.sub.height ∧
      r1.sub.cur = if k + 1 < r.sub.height then some (.null (k + 1)) else none) :=
  row_info cfg ht hI hi hx

/-! ## (2) One row-level call, then the whole-frame call -/

/-- **`row_then_frame`**: from a reader ANYWHERE inside a frame (first row or later) from which
    `next_frame` into `buf` returns the frame `B`: the row-level call delivers the current row; placing
    it into `buf` (`placeRow`: a non-interlaced row `l` at `l * line_size`, an Adam7 row with the public
    helper `expand_interlaced_row` = `Adam7.expandPass`) succeeds; and `next_frame` into the resulting
    buffer from the resulting reader returns the same frame `B` — it writes exactly the rows not yet
    delivered — leaving the same reader up to the scratch length -/
theorem row_then_frame (cfg : Cfg) (t : TCfg) (ht : t.Ok) (r rE : R) (i : Info) (ii : IInfo) (buf B : Bytes)
    (oi : OutputInfo) (hI : Inv t r) (hF : Line0Fresh r) (hi : r.dec.info = some i) (hcur : r.sub.cur = some ii)
    (hW : frameInto cfg t r buf = (rE, .frame oi B, B)) :
    ∃ data r1 buf1, nextInterlacedRow cfg t r = (r1, .row ii data) ∧
      placeRow (outLineSize t i r.flags r.sub.width) (outBits t i r.flags) buf ii data = some buf1 ∧
      ∃ rE1, frameInto cfg t r1 buf1 = (rE1, .frame oi B, B) ∧ PSim False rE rE1 :=
  frameInto_row cfg ht hI hF hi hcur hW

/-- **the end of a frame**: when no row is left, `next_frame` returns the buffer as it is, the row-level
    call returns `None`, and both leave the same reader up to the scratch length -/
theorem frame_end (cfg : Cfg) (t : TCfg) (ht : t.Ok) (r rE : R) (i : Info) (buf B : Bytes) (oi : OutputInfo)
    (hI : Inv t r) (hi : r.dec.info = some i) (hcur : r.sub.cur = none)
    (hW : frameInto cfg t r buf = (rE, .frame oi B, B)) :
    B = buf ∧ ∃ r1, nextInterlacedRow cfg t r = (r1, .noRow) ∧ PSim False rE r1 :=
  frameInto_end cfg ht hI hi hcur hW

/-! ## (3) Any number of row-level calls -/

/-- **`path_agreement`**: after any sequence of successful row-level calls (`RowCalls`: `next_row` /
    `next_interlaced_row` or `read_row` into any sufficient caller buffer, in any mixture; each row
    placed into the frame buffer), `next_frame` returns the frame `B` that `next_frame` returns when
    called at once on the original buffer, and leaves the same reader up to the scratch length -/
theorem path_agreement (cfg : Cfg) (t : TCfg) (ht : t.Ok) (i : Info) (stride bits : Nat) (r rk rE : R)
    (buf bufk B : Bytes) (oi : OutputInfo) (hc : RowCalls cfg t stride bits r buf rk bufk) (hI : Inv t r)
    (hF : Line0Fresh r) (hi : r.dec.info = some i) (hst : stride = outLineSize t i r.flags r.sub.width)
    (hbits : bits = outBits t i r.flags) (hW : frameInto cfg t r buf = (rE, .frame oi B, B)) :
    ∃ rEk, frameInto cfg t rk bufk = (rEk, .frame oi B, B) ∧ PSim False rE rEk := by
  obtain ⟨rEk, k1, k2, _⟩ := Reader.path_agreement cfg ht hc hI hF hi hst hbits hW
  exact ⟨rEk, k1, k2⟩

/-- **`mid_frame_switch`**, the same for the public call `next_frame` (which first decides between
    "continue this frame" and "advance to the next frame"): after the row-level calls it still continues
    the frame -/
theorem mid_frame_switch (cfg : Cfg) (t : TCfg) (ht : t.Ok) (i : Info) (stride bits : Nat) (r rk rE : R)
    (buf bufk B : Bytes) (oi : OutputInfo) (hc : RowCalls cfg t stride bits r buf rk bufk) (hI : Inv t r)
    (hz : ZInv cfg r.dec) (hF : Line0Fresh r) (hcaf : r.sub.caf = false) (hi : r.dec.info = some i)
    (hst : stride = outLineSize t i r.flags r.sub.width) (hbits : bits = outBits t i r.flags)
    (hW : nextFrameBuf cfg t r buf = (rE, .frame oi B, B)) :
    ∃ rEk, nextFrameBuf cfg t rk bufk = (rEk, .frame oi B, B) ∧ PSim False rE rEk :=
  Reader.mid_frame_switch cfg ht hc hI hz hF hcaf hi hst hbits hW

/-- **rows alone**: a frame decoded entirely by row-level calls, every row placed, is the frame of one
    `next_frame` call -/
theorem rows_only (cfg : Cfg) (t : TCfg) (ht : t.Ok) (i : Info) (stride bits : Nat) (r rk rE : R)
    (buf bufk B : Bytes) (oi : OutputInfo) (hc : RowCalls cfg t stride bits r buf rk bufk) (hI : Inv t r)
    (hF : Line0Fresh r) (hi : r.dec.info = some i) (hst : stride = outLineSize t i r.flags r.sub.width)
    (hbits : bits = outBits t i r.flags) (hW : frameInto cfg t r buf = (rE, .frame oi B, B))
    (hend : rk.sub.cur = none) : bufk = B :=
  rows_only_agree cfg ht hc hI hF hi hst hbits hW hend

/-! ## (4) Why `next_frame` may decide by `consumed_and_flushed` alone -/

/-- **the end of a data-chunk sequence delivers no image data**: every piece of a data chunk hands out
    everything decodable so far, so the flush has nothing left -/
theorem flush_delivers_no_data (cfg : Cfg) (r r' : R) (data : Bytes) (h : ZInv cfg r.dec)
    (hd : decodeNext' cfg r = (r', .ok (.imageDataFlushed, data))) : data = [] :=
  decodeNext'_flush cfg h hd

/-- `ZInv` holds for a new decoder and is kept by every call of the model -/
theorem zinv_reachable (cfg : Cfg) (t : TCfg) (opts : Options) (limit : Nat) (flags : Flags) (input : Bytes)
    (visible : Nat) (ops : List Op) : ZInv cfg (run cfg t (R.init opts limit flags input visible) ops).1.dec :=
  run_decP (zinv_decPred cfg) t ops _ (zinv_init cfg opts limit flags input visible)

/-- **a delivered row has not seen the end of the frame's data**: a row-level call that succeeds on a
    frame whose data is not consumed leaves `consumed_and_flushed` clear — so a `next_frame` that follows
    continues the frame (mod.rs:396) -/
theorem row_keeps_frame_open (cfg : Cfg) (t : TCfg) (ht : t.Ok) (r r1 : R) (i : Info) (ii : IInfo) (data : Bytes)
    (hI : Inv t r) (hi : r.dec.info = some i) (hz : ZInv cfg r.dec) (hcaf : r.sub.caf = false)
    (hx : nextInterlacedRow cfg t r = (r1, .row ii data)) : r1.sub.caf = false :=
  nextRow_caf cfg ht hI hi hz hcaf hx

/-! ## (5) Skipping -/

/-- **`skip_agrees`**: `next_frame_info` called ANYWHERE inside a frame (before the first row, or after
    any number of rows) returns what it returns after `next_frame` decoded the frame; when it returns a
    frame control, the two readers differ at most in the scratch length and in the `Info` the
    transformation was created from -/
theorem skip_agrees (cfg : Cfg) (t : TCfg) (ht : t.Ok) (r rE : R) (i : Info) (buf B : Bytes) (oi : OutputInfo)
    (hI : Inv t r) (hi : r.dec.info = some i) (hcaf : r.sub.caf = false)
    (hW : frameInto cfg t r buf = (rE, .frame oi B, B)) :
    (nextFrameInfo cfg t r).2 = (nextFrameInfo cfg t rE).2 ∧
    (∀ fc, (nextFrameInfo cfg t rE).2 = .frameInfo fc →
      PSim True (nextFrameInfo cfg t rE).1 (nextFrameInfo cfg t r).1) :=
  Reader.skip_agrees cfg ht hI hi hcaf hW

/-- **`related_readers_behave_alike`**: readers related by `PSim` return the same results for every
    sequence of `Reader` calls (`next_frame`, `next_row`, `read_row`, `next_frame_info`, `finish`, growth
    of the visible input) and stay related -/
theorem related_readers_behave_alike (cfg : Cfg) (t : TCfg) (ht : t.Ok) (b : Prop) (hb : b → t.SnapIndep)
    (ops : List Op) (r r' : R) (hops : ∀ op ∈ ops, op.onReader = true) (h : PSim b r r') (hL : Live t r)
    (hL' : Live t r') : SimRes b (run cfg t r ops) (run cfg t r' ops) :=
  run_psim cfg ht hb ops r r' hops h hL hL'

/-- **`skip_does_not_change_later_frames`**: after the skip, every sequence of `Reader` calls returns
    the same results as after decoding the frame and then calling `next_frame_info` -/
theorem skip_does_not_change_later_frames (cfg : Cfg) (t : TCfg) (ht : t.Ok) (hs : t.SnapIndep) (r rE : R)
    (buf B : Bytes) (oi : OutputInfo) (fc : FrameControl) (hL : Live t r) (hcaf : r.sub.caf = false)
    (hW : frameInto cfg t r buf = (rE, .frame oi B, B)) (hfc : (nextFrameInfo cfg t rE).2 = .frameInfo fc)
    (ops : List Op) (hops : ∀ op ∈ ops, op.onReader = true) :
    (nextFrameInfo cfg t r).2 = .frameInfo fc ∧
    (run cfg t (nextFrameInfo cfg t r).1 ops).2 = (run cfg t (nextFrameInfo cfg t rE).1 ops).2 :=
  skip_later_calls cfg ht hs hL hcaf hW hfc ops hops

/-! ## (6) Whole runs -/

/-- the reader `read_info` returns satisfies every hypothesis on the reader made in this file -/
theorem reader_after_read_info (cfg : Cfg) (t : TCfg) (ht : t.Ok) (opts : Options) (limit : Nat) (flags : Flags)
    (input : Bytes) (visible : Nat) (hlen : input.length < 2 ^ 32) (r0 : R)
    (h : step cfg t (R.init opts limit flags input visible) .readInfo = (r0, .header)) :
    Inv t r0 ∧ ZInv cfg r0.dec ∧ r0.sub.caf = false ∧ Line0Fresh r0 :=
  start_good cfg ht opts limit flags input visible hlen h

/-- **`C13_paths_agree`**: let `ref` be the remaining frames decoded by whole-frame calls, each into a
    fresh buffer `fresh` (`refFrames`).  Then for EVERY interleaving `ops` of `next_frame`, `next_row` /
    `next_interlaced_row`, `read_row` (any sufficient buffer) and `next_frame_info`, executed as the
    harness's `assemble` does (`asmRun`: delivered rows are placed into the caller's frame buffer with
    `placeRow`, a `next_frame` in the middle of a frame gets that buffer, a new frame starts with
    `fresh`; a frame is recorded when `next_frame` returns it or a row-level call returns `None`): no call
    fails, no row arrives for a completed frame, the Adam7 helper accepts every row — and every recorded
    frame `(k, px)` is the reference frame `k` -/
theorem C13_paths_agree (cfg : Cfg) (t : TCfg) (ht : t.Ok) (hs : t.SnapIndep) (fresh : Bytes) (ref : List Bytes)
    (r0 : R) (hI : Inv t r0) (hz : ZInv cfg r0.dec) (hcaf : r0.sub.caf = false) (hF : Line0Fresh r0)
    (href : refFrames cfg t fresh r0.remaining r0 = some ref) (ops : List PathOp) :
    (asmRun cfg t fresh (r0, Asm.init fresh) ops).2.problem = false ∧
    ∀ k px, (k, px) ∈ (asmRun cfg t fresh (r0, Asm.init fresh) ops).2.frames → ref[k]? = some px :=
  asmRun_agrees cfg ht hs hI hz hcaf hF href ops

/-- … stated for a file: any input shorter than 4 GiB on which `read_info` succeeds and whose frames all
    decode by whole-frame calls -/
theorem C13_paths_agree_file (cfg : Cfg) (t : TCfg) (ht : t.Ok) (hs : t.SnapIndep) (opts : Options) (limit : Nat)
    (flags : Flags) (input : Bytes) (hlen : input.length < 2 ^ 32) (r0 : R) (fresh : Bytes) (ref : List Bytes)
    (h : step cfg t (R.init opts limit flags input input.length) .readInfo = (r0, .header))
    (href : refFrames cfg t fresh r0.remaining r0 = some ref) (ops : List PathOp) :
    (asmRun cfg t fresh (r0, Asm.init fresh) ops).2.problem = false ∧
    ∀ k px, (k, px) ∈ (asmRun cfg t fresh (r0, Asm.init fresh) ops).2.frames → ref[k]? = some px := by
  obtain ⟨a1, a2, a3, a4⟩ := start_good cfg ht opts limit flags input input.length hlen h
  exact asmRun_agrees cfg ht hs a1 a2 a3 a4 href ops

/-! ## The parameters -/

/-- **the contract `TCfg.SnapIndep` holds for the transformation of `Model/Transform.lean`** as the
    executable model uses it (`Driver.realT`): the selection of the row function and the memo palette do
    not depend on which `Info` of the stream they were created from -/
theorem snap_indep_of_model_transform : Driver.realT.SnapIndep := Driver.realT_snapIndep

/-- **the operations of `Reader.step` are the functions of this file**: on a reader without a pending
    `next_frame` buffer, `nextRow`, `readRow`, `nextFrameInfo` and `nextFrame p` are `nextInterlacedRow`,
    `readRow` with the documented buffer size, `nextFrameInfo`, and `nextFrameBuf` on a buffer of the
    documented size filled with `p` -/
theorem step_is_path_op (cfg : Cfg) (t : TCfg) (r : R) (i : Info) (p : UInt8) (hr : r.isReader = true)
    (hp : r.pendingBuf = none) (hi : r.dec.info = some i) :
    step cfg t r .nextRow = nextInterlacedRow cfg t r ∧
    step cfg t r .readRow = readRow cfg t r (canvasLine t r + 0) ∧
    step cfg t r .nextFrameInfo = nextFrameInfo cfg t r ∧
    step cfg t r (.nextFrame p) = opPost (nextFrameBuf cfg t r (List.replicate (needOf t r i) p)) :=
  Reader.step_is_path_op cfg t r i p hr hp hi

/-! ## Non-vacuity: concrete streams (`Proofs/ReaderPathsToy.lean`) -/

open Png.Reader.Toy Png.Framing.Toy Png.Reader.PathsToy

/-- both contracts of the transformation are satisfiable: the identity transformation -/
example : idT.Ok ∧ idT.SnapIndep := ⟨idT_ok, idT_snapIndep⟩

/-- `read_info` succeeds on the three toy streams: a 2×3 non-interlaced image (rows `None`, `Up`, `Sub`),
    a 3×3 Adam7 image (six pass rows), a two-frame 2×2 APNG -/
example : step toyCfg idT (initOf imgG) .readInfo = (rG, .header) := rG_header
example : step toyCfg idT (initOf imgA) .readInfo = (rA, .header) := rA_header
example : step toyCfg idT (initOf apng2) .readInfo = (rP, .header) := rP_header

/-- the references: every frame decodes by a whole-frame call -/
theorem refG : refFrames toyCfg idT (zeros 6) rG.remaining rG = some [[10, 20, 11, 21, 5, 10]] := by decide +kernel
theorem refA : refFrames toyCfg idT (zeros 9) rA.remaining rA = some [[1, 5, 2, 7, 8, 9, 3, 6, 4]] := by decide +kernel
set_option maxRecDepth 8192 in
theorem refP : refFrames toyCfg idT (zeros 4) rP.remaining rP = some [[1, 2, 2, 3], [9, 8, 1, 2]] := by decide +kernel

/-- the hypotheses on the reader hold for the three readers -/
example : Inv idT rG ∧ ZInv toyCfg rG.dec ∧ rG.sub.caf = false ∧ Line0Fresh rG :=
  reader_after_read_info toyCfg idT idT_ok {} _ {} imgG _ (by decide +kernel) rG rG_header
example : Inv idT rA ∧ ZInv toyCfg rA.dec ∧ rA.sub.caf = false ∧ Line0Fresh rA :=
  reader_after_read_info toyCfg idT idT_ok {} _ {} imgA _ (by decide +kernel) rA rA_header

/-- mixed runs complete frames — rows through both row-level calls, then the whole-frame call in the
    middle of the frame; rows alone on the Adam7 image; skipping inside the first frame of the APNG -/
example : (asmRun toyCfg idT (zeros 6) (rG, Asm.init (zeros 6)) [.nextRow, .readRow 3, .nextFrame, .nextRow]).2.frames =
    [(0, [10, 20, 11, 21, 5, 10])] := by decide +kernel
example : (asmRun toyCfg idT (zeros 9) (rA, Asm.init (zeros 9))
    [.nextRow, .readRow 0, .nextRow, .nextFrame, .nextFrame]).2.frames = [(0, [1, 5, 2, 7, 8, 9, 3, 6, 4])] := by
  decide +kernel
example : (asmRun toyCfg idT (zeros 9) (rA, Asm.init (zeros 9))
    [.nextRow, .readRow 0, .nextRow, .nextRow, .nextRow, .nextRow, .nextRow]).2.frames =
    [(0, [1, 5, 2, 7, 8, 9, 3, 6, 4])] := by decide +kernel
set_option maxRecDepth 8192 in
example : (asmRun toyCfg idT (zeros 4) (rP, Asm.init (zeros 4))
    [.nextRow, .nextFrameInfo, .readRow 1, .nextFrame, .nextFrame]).2.frames = [(1, [9, 8, 1, 2])] := by decide +kernel
set_option maxRecDepth 8192 in
example : (asmRun toyCfg idT (zeros 4) (rP, Asm.init (zeros 4)) [.nextFrame, .nextRow, .nextFrame]).2.frames =
    [(1, [9, 8, 1, 2]), (0, [1, 2, 2, 3])] := by decide +kernel

/-- the theorem's instance for every interleaving on the toy APNG (its hypotheses hold) -/
example (ops : List PathOp) :
    (asmRun toyCfg idT (zeros 4) (rP, Asm.init (zeros 4)) ops).2.problem = false ∧
    ∀ k px, (k, px) ∈ (asmRun toyCfg idT (zeros 4) (rP, Asm.init (zeros 4)) ops).2.frames →
      [[1, 2, 2, 3], [9, 8, 1, 2]][k]? = some px :=
  C13_paths_agree_file toyCfg idT idT_ok idT_snapIndep {} _ {} apng2 (by decide +kernel) rP (zeros 4) _ rP_header refP ops

end Png.C13
