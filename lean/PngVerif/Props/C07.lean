import PngVerif.Proofs.Framing
import PngVerif.Proofs.FramingToy
/-!
# C07 — `StreamingDecoder::update` always makes progress

Property theorems only (lemmas: `PngVerif/Proofs/Framing.lean`), about the model of
`update` / `next_state` in `Model/Framing.lean`, for an ARBITRARY `cfg : Cfg` (no assumption on the
CRC, the inflater or the UTF-8 test), an ARBITRARY decoder value `d` and ARBITRARY bytes.

`rank d ≤ 4` orders the transitions that consume no input: pending re-parse of a chunk type that
ends a data-chunk sequence (4) > pending re-parse (3) > `ReadChunkData` with a full buffer (2) >
`ParseChunkData`, `ReadChunkData`/`ImageData` with nothing remaining (1) > everything else (0).
`mu d buf = 5·|buf| + rank d` strictly decreases with every `next_state` call.
-/
namespace Png.C07
open Png Png.Framing

/-- **Progress of one `next_state` call** on a non-empty buffer: it consumes at most the buffer; if it
    consumes nothing, the rank strictly decreases; the decoder is finished (`state = none`)
    afterwards exactly when the event is `ImageEnd`; consequently the potential strictly decreases. -/
theorem update_progress (cfg : Cfg) (d d' : Dec) (st : St) (buf : Bytes) (n : Nat) (ev : Ev)
    (hs : d.state = some st) (hbuf : buf ≠ []) (h : nextState cfg d st buf = .ok (n, ev, d')) :
    n ≤ buf.length ∧ (n = 0 → rank d' < rank d) ∧ (ev = .imageEnd ↔ d'.state = none) ∧
    mu d' (buf.drop n) < mu d buf ∧ rank d' ≤ 4 := by
  obtain ⟨h1, h2, h3, h4⟩ := nextState_progress hbuf h
  rw [withState_self hs] at h2
  exact ⟨h1, h2, ⟨h4, fun hn => Classical.byContradiction fun hne => h3 hne hn⟩, step_mu hs hbuf h, rank_le d'⟩

/-- **The fuel in the model suffices**: the loop of `update` is given `updateFuel buf = 5·|buf| + 5`;
    any larger amount gives the same result (the loop never runs dry), and already
    `5·|buf| + rank d + 1` is enough. -/
theorem update_fuel_suffices (cfg : Cfg) (d : Dec) (buf : Bytes) (f : Nat) (hf : mu d buf + 1 ≤ f) :
    updateLoop cfg f d buf 0 = updateLoop cfg (updateFuel buf) d buf 0 ∧ mu d buf + 1 ≤ updateFuel buf :=
  ⟨updateLoop_fuel cfg _ _ d buf 0 hf (updateFuel_ge d buf), updateFuel_ge d buf⟩

/-- **No spinning**: a successful `update` call on a non-empty buffer consumes at most the buffer,
    reports `Nothing` only if it consumed the whole buffer, strictly decreases the potential, and if
    it consumed nothing it reports an event and strictly decreases the rank: `(0, Nothing)` with an
    unchanged decoder cannot happen. -/
theorem update_no_spin (cfg : Cfg) (d d' : Dec) (buf : Bytes) (n : Nat) (ev : Ev) (hbuf : buf ≠ [])
    (h : update cfg d buf = (d', .ok (n, ev))) :
    n ≤ buf.length ∧ (ev = .nothing → n = buf.length) ∧ mu d' (buf.drop n) < mu d buf ∧
    (n = 0 → ev ≠ .nothing ∧ rank d' < rank d) :=
  Framing.update_no_spin cfg d d' buf n ev hbuf h

/-- a poisoned or finished decoder refuses every call with `Parameter` and stays as it is -/
theorem poisoned_refuses (cfg : Cfg) (d : Dec) (buf : Bytes) (h : d.state = none) :
    (update cfg d buf).2 = .error .parameter ∧ (update cfg d buf).1 = d :=
  Framing.poisoned_refuses cfg d buf h

/-- every error poisons the decoder -/
theorem error_poisons (cfg : Cfg) (d d' : Dec) (buf : Bytes) (e : Err) (h : update cfg d buf = (d', .error e)) :
    d'.state = none := Framing.error_poisons cfg d d' buf e h

/-- a successful call leaves the decoder usable, except that `ImageEnd` finishes it -/
theorem image_end_finishes (cfg : Cfg) (d d' : Dec) (buf : Bytes) (n : Nat) (ev : Ev)
    (h : update cfg d buf = (d', .ok (n, ev))) : (ev = .imageEnd ↔ d'.state = none) :=
  Framing.imageEnd_poisons cfg d d' buf n ev h

/-- **Linear work**: the number of `next_state` calls made by the loop of one `update` call
    (`updateLoopN` = `updateLoop` instrumented with that count) is at most `5·|buf| + rank d`, hence
    at most `5·|buf| + 4`, whatever the fuel. -/
theorem update_steps_linear (cfg : Cfg) (fuel : Nat) (d : Dec) (buf : Bytes) :
    (updateLoopN cfg fuel d buf 0).1 = updateLoop cfg fuel d buf 0 ∧
    (updateLoopN cfg fuel d buf 0).2 ≤ 5 * buf.length + rank d ∧
    (updateLoopN cfg fuel d buf 0).2 ≤ 5 * buf.length + 4 := by
  have h := updateLoopN_le cfg fuel d buf 0
  have hr := rank_le d
  simp only [mu] at h
  exact ⟨updateLoopN_fst cfg fuel d buf 0, h, by omega⟩

/-! ## non-vacuity -/
section examples
open Png.Framing.Toy

/-- signature + IHDR header in one call: four `next_state` calls, 16 bytes, `ChunkBegin` -/
example :
    (update toyCfg d0 (sig ++ ihdr)).2 = .ok (16, .chunkBegin 13 IHDR) ∧
    (updateLoopN toyCfg (updateFuel (sig ++ ihdr)) d0 (sig ++ ihdr) 0).2 = 4 ∧
    rank d0 = 0 := by
  decide +kernel

/-- a call that consumes nothing: the pending re-parse of the chunk type after the end of a
    data-chunk sequence reports `ChunkBegin` and lowers the rank from 3 to 1 -/
example :
    let d := (feedPieces toyCfg d0 [good.take 56]).1
    let r := update toyCfg d [0, 0, 0, 0]
    d.state = some (.u32 (.type 0) [73, 69, 78, 68]) ∧ r.2 = .ok (0, .chunkBegin 0 IEND) ∧
    rank d = 3 ∧ rank r.1 = 1 := by
  decide +kernel

/-- after `ImageEnd` and after an error the decoder refuses -/
example :
    let fin := (feedPieces toyCfg d0 [good]).1
    let err := update toyCfg d0 [1, 2, 3, 4]
    fin.state = none ∧ (update toyCfg fin [0]).2 = .error .parameter ∧
    err.2 = .error (.format "InvalidSignature") ∧ err.1.state = none ∧
    (update toyCfg err.1 [137]).2 = .error .parameter := by
  decide +kernel

end examples
end Png.C07
