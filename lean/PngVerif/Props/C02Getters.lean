import PngVerif.Proofs.ReaderGetters
import PngVerif.Proofs.ReaderToy
import PngVerif.Proofs.ReaderToyLate
import PngVerif.Proofs.TransformContract
import PngVerif.Proofs.TransformContractRun
/-!
# C02 — the size getters of the `Reader` do not overflow (defect D25, repair f60364d)

`Reader::output_buffer_size()` is `output_line_size(width) * height` in unchecked `usize` arithmetic
(mod.rs:659-663); the model's `outputBufferSizeGetter` returns `GRes.panic` when that product does not fit 64 bits
(`Model/Reader.lean`; sizes are `Nat` everywhere else in the model, which is why `C02_no_panic` did not see the defect).
`read_info` checked the product with the output type known after `IHDR` alone; a `tRNS` chunk widens the output pixels
under `EXPAND` / `ALPHA` (RGB16: 6 → 8 bytes), so a 0x60000000 × 0x60000000 16-bit RGB image with `tRNS` passed
`read_info` and the getter overflowed.  The repair (mirrored by `Reader.readInfo'`) checks again once the chunks before
the image data are read.

* `getters_no_overflow`: at the end of EVERY run from `Decoder::new` (`R.init`) — any growth schedule, any finite call
  sequence with at most one `read_info` — if a `Reader` exists (that is: `read_info` succeeded somewhere in the run, and
  any calls followed), `output_buffer_size()` returns `output_line_size(width) · height < 2^64` and
  `output_line_size(w)` returns a value for every `u32` argument.  Hypotheses: the contracts `TCfg.Ok` (C02) and
  `TCfg.Stable` (C05: the output type depends on the IHDR fields and `tRNS` only) of the row transformation, an input
  shorter than 4 GiB (as `C02_no_panic`).
* `getters_no_overflow_real`: the same for `Driver.realT` (`Model/Transform.lean`) without contract hypotheses.
* `C02_getter_pinned_counterexample`: with `read_info` as it was before the repair (`Reader.readInfoPinned`) the file
  of D25 is accepted and the getter panics; `d25_file_refused`: the repaired `read_info` answers `LimitsExceeded`.
* `raw_bytes_total`, `raw_bytes_pinned_counterexample`: `reader.info().raw_bytes()` (`Info::raw_bytes`, common.rs:787-790)
  was `height * raw_row_length()`, unchecked, and covered by no check of `read_info` (its checks are about
  `(row length − 1) · height`): it overflowed after a successful `read_info` (second getter defect, found while
  D25 was ported; repaired in 4faadfc by `saturating_mul`).  The model's `rawBytes` is the repaired, total function.
-/
namespace Png.C02
open Png Png.Framing Png.Reader

/-- **`read_info` checks the final output type**: the reader a successful `read_info` returns satisfies `Fits` — the
    output buffer for the `Info` it holds (all chunks before the image data read) fits `usize` -/
theorem read_info_checks_final_type (cfg : Cfg) (t : TCfg) (r r' : R) (hP : PreInv r) (hnr : r.isReader = false)
    (h : readInfo' cfg t r = (r', .header)) : Fits t r' := by
  have hs := readInfo'_spec cfg t r hP hnr
  rw [h] at hs
  rcases hs with ⟨_, _, _, _, _, hf⟩ | hs
  · exact hf
  · cases hs

/-- **`getters_no_overflow`**: for every CRC / inflater / UTF-8 parameter, every row transformation satisfying its
    contracts, every input shorter than 4 GiB, every option set, limit, transformation flags, every schedule of input
    growth and every finite sequence of public calls with at most one `read_info`: if a `Reader` exists at the end of
    the run (`read_info` succeeded, any calls followed), `output_buffer_size()` does not overflow — it returns
    `output_line_size(width) · height`, which is below 2^64 — and `output_line_size(w)` returns a value for every
    `u32` argument `w` -/
theorem getters_no_overflow (cfg : Cfg) (t : TCfg) (ht : t.Ok) (hst : t.Stable) (opts : Options) (limit : Nat)
    (flags : Flags) (input : Bytes) (visible : Nat) (ops : List Op) (hlen : input.length < 2 ^ 32)
    (hops : ops.count Op.readInfo ≤ 1) (r : R) (hrun : (run cfg t (R.init opts limit flags input visible) ops).1 = r)
    (hr : r.isReader = true) :
    (∃ i, r.dec.info = some i ∧
      outputBufferSizeGetter t r = .value (outLineSize t i r.flags i.width * i.height) ∧
      outLineSize t i r.flags i.width * i.height < 2 ^ 64) ∧
    ∀ w, w < 2 ^ 32 → ∃ n, outputLineSizeGetter t r w = .value n ∧ n < 2 ^ 64 := by
  have hG := run_getInv cfg ht hst ops _ (getInv_init t opts limit flags input visible hlen) ⟨fun h => (by cases h), hops⟩
  rw [hrun] at hG
  exact getters_of_fits ht (hG.1.dinv_of_reader hr) (hG.2 hr)

/-- no `panic` result, in the form of `C02_no_panic` -/
theorem getters_no_panic (cfg : Cfg) (t : TCfg) (ht : t.Ok) (hst : t.Stable) (opts : Options) (limit : Nat)
    (flags : Flags) (input : Bytes) (visible : Nat) (ops : List Op) (hlen : input.length < 2 ^ 32)
    (hops : ops.count Op.readInfo ≤ 1)
    (hr : (run cfg t (R.init opts limit flags input visible) ops).1.isReader = true) :
    (outputBufferSizeGetter t (run cfg t (R.init opts limit flags input visible) ops).1).isPanic = false ∧
    ∀ w, w < 2 ^ 32 → (outputLineSizeGetter t (run cfg t (R.init opts limit flags input visible) ops).1 w).isPanic = false := by
  obtain ⟨⟨i, _, h1, _⟩, h2⟩ := getters_no_overflow cfg t ht hst opts limit flags input visible ops hlen hops _ rfl hr
  refine ⟨by rw [h1]; rfl, fun w hw => ?_⟩
  obtain ⟨n, hn, _⟩ := h2 w hw
  rw [hn]; rfl

/-- **`getters_no_overflow` for the executable model's transformation** (`Driver.realT` = `Model/Transform.lean`), no
    contract hypotheses: `realT` and the patched `realTK` (which satisfies the contracts) have the same output type and
    give the same runs (`Props/TransformContract.lean`) -/
theorem getters_no_overflow_real (cfg : Cfg) (opts : Options) (limit : Nat) (flags : Flags) (input : Bytes)
    (visible : Nat) (ops : List Op) (hlen : input.length < 2 ^ 32) (hops : ops.count Op.readInfo ≤ 1)
    (hr : (run cfg Driver.realT (R.init opts limit flags input visible) ops).1.isReader = true) :
    (outputBufferSizeGetter Driver.realT (run cfg Driver.realT (R.init opts limit flags input visible) ops).1).isPanic = false ∧
    ∀ w, w < 2 ^ 32 →
      (outputLineSizeGetter Driver.realT (run cfg Driver.realT (R.init opts limit flags input visible) ops).1 w).isPanic = false := by
  have hrun := run_agree Driver.realT_agree cfg _ (ki_init opts limit flags input visible) ops
  rw [← hrun] at hr ⊢
  exact getters_no_panic cfg Driver.realTK Driver.realTK_ok Driver.realTK_stable opts limit flags input visible ops hlen hops hr

/-! ## The pinned tree: `read_info` with the first check only -/

open Png.Framing.Toy Png.Reader.Toy

/-- `IHDR` of a 0x60000000 × 0x60000000 16-bit RGB image (toy CRC) -/
def ihdrD25 : Bytes := [0, 0, 0, 13, 73, 72, 68, 82,  0x60, 0, 0, 0,  0x60, 0, 0, 0,  16, 2, 0, 0, 0,  0, 0, 0, 0]
/-- `tRNS` for an RGB image: the colour (1, 2, 3) is transparent -/
def trnsRgb : Bytes := [0, 0, 0, 6, 116, 82, 78, 83,  0, 1, 0, 2, 0, 3,  0, 0, 0, 0]
/-- the file of D25 (toy CRC, toy image data: `read_info` parses the headers only) -/
def d25File : Bytes := sig ++ ihdrD25 ++ trnsRgb ++ idat1 ++ iend
/-- the same image without `tRNS` -/
def d25NoTrns : Bytes := sig ++ ihdrD25 ++ idat1 ++ iend

def fExpand : Flags := { expand := true }

/-- the `Decoder` of the D25 reproduction: `Limits { bytes: usize::MAX }`, `EXPAND` -/
def decD25 (file : Bytes) : R := R.init {} (2 ^ 64 - 1) fExpand file file.length

/-- **the defect on the pinned tree (D25)**: `read_info` as it was before the repair accepts the file — its only check
    sees the 6-byte RGB16 pixels of the `IHDR`: 6 · 0x60000000² < 2^64 — and `output_buffer_size()` of the reader it
    returns panics: the `tRNS` chunk made the output RGBA16, 8 · 0x60000000² ≥ 2^64.  `output_line_size(width)` is
    fine (8 · 0x60000000).  Transformation: the model of `transform.rs` the driver runs. -/
theorem C02_getter_pinned_counterexample :
    (readInfoPinned toyCfg Driver.realT (decD25 d25File)).2 = .header ∧
    outputBufferSizeGetter Driver.realT (readInfoPinned toyCfg Driver.realT (decD25 d25File)).1 =
      .panic "attempt to multiply with overflow: size * height (mod.rs:662)" ∧
    outputLineSizeGetter Driver.realT (readInfoPinned toyCfg Driver.realT (decD25 d25File)).1 0x60000000 =
      .value (8 * 0x60000000) := by
  refine ⟨?_, ?_, ?_⟩ <;> decide +kernel

/-- **the repaired `read_info` refuses the file of D25** with `LimitsExceeded`; no `Reader` exists afterwards -/
theorem d25_file_refused :
    (readInfo toyCfg Driver.realT (decD25 d25File)).2 = .err .limits "LimitsExceeded" ∧
    (readInfo toyCfg Driver.realT (decD25 d25File)).1.isReader = false ∧
    (readInfo toyCfg Driver.realT (decD25 d25File)).1.dead = true := by
  refine ⟨?_, ?_, ?_⟩ <;> decide +kernel

/-- the second check is not over-eager: the same image WITHOUT `tRNS` (output stays RGB16, 6 bytes per pixel) is
    accepted by the repaired `read_info`, and `output_buffer_size()` returns 6 · 0x60000000² -/
theorem d25_without_trns_accepted :
    (readInfo toyCfg Driver.realT (decD25 d25NoTrns)).2 = .header ∧
    outputBufferSizeGetter Driver.realT (readInfo toyCfg Driver.realT (decD25 d25NoTrns)).1 =
      .value (6 * 0x60000000 * 0x60000000) := by
  refine ⟨?_, ?_⟩ <;> decide +kernel

/-- on inputs the second check accepts the two versions of `read_info` agree (here: the image without `tRNS`) -/
example : (readInfoPinned toyCfg Driver.realT (decD25 d25NoTrns)).2 = (readInfo toyCfg Driver.realT (decD25 d25NoTrns)).2 ∧
    outputBufferSizeGetter Driver.realT (readInfoPinned toyCfg Driver.realT (decD25 d25NoTrns)).1 =
      outputBufferSizeGetter Driver.realT (readInfo toyCfg Driver.realT (decD25 d25NoTrns)).1 := by
  refine ⟨?_, ?_⟩ <;> decide +kernel

/-! ## `Info::raw_bytes()` -/

/-- **`raw_bytes()` is total** (repair 4faadfc): the model's `rawBytes` has no panic site; its value is the product when
    that fits `usize`, and `usize::MAX` otherwise -/
theorem raw_bytes_total (i : Info) :
    rawBytes i < 2 ^ 64 ∧
    (i.height * rawRowLengthFromWidth i.color i.depth i.width < 2 ^ 64 →
      rawBytes i = i.height * rawRowLengthFromWidth i.color i.depth i.width) := by
  unfold rawBytes
  refine ⟨?_, fun h => ?_⟩
  · have : min (i.height * rawRowLengthFromWidth i.color i.depth i.width) (2 ^ 64 - 1) ≤ 2 ^ 64 - 1 := Nat.min_le_right _ _
    omega
  · exact Nat.min_eq_left (by omega)

/-- `IHDR` of a 2474701804 × 3727064013 16-bit grayscale image (toy CRC) -/
def ihdrRawBytes : Bytes :=
  [0, 0, 0, 13, 73, 72, 68, 82,  0x93, 0x80, 0xF3, 0xEC,  0xDE, 0x26, 0x7B, 0xCD,  16, 0, 0, 0, 0,  0, 0, 0, 0]
def rawBytesFile : Bytes := sig ++ ihdrRawBytes ++ idat1 ++ iend
/-- the reader `read_info` returns for that file: no transformation, `Limits { usize::MAX }` -/
def rawBytesReader : R := (readInfo toyCfg Driver.realT (R.init {} (2 ^ 64 - 1) {} rawBytesFile rawBytesFile.length)).1

/-- **the second getter defect on the pinned tree** (`Info::raw_bytes` before 4faadfc: `height * raw_row_length()`,
    unchecked, covered by no check of `read_info`).  16-bit grayscale, 2474701804 × 3727064013: `read_info` — the
    REPAIRED one of f60364d — succeeds: its checks are about `(row length − 1) · height` = 2 · 2474701804 · 3727064013
    < 2^64, and `output_buffer_size()` returns that value; the old `raw_bytes()`, which counts the filter byte of every
    row, overflows: (2 · 2474701804 + 1) · 3727064013 ≥ 2^64.  The repaired accessor returns `usize::MAX`. -/
theorem raw_bytes_pinned_counterexample :
    (readInfo toyCfg Driver.realT (R.init {} (2 ^ 64 - 1) {} rawBytesFile rawBytesFile.length)).2 = .header ∧
    outputBufferSizeGetter Driver.realT rawBytesReader = .value (2 * 2474701804 * 3727064013) ∧
    rawBytesPinnedGetter rawBytesReader =
      .panic "attempt to multiply with overflow: height * raw_row_length (common.rs:788)" ∧
    rawBytesGetter rawBytesReader = .value (2 ^ 64 - 1) := by
  refine ⟨?_, ?_, ?_, ?_⟩ <;> decide +kernel

/-! ## Non-vacuity -/

/-- the contracts are satisfiable (the identity transformation) -/
example : idT.Ok ∧ idT.Stable := ⟨idT_ok, ToyLate.idT_stable⟩

/-- a run in which a `Reader` exists at the end: the instance of the theorem, and the value the getter returns -/
example : (run toyCfg idT (a0 100) [.readInfo, .nextFrame 0, .grow 30, .nextFrame 0, .nextFrameInfo, .finish]).1.isReader = true := by
  decide +kernel
example : outputBufferSizeGetter idT
    (run toyCfg idT (a0 100) [.readInfo, .nextFrame 0, .grow 30, .nextFrame 0, .nextFrameInfo, .finish]).1 = .value 1 := by
  decide +kernel
example : (outputBufferSizeGetter idT
    (run toyCfg idT (a0 100) [.readInfo, .nextFrame 0, .grow 30, .nextFrame 0, .nextFrameInfo, .finish]).1).isPanic = false :=
  (getters_no_panic toyCfg idT idT_ok ToyLate.idT_stable {} _ {} apng 100 _ (by decide +kernel) (by decide +kernel) (by decide +kernel)).1

/-- a getter of a reader that does not exist (no `read_info` yet): the model answers with the `info().unwrap()` panic —
    Rust's type system excludes the call (`Decoder` has no such method); hence the hypothesis `isReader = true` -/
example : (outputBufferSizeGetter idT (r0 0)).isPanic = true := by decide +kernel

end Png.C02
