import PngVerif.Proofs.Filter
import PngVerif.Proofs.FilterImpl
/-!
# C14 — Scanline filters match the specification and are exact inverses

Property theorems only (helper lemmas live in `PngVerif/Proofs/Filter.lean` and
`PngVerif/Proofs/FilterImpl.lean`).  Every statement is
universally quantified over all bytes / all rows / all lengths; nothing here is bounded.
-/
namespace Png.C14

/-- `filter_paeth` (the `i16` running-minimum form) is the specification's predictor on all 2^24 triples. -/
theorem paeth_A (a b c : UInt8) : paethA a b c = paethSpec a b c := paethA_eq_spec a b c
/-- `filter_paeth_stbi` (the decoder's form on x86_64) is the specification's predictor. -/
theorem paeth_stbi (a b c : UInt8) : paethStbi a b c = paethSpec a b c := paethStbi_eq_spec a b c
/-- `filter_paeth_fpnge` (the encoder's unsigned 8-bit form) is the specification's predictor. -/
theorem paeth_fpnge (a b c : UInt8) : paethFpnge a b c = paethSpec a b c := paethFpnge_eq_spec a b c

/-- the specification's predictor on bytes agrees with the integer formula (no truncation) -/
theorem paeth_spec_int (a b c : UInt8) :
    ((paethSpec a b c).toNat : Int) = paethSpecInt a.toNat b.toNat c.toNat := paethSpec_toNat a b c

/-- the encoder's bitwise Average is the floor of half the 9-bit sum -/
theorem avg_bitwise (a b : UInt8) : avgBitwise a b = ((a.toNat + b.toNat) / 2).toUInt8 := avgBitwise_eq a b

/-- reconstruction inverts filtering: every filter type, every bpp, every prior row, every length -/
theorem recon_filt (ft : FilterType) (bpp : Nat) (prior row : Bytes) :
    reconRow ft bpp prior (filtRow ft bpp prior row) = row := reconRow_filtRow ft bpp prior row

/-- filtering inverts reconstruction -/
theorem filt_recon (ft : FilterType) (bpp : Nat) (prior row : Bytes) :
    filtRow ft bpp prior (reconRow ft bpp prior row) = row := filtRow_reconRow ft bpp prior row

/-- first row of an image or pass: an absent prior row is an all-zero prior row -/
theorem first_row (ft : FilterType) (bpp : Nat) (row : Bytes) :
    reconRow ft bpp [] row = reconRow ft bpp (List.replicate row.length 0) row := reconRow_first ft bpp row

/-- reconstruction preserves the row length -/
theorem recon_len (ft : FilterType) (bpp : Nat) (prior row : Bytes) :
    (reconRow ft bpp prior row).length = row.length := recon_length _ _ _ _ _

-- non-vacuity: concrete rows exercise every theorem above on non-trivial values
example : reconRow .paeth 2 [10, 20, 30, 40] (filtRow .paeth 2 [10, 20, 30, 40] [1, 2, 250, 251]) = [1, 2, 250, 251] := by
  decide
example : paethSpec 10 20 15 = 15 ∧ paethSpec 0 255 0 = 255 ∧ paethSpec 7 7 7 = 7 := by decide
example : filtRow .avg 1 [255, 255] [255, 255] ≠ [255, 255] := by decide

/-! ## The implementation-shaped functions equal the specification -/

/-- `unfilter` (filter.rs:405-897: first-row substitution, `reduce` for bpp = 1, per-`bpp` chunk
    loops carrying the previous output chunk and previous above-chunk) computes exactly the
    specification's reconstruction: every filter type, every `bpp ≥ 1` (in particular the six
    `BytesPerPixel` values), every row length that is a multiple of `bpp`, previous row absent
    (first row of an image or pass) or of the same length. -/
theorem unfilter_impl_eq_spec (ft : FilterType) (bpp : Nat) (hb : 1 ≤ bpp) (prev cur : Bytes)
    (hdvd : bpp ∣ cur.length) (hprev : prev = [] ∨ prev.length = cur.length) :
    unfilterImpl ft bpp prev cur = reconRow ft bpp prev cur :=
  unfilterImpl_eq_spec ft bpp hb prev cur hdvd hprev

/-- what `unfilter` does with a row whose length is not a multiple of `bpp` (never produced by the
    decoder): whole pixels as specified, the trailing `len % bpp` bytes untouched (all types but
    `Up`, which has no chunking and is covered for every length by `unfilter_impl_up`). -/
theorem unfilter_impl_remainder (ft : FilterType) (hft : ft ≠ .up) (bpp : Nat) (hb : 1 ≤ bpp)
    (prev cur : Bytes) (hprev : prev = [] ∨ prev.length = cur.length) :
    unfilterImpl ft bpp prev cur
      = reconRow ft bpp prev (cur.take (cur.length / bpp * bpp))
        ++ cur.drop (cur.length - cur.length % bpp) :=
  unfilterImpl_remainder ft hft bpp hb prev cur hprev

/-- `Up` is byte-wise: specification for every length -/
theorem unfilter_impl_up (bpp : Nat) (prev cur : Bytes) (hprev : prev = [] ∨ prev.length = cur.length) :
    unfilterImpl .up bpp prev cur = reconRow .up bpp prev cur := unfilterImpl_up bpp prev cur hprev

/-- `unfilter` never changes the row length (all inputs) -/
theorem unfilter_impl_length (ft : FilterType) (bpp : Nat) (prev cur : Bytes) :
    (unfilterImpl ft bpp prev cur).length = cur.length := unfilterImpl_length ft bpp prev cur

/-- `filter_internal` (filter.rs:899-1036: leading `bpp` bytes, body over shifted slices, bitwise
    average, `filter_paeth_fpnge`) computes exactly the specification's filtering: all five types,
    `1 ≤ bpp ≤ len`, previous row of the same length (as at every call site). -/
theorem filter_impl_eq_spec (ft : FilterType) (bpp : Nat) (hb : 1 ≤ bpp) (prev cur : Bytes)
    (hle : bpp ≤ cur.length) (hprev : prev.length = cur.length) :
    filterImpl ft bpp prev cur = filtRow ft bpp prev cur :=
  filterImpl_eq_spec ft bpp hb prev cur hle hprev

/-- the adaptive filter returns one of Sub, Up, Avg, Paeth (never `NoFilter`) together with
    `filter_internal` of that type -/
theorem adaptive_legal (bpp : Nat) (prev cur : Bytes) :
    ((adaptive bpp prev cur).1 = .sub ∨ (adaptive bpp prev cur).1 = .up ∨
      (adaptive bpp prev cur).1 = .avg ∨ (adaptive bpp prev cur).1 = .paeth) ∧
    (adaptive bpp prev cur).2 = filterImpl (adaptive bpp prev cur).1 bpp prev cur :=
  Png.adaptive_legal bpp prev cur

/-- whatever the adaptive filter emits, the specification's reconstruction with the returned type
    gives back the raw row -/
theorem adaptive_reversible (bpp : Nat) (hb : 1 ≤ bpp) (prev cur : Bytes) (hle : bpp ≤ cur.length)
    (hprev : prev.length = cur.length) :
    reconRow (adaptive bpp prev cur).1 bpp prev (adaptive bpp prev cur).2 = cur :=
  Png.adaptive_reversible bpp hb prev cur hle hprev

/-- the adaptive choice minimises `sum_buffer` over the four candidates and, among minimisers, is
    the last in the order Sub, Up, Avg, Paeth (`<=` in filter.rs:1056) -/
theorem adaptive_choice (bpp : Nat) (prev cur : Bytes) (ft : FilterType) (hft : ft ≠ .none) :
    sumBuffer (filterImpl (adaptive bpp prev cur).1 bpp prev cur) ≤ sumBuffer (filterImpl ft bpp prev cur) ∧
    (sumBuffer (filterImpl ft bpp prev cur) = sumBuffer (filterImpl (adaptive bpp prev cur).1 bpp prev cur) →
      ft.toNat ≤ (adaptive bpp prev cur).1.toNat) :=
  Png.adaptive_choice bpp prev cur ft hft

/-- `sum_buffer` = Σ |b as i8| (and ≤ 128·len, so the `u64` saturating adds never saturate) -/
theorem sum_buffer_spec (buf : Bytes) :
    sumBuffer buf = sumAbsSpec buf ∧ sumBuffer buf ≤ 128 * buf.length :=
  ⟨sumBuffer_spec buf, sumBuffer_le buf⟩

-- non-vacuity for the implementation-shaped theorems: hypotheses hold on non-trivial rows and the
-- two sides are non-trivial values
example : (3 ∣ ([9, 8, 7, 6, 5, 4] : Bytes).length) ∧
    unfilterImpl .paeth 3 [1, 2, 3, 250, 251, 252] [9, 8, 7, 6, 5, 4] = [10, 10, 10, 0, 0, 0] ∧
    reconRow .paeth 3 [1, 2, 3, 250, 251, 252] [9, 8, 7, 6, 5, 4] = [10, 10, 10, 0, 0, 0] := by decide
example : unfilterImpl .avg 1 [] [200, 100, 50] = reconRow .avg 1 [] [200, 100, 50] ∧
    reconRow .avg 1 [] [200, 100, 50] = [200, 200, 150] := by decide
-- a row of 5 bytes with bpp = 2: the last byte is left as it was
example : unfilterImpl .sub 2 [] [1, 2, 3, 4, 77] = [1, 2, 4, 6, 77] ∧
    reconRow .sub 2 [] [1, 2, 3, 4, 77] = [1, 2, 4, 6, 81] := by decide
example : filterImpl .avg 2 [10, 20, 30, 40] [1, 2, 250, 251] = filtRow .avg 2 [10, 20, 30, 40] [1, 2, 250, 251] ∧
    filtRow .avg 2 [10, 20, 30, 40] [1, 2, 250, 251] = [252, 248, 235, 230] := by decide
-- ties go to the later candidate: an all-zero row over an all-zero row filters to zeros under all
-- four types and Paeth is returned; here Avg wins strictly
example : adaptive 1 [0, 0, 0, 0] [0, 0, 0, 0] = (.paeth, [0, 0, 0, 0]) := by decide
example : adaptive 1 [10, 60, 20, 90] [12, 50, 30, 70] = (.avg, [7, 14, 251, 10]) := by decide
example : adaptive 2 [10, 60, 20, 90, 7, 7] [12, 50, 30, 70, 9, 200] = (.up, [2, 246, 10, 236, 2, 193]) := by decide
example : sumBuffer [252, 4, 128, 0] = 4 + 4 + 128 + 0 ∧ sumAbsSpec [252, 4, 128, 0] = 136 := by decide

end Png.C14
