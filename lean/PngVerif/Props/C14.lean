import PngVerif.Proofs.Filter
/-!
# C14 — Scanline filters match the specification and are exact inverses

Property theorems only (helper lemmas live in `PngVerif/Proofs/Filter.lean`).  Every statement is
universally quantified over all bytes / all rows / all lengths; nothing here is bounded.
-/
namespace Png.C14

/-- `filter_paeth` (the `i16` running-minimum form) is the specification's predictor on all 2^24 triples. -/
theorem paeth_A (a b c : UInt8) : paethA a b c = paethSpec a b c := paethA_eq_spec a b c
/-- `filter_paeth_stbi` (the decoder's form on x86_64) is the specification's predictor. -/
theorem paeth_stbi (a b c : UInt8) : paethStbi a b c = paethSpec a b c := paethStbi_eq_spec a b c
/-- `filter_paeth_fpnge` (the encoder's unsigned 8-bit form) is the specification's predictor. -/
theorem paeth_fpnge (a b c : UInt8) : paethFpnge a b c = paethSpec a b c := paethFpnge_eq_spec a b c

/-- the specification's predictor on bytes agrees with the integer formula (no truncation) -/
theorem paeth_spec_int (a b c : UInt8) :
    ((paethSpec a b c).toNat : Int) = paethSpecInt a.toNat b.toNat c.toNat := paethSpec_toNat a b c

/-- the encoder's bitwise Average is the floor of half the 9-bit sum -/
theorem avg_bitwise (a b : UInt8) : avgBitwise a b = ((a.toNat + b.toNat) / 2).toUInt8 := avgBitwise_eq a b

/-- reconstruction inverts filtering: every filter type, every bpp, every prior row, every length -/
theorem recon_filt (ft : FilterType) (bpp : Nat) (prior row : Bytes) :
    reconRow ft bpp prior (filtRow ft bpp prior row) = row := reconRow_filtRow ft bpp prior row

/-- filtering inverts reconstruction -/
theorem filt_recon (ft : FilterType) (bpp : Nat) (prior row : Bytes) :
    filtRow ft bpp prior (reconRow ft bpp prior row) = row := filtRow_reconRow ft bpp prior row

/-- first row of an image or pass: an absent prior row is an all-zero prior row -/
theorem first_row (ft : FilterType) (bpp : Nat) (row : Bytes) :
    reconRow ft bpp [] row = reconRow ft bpp (List.replicate row.length 0) row := reconRow_first ft bpp row

/-- reconstruction preserves the row length -/
theorem recon_len (ft : FilterType) (bpp : Nat) (prior row : Bytes) :
    (reconRow ft bpp prior row).length = row.length := recon_length _ _ _ _ _

-- non-vacuity: concrete rows exercise every theorem above on non-trivial values
example : reconRow .paeth 2 [10, 20, 30, 40] (filtRow .paeth 2 [10, 20, 30, 40] [1, 2, 250, 251]) = [1, 2, 250, 251] := by
  decide
example : paethSpec 10 20 15 = 15 ∧ paethSpec 0 255 0 = 255 ∧ paethSpec 7 7 7 = 7 := by decide
example : filtRow .avg 1 [255, 255] [255, 255] ≠ [255, 255] := by decide

end Png.C14
