import PngVerif.Generated.KernelsAdam7Iter
import PngVerif.Model.Adam7
import PngVerif.Proofs.Adam7
import PngVerif.Proofs.KernelTactic
import PngVerif.Props.KernelsAdam7
/-!
# Tie A, part 2 (translator): the Adam7 row iterator of `src/adam7.rs`

`Generated/KernelsAdam7Iter.lean` is rewritten by `tools/rs2lean.py` from `/repo/src/adam7.rs` on every run:
* `Adam7Iterator::new` — the struct literal, the call `this.init_pass()` (the translated `Adam7Iterator_init_pass` applied to the fields the
  literal set) and the returned struct as the tuple `(width, height, current_pass, line_width, lines, line)`.
* `Iterator::next for Adam7Iterator` — ONE STEP of the function: `(tag, item.pass, item.line, item.width, line, lines, line_width,
  current_pass)` with tag 1 = `Some(Adam7Info {..})`, 0 = `None`, 2 = the recursive call `self.next()` (the only shape of recursion the
  translator accepts: the call is the value of the function, on the same `self`); the last four components are the state the step leaves.
  `Adam7Iterator_next_rec fuel` (generated as well) follows that call at most `fuel` times.

Proved here, for ALL `u32` widths and heights: from every state the model calls well-formed the translated `next` with fuel `≥ 7 - pass`
is the model's `Iter.next` (item, successor state, `None`), never ends with tag 2 and never overflows; `new` is the model's `Iter.new`;
hence the items obtained by iterating the translated step from the translated `new(w, h)` are the model's `iterRows w h`, which
`Proofs/Adam7.lean` proves equal to the specification's `specRows w h` (passes 1..7 in order, lines in order, empty passes skipped).
-/
namespace Png.Kernels
open Png Png.Adam7

/-- the items the TRANSLATED iterator yields from a state `(width, height, current_pass, line_width, lines, line)`: `next` (its
    recursion followed up to 6 times) until it does not give an item, at most `n` items -/
def genCollect : Nat → Int × Int × Int × Int × Int × Int → List (Int × Int × Int)
  | 0, _ => []
  | n + 1, (w, h, p, lw, ls, l) =>
    let r := Gen.Adam7Iterator_next_rec 6 w h p lw ls l
    if r.1 = 1 then (r.2.1, r.2.2.1, r.2.2.2.1) :: genCollect n (w, h, r.2.2.2.2.2.2.2, r.2.2.2.2.2.2.1, r.2.2.2.2.2.1, r.2.2.2.2.1) else []

/-- every call of `genCollect` is `_ok`, and the run ends with `None` (tag 0), not with an unfinished recursion (tag 2) -/
def genCollectOk : Nat → Int × Int × Int × Int × Int × Int → Bool
  | 0, _ => true
  | n + 1, (w, h, p, lw, ls, l) =>
    let r := Gen.Adam7Iterator_next_rec 6 w h p lw ls l
    Gen.Adam7Iterator_next_rec_ok 6 w h p lw ls l &&
      (if r.1 = 1 then genCollectOk n (w, h, r.2.2.2.2.2.2.2, r.2.2.2.2.2.2.1, r.2.2.2.2.2.1, r.2.2.2.2.1) else decide (r.1 = 0))

/-- the first `n` items of the translated `Adam7Iterator::new(w, h)` -/
def genRows (n : Nat) (w h : Int) : List (Int × Int × Int) := genCollect n (Gen.Adam7Iterator_new w h)

def genRowsOk (n : Nat) (w h : Int) : Bool := Gen.Adam7Iterator_new_ok w h && genCollectOk n (Gen.Adam7Iterator_new w h)

/-- a model state as the arguments of the generated functions -/
def encIter (it : Iter) : Int × Int × Int × Int × Int × Int :=
  ((it.width : Int), (it.height : Int), (it.pass : Int), (it.lineWidth : Int), (it.lines : Int), (it.line : Int))

def castRow (r : Nat × Nat × Nat) : Int × Int × Int := ((r.1 : Int), (r.2.1 : Int), (r.2.2 : Int))

/-- splits the `if`s of a generated step and closes every branch with linear arithmetic -/
macro "step_close" : tactic =>
  `(tactic| (repeat' split
             all_goals (first | omega | (simp_all <;> omega))))

theorem passH_lt (h p : Nat) (hh : h < 2 ^ 32) (hp : 1 ≤ p ∧ p ≤ 7) : passH h p < 2 ^ 32 :=
  Nat.lt_of_le_of_lt (dim_le _ _ _ (step_pos hp).2) hh

/-- `Adam7Iterator::new`, as translated, is the model's `Iter.new` for every `u32` width and height, and does not panic -/
theorem kernel_adam7_new (w h : Nat) (hw : w < 2 ^ 32) (hh : h < 2 ^ 32) :
    Gen.Adam7Iterator_new w h = encIter (Iter.new w h) ∧ Gen.Adam7Iterator_new_ok w h = true := by
  have hk := kernel_init_pass w h 1 hw hh (by omega)
  push_cast at hk
  simp [Gen.Adam7Iterator_new, Gen.Adam7Iterator_new_ok, hk.1, hk.2, encIter, Iter.new, Iter.initPass]

/-- ONE STEP of the translated `next` on a state with pass in 1..7 and `lines` a `u32`: an item and `line + 1`, or the advance to the
    next pass (`init_pass` of pass + 1, tag 2 = the recursive call), or `None` in pass 7; no overflow -/
theorem kernel_adam7_step (w h p lw ls l : Nat) (hw : w < 2 ^ 32) (hh : h < 2 ^ 32) (hp : 1 ≤ p ∧ p ≤ 7) (hls : ls < 2 ^ 32) :
    Gen.Adam7Iterator_next w h p lw ls l =
      (if l < ls ∧ lw > 0 then ((1 : Int), (p : Int), (l : Int), (lw : Int), ((l + 1 : Nat) : Int), (ls : Int), (lw : Int), (p : Int))
       else if p < 7 then ((2 : Int), (0 : Int), (0 : Int), (0 : Int), (0 : Int), ((passH h (p + 1) : Nat) : Int), ((passW w (p + 1) : Nat) : Int), ((p + 1 : Nat) : Int))
       else ((0 : Int), (0 : Int), (0 : Int), (0 : Int), (l : Int), (ls : Int), (lw : Int), (p : Int))) ∧
    Gen.Adam7Iterator_next_ok w h p lw ls l = true := by
  have hk : p < 7 → Gen.Adam7Iterator_init_pass w h ((p : Int) + 1) = (((passW w (p + 1) : Nat) : Int), ((passH h (p + 1) : Nat) : Int), (0 : Int)) ∧
      Gen.Adam7Iterator_init_pass_ok w h ((p : Int) + 1) = true := by
    intro h7
    have := kernel_init_pass w h (p + 1) hw hh (by omega)
    push_cast at this
    exact this
  by_cases h7 : p < 7
  · have hk1 := (hk h7).1
    have hk2 := (hk h7).2
    constructor
    · simp only [Gen.Adam7Iterator_next, hk1, decide_eq_true_eq, Bool.and_eq_true]
      push_cast
      step_close
    · simp only [Gen.Adam7Iterator_next_ok, hk2, decide_eq_true_eq, Bool.and_eq_true]
      step_close
  · constructor
    · simp only [Gen.Adam7Iterator_next, decide_eq_true_eq, Bool.and_eq_true]
      step_close
    · simp only [Gen.Adam7Iterator_next_ok, decide_eq_true_eq, Bool.and_eq_true]
      step_close

/-- the translated `next` with its recursion followed `n ≥ 7 - pass` times is the model's `Iter.next` with fuel `n + 1`: the same item
    and successor state, or `None` (tag 0); it never ends inside the recursion (tag 2), and every step is `_ok` -/
theorem kernel_adam7_next (w h : Nat) (hw : w < 2 ^ 32) (hh : h < 2 ^ 32) : ∀ (n : Nat) (it : Iter), it.wf w h → 7 - it.pass ≤ n →
    (match it.next (n + 1) with
     | none => (Gen.Adam7Iterator_next_rec n w h it.pass it.lineWidth it.lines it.line).1 = 0
     | some (info, it') =>
        Gen.Adam7Iterator_next_rec n w h it.pass it.lineWidth it.lines it.line =
          ((1 : Int), (info.pass : Int), (info.line : Int), (info.width : Int), (it'.line : Int), (it'.lines : Int), (it'.lineWidth : Int), (it'.pass : Int))
        ∧ it'.width = w ∧ it'.height = h) ∧
    Gen.Adam7Iterator_next_rec_ok n w h it.pass it.lineWidth it.lines it.line = true := by
  intro n
  induction n with
  | zero =>
    intro it hwf hf
    obtain ⟨hwd, hht, hp1, hp7, hl, hlw⟩ := hwf
    have hls : it.lines < 2 ^ 32 := by rw [hl]; exact passH_lt h it.pass hh ⟨hp1, hp7⟩
    have hs := kernel_adam7_step w h it.pass it.lineWidth it.lines it.line hw hh ⟨hp1, hp7⟩ hls
    have hp : ¬ it.pass < 7 := by omega
    simp only [Gen.Adam7Iterator_next_rec, Gen.Adam7Iterator_next_rec_ok, hs.1, hs.2, Iter.next]
    by_cases hc : it.line < it.lines ∧ it.lineWidth > 0
    · simp [hc, hwd, hht]
    · simp [hc, hp]
  | succ n ih =>
    intro it hwf hf
    obtain ⟨hwd, hht, hp1, hp7, hl, hlw⟩ := hwf
    have hls : it.lines < 2 ^ 32 := by rw [hl]; exact passH_lt h it.pass hh ⟨hp1, hp7⟩
    have hs := kernel_adam7_step w h it.pass it.lineWidth it.lines it.line hw hh ⟨hp1, hp7⟩ hls
    rw [Gen.Adam7Iterator_next_rec, Gen.Adam7Iterator_next_rec_ok, hs.1, hs.2, Iter.next]
    by_cases hc : it.line < it.lines ∧ it.lineWidth > 0
    · simp [hc, hwd, hht]
    · by_cases hp : it.pass < 7
      · have hwf' : (Iter.initPass { it with pass := it.pass + 1 }).wf w h := by
          refine ⟨hwd, hht, ?_, ?_, ?_, ?_⟩ <;> simp [Iter.initPass, hwd, hht] <;> omega
        have := ih (Iter.initPass { it with pass := it.pass + 1 }) hwf' (by simp [Iter.initPass]; omega)
        simp only [Iter.initPass, hwd, hht] at this
        push_cast at this
        simp only [hc, hp, if_true, if_false, Bool.true_and, Iter.initPass, hwd, hht]
        push_cast
        exact this
      · simp [hc, hp]

/-- iterating the translated step from a well-formed state gives the model's `collect` -/
theorem kernel_adam7_collect (w h : Nat) (hw : w < 2 ^ 32) (hh : h < 2 ^ 32) : ∀ (n : Nat) (it : Iter), it.wf w h →
    genCollect n (encIter it) = (it.collect n).map castRow ∧ genCollectOk n (encIter it) = true := by
  intro n
  induction n with
  | zero => intro it _; simp [genCollect, genCollectOk, Iter.collect]
  | succ n ih =>
    intro it hwf
    have hk := kernel_adam7_next w h hw hh 6 it hwf (by have := hwf.2.2.1; omega)
    have hsp := next_spec w h 7 it hwf (by have := hwf.2.2.1; omega)
    obtain ⟨hwd, hht, -⟩ := hwf
    simp only [encIter, genCollect, genCollectOk, Iter.collect, nextFuel, hwd, hht]
    revert hk hsp
    cases it.next 7 with
    | none =>
      intro hk _
      simp [hk.1, hk.2]
    | some q =>
      obtain ⟨info, it'⟩ := q
      intro hk hsp
      have := ih it' hsp.2
      simp only [encIter, hk.1.2.1, hk.1.2.2] at this
      simp [hk.1.1, hk.2, this.1, this.2, castRow]

/-- MAIN THEOREM of the group: for every `u32` width and height the first `n` items of the translated iterator (`new`, then `next`
    with its recursion) are the first `n` of the model's iterator, i.e. of the specification's row list; no step overflows or panics -/
theorem kernel_adam7_rows (w h : Nat) (hw : w < 2 ^ 32) (hh : h < 2 ^ 32) (n : Nat) :
    genRows n w h = (iterRowsFuel n w h).map castRow ∧ genRows n w h = ((specRows w h).take n).map castRow ∧ genRowsOk n w h = true := by
  have hn := kernel_adam7_new w h hw hh
  have hc := kernel_adam7_collect w h hw hh n (Iter.new w h) (new_wf w h)
  refine ⟨?_, ?_, ?_⟩
  · rw [genRows, hn.1, hc.1, iterRowsFuel]
  · rw [genRows, hn.1, hc.1, ← iterRowsFuel, iterRowsFuel_eq]
  · rw [genRowsOk, hn.1, hn.2, hc.2]; rfl

/-- with `7 * h` items (a bound on their number) the translated iterator yields exactly `iterRows w h` = `specRows w h`, then `None` -/
theorem kernel_adam7_all_rows (w h : Nat) (hw : w < 2 ^ 32) (hh : h < 2 ^ 32) :
    genRows (7 * h) w h = (iterRows w h).map castRow ∧ genRows (7 * h) w h = (specRows w h).map castRow ∧
    genRows (7 * h + 1) w h = (specRows w h).map castRow ∧ genRowsOk (7 * h + 1) w h = true := by
  have h1 := kernel_adam7_rows w h hw hh (7 * h)
  have h2 := kernel_adam7_rows w h hw hh (7 * h + 1)
  have hl := specRows_length_le w h
  refine ⟨by rw [h1.1, iterRows], ?_, ?_, h2.2.2⟩
  · rw [h1.2.1, List.take_of_length_le hl]
  · rw [h2.2.1, List.take_of_length_le (by omega)]

example : genRows 100 3 5 = [(1, 0, 1), (3, 0, 1), (4, 0, 1), (4, 1, 1), (5, 0, 2), (6, 0, 1), (6, 1, 1), (6, 2, 1), (7, 0, 3), (7, 1, 3)] := by decide
example : genRowsOk 100 3 5 = true ∧ genRows 5 1 1 = [(1, 0, 1)] ∧ genRows 5 0 9 = [] ∧ genRows 3 9 9 = [(1, 0, 2), (1, 1, 2), (2, 0, 1)] := by decide
example : Gen.Adam7Iterator_new 8 8 = (8, 8, 1, 1, 1, 0) := by rfl
example : Gen.Adam7Iterator_next 8 8 1 1 1 1 = (2, 0, 0, 0, 0, 1, 1, 2) := by rfl
example : Gen.Adam7Iterator_next 8 8 7 8 4 4 = (0, 0, 0, 0, 4, 4, 8, 7) := by rfl
example : Gen.Adam7Iterator_next 8 8 7 8 4 3 = (1, 7, 3, 8, 4, 4, 8, 7) := by rfl
example : Gen.Adam7Iterator_next_rec 6 1 1 1 1 1 1 = (0, 0, 0, 0, 0, 0, 1, 7) := by rfl

end Png.Kernels
