import PngVerif.Proofs.RoundTripAnimDecode
import PngVerif.Props.C03RoundTrip
/-!
# C03 — Encode then decode is lossless: animations, end to end at the byte level

`Props/C03RoundTrip.lean` continued for APNG.  Encoder side: `write_header` of an animated configuration (`acTL`, a frame
control), then for every image any frame-setter calls followed by `write_image_data`, then `finish`
(`Enc.Frame`, `Enc.animOps`; `Proofs/RoundTripAnimEnc.lean`: the run is computed — `fcTL` + `IDAT` for the first frame,
`fcTL` + `fdAT` with consecutive sequence numbers afterwards; with `sepDefImg` a plain `IDAT` image first).  Decoder side:
`C09.C09_frames` / `C09.C09_default_image`.  In between (`Proofs/RoundTripAnimSpec.lean`, `RoundTripAnimDecode.lean`): the
sink's bytes are `WellFormed.wellFormedApng` / `wellFormedApngDefault`, every frame is a still image of its own size
(`Enc.Cfg.sub`), the specification's pixels of a frame in the image's buffer are its data followed by the pre-fill.

The frame control in effect for an image is `Enc.fcOf W H f pre`: the setter calls `pre` applied one after the other to the
frame control `f` left by the image before (the sequence number aside) — refused calls included, they change nothing.
-/
namespace Png.C03
open Png Png.Val Png.Enc Png.Framing Png.Reader Png.WellFormed Png.RoundTrip

/-- **C03 for animations, end to end** (first frame = the `IDAT` image).  For every animated configuration `write_header`
    accepts (`Enc.Cfg.Anim`: `acTL` with `1 ≤ n < 2^32` frames and `plays < 2^32`, a frame control `f0` with sequence number 0,
    not empty, inside the canvas, `u16` delays, legal dispose / blend — what `set_animated` / `with_info` leave —; canvas,
    colour type, bit depth, palette, text chunks as for a still image; `validate_sequence` on or off) without a separate
    default image and without metadata in front of `acTL` (`preChunks c.md = []`: the decoder side's layout
    `wellFormedApng` has `acTL` right behind `IHDR`; `PLTE`, `tRNS` and text chunks, which `encode_header` writes behind it, are
    free: `PostOk`), every list of `n` frames `fr0 :: frs`, each with ANY sequence of frame-setter calls in front of its image
    (arguments in the ranges of their types; refused calls included), such that
    * the frame control in effect at the first image covers the canvas (anything else `write_image_data` refuses) and the
      first image has the size of the canvas (`FirstOk`),
    * every later image has the size of the frame control in effect for it — a sub-frame anywhere inside the canvas — and
      the sequence numbers stay below `2^32` (`LaterOk`),
    every filter choice, every compressor whose output for the scanline stream of each frame the decoder's inflater maps
    back to it (`hinf0`, `hinf`; `hnil`), the same CRC function on both sides, every identity transformation, ALL decoder
    options, every limit that covers one line per frame and the chunks behind `acTL` (`lineSum`, `postCost`), all pre-fill
    bytes:

    every `write_image_data` and `finish` return `Ok` and no call panics (`ResultsOk`), and the bytes the sink then holds, given
    to `read_info` and `n` calls of `next_frame` (and one more), produce the header, then for every frame — in order — its
    `OutputInfo` (width, height and line size of the frame control in effect) and a buffer that holds EXACTLY THE BYTES GIVEN
    FOR THAT FRAME followed by the pre-fill (`frameResults`; the first frame fills the buffer), then
    `PolledAfterEndOfImage`. -/
theorem C03_anim_encode_decode (cfg : Framing.Cfg) (t : TCfg) (f : Flags) (opts : Options) (limit : Nat)
    (compress : Bytes → Bytes) (choose : Bytes → Bytes → FilterType) (c : Enc.Cfg) (n plays : Nat) (f0 : FC)
    (fr0 : Frame) (frs : List Frame) (p0 : UInt8) (ps : List UInt8) (q : UInt8)
    (hI : cfg.InflateOk) (hcrc : ∀ b, cfg.crc b = crcOfList b) (ht : t.IsIdentity f)
    (hc : c.Anim n plays f0) (hsep : c.sepDefImg = false) (hmd : preChunks c.md = []) (hm : PostOk cfg opts.ignoreText c)
    (hn : n = frs.length + 1) (h0 : FirstOk c f0 fr0)
    (hl : LaterOk (scanCodec compress choose) c { fcOf c.width c.height f0 fr0.pre with seq := 1 } frs)
    (hsz : c.rowLen * c.height < 2 ^ 64)
    (hnil : ∀ o, cfg.inflate [] ≠ some (o, true))
    (hinf0 : cfg.inflate (compress (rawOf choose c fr0.data)) = some (rawOf choose c fr0.data, true))
    (hinf : ∀ x ∈ decFrames compress choose c { fcOf c.width c.height f0 fr0.pre with seq := 1 } frs,
      cfg.inflate (compress x.2.2) = some (x.2.2, true))
    (hlimit : c.rowLen + lineSum c (fcOf c.width c.height f0 fr0.pre) frs + postCost c ≤ limit)
    (hps : ps.length = frs.length) :
    (runWriter (scanCodec compress choose) c {} (animOps (fr0 :: frs)) .finish).header = .ok ∧
    ResultsOk (animOps (fr0 :: frs)) (runWriter (scanCodec compress choose) c {} (animOps (fr0 :: frs)) .finish).results ∧
    (runWriter (scanCodec compress choose) c {} (animOps (fr0 :: frs)) .finish).final = some .ok ∧
    (Reader.run cfg t
      (R.init opts limit f (runWriter (scanCodec compress choose) c {} (animOps (fr0 :: frs)) .finish).state.sink.bytes
        (runWriter (scanCodec compress choose) c {} (animOps (fr0 :: frs)) .finish).state.sink.bytes.length)
      (.readInfo :: .nextFrame p0 :: (ps.map Op.nextFrame ++ [.nextFrame q]))).2 =
      .header :: .frame { width := c.width, height := c.height, color := c.color, depth := c.depth,
                          lineSize := c.rowLen } fr0.data ::
        (frameResults c (fcOf c.width c.height f0 fr0.pre) frs ps ++ [.err .parameter "PolledAfterEndOfImage"]) := by
  obtain ⟨rs, r1, r2, r3, r4, _⟩ := anim_run (scanCodec compress choose) c n plays f0 hc hsep fr0 frs hn h0 hl hsz
  rw [← r2] at r3
  exact ⟨r1, r3, r4, anim_encode_decode_core cfg t f opts limit compress choose c n plays f0 fr0 frs p0 ps q hI hcrc ht hc hsep
    hmd hm hn h0 hl hsz hnil hinf0 hinf hlimit hps⟩

/-- **C03 for animations with a separate default image** (`sepDefImg`): `n + 1` images are written, the first as a plain
    `IDAT` image that is not part of the animation (it still has to cover the canvas); `acTL` counts the `n` frames that
    follow.  The first `next_frame` returns the default image, the next `n` the frames. -/
theorem C03_anim_default_encode_decode (cfg : Framing.Cfg) (t : TCfg) (f : Flags) (opts : Options) (limit : Nat)
    (compress : Bytes → Bytes) (choose : Bytes → Bytes → FilterType) (c : Enc.Cfg) (n plays : Nat) (f0 : FC)
    (fr0 : Frame) (frs : List Frame) (p0 : UInt8) (ps : List UInt8) (q : UInt8)
    (hI : cfg.InflateOk) (hcrc : ∀ b, cfg.crc b = crcOfList b) (ht : t.IsIdentity f)
    (hc : c.Anim n plays f0) (hsep : c.sepDefImg = true) (hmd : preChunks c.md = []) (hm : PostOk cfg opts.ignoreText c)
    (hn : n = frs.length) (h0 : FirstOk c f0 fr0)
    (hl : LaterOk (scanCodec compress choose) c (fcOf c.width c.height f0 fr0.pre) frs)
    (hsz : c.rowLen * c.height < 2 ^ 64)
    (hnil : ∀ o, cfg.inflate [] ≠ some (o, true))
    (hinf0 : cfg.inflate (compress (rawOf choose c fr0.data)) = some (rawOf choose c fr0.data, true))
    (hinf : ∀ x ∈ decFrames compress choose c (fcOf c.width c.height f0 fr0.pre) frs,
      cfg.inflate (compress x.2.2) = some (x.2.2, true))
    (hlimit : c.rowLen + lineSum c (fcOf c.width c.height f0 fr0.pre) frs + postCost c ≤ limit)
    (hps : ps.length = frs.length) :
    (runWriter (scanCodec compress choose) c {} (animOps (fr0 :: frs)) .finish).header = .ok ∧
    ResultsOk (animOps (fr0 :: frs)) (runWriter (scanCodec compress choose) c {} (animOps (fr0 :: frs)) .finish).results ∧
    (runWriter (scanCodec compress choose) c {} (animOps (fr0 :: frs)) .finish).final = some .ok ∧
    (Reader.run cfg t
      (R.init opts limit f (runWriter (scanCodec compress choose) c {} (animOps (fr0 :: frs)) .finish).state.sink.bytes
        (runWriter (scanCodec compress choose) c {} (animOps (fr0 :: frs)) .finish).state.sink.bytes.length)
      (.readInfo :: .nextFrame p0 :: (ps.map Op.nextFrame ++ [.nextFrame q]))).2 =
      .header :: .frame { width := c.width, height := c.height, color := c.color, depth := c.depth,
                          lineSize := c.rowLen } fr0.data ::
        (frameResults c (fcOf c.width c.height f0 fr0.pre) frs ps ++ [.err .parameter "PolledAfterEndOfImage"]) := by
  obtain ⟨rs, r1, r2, r3, r4, _⟩ := anim_default_run (scanCodec compress choose) c n plays f0 hc hsep fr0 frs hn h0 hl hsz
  rw [← r2] at r3
  exact ⟨r1, r3, r4, anim_default_encode_decode_core cfg t f opts limit compress choose c n plays f0 fr0 frs p0 ps q hI hcrc ht
    hc hsep hmd hm hn h0 hl hsz hnil hinf0 hinf hlimit hps⟩

/-- **what the sink holds** after an animated run (first frame = `IDAT` image), as chunks and as bytes: `IHDR`, the other header
    chunks (`acTL` among them), `fcTL` number 0, the first frame's `IDAT` chunks, for every later frame `fcTL` and `fdAT`
    chunks with consecutive sequence numbers (`laterChunks`), `IEND` -/
theorem C03_anim_file (E : Codec) (c : Enc.Cfg) (n plays : Nat) (f0 : FC) (hc : c.Anim n plays f0) (hsep : c.sepDefImg = false)
    (fr0 : Frame) (frs : List Frame) (hn : n = frs.length + 1) (h0 : FirstOk c f0 fr0)
    (hl : LaterOk E c { fcOf c.width c.height f0 fr0.pre with seq := 1 } frs) (hsz : c.rowLen * c.height < 2 ^ 64) :
    (runWriter E c {} (animOps (fr0 :: frs)) .finish).state.sink.chunks = animChunks E c f0 fr0 frs ∧
    (runWriter E c {} (animOps (fr0 :: frs)) .finish).state.sink.bytes = fileBytes (animChunks E c f0 fr0 frs) := by
  obtain ⟨_, _, _, _, _, hlog⟩ := anim_run E c n plays f0 hc hsep fr0 frs hn h0 hl hsz
  exact ⟨(bytes_of_fullLog _ _ hlog).2, (bytes_of_fullLog _ _ hlog).1⟩

/-- the same with a separate default image -/
theorem C03_anim_default_file (E : Codec) (c : Enc.Cfg) (n plays : Nat) (f0 : FC) (hc : c.Anim n plays f0)
    (hsep : c.sepDefImg = true) (fr0 : Frame) (frs : List Frame) (hn : n = frs.length) (h0 : FirstOk c f0 fr0)
    (hl : LaterOk E c (fcOf c.width c.height f0 fr0.pre) frs) (hsz : c.rowLen * c.height < 2 ^ 64) :
    (runWriter E c {} (animOps (fr0 :: frs)) .finish).state.sink.chunks = animDefaultChunks E c f0 fr0 frs ∧
    (runWriter E c {} (animOps (fr0 :: frs)) .finish).state.sink.bytes = fileBytes (animDefaultChunks E c f0 fr0 frs) := by
  obtain ⟨_, _, _, _, _, hlog⟩ := anim_default_run E c n plays f0 hc hsep fr0 frs hn h0 hl hsz
  exact ⟨(bytes_of_fullLog _ _ hlog).2, (bytes_of_fullLog _ _ hlog).1⟩

/-- **the limit in closed form**: one line of the canvas per frame and three times the bytes of `PLTE`, `tRNS` and the text
    chunks suffice -/
theorem C03_anim_limit_le (c : Enc.Cfg) (n plays : Nat) (f0 : FC) (hc : c.Anim n plays f0) (fr0 : Frame) (frs : List Frame) :
    c.rowLen + lineSum c (fcOf c.width c.height f0 fr0.pre) frs + postCost c ≤
      (frs.length + 1) * c.rowLen + 3 * ((postChunks c).map fun ch => ch.data.length).sum := by
  have h1 := lineSum_le c hc.depth frs _ (fcOf_in (W := c.width) (H := c.height) fr0.pre f0 hc.rect)
  have h2 : postCost c = 3 * ((postChunks c).map fun ch => ch.data.length).sum + ((postChunks c).map (iccpExtra 0)).sum :=
    listCost_eq _ _
  have h3 : ((postChunks c).map (iccpExtra 0)).sum = 0 := by
    generalize postChunks c = l
    induction l with
    | nil => rfl
    | cons a l ih => simp only [List.map_cons, List.sum_cons, ih, iccpExtra]; split <;> rfl
  rw [Nat.succ_mul]
  omega

/-- **the configurations of the C12 domain are `Anim`**: `Cfg.WellFormed` (field types in range, accepted by `Encoder::with_info`
    or built by `set_animated`) with an `acTL`, and a header `write_header` does not refuse -/
theorem C03_anim_of_wellFormed (c : Enc.Cfg) (n plays : Nat) (hw : c.WellFormed) (ha : c.actl = some (n, plays))
    (hw0 : c.width ≠ 0) (hh0 : c.height ≠ 0) (hcomb : combinationInvalid c.color c.depth = false)
    (hpal : c.color = 3 → c.palette.isSome = true) (htx : (textPrefix c.texts).2 = true) : ∃ f0, c.Anim n plays f0 :=
  anim_of_wellFormed c n plays hw ha hw0 hh0 hcomb hpal htx

/-- **frames that cover the canvas** (no setter calls): the hypotheses about the frames reduce to "every image has the size of
    the canvas" and the bound on the sequence numbers -/
theorem C03_anim_full_frames_ok (E : Codec) (c : Enc.Cfg) (f0 : FC)
    (hcov : f0.x = 0 ∧ f0.y = 0 ∧ f0.w = c.width ∧ f0.h = c.height) (d0 : Bytes) (hd0 : d0.length = c.rowLen * c.height) :
    FirstOk c f0 ⟨[], d0⟩ ∧
    ∀ (ds : List Bytes) (q : Nat), (∀ d ∈ ds, d.length = c.rowLen * c.height) →
      q + (ds.map fun d => 1 + (chunksOf maxFdatChunkLen (c.zstream E d)).length).sum < 2 ^ 32 →
      LaterOk E c { f0 with seq := q } (ds.map fun d => ⟨[], d⟩) := by
  refine ⟨⟨fun _ h => (by cases h), hcov, hd0⟩, ?_⟩
  have hsub : ∀ q, c.sub { f0 with seq := q } = c := fun q => sub_cover c _ hcov.2.2.1 hcov.2.2.2
  intro ds
  induction ds with
  | nil => intro q _ _; trivial
  | cons d ds ih =>
    intro q hlen hseq
    simp only [List.map_cons, List.sum_cons] at hseq
    refine ⟨fun _ h => (by cases h), ?_, ?_, ?_⟩
    · show d.length = (c.sub { f0 with seq := q }).rowLen * f0.h
      rw [hsub, hcov.2.2.2]; exact hlen d (by simp)
    · show q + 1 + (chunksOf maxFdatChunkLen ((c.sub { f0 with seq := q }).zstream E d)).length < 2 ^ 32
      rw [hsub]
      have : 0 ≤ (ds.map fun d => 1 + (chunksOf maxFdatChunkLen (c.zstream E d)).length).sum := Nat.zero_le _
      omega
    · show LaterOk E c { f0 with seq := q + 1 + (chunksOf maxFdatChunkLen ((c.sub { f0 with seq := q }).zstream E d)).length } _
      rw [hsub]
      exact ih _ (fun x hx => hlen x (by simp [hx])) (by omega)

/-! ## Non-vacuity: every hypothesis instantiated on concrete animations -/

section Examples
open Png.Framing.Toy Png.Reader.Toy

/-- 2×2, 8-bit grayscale, three frames, 7 plays, a `tEXt` chunk (written behind `acTL`), `validate_sequence` on -/
def cfgAnim3 : Enc.Cfg :=
  { animatedCfg { width := 2, height := 2, validate := true, texts := [some ⟨tyTEXT, [65, 0, 66]⟩] } 3 7 with }
def fcAnim3 : FC := { w := 2, h := 2 }

/-- the frames: the whole canvas with a delay; the single pixel at (1, 1) — reached by shrinking, then moving; a refused
    `set_frame_dimension` in between changes nothing —; the whole canvas again (position and dimension reset) -/
def framesAnim3 : List Frame :=
  [⟨[.setDelay 1 10], [1, 2, 3, 4]⟩,
   ⟨[.setDim 1 1, .setPos 1 1, .setDim 5 5, .setBlend 1], [9]⟩,
   ⟨[.resetPos, .resetDim, .setDispose 2], [5, 6, 7, 8]⟩]

example : cfgAnim3.Anim 3 7 fcAnim3 ∧ cfgAnim3.sepDefImg = false ∧ preChunks cfgAnim3.md = [] := by decide

theorem cfgAnim3_postOk (ig : Bool) : PostOk rtCfg ig cfgAnim3 := by
  refine ⟨?_, by decide⟩
  intro ch h
  have : ch = ⟨tyTEXT, [65] ++ 0 :: [66]⟩ := by simpa [cfgAnim3, animatedCfg, textPrefix] using h
  rw [this]
  exact ⟨Or.inl ty_eqs.2.2.2.2.2.2.2.2.2.2.2.1, fun _ => by
    rw [show tyTEXT = tEXt from ty_eqs.2.2.2.2.2.2.2.2.2.2.2.1]
    exact .tEXt [65] [66] ⟨by decide, by decide, by decide⟩⟩

-- the frame controls in effect and what the decoder is promised to return
example : fcOf 2 2 fcAnim3 [.setDelay 1 10] = { w := 2, h := 2, delayNum := 1, delayDen := 10 } ∧
    fcOf 2 2 { w := 2, h := 2, delayNum := 1, delayDen := 10 } [.setDim 1 1, .setPos 1 1, .setDim 5 5, .setBlend 1] =
      { w := 1, h := 1, x := 1, y := 1, delayNum := 1, delayDen := 10, blend := 1 } := by decide

example :
    (Reader.run rtCfg idT
      (R.init {} 1000 {}
        (runWriter (scanCodec storeZ fun _ _ => .sub) cfgAnim3 {} (animOps framesAnim3) .finish).state.sink.bytes
        (runWriter (scanCodec storeZ fun _ _ => .sub) cfgAnim3 {} (animOps framesAnim3) .finish).state.sink.bytes.length)
      [.readInfo, .nextFrame 0, .nextFrame 7, .nextFrame 8, .nextFrame 0]).2 =
      [.header, .frame ⟨2, 2, 0, 8, 2⟩ [1, 2, 3, 4], .frame ⟨1, 1, 0, 8, 1⟩ [9, 7, 7, 7], .frame ⟨2, 2, 0, 8, 2⟩ [5, 6, 7, 8],
       .err .parameter "PolledAfterEndOfImage"] :=
  (C03_anim_encode_decode rtCfg idT {} {} 1000 storeZ (fun _ _ => .sub) cfgAnim3 3 7 fcAnim3
    ⟨[.setDelay 1 10], [1, 2, 3, 4]⟩
    [⟨[.setDim 1 1, .setPos 1 1, .setDim 5 5, .setBlend 1], [9]⟩, ⟨[.resetPos, .resetDim, .setDispose 2], [5, 6, 7, 8]⟩]
    0 [7, 8] 0 rtCfg_inflateOk (fun _ => rfl) C01.idT_isIdentity (by decide) (by decide) (by decide) (cfgAnim3_postOk _)
    (by decide) (by decide) (by decide) (by decide) rtCfg_nil (by decide) (by decide) (by decide) (by decide)).2.2.2

/-- the same frames behind a separate default image: two frames declared, three images written -/
def cfgAnimDef : Enc.Cfg := { animatedCfg { width := 2, height := 2 } 2 0 with sepDefImg := true }

example :
    (Reader.run rtCfg idT
      (R.init {} 1000 {}
        (runWriter (scanCodec storeZ fun _ _ => .up) cfgAnimDef {} (animOps framesAnim3) .finish).state.sink.bytes
        (runWriter (scanCodec storeZ fun _ _ => .up) cfgAnimDef {} (animOps framesAnim3) .finish).state.sink.bytes.length)
      [.readInfo, .nextFrame 0, .nextFrame 7, .nextFrame 8, .nextFrame 0]).2 =
      [.header, .frame ⟨2, 2, 0, 8, 2⟩ [1, 2, 3, 4], .frame ⟨1, 1, 0, 8, 1⟩ [9, 7, 7, 7], .frame ⟨2, 2, 0, 8, 2⟩ [5, 6, 7, 8],
       .err .parameter "PolledAfterEndOfImage"] :=
  (C03_anim_default_encode_decode rtCfg idT {} {} 1000 storeZ (fun _ _ => .up) cfgAnimDef 2 0 fcAnim3
    ⟨[.setDelay 1 10], [1, 2, 3, 4]⟩
    [⟨[.setDim 1 1, .setPos 1 1, .setDim 5 5, .setBlend 1], [9]⟩, ⟨[.resetPos, .resetDim, .setDispose 2], [5, 6, 7, 8]⟩]
    0 [7, 8] 0 rtCfg_inflateOk (fun _ => rfl) C01.idT_isIdentity (by decide) (by decide) (by decide)
    ⟨fun _ h => (by cases h), fun _ h => (by cases h)⟩
    (by decide) (by decide) (by decide) (by decide) rtCfg_nil (by decide) (by decide) (by decide) (by decide)).2.2.2

/-- the first run evaluated by the kernel (both models, CRC-32 included): the chunk types in the sink and what the decoder
    returns -/
example :
    (runWriter (scanCodec storeZ fun _ _ => .sub) cfgAnim3 {} (animOps framesAnim3) .finish).state.sink.chunks.map (·.ty) =
      [tyIHDR, tyACTL, tyTEXT, tyFCTL, tyIDAT, tyFCTL, tyFDAT, tyFCTL, tyFDAT, tyIEND] := by decide +kernel

end Examples

end Png.C03
