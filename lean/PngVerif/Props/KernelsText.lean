import PngVerif.Generated.KernelsText
import PngVerif.Model.Framing
import PngVerif.Proofs.KernelBytes
/-!
# Tie A, part 2 (translator): `StreamingDecoder::split_keyword` (`src/decoder/stream.rs`)

`Generated/KernelsText.lean` is rewritten by `tools/rs2lean.py` from the Rust source on every run.  `split_keyword(buf)` — the split of a text
chunk's body at the first NUL and the keyword-length guard (1..=79 bytes) that `parse_text`, `parse_ztxt` and `parse_itxt` all go through —
is translated as a function of the bytes `buf : List Int`; `buf.iter().position(|&b| b == 0)` is the declared list operation
`Gen.firstIndexOf 0` (defined in the prelude of the generated file: index of the first element equal to the value), the two result slices
`&buf[..k]`, `&buf[k + 1..]` are `take` / `drop` with their bounds in `_ok`.

Proved for EVERY byte string: the translation is `Framing.splitKeyword` (same error name — `MissingNullSeparator` when there is no NUL,
`InvalidKeywordSize` when the keyword is empty or longer than 79 bytes —, same keyword and value), and the slicing never panics.
-/
namespace Png.Kernels
open Png Png.Framing

/-- the result `(code, keyword, value)` of the translated `split_keyword` in the model's terms -/
def interpSplit (r : Int × List Int × List Int) : Except PErr (List Int × List Int) :=
  if r.1 = 0 then .ok (r.2.1, r.2.2)
  else if r.1 = 1 then .error (.format "MissingNullSeparator") else .error (.format "InvalidKeywordSize")

/-- the declared search primitive is `List.findIdx?` on the bytes -/
theorem firstIndexOf_bInt (b : Bytes) : Gen.firstIndexOf 0 (bInt b) = (b.findIdx? (· = 0)).map Int.ofNat := by
  induction b with
  | nil => rfl
  | cons x xs ih =>
    have hx : ((x.toNat : Int) = 0) ↔ x = 0 := by
      constructor
      · intro h; exact UInt8.toNat_inj.mp (by simp; omega)
      · intro h; subst h; rfl
    simp only [bInt, List.map_cons, Gen.firstIndexOf, List.findIdx?_cons] at ih ⊢
    by_cases h0 : x = 0
    · subst h0; simp
    · have : ¬ ((x.toNat : Int) = 0) := fun h => h0 (hx.mp h)
      simp only [this, if_false, h0, decide_false, Bool.false_eq_true]
      rw [ih]
      cases xs.findIdx? (· = 0) <;> simp

theorem findIdx_lt (b : Bytes) (p : UInt8 → Bool) : ∀ k, b.findIdx? p = some k → k < b.length := by
  induction b with
  | nil => intro k h; simp at h
  | cons x xs ih =>
    intro k h
    simp only [List.findIdx?_cons] at h
    split at h
    · simp only [Option.some.injEq] at h; subst h; simp
    · cases hq : xs.findIdx? p with
      | none => simp [hq] at h
      | some j =>
        simp only [hq, Option.map_some, Option.some.injEq] at h
        have := ih j hq
        simp only [List.length_cons]
        omega

/-- `split_keyword` (stream.rs) = `Framing.splitKeyword`, for every byte string; the two slices never panic -/
theorem kernel_split_keyword (b : Bytes) :
    (match splitKeyword b with
     | .ok (k, v) => Except.ok (bInt k, bInt v)
     | .error e => Except.error e) = interpSplit (Gen.split_keyword (bInt b)) ∧
    Gen.split_keyword_ok (bInt b) = true := by
  have hf := firstIndexOf_bInt b
  simp only [splitKeyword, Gen.split_keyword, Gen.split_keyword_ok, hf]
  cases hq : b.findIdx? (· = 0) with
  | none => simp [interpSplit]
  | some k =>
    have hk := findIdx_lt b _ k hq
    have hlen : (bInt b).length = b.length := bInt_length b
    have t1 : Int.toNat (k : Int) = k := by omega
    have t2 : Int.toNat ((k : Int) + 1) = k + 1 := by omega
    have t3 : Int.toNat ((bInt b).length : Int) = (bInt b).length := by omega
    simp only [Option.map_some, Option.isSome_some, if_true, Option.getD_some, Int.ofNat_eq_natCast, Bool.or_eq_true, decide_eq_true_eq]
    by_cases hc : k = 0 ∨ k > 79 <;> simp only [hc, if_true, if_false] <;> constructor
    · split
      · simp [interpSplit]
      · exfalso; omega
    · split
      · rfl
      · exfalso; omega
    · split
      · exfalso; omega
      · simp only [interpSplit, t1, t2, t3, Int.toNat_zero, List.drop_zero, List.take_length]
        simp [bInt, List.map_take, List.map_drop]
    · split
      · rfl
      · simp only [hlen, Bool.and_eq_true, decide_eq_true_eq]
        omega

example : Gen.split_keyword [65, 66, 0, 67, 0, 68] = (0, [65, 66], [67, 0, 68]) ∧ Gen.split_keyword [65, 66] = (1, [], []) ∧
    Gen.split_keyword [0, 66] = (2, [], []) ∧ Gen.split_keyword [65, 0] = (0, [65], []) ∧
    Gen.split_keyword (List.replicate 80 65 ++ [0]) = (2, [], []) ∧ (Gen.split_keyword (List.replicate 79 65 ++ [0, 1])).1 = 0 ∧
    Gen.split_keyword_ok [65, 0] = true := by decide

end Png.Kernels
