import PngVerif.Proofs.Adam7
/-!
# C15 — Adam7 pass geometry is exact for every image size and pixel size

Property theorems only (lemmas live in `PngVerif/Proofs/Adam7.lean`).  All statements are for ALL
widths, heights, strides, row contents and previous destination contents (`Nat`, no bound), and for
every PNG pixel size (`validBits`: 1, 2, 4 bits or a whole number of bytes — this includes
8, 16, 24, 32, 48, 64).

`expandPass` is `png::expand_interlaced_row` with the **repaired** sub-byte store (mask, then or).
The store of the pinned tree (`|=`, `expandPassOr`, defect D7) violates the property; see the
counterexamples and the `_partial` theorems at the end.

Reading guide: `passOf`, `specPassW/H`, `specRows`, `specSrc` are the specification (the 8×8 pattern
and counting); `passW/H`, `iterRows`, `destX/Y`, `expandPass`, `deinterlace` mirror the Rust code and
are parametric in the two tables extracted from `src/adam7.rs`; `bitAt img k` is bit `k` of a byte
string (most significant bit first) and `pixelBit stride bits x y = y * stride * 8 + x * bits` the
first bit of the field of destination pixel `(x, y)`.
-/
namespace Png.C15
open Png.Adam7

/-- Tie A: the rows of the table extracted from `init_pass` describe exactly the passes of the
    specification's 8×8 pattern, and the table extracted from `expand_adam7_bits` is the same table
    transposed. -/
theorem tables_match_pattern {p : Nat} (hp : 1 ≤ p ∧ p ≤ 7) :
    (∀ x y, passOf x y = p ↔
      x % (passParams p).2.2.1 = (passParams p).1 ∧ y % (passParams p).2.2.2 = (passParams p).2.1) ∧
    0 < (passParams p).2.2.1 ∧ 0 < (passParams p).2.2.2 ∧
    bitsParams p = ((passParams p).2.2.2, (passParams p).2.1, (passParams p).2.2.1, (passParams p).1) :=
  ⟨passOf_iff hp, (step_pos hp).1, (step_pos hp).2, bitsParams_eq hp⟩

/-- `init_pass`: for every image size and every pass, sample `i` exists in the pass iff its
    destination column `i * xstep + xoff` is inside the image (likewise lines), and the width /
    number of lines is the number of columns / rows of the specification's pattern that belong to
    the pass. -/
theorem pass_dims {p : Nat} (hp : 1 ≤ p ∧ p ≤ 7) (w h : Nat) :
    (∀ i, i < passW w p ↔ i * (passParams p).2.2.1 + (passParams p).1 < w) ∧
    (∀ l, l < passH h p ↔ l * (passParams p).2.2.2 + (passParams p).2.1 < h) ∧
    passW w p = specPassW w p ∧ passH h p = specPassH h p :=
  ⟨fun i => dim_spec _ _ _ i (step_pos hp).1, fun l => dim_spec _ _ _ l (step_pos hp).2,
   (specPassW_eq hp w).symm, (specPassH_eq hp h).symm⟩

/-- the same on the scatter map used by `expand_adam7_bits` -/
theorem pass_dims_dest {p : Nat} (hp : 1 ≤ p ∧ p ≤ 7) (w h : Nat) :
    (∀ i, i < passW w p ↔ destX p i < w) ∧ (∀ l, l < passH h p ↔ destY p l < h) :=
  ⟨passW_spec hp w, passH_spec hp h⟩

/-- the iterator reports exactly the specification's rows: passes in order, lines `0..lines-1` in
    order, the pass's pixel count, empty passes skipped — for every `w`, `h` -/
theorem iter_eq_spec (w h : Nat) : iterRows w h = specRows w h := iterRows_eq_specRows w h

/-- … and every prefix of the iteration (`.take(n)`) is the prefix of the specification's list -/
theorem iter_take_eq_spec (n w h : Nat) : iterRowsFuel n w h = (specRows w h).take n := iterRowsFuel_eq n w h

/-- what the specification's list contains -/
theorem rows_mem (w h p l wd : Nat) :
    (p, l, wd) ∈ iterRows w h ↔ (1 ≤ p ∧ p ≤ 7) ∧ wd = specPassW w p ∧ 0 < wd ∧ l < specPassH h p := by
  rw [iter_eq_spec, mem_specRows]
  constructor
  · rintro ⟨hp, h1, h2, h3⟩; exact ⟨hp, by rw [specPassW_eq hp]; exact h1, h2, by rw [specPassH_eq hp]; exact h3⟩
  · rintro ⟨hp, h1, h2, h3⟩; exact ⟨hp, by rw [← specPassW_eq hp]; exact h1, h2, by rw [← specPassH_eq hp]; exact h3⟩

/-- coverage, existence: every pixel `(x, y)` of a `w × h` image is sample `i` of line `l` of pass
    `p`, where `(p, l, i) = specSrc x y` is the specification's source; `i` and `l` are inside that
    pass's dimensions, and the row `(p, l, passW w p)` is emitted by the iterator -/
theorem coverage (w h x y : Nat) (hx : x < w) (hy : y < h) :
    (1 ≤ (specSrc x y).1 ∧ (specSrc x y).1 ≤ 7) ∧ (specSrc x y).1 = passOf x y ∧
    (specSrc x y).2.2 < passW w (specSrc x y).1 ∧ (specSrc x y).2.1 < passH h (specSrc x y).1 ∧
    destX (specSrc x y).1 (specSrc x y).2.2 = x ∧ destY (specSrc x y).1 (specSrc x y).2.1 = y ∧
    ((specSrc x y).1, (specSrc x y).2.1, passW w (specSrc x y).1) ∈ iterRows w h := by
  obtain ⟨h1, h7, hi, hl, hX, hY⟩ := cover_exists w h x y hx hy
  exact ⟨⟨h1, h7⟩, rfl, hi, hl, hX, hY, by rw [iter_eq_spec]; exact row_of_pixel_mem w h x y hx hy⟩

/-- coverage, uniqueness: the destination of sample `i` of line `l` of pass `p` is a pass-`p`
    pixel whose specification source is `(p, l, i)`; hence two different (pass, line, sample)
    triples never have the same destination -/
theorem cover_unique {p : Nat} (hp : 1 ≤ p ∧ p ≤ 7) (i l : Nat) :
    passOf (destX p i) (destY p l) = p ∧ specSrc (destX p i) (destY p l) = (p, l, i) :=
  ⟨Adam7.cover_unique hp i l, specSrc_dest hp i l⟩

theorem cover_injective {p p' : Nat} (hp : 1 ≤ p ∧ p ≤ 7) (hp' : 1 ≤ p' ∧ p' ≤ 7) {i l i' l' : Nat}
    (hx : destX p i = destX p' i') (hy : destY p l = destY p' l') : p = p' ∧ l = l' ∧ i = i' := by
  have h1 := specSrc_dest hp i l
  have h2 := specSrc_dest hp' i' l'
  rw [hx, hy, h2] at h1
  simp only [Prod.mk.injEq] at h1
  exact ⟨h1.1.symm, h1.2.1.symm, h1.2.2.symm⟩

/-- one row, every pixel size, any stride, any previous contents: `expandPass` succeeds when the
    destination fields are inside `img`, keeps the length, stores bit `t` of pixel `i` of the row
    in bit `t` of the field of destination pixel `(destX pass i, destY pass line)`, and changes no
    other bit of `img` -/
theorem expand_writes {bits : Nat} (hb : validBits bits) (stride : Nat) (img row : Bytes) (info : Adam7Info)
    (hp : 1 ≤ info.pass ∧ info.pass ≤ 7) (hrow : info.width * bits ≤ row.length * 8)
    (hin : ∀ i, i < info.width →
      pixelBit stride bits (destX info.pass i) (destY info.pass info.line) + bits ≤ img.length * 8) :
    ∃ img', expandPass img stride row info bits = some img' ∧ img'.length = img.length ∧
      (∀ i t, i < info.width → t < bits →
        bitAt img' (pixelBit stride bits (destX info.pass i) (destY info.pass info.line) + t) =
          bitAt row (i * bits + t)) ∧
      (∀ k, (∀ i, i < info.width →
          ¬ (pixelBit stride bits (destX info.pass i) (destY info.pass info.line) ≤ k ∧
             k < pixelBit stride bits (destX info.pass i) (destY info.pass info.line) + bits)) →
        bitAt img' k = bitAt img k) :=
  expandPass_writes hb stride img row info hp hrow hin

/-- unchanged bits mean unchanged bytes: a byte none of whose bits is in a written field keeps its value -/
theorem expand_other_bytes (img img' : Bytes) (F : Nat → Prop)
    (h : ∀ k, ¬ F k → bitAt img' k = bitAt img k) (j : Nat) (hj : ∀ k, k / 8 = j → ¬ F k) :
    img'.getD j 0 = img.getD j 0 := bytes_unchanged img img' F h j hj

/-- **de-interlacing**: expanding all rows the iterator reports, in order, from ANY initial image:
    succeeds, keeps the length, leaves in the field of every pixel `(x, y)`, `x < w`, `y < h`, the
    pixel the specification assigns to it (sample `index` of row `(pass, line)`, `specSrc x y`), and
    changes no bit outside these `w × h` fields (padding bits, bytes between the packed width and
    the stride, bytes behind the image).  Each field is written by exactly one row (`coverage`,
    `cover_unique`). -/
theorem C15_deinterlace {bits : Nat} (hb : validBits bits) (w h stride : Nat) (img : Bytes)
    (data : Nat → Nat → Bytes) (hstride : w * bits ≤ stride * 8)
    (hlen : (h - 1) * stride * 8 + w * bits ≤ img.length * 8)
    (hdata : ∀ p l wd, (p, l, wd) ∈ specRows w h → wd * bits ≤ (data p l).length * 8) :
    ∃ img', deinterlace img stride bits (imageRows w h data) = some img' ∧ img'.length = img.length ∧
      (∀ x y t, x < w → y < h → t < bits →
        bitAt img' (pixelBit stride bits x y + t) =
          bitAt (data (specSrc x y).1 (specSrc x y).2.1) ((specSrc x y).2.2 * bits + t)) ∧
      (∀ k, (∀ x y, x < w → y < h → ¬ (pixelBit stride bits x y ≤ k ∧ k < pixelBit stride bits x y + bits)) →
        bitAt img' k = bitAt img k) :=
  deinterlace_spec hb w h stride img data hstride (fits_of_length hlen) hdata

/-- **independence of the previous contents**: the same rows expanded into two destinations of the
    same size agree on every pixel field; into a packed destination (`w * bits = stride * 8`,
    exactly `h * stride` bytes) they give the same image. -/
theorem C15_independent {bits : Nat} (hb : validBits bits) (w h stride : Nat) (img1 img2 : Bytes)
    (data : Nat → Nat → Bytes) (hstride : w * bits ≤ stride * 8) (hsame : img1.length = img2.length)
    (hlen : (h - 1) * stride * 8 + w * bits ≤ img1.length * 8)
    (hdata : ∀ p l wd, (p, l, wd) ∈ specRows w h → wd * bits ≤ (data p l).length * 8) :
    ∃ r1 r2, deinterlace img1 stride bits (imageRows w h data) = some r1 ∧
      deinterlace img2 stride bits (imageRows w h data) = some r2 ∧ r1.length = r2.length ∧
      (∀ x y t, x < w → y < h → t < bits →
        bitAt r1 (pixelBit stride bits x y + t) = bitAt r2 (pixelBit stride bits x y + t)) ∧
      (w * bits = stride * 8 → img1.length = h * stride → r1 = r2) :=
  deinterlace_indep hb w h stride img1 img2 data hstride hsame (fits_of_length hlen) hdata

/-- the rows fed to `deinterlace` above are the iterator's rows -/
theorem imageRows_infos (w h : Nat) (data : Nat → Nat → Bytes) :
    (imageRows w h data).map (fun a => (a.1.pass, a.1.line, a.1.width)) = iterRows w h := by
  rw [iter_eq_spec, imageRows, List.map_map]
  simp [Function.comp_def]

/-! ## The pinned tree's `|=` store (defect D7) -/

/-- The statement that would have to hold for the unrepaired code: the `|=` variant is the repaired
    function.  It is false (`expandPassOr_depends_on_old`). -/
def C15_or_statement : Prop :=
  ∀ (img : Bytes) (stride : Nat) (row : Bytes) (info : Adam7Info) (bits : Nat), validBits bits →
    expandPassOr img stride row info bits = expandPass img stride row info bits

/-- counterexample, one row: a 0-pixel stored with `|=` over a 1 leaves the 1 — the result depends
    on the destination's previous contents; the repaired store clears the field -/
theorem expandPassOr_depends_on_old :
    expandPassOr [0xFF] 1 [0x00] ⟨1, 0, 1⟩ 1 = some [0xFF] ∧
    expandPassOr [0x00] 1 [0x00] ⟨1, 0, 1⟩ 1 = some [0x00] ∧
    expandPass [0xFF] 1 [0x00] ⟨1, 0, 1⟩ 1 = some [0x7F] := Adam7.expandPassOr_depends_on_old

/-- counterexample, whole image: an all-zero 2×2 1-bit image expanded with `|=` into `[0xFF, 0xFF]`
    stays `[0xFF, 0xFF]`; the repaired store gives `[0x3F, 0x3F]` -/
theorem deinterlaceOr_depends_on_old :
    deinterlaceWith orPx [0xFF, 0xFF] 1 1 (imageRows 2 2 fun _ _ => [0x00]) = some [0xFF, 0xFF] ∧
    deinterlaceWith orPx [0x00, 0x00] 1 1 (imageRows 2 2 fun _ _ => [0x00]) = some [0x00, 0x00] ∧
    deinterlace [0xFF, 0xFF] 1 1 (imageRows 2 2 fun _ _ => [0x00]) = some [0x3F, 0x3F] :=
  Adam7.deinterlaceOr_depends_on_old

theorem C15_or_statement_false : ¬ C15_or_statement := by
  intro h
  have h1 := h [0xFF] 1 [0x00] ⟨1, 0, 1⟩ 1 (by decide)
  rw [expandPassOr_depends_on_old.1, expandPassOr_depends_on_old.2.2] at h1
  exact absurd h1 (by decide)

/-- pinned tree, one row: for whole-byte pixels, or when the destination fields of the row hold
    zeros, the `|=` store computes the repaired result -/
theorem expand_or_partial {bits : Nat} (hb : validBits bits) (stride : Nat) (img row : Bytes) (info : Adam7Info)
    (hp : 1 ≤ info.pass ∧ info.pass ≤ 7) (hrow : info.width * bits ≤ row.length * 8)
    (hin : ∀ i, i < info.width →
      pixelBit stride bits (destX info.pass i) (destY info.pass info.line) + bits ≤ img.length * 8)
    (hz : 8 ≤ bits ∨ ∀ i t, i < info.width → t < bits →
      bitAt img (pixelBit stride bits (destX info.pass i) (destY info.pass info.line) + t) = false) :
    expandPassOr img stride row info bits = expandPass img stride row info bits := by
  rcases hz with h8 | hz
  · exact expandPassOr_eq_bytes _ _ _ _ _ h8
  · apply expandPassOr_eq_of_zero hb stride img (info, row) ⟨hp, hrow, hin⟩
    rintro k v ⟨i, t, hi, ht, rfl, _⟩
    exact hz i t hi ht

/-- pinned tree, whole image: for whole-byte pixels, or a destination whose `w × h` pixel fields
    hold zeros (e.g. a zero-initialised buffer), de-interlacing with the `|=` store equals
    de-interlacing with the repaired store, so `C15_deinterlace` applies to it -/
theorem C15_deinterlace_or_partial {bits : Nat} (hb : validBits bits) (w h stride : Nat) (img : Bytes)
    (data : Nat → Nat → Bytes) (hstride : w * bits ≤ stride * 8)
    (hlen : (h - 1) * stride * 8 + w * bits ≤ img.length * 8)
    (hdata : ∀ p l wd, (p, l, wd) ∈ specRows w h → wd * bits ≤ (data p l).length * 8)
    (hz : 8 ≤ bits ∨ ∀ x y t, x < w → y < h → t < bits → bitAt img (pixelBit stride bits x y + t) = false) :
    deinterlaceWith orPx img stride bits (imageRows w h data) = deinterlace img stride bits (imageRows w h data) :=
  deinterlaceOr_eq_of_zero hb w h stride img data hstride (fits_of_length hlen) hdata hz

/-! ## Non-vacuity -/

-- the iterator on the crate's own test image and on degenerate sizes
example : iterRows 4 4 = [(1, 0, 1), (4, 0, 1), (5, 0, 2), (6, 0, 2), (6, 1, 2), (7, 0, 4), (7, 1, 4)] := by decide
example : iterRows 1 1 = [(1, 0, 1)] ∧ iterRows 0 9 = [] ∧ iterRows 9 0 = [] := by decide
example : (iterRows 3 2).map (·.1) = [1, 4, 6, 7] := by decide   -- passes 2, 3, 5 are empty and skipped
example : passW 4294967295 1 = 536870912 ∧ passH 4294967295 7 = 2147483647 := by decide
-- the specification side is not trivially the implementation side
example : specPassW 13 4 = 3 ∧ specPassH 13 3 = 2 ∧ specSrc 3 5 = (7, 2, 3) ∧ passOf 4 0 = 2 := by decide
-- hypotheses of `expand_writes` / `C15_deinterlace` are satisfiable; the crate's doc example
example : validBits 1 ∧ validBits 2 ∧ validBits 4 ∧ validBits 8 ∧ validBits 16 ∧ validBits 24 ∧
    validBits 32 ∧ validBits 48 ∧ validBits 64 ∧ ¬ validBits 3 ∧ ¬ validBits 12 := by decide
example : expandPass (List.replicate 24 0) 8 [1, 2, 3, 4] ⟨5, 0, 4⟩ 8 =
    some [0, 0, 0, 0, 0, 0, 0, 0, 0, 0, 0, 0, 0, 0, 0, 0, 1, 0, 2, 0, 3, 0, 4, 0] := by decide
example : expandPass [0xFF, 0xFF, 0xFF, 0xFF, 0xFF, 0xFF, 0xFF, 0xFF] 1 [0x50] ⟨6, 3, 4⟩ 1 =
    some [0xFF, 0xFF, 0xFF, 0xFF, 0xFF, 0xFF, 0xBB, 0xFF] := by decide
-- a 3×3 2-bit image with stride 2 (one spare byte per line), destination pre-filled with 0xFF
example : deinterlace [0xFF, 0xFF, 0xFF, 0xFF, 0xFF, 0xFF] 2 2
      (imageRows 3 3 fun p l => [(16 * p + 64 * l).toUInt8]) =
    some [0x17, 0xFF, 0x73, 0xFF, 0x67, 0xFF] := by decide
-- out-of-range stores, invalid passes and impossible pixel sizes are panics, not defaults
example : expandPass [0, 0] 1 [0xFF] ⟨7, 1, 8⟩ 1 = none ∧ expandPass [0] 1 [0] ⟨8, 0, 1⟩ 8 = none ∧
    expandPass [0] 1 [0] ⟨1, 0, 1⟩ 3 = none ∧ expandPass [0] 1 [0] ⟨1, 0, 1⟩ 0 = none := by decide

end Png.C15
