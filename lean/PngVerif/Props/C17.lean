import PngVerif.Proofs.EncodeMeta
/-!
# C17 — Metadata written by the encoder is read back unchanged

Property theorems only.  Encoder side: `PngVerif/Model/EncodeMeta.lean` (chunk bodies, the order and
the sRGB special-casing of `encode_header`, the frame-control setters) and `PngVerif/Model/Text.lean`
(the three text chunk encoders).  Decoder side: the parsers of `PngVerif/Model/Framing.lean`, reached
through `parse_chunk` (`feedChunk`).  Lemmas: `PngVerif/Proofs/EncodeMeta.lean`, `Proofs/Text.lean`.

Conventions.  A decoder state in which header metadata is acceptable has seen IHDR (`d.info = some i`)
and no IDAT (`d.haveIdat = false`); for the kinds that keep the first occurrence or refuse a duplicate
the corresponding field of `i` is still empty.  These are the explicit hypotheses of the per-kind
theorems (`Acceptable` packages them as a decidable predicate), and `C17_header_roundtrip` shows that
in the header the encoder writes every chunk meets its state: the fold over *all* chunks stores all
values.  Numbers are `Nat`s with their Rust type as a range hypothesis (`U32`, `InRange`).

The zlib codec is a parameter `z : ZCodec` with the contract `z.Ok` as a hypothesis; `CfgAgrees cfg z`
says that the decoder's inflater is that codec.

What is *not* read back unchanged, found while proving, is stated exactly and not hidden:

* a blob of length 0 given as EXIF, palette or transparency is written as a chunk of length 0, which
  today's decoder never parses: `Some([])` comes back as `None`.  The planned repair of the decoder
  (empty chunks are parsed like any other) is behind the single switch
  `EncodeMeta.parseEmptyChunks`; all theorems below are proved for both values of the switch
  (`nonEmpty`, `trnsRead` mention it), and the three `C17_roundtrip_exif_*` theorems say which of
  "full statement" / "counterexample" holds for which value;
* tRNS comes back in the decoder's form (`trnsStored`: low bytes of the samples for grayscale/RGB below
  16 bits) and only when it applies to the colour type (`trnsTaken`), otherwise it is skipped;
* with sRGB the accessors return the substitutes and the ICC profile is not written — that one is
  documented (`C17_srgb_override`).

(An iTXt chunk with `compressed = false` that still holds a compressed payload used to be written
inflated and unchecked, producing a file the decoder rejects when the payload is not UTF-8; since
/repo commit 6a09087 such a chunk is refused — `C17_roundtrip_itxt` now holds without exception.)
-/
namespace Png.C17
open Png Png.Framing Png.EncodeMeta

/-- the decoder has seen IHDR, no image data, and `fresh` (e.g. "no gAMA yet") holds of its `Info` -/
def Acceptable (d : Dec) (fresh : Info → Bool) : Prop :=
  match d.info with
  | some i => d.haveIdat = false ∧ fresh i = true
  | none => False

instance (d : Dec) (fresh : Info → Bool) : Decidable (Acceptable d fresh) := by
  unfold Acceptable; cases d.info <;> infer_instance

theorem Acceptable.elim {d : Dec} {fresh : Info → Bool} (h : Acceptable d fresh) :
    ∃ i, d.info = some i ∧ d.haveIdat = false ∧ fresh i = true := by
  unfold Acceptable at h
  cases hi : d.info with
  | none => rw [hi] at h; cases h
  | some i => rw [hi] at h; exact ⟨i, rfl, h.1, h.2⟩

/-! ## One item at a time -/

/-- IHDR: size, depth and colour type, for everything `Writer::init` lets through -/
theorem C17_roundtrip_ihdr (cfg : Cfg) (d : Dec) (w h depth color : Nat) (hw : U32 w) (hh : U32 h)
    (hw0 : w ≠ 0) (hh0 : h ≠ 0) (hd : depthOk depth = true) (hc : colorOk color = true)
    (hcomb : combinationInvalid color depth = false) (hi : d.info = none) (hn : d.haveIdat = false) :
    ∃ d', feedChunk cfg d (IHDR, encodeIhdr w h depth color) = .ok d' ∧
      d'.info = some { width := w, height := h, depth := depth, color := color, interlaced := false } := by
  obtain ⟨d', h1, h2⟩ := feed_ihdr cfg d d.haveIccp d.limit d.opts d.seqNo w h depth color hw hh hw0 hh0 hd hc hcomb
    (by simp only [ms, hi, hn])
  exact ⟨d', h1, congrArg MS.info h2⟩

/-- pHYs: both `u32`s and both units -/
theorem C17_roundtrip_phys (cfg : Cfg) (d : Dec) (p : PixelDims) (hp : p.InRange)
    (ha : Acceptable d (fun i => i.pixelDims.isNone)) :
    ∃ d' i, d.info = some i ∧ feedChunk cfg d (pHYs, encodePhys p) = .ok d' ∧
      d'.info = some { i with pixelDims := some (p.xppu, p.yppu, if p.meter then 1 else 0) } := by
  obtain ⟨i, hi, hn, hf⟩ := ha.elim
  obtain ⟨d', h1, h2⟩ := feed_phys cfg d i _ _ _ _ p hp (by simpa using hf) (ms_of d i hi hn)
  exact ⟨d', i, hi, h1, congrArg MS.info h2⟩

/-- gAMA: every `u32`; through `Info::gamma()` when there is no sRGB chunk -/
theorem C17_roundtrip_gama (cfg : Cfg) (d : Dec) (g : Nat) (hg : U32 g)
    (ha : Acceptable d (fun i => i.gama.isNone)) :
    ∃ d' i, d.info = some i ∧ feedChunk cfg d (gAMA, encodeGama g) = .ok d' ∧
      d'.info = some { i with gama := some g } ∧
      (i.srgb = none → infoGamma { i with gama := some g } = some g) := by
  obtain ⟨i, hi, hn, hf⟩ := ha.elim
  obtain ⟨d', h1, h2⟩ := feed_gama cfg d i _ _ _ _ g hg (by simpa using hf) (ms_of d i hi hn)
  exact ⟨d', i, hi, h1, congrArg MS.info h2, fun hs => by simp [infoGamma, hs]⟩

/-- cHRM: all eight `u32`s in the order white, red, green, blue -/
theorem C17_roundtrip_chrm (cfg : Cfg) (d : Dec) (c : Chromaticities) (hc : c.InRange)
    (ha : Acceptable d (fun i => i.chrm.isNone)) :
    ∃ d' i, d.info = some i ∧ feedChunk cfg d (cHRM, encodeChrm c) = .ok d' ∧
      d'.info = some { i with chrm := some c.toList } ∧
      (i.srgb = none → infoChroma { i with chrm := some c.toList } = some c.toList) := by
  obtain ⟨i, hi, hn, hf⟩ := ha.elim
  obtain ⟨d', h1, h2⟩ := feed_chrm cfg d i _ _ _ _ c hc (by simpa using hf) (ms_of d i hi hn)
  exact ⟨d', i, hi, h1, congrArg MS.info h2, fun hs => by simp [infoChroma, hs]⟩

/-- sRGB: all four rendering intents; afterwards `gamma()` and `chromaticities()` answer with the
substitutes whatever gAMA / cHRM say -/
theorem C17_roundtrip_srgb (cfg : Cfg) (d : Dec) (r : Nat) (hr : r ≤ 3)
    (ha : Acceptable d (fun i => i.srgb.isNone)) :
    ∃ d' i, d.info = some i ∧ feedChunk cfg d (sRGB, encodeSrgb r) = .ok d' ∧
      d'.info = some { i with srgb := some r } ∧
      infoGamma { i with srgb := some r } = some substituteGamma ∧
      infoChroma { i with srgb := some r } = some substituteChroma.toList := by
  obtain ⟨i, hi, hn, hf⟩ := ha.elim
  obtain ⟨d', h1, h2⟩ := feed_srgb cfg d i _ _ _ _ r hr (by simpa using hf) (ms_of d i hi hn)
  exact ⟨d', i, hi, h1, congrArg MS.info h2, rfl, rfl⟩

/-- acTL: both `u32`s -/
theorem C17_roundtrip_actl (cfg : Cfg) (d : Dec) (a : Nat × Nat) (ha' : U32 a.1 ∧ U32 a.2)
    (ha : Acceptable d (fun _ => true)) :
    ∃ d' i, d.info = some i ∧ feedChunk cfg d (acTL, encodeActl a) = .ok d' ∧
      d'.info = some { i with actl := some a } := by
  obtain ⟨i, hi, hn, _⟩ := ha.elim
  obtain ⟨d', h1, h2⟩ := feed_actl cfg d i _ _ _ _ a ha' (ms_of d i hi hn)
  exact ⟨d', i, hi, h1, congrArg MS.info h2⟩

/-- Full statement for EXIF: any block, of any length, comes back. -/
def C17_roundtrip_exif_statement : Prop :=
  ∀ (cfg : Cfg) (d : Dec) (b : Bytes), Acceptable d (fun i => i.exif.isNone) →
    ∃ d' i, d.info = some i ∧ feedChunk cfg d (eXIf, b) = .ok d' ∧ d'.info = some { i with exif := some b }

/-- eXIf: every non-empty block comes back byte for byte (no size limit in the parser) -/
theorem C17_roundtrip_exif_partial (cfg : Cfg) (d : Dec) (b : Bytes) (hb : b ≠ [])
    (ha : Acceptable d (fun i => i.exif.isNone)) :
    ∃ d' i, d.info = some i ∧ feedChunk cfg d (eXIf, b) = .ok d' ∧ d'.info = some { i with exif := some b } := by
  obtain ⟨i, hi, hn, hf⟩ := ha.elim
  obtain ⟨d', h1, h2⟩ := feed_exif cfg d i _ _ _ _ b (by simpa using hf) (ms_of d i hi hn)
  refine ⟨d', i, hi, h1, ?_⟩
  have := congrArg MS.info h2
  rw [nonEmpty_some, skipped_of_ne b hb] at this
  exact this

/-- what really happens for every block, the empty one included, for either value of the switch -/
theorem C17_roundtrip_exif (cfg : Cfg) (d : Dec) (b : Bytes) (ha : Acceptable d (fun i => i.exif.isNone)) :
    ∃ d' i, d.info = some i ∧ feedChunk cfg d (eXIf, b) = .ok d' ∧
      d'.info = some { i with exif := nonEmpty (some b) } := by
  obtain ⟨i, hi, hn, hf⟩ := ha.elim
  obtain ⟨d', h1, h2⟩ := feed_exif cfg d i _ _ _ _ b (by simpa using hf) (ms_of d i hi hn)
  exact ⟨d', i, hi, h1, congrArg MS.info h2⟩

/-- with the decoder repair (empty chunks are parsed) the full statement holds -/
theorem C17_roundtrip_exif_of_parseEmpty (h : parseEmptyChunks = true) : C17_roundtrip_exif_statement := by
  intro cfg d b ha
  obtain ⟨d', i, hi, h1, h2⟩ := C17_roundtrip_exif cfg d b ha
  refine ⟨d', i, hi, h1, ?_⟩
  rw [h2, nonEmpty_some]
  simp [skipped, h]

/-- with today's decoder it does not: the empty EXIF block is written as an eXIf chunk of length 0,
which the decoder does not see -/
theorem C17_roundtrip_exif_counterexample (h : parseEmptyChunks = false) : ¬ C17_roundtrip_exif_statement := by
  intro hst
  obtain ⟨d', i, hi, h1, h2⟩ := hst (cfgOf toyCodec)
    { info := some { width := 1, height := 1, depth := 8, color := 0, interlaced := false } } []
    (by decide)
  rw [feedChunk_empty _ _ _ h] at h1
  simp only [Except.ok.injEq] at h1
  subst h1
  simp only [Option.some.injEq] at hi
  subst hi
  revert h2
  decide

/-- which of the two holds for the decoder as modelled now (compiles for either value of the switch) -/
theorem C17_roundtrip_exif_current :
    if parseEmptyChunks then C17_roundtrip_exif_statement else ¬ C17_roundtrip_exif_statement := by
  cases h : parseEmptyChunks with
  | true => simp only [if_true]; exact C17_roundtrip_exif_of_parseEmpty h
  | false => simp only [Bool.false_eq_true, if_false]; exact C17_roundtrip_exif_counterexample h

/-- PLTE: every non-empty palette — every palette once empty chunks are parsed — comes back byte for
byte (its length is charged to `Limits`) -/
theorem C17_roundtrip_plte (cfg : Cfg) (d : Dec) (b : Bytes) (hl : b.length ≤ d.limit)
    (ha : Acceptable d (fun i => i.palette.isNone)) :
    ∃ d' i, d.info = some i ∧ feedChunk cfg d (PLTE, b) = .ok d' ∧
      d'.info = some { i with palette := nonEmpty (some b) } ∧
      (b ≠ [] ∨ parseEmptyChunks = true → nonEmpty (some b) = some b) := by
  obtain ⟨i, hi, hn, hf⟩ := ha.elim
  obtain ⟨d', h1, h2⟩ := feed_plte cfg d i _ _ _ _ b (by simpa using hf) hl (ms_of d i hi hn)
  refine ⟨d', i, hi, h1, congrArg MS.info h2, ?_⟩
  intro hb
  rw [nonEmpty_some]
  rcases hb with hb | hb
  · rw [skipped_of_ne b hb]; rfl
  · simp [skipped, hb]

/-- tRNS: when the chunk applies to the colour type (`trnsTaken`: 2 bytes for grayscale, 6 for RGB, a
palette seen for indexed) it is stored in the decoder's form (`trnsStored`: for indexed images and
for 16-bit samples the bytes themselves; below 16 bits the low byte of each sample); otherwise —
and when it is empty — nothing is stored and decoding goes on -/
theorem C17_roundtrip_trns (cfg : Cfg) (d : Dec) (b : Bytes) (hl : b.length ≤ d.limit)
    (ha : Acceptable d (fun i => i.trns.isNone)) :
    ∃ d' i, d.info = some i ∧ feedChunk cfg d (tRNS, b) = .ok d' ∧
      d'.info = some { i with trns := trnsRead i.color i.depth i.palette.isSome (some b) } ∧
      (b ≠ [] ∨ parseEmptyChunks = true → trnsTaken i.color i.palette.isSome b = true →
        trnsRead i.color i.depth i.palette.isSome (some b) = some (trnsStored i.color i.depth b)) ∧
      (i.color = 3 ∨ i.depth = 16 → trnsStored i.color i.depth b = b) := by
  obtain ⟨i, hi, hn, hf⟩ := ha.elim
  obtain ⟨d', h1, h2⟩ := feed_trns cfg d i _ _ _ _ b (by simpa using hf) hl (ms_of d i hi hn)
  refine ⟨d', i, hi, h1, congrArg MS.info h2, ?_, ?_⟩
  · intro hb ht
    rw [trnsRead_some]
    have : skipped b = false := by
      rcases hb with hb | hb
      · exact skipped_of_ne b hb
      · simp [skipped, hb]
    simp only [this, Bool.false_eq_true, if_false, ht, if_true]
  · intro h
    unfold trnsStored
    rcases h with h | h
    · simp [h]
    · simp [h]

/-- iCCP: a profile of any length, provided the decoder's remaining `Limits` budget admits it; the
codec contract is the only thing assumed about zlib -/
theorem C17_roundtrip_iccp (cfg : Cfg) (z : ZCodec) (hz : z.Ok) (hc : CfgAgrees cfg z) (d : Dec)
    (profile : Bytes) (hl : profile.length ≤ d.limit) (ho : d.opts.ignoreIccp = false)
    (hic : d.haveIccp = false) (ha : Acceptable d (fun _ => true)) :
    ∃ d' i, d.info = some i ∧ feedChunk cfg d (iCCP, encodeIccp z profile) = .ok d' ∧
      d'.info = some { i with icc := some profile } := by
  obtain ⟨i, hi, hn, _⟩ := ha.elim
  obtain ⟨d', h1, h2⟩ := feed_iccp cfg d i d.limit d.opts d.seqNo z hz hc profile hl ho
    (by simp only [ms, hi, hn, hic])
  exact ⟨d', i, hi, h1, congrArg MS.info h2⟩

/-- tEXt: every chunk the encoder accepts is stored as a chunk that `Info` presents as the same
keyword and text -/
theorem C17_roundtrip_text (cfg : Cfg) (d : Dec) (c : TEXt) (body : Bytes) (h : c.encodeBody = .ok body)
    (hl : body.length ≤ d.limit) (ho : d.opts.ignoreText = false) (ha : Acceptable d (fun _ => true)) :
    ∃ d' i tc, d.info = some i ∧ feedChunk cfg d (Framing.tEXt, body) = .ok d' ∧
      d'.info = some { i with text := i.text ++ [tc] } ∧ viewText tc = some (.t c) := by
  obtain ⟨i, hi, hn, _⟩ := ha.elim
  obtain ⟨d', tc, h1, hv, h2⟩ := feed_tEXt cfg d i _ _ _ _ c body h hl ho (ms_of d i hi hn)
  exact ⟨d', i, tc, hi, h1, congrArg MS.info h2, hv⟩

/-- zTXt: stored in the compressed state, same keyword, same text through `get_text` -/
theorem C17_roundtrip_ztxt (cfg : Cfg) (z : ZCodec) (hz : z.Ok) (d : Dec) (c : ZTXt) (body : Bytes)
    (h : c.encodeBody z = .ok body) (hl : body.length ≤ d.limit) (ho : d.opts.ignoreText = false)
    (ha : Acceptable d (fun _ => true)) :
    ∃ d' i tc c', d.info = some i ∧ feedChunk cfg d (Framing.zTXt, body) = .ok d' ∧
      d'.info = some { i with text := i.text ++ [tc] } ∧ viewText tc = some (.z c') ∧
      c'.keyword = c.keyword ∧ c'.getText z = c.getText z := by
  obtain ⟨i, hi, hn, _⟩ := ha.elim
  obtain ⟨d', tc, h1, hv, h2⟩ := feed_zTXt cfg d i _ _ _ _ z c body h hl ho (ms_of d i hi hn)
  obtain ⟨c', hp, hk, hg⟩ := zTXt_roundtrip_text z hz c body h
  have : c' = (c.compress z).1 := by
    have := zTXt_roundtrip z c body h
    rw [hp] at this; exact Except.ok.inj this
  subst this
  exact ⟨d', i, tc, _, hi, h1, congrArg MS.info h2, hv, hk, hg⟩

/-- iTXt: every chunk the encoder accepts is read back with the same keyword, flag, language tag,
translated keyword and text — the three ways a text can be held (plain; to be compressed; already
compressed, to be written either way) alike.  The one kind of chunk that holds no text — a compressed
payload, to be written uncompressed, that does not inflate or inflates to something that is not
UTF-8 — is refused (`CompressionError` / `Unrepresentable`), so nothing the decoder would reject is
ever written. -/
theorem C17_roundtrip_itxt (cfg : Cfg) (z : ZCodec) (hz : z.Ok) (hc : CfgAgrees cfg z) (c : ITXt) :
    (∀ (d : Dec) (body : Bytes), c.encodeBody z = .ok body → body.length ≤ d.limit →
      d.opts.ignoreText = false → Acceptable d (fun _ => true) →
      ∃ d' i tc c', d.info = some i ∧ feedChunk cfg d (Framing.iTXt, body) = .ok d' ∧
        d'.info = some { i with text := i.text ++ [tc] } ∧ viewText tc = some (.i c') ∧
        c'.keyword = c.keyword ∧ c'.compressed = c.compressed ∧ c'.languageTag = c.languageTag ∧
        c'.translatedKeyword = c.translatedKeyword ∧ c'.getText z = c.getText z) ∧
    (∀ (v data : Bytes), encodeKeyword c.keyword = .ok data → isAsciiStr c.languageTag = true →
      NulFree c.languageTag → NulFree c.translatedKeyword → c.compressed = false → c.text = .compressed v →
      (z.decompress v = none → c.encodeBody z = .error .compressionError) ∧
      (∀ raw, z.decompress v = some raw → utf8Decode raw = none → c.encodeBody z = .error .unrepresentable)) := by
  constructor
  · intro d body h hl ho ha
    obtain ⟨i, hi, hn, _⟩ := ha.elim
    obtain ⟨d', tc, h1, hv, h2⟩ := feed_iTXt cfg d i _ _ _ _ z hc c body h hl ho (ms_of d i hi hn)
    obtain ⟨e1, e2, e3, e4, e5⟩ := ITXt.readBack_same z hz c
    exact ⟨d', i, tc, _, hi, h1, congrArg MS.info h2, hv, e1, e2, e3, e4, e5⟩
  · intro v data hk hl hln htn hcf hs
    exact iTXt_inflated_refused z c v data hk hl hln htn hcf hs

/-! ## sRGB: the documented override -/

/-- With an sRGB intent configured: the intent is read back; `gamma()` / `chromaticities()` return the
substitutes of `srgb.rs` whatever was configured; a gAMA / cHRM chunk exists in the file only when the
configured value *is* the substitute; the ICC profile is not written.  Without: all three are read
back as configured. -/
theorem C17_srgb_override (m : MetaConfig) :
    (∀ r, m.srgb = some r →
      (expectedInfo m).srgb = some r ∧
      infoGamma (expectedInfo m) = some substituteGamma ∧
      infoChroma (expectedInfo m) = some substituteChroma.toList ∧
      (expectedInfo m).gama = (if m.gamma = some substituteGamma then some substituteGamma else none) ∧
      (expectedInfo m).chrm = (if m.chroma = some substituteChroma then some substituteChroma.toList else none) ∧
      (expectedInfo m).icc = none) ∧
    (m.srgb = none →
      infoGamma (expectedInfo m) = m.gamma ∧ infoChroma (expectedInfo m) = m.chroma.map Chromaticities.toList ∧
      (expectedInfo m).icc = m.icc) := by
  constructor
  · intro r hr
    simp [expectedInfo, infoGamma, infoChroma, gamaWritten, chrmWritten, iccWritten, hr]
  · intro hr
    simp [expectedInfo, infoGamma, infoChroma, gamaWritten, chrmWritten, iccWritten, hr]

/-! ## The whole header -/

/-- For **every** configuration the encoder accepts (`encodeHeaderChunks z m = .ok cs`), with a codec
that satisfies its contract, a decoder that does not ignore text or ICC chunks and whose `Limits`
cover what the chunks charge: feeding all chunks of the header, IHDR included, to a fresh decoder
succeeds, and afterwards `Info` holds exactly `expectedInfo m` and presents the text chunks of `m`, in
order, as `expectedViews z m`.  There is no hypothesis about `m` beyond typing. -/
theorem C17_header_roundtrip (cfg : Cfg) (z : ZCodec) (hz : z.Ok) (hc : CfgAgrees cfg z) (m : MetaConfig)
    (hr : m.InRange) (cs : List Chunk) (h : encodeHeaderChunks z m = .ok cs)
    (opts : Options) (ho1 : opts.ignoreText = false) (ho2 : opts.ignoreIccp = false)
    (lim : Nat) (hl : m.budget z ≤ lim) :
    ∃ d i, feedChunks cfg { opts := opts, limit := lim } cs = .ok d ∧ d.info = some i ∧ d.haveIdat = false ∧
      { i with text := [] } = expectedInfo m ∧ i.text.map viewText = expectedViews z m := by
  obtain ⟨d, tcs, h1, hv, h2⟩ := header_roundtrip cfg z hz hc m hr cs h { opts := opts, limit := lim } lim opts none
    ho1 ho2 hl rfl
  exact ⟨d, _, h1, congrArg MS.info h2, congrArg MS.haveIdat h2, rfl, hv⟩

/-- … and what `expectedViews` means for a reader of the text chunks: the i-th tEXt chunk is the one
configured; a zTXt / iTXt chunk has the configured keyword (flag, language tag, translated keyword)
and `get_text` returns the configured text -/
theorem C17_header_texts (z : ZCodec) (hz : z.Ok) (m : MetaConfig) :
    expectedViews z m =
      m.tEXt.map (fun c => some (.t c)) ++ m.zTXt.map (fun c => some (.z (c.compress z).1)) ++
      m.iTXt.map (fun c => some (.i (c.readBack z))) ∧
    (∀ c : ZTXt, ((c.compress z).1).keyword = c.keyword ∧
      ((c.compress z).2 = .ok () → ((c.compress z).1).getText z = c.getText z)) ∧
    (∀ c : ITXt, (c.readBack z).keyword = c.keyword ∧ (c.readBack z).compressed = c.compressed ∧
      (c.readBack z).languageTag = c.languageTag ∧ (c.readBack z).translatedKeyword = c.translatedKeyword ∧
      (c.readBack z).getText z = c.getText z) :=
  ⟨rfl, fun c => ⟨rfl, fun h => OptC.getText_compress hz latin1Coding_ok c.text h⟩,
   fun c => ITXt.readBack_same z hz c⟩

/-- a configuration whose blobs survive as they are: a transparency that applies to the colour type
and — while empty chunks are not parsed — no empty EXIF / palette / transparency -/
def Clean (m : MetaConfig) : Prop :=
  (parseEmptyChunks = false → m.exif ≠ some [] ∧ m.palette ≠ some [] ∧ m.trns ≠ some []) ∧
  (∀ v, m.trns = some v → trnsTaken m.color m.palette.isSome v = true)

instance (m : MetaConfig) : Decidable (Clean m) := by
  unfold Clean
  cases m.trns <;> simp <;> infer_instance

/-- Full statement: every metadata field of the configuration is read back as it is (transparency in
the decoder's form), for every accepted configuration. -/
def C17_header_roundtrip_statement : Prop :=
  ∀ (cfg : Cfg) (z : ZCodec), z.Ok → CfgAgrees cfg z → ∀ (m : MetaConfig), m.InRange →
    ∀ (cs : List Chunk), encodeHeaderChunks z m = .ok cs →
    ∀ (opts : Options), opts.ignoreText = false → opts.ignoreIccp = false →
    ∀ (lim : Nat), m.budget z ≤ lim →
    ∃ d i, feedChunks cfg { opts := opts, limit := lim } cs = .ok d ∧ d.info = some i ∧
      i.exif = m.exif ∧ i.palette = m.palette ∧ i.trns = m.trns.map (trnsStored m.color m.depth)

/-- for clean configurations the fields are read back as they are -/
theorem C17_header_roundtrip_partial (cfg : Cfg) (z : ZCodec) (hz : z.Ok) (hc : CfgAgrees cfg z)
    (m : MetaConfig) (hr : m.InRange) (hclean : Clean m) (cs : List Chunk) (h : encodeHeaderChunks z m = .ok cs)
    (opts : Options) (ho1 : opts.ignoreText = false) (ho2 : opts.ignoreIccp = false)
    (lim : Nat) (hl : m.budget z ≤ lim) :
    ∃ d i, feedChunks cfg { opts := opts, limit := lim } cs = .ok d ∧ d.info = some i ∧
      i.width = m.width ∧ i.height = m.height ∧ i.depth = m.depth ∧ i.color = m.color ∧
      i.pixelDims = m.pixelDims.map (fun p => (p.xppu, p.yppu, if p.meter then 1 else 0)) ∧
      i.srgb = m.srgb ∧
      infoGamma i = (if m.srgb.isSome then some substituteGamma else m.gamma) ∧
      infoChroma i = (if m.srgb.isSome then some substituteChroma.toList else m.chroma.map Chromaticities.toList) ∧
      i.icc = (if m.srgb.isSome then none else m.icc) ∧
      i.exif = m.exif ∧ i.actl = m.actl ∧ i.palette = m.palette ∧
      i.trns = m.trns.map (trnsStored m.color m.depth) ∧
      i.text.map viewText = expectedViews z m := by
  obtain ⟨d, i, h1, h2, _, h4, h5⟩ := C17_header_roundtrip cfg z hz hc m hr cs h opts ho1 ho2 lim hl
  obtain ⟨c0, c3⟩ := hclean
  have e : ∀ {α : Type} (f : Info → α), (∀ j : Info, f { j with text := [] } = f j) → f i = f (expectedInfo m) := by
    intro α f hf; rw [← h4, hf]
  have keep : ∀ (o : Option Bytes), (parseEmptyChunks = false → o ≠ some []) → nonEmpty o = o := by
    intro o ho
    cases o with
    | none => rfl
    | some b =>
      rw [nonEmpty_some]
      have : skipped b = false := by
        cases hsk : skipped b with
        | false => rfl
        | true =>
          obtain ⟨hb, hp⟩ := skipped_true b hsk
          exact absurd (by rw [hb]) (ho hp)
      rw [this]; rfl
  have hexif : nonEmpty m.exif = m.exif := keep _ (fun hp => (c0 hp).1)
  have hplte : nonEmpty m.palette = m.palette := keep _ (fun hp => (c0 hp).2.1)
  have htrns : trnsRead m.color m.depth (nonEmpty m.palette).isSome m.trns = m.trns.map (trnsStored m.color m.depth) := by
    rw [hplte]
    cases hx : m.trns with
    | none => rfl
    | some v =>
      have hv2 := c3 v hx
      rw [trnsRead_some]
      have : skipped v = false := by
        cases hsk : skipped v with
        | false => rfl
        | true =>
          obtain ⟨hb, hp⟩ := skipped_true v hsk
          exact absurd (by rw [hx, hb]) (c0 hp).2.2
      simp only [this, Bool.false_eq_true, if_false, hv2, if_true, Option.map_some]
  refine ⟨d, i, h1, h2, e (·.width) (fun _ => rfl), e (·.height) (fun _ => rfl), e (·.depth) (fun _ => rfl),
    e (·.color) (fun _ => rfl), e (·.pixelDims) (fun _ => rfl), e (·.srgb) (fun _ => rfl), ?_, ?_, ?_, ?_,
    e (·.actl) (fun _ => rfl), ?_, ?_, h5⟩
  · rw [e infoGamma (fun _ => rfl)]
    cases hs : m.srgb <;> simp [infoGamma, expectedInfo, gamaWritten, hs]
  · rw [e infoChroma (fun _ => rfl)]
    cases hs : m.srgb <;> simp [infoChroma, expectedInfo, chrmWritten, hs]
  · rw [e (·.icc) (fun _ => rfl)]
    cases hs : m.srgb <;> simp [expectedInfo, iccWritten, hs]
  · rw [e (·.exif) (fun _ => rfl)]; exact hexif
  · rw [e (·.palette) (fun _ => rfl)]; exact hplte
  · rw [e (·.trns) (fun _ => rfl)]; exact htrns

private def rgbaTrns : MetaConfig := { width := 1, height := 1, depth := 8, color := 6, trns := some [0, 7] }

/-- outside `Clean` the full statement fails, whatever the switch says: a transparency given for an
RGBA image is written by the encoder and skipped by the decoder -/
theorem C17_header_roundtrip_counterexample : ¬ C17_header_roundtrip_statement := by
  intro h
  have hagree : CfgAgrees (cfgOf toyCodec) toyCodec := ⟨fun _ _ => rfl, fun _ => rfl⟩
  obtain ⟨d, i, h1, h2, _, _, h5⟩ := h (cfgOf toyCodec) toyCodec toyCodec_ok hagree rgbaTrns (by decide)
    [(IHDR, [0, 0, 0, 1, 0, 0, 0, 1, 8, 6, 0, 0, 0]), (tRNS, [0, 7])] (by decide) {} rfl rfl 2 (by decide)
  obtain ⟨d', i', g1, g2, _, g4, _⟩ := C17_header_roundtrip (cfgOf toyCodec) toyCodec toyCodec_ok hagree rgbaTrns
    (by decide) [(IHDR, [0, 0, 0, 1, 0, 0, 0, 1, 8, 6, 0, 0, 0]), (tRNS, [0, 7])] (by decide) {} rfl rfl 2 (by decide)
  rw [g1] at h1
  cases h1
  rw [g2] at h2
  cases h2
  have : ({ i with text := [] } : Info).trns = none := by
    rw [g4]
    simp only [expectedInfo, rgbaTrns, trnsRead_some]
    cases skipped [0, 7] <;> rfl
  rw [show ({ i with text := [] } : Info).trns = i.trns from rfl, h5] at this
  revert this
  decide

/-- every chunk of the header is taken in its position: feeding any prefix succeeds and the next
chunk is then not refused -/
theorem C17_header_no_chunk_refused (cfg : Cfg) (d0 d : Dec) (pre post : List Chunk) (c : Chunk)
    (h : feedChunks cfg d0 (pre ++ c :: post) = .ok d) :
    ∃ d1 d2, feedChunks cfg d0 pre = .ok d1 ∧ feedChunk cfg d1 c = .ok d2 ∧ feedChunks cfg d2 post = .ok d := by
  rw [feedChunks_append] at h
  cases h1 : feedChunks cfg d0 pre with
  | error e => rw [h1] at h; cases h
  | ok d1 =>
    rw [h1] at h
    simp only [feedChunks] at h
    cases h2 : feedChunk cfg d1 c with
    | error e => rw [h2] at h; cases h
    | ok d2 => rw [h2] at h; exact ⟨d1, d2, rfl, h2, h⟩

/-! ## Frame control -/

/-- fcTL: every field is read back, for every frame control whose fields fit their types, whose
sequence number is the one the decoder expects next, and whose rectangle is non-empty and inside the
canvas (`FcInv`) … -/
theorem C17_fctl_roundtrip (cfg : Cfg) (d : Dec) (i : Info) (fc : FrameControl) (hr : FcInRange fc)
    (hs : SeqOk d.seqNo fc.seq) (hb : FcInv i.width i.height fc) (hi : d.info = some i) :
    ∃ d', feedChunk cfg d (fcTL, encodeFctl fc) = .ok d' ∧
      d'.info = some { i with fctl := some fc } ∧ d'.seqNo = some fc.seq := by
  have hp := parseFctl_enc (armed d fcTL (encodeFctl fc)) i fc hr hs hb hi rfl
  refine ⟨_, feedChunk_of_dispatch cfg d _ fcTL _ _ (be32Bytes_ne_nil _ _) (by rw [dispatch_fcTL]; exact hp), ?_, rfl⟩
  simp only [setInfo, armed, hi, Option.map_some]

/-- … and that is the case for every frame control the setters can produce: starting from
`set_animated` on a non-empty canvas, any sequence of `set_frame_dimension`, `set_frame_position`,
`reset_frame_dimension`, `reset_frame_position`, `set_frame_delay`, `set_blend_op`, `set_dispose_op`
calls (refused calls change nothing) leaves a frame control with `FcInv` and `FcInRange`; the
subtraction in `reset_frame_dimension` never underflows -/
theorem C17_fctl_setters (cw ch : Nat) (hcw : U32 cw) (hch : U32 ch) (hw0 : cw ≠ 0) (hh0 : ch ≠ 0)
    (ops : List FcOp) (ho : ∀ op ∈ ops, op.InRange) :
    FcInv cw ch (applyOps cw ch (initialFc cw ch) ops) ∧ FcInRange (applyOps cw ch (initialFc cw ch) ops) ∧
    (∀ fc, FcInv cw ch fc → fc.x ≤ cw ∧ fc.y ≤ ch) :=
  ⟨(applyOps_inv cw ch hcw hch ops _ (initialFc_inv cw ch hw0 hh0) (initialFc_inRange cw ch hcw hch) ho).1,
   (applyOps_inv cw ch hcw hch ops _ (initialFc_inv cw ch hw0 hh0) (initialFc_inRange cw ch hcw hch) ho).2,
   fun fc h => by obtain ⟨_, _, h3, h4⟩ := h; omega⟩

/-- which calls are refused: exactly those that would leave the canvas or make the frame empty -/
theorem C17_fctl_refusals (cw ch : Nat) (fc : FrameControl) (hinv : FcInv cw ch fc) :
    (∀ w h, (∃ e, applyOp cw ch fc (.dimension w h) = .error e) ↔ (w = 0 ∨ h = 0 ∨ fc.x + w > cw ∨ fc.y + h > ch)) ∧
    (∀ x y, (∃ e, applyOp cw ch fc (.position x y) = .error e) ↔ (x + fc.width > cw ∨ y + fc.height > ch)) := by
  obtain ⟨h1, h2, h3, h4⟩ := hinv
  constructor
  · intro w h
    simp only [applyOp]
    constructor
    · rintro ⟨e, he⟩
      split at he
      · omega
      · split at he
        · left; assumption
        · split at he
          · right; left; assumption
          · cases he
    · intro hh
      by_cases hc : cw < fc.x ∨ w > cw - fc.x ∨ ch < fc.y ∨ h > ch - fc.y
      · exact ⟨_, by rw [if_pos hc]⟩
      · rw [if_neg hc]
        by_cases hw : w = 0
        · exact ⟨_, by rw [if_pos hw]⟩
        · rw [if_neg hw]
          by_cases hh' : h = 0
          · exact ⟨_, by rw [if_pos hh']⟩
          · omega
  · intro x y
    simp only [applyOp]
    constructor
    · rintro ⟨e, he⟩
      split at he
      · omega
      · cases he
    · intro hh
      exact ⟨_, by rw [if_pos (by omega)]⟩

/-- The stream writer's setters: a call accepted during a session (`fcStep … (.streamSet op)`) changes
nothing that is written for the current frame, and in the **next** frame's `fcTL` (`nextFrame`:
`set_fctl` with the copy) exactly the fields the setter names — every other field is the copy's, the
sequence number the writer's.  The frame control written then again satisfies `FcInv` / `FcInRange`,
so by `C17_fctl_roundtrip` the decoder reads back all nine fields.  A refused call changes nothing. -/
theorem C17_fctl_stream_setters (cw ch : Nat) (wfc c : FrameControl) (op : FcOp) :
    (∀ c', applyOp cw ch c op = .ok c' →
      fcStep cw ch ⟨wfc, some c⟩ (.streamSet op) = (⟨wfc, some c'⟩, some (.ok ()), none) ∧
      (fcStep cw ch ⟨wfc, some c'⟩ .nextFrame).2.2 = some (setFctl wfc c') ∧
      (setFctl wfc c').seq = wfc.seq ∧
      setFctl wfc c' = (match op with
        | .dimension w h => { setFctl wfc c with width := w, height := h }
        | .position x y => { setFctl wfc c with x := x, y := y }
        | .resetDimension => { setFctl wfc c with width := cw - c.x, height := ch - c.y }
        | .resetPosition => { setFctl wfc c with x := 0, y := 0 }
        | .delay n d => { setFctl wfc c with delayNum := n, delayDen := d }
        | .blend b => { setFctl wfc c with blend := b }
        | .dispose o => { setFctl wfc c with dispose := o }) ∧
      (FcInv cw ch c → FcInRange c → op.InRange → U32 cw → U32 ch → U32 wfc.seq →
        FcInv cw ch (setFctl wfc c') ∧ FcInRange (setFctl wfc c'))) ∧
    (∀ e, applyOp cw ch c op = .error e →
      fcStep cw ch ⟨wfc, some c⟩ (.streamSet op) = (⟨wfc, some c⟩, some (.error e), none)) := by
  constructor
  · intro c' h
    refine ⟨by simp only [fcStep, h], rfl, rfl, ?_, ?_⟩
    · rw [applyOp_fields cw ch c c' op h]
      cases op <;> rfl
    · intro hi hr ho hcw hch hs
      exact setFctl_inv cw ch wfc c' (applyOp_inv cw ch c c' op hi h)
        (applyOp_inRange cw ch c c' op hcw hch hr ho h) hs
  · intro e h
    simp only [fcStep, h]

/-! ## Refusal -/

/-- Which text chunks are refused, for each kind: exactly those that cannot be represented — keyword
empty, longer than 79 characters, with a character above U+00FF or a U+0000; for tEXt / zTXt a text
with a character above U+00FF; for iTXt a language tag that is not ASCII or contains U+0000, or a
translated keyword containing U+0000 (and, only for a stored compressed payload that must be
inflated to be written, a payload that does not inflate). -/
theorem C17_refusal_iff (z : ZCodec) :
    (∀ c : TEXt, (∃ e, c.encodeBody = .error e) ↔ ¬ (KeywordOk c.keyword ∧ IsLatin1 c.text)) ∧
    (∀ c : ZTXt, (∃ e, c.encodeBody z = .error e) ↔
      ¬ (KeywordOk c.keyword ∧ (∀ s, c.text = .uncompressed s → IsLatin1 s))) ∧
    (∀ c : ITXt, (∃ e, c.encodeBody z = .error e) ↔
      ¬ (KeywordOk c.keyword ∧ isAsciiStr c.languageTag = true ∧ NulFree c.languageTag ∧
        NulFree c.translatedKeyword ∧ (c.payload z).isSome = true)) := by
  have key : ∀ (r : Except TextEncErr Bytes), (∃ e, r = .error e) ↔ ¬ ∃ b, r = .ok b := by
    intro r; cases r <;> simp
  exact ⟨fun c => by rw [key, tEXt_accepted_iff], fun c => by rw [key, zTXt_accepted_iff],
    fun c => by rw [key, iTXt_accepted_iff]⟩

/-- A refused chunk contributes nothing.  `Writer::write_text_chunk`: the call returns the error and
the sink is unchanged.  `Encoder::add_text_chunk` / `add_ztxt_chunk` / `add_itxt_chunk` never
validate (they only push onto `Info` and return `Ok`): the refusal comes from `write_header`, which
stops at the first chunk that cannot be written — the sink then holds what the steps before it
wrote, nothing of the refused chunk and nothing after it. -/
theorem C17_refusal (z : ZCodec) :
    (∀ (sink : List Chunk) (t : ChunkType) (e : TextEncErr),
      writeTextChunk sink (textStep t (.error e)) = (sink, .error (.text e))) ∧
    (∀ (m : MetaConfig),
      ((∃ c ∈ m.tEXt, ∃ e, c.encodeBody = .error e) ∨ (∃ c ∈ m.zTXt, ∃ e, c.encodeBody z = .error e) ∨
       (∃ c ∈ m.iTXt, ∃ e, c.encodeBody z = .error e)) →
      ∃ sink e, writeHeader z m = (sink, .error e) ∧ encodeHeaderChunks z m = .error e) ∧
    (∀ (m : MetaConfig) (sink : List Chunk) (e : EncErr), m.width ≠ 0 → m.height ≠ 0 →
      combinationInvalid m.color m.depth = false → writeHeader z m = (sink, .error e) →
      ∃ (pre : List (List Chunk)) (rest : List (Except EncErr (List Chunk))),
        headerSteps z m = pre.map .ok ++ .error e :: rest ∧ sink = pre.flatten) := by
  refine ⟨fun sink t e => rfl, ?_, fun m sink e hw hh hc h => writeHeader_error z m sink e hw hh hc h⟩
  intro m h
  have key : ∀ (r : Except TextEncErr Bytes), (∃ e, r = .error e) → ¬ ∃ b, r = .ok b := by
    intro r ⟨e, he⟩ ⟨b, hb⟩; rw [he] at hb; cases hb
  obtain ⟨sink, e, hr⟩ := writeHeader_refuses z m (by
    rcases h with ⟨c, hc, he⟩ | ⟨c, hc, he⟩ | ⟨c, hc, he⟩
    · exact Or.inl ⟨c, hc, key _ he⟩
    · exact Or.inr (Or.inl ⟨c, hc, key _ he⟩)
    · exact Or.inr (Or.inr ⟨c, hc, key _ he⟩))
  exact ⟨sink, e, hr, by simp only [encodeHeaderChunks, hr]⟩

/-- the listed cases, one by one, with the error they produce -/
theorem C17_refusal_cases (z : ZCodec) (c : TEXt) :
    (c.keyword.length = 0 → IsLatin1 c.keyword → c.encodeBody = .error .invalidKeywordSize) ∧
    (c.keyword.length > 79 → IsLatin1 c.keyword → c.encodeBody = .error .invalidKeywordSize) ∧
    (¬ IsLatin1 c.keyword → c.encodeBody = .error .unrepresentable) ∧
    (KeywordOk c.keyword → ¬ IsLatin1 c.text → c.encodeBody = .error .unrepresentable) ∧
    (∀ ci : ITXt, KeywordOk ci.keyword → isAsciiStr ci.languageTag = false →
      ci.encodeBody z = .error .unrepresentable) := by
  refine ⟨?_, ?_, ?_, ?_, ?_⟩
  · intro h0 hl
    have := (encodeKeyword_err_iff c.keyword .invalidKeywordSize).mpr (Or.inr (Or.inl ⟨hl, Or.inl h0, rfl⟩))
    simp only [TEXt.encodeBody, this]
  · intro h0 hl
    have := (encodeKeyword_err_iff c.keyword .invalidKeywordSize).mpr (Or.inr (Or.inl ⟨hl, Or.inr h0, rfl⟩))
    simp only [TEXt.encodeBody, this]
  · intro hl
    have := (encodeKeyword_err_iff c.keyword .unrepresentable).mpr (Or.inl ⟨hl, rfl⟩)
    simp only [TEXt.encodeBody, this]
  · intro hk ht
    obtain ⟨data, hd⟩ := (encodeKeyword_isOk_iff _).mpr hk
    cases he : encodeLatin1 c.text with
    | ok b => exact absurd (encodeLatin1_isLatin1 _ _ he) ht
    | error e =>
      rw [latin1_encode_err_kind _ e he] at he
      simp only [TEXt.encodeBody, hd, he]
  · intro ci hk ha
    obtain ⟨data, hd⟩ := (encodeKeyword_isOk_iff _).mpr hk
    rw [ITXt.encodeBody_eq, hd]
    simp [ha]

/-! ## Non-vacuity -/

-- the hypotheses about the codec and the decoder configuration are satisfiable
example : toyCodec.Ok ∧ CfgAgrees (cfgOf toyCodec) toyCodec := ⟨toyCodec_ok, ⟨fun _ _ => rfl, fun _ => rfl⟩⟩
-- chunk bodies
example : encodePhys ⟨2835, 4294967295, true⟩ = [0, 0, 0x0B, 0x13, 0xFF, 0xFF, 0xFF, 0xFF, 1] := by decide
example : encodeGama 45455 = [0, 0, 0xB1, 0x8F] ∧ encodeSrgb 3 = [3] ∧ encodeActl (3, 0) = [0, 0, 0, 3, 0, 0, 0, 0] := by decide
example : encodeFctl ⟨7, 4, 3, 2, 1, 65535, 100, 2, 1⟩ =
    [0,0,0,7, 0,0,0,4, 0,0,0,3, 0,0,0,2, 0,0,0,1, 0xFF,0xFF, 0,100, 2, 1] := by decide
example : encodeIccp toyCodec [1, 2, 3] = [0x5F, 0, 0, 0x78, 1, 2, 3] := by decide
-- a header with sRGB + the substitute gamma + another chromaticity + an ICC profile + text: order of
-- the chunks, gAMA written, cHRM and iCCP not
private def srgbHeader : MetaConfig :=
  { width := 2, height := 1, depth := 8, color := 3, srgb := some 1, gamma := some 45455,
    chroma := some ⟨1, 2, 3, 4, 5, 6, 7, 8⟩, icc := some [9], palette := some [1, 2, 3], trns := some [0],
    tEXt := [⟨"k", "v"⟩] }
example : (encodeHeaderChunks toyCodec srgbHeader).map (fun cs => cs.map (fun c => typeName c.1)) =
    .ok ["IHDR", "sRGB", "gAMA", "PLTE", "tRNS", "tEXt"] := by decide
-- the whole header is read back (instance of `C17_header_roundtrip`, computed)
example : ((feedChunks (cfgOf toyCodec) {} [(IHDR, encodeIhdr 2 1 8 3), (gAMA, encodeGama 7),
      (iCCP, encodeIccp toyCodec [9, 9]), (PLTE, [1, 2, 3]), (tRNS, [5]), (Framing.tEXt, [0x6B, 0, 0x76])]).map
      (fun d => d.info)) =
    .ok (some {
      width := 2, height := 1, depth := 8, color := 3, interlaced := false, gama := some 7,
      icc := some [9, 9], palette := some [1, 2, 3], trns := some [5], text := [.tEXt [0x6B] [0x76]] }) := by decide
-- tRNS in the decoder's form; skipped where it does not apply
example : trnsStored 0 8 [0, 5] = [5] ∧ trnsStored 2 8 [0, 1, 0, 2, 0, 3] = [1, 2, 3] ∧
    trnsStored 0 16 [1, 5] = [1, 5] ∧ trnsTaken 6 false [0, 0] = false ∧ trnsTaken 0 false [7] = false := by decide
-- refusals, and the sink after a refused header: IHDR and the first text chunk only
example : (TEXt.mk "" "x").encodeBody = .error .invalidKeywordSize ∧
    (TEXt.mk "k" "Ā").encodeBody = .error .unrepresentable ∧
    (ITXt.mk "k" false "é" "" (.uncompressed "x")).encodeBody toyCodec = .error .unrepresentable := by decide
private def refusedHeader : MetaConfig :=
  { width := 1, height := 1, depth := 8, color := 0, tEXt := [⟨"a", "1"⟩, ⟨"b\x00", "2"⟩, ⟨"c", "3"⟩] }
example : ((writeHeader toyCodec refusedHeader).1.map (fun c => typeName c.1), (writeHeader toyCodec refusedHeader).2) =
    (["IHDR", "tEXt"], .error (.text .unrepresentable)) := by decide
-- setters: a refused call changes nothing, an accepted one is visible
example : applyOps 10 8 (initialFc 10 8) [.position 3 0, .dimension 7 8, .position 3 0, .delay 1 2, .dispose 2] =
    ⟨0, 7, 8, 3, 0, 1, 2, 2, 0⟩ := by decide
-- stream writer: a setter during the first frame of a session shows in the second frame, with the
-- writer's sequence number; the first frame is written with the writer's own frame control
example : (fcRun 10 8 ⟨{ initialFc 10 8 with seq := 5 }, none⟩
    [.openStream true, .streamSet (.dispose 2), .streamSet (.dimension 99 1), .nextFrame, .closeStream, .image true] [] []).2 =
    ([.ok (), .error .outOfBounds],
     [⟨5, 10, 8, 0, 0, 1, 30, 0, 0⟩, ⟨5, 10, 8, 0, 0, 1, 30, 2, 0⟩, ⟨5, 10, 8, 0, 0, 1, 30, 2, 0⟩]) := by decide
example : FcInv 10 8 ⟨0, 7, 8, 3, 0, 1, 2, 2, 0⟩ ∧ FcInRange ⟨0, 7, 8, 3, 0, 1, 2, 2, 0⟩ ∧ SeqOk none 0 ∧ SeqOk (some 4) 5 := by
  decide

end Png.C17
