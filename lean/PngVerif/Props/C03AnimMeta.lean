import PngVerif.Proofs.RoundTripAnimMeta
import PngVerif.Props.C03Anim
/-!
# C03 — animations, end to end, with ALL the metadata `encode_header` writes

`Props/C03Anim.lean` goes through `C09.C09_frames`, whose layout `wellFormedApng` has `acTL` right behind `IHDR`; the crate's
`encode_header` writes `pHYs`, `sRGB`, `gAMA`, `cHRM`, `iCCP`, `eXIf` in front of `acTL`.  Here the hypothesis
`preChunks c.md = []` of `C03_anim_encode_decode` is dropped: `MetaOk` / `metaCost` of the still-image theorem
(`Props/C03RoundTrip.lean`) take the place of `PostOk` / `postCost`.  The decoder side is `Reader.apng_wf_gen` /
`apng_default_wf_gen` (`Proofs/RoundTripAnimGen.lean`): `apng_wf` / `apng_default_wf` re-proved with the bytes between `IHDR` and
the first frame arbitrary (read chunk by chunk, the `acTL` counts in `info` at the end).
-/
namespace Png.C03
open Png Png.Val Png.Enc Png.Framing Png.Reader Png.WellFormed Png.RoundTrip

/-- **C03 for animations, end to end, any metadata** (first frame = the `IDAT` image): `C03_anim_encode_decode` for EVERY
    animated configuration `write_header` accepts — `pHYs`, `sRGB` (with the substitute `gAMA` / `cHRM`), `gAMA`, `cHRM`,
    `iCCP`, `eXIf` in front of `acTL`; `PLTE`, `tRNS`, text chunks behind it.  `MetaOk`: the text chunks are well-formed, the
    bodies fit the length field, `P` bounds the decompressed ICC profile; the limit covers one line per frame and
    `metaCost P c`. -/
theorem C03_anim_meta_encode_decode (cfg : Framing.Cfg) (t : TCfg) (f : Flags) (opts : Options) (limit P : Nat)
    (compress : Bytes → Bytes) (choose : Bytes → Bytes → FilterType) (c : Enc.Cfg) (n plays : Nat) (f0 : FC)
    (fr0 : Frame) (frs : List Frame) (p0 : UInt8) (ps : List UInt8) (q : UInt8)
    (hI : cfg.InflateOk) (hcrc : ∀ b, cfg.crc b = crcOfList b) (ht : t.IsIdentity f)
    (hc : c.Anim n plays f0) (hsep : c.sepDefImg = false) (hm : MetaOk cfg opts.ignoreText P c)
    (hn : n = frs.length + 1) (h0 : FirstOk c f0 fr0)
    (hl : LaterOk (scanCodec compress choose) c { fcOf c.width c.height f0 fr0.pre with seq := 1 } frs)
    (hsz : c.rowLen * c.height < 2 ^ 64)
    (hnil : ∀ o, cfg.inflate [] ≠ some (o, true))
    (hinf0 : cfg.inflate (compress (rawOf choose c fr0.data)) = some (rawOf choose c fr0.data, true))
    (hinf : ∀ x ∈ decFrames compress choose c { fcOf c.width c.height f0 fr0.pre with seq := 1 } frs,
      cfg.inflate (compress x.2.2) = some (x.2.2, true))
    (hlimit : c.rowLen + lineSum c (fcOf c.width c.height f0 fr0.pre) frs + metaCost P c ≤ limit)
    (hps : ps.length = frs.length) :
    (runWriter (scanCodec compress choose) c {} (animOps (fr0 :: frs)) .finish).header = .ok ∧
    ResultsOk (animOps (fr0 :: frs)) (runWriter (scanCodec compress choose) c {} (animOps (fr0 :: frs)) .finish).results ∧
    (runWriter (scanCodec compress choose) c {} (animOps (fr0 :: frs)) .finish).final = some .ok ∧
    (Reader.run cfg t
      (R.init opts limit f (runWriter (scanCodec compress choose) c {} (animOps (fr0 :: frs)) .finish).state.sink.bytes
        (runWriter (scanCodec compress choose) c {} (animOps (fr0 :: frs)) .finish).state.sink.bytes.length)
      (.readInfo :: .nextFrame p0 :: (ps.map Op.nextFrame ++ [.nextFrame q]))).2 =
      .header :: .frame { width := c.width, height := c.height, color := c.color, depth := c.depth,
                          lineSize := c.rowLen } fr0.data ::
        (frameResults c (fcOf c.width c.height f0 fr0.pre) frs ps ++ [.err .parameter "PolledAfterEndOfImage"]) := by
  obtain ⟨rs, r1, r2, r3, r4, _⟩ := anim_run (scanCodec compress choose) c n plays f0 hc hsep fr0 frs hn h0 hl hsz
  rw [← r2] at r3
  exact ⟨r1, r3, r4, anim_meta_encode_decode_core cfg t f opts limit P compress choose c n plays f0 fr0 frs p0 ps q hI hcrc ht hc
    hsep hm hn h0 hl hsz hnil hinf0 hinf hlimit hps⟩

/-- **C03 for animations with a separate default image, any metadata** -/
theorem C03_anim_default_meta_encode_decode (cfg : Framing.Cfg) (t : TCfg) (f : Flags) (opts : Options) (limit P : Nat)
    (compress : Bytes → Bytes) (choose : Bytes → Bytes → FilterType) (c : Enc.Cfg) (n plays : Nat) (f0 : FC)
    (fr0 : Frame) (frs : List Frame) (p0 : UInt8) (ps : List UInt8) (q : UInt8)
    (hI : cfg.InflateOk) (hcrc : ∀ b, cfg.crc b = crcOfList b) (ht : t.IsIdentity f)
    (hc : c.Anim n plays f0) (hsep : c.sepDefImg = true) (hm : MetaOk cfg opts.ignoreText P c)
    (hn : n = frs.length) (h0 : FirstOk c f0 fr0)
    (hl : LaterOk (scanCodec compress choose) c (fcOf c.width c.height f0 fr0.pre) frs)
    (hsz : c.rowLen * c.height < 2 ^ 64)
    (hnil : ∀ o, cfg.inflate [] ≠ some (o, true))
    (hinf0 : cfg.inflate (compress (rawOf choose c fr0.data)) = some (rawOf choose c fr0.data, true))
    (hinf : ∀ x ∈ decFrames compress choose c (fcOf c.width c.height f0 fr0.pre) frs,
      cfg.inflate (compress x.2.2) = some (x.2.2, true))
    (hlimit : c.rowLen + lineSum c (fcOf c.width c.height f0 fr0.pre) frs + metaCost P c ≤ limit)
    (hps : ps.length = frs.length) :
    (runWriter (scanCodec compress choose) c {} (animOps (fr0 :: frs)) .finish).header = .ok ∧
    ResultsOk (animOps (fr0 :: frs)) (runWriter (scanCodec compress choose) c {} (animOps (fr0 :: frs)) .finish).results ∧
    (runWriter (scanCodec compress choose) c {} (animOps (fr0 :: frs)) .finish).final = some .ok ∧
    (Reader.run cfg t
      (R.init opts limit f (runWriter (scanCodec compress choose) c {} (animOps (fr0 :: frs)) .finish).state.sink.bytes
        (runWriter (scanCodec compress choose) c {} (animOps (fr0 :: frs)) .finish).state.sink.bytes.length)
      (.readInfo :: .nextFrame p0 :: (ps.map Op.nextFrame ++ [.nextFrame q]))).2 =
      .header :: .frame { width := c.width, height := c.height, color := c.color, depth := c.depth,
                          lineSize := c.rowLen } fr0.data ::
        (frameResults c (fcOf c.width c.height f0 fr0.pre) frs ps ++ [.err .parameter "PolledAfterEndOfImage"]) := by
  obtain ⟨rs, r1, r2, r3, r4, _⟩ := anim_default_run (scanCodec compress choose) c n plays f0 hc hsep fr0 frs hn h0 hl hsz
  rw [← r2] at r3
  exact ⟨r1, r3, r4, anim_default_meta_encode_decode_core cfg t f opts limit P compress choose c n plays f0 fr0 frs p0 ps q hI hcrc
    ht hc hsep hm hn h0 hl hsz hnil hinf0 hinf hlimit hps⟩

/-! ## Non-vacuity -/

section Examples
open Png.Framing.Toy Png.Reader.Toy

/-- 3×2, 2-bit palette, two frames, with `pHYs`, `gAMA`, `iCCP` (in front of `acTL`), `PLTE`, `tRNS` and a `tEXt` chunk (behind it) -/
def cfgAnimPal : Enc.Cfg :=
  { width := 3, height := 2, color := 3, depth := 2, actl := some (2, 0), fctl := some { w := 3, h := 2 },
    palette := some [0, 0, 0, 255, 0, 0, 0, 255, 0, 0, 0, 255], trns := some [0, 128],
    md := { phys := some [0, 0, 11, 19, 0, 0, 11, 19, 1], gama := some 45455, iccp := some [95, 0, 0, 1, 2, 3] },
    texts := [some ⟨tyTEXT, [65, 0, 66]⟩] }

example : cfgAnimPal.Anim 2 0 { w := 3, h := 2 } ∧
    (headerChunks cfgAnimPal).map (·.ty) = [tyIHDR, tyPHYS, tyGAMA, tyICCP, tyACTL, tyPLTE, tyTRNS, tyTEXT] := by decide

theorem cfgAnimPal_metaOk (ig : Bool) : MetaOk rtCfg ig 6 cfgAnimPal := by
  refine ⟨?_, by decide, ?_⟩
  · intro ch h
    have : ch = ⟨tyTEXT, [65] ++ 0 :: [66]⟩ := by simpa [cfgAnimPal, textPrefix] using h
    rw [this]
    exact ⟨Or.inl ty_eqs.2.2.2.2.2.2.2.2.2.2.2.1, fun _ => by
      rw [show tyTEXT = tEXt from ty_eqs.2.2.2.2.2.2.2.2.2.2.2.1]
      exact .tEXt [65] [66] ⟨by decide, by decide, by decide⟩⟩
  · intro ch h hi z n prof hsuf hz
    have hd : ch.data.length ≤ 6 := by
      have : ∀ ch ∈ metaChunks cfgAnimPal, ch.ty = tyICCP → ch.data.length ≤ 6 := by decide
      exact this ch h hi
    have : prof = z := by simp [rtCfg, toyCfg] at hz; exact hz.symm
    rw [this]
    exact Nat.le_trans hsuf.length_le hd

/-- the whole canvas, then the 2×1 frame at (1, 1) (one byte of two 2-bit pixels) -/
example :
    (Reader.run rtCfg idT
      (R.init {} 300 {}
        (runWriter (scanCodec storeZ choosePal) cfgAnimPal {}
          (animOps [⟨[], [0x6C, 0xB4]⟩, ⟨[.setDim 2 1, .setPos 1 1], [0x90]⟩]) .finish).state.sink.bytes
        (runWriter (scanCodec storeZ choosePal) cfgAnimPal {}
          (animOps [⟨[], [0x6C, 0xB4]⟩, ⟨[.setDim 2 1, .setPos 1 1], [0x90]⟩]) .finish).state.sink.bytes.length)
      [.readInfo, .nextFrame 0, .nextFrame 0xFF, .nextFrame 0]).2 =
      [.header, .frame ⟨3, 2, 3, 2, 1⟩ [0x6C, 0xB4], .frame ⟨2, 1, 3, 2, 1⟩ [0x90, 0xFF],
       .err .parameter "PolledAfterEndOfImage"] :=
  (C03_anim_meta_encode_decode rtCfg idT {} {} 300 6 storeZ choosePal cfgAnimPal 2 0 { w := 3, h := 2 }
    ⟨[], [0x6C, 0xB4]⟩ [⟨[.setDim 2 1, .setPos 1 1], [0x90]⟩] 0 [0xFF] 0 rtCfg_inflateOk (fun _ => rfl) C01.idT_isIdentity
    (by decide) (by decide) (cfgAnimPal_metaOk _) (by decide) (by decide) (by decide) (by decide) rtCfg_nil (by decide)
    (by decide) (by decide) (by decide)).2.2.2

end Examples

end Png.C03
