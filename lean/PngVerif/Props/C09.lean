import PngVerif.Proofs.ComposeFrames
import PngVerif.Proofs.ReaderToy
/-!
# C09 — Animated images: every frame in file order, with its own frame control and its own pixels

The composition of `Props/C01Decode.lean` continued through the frames of an animated PNG whose first frame is the
`IDAT` image (`fcTL` number 0 in front of the `IDAT` chunks — the common layout; `Model/WellFormed.wellFormedApng`).
Specification side: `specFrame` (`Model/WellFormed.lean`): the frame's scanlines reconstructed and (for Adam7)
de-interlaced with the size of the frame's own `fcTL`, written `line_size` bytes apart from the start of the buffer;
bytes of the buffer behind the frame's `line_size × height` bytes are untouched.

Layers: `Framing.fctl_body_trace`, `Framing.frame_head_trace`, `Framing.fdat_sequence_trace` (L1: `fcTL`, the `fdAT`
sequence with its sequence numbers), `Reader.nextFrameOp_next`, `Reader.frames_run` (L2), `Reader.apng_wf`,
`Reader.apng_default_wf`.
-/
namespace Png.C09
open Png Png.Framing Png.Reader Png.WellFormed

/-- **C09, full statement** for animations whose first frame is the `IDAT` image.  For every inflater / CRC function /
    identity row transformation satisfying their contracts, every valid header, every `acTL` play count, every list
    `anc` of further chunks (of any length, `AncChunksG`) before the first `fcTL` that `parse_chunk` accepts (no second `acTL`), a first frame
    (`fc0`, pieces `zs0 ≠ []` of its zlib stream in `IDAT` chunks, inflated stream `raw0`) and any number of further
    frames (each: frame control, pieces `≠ []` of its zlib stream in `fdAT` chunks, inflated stream) such that
    * every frame control lies inside the image, is not empty and has legal `dispose_op` / `blend_op` (`FcOk`),
    * every frame's inflated stream consists of the scanlines of the frame's own size with filter types `≤ 4`,
    * the sequence numbers (assigned by position: `fcTL` and `fdAT` chunks numbered consecutively from 0) stay below `2^32`,
    * the image passes the size check of `read_info` and the line buffers of all frames fit the limit left after the
      chunks before the first `fcTL` (each `read_until_image_data` reserves the frame's line size),

    `read_info` succeeds, the `k`-th `next_frame` call (into a buffer of the image's `output_buffer_size()` pre-filled
    with any byte) returns frame `k` of the file with width / height of its own `fcTL`, the image's colour type and bit
    depth, its own line size, and leaves `specFrame` of its own data in the buffer; one more `next_frame` call fails with
    `Parameter(PolledAfterEndOfImage)`. -/
def C09_frames_statement : Prop :=
  ∀ (cfg : Cfg) (t : TCfg) (f : Flags) (opts : Options) (limit : Nat) (h : Header) (plays : Nat)
    (anc : List (ChunkType × Bytes)) (dAnc : Dec) (frames : List (FrameControl × List Bytes × Bytes))
    (fc0 : FrameControl) (zs0 : List Bytes) (raw0 : Bytes) (p0 : UInt8) (ps : List UInt8) (q : UInt8),
    cfg.InflateOk → cfg.CrcOk → t.IsIdentity f → h.Valid → plays < 2 ^ 32 → frames.length + 1 < 2 ^ 32 →
    AncChunksG cfg (actlAfter (afterIhdr cfg opts limit h) (frames.length + 1) plays) anc dAnc → NoActl anc →
    FcOk h fc0 → zs0 ≠ [] → (∀ z ∈ zs0, z.length < 2 ^ 32) → cfg.inflate zs0.flatten = some (raw0, true) →
    RawOk (h.frame fc0) raw0 →
    (∀ fr ∈ frames, FrameOk cfg h fr) →
    1 + (frames.map fun x => 1 + x.2.1.length).sum < 2 ^ 32 →
    h.lineSize * h.height < 2 ^ 64 →
    (h.frame fc0).lineSize + (frames.map fun x => (h.frame x.1).lineSize).sum ≤ dAnc.limit →
    ps.length = frames.length →
    ∃ buf0 rs,
      (Reader.run cfg t (R.init opts limit f (wellFormedApng cfg h plays anc fc0 zs0 (framesOf frames))
          (wellFormedApng cfg h plays anc fc0 zs0 (framesOf frames)).length)
        (.readInfo :: .nextFrame p0 :: (ps.map Op.nextFrame ++ [.nextFrame q]))).2 =
        .header :: .frame { width := fc0.width, height := fc0.height, color := h.color, depth := h.depth,
                            lineSize := (h.frame fc0).lineSize } buf0 ::
          (rs ++ [.err .parameter "PolledAfterEndOfImage"]) ∧
      specFrame (h.frame fc0) raw0 (List.replicate h.bufferSize p0) = some buf0 ∧ buf0.length = h.bufferSize ∧
      FramesOk h frames ps rs

/-- **C09** -/
theorem C09_frames : C09_frames_statement := by
  intro cfg t f opts limit h plays anc dAnc frames fc0 zs0 raw0 p0 ps q hI hC ht hv hpl hnf hanc hna hfc0 hzs0 hlen0 hinf0 hraw0
    hframes hseq hsize hlimit hps
  exact apng_wf cfg hI hC ht opts limit h hv plays hpl anc dAnc frames hnf hanc hna fc0 zs0 raw0 hfc0 hzs0 hlen0 hinf0 hraw0
    hframes hseq hsize hlimit p0 ps hps q

/-- **C09 for animations whose `IDAT` image is not part of the animation** (`wellFormedApngDefault`: no `fcTL` in front
    of the `IDAT` chunks; `acTL` counts only the `fcTL` / `fdAT` frames).  Same hypotheses on the frames; the first
    `next_frame` returns the `IDAT` image exactly as C01 says for a still image (`specPixels`, the header's geometry),
    the next calls the frames in file order, the last one `PolledAfterEndOfImage`. -/
def C09_default_image_statement : Prop :=
  ∀ (cfg : Cfg) (t : TCfg) (f : Flags) (opts : Options) (limit : Nat) (h : Header) (plays : Nat)
    (anc : List (ChunkType × Bytes)) (dAnc : Dec) (frames : List (FrameControl × List Bytes × Bytes))
    (zs0 : List Bytes) (raw0 : Bytes) (p0 : UInt8) (ps : List UInt8) (q : UInt8),
    cfg.InflateOk → cfg.CrcOk → t.IsIdentity f → h.Valid → plays < 2 ^ 32 → frames.length < 2 ^ 32 →
    AncChunksG cfg (actlAfter (afterIhdr cfg opts limit h) frames.length plays) anc dAnc → NoActl anc →
    zs0 ≠ [] → (∀ z ∈ zs0, z.length < 2 ^ 32) → cfg.inflate zs0.flatten = some (raw0, true) → RawOk h raw0 →
    (∀ fr ∈ frames, FrameOk cfg h fr) →
    (frames.map fun x => 1 + x.2.1.length).sum < 2 ^ 32 →
    h.lineSize * h.height < 2 ^ 64 →
    h.lineSize + (frames.map fun x => (h.frame x.1).lineSize).sum ≤ dAnc.limit →
    ps.length = frames.length →
    ∃ buf0 rs,
      (Reader.run cfg t (R.init opts limit f (wellFormedApngDefault cfg h plays anc zs0 (framesOf frames))
          (wellFormedApngDefault cfg h plays anc zs0 (framesOf frames)).length)
        (.readInfo :: .nextFrame p0 :: (ps.map Op.nextFrame ++ [.nextFrame q]))).2 =
        .header :: .frame { width := h.width, height := h.height, color := h.color, depth := h.depth,
                            lineSize := h.lineSize } buf0 ::
          (rs ++ [.err .parameter "PolledAfterEndOfImage"]) ∧
      specPixels h raw0 (List.replicate h.bufferSize p0) = some buf0 ∧ buf0.length = h.bufferSize ∧
      FramesOk h frames ps rs

theorem C09_default_image : C09_default_image_statement := by
  intro cfg t f opts limit h plays anc dAnc frames zs0 raw0 p0 ps q hI hC ht hv hpl hnf hanc hna hzs0 hlen0 hinf0 hraw0
    hframes hseq hsize hlimit hps
  exact apng_default_wf cfg hI hC ht opts limit h hv plays hpl anc dAnc frames hnf hanc hna zs0 raw0 hzs0 hlen0 hinf0 hraw0
    hframes hseq hsize hlimit p0 ps hps q

/-- what `FramesOk` says about each frame, unfolded for the first of the remaining frames -/
theorem framesOk_head (h : Header) (fr : FrameControl × List Bytes × Bytes) (fs : List (FrameControl × List Bytes × Bytes))
    (p : UInt8) (ps : List UInt8) (res : Reader.Res) (rs : List Reader.Res) (hok : FramesOk h (fr :: fs) (p :: ps) (res :: rs)) :
    (∃ buf, res = .frame { width := fr.1.width, height := fr.1.height, color := h.color, depth := h.depth,
                           lineSize := (h.frame fr.1).lineSize } buf ∧
      specFrame (h.frame fr.1) fr.2.2 (List.replicate h.bufferSize p) = some buf ∧ buf.length = h.bufferSize) ∧
    FramesOk h fs ps rs := hok

/-! ## Non-vacuity -/

section Examples
open Png.Framing.Toy Png.Reader.Toy

def hGray1 : Header := ⟨1, 1, 0, 8, false⟩
def fcToy : FrameControl := ⟨0, 1, 1, 0, 0, 1, 1, 0, 0⟩
/-- the two-frame toy animation of `Proofs/ReaderToy.lean` is `wellFormedApng` -/
example : wellFormedApng toyCfg hGray1 0 [] fcToy [[2, 0, 9]] (framesOf [(fcToy, [[2, 0, 5]], [0, 5])]) = apng := by
  decide +kernel
example : FcOk hGray1 fcToy := ⟨by decide, by decide, by decide, by decide, by decide, by decide, by decide, by decide⟩
example : FrameOk toyCfg hGray1 (fcToy, [[2, 0, 5]], [0, 5]) :=
  ⟨⟨by decide, by decide, by decide, by decide, by decide, by decide, by decide, by decide⟩, by decide, by decide, by decide,
    by decide⟩
example : (Reader.run toyCfg idT (R.init {} (2 ^ 64 - 1) {} apng apng.length)
    [.readInfo, .nextFrame 7, .nextFrame 7, .nextFrame 7]).2 =
    [.header, .frame ⟨1, 1, 0, 8, 1⟩ [9], .frame ⟨1, 1, 0, 8, 1⟩ [5], .err .parameter "PolledAfterEndOfImage"] := by
  decide +kernel

/-- a 2×2 image; the second frame is the single pixel at (1, 1), its stream cut into two `fdAT` chunks: the frame's one
    byte is written at the start of the buffer, the other three bytes keep the pre-fill -/
def hGray2 : Header := ⟨2, 2, 0, 8, false⟩
def fcFull : FrameControl := ⟨0, 2, 2, 0, 0, 0, 0, 0, 0⟩
def fcSub : FrameControl := ⟨0, 1, 1, 1, 1, 0, 0, 1, 1⟩
def framesToy : List (FrameControl × List Bytes × Bytes) := [(fcSub, [[2, 0], [9]], [0, 9])]
def apng2 : Bytes := wellFormedApng toyCfg hGray2 0 [] fcFull [[6, 0, 1, 2, 0, 3, 4]] (framesOf framesToy)
example : FcOk hGray2 fcSub ∧ RawOk (hGray2.frame fcSub) [0, 9] ∧ toyCfg.inflate [[2, 0], [9]].flatten = some ([0, 9], true) :=
  ⟨⟨by decide, by decide, by decide, by decide, by decide, by decide, by decide, by decide⟩, by decide, by decide⟩
example : specFrame (hGray2.frame fcSub) [0, 9] (List.replicate hGray2.bufferSize 7) = some [9, 7, 7, 7] := by decide
example : (Reader.run toyCfg idT (R.init {} (2 ^ 64 - 1) {} apng2 apng2.length)
    [.readInfo, .nextFrame 0, .nextFrame 7, .nextFrame 0]).2 =
    [.header, .frame ⟨2, 2, 0, 8, 2⟩ [1, 2, 3, 4], .frame ⟨1, 1, 0, 8, 1⟩ [9, 7, 7, 7],
     .err .parameter "PolledAfterEndOfImage"] := by
  decide +kernel

/-- the same frames behind a default image that is not part of the animation -/
def apng3 : Bytes := wellFormedApngDefault toyCfg hGray2 0 [] [[6, 0, 1, 2, 0, 3, 4]] (framesOf framesToy)
example : (Reader.run toyCfg idT (R.init {} (2 ^ 64 - 1) {} apng3 apng3.length)
    [.readInfo, .nextFrame 0, .nextFrame 7, .nextFrame 0]).2 =
    [.header, .frame ⟨2, 2, 0, 8, 2⟩ [1, 2, 3, 4], .frame ⟨1, 1, 0, 8, 1⟩ [9, 7, 7, 7],
     .err .parameter "PolledAfterEndOfImage"] := by
  decide +kernel

end Examples

end Png.C09
