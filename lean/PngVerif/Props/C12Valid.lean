import PngVerif.Proofs.ValidatorCompose
import PngVerif.Proofs.ValidatorContentEnc
import PngVerif.Proofs.ValidatorStored
/-!
# C12, second part — the WHOLE validator accepts the writer model's output, proved in Lean

`Props/C12.lean` proves that the chunk list the writer model leaves in the sink passes the sequencing
automaton (`skeletonOfChunks`).  Its header lists what was only checked by running the validator in the harness.
This file closes that list for the whole-image API (`Writer`, the domain of `C12_writer`):

1. `parse_fileBytes_partial` — byte framing: `parseStrict (ofList (fileBytes cs)) = .ok cs` (signature, length
   fields, types, payloads, CRC comparison, nothing after the last chunk), on the real `ByteArray` parser.  The
   statement for EVERY chunk list is false (`parse_fileBytes_counterexample`: the parser stops at the first IEND);
   the extra hypothesis is `IendOnlyLast`, which every list accepted by the sequencing rules has
   (`skeleton_iend_last`).
2. `order_ok_of_model` — the placement pass `orderOk`.
3. `content_ok_of_header`, `content_ok_of_model` — the payload pass `contentOk`, under `Cfg.PayloadsOk`
   (conditions on the raw payloads of the configuration).  Which of them the real `Encoder` makes impossible to
   violate: `typed_payloads_ok` (pHYs, sRGB, cHRM, iCCP, tEXt/zTXt/iTXt are built by typed encoders).  Which
   NOT: tRNS and PLTE are raw blobs written unchecked — `content_ok_statement` is false, FINDING
   `trns_rgba_rejected`.
4. `specImgOk_iff_realImgOk` — the proof-level image rule with the Lean inflater accepts exactly what the
   executable `realImgOk` accepts (interlace method 0).
5. `C12_writer_validChunks` (rules 2–6, any image rule), `C12_writer_valid` (`validPng` on the BYTES in the
   sink, executable image rule), `C12_writer_valid_scan` (back-end "filter rows, then compress"),
   `C12_writer_valid_stored` (a concrete compressor: no compressor hypothesis left).

Domain, beyond `Cfg.WellFormed` and `SuppliesDeclaredImages` of `C12_writer`:
* `Cfg.PayloadsOk`, `Cfg.SizesOk` (configuration), `Op.passOk`, `Op.wireOk` (pass-through operations): a raw chunk
  handed to `Writer::write_chunk` is none of the types the validator has placement/payload rules for (every
  PRIVATE type qualifies: `tyPrivate_not_ruled`) and has a four-letter type; a text chunk passes its payload
  rule (always true for `EncodableTextChunk::encode`) and is shorter than 2^31 bytes.  `C12_writer`'s own
  `Op.inRange` lets any ancillary type through; with a public one the output can be invalid
  (`order_needs_passFree`), so `C12_valid_unconditioned_statement` is false.
* the back-end contract is asked only for the images that fit the canvas (`Codec.OkWithin`): the Lean inflater
  of `realImgOk` stops at 2^40 output bytes, no compressor meets `Codec.Ok (realImgOk …)` for ALL sizes.

Programs that use `StreamWriter` (`C12_stream_partial`): `Props/C12ValidStream.lean`.
-/
namespace Png.C12
open Png Png.Val Png.Enc Png.Spec

/-! ## 1. byte framing -/

/-- the statement of the task for EVERY chunk list -/
def parse_fileBytes_statement : Prop :=
  ∀ cs : List RChunk, (∀ c ∈ cs, c.data.length < 2 ^ 31) → (∀ c ∈ cs, tyLetters c.ty = true) →
    parseStrict (ofList (fileBytes cs)) = .ok cs

/-- **byte framing round trip** for every chunk list with payloads shorter than 2^31 bytes (what
    `Writer::write_chunk` enforces), four-letter types below 2^32, and no IEND before the last chunk -/
theorem parse_fileBytes_partial (cs : List RChunk) (hlen : ∀ c ∈ cs, c.data.length < 2 ^ 31)
    (hty : ∀ c ∈ cs, tyLetters c.ty = true) (hi : IendOnlyLast cs) :
    parseStrict (ofList (fileBytes cs)) = .ok cs :=
  parse_fileBytes cs hlen hty hi

/-- the excluded region is real: two IEND chunks serialise to a file whose second chunk the parser never
    reads (`Spec.parseChunks` stops after IEND) -/
theorem parse_fileBytes_counterexample :
    ¬ parse_fileBytes_statement ∧
    parseStrict (ofList (fileBytes [⟨tyIEND, []⟩, ⟨tyIEND, []⟩])) = .error "data-after-iend" := by
  have h : parseStrict (ofList (fileBytes [⟨tyIEND, []⟩, ⟨tyIEND, []⟩])) = .error "data-after-iend" := by
    decide +kernel
  refine ⟨fun hs => ?_, h⟩
  have := hs [⟨tyIEND, []⟩, ⟨tyIEND, []⟩] (by decide) (by decide)
  rw [h] at this; cases this

/-- every chunk list the sequencing rules accept has its IEND at the end only -/
theorem iend_only_last_of_valid {imgOk : ImgRule} {cw ch color : Nat} {rest : List RChunk}
    (h : skeletonOfChunks imgOk cw ch color rest = .ok ()) : IendOnlyLast rest :=
  skeleton_iend_last h

/-- the validator on a serialised chunk list is the validator on the chunk list -/
theorem validPng_fileBytes (cs : List RChunk) (hlen : ∀ c ∈ cs, c.data.length < 2 ^ 31)
    (hty : ∀ c ∈ cs, tyLetters c.ty = true) (hi : IendOnlyLast cs) :
    validPng (ofList (fileBytes cs)) = validChunks realImgOk cs := by
  unfold validPng; rw [parse_fileBytes cs hlen hty hi]

/-! ## 2. placement pass -/

/-- **`orderOk` accepts the type sequence of the chunks in the sink**, for every back-end, every well-formed
    configuration and every run in the domain of `C12_writer` whose raw pass-through chunks have none of the
    types the validator has rules for (in particular: private ones).  The sink holds `headerChunks c` in that
    order, then fcTL / IDAT / fdAT / pass-through / IEND chunks (`runWriter_shape`). -/
theorem order_ok_of_model (E : Codec) (c : Cfg) (hw : c.WellFormed) (ops : List Op) (fin : Final)
    (hdom : SuppliesDeclaredImages E c ops) (hfree : ∀ op ∈ ops, op.passFree) :
    orderOk ((runWriter E c {} ops fin).state.sink.chunks.map (·.ty)) = .ok () := by
  obtain ⟨body, hb, hcs, _⟩ := runWriter_chunks_bytes E c ops fin hdom.1
  rw [hcs]
  exact order_ok_of_shape c ops body hw.2.2.2 (AllAllowed.inRange E ops _ hdom.2.1) hfree hb

/-- a private chunk type satisfies `Op.passFree` -/
theorem passFree_of_private (ty : Ty) (d : Bytes) (h : tyPrivate ty = true) : (Op.chunk ty d).passFree :=
  tyPrivate_not_ruled h

/-- the hypothesis on pass-through chunks cannot be dropped: `Writer::write_chunk(gAMA, …)` after the image is
    inside the domain of `C12_writer` (an ancillary type, reserved bit clear) and the placement pass refuses
    the result -/
theorem order_needs_passFree :
    cfgStill.WellFormed ∧ SuppliesDeclaredImages Enc.toyCodec cfgStill [.image [7], .chunk tyGAMA [0, 0, 0, 1]] ∧
    orderOk ((runWriter Enc.toyCodec cfgStill {} [.image [7], .chunk tyGAMA [0, 0, 0, 1]] .finish).state.sink.chunks.map (·.ty))
      = .error "gAMA-after-idat" := by
  decide +kernel

/-! ## 3. payload pass -/

/-- **`contentOk` accepts every chunk `headerChunks c` produces** from a configuration whose raw payloads
    satisfy `Cfg.PayloadsOk` (text entries being text chunks, as in `Cfg.WellFormed`); IHDR comes back as
    `ihdrOfCfg c` (`ihdr_of_model`) -/
theorem content_ok_of_header (c : Cfg) (htx : ∀ r, some r ∈ c.texts → r.ty ∈ textTypes) (hp : c.PayloadsOk) :
    ∀ x ∈ headerChunks c, contentOk (ihdrOfCfg c) c.plteEntries x = .ok () :=
  content_ok_header c htx hp

/-- the validator reads the configuration's IHDR fields back from the model's IHDR chunk whenever
    `write_header` succeeds on a configuration in range -/
theorem ihdr_of_model (c : Cfg) (hr : c.inRange) (hh : (writeHeader c {}).2 = .ok) :
    parseIhdr (ofList (mkIhdr c).data) = .ok (ihdrOfCfg c) := by
  obtain ⟨w0, h0, hci⟩ := writeHeader_ok_dims c {} hh
  obtain ⟨i1, i2, i3, i4, _, _⟩ := hr
  exact parseIhdr_mkIhdr c ⟨by omega, i1⟩ ⟨by omega, i2⟩ i3 i4 hci

/-- **the payload pass accepts every chunk in the sink** -/
theorem content_ok_of_model (E : Codec) (c : Cfg) (hw : c.WellFormed) (hp : c.PayloadsOk) (ops : List Op) (fin : Final)
    (hdom : SuppliesDeclaredImages E c ops) (hpass : ∀ op ∈ ops, op.passOk) :
    firstError (contentOk (ihdrOfCfg c) (plteEntriesOf (runWriter E c {} ops fin).state.sink.chunks))
      (runWriter E c {} ops fin).state.sink.chunks = .ok () := by
  obtain ⟨body, hb, hcs, _⟩ := runWriter_chunks_bytes E c ops fin hdom.1
  rw [hcs]
  exact content_ok_of_shape c ops body hw.2.2.2 hp (AllAllowed.inRange E ops _ hdom.2.1)
    (fun op h => (hpass op h).1) (fun op h => (hpass op h).2) hb

/-- the payloads the typed encoders of the crate build always satisfy their part of `Cfg.PayloadsOk`
    (`PixelDimensions`, `SourceChromaticities`, `write_iccp_chunk`, the three text chunk encoders; for the
    compressed parts: a compressor whose output is one whole zlib stream for the Lean inflater, and text chunks
    whose `Compressed` state holds such a stream) -/
theorem typed_payloads_ok (z : Png.ZCodec) (hz : ∀ x, zlibWhole (z.compress x) = true) :
    (∀ p : EncodeMeta.PixelDims, (EncodeMeta.encodePhys p).length = 9 ∧ ((EncodeMeta.encodePhys p).getD 8 0).toNat ≤ 1) ∧
    (∀ k : EncodeMeta.Chromaticities, (EncodeMeta.encodeChrm k).length = 32) ∧
    (∀ profile, payloadRule ⟨tyICCP, EncodeMeta.encodeIccp z profile⟩ = .ok ()) ∧
    (∀ (t : TEXt) body, t.encodeBody = .ok body → payloadRule ⟨tyTEXT, body⟩ = .ok ()) ∧
    (∀ (t : ZTXt) body, t.StreamOk → t.encodeBody z = .ok body → payloadRule ⟨tyZTXT, body⟩ = .ok ()) ∧
    (∀ (t : ITXt) body, t.StreamOk → t.encodeBody z = .ok body → payloadRule ⟨tyITXT, body⟩ = .ok ()) :=
  ⟨phys_payload_ok, chrm_payload_ok, fun p => iccp_payload_ok z p (hz _), tEXt_payload_ok,
    fun t body hs h => zTXt_payload_ok z hz t hs body h, fun t body hs h => iTXt_payload_ok z hz t hs body h⟩

/-- the payload pass for every configuration `C12_writer` admits -/
def content_ok_statement : Prop :=
  ∀ c : Cfg, c.WellFormed → (writeHeader c {}).2 = .ok →
    ∀ x ∈ headerChunks c, contentOk (ihdrOfCfg c) c.plteEntries x = .ok ()

/-- **FINDING**: `Encoder::set_trns` (and `Info::trns`) takes any bytes for any colour type and `encode_header`
    writes them (encoder.rs:648-650).  An RGBA image with a tRNS chunk: every call returns `Ok`, and the file has a
    chunk the specification forbids for colour types 4 and 6 (PNG 11.3.2.1) — the validator says
    `trns-forbidden`.  (Likewise a tRNS of the wrong length, or longer than the palette.) -/
theorem trns_rgba_rejected :
    let c : Cfg := { width := 1, height := 1, color := 6, trns := some [0, 7] }
    ¬ content_ok_statement ∧ c.WellFormed ∧ SuppliesDeclaredImages Enc.toyCodec c [.image [1, 2, 3, 4]] ∧
    (runWriter Enc.toyCodec c {} [.image [1, 2, 3, 4]] .finish).final = some .ok ∧
    validChunks (fun _ => anyImg) (runWriter Enc.toyCodec c {} [.image [1, 2, 3, 4]] .finish).state.sink.chunks
      = .error "trns-forbidden" := by
  have h : ({ width := 1, height := 1, color := 6, trns := some [0, 7] } : Cfg).WellFormed ∧
      SuppliesDeclaredImages Enc.toyCodec { width := 1, height := 1, color := 6, trns := some [0, 7] } [.image [1, 2, 3, 4]] ∧
      (runWriter Enc.toyCodec { width := 1, height := 1, color := 6, trns := some [0, 7] } {} [.image [1, 2, 3, 4]] .finish).final = some .ok ∧
      validChunks (fun _ => anyImg) (runWriter Enc.toyCodec { width := 1, height := 1, color := 6, trns := some [0, 7] } {}
        [.image [1, 2, 3, 4]] .finish).state.sink.chunks = .error "trns-forbidden" := by decide +kernel
  refine ⟨fun hs => ?_, h⟩
  have := hs { width := 1, height := 1, color := 6, trns := some [0, 7] } h.1 h.2.1.1 ⟨tyTRNS, [0, 7]⟩ (by decide)
  revert this; decide

/-- the same kind of finding for the other raw blobs (every call returns `Ok`; the validator names the rule):
    a tRNS longer than the palette of an indexed image (`trns-length`); a PLTE whose length is not a multiple
    of 3 (`plte-length`; excluded from the domain of `C12_writer` by `Cfg.WellFormed`, not by the crate:
    `Encoder::set_palette` takes any bytes) -/
theorem raw_blob_findings :
    let c1 : Cfg := { width := 1, height := 1, color := 3, palette := some [1, 2, 3], trns := some [0, 7] }
    let c2 : Cfg := { width := 1, height := 1, color := 3, palette := some [1, 2, 3, 4] }
    (c1.WellFormed ∧ SuppliesDeclaredImages Enc.toyCodec c1 [.image [0]] ∧
      (runWriter Enc.toyCodec c1 {} [.image [0]] .finish).final = some .ok ∧
      validChunks (fun _ => anyImg) (runWriter Enc.toyCodec c1 {} [.image [0]] .finish).state.sink.chunks
        = .error "trns-length") ∧
    (SuppliesDeclaredImages Enc.toyCodec c2 [.image [0]] ∧
      (runWriter Enc.toyCodec c2 {} [.image [0]] .finish).final = some .ok ∧
      validChunks (fun _ => anyImg) (runWriter Enc.toyCodec c2 {} [.image [0]] .finish).state.sink.chunks
        = .error "plte-length") := by
  decide +kernel

/-! ## 4. image rule -/

/-- **`specImgOk` (abstract inflater := the Lean inflater on the whole stream, `decodeScanlines`) and the
    executable `realImgOk` accept the same payloads**, for every IHDR with interlace method 0 (what the encoder
    writes) and one of the five bit depths, every image size and every payload -/
theorem specImgOk_eq_realImgOk (ih : Ihdr) (hi : ih.interlace = 0) (hd : depthOk ih.depth = true) (w h : Nat) (z : Bytes) :
    specImgOk realInflate ih.color ih.depth w h z = .ok () ↔ realImgOk ih w h z = .ok () :=
  specImgOk_iff_realImgOk ih hi hd w h z

/-! ## 5. composition -/

/-- the domain of `C12_writer` alone, for the whole validator -/
def C12_valid_unconditioned_statement : Prop :=
  ∀ (c : Cfg) (ops : List Op) (fin : Final), c.WellFormed → SuppliesDeclaredImages Enc.toyCodec c ops →
    validChunks (fun _ => anyImg) (runWriter Enc.toyCodec c {} ops fin).state.sink.chunks = .ok ()

theorem C12_valid_unconditioned_counterexample : ¬ C12_valid_unconditioned_statement := by
  intro hs
  have := hs { width := 1, height := 1, color := 6, trns := some [0, 7] } [.image [1, 2, 3, 4]] .finish
    trns_rgba_rejected.2.1 trns_rgba_rejected.2.2.1
  rw [trns_rgba_rejected.2.2.2.2] at this; cases this

/-- **C12 for `Writer`, rules 2–6 of the validator on the chunk list** (partial with respect to
    `C12_valid_unconditioned_statement`: `Cfg.PayloadsOk`, `Op.passOk`).  For every image rule under which the
    back-end meets its contract on the images that fit the canvas: IHDR rules, chunk summaries, sequencing
    automaton with the image rule on every image's payload, placement pass, payload pass. -/
theorem C12_writer_validChunks_partial (imgOkOf : Ihdr → ImgRule) (E : Codec) (c : Cfg) (hw : c.WellFormed)
    (hp : c.PayloadsOk) (hE : Codec.OkWithin (imgOkOf (ihdrOfCfg c)) E c.color c.depth c.width c.height)
    (ops : List Op) (fin : Final) (hdom : SuppliesDeclaredImages E c ops) (hpass : ∀ op ∈ ops, op.passOk) :
    validChunks imgOkOf (runWriter E c {} ops fin).state.sink.chunks = .ok () :=
  (writer_validChunks imgOkOf E c hw hp hE ops fin hdom hpass).1

/-- **C12 for `Writer`: `validPng` accepts the bytes in the sink** — every rule of the strict validator, from
    the signature to the CRCs, with the executable image rule (Lean inflater, Adler-32, size, filter bytes) -/
theorem C12_writer_valid_partial (E : Codec) (c : Cfg) (hw : c.WellFormed) (hp : c.PayloadsOk) (hs : c.SizesOk)
    (hE : Codec.OkWithin (realImgOk (ihdrOfCfg c)) E c.color c.depth c.width c.height) (ops : List Op) (fin : Final)
    (hdom : SuppliesDeclaredImages E c ops) (hpass : ∀ op ∈ ops, op.passOk) (hwire : ∀ op ∈ ops, op.wireOk) :
    validPng (ofList (runWriter E c {} ops fin).state.sink.bytes) = .ok () :=
  writer_validPng E c hw hp hs hE ops fin hdom hpass hwire

/-- … for the real shape of `write_image_data`: any filter choice, any compressor that never returns an empty
    stream and that the Lean inflater inverts (as one whole zlib stream) on the scanline streams of images that
    fit the canvas -/
theorem C12_writer_valid_scan_partial (compress : Bytes → Bytes) (choose : Bytes → Bytes → FilterType)
    (c : Cfg) (hw : c.WellFormed) (hp : c.PayloadsOk) (hs : c.SizesOk) (hne : ∀ x, compress x ≠ [])
    (hic : ∀ w h x, w ≤ c.width → h ≤ c.height → x.length = h * (1 + (rawRowLengthFromWidth c.color c.depth w - 1)) →
      realInflate (compress x) = some x)
    (ops : List Op) (fin : Final) (hdom : SuppliesDeclaredImages (scanCodec compress choose) c ops)
    (hpass : ∀ op ∈ ops, op.passOk) (hwire : ∀ op ∈ ops, op.wireOk) :
    validPng (ofList (runWriter (scanCodec compress choose) c {} ops fin).state.sink.bytes) = .ok () :=
  scan_validPng compress choose c hw hp hs hne hic ops fin hdom hpass hwire

/-- the Lean inflater inverts the stored-block compressor on everything that fits one block -/
theorem stored_inverted (x : Bytes) (hx : x.length ≤ 65535) : realInflate (storedZlib x) = some x :=
  storedZlib_realInflate x hx

/-- … with a concrete compressor (one stored block): no hypothesis about the compressor is left; the canvas is
    small enough for one block -/
theorem C12_writer_valid_stored_partial (choose : Bytes → Bytes → FilterType)
    (c : Cfg) (hw : c.WellFormed) (hp : c.PayloadsOk) (hs : c.SizesOk)
    (hsmall : ∀ w h, w ≤ c.width → h ≤ c.height → h * (1 + (rawRowLengthFromWidth c.color c.depth w - 1)) ≤ 65535)
    (ops : List Op) (fin : Final) (hdom : SuppliesDeclaredImages (scanCodec storedZlib choose) c ops)
    (hpass : ∀ op ∈ ops, op.passOk) (hwire : ∀ op ∈ ops, op.wireOk) :
    validPng (ofList (runWriter (scanCodec storedZlib choose) c {} ops fin).state.sink.bytes) = .ok () :=
  scan_validPng storedZlib choose c hw hp hs (by intro x; simp [storedZlib])
    (fun w h x hw' hh hl => storedZlib_realInflate x (by rw [hl]; exact hsmall w h hw' hh)) ops fin hdom hpass hwire

/-! ## non-vacuity -/

/-- "prVt": a private ancillary chunk type -/
def tyPrVt : Ty := 1886541428
def chooseNone : Bytes → Bytes → FilterType := fun _ _ => .none

/-- an indexed 2×2 image with pHYs (built by the typed encoder), sRGB + the substitute gAMA, PLTE of two
    entries, tRNS of one, a tEXt chunk in the `Info` -/
def cfgEx : Cfg :=
  { width := 2, height := 2, color := 3, depth := 8, palette := some [1, 2, 3, 4, 5, 6], trns := some [9],
    md := { phys := some (EncodeMeta.encodePhys ⟨2835, 2835, true⟩), srgb := some 1, gama := some substGamma },
    texts := [some ⟨tyTEXT, [75, 0, 118]⟩] }
/-- a private chunk, a text chunk, the image, an empty private chunk -/
def opsEx : List Op := [.chunk tyPrVt [1, 2], .text (some ⟨tyTEXT, [65, 66, 0]⟩), .image [0, 1, 1, 0], .chunk tyPrVt []]

example : parseStrict (ofList (fileBytes [⟨tyIHDR, [1, 2, 3]⟩, ⟨tyPrVt, []⟩, ⟨tyIEND, []⟩])) =
    .ok [⟨tyIHDR, [1, 2, 3]⟩, ⟨tyPrVt, []⟩, ⟨tyIEND, []⟩] :=
  parse_fileBytes_partial _ (by decide) (by decide) (by decide)

set_option maxRecDepth 100000 in
example : cfgEx.WellFormed ∧ cfgEx.PayloadsOk ∧ cfgEx.SizesOk ∧ (∀ op ∈ opsEx, op.passOk) ∧ (∀ op ∈ opsEx, op.wireOk) ∧
    tyPrivate tyPrVt = true := by decide
example : SuppliesDeclaredImages (scanCodec storedZlib chooseNone) cfgEx opsEx := by decide +kernel
example : ∀ w h, w ≤ cfgEx.width → h ≤ cfgEx.height →
    h * (1 + (rawRowLengthFromWidth cfgEx.color cfgEx.depth w - 1)) ≤ 65535 := by
  intro w h hw hh
  have e : rawRowLengthFromWidth cfgEx.color cfgEx.depth w = 1 + w := by
    simp [rawRowLengthFromWidth, cfgEx, samplesOf]
  rw [e]
  have : h * (1 + (1 + w - 1)) ≤ 2 * 3 := Nat.mul_le_mul hh (by simp only [cfgEx] at hw; omega)
  omega
/-- the theorem applied: the bytes of this run are a valid PNG … -/
example : validPng (ofList (runWriter (scanCodec storedZlib chooseNone) cfgEx {} opsEx .finish).state.sink.bytes) = .ok () :=
  C12_writer_valid_stored_partial chooseNone cfgEx (by decide) (by decide) (by decide)
    (by
      intro w h hw hh
      have e : rawRowLengthFromWidth cfgEx.color cfgEx.depth w = 1 + w := by
        simp [rawRowLengthFromWidth, cfgEx, samplesOf]
      rw [e]
      have : h * (1 + (1 + w - 1)) ≤ 2 * 3 := Nat.mul_le_mul hh (by simp only [cfgEx] at hw; omega)
      omega)
    opsEx .finish (by decide +kernel) (by decide) (by decide)
/-- … and the executable validator, run by the kernel on the same bytes, agrees; the chunk sequence -/
example : validPng (ofList (runWriter (scanCodec storedZlib chooseNone) cfgEx {} opsEx .finish).state.sink.bytes) = .ok () ∧
    (runWriter (scanCodec storedZlib chooseNone) cfgEx {} opsEx .finish).state.sink.chunks.map (·.ty) =
      [tyIHDR, tyPHYS, tySRGB, tyGAMA, tyPLTE, tyTRNS, tyTEXT, tyPrVt, tyTEXT, tyIDAT, tyPrVt, tyIEND] := by
  decide +kernel
/-- the image-rule equivalence on a concrete stream: both accept -/
example : specImgOk realInflate 0 8 1 1 (storedZlib [0, 7]) = .ok () ∧
    realImgOk ⟨1, 1, 8, 0, 0⟩ 1 1 (storedZlib [0, 7]) = .ok () := by decide +kernel
/-- the typed encoders: a tEXt chunk as `TEXtChunk::encode` builds it -/
example : (TEXt.new "Title" "x").encodeBody = .ok [84, 105, 116, 108, 101, 0, 120] ∧
    payloadRule ⟨tyTEXT, [84, 105, 116, 108, 101, 0, 120]⟩ = .ok () := by decide +kernel
/-- an animation (two frames, the second a sub-frame) under the chunk-level theorem with the toy back-end -/
example : let c : Cfg := { width := 2, height := 2, actl := some (2, 0), fctl := some { w := 2, h := 2 } }
    validChunks (fun _ => anyImg) (runWriter Enc.toyCodec c {}
      [.image [1, 2, 3, 4], .setDim 1 1, .setPos 1 1, .image [9]] .finish).state.sink.chunks = .ok () := by
  intro c
  exact C12_writer_validChunks_partial (fun _ => anyImg) Enc.toyCodec c (by decide) (by decide)
    ((Enc.toyCodec_ok _ _).okWithin _ _) _ .finish (by decide) (by decide)

end Png.C12
