import PngVerif.Proofs.FramingLogic
import PngVerif.Proofs.FramingToy
import PngVerif.Model.Reader
/-!
# C10 — structurally invalid streams are rejected

Property theorems only (lemmas: `PngVerif/Proofs/FramingLogic.lean`), about `parse_u32` and the chunk
parsers of `Model/Framing.lean`, for an ARBITRARY `cfg : Cfg` and ARBITRARY decoder values.  For each
violation class: the step that meets the violation returns an error.  By `error_poisons` (= `C07`)
an error of `update` leaves `state = none`, after which every call is refused with `Parameter`
(`C07.poisoned_refuses`): nothing is decoded from the invalid structure.

Two shapes of "the chunk type is refused" occur because the end of a data-chunk sequence is reported
first: `RejectsType` = the type step is an error, or it is `ImageDataFlushed` (no input consumed
beyond the four type bytes) and the re-parse of the same bytes — the first thing the next call does —
is an error.

Every theorem about a chunk parser holds for EVERY body, the empty one included: since f31d047 a chunk of length 0
is parsed like any other (`every_chunk_parsed`, `empty_chunk_parsed`); the former finding "an empty second IHDR /
PLTE / fcTL is accepted silently" is repaired — it is `DuplicateChunk` / `ChunkTooShort` now (decided examples).

`automaton_sound` (simulation by an explicit reference automaton, for runs of any length) and
`automaton_language` (what that automaton accepts) are in the second half of the file.
-/
namespace Png.C10
open Png Png.Framing

/-- every error of an `update` call poisons the decoder -/
theorem error_poisons (cfg : Cfg) (d d' : Dec) (buf : Bytes) (e : Err) (h : update cfg d buf = (d', .error e)) :
    d'.state = none := Framing.error_poisons cfg d d' buf e h

/-! ## signature, first chunk -/

/-- **The signature is checked**: each half is accepted iff it is the corresponding half of
    `Params.signature` (extracted from the source: 137 80 78 71 13 10 26 10); otherwise `InvalidSignature`. -/
theorem signature_checked (cfg : Cfg) (d : Dec) (b0 b1 b2 b3 : UInt8) :
    ((∃ r, parseU32 cfg d .sig1 b0 b1 b2 b3 = .ok r) ↔ [b0.toNat, b1.toNat, b2.toNat, b3.toNat] = Params.signature.take 4) ∧
    ((∃ r, parseU32 cfg d .sig2 b0 b1 b2 b3 = .ok r) ↔ [b0.toNat, b1.toNat, b2.toNat, b3.toNat] = Params.signature.drop 4) ∧
    ([b0.toNat, b1.toNat, b2.toNat, b3.toNat] ≠ Params.signature.take 4 →
      parseU32 cfg d .sig1 b0 b1 b2 b3 = .error (.format "InvalidSignature")) ∧
    ([b0.toNat, b1.toNat, b2.toNat, b3.toNat] ≠ Params.signature.drop 4 →
      parseU32 cfg d .sig2 b0 b1 b2 b3 = .error (.format "InvalidSignature")) := by
  rw [parseU32_sig1, parseU32_sig2]
  refine ⟨⟨?_, fun h => by rw [if_pos h]; exact ⟨_, rfl⟩⟩, ⟨?_, fun h => by rw [if_pos h]; exact ⟨_, rfl⟩⟩,
    fun h => by rw [if_neg h], fun h => by rw [if_neg h]⟩
  · rintro ⟨r, hr⟩; split at hr
    · assumption
    · cases hr
  · rintro ⟨r, hr⟩; split at hr
    · assumption
    · cases hr

/-- **No chunk before IHDR**: before an IHDR was parsed every other chunk type is refused -/
theorem chunk_before_ihdr (cfg : Cfg) (d : Dec) (len : Nat) (b0 b1 b2 b3 : UInt8)
    (hinfo : d.info = none) (ht : be32 b0 b1 b2 b3 ≠ IHDR) :
    parseU32 cfg d (.type len) b0 b1 b2 b3 = .error (.format "ChunkBeforeIhdr") := by
  rw [parseU32_type, if_pos ⟨by simp [hinfo], ht⟩]

/-! ## IHDR -/

/-- **IHDR is accepted iff it is legal** (for a body of at least 13 bytes; extra bytes are ignored): no IHDR
    seen before, non-zero dimensions, a colour type / bit depth pair from the specification's table,
    compression and filter method 0, interlace method 0 or 1 — and then exactly these values are stored
    and reported. -/
theorem ihdr_accepts_iff (d d' : Dec) (ev : Ev) (w0 w1 w2 w3 h0 h1 h2 h3 dp co cm fm il : UInt8) (rest : Bytes)
    (hraw : d.raw = ihdrBody w0 w1 w2 w3 h0 h1 h2 h3 dp co cm fm il ++ rest) :
    parseIhdr d = .ok (d', ev) ↔
      (d.info = none ∧ be32 w0 w1 w2 w3 ≠ 0 ∧ be32 h0 h1 h2 h3 ≠ 0 ∧ (co.toNat, dp.toNat) ∈ legalPairs ∧
        cm = 0 ∧ fm = 0 ∧ il.toNat ≤ 1) ∧
      d' = { d with info := some { width := be32 w0 w1 w2 w3, height := be32 h0 h1 h2 h3, depth := dp.toNat,
                                   color := co.toNat, interlaced := il.toNat == 1 } } ∧
      ev = .header (be32 w0 w1 w2 w3) (be32 h0 h1 h2 h3) dp.toNat co.toNat (il.toNat == 1) :=
  parseIhdr_ok_iff d d' ev w0 w1 w2 w3 h0 h1 h2 h3 dp co cm fm il rest hraw

/-- the same for the big-endian encoding of arbitrary 32-bit dimensions -/
theorem ihdr_accepts_encoded (d d' : Dec) (ev : Ev) (w h : Nat) (dp co cm fm il : UInt8) (rest : Bytes)
    (hw : w < 2 ^ 32) (hh : h < 2 ^ 32)
    (hraw : d.raw = be32Bytes w ++ be32Bytes h ++ [dp, co, cm, fm, il] ++ rest) :
    parseIhdr d = .ok (d', ev) ↔
      (d.info = none ∧ w ≠ 0 ∧ h ≠ 0 ∧ (co.toNat, dp.toNat) ∈ legalPairs ∧ cm = 0 ∧ fm = 0 ∧ il.toNat ≤ 1) ∧
      d' = { d with info := some { width := w, height := h, depth := dp.toNat, color := co.toNat,
                                   interlaced := il.toNat == 1 } } ∧
      ev = .header w h dp.toNat co.toNat (il.toNat == 1) := by
  obtain ⟨w0, w1, w2, w3, hwb, rfl⟩ := be32Bytes_eq hw
  obtain ⟨h0, h1, h2, h3, hhb, rfl⟩ := be32Bytes_eq hh
  exact ihdr_accepts_iff d d' ev w0 w1 w2 w3 h0 h1 h2 h3 dp co cm fm il rest (by rw [hraw, hwb, hhb]; rfl)

/-- an IHDR body shorter than 13 bytes is refused (some error: `ChunkTooShort`, or the field error met first) -/
theorem ihdr_short_rejected (d : Dec) (h : d.raw.length < 13) : ∃ e, parseIhdr d = .error e := by
  rcases exists_error_or_ok (parseIhdr d) with he | ⟨⟨d', ev⟩, hok⟩
  · exact he
  · have := (parseIhdr_shape hok).2.1; omega

/-- **A second IHDR is refused**, whatever its body (the empty body included: `every_chunk_parsed`) -/
theorem second_ihdr_rejected (cfg : Cfg) (d : Dec) (h : d.info.isSome = true) :
    parseIhdr d = .error (.format "DuplicateChunk IHDR") ∧
    parseChunk cfg d IHDR = .error (.format "DuplicateChunk IHDR") := by
  have h1 : ∀ d : Dec, d.info.isSome = true → parseIhdr d = .error (.format "DuplicateChunk IHDR") := by
    intro d h; unfold parseIhdr; simp [h, throw, throwThe, MonadExceptOf.throw, bind, Except.bind]
  refine ⟨h1 d h, ?_⟩
  have := parseChunk_of_error (cfg := cfg) (d := d) (t := IHDR) (e := .format "DuplicateChunk IHDR")
    (by rw [dispatch_IHDR]; exact h1 _ h) (by decide)
  exact this

/-- whatever IHDR is accepted: the dimensions are non-zero and the colour/depth pair is legal -/
theorem ihdr_accepted_is_legal (d d' : Dec) (ev : Ev) (h : parseIhdr d = .ok (d', ev)) :
    d.info = none ∧ 13 ≤ d.raw.length ∧
    ∃ w hh dp co il, d'.info = some { width := w, height := hh, depth := dp, color := co, interlaced := il } ∧
      w ≠ 0 ∧ hh ≠ 0 ∧ (co, dp) ∈ legalPairs := by
  obtain ⟨h1, h2, w, hh, dp, co, il, rfl, _, h3, h4, h5⟩ := parseIhdr_shape h
  exact ⟨h1, h2, w, hh, dp, co, il, rfl, h3, h4, h5⟩

/-! ## PLTE -/

/-- **A second PLTE is refused**, whatever its body (the empty body included) -/
theorem second_plte_rejected (cfg : Cfg) (d : Dec) (i : Info) (hi : d.info = some i) (hp : i.palette.isSome = true) :
    parsePlte d = .error (.format "DuplicateChunk PLTE") ∧
    parseChunk cfg d PLTE = .error (.format "DuplicateChunk PLTE") := by
  have h1 : ∀ d : Dec, d.info = some i → parsePlte d = .error (.format "DuplicateChunk PLTE") := by
    intro d hi; rw [parsePlte_eq]; simp [withInfo, hi, hp]
  refine ⟨h1 d hi, ?_⟩
  exact parseChunk_of_error (cfg := cfg) (d := d) (t := PLTE) (e := .format "DuplicateChunk PLTE")
    (by rw [dispatch_PLTE]; exact h1 _ hi) (by decide)

/-! ## data-chunk sequences -/

/-- **IDATs must be consecutive**: once a data-chunk sequence was closed (`ready_for_idat_chunks = false`) an
    IDAT is refused -/
theorem idat_restart_rejected (cfg : Cfg) (d : Dec) (len : Nat) (b0 b1 b2 b3 : UInt8)
    (ht : be32 b0 b1 b2 b3 = IDAT) (hr : d.readyIdat = false) : RejectsType cfg d len b0 b1 b2 b3 := by
  apply rejectsType_of <;> intro d1 h1 h2 <;> rw [ht, afterType_IDAT]
  · rw [h1, hr]; exact ⟨_, rfl⟩
  · rw [h1]; exact ⟨_, rfl⟩

/-- in particular, when the type step does not close a sequence itself it is an error at once -/
theorem idat_restart_rejected_now (cfg : Cfg) (d : Dec) (len : Nat) (b0 b1 b2 b3 : UInt8)
    (ht : be32 b0 b1 b2 b3 = IDAT) (hr : d.readyIdat = false) (hcur : d.curType ≠ fdAT) (hinfo : d.info.isSome = true) :
    parseU32 cfg d (.type len) b0 b1 b2 b3 = .error (.format "UnexpectedRestartOfDataChunkSequence IDAT") := by
  rw [parseU32_type, if_neg (fun hx => by cases hi : d.info <;> simp [hi] at hinfo hx), ht, if_neg, afterType_IDAT, hr]
  · rfl
  · rintro ⟨h1, h2 | h2⟩
    · exact h1 h2.symm
    · exact hcur h2

/-- **Frame data needs a frame control**: without an fcTL since the last data-chunk sequence
    (`ready_for_fdat_chunks = false`) an fdAT is refused -/
theorem fdat_needs_fctl (cfg : Cfg) (d : Dec) (len : Nat) (b0 b1 b2 b3 : UInt8)
    (ht : be32 b0 b1 b2 b3 = fdAT) (hr : d.readyFdat = false) : RejectsType cfg d len b0 b1 b2 b3 := by
  apply rejectsType_of <;> intro d1 h1 h2 <;> rw [ht, afterType_fdAT]
  · rw [h2, hr]; exact ⟨_, rfl⟩
  · rw [h2]; exact ⟨_, rfl⟩

/-- **Frame data shorter than its sequence number is refused** -/
theorem fdat_short_rejected (cfg : Cfg) (d : Dec) (len : Nat) (b0 b1 b2 b3 : UInt8)
    (ht : be32 b0 b1 b2 b3 = fdAT) (hlen : len < 4) : RejectsType cfg d len b0 b1 b2 b3 := by
  apply rejectsType_of <;> intro d1 h1 h2 <;> rw [ht, afterType_fdAT]
  · cases d1.readyFdat
    · exact ⟨_, rfl⟩
    · simp only [Bool.not_true, Bool.false_eq_true, if_false, if_pos hlen]; exact ⟨_, rfl⟩
  · rw [h2]; exact ⟨_, rfl⟩

/-- **The end of a data-chunk sequence closes both kinds of sequence**: after `ImageDataFlushed` neither IDAT nor
    fdAT is acceptable, the inflater is reset, and the type bytes are kept for the re-parse -/
theorem flush_closes_sequences (cfg : Cfg) (d d' : Dec) (len : Nat) (b0 b1 b2 b3 : UInt8)
    (h : parseU32 cfg d (.type len) b0 b1 b2 b3 = .ok (.imageDataFlushed, d')) :
    d'.readyIdat = false ∧ d'.readyFdat = false ∧ d'.zin = [] ∧ d'.zstarted = false ∧
    d'.curType = be32 b0 b1 b2 b3 ∧ d'.state = some (.u32 (.type len) [b0, b1, b2, b3]) ∧
    be32 b0 b1 b2 b3 ≠ d.curType ∧ (d.curType = IDAT ∨ d.curType = fdAT) := by
  obtain ⟨_, hc⟩ := parseU32_type_cases h
  rcases hc with ⟨hfl, _, d1, hf, rfl⟩ | ⟨_, hev, _⟩
  · obtain ⟨o, rfl, _⟩ := flushData_shape hf
    exact ⟨rfl, rfl, rfl, rfl, rfl, rfl, hfl.1, hfl.2⟩
  · cases hev

/-- a chunk of another type while a data-chunk sequence is open always goes through the flush -/
theorem data_sequence_ends_with_flush (cfg : Cfg) (d d' : Dec) (len : Nat) (b0 b1 b2 b3 : UInt8) (ev : Ev)
    (hcur : d.curType = IDAT ∨ d.curType = fdAT) (ht : be32 b0 b1 b2 b3 ≠ d.curType)
    (h : parseU32 cfg d (.type len) b0 b1 b2 b3 = .ok (ev, d')) : ev = .imageDataFlushed := by
  obtain ⟨_, hc⟩ := parseU32_type_cases h
  rcases hc with ⟨_, hev, _⟩ | ⟨hn, _⟩
  · exact hev
  · exact absurd ⟨ht, hcur⟩ hn

/-- **`ready_for_fdat_chunks` becomes true only in `parse_fctl`**: the only `next_state` call that turns it on is
    `ParseChunkData(fcTL)` with the complete body, reporting `FrameControl` -/
theorem ready_fdat_only_by_fctl (cfg : Cfg) (d d' : Dec) (st : St) (buf : Bytes) (n : Nat) (ev : Ev)
    (h : nextState cfg d st buf = .ok (n, ev, d')) (h0 : d.readyFdat = false) (h1 : d'.readyFdat = true) :
    st = .parseChunkData fcTL ∧ d.remaining = 0 ∧ ∃ fc, ev = .frameControl fc :=
  nextState_readyFdat h h0 h1

/-- `ready_for_idat_chunks` is never turned on again by any step (only `reset` does that) -/
theorem ready_idat_never_restored (cfg : Cfg) (d d' : Dec) (st : St) (buf : Bytes) (n : Nat) (ev : Ev)
    (h : nextState cfg d st buf = .ok (n, ev, d')) (h1 : d'.readyIdat = true) : d.readyIdat = true :=
  (nextState_stepFrame h).readyIdat h1

/-- the begin of an IDAT or fdAT chunk marks the start of image data -/
theorem data_begins_sets_haveIdat (cfg : Cfg) (d d' : Dec) (len : Nat) (b0 b1 b2 b3 : UInt8)
    (ht : be32 b0 b1 b2 b3 = IDAT ∨ be32 b0 b1 b2 b3 = fdAT)
    (h : parseU32 cfg d (.type len) b0 b1 b2 b3 = .ok (.chunkBegin len (be32 b0 b1 b2 b3), d')) :
    d'.haveIdat = true := by
  obtain ⟨_, hc⟩ := parseU32_type_cases h
  rcases hc with ⟨_, hev, _⟩ | ⟨_, _, st, d1, ha, rfl⟩
  · cases hev
  · rcases afterType_cases ha with ⟨_, _, _, _, rfl⟩ | ⟨_, _, _, rfl⟩ | ⟨h1, h2, _⟩
    · rfl
    · rfl
    · rcases ht with ht | ht
      · exact absurd ht h2
      · exact absurd ht h1

/-! ## APNG sequence numbers -/

/-- **fdAT sequence numbers are consecutive**: the step is accepted only for `previous + 1`, which is then stored -/
theorem seqno_consecutive (cfg : Cfg) (d d' : Dec) (b0 b1 b2 b3 : UInt8) (ev : Ev)
    (h : parseU32 cfg d .seqNo b0 b1 b2 b3 = .ok (ev, d')) :
    ∃ s, d.seqNo = some s ∧ be32 b0 b1 b2 b3 = s + 1 ∧ d'.seqNo = some (s + 1) ∧ d'.state = some (.imageData fdAT) := by
  rw [parseU32_seqNo] at h
  split at h
  · cases h
  · rename_i s hs
    split at h
    · cases h
    · split at h
      · cases h
      · rename_i c1 c2
        cases h
        have : be32 b0 b1 b2 b3 = s + 1 := by simpa using c2
        exact ⟨s, hs, this, by rw [this], rfl⟩

/-- frame data without any fcTL before it: `MissingFctl`; a gap in the numbering: `ApngOrder` -/
theorem seqno_gap_rejected (cfg : Cfg) (d : Dec) (b0 b1 b2 b3 : UInt8) :
    (d.seqNo = none → parseU32 cfg d .seqNo b0 b1 b2 b3 = .error (.format "MissingFctl")) ∧
    (∀ s, d.seqNo = some s → s + 1 < 2 ^ 32 → be32 b0 b1 b2 b3 ≠ s + 1 →
      parseU32 cfg d .seqNo b0 b1 b2 b3 = .error (.format "ApngOrder")) := by
  rw [parseU32_seqNo]
  refine ⟨fun h => by rw [h], fun s h h1 h2 => ?_⟩
  rw [h]; simp only
  rw [if_neg (by omega), if_pos h2]

/-- **fcTL sequence numbers**: `parse_fctl` is accepted only for `0` when no sequence number was seen yet and for
    `previous + 1` otherwise; it stores the number, resets the inflater and opens the fdAT sequence -/
theorem fctl_seqno_consecutive (d d' : Dec) (ev : Ev) (h : parseFctl d = .ok (d', ev)) :
    ∃ fc, ev = .frameControl fc ∧ SeqOk d.seqNo fc.seq ∧ d'.seqNo = some fc.seq ∧ d'.readyFdat = true ∧
      d'.zin = [] ∧ d'.zstarted = false := by
  obtain ⟨fc, i, _, _, hs, _, _, _, _, _, rfl, rfl⟩ := (parseFctl_ok_iff d d' ev).mp h
  exact ⟨fc, rfl, hs, rfl, rfl, rfl, rfl⟩

/-! ## fcTL rectangle -/

/-- **The frame rectangle is non-empty and inside the canvas.**  The inequalities are over `Nat` (exact
    arithmetic): `fc.x + fc.width` is the true sum even where it exceeds `2^32 - 1` and would wrap in
    `u32` — the code's `checked_sub` formulation (`fctlInBounds`) is equivalent to the exact one
    (`fctlInBounds_iff`), so offset + size = 2^32 is refused. -/
theorem fctl_bounds (d d' : Dec) (fc : FrameControl) (h : parseFctl d = .ok (d', .frameControl fc)) :
    ∃ i, d.info = some i ∧ 0 < fc.width ∧ 0 < fc.height ∧ fc.x + fc.width ≤ i.width ∧ fc.y + fc.height ≤ i.height ∧
      fc.dispose ≤ 2 ∧ fc.blend ≤ 1 ∧ SeqOk d.seqNo fc.seq ∧ rdFctl d.raw = some fc ∧
      d'.info = some { i with fctl := some fc } := by
  obtain ⟨fc', i, hrd, hi, hs, h1, h2, _, _, hb, rfl, hev⟩ := (parseFctl_ok_iff d d' _).mp h
  cases hev
  obtain ⟨b1, b2, b3, b4⟩ := (fctlInBounds_iff i fc).mp hb
  exact ⟨i, hi, b1, b2, b3, b4, h1, h2, hs, hrd, by simp [fctlDone, setInfo, hi]⟩

/-- conversely: a body that encodes `fc` (every field in range), a legal rectangle, legal dispose/blend
    operations and the right sequence number are accepted, and exactly `fc` is stored and reported -/
theorem fctl_accepts (d : Dec) (i : Info) (fc : FrameControl) (rest : Bytes)
    (hraw : d.raw = encodeFctl fc ++ rest) (hfits : fc.Fits) (hi : d.info = some i) (hs : SeqOk d.seqNo fc.seq)
    (hd : fc.dispose ≤ 2) (hb : fc.blend ≤ 1)
    (hrect : 0 < fc.width ∧ 0 < fc.height ∧ fc.x + fc.width ≤ i.width ∧ fc.y + fc.height ≤ i.height) :
    parseFctl d = .ok (fctlDone d fc, .frameControl fc) := by
  apply (parseFctl_ok_iff d _ _).mpr
  exact ⟨fc, i, by rw [hraw]; exact rdFctl_encode fc hfits rest, hi, hs, hd, hb, by omega, by omega,
    (fctlInBounds_iff i fc).mpr hrect, rfl, rfl⟩

/-- an fcTL body shorter than 26 bytes is refused -/
theorem fctl_short_rejected (d : Dec) (h : d.raw.length < 26) : ∃ e, parseFctl d = .error e := by
  rcases exists_error_or_ok (parseFctl d) with he | ⟨⟨d', ev⟩, hok⟩
  · exact he
  · obtain ⟨fc, hfc⟩ := parseFctl_ok_rd hok
    have := (rdFctl_some hfc).1; omega

/-- an empty or out-of-canvas rectangle is refused (`InvalidDimensions` / `BadSubFrameBounds`, unless an
    earlier check fails first) -/
theorem fctl_bad_rect_rejected (d : Dec) (i : Info) (fc : FrameControl) (hrd : rdFctl d.raw = some fc)
    (hi : d.info = some i)
    (hbad : fc.width = 0 ∨ fc.height = 0 ∨ i.width < fc.x + fc.width ∨ i.height < fc.y + fc.height) :
    ∃ e, parseFctl d = .error e := by
  rcases exists_error_or_ok (parseFctl d) with he | ⟨⟨d', ev⟩, hok⟩
  · exact he
  · obtain ⟨fc', i', hrd', hi', _, _, _, _, _, hb, _, _⟩ := (parseFctl_ok_iff d d' ev).mp hok
    rw [hrd] at hrd'; cases hrd'
    rw [hi] at hi'; cases hi'
    have := (fctlInBounds_iff i fc).mp hb
    omega

/-! ## compressed data -/

/-- **A corrupt compressed stream is refused**: if the inflater rejects the data accumulated so far plus the
    bytes this call takes, the `ImageData` step is an error; and at the end of the data-chunk sequence
    a stream that is corrupt or still incomplete (too short) makes the flush — hence the chunk-type step that
    triggered it — an error. -/
theorem corrupt_stream_rejected (cfg : Cfg) (d : Dec) (t : ChunkType) (buf : Bytes) :
    (cfg.inflate (d.zin ++ buf.take (min buf.length d.remaining)) = none →
      stepImage cfg d t buf = .error (.format "CorruptFlateStream")) ∧
    (d.zstarted = true → cfg.inflate d.zin = none → flushData cfg d = .error (.format "CorruptFlateStream")) ∧
    (d.zstarted = true → (∃ o, cfg.inflate d.zin = some (o, false)) →
      flushData cfg d = .error (.format "CorruptFlateStream (InsufficientInput)")) := by
  refine ⟨fun h => ?_, fun hz h => ?_, fun hz ⟨o, h⟩ => ?_⟩
  · unfold stepImage; simp only [h]
  · rw [flushData_eq, hz, h]; rfl
  · rw [flushData_eq, hz, h]; rfl

/-- the flush error is the error of the chunk-type step that ends the data-chunk sequence -/
theorem corrupt_stream_rejected_at_flush (cfg : Cfg) (d : Dec) (len : Nat) (b0 b1 b2 b3 : UInt8) (e : Err)
    (hinfo : d.info.isSome = true) (hcur : d.curType = IDAT ∨ d.curType = fdAT) (ht : be32 b0 b1 b2 b3 ≠ d.curType)
    (hf : flushData cfg { d with curType := be32 b0 b1 b2 b3 } = .error e) :
    parseU32 cfg d (.type len) b0 b1 b2 b3 = .error e := by
  rw [parseU32_type, if_neg (fun hx => by cases hi : d.info <;> simp [hi] at hinfo hx), if_pos ⟨ht, hcur⟩, hf]

/-! ## no image data -/

/-- **IEND**: the CRC step of an IEND chunk either fails or reports `ImageEnd` and leaves the decoder finished
    (`state = none`: every later call is refused).  A reader that meets `ImageEnd` while still looking
    for image data reports `MissingImageData` (`Reader.rdReadUntilImageData`, `Model/Reader.lean`). -/
theorem no_image_data (cfg : Cfg) (d d' : Dec) (b0 b1 b2 b3 : UInt8) (ev : Ev) (hd : d.state = none)
    (h : parseU32 cfg d (.crc IEND) b0 b1 b2 b3 = .ok (ev, d')) : ev = .imageEnd ∧ d' = d ∧ d'.state = none := by
  rw [parseU32_crc] at h
  have hc : isCritical IEND = true := by decide
  simp only [hc, Bool.not_true, Bool.false_eq_true, and_false, false_and, if_false, if_true] at h
  repeat' split at h
  all_goals first | (cases h; done) | (cases h; exact ⟨rfl, rfl, hd⟩)

/-- the reader's side: `ImageEnd` before any image data is `MissingImageData` -/
theorem reader_missing_image_data (cfg : Cfg) (fuel : Nat) (r r' : Reader.R)
    (h : Reader.decodeNextNoData cfg r = (r', .ok .imageEnd)) :
    Reader.rdReadUntilImageData cfg (fuel + 1) r = (r', .error (.err .format "MissingImageData")) := by
  simp [Reader.rdReadUntilImageData, h]

/-! ## the ordering rules as one automaton (`automaton_sound`)

`Framing.K` = `(infoSet, havePlte, haveIdat, readyIdat, readyFdat, inData)` is the chunk-kind-level state,
`Framing.proj : Dec → K` the projection, `Framing.KTrans` the explicit reference automaton over the actions
`begin t` (`ChunkBegin`), `flush t` (`ImageDataFlushed`), `parsed t` (`parse_chunk` succeeded on the complete body, of any length)
and `tau` (everything else).  It encodes only the ORDERING rules the property lists.  Not part of `K` (handled by
the theorems above instead): consecutive sequence numbers (`seqno_consecutive`, `fctl_seqno_consecutive`) and
"some image data before IEND" (`no_image_data` + the reader). -/

/-- **Simulation**: every successful `next_state` call of the model is a transition of the reference automaton between
    the projected states, labelled with the action the call performs (`labelOf`); consequently the actions
    of ANY run of the model — any input, any delivery, any length — form a run of the reference automaton -/
theorem automaton_sound (cfg : Cfg) :
    (∀ (d d' : Dec) (st : St) (buf : Bytes) (n : Nat) (ev : Ev), nextState cfg d st buf = .ok (n, ev, d') →
      KTrans (proj d) (labelOf d st ev d') (proj d')) ∧
    (∀ (f : Nat) (d : Dec) (buf : Bytes), KRun (proj d) (runL cfg f d buf) (proj (run cfg f d buf).1)) :=
  ⟨fun _ _ _ _ _ _ h => nextState_ktrans h, run_krun cfg⟩

/-- the actions are what the events say: `ChunkBegin(len, t)` is `begin t`, `ImageDataFlushed` is a `flush`,
    and `parsed t` is exactly a `ParseChunkData(t)` call with the whole body collected -/
theorem automaton_labels (d d' : Dec) (st : St) (ev : Ev) :
    (∀ t, labelOf d st ev d' = .begin t → ∃ len acc len', st = .u32 (.type len) acc ∧ ev = .chunkBegin len' t) ∧
    (∀ t, labelOf d st ev d' = .flush t → ∃ len acc, st = .u32 (.type len) acc ∧ ev = .imageDataFlushed) ∧
    (∀ t, labelOf d st ev d' = .parsed t ↔ st = .parseChunkData t ∧ d.remaining = 0) := by
  refine ⟨fun t h => ?_, fun t h => ?_, fun t => ?_⟩
  · cases st with
    | u32 kind acc =>
      cases kind <;> simp only [labelOf] at h <;> try cases h
      rename_i len
      cases ev <;> simp only at h <;> try cases h
      exact ⟨len, acc, _, rfl, rfl⟩
    | parseChunkData t' => simp only [labelOf] at h; split at h <;> cases h
    | readChunkData t' => cases h
    | imageData t' => cases h
  · cases st with
    | u32 kind acc =>
      cases kind <;> simp only [labelOf] at h <;> try cases h
      rename_i len
      cases ev <;> simp only at h <;> try cases h
      exact ⟨len, acc, rfl, rfl⟩
    | parseChunkData t' => simp only [labelOf] at h; split at h <;> cases h
    | readChunkData t' => cases h
    | imageData t' => cases h
  · cases st with
    | u32 kind acc =>
      constructor
      · intro h
        cases kind <;> simp only [labelOf] at h <;> try cases h
        cases ev <;> simp only at h <;> cases h
      · rintro ⟨h, _⟩; cases h
    | parseChunkData t' =>
      simp only [labelOf]
      constructor
      · intro h; split at h
        · cases h; exact ⟨rfl, by assumption⟩
        · cases h
      · rintro ⟨h, hr⟩; cases h; rw [if_pos hr]
    | readChunkData t' => exact ⟨fun h => (by cases h), fun ⟨h, _⟩ => (by cases h)⟩
    | imageData t' => exact ⟨fun h => (by cases h), fun ⟨h, _⟩ => (by cases h)⟩

/-- **What the reference automaton accepts** (hence, by `automaton_sound`, what any run of the model does):
    IHDR first; an IHDR at most once; a PLTE at most once; IDATs consecutive; an fdAT
    run needs an fcTL since the previous data run -/
theorem automaton_language :
    (∀ (k k' : K) (l1 : List Label) (t : ChunkType), KRun k (l1 ++ [.begin t]) k' → k.infoSet = false →
      t = IHDR ∨ Label.parsed IHDR ∈ l1) ∧
    (∀ (k k' : K) (l2 : List Label), KRun k (.parsed IHDR :: l2) k' → Label.parsed IHDR ∉ l2) ∧
    (∀ (k k' : K) (l2 : List Label), KRun k (.parsed PLTE :: l2) k' → Label.parsed PLTE ∉ l2) ∧
    (∀ (k k' : K) (l2 l3 : List Label) (t : ChunkType), KRun k (.begin IDAT :: l2 ++ .begin t :: l3) k' → t ≠ IDAT →
      Label.begin IDAT ∉ l3) ∧
    (∀ (k k' : K) (l1 : List Label), KRun k (l1 ++ [.begin fdAT]) k' → k.readyFdat = false → Label.parsed fcTL ∈ l1) ∧
    (∀ (k k' : K) (l1 : List Label) (t : ChunkType), KRun k (.flush t :: l1 ++ [.begin fdAT]) k' →
      Label.parsed fcTL ∈ l1) :=
  ⟨fun _ _ _ _ h h0 => h.ihdr_first h0, fun _ _ _ h => h.ihdr_once, fun _ _ _ h => h.plte_once,
   fun _ _ _ _ _ h ht => h.idat_consecutive ht, fun _ _ _ h h0 => h.fdat_needs_fctl h0,
   fun _ _ _ _ h => h.fdat_needs_fctl_after_flush⟩

/-- the two combined, for runs from a new decoder: e.g. in the action sequence of any run, once an IDAT
    was begun and then a chunk of another type, no IDAT is begun again; and the first chunk begun is IHDR -/
theorem model_orders_chunks (cfg : Cfg) (opts : Options) (f : Nat) (buf : Bytes) :
    (∀ l2 l3 t, runL cfg f (Dec.new opts) buf = .begin IDAT :: l2 ++ .begin t :: l3 → t ≠ IDAT → Label.begin IDAT ∉ l3) ∧
    (∀ l1 t l2, runL cfg f (Dec.new opts) buf = l1 ++ .begin t :: l2 → t = IHDR ∨ Label.parsed IHDR ∈ l1) ∧
    (∀ l1 l2, runL cfg f (Dec.new opts) buf = l1 ++ .begin fdAT :: l2 → Label.parsed fcTL ∈ l1) := by
  have hrun := run_krun cfg f (Dec.new opts) buf
  refine ⟨fun l2 l3 t h ht => ?_, fun l1 t l2 h => ?_, fun l1 l2 h => ?_⟩
  · rw [h] at hrun; exact hrun.idat_consecutive ht
  · rw [h, show l1 ++ .begin t :: l2 = (l1 ++ [.begin t]) ++ l2 by simp] at hrun
    obtain ⟨km, h1, _⟩ := KRun.append_iff.mp hrun
    exact h1.ihdr_first rfl
  · rw [h, show l1 ++ .begin fdAT :: l2 = (l1 ++ [.begin fdAT]) ++ l2 by simp] at hrun
    obtain ⟨km, h1, _⟩ := KRun.append_iff.mp hrun
    exact h1.fdat_needs_fctl rfl

/-! ## every chunk is parsed, once, with its whole body — for every length, 0 included

The invariant established by the repair f31d047 ("a chunk of length zero is parsed like any other chunk"): the type
step sends a buffered chunk with an EMPTY body straight to `ParseChunkData`, so the "skip to the CRC" arm of
`ReadChunkData` (`remaining = 0`, `stream.rs:743-745`) is dead (`StInv`: `ReadChunkData` always has something
remaining) and the only way into the CRC field of a buffered chunk is a successful `parse_chunk`. -/

/-- **The chunk-state invariant** `StInv` (`ReadChunkData(t)`: something remains and `t` is not a data chunk;
    `ParseChunkData(t)`: `t` is not a data chunk; `ImageData(t)`: `t` is IDAT or fdAT) holds for a new decoder, is
    preserved by every successful `next_state` call, hence holds after every run -/
theorem chunk_state_invariant (cfg : Cfg) :
    (∀ opts, StInv (Dec.new opts)) ∧
    (∀ (d d' : Dec) (st : St) (buf : Bytes) (n : Nat) (ev : Ev), d.state = some st → StInv d →
      nextState cfg d st buf = .ok (n, ev, d') → StInv d') ∧
    (∀ (f : Nat) (d : Dec) (buf : Bytes), StInv d → StInv (run cfg f d buf).1) :=
  ⟨stInv_new, fun _ _ _ _ _ _ hs hi h => nextState_stInv hs hi h, run_stInv cfg⟩

/-- **The body is collected completely and verbatim.**  (begin) after `ChunkBegin(len, t)` of a non-data chunk:
    `raw_bytes` is empty, `remaining = len`, and the state is `ParseChunkData(t)` if `len = 0`, `ReadChunkData(t)`
    otherwise.  (read) a `ReadChunkData` step with something remaining reports nothing, consumes `n ≤ remaining`
    bytes, appends exactly these to `raw_bytes`, and goes on reading, or to `ParseChunkData` when nothing remains or
    the buffer is full.  (grow) `ParseChunkData` with something remaining only grows the buffer.  So when
    `ParseChunkData` is reached with `remaining = 0`, `raw_bytes` is the concatenation of everything consumed since
    `ChunkBegin`: the `len` bytes of the body. -/
theorem chunk_body_collected (cfg : Cfg) :
    (∀ (d d1 : Dec) (len : Nat) (b0 b1 b2 b3 : UInt8), be32 b0 b1 b2 b3 ≠ IDAT → be32 b0 b1 b2 b3 ≠ fdAT →
      parseU32 cfg d (.type len) b0 b1 b2 b3 = .ok (.chunkBegin len (be32 b0 b1 b2 b3), d1) →
      d1.raw = [] ∧ d1.remaining = len ∧ d1.info = d.info ∧
      d1.state = some (if len = 0 then .parseChunkData (be32 b0 b1 b2 b3) else .readChunkData (be32 b0 b1 b2 b3))) ∧
    (∀ (d d' : Dec) (t : ChunkType) (buf : Bytes) (n : Nat) (ev : Ev), d.remaining ≠ 0 →
      nextState cfg d (.readChunkData t) buf = .ok (n, ev, d') →
      ev = .nothing ∧ n ≤ d.remaining ∧ d'.raw = d.raw ++ buf.take n ∧ d'.remaining = d.remaining - n ∧
      ((d'.state = some (.readChunkData t) ∧ d'.remaining ≠ 0) ∨ d'.state = some (.parseChunkData t))) ∧
    (∀ (d d' : Dec) (t : ChunkType) (buf : Bytes) (n : Nat) (ev : Ev), d.remaining ≠ 0 →
      nextState cfg d (.parseChunkData t) buf = .ok (n, ev, d') →
      n = 0 ∧ ev = .partialChunk t ∧ d'.raw = d.raw ∧ d'.remaining = d.remaining ∧ d'.info = d.info ∧
      d'.state = some (.readChunkData t)) := by
  refine ⟨fun d d1 len b0 b1 b2 b3 h1 h2 h => ?_, fun d d' t buf n ev hrem h => ?_, fun d d' t buf n ev hrem h => ?_⟩
  · obtain ⟨_, hc⟩ := parseU32_type_cases h
    rcases hc with ⟨_, hev, _⟩ | ⟨_, _, st, d2, ha, rfl⟩
    · cases hev
    · rcases afterType_cases ha with ⟨a, _⟩ | ⟨a, _⟩ | ⟨_, _, rfl, rfl⟩
      · exact absurd a h2
      · exact absurd a h1
      · exact ⟨rfl, rfl, rfl, rfl⟩
  · exact stepRead_collect (d := { d with state := none }) hrem h
  · exact stepParse_grow (d := { d with state := none }) hrem h

/-- **Every completed buffered chunk went through `parse_chunk`, exactly once** (decoders satisfying `StInv`, i.e. all
    decoders reached from a new one):
    (1) `ChunkComplete(crc, t)` is reported by the CRC step of chunk `t` and by nothing else;
    (2) the CRC field of a non-data chunk `t` is entered only by the parse step — `ParseChunkData(t)` with the whole body
        collected (`remaining = 0`; for a chunk of length 0 this is the step right after `ChunkBegin`), `parse_chunk`
        returned `Ok` on exactly that `raw_bytes`, nothing consumed;
    (3) from the CRC field the machine only stays in it, moves on to the next chunk's length field, or finishes: it never
        returns to `ParseChunkData`, so the chunk is parsed once;
    (4) if `parse_chunk` fails the step fails (and poisons the decoder): no completion without a successful parse. -/
theorem every_chunk_parsed (cfg : Cfg) (d d' : Dec) (st : St) (buf : Bytes) (n : Nat) (ev : Ev) (t : ChunkType)
    (hs : d.state = some st) (hinv : StInv d) (h : nextState cfg d st buf = .ok (n, ev, d')) :
    (∀ c, ev = .chunkComplete c t → ∃ acc, st = .u32 (.crc t) acc) ∧
    (∀ acc', d'.state = some (.u32 (.crc t) acc') → t ≠ IDAT → t ≠ fdAT →
      (∃ acc, st = .u32 (.crc t) acc) ∨
      (st = .parseChunkData t ∧ d.remaining = 0 ∧ n = 0 ∧ acc' = [] ∧ d'.raw = d.raw ∧
        parseChunk cfg { d with state := none } t = .ok (ev, d'))) ∧
    (∀ acc, st = .u32 (.crc t) acc →
      (∃ acc', d'.state = some (.u32 (.crc t) acc') ∧ ev = .nothing) ∨
      (d'.state = some (.u32 .length []) ∧ (ev = .nothing ∨ ∃ c, ev = .chunkComplete c t)) ∨
      (d'.state = none ∧ ev = .imageEnd ∧ t = IEND)) := by
  refine ⟨fun c hev => ?_, fun acc' hcrc h1 h2 => crc_entered_by_parse hs hinv h hcrc h1 h2, fun acc hst => ?_⟩
  · subst hev; exact chunkComplete_only_at_crc h
  · subst hst; exact crc_step_leaves_chunk h

/-- (4) of `every_chunk_parsed`: a failing `parse_chunk` fails the `ParseChunkData` step -/
theorem parse_failure_is_fatal (cfg : Cfg) (d : Dec) (t : ChunkType) (buf : Bytes) (e : Err) (hrem : d.remaining = 0)
    (h : parseChunk cfg { d with state := none } t = .error e) :
    nextState cfg d (.parseChunkData t) buf = .error e := by
  unfold nextState
  simp only
  unfold stepParse
  rw [if_pos (by exact hrem), h]
  rfl

/-- **An empty chunk is parsed**: the type step of a non-data chunk announced with length 0 goes straight to
    `ParseChunkData`, and the next call (on any non-empty input) IS `parse_chunk` on the empty body — so a second
    IHDR / PLTE is `DuplicateChunk`, an empty acTL / fcTL / IHDR is `ChunkTooShort`, an empty text chunk misses its
    separator, whatever the body length -/
theorem empty_chunk_parsed (cfg : Cfg) (d d1 : Dec) (b0 b1 b2 b3 : UInt8) (buf : Bytes)
    (h1 : be32 b0 b1 b2 b3 ≠ IDAT) (h2 : be32 b0 b1 b2 b3 ≠ fdAT)
    (h : parseU32 cfg d (.type 0) b0 b1 b2 b3 = .ok (.chunkBegin 0 (be32 b0 b1 b2 b3), d1)) :
    d1.state = some (.parseChunkData (be32 b0 b1 b2 b3)) ∧ d1.raw = [] ∧ d1.remaining = 0 ∧
    nextState cfg d1 (.parseChunkData (be32 b0 b1 b2 b3)) buf =
      (parseChunk cfg { d1 with state := none } (be32 b0 b1 b2 b3)).map fun (ev, d) => (0, ev, d) := by
  obtain ⟨hraw, hrem, _, hst⟩ := (chunk_body_collected cfg).1 d d1 0 b0 b1 b2 b3 h1 h2 h
  refine ⟨by simpa using hst, hraw, hrem, ?_⟩
  simp only [nextState, stepParse, hrem, if_true]

/-- IEND (always empty) is handed to `parse_chunk` too, which knows no parser for it and reports `PartialChunk(IEND)`
    with the decoder unchanged (the `ImageEnd` follows at the CRC: `no_image_data`) -/
theorem iend_parsed_as_unknown (cfg : Cfg) (d : Dec) :
    parseChunk cfg d IEND = .ok (.partialChunk IEND, d.atCrc IEND) :=
  parseChunk_of_ok (dispatch_unknown cfg (d.atCrc IEND) IEND (Or.inl (by decide)))

/-- an acTL body shorter than 8 bytes (the empty one included) is refused -/
theorem actl_short_rejected (d : Dec) (h : d.raw.length < 8) : ∃ e, parseActl d = .error e := by
  rcases exists_error_or_ok (parseActl d) with he | ⟨⟨d', ev⟩, hok⟩
  · exact he
  · exfalso
    unfold parseActl at hok
    simp only [bind, Except.bind, throw, throwThe, MonadExceptOf.throw, withInfo] at hok
    repeat' split at hok
    all_goals first
      | (cases hok; done)
      | (rename_i _ _ v1 e1 _ v2 e2 _ _ _
         obtain ⟨_, _, _, _, hb1, _⟩ := rdU32_some (v := v1.1) (r := v1.2) (eofOr_ok.mp e1)
         obtain ⟨_, _, _, _, hb2, _⟩ := rdU32_some (v := v2.1) (r := v2.2) (eofOr_ok.mp e2)
         rw [hb1, hb2] at h
         simp only [List.length_cons] at h
         omega)

/-! ## non-vacuity -/
section examples
open Png.Framing.Toy

/-- a chunk with the toy CRC (0) -/
def chunk (t : ChunkType) (body : Bytes) : Bytes := be32Bytes body.length ++ typeBytes t ++ body ++ [0, 0, 0, 0]
def tIME := mkType 't' 'I' 'M' 'E'

/-- `Params.signature` is the PNG signature; a wrong first half is refused -/
example : Params.signature = [137, 80, 78, 71, 13, 10, 26, 10] ∧
    (runF toyCfg d0 [137, 80, 78, 72]).2.2 = some (.format "InvalidSignature") := by decide +kernel

/-- first chunk not IHDR -/
example : (runF toyCfg d0 (sig ++ idat)).2.2 = some (.format "ChunkBeforeIhdr") := by decide +kernel

/-- second IHDR; zero width; illegal colour/depth pair (colour 2, depth 4); short IHDR -/
example :
    (runF toyCfg d0 (sig ++ ihdr ++ ihdr)).2.2 = some (.format "DuplicateChunk IHDR") ∧
    (runF toyCfg d0 (sig ++ chunk IHDR [0, 0, 0, 0, 0, 0, 0, 1, 8, 0, 0, 0, 0])).2.2 = some (.format "InvalidDimensions") ∧
    (runF toyCfg d0 (sig ++ chunk IHDR [0, 0, 0, 1, 0, 0, 0, 1, 4, 2, 0, 0, 0])).2.2 = some (.format "InvalidColorBitDepth") ∧
    (runF toyCfg d0 (sig ++ chunk IHDR [0, 0, 0, 1, 0, 0, 0, 1, 8, 0, 0, 0])).2.2 = some (.format "ChunkTooShort") := by
  decide +kernel

/-- **Empty chunks are parsed** (repaired in f31d047; before, all of these streams decoded without error): an EMPTY second
    IHDR and an EMPTY second PLTE are `DuplicateChunk`; an empty IHDR / acTL / fcTL is `ChunkTooShort`; an empty tEXt
    misses its separator; an empty eXIf is stored as the empty block; an empty unknown chunk is still harmless -/
example :
    (runF toyCfg d0 (sig ++ ihdr ++ chunk IHDR [] ++ idat ++ iend)).2.2 = some (.format "DuplicateChunk IHDR") ∧
    (runF toyCfg d0 (sig ++ ihdr ++ chunk PLTE [1, 2, 3] ++ chunk PLTE [] ++ idat ++ iend)).2.2 =
      some (.format "DuplicateChunk PLTE") ∧
    (runF toyCfg d0 (sig ++ ihdr ++ chunk PLTE [1, 2, 3] ++ chunk PLTE [4, 5, 6] ++ idat ++ iend)).2.2 =
      some (.format "DuplicateChunk PLTE") ∧
    (runF toyCfg d0 (sig ++ chunk IHDR [])).2.2 = some (.format "ChunkTooShort") ∧
    (runF toyCfg d0 (sig ++ ihdr ++ chunk acTL [])).2.2 = some (.format "ChunkTooShort") ∧
    (runF toyCfg d0 (sig ++ ihdr ++ chunk fcTL [])).2.2 = some (.format "ChunkTooShort") ∧
    (runF toyCfg d0 (sig ++ ihdr ++ chunk tEXt [])).2.2 = some (.format "MissingNullSeparator") ∧
    ((runF toyCfg d0 (sig ++ ihdr ++ chunk eXIf [])).1.info.bind (·.exif)) = some [] ∧
    (runF toyCfg d0 (sig ++ ihdr ++ chunk tIME [] ++ idat ++ iend)).2.2 = none ∧
    (runF toyCfg d0 (sig ++ ihdr ++ chunk tIME [] ++ idat ++ iend)).1.out = [7, 9] := by
  decide +kernel

/-- NOTE (consequence of f31d047, kept visible): an EMPTY FIRST PLTE is now parsed and accepted — `parse_plte` does not
    validate the length — so the palette is `Some([])` where it used to stay `None`; likewise an empty (malformed) first
    iCCP now sets `have_iccp` and makes a later well-formed iCCP ignored -/
example :
    ((runF toyCfg d0 (sig ++ ihdr ++ chunk PLTE [])).1.info.bind (·.palette)) = some [] ∧
    (runF toyCfg d0 (sig ++ ihdr ++ chunk PLTE [])).2.2 = none ∧
    ((runF toyCfg d0 (sig ++ ihdr ++ chunk iCCP [] ++ chunk iCCP [97, 0, 0, 1, 2, 3])).1.info.bind (·.icc)) = none ∧
    ((runF toyCfg d0 (sig ++ ihdr ++ chunk iCCP [97, 0, 0, 1, 2, 3])).1.info.bind (·.icc)) = some [1, 2, 3] := by
  decide +kernel

/-- IDAT, another chunk, IDAT: the second IDAT is refused; the type step of the intervening chunk is the flush -/
example :
    (runF toyCfg d0 (sig ++ ihdr ++ idat ++ chunk tIME [] ++ idat)).2.2 =
      some (.format "UnexpectedRestartOfDataChunkSequence IDAT") ∧
    (runF toyCfg d0 (sig ++ ihdr ++ idat ++ chunk tIME [] ++ idat)).2.1.contains .imageDataFlushed = true := by
  decide +kernel

/-- fdAT without fcTL; fdAT shorter than four bytes after an fcTL; sequence gap -/
example :
    let fctl0 := chunk fcTL (encodeFctl { seq := 0, width := 1, height := 1, x := 0, y := 0, delayNum := 1, delayDen := 1,
                                          dispose := 0, blend := 0 })
    (runF toyCfg d0 (sig ++ ihdr ++ chunk fdAT [0, 0, 0, 0, 2, 7, 9])).2.2 =
      some (.format "UnexpectedRestartOfDataChunkSequence fdAT") ∧
    (runF toyCfg d0 (sig ++ ihdr ++ fctl0 ++ chunk fdAT [0, 0, 1])).2.2 = some (.format "FdatShorterThanFourBytes") ∧
    (runF toyCfg d0 (sig ++ ihdr ++ fctl0 ++ chunk fdAT [0, 0, 0, 2, 2, 7, 9])).2.2 = some (.format "ApngOrder") ∧
    (runF toyCfg d0 (sig ++ ihdr ++ fctl0 ++ chunk fdAT [0, 0, 0, 1, 2, 7, 9] ++ iend)).2.2 = none := by
  decide +kernel

/-- fcTL whose offset + size is exactly 2^32 (wraps to 0 in `u32`): refused; and the same via `fctl_bad_rect_rejected` -/
example :
    let fc : FrameControl := { seq := 0, width := 1, height := 1, x := 2 ^ 32 - 1, y := 0, delayNum := 1, delayDen := 1,
                               dispose := 0, blend := 0 }
    fc.Fits ∧ (runF toyCfg d0 (sig ++ ihdr ++ chunk fcTL (encodeFctl fc))).2.2 = some (.format "BadSubFrameBounds") := by
  refine ⟨by simp [FrameControl.Fits], by decide +kernel⟩

/-- corrupt stream inside IDAT; stream that is too short at the end of the IDAT sequence; IEND right after IHDR -/
example :
    (runF toyCfg d0 bad).2.2 = some (.format "CorruptFlateStream") ∧
    (runF toyCfg d0 (sig ++ ihdr ++ chunk IDAT [5, 7, 9] ++ iend)).2.2 =
      some (.format "CorruptFlateStream (InsufficientInput)") ∧
    (runF toyCfg d0 (sig ++ ihdr ++ iend)).2.1.getLast? = some .imageEnd ∧
    (runF toyCfg d0 (sig ++ ihdr ++ iend)).1.state = none := by
  decide +kernel

/-- the actions of the valid toy stream (IEND, always empty, is parsed too: `iend_parsed_as_unknown`) and its events -/
example : runL toyCfg 400 d0 good =
    [.tau, .tau, .tau, .begin IHDR, .tau, .parsed IHDR, .tau, .tau, .begin IDAT, .tau, .tau, .tau, .flush IEND,
     .begin IEND, .parsed IEND, .tau] ∧
    (runF toyCfg d0 good).2.1 =
      [.chunkBegin 13 IHDR, .header 1 1 8 0 false, .chunkComplete 0 IHDR, .chunkBegin 3 IDAT, .imageData,
       .chunkComplete 0 IDAT, .imageDataFlushed, .chunkBegin 0 IEND, .partialChunk IEND, .imageEnd] := by
  decide +kernel

end examples

end Png.C10
