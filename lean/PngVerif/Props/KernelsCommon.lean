import PngVerif.Generated.KernelsCommon
import PngVerif.Model.Basic
import PngVerif.Proofs.KernelTactic
/-!
# Tie A, part 2 (translator): sample counts, colour/depth legality and row-length arithmetic of `src/common.rs`

`Generated/KernelsCommon.lean` is rewritten by `tools/rs2lean.py` from `/repo/src/common.rs` on every run.  For every legal
colour type and bit depth and EVERY `u32` width the translated functions equal the model definitions of `Model/Basic.lean`
(`samplesOf`, `combinationInvalid`, `checkedRawRowLength`, `rawRowLengthFromWidth`, `bitsPerPixel`, `bytesPerPixel`,
`bppFromUsize`) and stay inside `usize` / `u64` (`_ok`: in particular `width as usize * samples` and the `* 2` for 16-bit
samples cannot overflow a 64-bit `usize`; `usize` is taken as 64 bits wide, as everywhere in the model).

Every theorem about a function that takes a `ColorType` / `BitDepth` is stated on the function's real domain - the discriminants of the
five variants each (`colorOk`, `depthOk`) - and proved by evaluating the translated function on these values, so it holds for every way of
writing the Rust function that computes the same answers on enum values; what the translation does with a number that is no variant is
not observable and not constrained.
-/
namespace Png.Kernels
open Png

theorem colorOk_cases {c : Nat} (h : colorOk c = true) : c = 0 ∨ c = 2 ∨ c = 3 ∨ c = 4 ∨ c = 6 := by
  simp [colorOk] at h; omega
theorem depthOk_cases {d : Nat} (h : depthOk d = true) : d = 1 ∨ d = 2 ∨ d = 4 ∨ d = 8 ∨ d = 16 := by
  simp [depthOk] at h; omega

theorem kernel_samples (c : Nat) (h : colorOk c = true) :
    Gen.ColorType_samples c = (samplesOf c : Nat) ∧ Gen.ColorType_samples_u8 c = (samplesOf c : Nat) ∧
    Gen.ColorType_samples_ok c = true ∧ Gen.ColorType_samples_u8_ok c = true := by
  rcases colorOk_cases h with h | h | h | h | h <;> subst h <;> decide

/-- `ColorType::is_combination_invalid` (common.rs:74-83) on its REAL domain: `self` is one of the five `ColorType` variants and `bit_depth`
    one of the five `BitDepth` variants (in `parse_ihdr` it is called after both `from_u8` decoders succeeded; an enum value cannot be anything
    else).  Proved by evaluating the translated function on the 25 pairs, so the proof does not depend on how the Rust function is written
    (a Boolean formula, a `match self`, a table), and two functions that agree on the 25 pairs but differ on numbers that are no variant
    (e.g. "depth 3") are not told apart; any change of the answer on one of the 25 pairs makes `decide` fail. -/
theorem kernel_combination_invalid (c d : Nat) (hc : colorOk c = true) (hd : depthOk d = true) :
    Gen.ColorType_is_combination_invalid c d = combinationInvalid c d ∧ Gen.ColorType_is_combination_invalid_ok c d = true := by
  rcases colorOk_cases hc with h | h | h | h | h <;> subst h <;>
  rcases depthOk_cases hd with h | h | h | h | h <;> subst h <;> decide

theorem kernel_raw_row_length (c d w : Nat) (hc : colorOk c = true) (hd : depthOk d = true) (hw : w < 2 ^ 32) :
    Gen.ColorType_raw_row_length_from_width c d w = (rawRowLengthFromWidth c d w : Nat) ∧
    Gen.ColorType_raw_row_length_from_width_ok c d w = true := by
  rcases colorOk_cases hc with h | h | h | h | h <;> subst h <;>
  rcases depthOk_cases hd with h | h | h | h | h <;> subst h <;>
  (constructor
   · simp [Gen.ColorType_raw_row_length_from_width, rawRowLengthFromWidth, Gen.ColorType_samples, Gen.ColorType_samples_u8, samplesOf]
     try (repeat' split) <;> omega
   · simp [Gen.ColorType_raw_row_length_from_width_ok, Gen.ColorType_samples, Gen.ColorType_samples_u8, Gen.ColorType_samples_ok, Gen.ColorType_samples_u8_ok]
     try omega)

theorem kernel_checked_raw_row_length (c d w : Nat) (hc : colorOk c = true) (hd : depthOk d = true) (hw : w < 2 ^ 32) :
    Gen.ColorType_checked_raw_row_length c d w = (checkedRawRowLength c d w).map Int.ofNat ∧
    Gen.ColorType_checked_raw_row_length_ok c d w = true := by
  rcases colorOk_cases hc with h | h | h | h | h <;> subst h <;>
  rcases depthOk_cases hd with h | h | h | h | h <;> subst h <;>
  (constructor
   · simp [Gen.ColorType_checked_raw_row_length, checkedRawRowLength, Gen.ColorType_samples_u8, Gen.BitDepth_into_u8, samplesOf]
     try (repeat' split) <;> (try simp) <;> omega
   · simp [Gen.ColorType_checked_raw_row_length_ok, Gen.ColorType_samples_u8, Gen.BitDepth_into_u8, Gen.ColorType_samples_u8_ok, Gen.BitDepth_into_u8_ok]
     try omega)

theorem kernel_bits_bytes_per_pixel (c d : Nat) (hc : colorOk c = true) (hd : depthOk d = true) :
    Gen.ColorType_bits_per_pixel c d = (bitsPerPixel c d : Nat) ∧ Gen.ColorType_bits_per_pixel_ok c d = true ∧
    Gen.ColorType_bytes_per_pixel c d = (bytesPerPixel c d : Nat) ∧ Gen.ColorType_bytes_per_pixel_ok c d = true := by
  rcases colorOk_cases hc with h | h | h | h | h <;> subst h <;>
  rcases depthOk_cases hd with h | h | h | h | h <;> subst h <;> decide

/-- `BytesPerPixel::from_usize`: the translated function does not reach `unreachable!()` exactly where the model answers `some`,
    and then returns the discriminant the model returns -/
theorem kernel_bpp_from_usize (n : Nat) :
    (Gen.BytesPerPixel_from_usize_ok n = true ↔ bppFromUsize n = some n) ∧
    (Gen.BytesPerPixel_from_usize_ok n = true → Gen.BytesPerPixel_from_usize n = n) ∧
    (bppFromUsize n = none ↔ Gen.BytesPerPixel_from_usize_ok n = false) := by
  unfold Gen.BytesPerPixel_from_usize_ok Gen.BytesPerPixel_from_usize bppFromUsize
  refine ⟨?_, ?_, ?_⟩ <;> (repeat' split) <;> simp_all <;> omega

example : Gen.ColorType_raw_row_length_from_width 2 16 4294967295 = 25769803771 ∧
    Gen.ColorType_checked_raw_row_length 6 16 4294967295 = some 34359738361 ∧ Gen.BytesPerPixel_from_usize_ok 5 = false := by decide

end Png.Kernels
