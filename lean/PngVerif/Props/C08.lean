import PngVerif.Proofs.Transform
/-!
# C08 — Output transformations compute exactly the documented pixel conversion

Property theorems only (helper lemmas live in `PngVerif/Proofs/Transform.lean`; the definitions are
in `PngVerif/Model/Transform.lean`).  Level: one row.  A transform is a function of the
identity-decoded row and of the *prior content* of the output buffer; the theorems quantify over
all well-formed metadata (`WellFormed`: legal colour type / bit depth pair, PLTE of whole entries
and at most 256 of them, colour key of one stored sample per channel — what a valid PNG has), all
8 flag sets, all widths, all rows of the raw row length and all prior buffer contents.  Since the
repair of defect D1 (/repo commit c0a00c7) the conversion theorem also holds with a PLTE chunk of
ANY length (`Decodable`, `C08_convert_any_palette`): the palette entries are then the whole 3-byte
entries, at most 256 of them (`specPalette`).  The pinned-tree behaviour (`createRgbaPaletteOld`,
`transformRowOld`) is kept for the record in the last section.  Whole
images (frame / row path, interlacing) are row-by-row applications of the same function
(`decoder/mod.rs:570-590`); that part is covered by the harness, not by a theorem.
-/
namespace Png.C08
open Png Png.Transform

/-! ## The conversion -/

/-- **C08, conversion.**  For every valid metadata record, every combination of EXPAND, STRIP_16,
    ALPHA, every width, every identity-decoded row and every prior content of an output buffer of
    the advertised line size: the transform selected by `create_transform_fn` returns no error,
    does not panic, and leaves in the buffer exactly the documented conversion of the row
    (palette lookup with missing entries opaque / out-of-range indices opaque black / over-long
    tRNS ignored; bit replication of grayscale below 8 bits; alpha 0 exactly for the colour key,
    opaque otherwise — also when ALPHA is set without a tRNS chunk; high byte of 16-bit samples).
    All ten row functions `create_transform_fn` can return are covered. -/
theorem C08_convert (info : Info) (f : Flags) (width : Nat) (row out : Bytes)
    (hw : WellFormed info)
    (hrow : row.length = rawRowLengthFromWidth info.colorType info.bitDepth width - 1)
    (hout : outputLineSize info f width = .ok out.length) :
    transformRow info f row out = .ok (specConvert info f row width) :=
  transformRow_eq_spec info f width row out hw hrow hout

/-- **C08, conversion, for every PLTE length** (the statement that was false before the repair of
    D1).  The metadata need only be `Decodable`: legal pair, an indexed image has *some* PLTE chunk
    — of any length, not a multiple of 3, longer than 768 bytes, empty —, colour key of one stored
    sample per channel.  The documented conversion reads a malformed PLTE chunk as its whole 3-byte
    entries, at most 256 of them (`specPalette`, used by `specConvert`): a trailing partial entry and
    entries beyond the 256th do not exist, indices beyond are opaque black, and a tRNS chunk longer
    than that number of entries is ignored.  No error, no panic, exactly that conversion. -/
theorem C08_convert_any_palette (info : Info) (f : Flags) (width : Nat) (row out : Bytes)
    (hw : Decodable info)
    (hrow : row.length = rawRowLengthFromWidth info.colorType info.bitDepth width - 1)
    (hout : outputLineSize info f width = .ok out.length) :
    transformRow info f row out = .ok (specConvert info f row width) :=
  transformRow_eq_spec_decodable info f width row out hw hrow hout

/-- the entries of a PLTE chunk: for a valid chunk (what `C08_convert` is about) the chunk itself;
    in general `min (length / 3) 256` whole entries -/
theorem palette_entries (plte : Bytes) :
    (plte.length % 3 = 0 → plte.length ≤ 768 → specPalette plte = plte) ∧
    (specPalette plte).length = min (plte.length / 3) 256 * 3 ∧
    ∃ rest, plte = specPalette plte ++ rest :=
  ⟨specPalette_of_guard plte, specPalette_length plte,
   ⟨plte.drop (min (plte.length / 3) 256 * 3), by unfold specPalette; rw [List.take_append_drop]⟩⟩

/-- the result does not depend on what the output buffer held before: every byte is written -/
theorem C08_prior_content_irrelevant (info : Info) (f : Flags) (width : Nat) (row out₁ out₂ : Bytes)
    (hw : WellFormed info)
    (hrow : row.length = rawRowLengthFromWidth info.colorType info.bitDepth width - 1)
    (h₁ : outputLineSize info f width = .ok out₁.length)
    (h₂ : outputLineSize info f width = .ok out₂.length) :
    transformRow info f row out₁ = transformRow info f row out₂ := by
  rw [C08_convert info f width row out₁ hw hrow h₁, C08_convert info f width row out₂ hw hrow h₂]

/-! ## Advertised sizes -/

/-- `output_color_type`, `output_line_size`, `output_buffer_size` never panic and are the documented
    output type, the row bytes of that type, and line size times height — for every metadata record
    (no hypothesis at all), every flag set, every width. -/
theorem C08_advertised (info : Info) (f : Flags) (width : Nat) :
    (∃ d, outputColorType info f = .ok (specOutputColor info f, d) ∧ d.toNat = specOutputDepth info f) ∧
    outputLineSize info f width = .ok (specOutputLineSize info f width) ∧
    (∀ height, specOutputLineSize info f width * height < 2 ^ 64 →
      outputBufferSize info f width height = .ok (specOutputLineSize info f width * height)) :=
  ⟨outputColorType_eq info f, outputLineSize_eq info f width,
   fun h hfit => outputBufferSize_eq info f width h hfit⟩

/-- `raw_row_length_from_width` minus the filter byte is `ceil(width * samples * depth / 8)` -/
theorem C08_raw_row_length (ct : ColorType) (d : BitDepth) (width : Nat) :
    rawRowLengthFromWidth ct d width - 1 = specRowBytes ct d width := rawRowLength_eq ct d width

/-- **C08, sizes.**  The bytes written are exactly the advertised ones: the transform's output has
    the length `output_line_size(width)`, which is the row size of `output_color_type()` at that
    width; and the documented conversion itself has that size. -/
theorem C08_sizes (info : Info) (f : Flags) (width : Nat) (row out : Bytes)
    (hw : WellFormed info)
    (hrow : row.length = rawRowLengthFromWidth info.colorType info.bitDepth width - 1)
    (hout : outputLineSize info f width = .ok out.length) :
    ∃ out' oc od, transformRow info f row out = .ok out' ∧ outputColorType info f = .ok (oc, od) ∧
      out'.length = out.length ∧ out.length = specRowBytes oc od width ∧
      out.length = specOutputLineSize info f width := by
  obtain ⟨od, hoc, hod⟩ := outputColorType_eq info f
  have hol := outLen info f width out hout
  have hlen := specConvert_length info f width row (by rw [hrow, rawRowLength_eq]; rfl)
  refine ⟨_, _, od, C08_convert info f width row out hw hrow hout, hoc, ?_, ?_, ?_⟩
  · rw [hlen, specOutputLineSize]; exact hol.symm
  · rw [hol, specRowBytes, hod]
  · rw [hol, specOutputLineSize]

/-- the same for a PLTE chunk of any length -/
theorem C08_sizes_any_palette (info : Info) (f : Flags) (width : Nat) (row out : Bytes)
    (hw : Decodable info)
    (hrow : row.length = rawRowLengthFromWidth info.colorType info.bitDepth width - 1)
    (hout : outputLineSize info f width = .ok out.length) :
    ∃ out' oc od, transformRow info f row out = .ok out' ∧ outputColorType info f = .ok (oc, od) ∧
      out'.length = out.length ∧ out.length = specRowBytes oc od width ∧
      out.length = specOutputLineSize info f width := by
  obtain ⟨od, hoc, hod⟩ := outputColorType_eq info f
  have hol := outLen info f width out hout
  have hlen := specConvert_length info f width row (by rw [hrow, rawRowLength_eq]; rfl)
  refine ⟨_, _, od, C08_convert_any_palette info f width row out hw hrow hout, hoc, ?_, ?_, ?_⟩
  · rw [hlen, specOutputLineSize]; exact hol.symm
  · rw [hol, specRowBytes, hod]
  · rw [hol, specOutputLineSize]

/-! ## Selection -/

/-- **C08, selection.**  For a legal colour type / bit depth pair the `assert_eq!(bit_depth, 16)`
    arm of `create_transform_fn` is unreachable, and when in addition an indexed image has a palette
    the selection returns a function (neither `PaletteRequired` nor `InvalidColorBitDepth`). -/
theorem C08_selection_total (info : Info) (f : Flags)
    (hl : legal info.colorType info.bitDepth = true) :
    selectTransform info f ≠ .error .panic ∧
    ((info.colorType = .indexed → info.palette.isSome = true) → ∃ k, selectTransform info f = .ok k) :=
  ⟨selectTransform_no_panic info f hl, selectTransform_ok info f hl⟩

/-- the assertion is not dead code in general: an (illegal) 4-bit RGB header reaches it -/
theorem C08_assert_arm_live :
    selectTransform ⟨.rgb, .four, none, none⟩ ⟨true, false, true⟩ = .error .panic := by rfl

/-- an indexed image without PLTE is refused under EXPAND -/
theorem C08_palette_required (d : BitDepth) (trns : Option Bytes) (f : Flags) (he : f.doExpand = true) :
    selectTransform ⟨.indexed, d, none, trns⟩ f = .error .paletteRequired := by
  rw [selectTransform_eq]; simp [he]

/-! ## Components -/

/-- **`unpack_bits` = specification unpacking**, depths 1, 2, 4, 8, every row length, every channel
    count: with an output of `n` chunks and a row holding at least `n` samples neither assert fires,
    the `expect` is not reached, and the closure is applied, in order, to values whose numbers are
    the first `n` samples of the row in the PNG packing (leftmost sample in the high-order bits). -/
theorem unpack_bits_spec (bd : BitDepth) (hbd : bd ≠ .sixteen) (ch n : Nat) (hch : 0 < ch)
    (row out : Bytes) (func : PixelFn) (hout : out.length = n * ch)
    (hn : n ≤ (specSamples bd row).length) :
    ∃ vals : Bytes, unpackBits row out ch bd.toNat func = unpack8 func vals ∧
      vals.map (·.toNat) = (specSamples bd row).take n := by
  rw [specSamples_eq bd hbd, List.length_map] at hn
  refine ⟨(implSamples bd.toNat row).take n, unpackBits_eq _ ch n ?_ hch row out func hout hn, ?_⟩
  · cases bd <;> simp [BitDepth.toNat] at hbd ⊢
  · rw [specSamples_eq bd hbd, List.map_take]

/-- the grayscale scaling factor `255 / (2^d - 1)` *is* bit replication: the `d`-bit value repeated
    `8/d` times, for every depth below 8 and every value -/
theorem bit_replication : ∀ d ∈ [1, 2, 4], ∀ v, v < 2 ^ d →
    v * (255 / (2 ^ d - 1)) = ((List.range (8 / d)).map fun k => v * 2 ^ (d * k)).sum := by decide

/-- **memo palette = documented lookup, for every PLTE and every tRNS**: `create_rgba_palette` does
    not panic and row `i` of its table is, for every index 0..255, entry `i` of the usable palette
    entries (black beyond them) with the tRNS alpha (255 where tRNS has no entry, and everywhere
    when tRNS is longer than the palette): the clobbered alphas are all repaired. -/
theorem memo_palette_spec (pal : Bytes) (trns : Option Bytes) :
    ∃ memo, createRgbaPalette pal trns = .ok memo ∧ memo.length = 256 ∧
      ∀ i, i < 256 → ∃ e, memo[i]? = some e ∧
        e.rgbBytes.map (·.toNat) = specPaletteRgb (specPalette pal) i ∧
        e.2.2.2.toNat = specPaletteAlpha (specPalette pal) trns i :=
  createRgbaPalette_spec pal trns

/-- the same for a valid PLTE (whole entries, at most 256), in terms of the chunk itself -/
theorem memo_palette_spec_valid (pal : Bytes) (trns : Option Bytes)
    (h3 : pal.length % 3 = 0) (h768 : pal.length ≤ 768) :
    ∃ memo, createRgbaPalette pal trns = .ok memo ∧ memo.length = 256 ∧
      ∀ i, i < 256 → ∃ e, memo[i]? = some e ∧
        e.rgbBytes.map (·.toNat) = specPaletteRgb pal i ∧ e.2.2.2.toNat = specPaletteAlpha pal trns i := by
  have := memo_palette_spec pal trns
  rwa [specPalette_of_guard pal h3 h768] at this

/-- **`create_rgba_palette` is total** (repaired code): for every PLTE and every tRNS it returns a
    table of 256 rows — never a panic -/
theorem create_rgba_palette_total (pal : Bytes) (trns : Option Bytes) :
    (∃ memo, createRgbaPalette pal trns = .ok memo ∧ memo.length = 256) ∧
    createRgbaPalette pal trns ≠ .error .panic :=
  ⟨createRgbaPalette_total pal trns, createRgbaPalette_no_panic pal trns⟩

/-- **overlapping 4-byte writes = plain 3-byte writes** in `expand_8bit_into_rgb8`, for every row
    and every prior buffer content -/
theorem overlapping_writes (memo : List Rgba) (hlen : memo.length = 256) (row out : Bytes)
    (hout : out.length = 3 * row.length) :
    expand8bitIntoRgb8 memo row out = .ok (row.flatMap fun i => (memoGet memo i).rgbBytes) :=
  expand8bitIntoRgb8_eq memo hlen row out hout

/-- an index beyond the palette entries is opaque black (memo table, every index up to 255, every
    PLTE length) -/
theorem out_of_range_index_black (pal : Bytes) (trns : Option Bytes) (memo : List Rgba)
    (hm : createRgbaPalette pal trns = .ok memo) (i : Nat) (hi : min (pal.length / 3) 256 ≤ i)
    (h256 : i < 256) :
    memo[i]? = some (0, 0, 0, 0xFF) := memo_out_of_range pal trns memo hm i hi h256

/-- a tRNS chunk with more entries than the palette has (usable) entries is ignored: memo table and
    whole conversion are those of an empty tRNS chunk (an alpha channel is still produced, all
    opaque); for a valid PLTE `min (pal.length / 3) 256 = pal.length / 3` -/
theorem trns_ignored_if_longer (info : Info) (f : Flags) (width : Nat) (row out : Bytes) (pal t : Bytes)
    (hw : Decodable info) (hct : info.colorType = .indexed) (hp : info.palette = some pal)
    (ht : info.trns = some t) (hlong : min (pal.length / 3) 256 < t.length)
    (hrow : row.length = rawRowLengthFromWidth info.colorType info.bitDepth width - 1)
    (hout : outputLineSize info f width = .ok out.length) :
    createRgbaPalette pal (some t) = createRgbaPalette pal (some []) ∧
    transformRow info f row out = .ok (specConvert { info with trns := some [] } f row width) := by
  refine ⟨createRgbaPalette_trns_longer pal t hlong, ?_⟩
  rw [C08_convert_any_palette info f width row out hw hrow hout,
    specConvert_trns_longer info f row width pal t hct hp ht hlong]

/-- `parse_trns` keeps the sample values of a well-formed colour key (high bytes zero below 16 bits) -/
theorem trns_normalisation (d : BitDepth) (hd : d ≠ .sixteen) (l r g b : UInt8) :
    (∃ t, parseTrns .gray d [0, l] = some t ∧ t.map (·.toNat) = be16 [0, l]) ∧
    (∃ t, parseTrns .rgb d [0, r, 0, g, 0, b] = some t ∧ t.map (·.toNat) = be16 [0, r, 0, g, 0, b]) :=
  ⟨parseTrns_gray d hd l, parseTrns_rgb d hd r g b⟩

/-! ## Malformed PLTE lengths: repaired code, and defect D1 on the pinned tree -/

/-- the conversion statement without any PLTE-length hypothesis (any PLTE present) -/
def C08_unguarded_statement : Prop :=
  ∀ (info : Info) (f : Flags) (width : Nat) (row out : Bytes),
    legal info.colorType info.bitDepth = true →
    (info.colorType = .indexed → info.palette.isSome = true) →
    (∀ t, info.trns = some t → info.colorType = .gray ∨ info.colorType = .rgb →
      t.length = info.colorType.samples * (if info.bitDepth = .sixteen then 2 else 1)) →
    row.length = rawRowLengthFromWidth info.colorType info.bitDepth width - 1 →
    outputLineSize info f width = .ok out.length →
    ∃ out', transformRow info f row out = .ok out'

/-- it holds for the repaired code (it was false on the pinned tree: `C08_unguarded_counterexample`) -/
theorem C08_unguarded : C08_unguarded_statement :=
  fun info f width row out hl hp hk hrow hout =>
    ⟨_, C08_convert_any_palette info f width row out ⟨hl, hp, hk⟩ hrow hout⟩

/-- **pinned tree a1124db**: `create_rgba_palette` panicked **exactly** when the PLTE length is not a
    multiple of 3 or exceeds 768 bytes — the two conditions `parse_plte` does not check (defect D1) -/
theorem palette_panic_iff (pal : Bytes) (trns : Option Bytes) :
    createRgbaPaletteOld pal trns = .error .panic ↔ (pal.length % 3 ≠ 0 ∨ pal.length > 768) :=
  createRgbaPaletteOld_panic_iff pal trns

/-- pinned tree, witnesses: PLTE of 1, 2, 4 and 771 bytes -/
theorem palette_panic_witnesses :
    createRgbaPaletteOld [1] none = .error .panic ∧
    createRgbaPaletteOld [1, 2] none = .error .panic ∧
    createRgbaPaletteOld [1, 2, 3, 4] none = .error .panic ∧
    createRgbaPaletteOld (List.replicate 771 7) none = .error .panic := by
  refine ⟨?_, ?_, ?_, ?_⟩
  · exact (palette_panic_iff _ _).mpr (by simp)
  · exact (palette_panic_iff _ _).mpr (by simp)
  · exact (palette_panic_iff _ _).mpr (by simp)
  · exact (palette_panic_iff _ _).mpr (Or.inr (by rw [List.length_replicate]; decide))

/-- the repair changes nothing for a valid PLTE: pinned-tree and repaired row transform coincide
    whenever the PLTE chunk (if any) has whole entries, at most 256 -/
theorem repair_conservative (info : Info) (f : Flags) (row out : Bytes)
    (hguard : ∀ p, info.palette = some p → p.length % 3 = 0 ∧ p.length ≤ 768) :
    transformRowOld info f row out = transformRow info f row out :=
  transformRowOld_eq info f row out hguard

/-- the unguarded statement about the pinned-tree code -/
def C08_unguarded_pinned_statement : Prop :=
  ∀ (info : Info) (f : Flags) (width : Nat) (row out : Bytes),
    legal info.colorType info.bitDepth = true →
    (info.colorType = .indexed → info.palette.isSome = true) →
    (∀ t, info.trns = some t → info.colorType = .gray ∨ info.colorType = .rgb →
      t.length = info.colorType.samples * (if info.bitDepth = .sixteen then 2 else 1)) →
    row.length = rawRowLengthFromWidth info.colorType info.bitDepth width - 1 →
    outputLineSize info f width = .ok out.length →
    ∃ out', transformRowOld info f row out = .ok out'

/-- pinned tree, what held: the excluded region is the decidable PLTE-length condition -/
theorem C08_unguarded_pinned_partial (info : Info) (f : Flags) (width : Nat) (row out : Bytes)
    (hl : legal info.colorType info.bitDepth = true)
    (hp : info.colorType = .indexed → info.palette.isSome = true)
    (hk : ∀ t, info.trns = some t → info.colorType = .gray ∨ info.colorType = .rgb →
      t.length = info.colorType.samples * (if info.bitDepth = .sixteen then 2 else 1))
    (hguard : ∀ p, info.palette = some p → p.length % 3 = 0 ∧ p.length ≤ 768)
    (hrow : row.length = rawRowLengthFromWidth info.colorType info.bitDepth width - 1)
    (hout : outputLineSize info f width = .ok out.length) :
    transformRowOld info f row out = .ok (specConvert info f row width) := by
  rw [repair_conservative info f row out hguard]
  exact C08_convert_any_palette info f width row out ⟨hl, hp, hk⟩ hrow hout

/-- pinned tree, counterexample: a one-pixel 8-bit indexed row with a 4-byte PLTE under EXPAND
    panicked -/
theorem C08_unguarded_counterexample : ¬ C08_unguarded_pinned_statement := by
  intro h
  obtain ⟨out', ho⟩ := h ⟨.indexed, .eight, some [1, 2, 3, 4], none⟩ ⟨true, false, false⟩ 1 [0] [0, 0, 0]
    (by rfl) (by simp) (by simp) (by rfl) (by rfl)
  have hp : transformRowOld ⟨.indexed, .eight, some [1, 2, 3, 4], none⟩ ⟨true, false, false⟩ [0] [0, 0, 0]
      = .error .panic := by
    have := (palette_panic_iff [1, 2, 3, 4] none).mpr (by simp)
    simp [transformRowOld, selectTransform, applyKindWith, this]
  rw [hp] at ho
  cases ho

/-! ## Non-vacuity -/

-- the hypotheses of `C08_convert` are satisfiable on non-trivial values of every family, and the
-- conclusion is a non-trivial byte string
example : WellFormed ⟨.indexed, .two, some [10, 11, 12, 20, 21, 22, 30, 31, 32], some [7, 8, 9, 9]⟩ :=
  ⟨by rfl, fun _ => ⟨_, rfl, by decide, by decide⟩, fun _ _ h => by simp at h⟩
example : WellFormed ⟨.gray, .sixteen, none, some [0x12, 0x34]⟩ :=
  ⟨by rfl, fun h => by simp at h, fun t ht _ => by simp at ht; subst ht; rfl⟩
-- 2-bit indexed, 3 palette entries, tRNS of 4 entries (longer: ignored), EXPAND: indices 0,1,2,3,1
example : transformRow ⟨.indexed, .two, some [10, 11, 12, 20, 21, 22, 30, 31, 32], some [7, 8, 9, 9]⟩
    ⟨true, false, false⟩ [0b00011011, 0b01000000] (List.replicate 20 0x5a)
    = .ok [10, 11, 12, 255, 20, 21, 22, 255, 30, 31, 32, 255, 0, 0, 0, 255, 20, 21, 22, 255] := by
  decide +kernel
-- the same with a shorter tRNS: entries 0 and 1 from tRNS, the others opaque
example : specConvert ⟨.indexed, .two, some [10, 11, 12, 20, 21, 22, 30, 31, 32], some [7, 8]⟩
    ⟨true, false, false⟩ [0b00011011, 0b01000000] 5
    = [10, 11, 12, 7, 20, 21, 22, 8, 30, 31, 32, 255, 0, 0, 0, 255, 20, 21, 22, 8] := by decide
-- 16-bit gray with a key that occurs once and a pixel differing from it in the low byte only
example : transformRow ⟨.gray, .sixteen, none, some [0x12, 0x34]⟩ ⟨true, false, false⟩
    [0x12, 0x34, 0x12, 0x35] (List.replicate 8 0)
    = .ok [0x12, 0x34, 0, 0, 0x12, 0x35, 0xff, 0xff] := by decide +kernel
example : transformRow ⟨.gray, .sixteen, none, some [0x12, 0x34]⟩ ⟨true, true, false⟩
    [0x12, 0x34, 0x12, 0x35] (List.replicate 4 0)
    = .ok [0x12, 0, 0x12, 0xff] := by decide +kernel
-- 2-bit gray: bit replication 0, 85, 170, 255
example : specConvert ⟨.gray, .two, none, none⟩ ⟨true, false, false⟩ [0b00011011] 4 = [0, 85, 170, 255] := by
  decide
-- a malformed PLTE (4 bytes: one entry and a stray byte) is decodable; index 1 is out of range
example : Decodable ⟨.indexed, .eight, some [1, 2, 3, 4], none⟩ := ⟨by rfl, fun _ => rfl, fun _ _ h => by simp at h⟩
example : transformRow ⟨.indexed, .eight, some [1, 2, 3, 4], none⟩ ⟨true, false, false⟩ [0, 1]
    (List.replicate 6 0x5a) = .ok [1, 2, 3, 0, 0, 0] := by decide +kernel
example : transformRowOld ⟨.indexed, .eight, some [1, 2, 3, 4], none⟩ ⟨true, false, false⟩ [0, 1]
    (List.replicate 6 0x5a) = .error .panic := by decide +kernel
-- overlapping writes really overlap: 2 pixels, 6 output bytes
example : expand8bitIntoRgb8 [(1, 2, 3, 4), (5, 6, 7, 8)] [0, 1] [0, 0, 0, 0, 0, 0] = .ok [1, 2, 3, 5, 6, 7] := by
  decide +kernel

end Png.C08
