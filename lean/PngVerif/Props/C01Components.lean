import PngVerif.Proofs.Unfiltering
import PngVerif.Proofs.ZlibWindow
/-!
# C01 — components of the decoder-correctness composition

Key refinement theorems for two buffer mechanisms between the inflater and the row pipeline,
restated at full strength (helper lemmas live in `PngVerif/Proofs/Unfiltering.lean` and
`PngVerif/Proofs/ZlibWindow.lean`).  Both are unbounded: any stream, any chunking, any operation
sequence.  (`zlib_window_bounded` and the `out_pos` bound are also the `window_bounded` ingredient
of C06.)
-/
namespace Png.C01

/-- **`UnfilteringBuffer` refines row-by-row reconstruction.**  `rowlen ≥ 2` is the raw row length
    (filter byte + `rowlen - 1` data bytes), `bpp ≥ 1` divides `rowlen - 1`.  Start from a fresh
    buffer with `reset_prev_row()`.  For ANY sequence of operations — `append bs` (`as_mut_vec()`
    compaction, then the inflater appends `bs`: any chunking of the stream, empty deliveries
    included), `compact`, `unfilter` (the decoder's `unfilter_curr_row`, called once a full row is
    present) —
    * the run never panics (`= some`),
    * rows handed out (through `prev_row()`) followed by the rows still extractable from the buffer
      are exactly `specRows` of the concatenation of everything fed: each row reconstructed with
      the specification's `reconRow` against the previous reconstructed row (`[]` for the first),
      using `unfilterImpl = reconRow` from C14,
    * once fewer than `rowlen` bytes are left the rows handed out are exactly `specRows`. -/
theorem unfiltering_refines (bpp rowlen : Nat) (hb : 1 ≤ bpp) (hr : 2 ≤ rowlen)
    (hdvd : bpp ∣ rowlen - 1) (ops : List UBOp) :
    ∃ u rows, UB.run rowlen bpp ops (UB.new.resetPrev, []) = some (u, rows) ∧
      rows ++ specRowsFrom bpp rowlen u.abs.prev u.abs.pending = specRows bpp rowlen (UBOp.fedAll ops) ∧
      (u.currLen < rowlen → rows = specRows bpp rowlen (UBOp.fedAll ops)) :=
  Png.unfiltering_refines bpp rowlen hb hr hdvd ops

/-- the same from any buffer state satisfying the invariants whose previous row is absent or has
    the row length — e.g. at the start of each Adam7 pass after `reset_prev_row()` with that pass's
    `rowlen`; the state reached again satisfies these conditions, so runs compose -/
theorem unfiltering_refines_from (bpp rowlen : Nat) (hb : 1 ≤ bpp) (hr : 2 ≤ rowlen)
    (hdvd : bpp ∣ rowlen - 1) (u0 : UB) (h0 : u0.Inv)
    (hp0 : u0.prevRow = [] ∨ u0.prevRow.length = rowlen - 1) (ops : List UBOp) :
    ∃ u rows, UB.run rowlen bpp ops (u0, []) = some (u, rows) ∧ u.Inv ∧
      (u.prevRow = [] ∨ u.prevRow.length = rowlen - 1) ∧
      rows ++ specRowsFrom bpp rowlen u.abs.prev u.abs.pending
        = specRowsFrom bpp rowlen u0.abs.prev (u0.abs.pending ++ UBOp.fedAll ops) :=
  UB.run_refines bpp rowlen hb hr hdvd u0 h0 hp0 ops

/-- every operation keeps `debug_assert_invariants` true and commutes with the abstraction
    (previous reconstructed row, pending bytes); `unfilter_curr_row` does so for every outcome,
    including the unknown-filter error (buffer untouched) and the panics -/
theorem unfiltering_ops_commute (u : UB) (h : u.Inv) (bs : Bytes) (rowlen bpp : Nat) :
    (u.append bs).Inv ∧ (u.append bs).abs = u.abs.append bs ∧
    u.compact.Inv ∧ u.compact.abs = u.abs ∧
    u.resetPrev.Inv ∧ u.resetPrev.abs = u.abs.resetPrev ∧
    (∀ u', u.unfilterCurr rowlen bpp = .ok u' → u'.Inv) ∧
    (u.unfilterCurr rowlen bpp).map UB.abs = u.abs.unfilterCurr rowlen bpp :=
  ⟨UB.inv_append u bs h, UB.abs_append u bs h, UB.inv_compact u h, UB.abs_compact u h,
   UB.inv_resetPrev u h, UB.abs_resetPrev u,
   fun u' hu => UB.inv_unfilterCurr u u' rowlen bpp h hu, UB.abs_unfilterCurr u rowlen bpp h⟩

/-- **`ZlibStream` delivers the inflater's output.**  `O` is the inflater's ideal output.  After ANY
    sequence of `decompress` calls and finish-loop iterations (arbitrary production sizes, any number
    of compactions) and `set_max_total_output` calls, starting from `new()`/`reset()`, with the
    constants of the current source: what was appended to `image_data` is exactly the produced
    prefix `O[..p]` (in order, nothing lost or duplicated); `out_buffer[..out_pos]` is exactly the
    last `out_pos` produced bytes and contains at least `min(p, LOOKBACK_SIZE)` of them (the
    inflater's look-back window is intact). -/
theorem zlib_window_delivers (O : Bytes) (ops : List ZOp) (z : ZW)
    (hr : ZW.run ZCfg.current O ops ZW.init = some z) :
    z.delivered = O.take z.p ∧ z.p ≤ O.length ∧
    z.hist = (O.take z.p).drop (z.p - z.outPos) ∧ min z.p Params.lookbackSize ≤ z.outPos :=
  decompress_delivers ZCfg.current ZCfg.current_ok O ops z hr

/-- `decompress` itself never panics in a reachable state -/
theorem zlib_decompress_no_panic (O : Bytes) (ops : List ZOp) (z : ZW) (k : Nat)
    (hr : ZW.run ZCfg.current O ops ZW.init = some z) :
    ∃ z', z.decompress ZCfg.current O k = some z' :=
  decompress_no_panic ZCfg.current ZCfg.current_ok O ops z k hr

/-- **`out_buffer` never exceeds `2·(factor·lookback + chunk)`** (327 680 bytes with today's
    constants) in any reachable state and inside the next call, independently of
    `max_total_output`; between calls `out_pos ≤ factor·lookback` (131 072). -/
theorem zlib_window_bounded (O : Bytes) (ops : List ZOp) (z : ZW)
    (hr : ZW.run ZCfg.current O ops ZW.init = some z) :
    z.bufLen ≤ 2 * (Params.lookbackSize * Params.compactFactor + Params.chunkBufferSize) ∧
    z.outPos ≤ Params.lookbackSize * Params.compactFactor ∧
    ∃ z1, z.prepare ZCfg.current = some z1 ∧
      z1.bufLen ≤ 2 * (Params.lookbackSize * Params.compactFactor + Params.chunkBufferSize) :=
  ⟨window_bounded ZCfg.current ZCfg.current_ok O ops z hr,
   hist_bounded ZCfg.current ZCfg.current_ok O ops z hr,
   window_bounded_prepared ZCfg.current ZCfg.current_ok O ops z hr⟩

/-- today's value of the bound -/
theorem zlib_window_bound_value :
    2 * (Params.lookbackSize * Params.compactFactor + Params.chunkBufferSize) = 327680 := by decide

/-- **the inflater is always offered output space**: in any reachable state
    `prepare_vec_for_appending` succeeds, leaves `out_pos` alone and ends with
    `out_buffer.len() > out_pos`; precisely `out_buffer.len() ≥ min(out_pos + chunk,
    max_total_output)`, so a whole `CHUNK_BUFFER_SIZE` when `max_total_output` does not bind. -/
theorem zlib_space_invariant (O : Bytes) (ops : List ZOp) (z : ZW)
    (hr : ZW.run ZCfg.current O ops ZW.init = some z) :
    ∃ z1, z.prepare ZCfg.current = some z1 ∧ z1.outPos = z.outPos ∧ z1.outPos < z1.bufLen ∧
      min (z1.outPos + Params.chunkBufferSize) z1.maxTotal ≤ z1.bufLen ∧
      (z1.outPos + Params.chunkBufferSize ≤ z1.maxTotal →
        z1.outPos + Params.chunkBufferSize ≤ z1.bufLen) :=
  space_invariant ZCfg.current ZCfg.current_ok O ops z hr

/-- the source's `LOOKBACK_SIZE` covers the 32 KiB deflate window the inflater may reach back into -/
theorem lookback_ok : Params.lookbackSize ≥ 32768 := Png.lookback_ok

/-! ### Non-vacuity -/

-- a stream of two rows (Sub then Up, rowlen 3, bpp 1) fed in three pieces with a compaction in
-- between: the run succeeds and hands out exactly the specification's rows
example :
    UB.run 3 1 [.append [1, 5], .unfilter, .append [6, 2, 1], .unfilter, .compact, .append [1],
      .unfilter, .unfilter] (UB.new.resetPrev, [])
      = some (⟨[5, 11, 2, 6, 12], 3, 5⟩, [[5, 11], [6, 12]]) ∧
    UBOp.fedAll [.append [1, 5], .unfilter, .append [6, 2, 1], .unfilter, .compact, .append [1],
      .unfilter, .unfilter] = [1, 5, 6, 2, 1, 1] ∧
    specRows 1 3 [1, 5, 6, 2, 1, 1] = [[5, 11], [6, 12]] := by decide
-- Paeth then Avg with bpp = 2 (rowlen 5), fed in uneven pieces including an empty one
example : (2 ∣ 5 - 1) ∧
    UB.run 5 2 [.append [4], .append [1, 2, 3], .unfilter, .append [4, 3, 10], .unfilter, .append [],
      .append [10, 10, 10], .compact, .unfilter] (UB.new.resetPrev, [])
      = some (⟨[1, 2, 4, 6, 3, 10, 11, 17, 18], 5, 9⟩, [[1, 2, 4, 6], [10, 11, 17, 18]]) ∧
    specRows 2 5 [4, 1, 2, 3, 4, 3, 10, 10, 10, 10] = [[1, 2, 4, 6], [10, 11, 17, 18]] := by decide
-- an unknown filter byte (9) stops both sides after the first row; the buffer is left untouched
example :
    UB.run 3 1 [.append [1, 5, 6, 9, 1, 1, 2, 2], .unfilter, .unfilter, .unfilter] (UB.new.resetPrev, [])
      = some (⟨[1, 5, 11, 9, 1, 1, 2, 2], 1, 3⟩, [[5, 11]]) ∧
    specRows 1 3 [1, 5, 6, 9, 1, 1, 2, 2] = [[5, 11]] := by decide
-- the explicit panic outcome is reachable when the precondition is ignored
example : (UB.new.extend [1, 5]).unfilterCurr 3 1 = .panic := by decide
example : (UB.new.extend [7, 5]).unfilterCurr 3 1 = .unknownFilter 7 := by decide

-- the window model with small constants (look-back 4, factor 2, chunk 3): 40 bytes pass through
-- a 12-byte buffer with several compactions; everything is delivered and the last 4 bytes stay
example : (⟨4, 2, 3⟩ : ZCfg).Ok := ⟨by decide, by decide, by decide⟩
example :
    (ZW.run ⟨4, 2, 3⟩ ((List.range 40).map (·.toUInt8))
      [.decompress 2, .decompress 100, .decompress 100, .setMaxTotal 5, .decompress 100, .finishIter 1,
       .decompress 7, .decompress 7, .decompress 7, .decompress 7] ZW.init).map
      (fun z => (z.hist, z.bufLen, z.p, z.delivered == (List.range 40).map (·.toUInt8)))
      = some ([36, 37, 38, 39], 12, 40, true) := by decide
-- the progress assert of the finish loop is a reachable panic when the inflater stalls
example : ZW.run ⟨4, 2, 3⟩ [1, 2, 3] [.decompress 2, .finishIter 0] ZW.init = none := by decide
-- with the real constants: first call allocates one chunk, the next doubles
example :
    (ZW.run ZCfg.current [1, 2, 3, 4, 5] [.decompress 2, .decompress 100] ZW.init).map
      (fun z => (z.hist, z.bufLen, z.delivered)) = some ([1, 2, 3, 4, 5], 65536, [1, 2, 3, 4, 5]) := by
  decide

end Png.C01
