import PngVerif.Proofs.ReaderEnd
import PngVerif.Proofs.ReaderToy
/-!
# C18 — After an error or the end of the image the reader stays well behaved

Property theorems only (lemmas: `Proofs/ReaderEnd.lean`, on top of the invariant of
`Proofs/ReaderInv.lean`), about `Model/Reader.lean` (`step`), for an ARBITRARY `cfg : Cfg` and every
row transformation `t` satisfying its contract `TCfg.Ok`, for every reader state satisfying the
protocol invariant `Inv` (which holds after every call sequence: `Png.C02.C02_invariant`).

A state is *terminal* when no further frame can be delivered:
* the stream decoder is poisoned by a fatal error or done after `ImageEnd` (`dec.state = none`), or
* `finish` succeeded (`finished`), or
* `remaining_frames = 0` and the current frame is consumed and flushed — the state after the last
  frame, and also the state a failed `finish` leaves.
-/
namespace Png.C18
open Png Png.Framing Png.Reader

/-- **`terminal_absorbing`**: from a terminal state every call of the `Reader` (`next_frame`,
    `next_row`/`next_interlaced_row`, `read_row`, `next_frame_info`, `finish`)
    * leads to a terminal state again;
    * returns an error, or — row calls only — `None` or a row that was already buffered, or — `next_frame` only, and
      only when rows of the current frame were still to be delivered and its data already consumed and flushed
      (`r.sub.cur.isSome && r.sub.caf`; repair 429476f: `next_frame` finishes such a frame first) — that frame,
      completed from the rows that are buffered, or — `finish` only — `Ok(())`; never a frame control or a header,
      never a frame that failed or does not exist, and never a panic;
    * returns `Ok(())` only if it is a `finish` on a reader that was neither finished nor poisoned
      (its stream stands at the end of the last frame and `IEND` is still to be read);
    * otherwise moves neither the stream decoder nor the read position: no input is consumed. -/
theorem terminal_absorbing (cfg : Cfg) (t : TCfg) (ht : t.Ok) (r : R) (op : Op) (hI : Inv t r)
    (hr : r.isReader = true) (hT : Terminal r) (hop : op.isCall = true) :
    Terminal (step cfg t r op).1 ∧ (step cfg t r op).2.afterEnd op (r.sub.cur.isSome && r.sub.caf) = true ∧
    ((step cfg t r op).2 = .done → op = .finish ∧ r.finished = false ∧ r.dec.state ≠ none) ∧
    (op ≠ .finish ∨ r.dec.state = none ∨ r.finished = true →
      (step cfg t r op).1.dec = r.dec ∧ (step cfg t r op).1.pos = r.pos) :=
  Reader.terminal_absorbing cfg ht r op hI hr hT hop

/-- **after a fatal error** (or after `ImageEnd`): every call leaves the stream decoder, the read
    position and the visible input alone and fails with an error, except that the row calls keep
    handing out rows that were already buffered (then `None` or an error), and that `next_frame` — when rows of
    the current frame are still to be delivered and its data was already consumed and flushed — completes that frame
    from the buffered rows (repair 429476f; no input is read, no pixel is made up).  Every loop of
    `ReadDecoder` makes exactly one `decode_next` call, which fails without touching anything
    (`decodeNext'_dead`). -/
theorem poisoned_absorbing (cfg : Cfg) (t : TCfg) (ht : t.Ok) (r : R) (op : Op) (hI : Inv t r)
    (hr : r.isReader = true) (hd : r.dec.state = none) (hop : op.isCall = true) :
    (step cfg t r op).1.dec = r.dec ∧ (step cfg t r op).1.pos = r.pos ∧ (step cfg t r op).1.visible = r.visible ∧
    ((step cfg t r op).2.isErr = true ∨ (op.isRowCall = true ∧ (step cfg t r op).2.isRowRes = true) ∨
      (op.isFrameCall = true ∧ r.sub.cur.isSome = true ∧ r.sub.caf = true ∧ (step cfg t r op).2.isFrame = true)) :=
  Reader.poisoned_absorbing cfg ht r op hI hr hd hop

/-- a poisoned stream decoder: `decode_next` fails at once and changes nothing -/
theorem poisoned_decode_next (cfg : Cfg) (r : R) (hs : r.dec.state = none) (ho : r.dec.out = []) :
    ∃ e, decodeNext' cfg r = (r, .error e) ∧ e.isErr = true :=
  decodeNext'_dead cfg r ⟨hs, ho⟩

/-- **after the last frame** (also: after a `finish` that failed): `next_frame_info`, and `next_frame` when no
    row of the last frame is pending, answer `Parameter(PolledAfterEndOfImage)` and change nothing (but the model's
    bookkeeping of the caller's buffer); `next_frame` with rows of the last frame still pending (repair 429476f)
    finishes that frame from what is buffered — it does not touch the stream and answers the frame or an error; the row
    calls do not touch the stream (no `decode_next` at
    all: the frame is flushed); `finish` keeps `remaining_frames = 0` and either fails or reaches
    `ImageEnd` — then the reader is finished and the stream decoder done. -/
theorem ended_absorbing (cfg : Cfg) (t : TCfg) (ht : t.Ok) (r : R) (hI : Inv t r) (hr : r.isReader = true)
    (hrem : r.remaining = 0) (hcaf : r.sub.caf = true) :
    (∀ p, (r.sub.cur = none →
        step cfg t r (.nextFrame p) = ({ r with pendingBuf := none }, .err .parameter "PolledAfterEndOfImage")) ∧
      Still r (step cfg t r (.nextFrame p)).1 ∧
      ((step cfg t r (.nextFrame p)).2.isErr = true ∨
        (r.sub.cur.isSome = true ∧ (step cfg t r (.nextFrame p)).2.isFrame = true))) ∧
    step cfg t r .nextFrameInfo = ({ r with pendingBuf := none }, .err .parameter "PolledAfterEndOfImage") ∧
    (Still r (step cfg t r .nextRow).1 ∧ (step cfg t r .nextRow).2.isRowRes = true) ∧
    (Still r (step cfg t r .readRow).1 ∧ (step cfg t r .readRow).2.isRowRes = true) ∧
    ((step cfg t r .finish).1.remaining = 0 ∧ (step cfg t r .finish).1.sub.caf = true ∧
      (((step cfg t r .finish).2 = .done ∧ (step cfg t r .finish).1.finished = true ∧
          (step cfg t r .finish).1.dec.state = none ∧ r.finished = false) ∨
        (step cfg t r .finish).2.isErr = true)) :=
  Reader.ended_absorbing cfg ht r hI hr hrem hcaf

/-- **after `finish` succeeded**: every call leaves the reader exactly as it is; `read_row` and
    `next_row` return `None`, everything else `Parameter(PolledAfterEndOfImage)` -/
theorem finished_absorbing (cfg : Cfg) (t : TCfg) (r : R) (hI : Inv t r) (hr : r.isReader = true)
    (hfin : r.finished = true) :
    (∀ p, step cfg t r (.nextFrame p) = ({ r with pendingBuf := none }, .err .parameter "PolledAfterEndOfImage")) ∧
    step cfg t r .nextFrameInfo = ({ r with pendingBuf := none }, .err .parameter "PolledAfterEndOfImage") ∧
    step cfg t r .finish = ({ r with pendingBuf := none }, .err .parameter "PolledAfterEndOfImage") ∧
    (step cfg t r .readRow = ({ r with pendingBuf := none }, .noRow)) ∧
    (Still r (step cfg t r .nextRow).1 ∧ (step cfg t r .nextRow).2 = .noRow) :=
  Reader.finished_absorbing cfg r hI hr hfin

/-- the invariant the theorems above assume holds along every run (`Png.C02`), so the statements
    apply to every state a caller can reach -/
theorem reachable_states_satisfy_inv (cfg : Cfg) (t : TCfg) (ht : t.Ok) (opts : Options) (limit : Nat)
    (flags : Flags) (input : Bytes) (visible : Nat) (ops : List Op) (hlen : input.length < 2 ^ 32)
    (hops : ops.count Op.readInfo ≤ 1)
    (hr : (run cfg t (R.init opts limit flags input visible) ops).1.isReader = true) :
    Inv t (run cfg t (R.init opts limit flags input visible) ops).1 := by
  have := (run_no_panic cfg ht ops _ (rinv_init t opts limit flags input visible hlen) ⟨fun h => (by cases h), hops⟩).1
  rcases this with ⟨_, h⟩ | ⟨_, _, h⟩ | ⟨_, h, _⟩
  · rw [hr] at h; cases h
  · exact h
  · rw [hr] at h; cases h

/-! ## Non-vacuity: the three terminal situations on concrete streams -/

open Png.Reader.Toy Png.Framing.Toy

/-- after the last frame of the toy APNG: `remaining = 0`, flushed, not finished, stream usable -/
example : let r := (run toyCfg idT (a0 apng.length) [.readInfo, .nextFrame 0, .nextFrame 0]).1
    (r.remaining, r.sub.caf, r.finished, r.dec.state.isNone) = (0, true, false, false) := by decide +kernel

/-- … from where `next_frame`, `next_frame_info`, rows answer `Parameter`/`None` and `finish` succeeds once -/
example : (run toyCfg idT (a0 apng.length)
    [.readInfo, .nextFrame 0, .nextFrame 0, .nextFrame 0, .nextFrameInfo, .nextRow, .readRow, .finish, .finish, .nextRow]).2.map code =
    [1, 101, 101, 12, 12, 3, 3, 5, 12, 3] := by decide +kernel

/-- after a corrupt image-data stream: poisoned, frame neither flushed nor counted -/
example : let r := (run toyCfg idT (R.init {} (2 ^ 64 - 1) {} bad bad.length) [.readInfo, .nextRow]).1
    (r.remaining, r.sub.caf, r.finished, r.dec.state.isNone) = (1, false, false, true) := by decide +kernel

/-- … from where every call fails with an error -/
example : (run toyCfg idT (R.init {} (2 ^ 64 - 1) {} bad bad.length)
    [.readInfo, .nextRow, .nextRow, .readRow, .nextFrame 0, .nextFrameInfo, .finish, .nextRow, .finish]).2.map code =
    [1, 11, 12, 12, 12, 12, 12, 3, 12] := by decide +kernel

/-- after `finish`: finished, and the stream decoder is done -/
example : let r := (run toyCfg idT (a0 apng.length) [.readInfo, .finish]).1
    (r.remaining, r.sub.caf, r.finished, r.dec.state.isNone) = (0, true, true, true) := by decide +kernel

/-- the hypotheses of `terminal_absorbing` hold for such a state -/
example : Inv idT (run toyCfg idT (a0 apng.length) [.readInfo, .nextFrame 0, .nextFrame 0]).1 :=
  reachable_states_satisfy_inv toyCfg idT idT_ok {} _ {} apng _ _ (by decide +kernel) (by decide +kernel)
    (by decide +kernel)

end Png.C18
