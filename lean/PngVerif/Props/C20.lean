import PngVerif.Proofs.Text
/-!
# C20 — Text payload coding is exact and decompression of text is bounded on request

Property theorems only (lemmas live in `PngVerif/Proofs/Text.lean`, the model in
`PngVerif/Model/Text.lean`).  Everything is quantified over all byte strings / all strings / all
limits.  The zlib compressor and inflater are parameters `z : ZCodec`; their contract `z.Ok` appears
only as a hypothesis (how much memory `fdeflate::decompress_to_vec_bounded` itself allocates while
working is not a statement about this crate's code: that half of the property is measured by the
harness, not proved).

U+0000 in a keyword, language tag or translated keyword cannot be represented in the file (these
fields are NUL-terminated).  Since the repair of defect D16 (section 8 of DESIGN.md; /repo commit
e8d4f6a) the three `encode` functions refuse such a chunk (`encode_refuses_nul`), and the chunk-body
round trips hold for every chunk `encode` accepts, without a side condition.
-/
namespace Png.C20

/-! ## Latin-1 -/

/-- every byte string decodes to a string that encodes back to the same bytes -/
theorem latin1_decode_encode (bs : Bytes) : encodeLatin1 (decodeLatin1 bs) = .ok bs :=
  Png.latin1_decode_encode bs

/-- every string over U+0000..U+00FF encodes, and decodes back to itself -/
theorem latin1_encode_decode (s : String) (h : ∀ c ∈ s.toList, c.toNat ≤ 255) :
    (encodeLatin1 s).map decodeLatin1 = .ok s := Png.latin1_encode_decode s h

/-- encoding is refused exactly when some character lies above U+00FF … -/
theorem latin1_encode_err_iff (s : String) :
    (encodeLatin1 s).isOk = false ↔ ∃ c ∈ s.toList, c.toNat > 255 := Png.latin1_encode_err_iff s

/-- … and then always as `Unrepresentable` -/
theorem latin1_encode_err_kind (s : String) (e : TextEncErr) (h : encodeLatin1 s = .error e) :
    e = .unrepresentable := Png.latin1_encode_err_kind s e h

/-- code point for code point on all 256 values, both directions; nothing above U+00FF encodes -/
theorem latin1_pointwise :
    (∀ b : UInt8, (decodeLatin1 [b]).toList = [Char.ofNat b.toNat] ∧ (Char.ofNat b.toNat).toNat = b.toNat ∧
      encodeLatin1 (String.singleton (Char.ofNat b.toNat)) = .ok [b]) ∧
    (∀ c : Char, c.toNat ≤ 255 →
      encodeLatin1 (String.singleton c) = .ok [c.toNat.toUInt8] ∧ c.toNat.toUInt8.toNat = c.toNat ∧
      decodeLatin1 [c.toNat.toUInt8] = String.singleton c) ∧
    (∀ c : Char, c.toNat > 255 → encodeLatin1 (String.singleton c) = .error .unrepresentable) :=
  ⟨latin1_singleton_byte, latin1_singleton_char, latin1_singleton_big⟩

/-- in a string of any length: as many characters as bytes, and the `i`-th character's code point is
the `i`-th byte's value -/
theorem latin1_positions (bs : Bytes) :
    (decodeLatin1 bs).length = bs.length ∧
    ∀ i (h : i < bs.length), ((decodeLatin1 bs).toList[i]?).map Char.toNat = some bs[i].toNat :=
  ⟨decodeLatin1_length bs, decodeLatin1_pointwise bs⟩

/-- the keyword rule of the three `encode` functions: accepted iff Latin-1, 1..79 characters and
free of U+0000; the refusals in the order of the checks -/
theorem keyword_rule (kw : String) :
    (∀ data, encodeKeyword kw = .ok data ↔
      encodeLatin1 kw = .ok data ∧ 1 ≤ kw.length ∧ kw.length ≤ 79 ∧ NulFree kw) ∧
    (∀ e, encodeKeyword kw = .error e ↔
      (¬ IsLatin1 kw ∧ e = .unrepresentable) ∨
      (IsLatin1 kw ∧ (kw.length = 0 ∨ kw.length > 79) ∧ e = .invalidKeywordSize) ∨
      (IsLatin1 kw ∧ 1 ≤ kw.length ∧ kw.length ≤ 79 ∧ ¬ NulFree kw ∧ e = .unrepresentable)) :=
  ⟨encodeKeyword_ok_iff kw, encodeKeyword_err_iff kw⟩

/-! ## UTF-8 -/

/-- UTF-8 text: accepted iff the bytes are the encoding of a sequence of Unicode scalar values;
an accepted text re-encodes to the very same bytes; every string is accepted back unchanged -/
theorem utf8_exact :
    (∀ bs : Bytes, (utf8Decode bs).isSome ↔ ∃ cs : List Char, ofList bs = cs.utf8Encode) ∧
    (∀ (bs : Bytes) (s : String), utf8Decode bs = some s → utf8Encode s = bs) ∧
    (∀ s : String, utf8Decode (utf8Encode s) = some s) :=
  ⟨utf8Decode_isSome_iff, utf8Encode_of_utf8Decode, utf8Decode_utf8Encode⟩

/-- iTXt with compression flag 0 and otherwise well-formed fields: accepted iff the text field is
valid UTF-8 -/
theorem utf8_itxt_accept_iff (kw lang tk text : Bytes) (method : UInt8) (tks : String)
    (hk : badKeywordLen kw = false) (hl : isAsciiBytes lang = true) (htk : utf8Decode tk = some tks) :
    (∃ c, ITXt.decode kw 0 method lang tk text = .ok c) ↔ (utf8Decode text).isSome = true :=
  ITXt.decode_plain_accept_iff kw lang tk text method tks hk hl htk

/-- … and what `get_text` then returns is the text field unchanged (same bytes) -/
theorem utf8_itxt_unchanged (z : ZCodec) (kw lang tk text : Bytes) (method : UInt8) (c : ITXt)
    (h : ITXt.decode kw 0 method lang tk text = .ok c) :
    ∃ s, c.compressed = false ∧ c.text = .uncompressed s ∧ utf8Encode s = text ∧ c.getText z = .ok s :=
  ITXt.decode_plain_text z kw lang tk text method c h

/-- compressed iTXt text: `get_text` answers `s` iff the payload inflates to valid UTF-8 bytes, and
`s` is the string with exactly those bytes; the two ways of failing are told apart -/
theorem utf8_itxt_compressed (z : ZCodec) (c : ITXt) (v : Bytes) (hc : c.text = .compressed v) :
    (∀ s, c.getText z = .ok s ↔ ∃ raw, z.decompress v = some raw ∧ utf8Decode raw = some s) ∧
    (c.getText z = .error .inflationError ↔ z.decompress v = none) ∧
    (c.getText z = .error .unrepresentable ↔ ∃ raw, z.decompress v = some raw ∧ utf8Decode raw = none) :=
  ⟨fun s => ITXt.getText_compressed_iff z c v s hc, ITXt.getText_compressed_err z c v hc⟩

/-- the `expect("unreachable")` in `decode_ascii` cannot fire, and ASCII decoding is the identity on
code points -/
theorem ascii_no_panic (bs : Bytes) :
    decodeAscii bs ≠ .panic ∧
    decodeAscii bs = if isAsciiBytes bs then .ok (decodeLatin1 bs) else .err .unrepresentable :=
  ⟨decodeAscii_ne_panic bs, decodeAscii_eq bs⟩

/-! ## The `OptCompressed` machine (`k` = Latin-1 for zTXt, UTF-8 for iTXt) -/

/-- both text codings satisfy the laws the machine theorems assume -/
theorem codings_lawful : latin1Coding.Ok ∧ utf8Coding.Ok := ⟨latin1Coding_ok, utf8Coding_ok⟩

/-- `decompress ∘ compress = id`: an uncompressed text whose encoding fits the limit comes back
exactly -/
theorem optc_decompress_compress {z : ZCodec} {k : Coding} (hz : z.Ok) (hk : k.Ok) (n : Nat)
    (s : String) (raw : Bytes) (he : k.enc s = some raw) (hn : raw.length ≤ n) :
    ((OptC.uncompressed s).compress z k).2 = .ok () ∧
    ((OptC.uncompressed s).compress z k).1.decompressWithLimit z k n = (.uncompressed s, .ok ()) :=
  ⟨by rw [OptC.compress_of_enc s raw he], OptC.decompress_compress hz hk n s raw he hn⟩

/-- `compress ∘ decompress`: the payload is replaced by the deflation of what it inflated to — the
same text -/
theorem optc_compress_decompress {z : ZCodec} {k : Coding} (hz : z.Ok) (hk : k.Ok) (n : Nat) (v : Bytes)
    (h : ((OptC.compressed v).decompressWithLimit z k n).2 = .ok ()) :
    ∃ raw, z.decompress v = some raw ∧
      ((OptC.compressed v).decompressWithLimit z k n).1.compress z k = (.compressed (z.compress raw), .ok ()) ∧
      z.decompress (z.compress raw) = some raw := OptC.compress_decompress hz hk n v h

/-- `compress` is idempotent -/
theorem optc_compress_idem {z : ZCodec} {k : Coding} (t : OptC) (h : (t.compress z k).2 = .ok ()) :
    (t.compress z k).1.compress z k = ((t.compress z k).1, .ok ()) := OptC.compress_idem t h

/-- `decompress_text_with_limit` is idempotent, whatever the two limits -/
theorem optc_decompress_idem {z : ZCodec} {k : Coding} (n m : Nat) (t : OptC)
    (h : (t.decompressWithLimit z k n).2 = .ok ()) :
    (t.decompressWithLimit z k n).1.decompressWithLimit z k m = ((t.decompressWithLimit z k n).1, .ok ()) :=
  OptC.decompress_idem n m t h

/-- `get_text` does not depend on the representation -/
theorem optc_getText_invariant {z : ZCodec} {k : Coding} (hz : z.Ok) (hk : k.Ok) (t : OptC) :
    ((t.compress z k).2 = .ok () → (t.compress z k).1.getText z k = t.getText z k) ∧
    (∀ n, (t.decompressWithLimit z k n).2 = .ok () →
      (t.decompressWithLimit z k n).1.getText z k = t.getText z k) :=
  ⟨OptC.getText_compress hz hk t, fun n => OptC.getText_decompress hz hk n t⟩

/-- a failing operation leaves the state exactly as it was -/
theorem optc_error_unchanged {z : ZCodec} {k : Coding} (t : OptC) :
    (∀ n e, (t.decompressWithLimit z k n).2 = .error e → (t.decompressWithLimit z k n).1 = t) ∧
    (∀ e, (t.compress z k).2 = .error e → (t.compress z k).1 = t) :=
  ⟨fun n e => OptC.decompress_err_unchanged n t e, OptC.compress_err_unchanged t⟩

/-- the limit: an over-long payload is refused as `OutOfDecompressionSpace`, a corrupt one as
`InflationError` or `OutOfDecompressionSpace`, both without a state change; on success the payload
inflated to at most `n` bytes and the stored string is their decoding -/
theorem optc_limit_respected {z : ZCodec} {k : Coding} (hz : z.Ok) (hk : k.Ok) (n : Nat) (v : Bytes) :
    (∀ x, z.decompress v = some x → x.length > n →
      (OptC.compressed v).decompressWithLimit z k n = (.compressed v, .error .outOfDecompressionSpace)) ∧
    (z.decompress v = none →
      (OptC.compressed v).decompressWithLimit z k n = (.compressed v, .error .inflationError) ∨
      (OptC.compressed v).decompressWithLimit z k n = (.compressed v, .error .outOfDecompressionSpace)) ∧
    (((OptC.compressed v).decompressWithLimit z k n).2 = .ok () →
      ∃ raw s, z.decompress v = some raw ∧ raw.length ≤ n ∧ k.dec raw = some s ∧ k.enc s = some raw ∧
        ((OptC.compressed v).decompressWithLimit z k n).1 = .uncompressed s) :=
  ⟨fun x => OptC.decompress_tooLarge hz n v x, OptC.decompress_corrupt hz n v, OptC.decompress_ok hz hk n v⟩

/-- after a refusal the chunk is still usable: a retry with a sufficient limit succeeds -/
theorem optc_retry_after_error {z : ZCodec} {k : Coding} (hz : z.Ok) (n m : Nat) (v raw : Bytes)
    (s : String) (e : TextDecErr)
    (herr : ((OptC.compressed v).decompressWithLimit z k n).2 = .error e)
    (h : z.decompress v = some raw) (hd : k.dec raw = some s) (hm : raw.length ≤ m) :
    ((OptC.compressed v).decompressWithLimit z k n).1.decompressWithLimit z k m = (.uncompressed s, .ok ()) :=
  OptC.retry_after_error hz n m v raw s e herr h hd hm

/-! ## The same at chunk level -/

/-- zTXt: errors leave the chunk unchanged; over-long → `OutOfDecompressionSpace`; corrupt → an
error; success stores the Latin-1 decoding of at most `n` bytes, i.e. at most `n` characters -/
theorem ztxt_limit_respected (z : ZCodec) (hz : z.Ok) (n : Nat) (c : ZTXt) :
    (∀ e, (c.decompressWithLimit z n).2 = .error e → (c.decompressWithLimit z n).1 = c) ∧
    (∀ v x, c.text = .compressed v → z.decompress v = some x → x.length > n →
      c.decompressWithLimit z n = (c, .error .outOfDecompressionSpace)) ∧
    (∀ v, c.text = .compressed v → z.decompress v = none →
      c.decompressWithLimit z n = (c, .error .inflationError) ∨
      c.decompressWithLimit z n = (c, .error .outOfDecompressionSpace)) ∧
    (∀ v, c.text = .compressed v → (c.decompressWithLimit z n).2 = .ok () →
      ∃ raw, z.decompress v = some raw ∧ raw.length ≤ n ∧
        (c.decompressWithLimit z n).1 = { c with text := .uncompressed (decodeLatin1 raw) } ∧
        (decodeLatin1 raw).length ≤ n) := ZTXt.limit_respected z hz n c

/-- iTXt: the same with the UTF-8 size of the stored text; a payload that inflates within the limit
but is not valid UTF-8 is refused as `Unrepresentable`, the chunk unchanged -/
theorem itxt_limit_respected (z : ZCodec) (hz : z.Ok) (n : Nat) (c : ITXt) :
    (∀ e, (c.decompressWithLimit z n).2 = .error e → (c.decompressWithLimit z n).1 = c) ∧
    (∀ v x, c.text = .compressed v → z.decompress v = some x → x.length > n →
      c.decompressWithLimit z n = (c, .error .outOfDecompressionSpace)) ∧
    (∀ v, c.text = .compressed v → z.decompress v = none →
      c.decompressWithLimit z n = (c, .error .inflationError) ∨
      c.decompressWithLimit z n = (c, .error .outOfDecompressionSpace)) ∧
    (∀ v x, c.text = .compressed v → z.decompress v = some x → x.length ≤ n → utf8Decode x = none →
      c.decompressWithLimit z n = (c, .error .unrepresentable)) ∧
    (∀ v, c.text = .compressed v → (c.decompressWithLimit z n).2 = .ok () →
      ∃ raw s, z.decompress v = some raw ∧ raw.length ≤ n ∧ utf8Encode s = raw ∧
        (c.decompressWithLimit z n).1 = { c with text := .uncompressed s } ∧
        s.utf8ByteSize ≤ n) := ITXt.limit_respected z hz n c

/-- zTXt: compressing a Latin-1 text and decompressing it (limit ≥ its length) restores the chunk;
a text with a character above U+00FF is refused by `compress_text`, the chunk unchanged -/
theorem ztxt_compress_decompress (z : ZCodec) (hz : z.Ok) (n : Nat) (kw s : String) :
    (IsLatin1 s → s.length ≤ n →
      ((ZTXt.mk kw (.uncompressed s)).compress z).2 = .ok () ∧
      ((ZTXt.mk kw (.uncompressed s)).compress z).1.decompressWithLimit z n =
        (ZTXt.mk kw (.uncompressed s), .ok ())) ∧
    (¬ IsLatin1 s →
      (ZTXt.mk kw (.uncompressed s)).compress z = (ZTXt.mk kw (.uncompressed s), .error .unrepresentable)) :=
  ⟨ZTXt.decompress_compress z hz n kw s, ZTXt.compress_unrepresentable z kw s⟩

/-- iTXt: compressing any text and decompressing it (limit ≥ its UTF-8 size) restores the chunk -/
theorem itxt_compress_decompress (z : ZCodec) (hz : z.Ok) (n : Nat) (c : ITXt) (s : String)
    (hs : c.text = .uncompressed s) (hn : s.utf8ByteSize ≤ n) :
    (c.compress z).2 = .ok () ∧ (c.compress z).1.decompressWithLimit z n = (c, .ok ()) :=
  ITXt.decompress_compress z hz n c s hs hn

/-- zTXt `get_text` of a compressed chunk = Latin-1 decoding of the inflated payload -/
theorem ztxt_getText (z : ZCodec) (c : ZTXt) (v : Bytes) (hc : c.text = .compressed v) :
    c.getText z = match z.decompress v with
      | none => .error .inflationError
      | some raw => .ok (decodeLatin1 raw) := ZTXt.getText_compressed z c v hc

/-! ## Chunk bodies -/

/-- `split_keyword`: succeeds exactly on `keyword 0 rest` with a keyword of 1..79 non-zero bytes;
otherwise `MissingNullSeparator` (no zero byte at all) or `InvalidKeywordSize` -/
theorem split_keyword_spec (buf : Bytes) :
    (∀ kw rest, splitKeyword buf = .ok (kw, rest) ↔ buf = kw ++ 0 :: rest ∧ KeywordBytes kw) ∧
    (∀ e, splitKeyword buf = .error e ↔
      ((0 : UInt8) ∉ buf ∧ e = .missingNullSeparator) ∨
      (∃ a r, buf = a ++ 0 :: r ∧ (0 : UInt8) ∉ a ∧ (a.length = 0 ∨ a.length > 79) ∧ e = .invalidKeywordSize)) :=
  ⟨splitKeyword_ok_iff buf, splitKeyword_err_iff buf⟩

/-- tEXt bodies: accepted iff of the form `keyword 0 text`; the text is everything after the first
zero byte and may contain any byte, zero included -/
theorem tEXt_layout (buf : Bytes) (c : TEXt) :
    parseTEXt buf = .ok c ↔
      ∃ kw text, buf = kw ++ 0 :: text ∧ KeywordBytes kw ∧ c = ⟨decodeLatin1 kw, decodeLatin1 text⟩ :=
  parseTEXt_ok_iff buf c

/-- zTXt bodies: accepted iff `keyword 0 0 payload`; the payload is stored untouched -/
theorem zTXt_layout (buf : Bytes) (c : ZTXt) :
    parseZTXt buf = .ok c ↔
      ∃ kw zs, buf = kw ++ 0 :: 0 :: zs ∧ KeywordBytes kw ∧ c = ⟨decodeLatin1 kw, .compressed zs⟩ :=
  parseZTXt_ok_iff buf c

/-- iTXt bodies: the three separators of `keyword 0 flag method language 0 translated 0 text` -/
theorem iTXt_layout :
    (∀ (kw lang tk text : Bytes) (flag method : UInt8), KeywordBytes kw → (0 : UInt8) ∉ lang → (0 : UInt8) ∉ tk →
      parseITXt (kw ++ 0 :: flag :: method :: (lang ++ 0 :: (tk ++ 0 :: text))) =
        ITXt.decode kw flag method lang tk text) ∧
    (∀ (buf : Bytes) (c : ITXt), parseITXt buf = .ok c →
      ∃ kw flag method lang tk text,
        buf = kw ++ 0 :: flag :: method :: (lang ++ 0 :: (tk ++ 0 :: text)) ∧ KeywordBytes kw ∧
        (0 : UInt8) ∉ lang ∧ (0 : UInt8) ∉ tk ∧ ITXt.decode kw flag method lang tk text = .ok c) :=
  ⟨fun kw lang tk text flag method hk hl ht => parseITXt_layout kw lang tk text flag method hk hl ht,
   parseITXt_ok_layout⟩

/-- tEXt: what `encode` writes, the decoder reads back as the same chunk — for every chunk `encode`
accepts; the text may be any Latin-1 string, U+0000 included -/
theorem tEXt_roundtrip (c : TEXt) (body : Bytes) (h : c.encodeBody = .ok body) :
    parseTEXt body = .ok c := Png.tEXt_roundtrip c body h

/-- zTXt: what `encode` writes is read back as the chunk in its compressed state … -/
theorem zTXt_roundtrip (z : ZCodec) (c : ZTXt) (body : Bytes) (h : c.encodeBody z = .ok body) :
    parseZTXt body = .ok (c.compress z).1 := Png.zTXt_roundtrip z c body h

/-- … which has the same keyword and the same text -/
theorem zTXt_roundtrip_text (z : ZCodec) (hz : z.Ok) (c : ZTXt) (body : Bytes)
    (h : c.encodeBody z = .ok body) :
    ∃ c', parseZTXt body = .ok c' ∧ c'.keyword = c.keyword ∧ c'.getText z = c.getText z :=
  Png.zTXt_roundtrip_text z hz c body h

/-- iTXt written uncompressed is read back as the same chunk -/
theorem iTXt_roundtrip_plain (z : ZCodec) (c : ITXt) (s : String) (body : Bytes)
    (hc : c.compressed = false) (hs : c.text = .uncompressed s) (h : c.encodeBody z = .ok body) :
    parseITXt body = .ok c := Png.iTXt_roundtrip_plain z c s body hc hs h

/-- iTXt written with `compressed = true` is read back as the chunk in its compressed state -/
theorem iTXt_roundtrip_compressed (z : ZCodec) (c : ITXt) (body : Bytes)
    (hc : c.compressed = true) (h : c.encodeBody z = .ok body) :
    parseITXt body = .ok (c.compress z).1 := Png.iTXt_roundtrip_compressed z c body hc h

/-- iTXt with `compressed = false` while the text is still in the compressed state: `encode` inflates
the payload and accepts the chunk only when that is valid UTF-8; the text is then read back as plain
text (the check is the repair of the defect property C17 found: /repo commit 6a09087) … -/
theorem iTXt_roundtrip_inflated (z : ZCodec) (c : ITXt) (v body : Bytes)
    (hc : c.compressed = false) (hs : c.text = .compressed v) (h : c.encodeBody z = .ok body) :
    ∃ raw s, z.decompress v = some raw ∧ utf8Decode raw = some s ∧
      parseITXt body = .ok { c with text := .uncompressed s } :=
  Png.iTXt_roundtrip_inflated z c v body hc hs h

/-- … and otherwise the chunk is refused: `CompressionError` when the payload does not inflate,
`Unrepresentable` when it inflates to something that is not UTF-8 -/
theorem iTXt_inflated_refused (z : ZCodec) (c : ITXt) (v : Bytes) (data : Bytes)
    (hk : encodeKeyword c.keyword = .ok data) (hl : isAsciiStr c.languageTag = true)
    (hln : NulFree c.languageTag) (htn : NulFree c.translatedKeyword)
    (hc : c.compressed = false) (hs : c.text = .compressed v) :
    (z.decompress v = none → c.encodeBody z = .error .compressionError) ∧
    (∀ raw, z.decompress v = some raw → utf8Decode raw = none → c.encodeBody z = .error .unrepresentable) :=
  Png.iTXt_inflated_refused z c v data hk hl hln htn hc hs

/-- all three iTXt cases at once: whatever `encode` accepts is read back with the same keyword, flag,
language tag, translated keyword and text -/
theorem iTXt_roundtrip_text (z : ZCodec) (hz : z.Ok) (c : ITXt) (body : Bytes)
    (h : c.encodeBody z = .ok body) :
    ∃ c', parseITXt body = .ok c' ∧ c'.keyword = c.keyword ∧ c'.compressed = c.compressed ∧
      c'.languageTag = c.languageTag ∧ c'.translatedKeyword = c.translatedKeyword ∧
      c'.getText z = c.getText z := Png.iTXt_roundtrip_text z hz c body h

/-- U+0000 in a keyword (all three kinds), in the language tag or in the translated keyword (iTXt):
`encode` answers with an error — the old behaviour (D16) of writing a chunk that reads back as
something else is gone -/
theorem encode_refuses_nul :
    (∀ c : TEXt, ¬ NulFree c.keyword → ∃ e, c.encodeBody = .error e) ∧
    (∀ (z : ZCodec) (c : ZTXt), ¬ NulFree c.keyword → ∃ e, c.encodeBody z = .error e) ∧
    (∀ (z : ZCodec) (c : ITXt), ¬ NulFree c.keyword ∨ ¬ NulFree c.languageTag ∨ ¬ NulFree c.translatedKeyword →
      ∃ e, c.encodeBody z = .error e) := Png.encode_refuses_nul

/-- with an acceptable keyword, a U+0000 in the language tag or the translated keyword of an iTXt
chunk is reported as `Unrepresentable` -/
theorem encode_refuses_nul_kind (z : ZCodec) (c : ITXt) (data : Bytes)
    (hk : encodeKeyword c.keyword = .ok data)
    (hn : ¬ NulFree c.languageTag ∨ ¬ NulFree c.translatedKeyword) :
    c.encodeBody z = .error .unrepresentable := Png.encode_refuses_nul_kind z c data hk hn

/-! ## Non-vacuity: the hypotheses are satisfiable and the statements say something on concrete values -/

-- the codec contract is satisfiable
example : toyCodec.Ok := toyCodec_ok
-- Latin-1: all of 0x00, 0x7F, 0x80, 0xFF and a refusal
example : decodeLatin1 [0x41, 0x00, 0x7F, 0x80, 0xE9, 0xFF] = "A\x00\x7f\u0080éÿ" := by decide
example : encodeLatin1 "A\x00\x7f\u0080éÿ" = .ok [0x41, 0x00, 0x7F, 0x80, 0xE9, 0xFF] := by decide
example : encodeLatin1 "aĀ" = .error .unrepresentable ∧ (∃ c ∈ "aĀ".toList, c.toNat > 255) := by decide
example : ∀ c ∈ "éÿ".toList, c.toNat ≤ 255 := by decide
-- UTF-8: accepted / refused (overlong, surrogate, truncated, 0xFF)
example : utf8Decode [0xC3, 0xA9, 0xE2, 0x82, 0xAC] = some "é€" := by decide
example : utf8Decode [0xC0, 0x80] = none ∧ utf8Decode [0xED, 0xA0, 0x80] = none ∧
    utf8Decode [0xE2, 0x82] = none ∧ utf8Decode [0xFF] = none := by decide
example : utf8Encode "é€" = [0xC3, 0xA9, 0xE2, 0x82, 0xAC] := by decide
-- the machine on the toy codec: compress, refuse at limit 2, accept at limit 3, state restored
example : (ZTXt.new "k" "abc").compress toyCodec = (⟨"k", .compressed [0x78, 0x61, 0x62, 0x63]⟩, .ok ()) := by decide
example : (ZTXt.mk "k" (.compressed [0x78, 0x61, 0x62, 0x63])).decompressWithLimit toyCodec 2 =
    (⟨"k", .compressed [0x78, 0x61, 0x62, 0x63]⟩, .error .outOfDecompressionSpace) := by decide
example : (ZTXt.mk "k" (.compressed [0x78, 0x61, 0x62, 0x63])).decompressWithLimit toyCodec 3 =
    (ZTXt.new "k" "abc", .ok ()) := by decide
example : (ZTXt.mk "k" (.compressed [0x00])).decompressWithLimit toyCodec 3 =
    (⟨"k", .compressed [0x00]⟩, .error .inflationError) := by decide
example : (ITXt.mk "k" true "" "" (.compressed [0x78, 0xFF])).decompressWithLimit toyCodec 9 =
    (⟨"k", true, "", "", .compressed [0x78, 0xFF]⟩, .error .unrepresentable) := by decide
example : (ZTXt.new "k" "Ā").compress toyCodec = (ZTXt.new "k" "Ā", .error .unrepresentable) := by decide
-- bodies: text with an embedded NUL, the three separators of iTXt, round trips
example : parseTEXt [0x6B, 0, 0x61, 0, 0x62] = .ok ⟨"k", "a\x00b"⟩ := by decide
example : parseTEXt [0, 0x61] = .error .invalidKeywordSize ∧ parseTEXt [0x61] = .error .missingNullSeparator := by decide
example : parseZTXt [0x6B, 0, 1, 0x78] = .error .invalidCompressionMethod ∧
    parseZTXt [0x6B, 0] = .error .invalidCompressionMethod := by decide
example : parseITXt [0x6B, 0, 0, 0, 0x65, 0x6E, 0, 0xC3, 0xA9, 0, 0xE2, 0x82, 0xAC] =
    .ok ⟨"k", false, "en", "é", .uncompressed "€"⟩ := by decide
example : parseITXt [0x6B, 0, 0, 0, 0, 0, 0xFF] = .err .unrepresentable ∧
    parseITXt [0x6B, 0, 2, 0, 0, 0] = .err .invalidCompressionFlag ∧
    parseITXt [0x6B, 0] = .err .missingCompressionFlag ∧
    parseITXt [0x6B, 0, 0, 0, 0x65] = .err .missingNullSeparator := by decide
example : (TEXt.mk "Title" "a\x00é").encodeBody = .ok [0x54, 0x69, 0x74, 0x6C, 0x65, 0, 0x61, 0, 0xE9] ∧
    NulFree "Title" := by decide
example : (ITXt.mk "k" false "en" "é" (.uncompressed "€")).encodeBody toyCodec =
    .ok [0x6B, 0, 0, 0, 0x65, 0x6E, 0, 0xC3, 0xA9, 0, 0xE2, 0x82, 0xAC] := by decide
-- a compressed payload that is no text, to be written uncompressed: refused; one that is: written
example : (ITXt.mk "k" false "" "" (.compressed [0x78, 0xFF])).encodeBody toyCodec = .error .unrepresentable ∧
    (ITXt.mk "k" false "" "" (.compressed [0x00])).encodeBody toyCodec = .error .compressionError ∧
    (ITXt.mk "k" false "" "" (.compressed [0x78, 0xC3, 0xA9])).encodeBody toyCodec =
      .ok [0x6B, 0, 0, 0, 0, 0, 0xC3, 0xA9] := by decide
-- the former D16 counterexamples are now refusals
example : (TEXt.mk "a\x00b" "x").encodeBody = .error .unrepresentable ∧ ¬ NulFree "a\x00b" := by decide
example : (ZTXt.mk "a\x00b" (.compressed [1])).encodeBody toyCodec = .error .unrepresentable := by decide
example : (ITXt.mk "k" false "a\x00b" "" (.uncompressed "x")).encodeBody toyCodec = .error .unrepresentable ∧
    (ITXt.mk "k" false "" "a\x00b" (.uncompressed "x")).encodeBody toyCodec = .error .unrepresentable ∧
    (ITXt.mk "\x00" false "" "" (.uncompressed "x")).encodeBody toyCodec = .error .unrepresentable := by decide
-- order of the checks: length before NUL, Latin-1 before length
example : (TEXt.mk "" "x").encodeBody = .error .invalidKeywordSize ∧
    encodeKeyword (String.ofList (List.replicate 80 '\x00')) = .error .invalidKeywordSize ∧
    encodeKeyword (String.ofList (List.replicate 80 'Ā')) = .error .unrepresentable := by decide +kernel

end Png.C20
