import PngVerif.Generated.KernelsBufferSizes
import PngVerif.Model.Unfiltering
import PngVerif.Model.ZlibWindow
import PngVerif.Model.DataPath
import PngVerif.Proofs.FilterImpl
import PngVerif.Proofs.KernelTactic
import PngVerif.Props.KernelsEnums
import PngVerif.Props.KernelsZlib
/-!
# Tie A, part 2 (translator): the buffer index arithmetic of `UnfilteringBuffer` and `ZlibStream` at the SIZE level

`Generated/KernelsBufferSizes.lean` is rewritten by `tools/rs2lean.py` from `/repo/src/decoder/unfiltering_buffer.rs` and
`/repo/src/decoder/zlib.rs` on every run, under the declared abstraction `sizeof`: the byte vectors `data_stream`, `out_buffer` and the
`image_data` argument are represented by their LENGTHS (`len()` reads it; `truncate` / `resize` / `clear` / `extend_from_slice` update it;
`split_at_mut`, slicing `v[a..b]` and `copy_within` are panic sites that go into `_ok`; the filter-type byte `row[0]` is the declared
parameter `filter_byte`; `unfilter(..)` and `debug_assert_invariants()` are declared `ignore_calls`).  `debug_assert!`s are not part of
the translation (release profile), the models check them (dev profile): where that matters the theorem says so.

Proved here for ALL values: the generated size functions are the size projections
`(data.length, prevStart, curStart)` of `Model/Unfiltering.lean` (`UB.new`, `UB.resetPrev`, `UB.currLen`, `UB.compact`, `UB.unfilterCurr`)
and `(bufLen, hist.length = out_pos, readPos, maxTotal)` of `Model/ZlibWindow.lean` (`ZW.prepare`, `ZW.transfer`, `ZW.compact`), and `_ok` is
the models' "no panic" condition; corollaries for the operations of the data-path composite `Model/DataPath.lean` (`DP.step`).
-/
namespace Png.Kernels
open Png

/-- closes a conjunction of linear (in)equalities (the components of a result tuple) -/
macro "conj_arith" : tactic =>
  `(tactic| ((repeat' apply And.intro) <;> (first | exact True.intro | omega | rfl)))

/-- splits the `if`s of a generated function / `_ok` and closes every branch (tuple components, conjuncts of `_ok`) by linear arithmetic -/
macro "gen_close" : tactic =>
  `(tactic| (simp only [Prod.mk.injEq, decide_eq_true_eq, Bool.and_eq_true, Bool.true_and, Bool.and_true, List.length_drop, List.length_append]
             repeat' split
             all_goals (try simp only [Prod.mk.injEq, decide_eq_true_eq, Bool.and_eq_true, Bool.true_and, Bool.and_true, List.length_drop, List.length_append])
             all_goals conj_arith))

/-- after `simp` on a generated `_ok`: nothing left, or implications over linear arithmetic -/
macro "close_arith" : tactic =>
  `(tactic| (first | done | omega | (intros; omega) | (intros; simp_all; omega)))

/-- the size projection of `UB`: `(data_stream.len(), prev_start, current_start)` -/
def ubSizes (u : UB) : Int × Int × Int := ((u.data.length : Int), (u.prevStart : Int), (u.curStart : Int))

/-- `UnfilteringBuffer::new` -/
theorem kernel_ub_new : Gen.UnfilteringBuffer_new = ubSizes UB.new ∧ Gen.UnfilteringBuffer_new_ok = true := by
  constructor <;> rfl

/-- `reset_prev_row` is `UB.resetPrev` on the sizes, for every state -/
theorem kernel_ub_reset_prev_row (u : UB) :
    Gen.UnfilteringBuffer_reset_prev_row u.data.length u.prevStart u.curStart = ubSizes u.resetPrev ∧
    Gen.UnfilteringBuffer_reset_prev_row_ok u.data.length u.prevStart u.curStart = true := by
  constructor <;> rfl

/-- `curr_row_len` is `UB.currLen`; the subtraction underflows (panic) exactly when `current_start > data_stream.len()` -/
theorem kernel_ub_curr_row_len (u : UB) (hl : u.data.length < 2 ^ 64) :
    (u.curStart ≤ u.data.length → Gen.UnfilteringBuffer_curr_row_len u.data.length u.prevStart u.curStart = (u.currLen : Nat)) ∧
    (Gen.UnfilteringBuffer_curr_row_len_ok u.data.length u.prevStart u.curStart = true ↔ u.curStart ≤ u.data.length) := by
  constructor
  · intro h
    simp only [Gen.UnfilteringBuffer_curr_row_len, UB.currLen]
    omega
  · simp only [Gen.UnfilteringBuffer_curr_row_len_ok, decide_eq_true_eq]
    omega

/-- `as_mut_vec` (the compaction) is `UB.compact` on the sizes whenever the invariant `debug_assert_invariants` states holds, and it does
    not panic there; in general it panics (`copy_within` out of range, or `current_start -= prev_start` underflows) exactly when
    `prev_start > 0` and `prev_start` exceeds `data_stream.len()` or `current_start` -/
theorem kernel_ub_as_mut_vec (u : UB) (hl : u.data.length < 2 ^ 64) (hcs : u.curStart < 2 ^ 64) :
    (u.prevStart ≤ u.curStart → u.prevStart ≤ u.data.length →
      Gen.UnfilteringBuffer_as_mut_vec u.data.length u.prevStart u.curStart = ubSizes u.compact) ∧
    (Gen.UnfilteringBuffer_as_mut_vec_ok u.data.length u.prevStart u.curStart = true ↔
      (u.prevStart = 0 ∨ (u.prevStart ≤ u.data.length ∧ u.prevStart ≤ u.curStart))) := by
  constructor
  · intro h1 h2
    show _ = ((u.compact.data.length : Int), (u.compact.prevStart : Int), (u.compact.curStart : Int))
    simp only [Gen.UnfilteringBuffer_as_mut_vec, UB.compact]
    gen_close
  · simp only [Gen.UnfilteringBuffer_as_mut_vec_ok]
    kernel_arith

/-- `unfilter_curr_row`, for every state, row length and filter byte (the byte at `current_start`, which the kernel takes as the
    declared parameter `filter_byte`):
    * where the model says `Ok` the translation returns code 0 and the model's new sizes, where it says `UnknownFilterMethod` code 1
      (the first declared error) and the unchanged sizes; `_ok` holds in both cases;
    * where the model panics and its two `debug_assert!`s (not translated) hold, `_ok` is false: the panic sites
      `split_at_mut(current_start)`, `prev[prev_start..]`, `row[0]`, `row[1..rowlen]` are the model's. -/
theorem kernel_ub_unfilter_curr_row (u : UB) (rowlen bpp : Nat) (bppArg : Int) (hl : u.data.length < 2 ^ 63) (hr : rowlen < 2 ^ 63)
    (fb : UInt8) (hfbdef : fb = u.data.getD u.curStart 0) :
    match u.unfilterCurr rowlen bpp with
    | .ok u' => Gen.UnfilteringBuffer_unfilter_curr_row rowlen bppArg u.data.length u.prevStart u.curStart fb.toNat = ((0 : Int), ubSizes u') ∧
        Gen.UnfilteringBuffer_unfilter_curr_row_ok rowlen bppArg u.data.length u.prevStart u.curStart fb.toNat = true
    | .unknownFilter _ => Gen.UnfilteringBuffer_unfilter_curr_row rowlen bppArg u.data.length u.prevStart u.curStart fb.toNat = ((1 : Int), ubSizes u) ∧
        Gen.UnfilteringBuffer_unfilter_curr_row_ok rowlen bppArg u.data.length u.prevStart u.curStart fb.toNat = true
    | .panic => (2 ≤ rowlen ∧ (u.prevRow.isEmpty ∨ u.prevRow.length = rowlen - 1)) →
        Gen.UnfilteringBuffer_unfilter_curr_row_ok rowlen bppArg u.data.length u.prevStart u.curStart fb.toNat = false := by
  have hfb : fb.toNat < 256 := fb.toNat_lt
  have hk := kernel_rowfilter_from_u8 fb.toNat hfb
  have hprev : u.prevRow.length = min (u.curStart - u.prevStart) (u.data.length - u.prevStart) := by
    simp [UB.prevRow, List.length_take, List.length_drop]
  simp only [UB.unfilterCurr, ← hfbdef]
  by_cases c1 : rowlen < 2
  · simp only [c1, if_true]; omega
  simp only [c1, if_false]
  by_cases c2 : u.data.length < u.curStart
  · simp only [c2, if_true]
    intro _
    simp only [Gen.UnfilteringBuffer_unfilter_curr_row_ok]
    simp
    close_arith
  simp only [c2, if_false]
  by_cases c3 : u.curStart < u.prevStart
  · simp only [c3, if_true]
    intro _
    simp only [Gen.UnfilteringBuffer_unfilter_curr_row_ok]
    simp
    close_arith
  simp only [c3, if_false]
  by_cases c4 : ¬ (u.prevRow.isEmpty ∨ u.prevRow.length = rowlen - 1)
  · simp only [c4, if_true]
    intro h; exact h.2.elim
  simp only [c4, if_false]
  by_cases c5 : u.currLen = 0
  · simp only [c5, if_true]
    intro _
    simp only [Gen.UnfilteringBuffer_unfilter_curr_row_ok]
    simp only [UB.currLen] at c5
    simp
    close_arith
  simp only [c5, if_false]
  have a1 : (u.curStart : Int) ≤ u.data.length := by omega
  have a2 : (u.prevStart : Int) ≤ u.curStart := by omega
  have a5 : (0 : Int) < (u.data.length : Int) - u.curStart := by simp only [UB.currLen] at c5; omega
  cases hft : FilterType.ofNat? fb.toNat with
  | none =>
    have hg : Gen.RowFilter_from_u8 fb.toNat = none := by rw [hk.1, hft]; rfl
    simp only [Gen.UnfilteringBuffer_unfilter_curr_row, Gen.UnfilteringBuffer_unfilter_curr_row_ok, hg, hk.2.2, ubSizes]
    simp
    close_arith
  | some ft =>
    have hg : Gen.RowFilter_from_u8 fb.toNat = some ((ft.toNat : Nat) : Int) := by rw [hk.1, hft]; rfl
    by_cases c6 : u.currLen < rowlen
    · simp only [c6, if_true]
      intro _
      simp only [Gen.UnfilteringBuffer_unfilter_curr_row_ok, hg, hk.2.2]
      simp only [UB.currLen] at c6
      simp
      close_arith
    · simp only [c6, if_false]
      have a6 : (rowlen : Int) ≤ (u.data.length : Int) - u.curStart := by simp only [UB.currLen] at c6; omega
      have a7 : (1 : Int) ≤ rowlen := by omega
      have hlen : (List.take (u.curStart + 1) u.data ++ unfilterImpl ft bpp u.prevRow (List.take (rowlen - 1) (List.drop (u.curStart + 1) u.data)) ++
          List.drop (u.curStart + rowlen) u.data).length = u.data.length := by
        simp only [List.length_append, unfilterImpl_length, List.length_take, List.length_drop]
        simp only [UB.currLen] at c6
        omega
      constructor
      · simp only [Gen.UnfilteringBuffer_unfilter_curr_row, hg, ubSizes, hlen]
        simp
        close_arith
      · simp only [Gen.UnfilteringBuffer_unfilter_curr_row_ok, hg, hk.2.2]
        simp
        close_arith

/-! ## `ZlibStream` -/

/-- `prepare_vec_for_appending` is `ZW.prepare` on `(out_buffer.len(), max_total_output)` for every state and every `CHUNK_BUFFER_SIZE`
    (wherever the model's `debug_assert!(len <= buffered_len)` holds, i.e. always: `ZW.prepare_spec`); `out_pos`, `read_pos` stay; no
    overflow, and the `resize` stays below `isize::MAX` -/
theorem kernel_zs_prepare (c : ZCfg) (z z' : ZW) (hb : z.bufLen ≤ usizeMax) (ho : z.hist.length ≤ usizeMax) (hc : c.chunk ≤ usizeMax)
    (hm : z.maxTotal ≤ usizeMax) (hp : z.prepare c = some z') :
    Gen.ZlibStream_prepare_vec_for_appending z.bufLen z.hist.length z.readPos z.maxTotal c.chunk = ((z'.bufLen : Int), (z'.maxTotal : Int)) ∧
    z'.hist = z.hist ∧ z'.readPos = z.readPos ∧
    Gen.ZlibStream_prepare_vec_for_appending_ok z.bufLen z.hist.length z.readPos z.maxTotal c.chunk = true := by
  have hd1 := kernel_decoding_size c z.bufLen z.maxTotal hb hc
  have hd2 := kernel_decoding_size c z.bufLen usizeMax hb hc
  have e : ((usizeMax : Nat) : Int) = 18446744073709551615 := by decide
  rw [e] at hd2
  have hU : usizeMax = 18446744073709551615 := by decide
  have hI : isizeMax = 9223372036854775807 := by decide
  have hds1 : decodingSize c z.bufLen z.maxTotal ≤ isizeMax := by unfold decodingSize; omega
  have hds2 : decodingSize c z.bufLen usizeMax ≤ isizeMax := by unfold decodingSize; omega
  simp only [ZW.prepare, satAdd] at hp
  simp only [Gen.ZlibStream_prepare_vec_for_appending, Gen.ZlibStream_prepare_vec_for_appending_ok, hd1.1, hd1.2, hd2.1, hd2.2]
  by_cases g1 : z.hist.length ≥ z.maxTotal <;> simp only [g1, if_true, if_false] at hp <;> split at hp <;>
    (try split at hp) <;> (first | (simp at hp; done) | skip) <;> simp only [Option.some.injEq] at hp <;> subst hp <;> gen_close

/-- `transfer_finished_data` is `ZW.transfer` on the sizes: it returns `out_pos - read_pos`, appends that many bytes to `image_data` and sets
    `read_pos = out_pos`; it panics (the slice `out_buffer[read_pos..out_pos]`) exactly unless `read_pos ≤ out_pos ≤ out_buffer.len()`
    (as long as `image_data` stays below `isize::MAX`) -/
theorem kernel_zs_transfer (z : ZW) (base : Nat) (hd : base + z.delivered.length + z.hist.length ≤ isizeMax) :
    (z.readPos ≤ z.hist.length →
      Gen.ZlibStream_transfer_finished_data z.bufLen z.hist.length z.readPos z.maxTotal ((base : Int) + (z.delivered.length : Nat)) =
        (((z.hist.length - z.readPos : Nat) : Int), (z.transfer.readPos : Int), ((base : Int) + (z.transfer.delivered.length : Nat)))) ∧
    (Gen.ZlibStream_transfer_finished_data_ok z.bufLen z.hist.length z.readPos z.maxTotal ((base : Int) + (z.delivered.length : Nat)) = true ↔
      (z.readPos ≤ z.hist.length ∧ z.hist.length ≤ z.bufLen)) := by
  simp only [isizeMax] at hd
  constructor
  · intro h
    simp only [Gen.ZlibStream_transfer_finished_data, ZW.transfer]
    gen_close
  · simp only [Gen.ZlibStream_transfer_finished_data_ok]
    kernel_arith

/-- `compact_out_buffer_if_needed` is `ZW.compact` on `(out_buffer.len(), out_pos, read_pos)` for every state, for the constants the source
    has (`LOOKBACK_SIZE = 32768`, factor 4); it does not panic when `out_pos ≤ out_buffer.len()` -/
theorem kernel_zs_compact (c : ZCfg) (hc : c.lookback = 32768 ∧ c.factor = 4) (z : ZW) (ho : z.hist.length ≤ usizeMax) :
    Gen.ZlibStream_compact_out_buffer_if_needed z.bufLen z.hist.length z.readPos z.maxTotal =
      (((z.compact c).bufLen : Int), ((z.compact c).hist.length : Int), ((z.compact c).readPos : Int)) ∧
    (z.hist.length ≤ z.bufLen → Gen.ZlibStream_compact_out_buffer_if_needed_ok z.bufLen z.hist.length z.readPos z.maxTotal = true) := by
  simp only [usizeMax] at ho
  constructor
  · simp only [Gen.ZlibStream_compact_out_buffer_if_needed, ZW.compact, ZCfg.thresh, hc.1, hc.2]
    gen_close
  · intro hb
    simp only [Gen.ZlibStream_compact_out_buffer_if_needed_ok]
    kernel_arith

/-- the constants of the current source (`Generated/Params.lean`) are the ones `kernel_zs_compact` is about -/
theorem kernel_zs_compact_current (z : ZW) (ho : z.hist.length ≤ usizeMax) :
    Gen.ZlibStream_compact_out_buffer_if_needed z.bufLen z.hist.length z.readPos z.maxTotal =
      (((z.compact ZCfg.current).bufLen : Int), ((z.compact ZCfg.current).hist.length : Int), ((z.compact ZCfg.current).readPos : Int)) :=
  (kernel_zs_compact ZCfg.current ⟨rfl, rfl⟩ z ho).1

/-- what `ZW.prepare` leaves alone, and what the new buffer length can be -/
theorem prepare_frame (c : ZCfg) (z z1 : ZW) (hp : z.prepare c = some z1) :
    z1.hist = z.hist ∧ z1.readPos = z.readPos ∧ z1.delivered = z.delivered ∧ z1.p = z.p ∧
    (z1.bufLen = z.bufLen ∨ ∃ mt, z1.bufLen = decodingSize c z.bufLen mt) := by
  simp only [ZW.prepare] at hp
  by_cases g1 : z.hist.length ≥ z.maxTotal <;> simp only [g1, if_true, if_false] at hp <;> split at hp <;>
    (try split at hp) <;> (first | (simp at hp; done) | skip) <;> simp only [Option.some.injEq] at hp <;> subst hp <;>
    refine ⟨rfl, rfl, rfl, rfl, ?_⟩ <;> first | exact Or.inl rfl | exact Or.inr ⟨_, rfl⟩

/-- `decompress` is, at the size level, a composition of the three translated functions around the external `read` -/
theorem decompress_unfold (b o r m : Int) (st ig : Bool) (dl dataLen ch i n : Int) :
    Gen.ZlibStream_decompress b o r m st ig dl dataLen ch false true i n =
      (let p := Gen.ZlibStream_prepare_vec_for_appending b o r m ch
       let t := Gen.ZlibStream_transfer_finished_data p.1 (o + n) r p.2 dl
       let q := Gen.ZlibStream_compact_out_buffer_if_needed p.1 (o + n) t.2.1 p.2
       ((0 : Int), i, q.1, q.2.1, q.2.2, p.2, true, t.2.2)) ∧
    Gen.ZlibStream_decompress_ok b o r m st ig dl dataLen ch false true i n =
      (let p := Gen.ZlibStream_prepare_vec_for_appending b o r m ch
       let t := Gen.ZlibStream_transfer_finished_data p.1 (o + n) r p.2 dl
       Gen.ZlibStream_prepare_vec_for_appending_ok b o r m ch &&
       (decide (0 ≤ o + n ∧ o + n ≤ 18446744073709551615) &&
        (Gen.ZlibStream_transfer_finished_data_ok p.1 (o + n) r p.2 dl &&
         Gen.ZlibStream_compact_out_buffer_if_needed_ok p.1 (o + n) t.2.1 p.2))) := by
  cases st <;> cases ig <;> exact ⟨rfl, rfl⟩

/-- `decompress` when the inflater is already done: `Ok(data.len())`, nothing changes; when `read` fails: `CorruptFlateStream`, only
    `prepare_vec_for_appending` has happened (the `DPOp.zFail` of `Model/DataPath.lean`) -/
theorem kernel_zs_decompress_early (b o r m : Int) (st ig : Bool) (dl dataLen ch i n : Int) (rok : Bool) :
    Gen.ZlibStream_decompress b o r m st ig dl dataLen ch true rok i n = ((0 : Int), dataLen, b, o, r, m, st, dl) ∧
    Gen.ZlibStream_decompress_ok b o r m st ig dl dataLen ch true rok i n = true ∧
    Gen.ZlibStream_decompress b o r m st ig dl dataLen ch false false i n =
      ((1 : Int), (0 : Int), (Gen.ZlibStream_prepare_vec_for_appending b o r m ch).1, o, r, (Gen.ZlibStream_prepare_vec_for_appending b o r m ch).2, st, dl) := by
  refine ⟨rfl, rfl, ?_⟩
  cases st <;> cases ig <;> rfl

/-- the three translated functions along one `prepare; read; transfer; compact` of the model (shared by `decompress` and the loop of
    `finish_compressed_chunks`): `read` produces `readLen` bytes at `out_pos` -/
theorem zs_steps (c : ZCfg) (hc : c.lookback = 32768 ∧ c.factor = 4) (O : Bytes) (z z1 : ZW) (k : Nat)
    (hb : z.bufLen ≤ 2 ^ 61) (hch : c.chunk ≤ 2 ^ 61) (hm : z.maxTotal ≤ usizeMax) (base : Nat) (hdl : base + z.delivered.length < 2 ^ 62)
    (hp : z.prepare c = some z1) (hspace : ¬ z1.bufLen < z1.hist.length) (hread : ¬ (z1.read O k).hist.length < (z1.read O k).readPos) :
    Gen.ZlibStream_prepare_vec_for_appending z.bufLen z.hist.length z.readPos z.maxTotal c.chunk = ((z1.bufLen : Int), (z1.maxTotal : Int)) ∧
    Gen.ZlibStream_prepare_vec_for_appending_ok z.bufLen z.hist.length z.readPos z.maxTotal c.chunk = true ∧
    Gen.ZlibStream_transfer_finished_data z1.bufLen ((z.hist.length : Int) + (z1.readLen O k : Nat)) z.readPos z1.maxTotal ((base : Int) + (z.delivered.length : Nat)) =
      (((z.hist.length + z1.readLen O k - z.readPos : Nat) : Int), ((z1.read O k).transfer.readPos : Int), ((base : Int) + ((z1.read O k).transfer.delivered.length : Nat))) ∧
    Gen.ZlibStream_transfer_finished_data_ok z1.bufLen ((z.hist.length : Int) + (z1.readLen O k : Nat)) z.readPos z1.maxTotal ((base : Int) + (z.delivered.length : Nat)) = true ∧
    Gen.ZlibStream_compact_out_buffer_if_needed z1.bufLen ((z.hist.length : Int) + (z1.readLen O k : Nat)) ((z1.read O k).transfer.readPos : Nat) z1.maxTotal =
      ((((z1.read O k).transfer.compact c).bufLen : Int), (((z1.read O k).transfer.compact c).hist.length : Int), (((z1.read O k).transfer.compact c).readPos : Int)) ∧
    Gen.ZlibStream_compact_out_buffer_if_needed_ok z1.bufLen ((z.hist.length : Int) + (z1.readLen O k : Nat)) ((z1.read O k).transfer.readPos : Nat) z1.maxTotal = true ∧
    (z.hist.length : Int) + (z1.readLen O k : Nat) ≤ 18446744073709551615 ∧
    (z1.read O k).hist.length = z.hist.length + z1.readLen O k ∧ (z1.read O k).readPos = z.readPos := by
  have hU : usizeMax = 18446744073709551615 := by decide
  have hI : isizeMax = 9223372036854775807 := by decide
  obtain ⟨fh, fr, fd, fp, fb⟩ := prepare_frame c z z1 hp
  have hz1b : z1.bufLen ≤ 2 ^ 62 := by
    rcases fb with h | ⟨mt, h⟩
    · rw [h]; omega
    · rw [h]; unfold decodingSize satAdd; omega
  have hho : z.hist.length ≤ usizeMax := by
    rw [fh] at hspace; omega
  have hk1 := kernel_zs_prepare c z z1 (by omega) hho (by omega) hm hp
  obtain ⟨e1, eh, er, eok1⟩ := hk1
  have hn : z1.readLen O k ≤ z1.bufLen - z1.hist.length ∧ z1.readLen O k ≤ O.length - z1.p := by
    simp only [ZW.readLen]; omega
  have h2len : (z1.read O k).hist.length = z.hist.length + z1.readLen O k := by
    rw [← eh]
    simp only [ZW.read, List.length_append, List.length_take, List.length_drop]
    omega
  have hdel : (z1.read O k).delivered = z.delivered := fd
  have hk2 := kernel_zs_transfer (z1.read O k) base (by
    rw [h2len, hdel]
    rw [fh] at hspace hn
    omega)
  have hr2 : (z1.read O k).readPos = z.readPos := er
  have hb2 : (z1.read O k).bufLen = z1.bufLen := rfl
  have hm2 : (z1.read O k).maxTotal = z1.maxTotal := rfl
  have e2 := hk2.1 (by omega)
  have eok2 := hk2.2.2 ⟨by omega, by rw [h2len, hb2]; rw [eh] at hspace hn; omega⟩
  rw [hb2, hm2, hr2, hdel, h2len] at e2 eok2
  push_cast at e2 eok2
  have hk3 := kernel_zs_compact c hc (z1.read O k).transfer (by
    show (z1.read O k).hist.length ≤ usizeMax
    rw [h2len]; rw [eh] at hspace hn; omega)
  have e3 := hk3.1
  have eok3 := hk3.2 (by
    show (z1.read O k).hist.length ≤ (z1.read O k).bufLen
    rw [h2len, hb2]; rw [eh] at hspace hn; omega)
  have ht1 : (z1.read O k).transfer.bufLen = z1.bufLen := rfl
  have ht2 : (z1.read O k).transfer.hist.length = z.hist.length + z1.readLen O k := h2len
  have ht3 : (z1.read O k).transfer.maxTotal = z1.maxTotal := rfl
  have ht4 : (z1.read O k).transfer.readPos = (z1.read O k).hist.length := rfl
  rw [ht1, ht2, ht3] at e3 eok3
  push_cast at e3 eok3
  refine ⟨e1, eok1, e2, eok2, e3, eok3, ?_, h2len, hr2⟩
  rw [eh] at hspace hn
  omega

/-- `decompress` with a working inflater is the model's `ZW.decompress` (`prepare`, `read`, `transfer`, `compact`) on the sizes, for every
    state: when the external `read` reports `out_consumed = readLen` (what the model's inflater produces: at most the space offered)
    and any `in_consumed`, the translated function returns `Ok(in_consumed)` and the sizes of the model's new state; no panic -/
theorem kernel_zs_decompress (c : ZCfg) (hc : c.lookback = 32768 ∧ c.factor = 4) (O : Bytes) (z z' : ZW) (k : Nat) (st ig : Bool) (dataLen inC : Nat)
    (hb : z.bufLen ≤ 2 ^ 61) (hch : c.chunk ≤ 2 ^ 61) (hm : z.maxTotal ≤ usizeMax)
    (base : Nat) (hdl : base + z.delivered.length < 2 ^ 62) (hd : z.decompress c O k = some z') :
    ∃ z1, z.prepare c = some z1 ∧
      Gen.ZlibStream_decompress z.bufLen z.hist.length z.readPos z.maxTotal st ig ((base : Int) + (z.delivered.length : Nat)) dataLen c.chunk false true inC (z1.readLen O k : Nat) =
        ((0 : Int), (inC : Int), (z'.bufLen : Int), (z'.hist.length : Int), (z'.readPos : Int), (z'.maxTotal : Int), true, ((base : Int) + (z'.delivered.length : Nat))) ∧
      Gen.ZlibStream_decompress_ok z.bufLen z.hist.length z.readPos z.maxTotal st ig ((base : Int) + (z.delivered.length : Nat)) dataLen c.chunk false true inC (z1.readLen O k : Nat) = true := by
  simp only [ZW.decompress, ZW.call] at hd
  cases hp : z.prepare c with
  | none => simp [hp] at hd
  | some z1 =>
    simp only [hp] at hd
    split at hd
    · exact absurd hd (by simp)
    rename_i hspace
    split at hd
    · exact absurd hd (by simp)
    rename_i hread
    simp only [Option.some.injEq] at hd
    refine ⟨z1, rfl, ?_⟩
    obtain ⟨e1, eok1, e2, eok2, e3, eok3, hbound, -, -⟩ := zs_steps c hc O z z1 k hb hch hm base hdl hp hspace hread
    have hu := decompress_unfold z.bufLen z.hist.length z.readPos z.maxTotal st ig ((base : Int) + (z.delivered.length : Nat)) dataLen c.chunk inC (z1.readLen O k : Nat)
    rw [hu.1, hu.2]
    simp only [e1, eok1, e2, eok2, e3, eok3]
    subst hd
    constructor
    · simp only [Prod.mk.injEq]
      refine ⟨?_, ?_, ?_, ?_, ?_, ?_, ?_, ?_⟩ <;> first | rfl | (simp only [ZW.compact]; first | done | (split <;> rfl))
    · simp only [Bool.true_and, Bool.and_true, decide_eq_true_eq]
      omega

/-- ONE ITERATION of `while !self.state.is_done()` in `finish_compressed_chunks` after which the inflater is still not done is the model's
    `ZW.finishIter` on the sizes (the model's `none` from the progress `assert!` included: `_ok` is then false); when the inflater reports done the
    iteration has only prepared and read (the epilogue after the loop - `transfer_finished_data`, `out_buffer.clear()` - is not part of the loop body) -/
theorem kernel_zs_finish_iter (c : ZCfg) (hc : c.lookback = 32768 ∧ c.factor = 4) (O : Bytes) (z z1 : ZW) (k : Nat) (inC : Nat)
    (hb : z.bufLen ≤ 2 ^ 61) (hch : c.chunk ≤ 2 ^ 61) (hm : z.maxTotal ≤ usizeMax) (base : Nat) (hdl : base + z.delivered.length < 2 ^ 62)
    (hp : z.prepare c = some z1) (hspace : ¬ z1.bufLen < z1.hist.length) (hread : ¬ (z1.read O k).hist.length < (z1.read O k).readPos) :
    (∀ z', z.finishIter c O k = some z' →
      Gen.ZlibStream_finish_iter z.bufLen z.hist.length z.readPos z.maxTotal ((base : Int) + (z.delivered.length : Nat)) c.chunk false true inC (z1.readLen O k : Nat) =
        ((0 : Int), (z'.bufLen : Int), (z'.hist.length : Int), (z'.readPos : Int), (z'.maxTotal : Int), ((base : Int) + (z'.delivered.length : Nat))) ∧
      Gen.ZlibStream_finish_iter_ok z.bufLen z.hist.length z.readPos z.maxTotal ((base : Int) + (z.delivered.length : Nat)) c.chunk false true inC (z1.readLen O k : Nat) = true) ∧
    (z.finishIter c O k = none →
      Gen.ZlibStream_finish_iter_ok z.bufLen z.hist.length z.readPos z.maxTotal ((base : Int) + (z.delivered.length : Nat)) c.chunk false true inC (z1.readLen O k : Nat) = false) ∧
    (Gen.ZlibStream_finish_iter z.bufLen z.hist.length z.readPos z.maxTotal ((base : Int) + (z.delivered.length : Nat)) c.chunk true true inC (z1.readLen O k : Nat) =
        ((0 : Int), (z1.bufLen : Int), ((z1.read O k).hist.length : Int), (z.readPos : Int), (z1.maxTotal : Int), ((base : Int) + (z.delivered.length : Nat))) ∧
      Gen.ZlibStream_finish_iter_ok z.bufLen z.hist.length z.readPos z.maxTotal ((base : Int) + (z.delivered.length : Nat)) c.chunk true true inC (z1.readLen O k : Nat) = true) := by
  obtain ⟨e1, eok1, e2, eok2, e3, eok3, hbound, h2len, hr2⟩ := zs_steps c hc O z z1 k hb hch hm base hdl hp hspace hread
  have hfi : z.finishIter c O k =
      (if ¬ ((z1.read O k).hist.length - (z1.read O k).readPos > 0 ∨ z1.readLen O k > 0) then none
       else some ((z1.read O k).transfer.compact c)) := by
    simp only [ZW.finishIter, hp, hspace, hread, if_false]
  refine ⟨?_, ?_, ?_⟩
  · intro z' hz
    rw [hfi] at hz
    split at hz
    · exact absurd hz (by simp)
    rename_i hprog
    simp only [Option.some.injEq] at hz
    subst hz
    constructor
    · simp only [Gen.ZlibStream_finish_iter, e1, e2, e3, if_true, Bool.not_false, Prod.mk.injEq]
      refine ⟨?_, ?_, ?_, ?_, ?_, ?_⟩ <;> first | rfl | (simp only [ZW.compact]; first | done | (split <;> rfl))
    · simp only [Gen.ZlibStream_finish_iter_ok, e1, eok1, e2, eok2, e3, eok3, if_true, Bool.not_false, Bool.true_and, Bool.and_true,
        decide_eq_true_eq, Bool.or_eq_true, Bool.and_eq_true]
      omega
  · intro hz
    rw [hfi] at hz
    split at hz
    · rename_i hprog
      simp only [Gen.ZlibStream_finish_iter_ok, e1, eok1, e2, eok2, e3, eok3, if_true, Bool.not_false, Bool.true_and, Bool.and_true,
        Bool.and_eq_false_iff, Bool.or_eq_false_iff, decide_eq_false_iff_not]
      omega
    · exact absurd hz (by simp)
  · constructor
    · simp only [Gen.ZlibStream_finish_iter, e1, if_true, Bool.not_true, Bool.false_eq_true, if_false, Prod.mk.injEq, h2len]
      push_cast; conj_arith
    · simp only [Gen.ZlibStream_finish_iter_ok, e1, eok1, if_true, Bool.not_true, Bool.false_eq_true, if_false, Bool.true_and, Bool.and_true,
        decide_eq_true_eq]
      omega

/-! ## The data-path composite (`Model/DataPath.lean`): the operations that are one of the translated functions -/

/-- `DPOp.pullNone` (`as_mut_vec()` with nothing appended), `DPOp.newPass` (`reset_prev_row`) and `DPOp.row` (`unfilter_curr_row`) change the
    observable sizes `DP.sizes` of the `UnfilteringBuffer` exactly as the translated functions say -/
theorem kernel_dp_ub_ops (c : ZCfg) (st st' : DP) (hl : st.ub.data.length < 2 ^ 63) (hr : st.rowlen < 2 ^ 63) (hinv : st.ub.Inv) :
    (DP.step c st .pullNone = .ok st' →
      Gen.UnfilteringBuffer_as_mut_vec st.sizes.ubLen st.sizes.prevStart st.sizes.curStart =
        ((st'.sizes.ubLen : Int), (st'.sizes.prevStart : Int), (st'.sizes.curStart : Int))) ∧
    (∀ r, DP.step c st (.newPass r) = .ok st' →
      Gen.UnfilteringBuffer_reset_prev_row st.sizes.ubLen st.sizes.prevStart st.sizes.curStart =
        ((st'.sizes.ubLen : Int), (st'.sizes.prevStart : Int), (st'.sizes.curStart : Int))) ∧
    (∀ bppArg, DP.step c st .row = .ok st' →
      (Gen.UnfilteringBuffer_unfilter_curr_row st.rowlen bppArg st.sizes.ubLen st.sizes.prevStart st.sizes.curStart
          (st.ub.data.getD st.ub.curStart 0).toNat).2 =
        ((st'.sizes.ubLen : Int), (st'.sizes.prevStart : Int), (st'.sizes.curStart : Int)) ∧
      Gen.UnfilteringBuffer_unfilter_curr_row_ok st.rowlen bppArg st.sizes.ubLen st.sizes.prevStart st.sizes.curStart
          (st.ub.data.getD st.ub.curStart 0).toNat = true) := by
  refine ⟨?_, ?_, ?_⟩
  · intro h
    simp only [DP.step] at h
    split at h
    · exact absurd h (by simp)
    · simp only [DPOut.ok.injEq] at h
      subst h
      exact (kernel_ub_as_mut_vec st.ub (by omega) (by have := hinv.2; omega)).1 hinv.1 (Nat.le_trans hinv.1 hinv.2)
  · intro r h
    simp only [DP.step] at h
    split at h
    · simp only [DPOut.ok.injEq] at h
      subst h
      exact (kernel_ub_reset_prev_row st.ub).1
    · exact absurd h (by simp)
  · intro bppArg h
    have hk := kernel_ub_unfilter_curr_row st.ub st.rowlen st.frame.bpp bppArg hl hr _ rfl
    simp only [DP.step] at h
    simp only [DP.sizes]
    split at h
    · exact absurd h (by simp)
    · revert hk
      cases hu : st.ub.unfilterCurr st.rowlen st.frame.bpp with
      | ok u' =>
        intro hk
        simp only [hu, DPOut.ok.injEq] at h
        subst h
        simp only at hk
        exact ⟨by rw [hk.1]; rfl, hk.2⟩
      | unknownFilter b =>
        intro hk
        simp only [hu, DPOut.ok.injEq] at h
        subst h
        simp only at hk
        exact ⟨by rw [hk.1]; rfl, hk.2⟩
      | panic =>
        intro _
        simp only [hu] at h
        exact absurd h (by simp)

/-- `DPOp.pull k` - `decode_image_data(self.unfiltering_buffer.as_mut_vec())` with one `ZlibStream::decompress` (mod.rs:668-670) - changes the
    observable sizes exactly as the translated `as_mut_vec` followed by the translated `decompress` on the vector it returns say: the
    `image_data` length the kernel starts from is the `data_stream` length after the compaction, the one it ends with is the new
    `data_stream` length -/
theorem kernel_dp_pull (c : ZCfg) (hc : c.lookback = 32768 ∧ c.factor = 4) (st st' : DP) (k : Nat) (stf ig : Bool) (dataLen inC : Nat)
    (hb : st.z.bufLen ≤ 2 ^ 61) (hch : c.chunk ≤ 2 ^ 61) (hm : st.z.maxTotal ≤ usizeMax) (hl : st.ub.data.length < 2 ^ 62) (hinv : st.ub.Inv)
    (hs : DP.step c st (.pull k) = .ok st') :
    ∃ z1, ({ st.z with delivered := [] } : ZW).prepare c = some z1 ∧
      Gen.ZlibStream_decompress st.sizes.bufLen st.sizes.outPos st.sizes.readPos st.z.maxTotal stf ig
          (Gen.UnfilteringBuffer_as_mut_vec st.sizes.ubLen st.sizes.prevStart st.sizes.curStart).1 dataLen c.chunk false true inC (z1.readLen st.O k : Nat) =
        ((0 : Int), (inC : Int), (st'.sizes.bufLen : Int), (st'.sizes.outPos : Int), (st'.sizes.readPos : Int), (st'.z.maxTotal : Int), true,
          (st'.sizes.ubLen : Int)) ∧
      (Gen.UnfilteringBuffer_as_mut_vec st.sizes.ubLen st.sizes.prevStart st.sizes.curStart).2 = ((st'.sizes.prevStart : Int), (st'.sizes.curStart : Int)) ∧
      Gen.ZlibStream_decompress_ok st.sizes.bufLen st.sizes.outPos st.sizes.readPos st.z.maxTotal stf ig
          (Gen.UnfilteringBuffer_as_mut_vec st.sizes.ubLen st.sizes.prevStart st.sizes.curStart).1 dataLen c.chunk false true inC (z1.readLen st.O k : Nat) = true := by
  simp only [DP.step] at hs
  split at hs
  · exact absurd hs (by simp)
  simp only [ZW.pull] at hs
  cases hd : ZW.decompress c st.O { st.z with delivered := [] } k with
  | none => simp [hd] at hs
  | some z' =>
    simp only [hd, DPOut.ok.injEq] at hs
    subst hs
    have hcl : st.ub.compact.data.length ≤ st.ub.data.length := by
      simp only [UB.compact]; split
      · simp only [List.length_drop]; omega
      · exact Nat.le_refl _
    obtain ⟨z1, hp, e, eok⟩ := kernel_zs_decompress c hc st.O { st.z with delivered := [] } z' k stf ig dataLen inC hb hch hm
      st.ub.compact.data.length (by simp only [List.length_nil]; omega) hd
    have ha := (kernel_ub_as_mut_vec st.ub (by omega) (by have := hinv.2; omega)).1 hinv.1 (Nat.le_trans hinv.1 hinv.2)
    refine ⟨z1, hp, ?_⟩
    simp only [DP.sizes]
    rw [ha]
    simp only [ubSizes, List.length_nil, Int.natCast_zero, Int.add_zero] at e eok ⊢
    refine ⟨?_, rfl, ?_⟩
    · rw [e]
      simp only [UB.append, UB.extend, List.length_append, Prod.mk.injEq]
      push_cast
      conj_arith
    · exact eok

example : Gen.UnfilteringBuffer_as_mut_vec 100 30 40 = (70, 0, 10) ∧ Gen.UnfilteringBuffer_as_mut_vec_ok 100 30 40 = true ∧
    Gen.UnfilteringBuffer_as_mut_vec_ok 100 30 20 = false ∧ Gen.UnfilteringBuffer_as_mut_vec 100 0 40 = (100, 0, 40) ∧
    Gen.UnfilteringBuffer_unfilter_curr_row 9 1 100 1 10 4 = (0, 100, 11, 19) ∧ Gen.UnfilteringBuffer_unfilter_curr_row 9 1 100 1 10 5 = (1, 100, 1, 10) ∧
    Gen.UnfilteringBuffer_unfilter_curr_row_ok 9 1 100 1 10 4 = true ∧ Gen.UnfilteringBuffer_unfilter_curr_row_ok 9 1 18 1 10 4 = false ∧
    Gen.UnfilteringBuffer_curr_row_len 100 0 40 = 60 ∧ Gen.UnfilteringBuffer_curr_row_len_ok 10 0 40 = false := by decide

example : Gen.ZlibStream_prepare_vec_for_appending 0 0 0 18446744073709551615 32768 = (32768, 18446744073709551615) ∧
    Gen.ZlibStream_prepare_vec_for_appending 32768 100 0 50 32768 = (65536, 18446744073709551615) ∧
    Gen.ZlibStream_prepare_vec_for_appending 32768 100 0 40000 32768 = (40000, 40000) ∧
    Gen.ZlibStream_transfer_finished_data 1000 700 200 0 5 = (500, 700, 505) ∧ Gen.ZlibStream_transfer_finished_data_ok 1000 700 800 0 5 = false ∧
    Gen.ZlibStream_compact_out_buffer_if_needed 262144 131073 131073 0 = (262144, 32768, 32768) ∧
    Gen.ZlibStream_compact_out_buffer_if_needed 262144 131072 131000 0 = (262144, 131072, 131000) := by decide

example : Gen.ZlibStream_decompress 0 0 0 18446744073709551615 false true 0 10 32768 false true 10 300 = (0, 10, 32768, 300, 300, 18446744073709551615, true, 300) := by rfl
example : Gen.ZlibStream_decompress_ok 0 0 0 18446744073709551615 false true 0 10 32768 false true 10 300 = true ∧
    Gen.ZlibStream_decompress_ok 0 0 0 18446744073709551615 false true 0 10 32768 false true 10 40000 = false := by decide
example : Gen.ZlibStream_decompress 262144 131000 131000 18446744073709551615 true true 7 10 32768 false true 4 100 = (0, 4, 262144, 32768, 32768, 18446744073709551615, true, 107) := by rfl
example : Gen.ZlibStream_decompress 5 3 3 9 true true 7 10 32768 true true 4 100 = (0, 10, 5, 3, 3, 9, true, 7) := by rfl
example : Gen.ZlibStream_decompress 5 3 3 9 true true 7 10 32768 false false 4 100 = (1, 0, 9, 3, 3, 9, true, 7) := by rfl

end Png.Kernels
