import PngVerif.Props.C18
import PngVerif.Proofs.TransformContract
import PngVerif.Proofs.TransformContractRun
/-!
# C18 for the transformation the executable model runs (`Driver.realT`): no contract hypothesis

`Props/C18.lean` states the theorems for an arbitrary row transformation `t` with `TCfg.Ok`.  `Driver.realT.Ok` is
false as stated (`Props/TransformContract.lean`: a contract gap, the grayscale `Info` with the EMPTY `tRNS`, which
no stream produces); `Driver.realTK` (= `realT` patched on that one shape) satisfies the contract, and the `Reader`
model cannot tell the two apart on a reader whose decoder's `tRNS` has the shape `parse_trns` stores (`KeyInv`).
Exactly as for `C02_no_panic_real` / `C05_resume_complete_real`, the theorems below are the C18 theorems at
`t := realT`:

* theorems about an ARBITRARY reader state `r` (`terminal_absorbing_real`, `poisoned_absorbing_real`,
  `ended_absorbing_real`) keep every hypothesis of the original but `t.Ok`, and carry the shape of `r`'s decoder
  (`KeyInv r.dec`) instead — as `C05_resume_complete_real` does;
* `reachable_states_satisfy_inv_real` shows that every state reached from a NEW decoder satisfies both `Inv realT`
  and `KeyInv`, with no hypothesis about the transformation at all; `terminal_absorbing_reachable_real` and
  `poisoned_absorbing_reachable_real` compose the two: for states a caller can reach, nothing but the hypotheses about the calls is left;
* `finished_absorbing` never needed the contract; `finished_absorbing_real` is its instance, for completeness.
-/
namespace Png.C18
open Png Png.Framing Png.Reader Png.Driver

/-- `TAgree` is symmetric (the invariant `Inv` reads `create` only; needed to come back from `realTK`) -/
theorem realTK_agree : TAgree realTK realT :=
  ⟨rfl, rfl, fun snap f cur row n hs => (realT_agree.apply snap f cur row n hs).symm⟩

/-- **`terminal_absorbing` for `Driver.realT`**: from a terminal state every call leads to a terminal state
    again, returns an error / `None` / an already buffered row / (once, from `finish`) `Ok(())`, never a panic,
    and otherwise moves neither the stream decoder nor the read position.  Hypotheses: those of
    `terminal_absorbing` without `t.Ok`; instead the stored-`tRNS` shape `KeyInv r.dec`. -/
theorem terminal_absorbing_real (cfg : Cfg) (r : R) (op : Op) (hI : Inv realT r) (hk : KeyInv r.dec)
    (hr : r.isReader = true) (hT : Terminal r) (hop : op.isCall = true) :
    Terminal (step cfg realT r op).1 ∧ (step cfg realT r op).2.afterEnd op (r.sub.cur.isSome && r.sub.caf) = true ∧
    ((step cfg realT r op).2 = .done → op = .finish ∧ r.finished = false ∧ r.dec.state ≠ none) ∧
    (op ≠ .finish ∨ r.dec.state = none ∨ r.finished = true →
      (step cfg realT r op).1.dec = r.dec ∧ (step cfg realT r op).1.pos = r.pos) := by
  have h := terminal_absorbing cfg realTK realTK_ok r op (hI.of_agree realT_agree) hr hT hop
  rw [step_agree realT_agree cfg r hk op] at h
  exact h

/-- **`poisoned_absorbing` for `Driver.realT`** (after a fatal error or after `ImageEnd`) -/
theorem poisoned_absorbing_real (cfg : Cfg) (r : R) (op : Op) (hI : Inv realT r) (hk : KeyInv r.dec)
    (hr : r.isReader = true) (hd : r.dec.state = none) (hop : op.isCall = true) :
    (step cfg realT r op).1.dec = r.dec ∧ (step cfg realT r op).1.pos = r.pos ∧
    (step cfg realT r op).1.visible = r.visible ∧
    ((step cfg realT r op).2.isErr = true ∨ (op.isRowCall = true ∧ (step cfg realT r op).2.isRowRes = true) ∨
      (op.isFrameCall = true ∧ r.sub.cur.isSome = true ∧ r.sub.caf = true ∧ (step cfg realT r op).2.isFrame = true)) := by
  have h := poisoned_absorbing cfg realTK realTK_ok r op (hI.of_agree realT_agree) hr hd hop
  rw [step_agree realT_agree cfg r hk op] at h
  exact h

/-- **`ended_absorbing` for `Driver.realT`** (after the last frame, or after a `finish` that failed) -/
theorem ended_absorbing_real (cfg : Cfg) (r : R) (hI : Inv realT r) (hk : KeyInv r.dec) (hr : r.isReader = true)
    (hrem : r.remaining = 0) (hcaf : r.sub.caf = true) :
    (∀ p, (r.sub.cur = none →
        step cfg realT r (.nextFrame p) = ({ r with pendingBuf := none }, .err .parameter "PolledAfterEndOfImage")) ∧
      Still r (step cfg realT r (.nextFrame p)).1 ∧
      ((step cfg realT r (.nextFrame p)).2.isErr = true ∨
        (r.sub.cur.isSome = true ∧ (step cfg realT r (.nextFrame p)).2.isFrame = true))) ∧
    step cfg realT r .nextFrameInfo = ({ r with pendingBuf := none }, .err .parameter "PolledAfterEndOfImage") ∧
    (Still r (step cfg realT r .nextRow).1 ∧ (step cfg realT r .nextRow).2.isRowRes = true) ∧
    (Still r (step cfg realT r .readRow).1 ∧ (step cfg realT r .readRow).2.isRowRes = true) ∧
    ((step cfg realT r .finish).1.remaining = 0 ∧ (step cfg realT r .finish).1.sub.caf = true ∧
      (((step cfg realT r .finish).2 = .done ∧ (step cfg realT r .finish).1.finished = true ∧
          (step cfg realT r .finish).1.dec.state = none ∧ r.finished = false) ∨
        (step cfg realT r .finish).2.isErr = true)) := by
  have h := ended_absorbing cfg realTK realTK_ok r (hI.of_agree realT_agree) hr hrem hcaf
  simp only [step_agree realT_agree cfg r hk] at h
  exact h

/-- **`finished_absorbing` at `Driver.realT`** (the original has no contract hypothesis; this is its instance) -/
theorem finished_absorbing_real (cfg : Cfg) (r : R) (hI : Inv realT r) (hr : r.isReader = true)
    (hfin : r.finished = true) :
    (∀ p, step cfg realT r (.nextFrame p) = ({ r with pendingBuf := none }, .err .parameter "PolledAfterEndOfImage")) ∧
    step cfg realT r .nextFrameInfo = ({ r with pendingBuf := none }, .err .parameter "PolledAfterEndOfImage") ∧
    step cfg realT r .finish = ({ r with pendingBuf := none }, .err .parameter "PolledAfterEndOfImage") ∧
    (step cfg realT r .readRow = ({ r with pendingBuf := none }, .noRow)) ∧
    (Still r (step cfg realT r .nextRow).1 ∧ (step cfg realT r .nextRow).2 = .noRow) :=
  finished_absorbing cfg realT r hI hr hfin

/-- **`reachable_states_satisfy_inv` for `Driver.realT`**: every state reached from a new decoder by calls with at
    most one `read_info` satisfies the protocol invariant AND has the `parse_trns` shape — the two hypotheses of
    the theorems above about `r`.  No hypothesis about the transformation. -/
theorem reachable_states_satisfy_inv_real (cfg : Cfg) (opts : Options) (limit : Nat)
    (flags : Flags) (input : Bytes) (visible : Nat) (ops : List Op) (hlen : input.length < 2 ^ 32)
    (hops : ops.count Op.readInfo ≤ 1)
    (hr : (run cfg realT (R.init opts limit flags input visible) ops).1.isReader = true) :
    Inv realT (run cfg realT (R.init opts limit flags input visible) ops).1 ∧
    KeyInv (run cfg realT (R.init opts limit flags input visible) ops).1.dec := by
  have hk0 := ki_init opts limit flags input visible
  have hag := run_agree realT_agree cfg _ hk0 ops
  have h := reachable_states_satisfy_inv cfg realTK realTK_ok opts limit flags input visible ops hlen hops
    (by rw [hag]; exact hr)
  rw [hag] at h
  exact ⟨h.of_agree realTK_agree, run_ki cfg realT ops _ [] hk0⟩

/-- **the composition**: for every state a caller can reach with `Driver.realT` from a new decoder, terminal
    states are absorbing — only hypotheses about the input length and the calls are left -/
theorem terminal_absorbing_reachable_real (cfg : Cfg) (opts : Options) (limit : Nat) (flags : Flags) (input : Bytes)
    (visible : Nat) (ops : List Op) (op : Op) (hlen : input.length < 2 ^ 32) (hops : ops.count Op.readInfo ≤ 1)
    (hr : (run cfg realT (R.init opts limit flags input visible) ops).1.isReader = true)
    (hT : Terminal (run cfg realT (R.init opts limit flags input visible) ops).1) (hop : op.isCall = true) :
    let r := (run cfg realT (R.init opts limit flags input visible) ops).1
    Terminal (step cfg realT r op).1 ∧ (step cfg realT r op).2.afterEnd op (r.sub.cur.isSome && r.sub.caf) = true ∧
    ((step cfg realT r op).2 = .done → op = .finish ∧ r.finished = false ∧ r.dec.state ≠ none) ∧
    (op ≠ .finish ∨ r.dec.state = none ∨ r.finished = true →
      (step cfg realT r op).1.dec = r.dec ∧ (step cfg realT r op).1.pos = r.pos) := by
  obtain ⟨hI, hk⟩ := reachable_states_satisfy_inv_real cfg opts limit flags input visible ops hlen hops hr
  exact terminal_absorbing_real cfg _ op hI hk hr hT hop

/-- the same composition for a poisoned stream decoder -/
theorem poisoned_absorbing_reachable_real (cfg : Cfg) (opts : Options) (limit : Nat) (flags : Flags) (input : Bytes)
    (visible : Nat) (ops : List Op) (op : Op) (hlen : input.length < 2 ^ 32) (hops : ops.count Op.readInfo ≤ 1)
    (hr : (run cfg realT (R.init opts limit flags input visible) ops).1.isReader = true)
    (hd : (run cfg realT (R.init opts limit flags input visible) ops).1.dec.state = none) (hop : op.isCall = true) :
    let r := (run cfg realT (R.init opts limit flags input visible) ops).1
    (step cfg realT r op).1.dec = r.dec ∧ (step cfg realT r op).1.pos = r.pos ∧
    (step cfg realT r op).1.visible = r.visible ∧
    ((step cfg realT r op).2.isErr = true ∨ (op.isRowCall = true ∧ (step cfg realT r op).2.isRowRes = true) ∨
      (op.isFrameCall = true ∧ r.sub.cur.isSome = true ∧ r.sub.caf = true ∧ (step cfg realT r op).2.isFrame = true)) := by
  obtain ⟨hI, hk⟩ := reachable_states_satisfy_inv_real cfg opts limit flags input visible ops hlen hops hr
  exact poisoned_absorbing_real cfg _ op hI hk hr hd hop

/-! ## Non-vacuity: the three terminal situations on concrete streams, with `Driver.realT` -/

open Png.Reader.Toy Png.Framing.Toy

/-- after the last frame of the toy APNG: `remaining = 0`, flushed, not finished, stream usable -/
example : let r := (run toyCfg realT (a0 apng.length) [.readInfo, .nextFrame 0, .nextFrame 0]).1
    (r.remaining, r.sub.caf, r.finished, r.dec.state.isNone, r.isReader) = (0, true, false, false, true) := by
  decide +kernel

/-- … from where `next_frame`, `next_frame_info`, rows answer `Parameter`/`None` and `finish` succeeds once -/
example : (run toyCfg realT (a0 apng.length)
    [.readInfo, .nextFrame 0, .nextFrame 0, .nextFrame 0, .nextFrameInfo, .nextRow, .readRow, .finish, .finish, .nextRow]).2.map code =
    [1, 101, 101, 12, 12, 3, 3, 5, 12, 3] := by decide +kernel

/-- after a corrupt image-data stream: poisoned; every further call fails with an error -/
example : (run toyCfg realT (R.init {} (2 ^ 64 - 1) {} bad bad.length)
    [.readInfo, .nextRow, .nextRow, .readRow, .nextFrame 0, .nextFrameInfo, .finish, .nextRow, .finish]).2.map code =
    [1, 11, 12, 12, 12, 12, 12, 3, 12] := by decide +kernel

/-- the hypotheses of `terminal_absorbing_real` / `ended_absorbing_real` hold for the state after the last frame -/
example :
    Inv realT (run toyCfg realT (R.init {} (2 ^ 64 - 1) {} apng apng.length) [.readInfo, .nextFrame 0, .nextFrame 0]).1 ∧
    KeyInv (run toyCfg realT (R.init {} (2 ^ 64 - 1) {} apng apng.length) [.readInfo, .nextFrame 0, .nextFrame 0]).1.dec :=
  reachable_states_satisfy_inv_real toyCfg {} (2 ^ 64 - 1) {} apng apng.length [.readInfo, .nextFrame 0, .nextFrame 0]
    (by decide +kernel) (by decide +kernel) (by decide +kernel)

example : Terminal (run toyCfg realT (R.init {} (2 ^ 64 - 1) {} apng apng.length) [.readInfo, .nextFrame 0, .nextFrame 0]).1 :=
  Or.inr (Or.inr (by decide +kernel))

/-- … and for the poisoned state (hypothesis `r.dec.state = none` of `poisoned_absorbing_real`) -/
example : Inv realT (run toyCfg realT (R.init {} (2 ^ 64 - 1) {} bad bad.length) [.readInfo, .nextRow]).1 ∧
    KeyInv (run toyCfg realT (R.init {} (2 ^ 64 - 1) {} bad bad.length) [.readInfo, .nextRow]).1.dec :=
  reachable_states_satisfy_inv_real toyCfg {} (2 ^ 64 - 1) {} bad bad.length [.readInfo, .nextRow]
    (by decide +kernel) (by decide +kernel) (by decide +kernel)

example : (run toyCfg realT (R.init {} (2 ^ 64 - 1) {} bad bad.length) [.readInfo, .nextRow]).1.dec.state = none ∧
    (run toyCfg realT (R.init {} (2 ^ 64 - 1) {} bad bad.length) [.readInfo, .nextRow]).1.isReader = true := by
  decide +kernel

end Png.C18
