import PngVerif.Proofs.ReaderInv
import PngVerif.Proofs.ReaderToy
/-!
# C02 — No input and no call sequence makes the decoder panic

Property theorems only (lemmas: `Proofs/ReaderSeq.lean` for the stream decoder,
`Proofs/ReaderInv.lean` for the `Reader`), about the models `Model/Framing.lean` (`update`) and
`Model/Reader.lean` (`step`, `run`), in which every `assert!`, `unwrap`, `unreachable!`, unchecked
subtraction and slice index of `decoder/mod.rs:189-700`, `read_decoder.rs`, `stream.rs` that a caller
could conceivably reach is an explicit `panic` result.

Parameters (hypotheses, never axioms): `cfg : Cfg` — CRC, inflater, UTF-8 test: ARBITRARY, no
assumption; `t : TCfg` — the row transformation, through its contract `TCfg.Ok` (what `Png.C08`
proves about `Model/Transform.lean`).  The unfiltering buffer, the Adam7 iterator and `expand_pass`
are the models of `Png.C01` / `Png.C15`, used through their theorems.

Domain of `C02_no_panic`:
* every byte string shorter than 4 GiB — `seq_no + 1` (stream.rs:935, 1053) is an overflow-checked
  `u32` addition that an APNG with 2^32 sequence numbers (more than 4·2^32 bytes) would trip;
  `Acct` charges every sequence number to four consumed bytes;
* every option set, limit, transformation flags, every schedule of input growth (`Op.grow`);
* every finite call sequence in which `read_info` occurs at most once: `Decoder::read_info(self)`
  consumes the decoder, so the Rust type system excludes the others (the model answers a second
  `read_info` on a live reader with the artificial result `panic "model: read_info called twice"`,
  see `second_read_info_is_a_model_artifact`).
-/
namespace Png.C02
open Png Png.Framing Png.Reader

/-! ## The stream decoder as the `Reader` uses it -/

/-- **`inSeq_events`**: from a decoder inside a data-chunk sequence (`InSeq`: current chunk `IDAT`/
    `fdAT`; state `ImageData`, the CRC/length/type field between data chunks, or the `fdAT` sequence
    number) `update` leaves `info` alone and returns an error (decoder poisoned), or
    `ImageDataFlushed` — the decoder is then between sequences (`OutSeq`) and no `IDAT` can begin any
    more — or one of `ImageData`, `ChunkComplete`, `ChunkBegin`, `PartialChunk`, `Nothing` with the
    decoder still inside the sequence; never `Header`, `PixelDimensions`, `AnimationControl`,
    `FrameControl`, `ImageEnd` (the `unreachable!` of `decode_image_data`, read_decoder.rs:138) -/
theorem inSeq_events (cfg : Cfg) (d d' : Dec) (buf : Bytes) (res : Except Err (Nat × Ev)) (hI : InSeq d)
    (hu : update cfg d buf = (d', res)) :
    d'.info = d.info ∧
    match res with
    | .error _ => d'.state = none
    | .ok (_, ev) => (ev = .imageDataFlushed ∧ OutSeq d' ∧ d'.readyIdat = false) ∨ (InSeq d' ∧ ev.inSeqOk = true) :=
  update_inSeq hI hu

/-- **between sequences** (`OutSeq`) `update` appends nothing to the caller's `image_data` (the
    `assert!(buf.is_empty())` of read_decoder.rs:79) and keeps `ready_for_idat_chunks`; it returns an
    error, or the `ChunkBegin` of a data chunk — the decoder is then inside a sequence, `info` is
    present (`info().unwrap()`), an `IDAT` needs `ready_for_idat_chunks` and an `fdAT` a stored frame
    control (`frame_control.unwrap()`, mod.rs:355) — or `ImageEnd`, or another event with the decoder
    still between sequences -/
theorem outSeq_events (cfg : Cfg) (d d' : Dec) (buf : Bytes) (res : Except Err (Nat × Ev)) (hD : DInv d) (hO : OutSeq d)
    (hu : update cfg d buf = (d', res)) :
    d'.out = d.out ∧ d'.readyIdat = d.readyIdat ∧
    match res with
    | .error _ => d'.state = none
    | .ok (_, ev) =>
      (∃ len t, ev = .chunkBegin len t ∧ DataType t ∧ InSeq d' ∧ d'.info.isSome ∧
          (t = IDAT → d.readyIdat = true) ∧ (t = fdAT → ∃ i fc, d'.info = some i ∧ i.fctl = some fc)) ∨
      (ev = .imageEnd ∧ d'.state = none) ∨
      (OutSeq d' ∧ ev.outSeqOk = true) :=
  update_outSeq hD hO hu

/-- **`info_some_after_header`**: `update` keeps the decoder invariant `DInv`; `info`, once present,
    stays present and keeps its IHDR fields; `tRNS` is frozen once image data began; a palette never
    changes (`InfoStep`) -/
theorem info_some_after_header (cfg : Cfg) (d d' : Dec) (buf : Bytes) (res : Except Err (Nat × Ev)) (hD : DInv d)
    (hu : update cfg d buf = (d', res)) : DInv d' ∧ InfoStep d d' ∧ (d.info.isSome → d'.info.isSome) :=
  ⟨(update_dinv hD hu).1, (update_dinv hD hu).2, fun h => (update_dinv hD hu).2.isSome h⟩

/-- before the header `update` cannot report `ImageEnd` (the `unreachable!()` of `read_header_info`,
    read_decoder.rs:94) -/
theorem no_end_before_header (cfg : Cfg) (d d' : Dec) (buf : Bytes) (n : Nat) (ev : Ev) (hD : DInv d)
    (hn : d.info = none) (hu : update cfg d buf = (d', .ok (n, ev))) : ev ≠ .imageEnd :=
  (update_noInfo hD hn hu).1

/-- **no panic inside `update`** (`state.take().unwrap()`, `info.as_mut().unwrap()` in the chunk
    parsers, `seq_no + 1`): for a decoder with the invariant after `c` consumed bytes, fewer than 2^32
    bytes in total -/
theorem update_no_panic (cfg : Cfg) (d d' : Dec) (buf : Bytes) (c : Nat) (e : Err) (hD : DInv d) (hA : Acct c d)
    (hc : c + buf.length < 2 ^ 32) (hu : update cfg d buf = (d', .error e)) : ∀ s, e ≠ .panic s :=
  update_acct hD hA hc hu

/-- the decoder `StreamingDecoder::new` creates satisfies the invariant and is between sequences -/
theorem new_decoder (opts : Options) (limit : Nat) :
    DInv ({ opts := opts, limit := limit } : Dec) ∧ OutSeq ({ opts := opts, limit := limit } : Dec) :=
  ⟨dinv_new opts limit, outSeq_new opts limit⟩

/-! ## The `Reader` -/

/-- **`step_inv` and `step_no_panic`**: from a state satisfying the invariant (`RInv`: a `Decoder`
    with `PreInv`, a `Reader` with `Inv`, or nothing after a failed `read_info`), every public call —
    and every growth of the visible input — keeps the invariant and does not panic: neither the
    protocol sites (`assert!(remaining_frames > 0)` mod.rs:460, `assert!(current_interlace_info
    .is_none())` mod.rs:471, `assert!(buf.is_empty())` read_decoder.rs:79, the `unreachable!()`s of
    read_decoder.rs:94/138, `info().unwrap()`, `frame_control.unwrap()` mod.rs:355,
    `get_adam7_info().unwrap()` mod.rs:435, the fuel of every loop) nor the data-path sites
    (`unfilter_curr_row`, `assert_eq!(row.len(), rowlen - 1)`, `create_transform_fn`/`transform_fn`
    under `TCfg.Ok`, `expand_pass`, `chunks_exact_mut(0)`, `output_buffer[..output_line_size]`,
    `BytesPerPixel::from_usize`).  The only proviso: `read_info` is not called on a reader that
    already exists. -/
theorem step_no_panic (cfg : Cfg) (t : TCfg) (ht : t.Ok) (r : R) (op : Op) (hR : RInv t r)
    (hop : op = .readInfo → r.isReader = false) :
    RInv t (step cfg t r op).1 ∧ (step cfg t r op).2.isPanic = false :=
  ⟨(step_spec cfg ht r op hR hop).1, (step_spec cfg ht r op hR hop).2.1⟩

/-- **`step_inv`**: every public call and every growth of the visible input keeps the invariant -/
theorem step_inv (cfg : Cfg) (t : TCfg) (ht : t.Ok) (r : R) (op : Op) (hR : RInv t r)
    (hop : op = .readInfo → r.isReader = false) : RInv t (step cfg t r op).1 :=
  (step_spec cfg ht r op hR hop).1

/-- **`run_no_protocol_panic`** (and the data-path sites): from ANY state satisfying the invariant, no
    call sequence with at most one `read_info` (none if a reader already exists) produces a panic, and
    the invariant holds at the end.  (The contract `TCfg.Ok` is also needed for the protocol sites:
    `finish_decoding`'s assertion after the row loop of `next_frame` relies on every transformed row
    having exactly `output_line_size` bytes.) -/
theorem run_no_protocol_panic (cfg : Cfg) (t : TCfg) (ht : t.Ok) (ops : List Op) (r : R) (hR : RInv t r)
    (hops : OpsOk r.isReader ops) :
    RInv t (run cfg t r ops).1 ∧ ∀ res ∈ (run cfg t r ops).2, res.isPanic = false :=
  run_no_panic cfg ht ops r hR hops

/-- the full statement of C02 on the model (see the header for its domain) -/
def C02_statement : Prop :=
  ∀ (cfg : Cfg) (t : TCfg), t.Ok →
  ∀ (opts : Options) (limit : Nat) (flags : Flags) (input : Bytes) (visible : Nat) (ops : List Op),
    input.length < 2 ^ 32 → ops.count Op.readInfo ≤ 1 →
    ∀ res ∈ (run cfg t (R.init opts limit flags input visible) ops).2, res.isPanic = false

/-- **C02**: for every CRC/inflater/UTF-8 parameter, every row transformation satisfying its contract,
    every input shorter than 4 GiB, every option set, limit, transformation flags, every schedule of
    input growth and every finite sequence of public calls with at most one `read_info`, no call
    returns a panic -/
theorem C02_no_panic : C02_statement := by
  intro cfg t ht opts limit flags input visible ops hlen hops
  exact (run_no_panic cfg ht ops _ (rinv_init t opts limit flags input visible hlen)
    ⟨fun h => (by cases h), hops⟩).2

/-- the invariant also holds at the end of every such run -/
theorem C02_invariant (cfg : Cfg) (t : TCfg) (ht : t.Ok) (opts : Options) (limit : Nat) (flags : Flags)
    (input : Bytes) (visible : Nat) (ops : List Op) (hlen : input.length < 2 ^ 32)
    (hops : ops.count Op.readInfo ≤ 1) :
    RInv t (run cfg t (R.init opts limit flags input visible) ops).1 :=
  (run_no_panic cfg ht ops _ (rinv_init t opts limit flags input visible hlen) ⟨fun h => (by cases h), hops⟩).1

/-! ## Non-vacuity: a concrete transformation satisfying the contract, concrete streams and calls -/

open Png.Reader.Toy Png.Framing.Toy

/-- the contract `TCfg.Ok` is satisfiable: the identity transformation -/
example : idT.Ok := idT_ok

/-- a complete 1×1 image: header, frame, no more rows, finish, then `Parameter` -/
example : (run toyCfg idT (r0 img.length) [.readInfo, .nextFrame 0, .nextRow, .finish, .finish]).2.map code =
    [1, 101, 3, 5, 12] := by decide +kernel

/-- a two-frame APNG through `next_frame` / `next_frame_info` and through rows -/
example : (run toyCfg idT (a0 apng.length)
    [.readInfo, .nextFrame 0, .nextFrameInfo, .nextFrame 0, .nextFrame 0, .nextRow, .finish, .finish, .nextRow]).2.map code =
    [1, 101, 4, 101, 12, 3, 5, 12, 3] := by decide +kernel
example : (run toyCfg idT (a0 apng.length)
    [.readInfo, .nextRow, .nextRow, .nextFrameInfo, .readRow, .readRow, .nextFrameInfo, .finish]).2.map code =
    [1, 201, 3, 4, 201, 3, 12, 5] := by decide +kernel

/-- a slowly growing input: calls fail with `UnexpectedEof` (10) and succeed when retried -/
example : (run toyCfg idT (a0 100)
    [.readInfo, .nextFrame 0, .grow 30, .nextFrame 0, .nextFrameInfo, .grow 20, .nextFrameInfo, .nextFrame 7,
     .grow 1000, .nextFrame 7, .finish]).2.map code = [1, 10, 5, 101, 10, 5, 10, 10, 5, 101, 5] := by decide +kernel

/-- a corrupt image-data stream: `Format` errors, then the poisoned reader keeps answering with errors -/
example : (run toyCfg idT (R.init {} (2 ^ 64 - 1) {} bad bad.length)
    [.readInfo, .nextRow, .nextFrame 0, .nextFrameInfo, .finish]).2.map code = [1, 11, 12, 12, 12] := by decide +kernel

/-- the instances of the theorem for these runs -/
example : ∀ res ∈ (run toyCfg idT (a0 100)
    [.readInfo, .nextFrame 0, .grow 30, .nextFrame 0, .nextFrameInfo, .finish]).2, res.isPanic = false :=
  C02_no_panic toyCfg idT idT_ok {} _ {} apng 100 _ (by decide +kernel) (by decide +kernel)

/-- the hypothesis on `read_info` is needed for the MODEL only: a second `read_info` on a live reader is
    answered with an artificial panic result (99); Rust's `read_info(self)` cannot be called twice -/
theorem second_read_info_is_a_model_artifact :
    (run toyCfg idT (r0 img.length) [.readInfo, .readInfo]).2.map code = [1, 99] := by decide +kernel

end Png.C02
