import PngVerif.Proofs.ReaderResume
import PngVerif.Proofs.ReaderStart
import PngVerif.Proofs.ReaderToy
import PngVerif.Proofs.ReaderErrData
import PngVerif.Proofs.ReaderToyLate
/-!
# C05 — Truncation gives a resumable end-of-input error; resuming completes identically

Property theorems only (lemmas: `Proofs/ReaderSplit.lean` for `update`, `Proofs/ReaderResume.lean`
and `Proofs/ReaderEnd.lean` for the `Reader`), about `Model/Framing.lean` (`update`) and
`Model/Reader.lean`.  The input of the model is a byte string of which a prefix of `visible` bytes
exists so far; `growTo r v` makes `v` bytes visible.

Parameters (hypotheses, never axioms): `cfg : Cfg` with the inflater contract `Cfg.InflateOk`
(prefix-monotone, done-stable — as in C04) where two deliveries are compared; `t : TCfg` with
`TCfg.Ok` and the protocol invariant `Inv` (which holds in every reachable state: `Png.C02`) for the
public calls.

What is proved: (1) end of input changes nothing; (2) `update` on a longer buffer (the
`update`-level core); (3) every loop of `ReadDecoder`/`Reader` is resumable; (4) the public calls
`read_row`, `next_row`/`next_interlaced_row`, `next_frame_info`, `finish`, `read_header_info` are
resumable, and the part of `read_row`, `next_frame_info`, `finish` that runs before the first
`decode_next` is idempotent under retry; (5) `next_frame` and whole runs.  For `next_frame` a row
delivered *before* the input ran out can leave the run on the longer input ahead of the retried run
(its `decode_next` call took more image data at once), and the two unfiltering buffers are then
compacted at different times: the final readers are equal only up to `Sim` — all fields equal except
the unfiltering buffer, which holds the same previous row and pending bytes (`UB.abs`) while a row is
still to be delivered.  `Sim` is preserved by every operation, with equal results (`sim_step`,
`sim_run`); `next_frame_resumable`; every call is monotone in the visible prefix (`call_monotone`);
and `C05_resume`: a caller that retries every call that ran out of input, for any growth schedule, gets
the results of the run that saw the whole input from the start.  Two more hypotheses appear in (5):
`TCfg.Stable` (the output type depends on the IHDR fields and `tRNS` only — the documented size of the
frame buffer is compared across calls), and for whole runs that the calls compared do not fail on the whole
input: the results agree UP TO THE FIRST FAILURE of the run that sees everything (`C05_resume_until_failure`;
`C05_resume` is the case "no failure at all").  The reason is NOT a dropped buffer — a failing `update` has
appended nothing to `image_data`, in the model (`failing_update_appends_no_image_data`,
`decode_next_drops_no_data`) as in the crate (see `Proofs/ReaderErrData.lean` for the reading of
stream.rs / zlib.rs) — but the inflater: `ZlibStream::decompress` returns a corrupt-stream error through `?`
(zlib.rs:100-105) before `transfer_finished_data` (109), so the more compressed input one call gets, the EARLIER a
corrupt stream fails, and rows that a caller with less input had already received are never delivered to the
caller that had everything at once.  Without the hypothesis the statement is false
(`C05_resume_needs_good_run`, a decided counterexample; the same on the crate: a stored-block stream with a
broken third block header gives `[Err, …]` with all bytes available and `[row, row, row, row, eof, Err, …]` from
a prefix).  `read_info(self)` consumes the `Decoder`, so a failed `read_info` cannot be retried: the runs
start from a `Reader` (`C05_resume`), or from a `Decoder` whose `read_info` succeeds on the visible prefix
(`C05_resume_from_start`; `read_info_on_longer_input`).

"The same outcome" is `ResumeEq` / `OpResumeEq`: the two runs return the same result AND the same
reader state — or both fail with the same fatal error (then the poisoned states may differ in how
much of the failing data chunk was consumed, the exemption C04 also makes).
-/
namespace Png.C05
open Png Png.Framing Png.Reader

/-! ## (1) End of input changes nothing -/

/-- **`eof_no_state_change`**: `decode_next` with nothing visible beyond the read position reports
    `UnexpectedEof` and leaves the reader — stream decoder, position, buffers — exactly as it was -/
theorem eof_no_state_change (cfg : Cfg) (r : R) (h : avail r = []) :
    decodeNext' cfg r = (r, .error (.err .eof "UnexpectedEof")) :=
  Reader.eof_no_state_change cfg r h

/-- conversely `UnexpectedEof` is only reported when everything visible was consumed, and then nothing
    changed -/
theorem eof_only_at_end_of_input (cfg : Cfg) (r r' : R) (w : String)
    (h : decodeNext' cfg r = (r', .error (.err .eof w))) : r' = r ∧ avail r = [] :=
  decodeNext'_eof_iff cfg r r' w h

/-- at end of input every loop of `ReadDecoder` returns `UnexpectedEof` with the reader unchanged -/
theorem loops_at_eof (cfg : Cfg) (r : R) (h : avail r = []) (fuel : Nat) :
    (r.dec.info.isSome = false → readHeaderInfo cfg (fuel + 1) r = (r, .error (.err .eof "UnexpectedEof"))) ∧
    rdReadUntilImageData cfg (fuel + 1) r = (r, .error (.err .eof "UnexpectedEof")) ∧
    finishDecodingImageData cfg (fuel + 1) r = (r, .error (.err .eof "UnexpectedEof")) ∧
    readUntilEndOfInput cfg (fuel + 1) r = (r, .error (.err .eof "UnexpectedEof")) :=
  Reader.loops_at_eof cfg r h fuel

/-! ## (2) `update` on a longer buffer -/

/-- **`update cfg d a` versus `update cfg d (a ++ b)`** for a live decoder with nothing pending in
    `image_data` (`PrefixRel`):
    * if the call on `a` failed, the call on `a ++ b` fails with the same error;
    * if the call on `a` stopped before the end of `a`, or at an event other than `Nothing` /
      `ImageData`, the call on `a ++ b` returns exactly the same decoder, count, event, image data;
    * otherwise the call on `a` consumed all of `a` with `Nothing` (no image data) or `ImageData`
      (standing inside the data chunk) and the call on `a ++ b` is that call merged with the
      following call on `b` (`MergedN`): same final decoder, `|a|` more bytes consumed, the second
      call's event, the image data of both calls concatenated. -/
theorem update_on_longer_input (cfg : Cfg) (hI : cfg.InflateOk) (a b : Bytes) (d : Dec) (ha : a ≠ []) (hb : b ≠ [])
    (hs : d.state ≠ none) (hd : d.out = []) : PrefixRel cfg d a b :=
  update_prefix cfg hI a d b ha hb hs hd

/-- the same for `decode_next` of a reader whose visible prefix grows (`GrowRel`) -/
theorem decode_next_on_longer_input (cfg : Cfg) (hI : cfg.InflateOk) (r : R) (v : Nat) (hv : r.visible ≤ v)
    (hpos : r.pos ≤ min r.visible r.input.length) : GrowRel cfg r v :=
  decodeNext'_grow cfg hI r v hv hpos

/-! ## (3) `eof_resumable`: the loops -/

/-- **`eof_resumable`**: each loop of `ReadDecoder` / `Reader` — `read_header_info`,
    `read_until_image_data`, `finish_decoding_image_data`, `read_until_end_of_input`,
    `next_raw_interlaced_row` — run on a visible prefix until it reports `UnexpectedEof` (state `r1`),
    then run again from `r1` after the input grew to `v` bytes, ends with the same final reader and
    the same result as running it once from the original state on the grown input. -/
theorem eof_resumable (cfg : Cfg) (hI : cfg.InflateOk) (r r1 : R) (w : String) (v : Nat)
    (hpos : r.pos ≤ min r.visible r.input.length) (hv : r.visible ≤ v) :
    (readHeaderInfo cfg (fuelOf r) r = (r1, .error (.err .eof w)) →
      ResumeEq (readHeaderInfo cfg (fuelOf (growTo r1 v)) (growTo r1 v)) (readHeaderInfo cfg (fuelOf (growTo r v)) (growTo r v))) ∧
    (rdReadUntilImageData cfg (fuelOf r) r = (r1, .error (.err .eof w)) →
      ResumeEq (rdReadUntilImageData cfg (fuelOf (growTo r1 v)) (growTo r1 v))
        (rdReadUntilImageData cfg (fuelOf (growTo r v)) (growTo r v))) ∧
    (finishDecodingImageData cfg (fuelOf r) r = (r1, .error (.err .eof w)) →
      ResumeEq (finishDecodingImageData cfg (fuelOf (growTo r1 v)) (growTo r1 v))
        (finishDecodingImageData cfg (fuelOf (growTo r v)) (growTo r v))) ∧
    (readUntilEndOfInput cfg (fuelOf r) r = (r1, .error (.err .eof w)) →
      ResumeEq (readUntilEndOfInput cfg (fuelOf (growTo r1 v)) (growTo r1 v))
        (readUntilEndOfInput cfg (fuelOf (growTo r v)) (growTo r v))) ∧
    (∀ rowlen, r.ub.Inv → nextRawRow cfg rowlen (fuelOf r) r = (r1, .error (.err .eof w)) →
      ResumeEq (nextRawRow cfg rowlen (fuelOf (growTo r1 v)) (growTo r1 v))
        (nextRawRow cfg rowlen (fuelOf (growTo r v)) (growTo r v))) :=
  ⟨readHeaderInfo_resumable cfg hI r r1 w v hpos hv, rdReadUntilImageData_resumable cfg hI r r1 w v hpos hv,
   finishDecodingImageData_resumable cfg hI r r1 w v hpos hv, readUntilEndOfInput_resumable cfg hI r r1 w v hpos hv,
   fun rowlen hu => nextRawRow_resumable cfg hI rowlen r r1 w v hpos hu hv⟩

/-- the general form: any loop around `decode_next` whose body satisfies `Body.Ok` is resumable, for
    any sufficient fuel -/
theorem loop_resumable {α : Type} (cfg : Cfg) (hI : cfg.InflateOk) (B : Body α) (I : R → Prop) (hB : B.Ok I)
    (f1 : Nat) (r r1 : R) (w : String) (hpos : PosOk r) (hi : I r)
    (h : gloop cfg B f1 r = (r1, .error (.err .eof w))) (v f2 f3 : Nat) (hv : r.visible ≤ v)
    (h2 : M (growTo r1 v) < f2) (h3 : M (growTo r v) < f3) :
    ResumeEq (gloop cfg B f2 (growTo r1 v)) (gloop cfg B f3 (growTo r v)) :=
  gloop_resume cfg hI B hB f1 r r1 w hpos hi h v f2 f3 hv h2 h3

/-! ## (4) The public calls -/

/-- **`read_row` is resumable**: a `read_row` that ran out of input, repeated after the input grew,
    returns what `read_row` returns on the grown input — the same row (or `None`) and the same
    reader state -/
theorem read_row_resumable (cfg : Cfg) (hI : cfg.InflateOk) (t : TCfg) (ht : t.Ok) (r r1 : R) (bufLen : Nat)
    (i : Info) (w : String) (v : Nat) (hInv : Inv t r) (hi : r.dec.info = some i)
    (hbuf : outLineSize t i r.flags r.sub.width ≤ bufLen) (hv : r.visible ≤ v)
    (h : readRow cfg t r bufLen = (r1, .err .eof w)) :
    OpResumeEq (readRow cfg t (growTo r1 v) bufLen) (readRow cfg t (growTo r v) bufLen) :=
  readRow_resumable cfg hI ht r r1 bufLen i w v hInv hi hbuf hv h

/-- **`next_row` / `next_interlaced_row` is resumable**: the partially filled unfiltering buffer, the
    current Adam7 pass and line, and the frame counters are all carried by the state the failed call
    left -/
theorem next_row_resumable (cfg : Cfg) (hI : cfg.InflateOk) (t : TCfg) (ht : t.Ok) (r r1 : R) (i : Info) (w : String)
    (v : Nat) (hInv : Inv t r) (hi : r.dec.info = some i) (hv : r.visible ≤ v)
    (h : nextInterlacedRow cfg t r = (r1, .err .eof w)) :
    OpResumeEq (nextInterlacedRow cfg t (growTo r1 v)) (nextInterlacedRow cfg t (growTo r v)) :=
  nextInterlacedRow_resumable cfg hI ht r r1 i w v hInv hi hv h

/-- **`next_frame_info` is resumable**: wherever the input ran out — while the rest of the current
    frame was being skipped, or on the way to the next `fcTL`/`fdAT` — repeating the call after the
    input grew ends exactly as the call on the grown input; a frame the failed call already flushed
    is not skipped twice and `remaining_frames` is decremented once -/
theorem next_frame_info_resumable (cfg : Cfg) (hI : cfg.InflateOk) (t : TCfg) (r r1 : R) (w : String) (v : Nat)
    (hInv : Inv t r) (hv : r.visible ≤ v) (h : nextFrameInfo cfg t r = (r1, .err .eof w)) :
    OpResumeEq (nextFrameInfo cfg t (growTo r1 v)) (nextFrameInfo cfg t (growTo r v)) :=
  nextFrameInfo_resumable cfg hI r r1 w v hInv hv h

/-- **`finish` is resumable** -/
theorem finish_resumable (cfg : Cfg) (hI : cfg.InflateOk) (t : TCfg) (r r1 : R) (w : String) (v : Nat) (hInv : Inv t r)
    (hfin : r.finished = false) (hv : r.visible ≤ v) (h : finish cfg r = (r1, .err .eof w)) :
    OpResumeEq (finish cfg (growTo r1 v)) (finish cfg (growTo r v)) :=
  Reader.finish_resumable cfg hI r r1 w v hInv hfin hv h

/-- **`Decoder::read_header_info` is resumable** -/
theorem read_header_info_resumable (cfg : Cfg) (hI : cfg.InflateOk) (t : TCfg) (r r1 : R) (w : String) (v : Nat)
    (hpos : r.pos ≤ min r.visible r.input.length) (hv : r.visible ≤ v)
    (h : step cfg t r .readHeader = (r1, .err .eof w)) :
    step cfg t (growTo r1 v) .readHeader = step cfg t (growTo r v) .readHeader ∨
    ∃ ra rb e, step cfg t (growTo r1 v) .readHeader = (ra, e) ∧ step cfg t (growTo r v) .readHeader = (rb, e) ∧
      ∀ w, e ≠ .err .eof w :=
  readHeader_resumable cfg hI t r r1 w v hpos hv h

/-- **`op_retry_idempotent_prelude`, `read_row`**: after a `read_row` that ran out of input the
    current row is still the same one, and the reset of the previous row that `read_row` performs at
    line 0 is the identity on the state the failed call left -/
theorem retry_prelude_read_row (cfg : Cfg) (t : TCfg) (ht : t.Ok) (r r1 : R) (bufLen : Nat) (i : Info) (ii : IInfo)
    (w : String) (hI : Inv t r) (hi : r.dec.info = some i) (hbuf : outLineSize t i r.flags r.sub.width ≤ bufLen)
    (hcur : r.sub.cur = some ii) (h : readRow cfg t r bufLen = (r1, .err .eof w)) :
    r1.sub.cur = some ii ∧ (if ii.line = 0 then { r1 with ub := r1.ub.resetPrev } else r1) = r1 :=
  readRow_retry cfg ht r r1 bufLen i ii w hI hi hbuf hcur h

/-- **`op_retry_idempotent_prelude`, `next_frame_info`**: the retry starts from the same count of
    remaining frames as the failed call (a frame the failed call already flushed is not counted
    twice), and the rest of the skipped frame stays skipped -/
theorem retry_prelude_next_frame_info (cfg : Cfg) (t : TCfg) (r r1 : R) (w : String) (hI : Inv t r)
    (h : nextFrameInfo cfg t r = (r1, .err .eof w)) :
    rfOf r1 = rfOf r ∧ (r1.sub.caf = false → r1.sub.cur = none) :=
  nextFrameInfo_retry cfg r r1 w hI h

/-- **`op_retry_idempotent_prelude`, `finish`**: `remaining_frames := 0`, the fresh unfiltering buffer
    and the discarded frame are the identity on the state a failed `finish` left -/
theorem retry_prelude_finish (cfg : Cfg) (t : TCfg) (r r1 : R) (e : Reader.Res) (hI : Inv t r) (hfin : r.finished = false)
    (h : finish cfg r = (r1, e)) (he : e.isErr = true) :
    r1.finished = false ∧
    ({ r1 with remaining := 0, ub := UB.new, sub := { r1.sub with cur := none, caf := true } } : R) = r1 :=
  finish_retry cfg r r1 e hI hfin h he

/-! ## (5) `next_frame` and whole runs: equality up to the layout of the unfiltering buffer -/

/-- **`sim_step`**: every operation of the model, from `Sim`-related readers (the first reachable: `RInv`),
    returns the same result and leaves `Sim`-related readers -/
theorem sim_step (cfg : Cfg) (hI : cfg.InflateOk) (t : TCfg) (ht : t.Ok) (a b : R) (hR : RInv t a) (h : Sim a b) (op : Op) :
    (step cfg t a op).2 = (step cfg t b op).2 ∧ Sim (step cfg t a op).1 (step cfg t b op).1 :=
  step_sim cfg hI ht hR h op

/-- **`sim_run`**: whole runs from `Sim`-related readers return the same list of results -/
theorem sim_run (cfg : Cfg) (hI : cfg.InflateOk) (t : TCfg) (ht : t.Ok) (ops : List Op) (a b : R) (hR : RInv t a)
    (h : Sim a b) (hops : OpsOk a.isReader ops) :
    (run cfg t a ops).2 = (run cfg t b ops).2 ∧ Sim (run cfg t a ops).1 (run cfg t b ops).1 :=
  run_sim cfg hI ht ops a b hR h hops

/-- **`next_frame_resumable`**: a `next_frame` that ran out of input (the model keeps the caller's
    buffer, rows delivered so far included, in `pendingBuf`), called again with that buffer after the
    input grew, returns what `next_frame` returns on the grown input from the state before the failed
    call — the same `OutputInfo` and frame, or `UnexpectedEof` again — and leaves a `Sim`-related reader;
    provided the call on the grown input does not fail fatally -/
theorem next_frame_resumable (cfg : Cfg) (hI : cfg.InflateOk) (t : TCfg) (ht : t.Ok) (hst : t.Stable) (r r1 : R)
    (p : UInt8) (w : String) (v : Nat) (hInv : Inv t r) (hv : r.visible ≤ v)
    (h : nextFrameOp cfg t r p = (r1, .err .eof w))
    (hy : (nextFrameOp cfg t (growTo r v) p).2.isFatal = false) :
    (nextFrameOp cfg t (growTo r1 v) p).2 = (nextFrameOp cfg t (growTo r v) p).2 ∧
      Sim (nextFrameOp cfg t (growTo r1 v) p).1 (nextFrameOp cfg t (growTo r v) p).1 :=
  nextFrameOp_resumable cfg hI ht hst r r1 p w v hInv hv h hy

/-- **`call_resumable`**: the same for every call of a `Reader` (`next_frame`, `next_row`, `read_row`,
    `next_frame_info`, `finish`) as an operation of the model -/
theorem call_resumable (cfg : Cfg) (hI : cfg.InflateOk) (t : TCfg) (ht : t.Ok) (hst : t.Stable) (r r1 : R) (op : Op)
    (w : String) (v : Nat) (hInv : Inv t r) (hr : r.isReader = true) (hd : r.dead = false) (hop : op.isCall = true)
    (hv : r.visible ≤ v) (h : step cfg t r op = (r1, .err .eof w))
    (hy : (step cfg t (growTo r v) op).2.isFatal = false) :
    (step cfg t (growTo r1 v) op).2 = (step cfg t (growTo r v) op).2 ∧
      Sim (step cfg t (growTo r1 v) op).1 (step cfg t (growTo r v) op).1 :=
  step_resumable cfg hI ht hst r r1 op w v hInv hr hd hop hv h hy

/-- **`call_monotone`**: `A` sees `v` bytes; `B` sees `L ≥ v` bytes and is `A` after some more
    `decode_image_data` calls (`LagSome`; in particular `B = growTo A L`).  If a call succeeds from `B`,
    then from `A` it runs out of input or returns the same and keeps the readers so related; with
    `v = L` it does not run out of input -/
theorem call_monotone (cfg : Cfg) (hI : cfg.InflateOk) (t : TCfg) (ht : t.Ok) (v L : Nat) (A B : R)
    (hl : LagSome cfg v L A B) (hInv : Inv t A) (hr : A.isReader = true) (hd : A.dead = false) (op : Op)
    (hop : op.isCall = true) (hy : (step cfg t B op).2.isGood = true) :
    (step cfg t A op).2.isFatal = false ∧
    ((step cfg t A op).2.isEof = false → (step cfg t A op).2 = (step cfg t B op).2 ∧
      LagSome cfg v L (step cfg t A op).1 (step cfg t B op).1) ∧
    (v = L → (step cfg t A op).2.isEof = false) :=
  step_mono cfg hI ht hl hInv hr hd op hop hy

/-- **`C05_resume`**: a `Reader` `r0` that sees a prefix of the input; `L` bytes exist in all.  A caller
    makes the calls `ops`; whenever a call runs out of input it waits for the next bytes of an
    arbitrary growth schedule and makes the same call again (`resumeRun`).  If none of the calls fails
    on the reader that sees all `L` bytes from the start (a hypothesis that cannot be dropped:
    `C05_resume_needs_good_run`; runs that do fail are compared up to their first failure by
    `C05_resume_until_failure`), the results of the retrying caller other than
    `UnexpectedEof` are the first results of that run — all of them, in the same order, with the same
    rows and frames, if the schedule delivers all `L` bytes -/
theorem C05_resume (cfg : Cfg) (hI : cfg.InflateOk) (t : TCfg) (ht : t.Ok) (hst : t.Stable) (r0 : R) (hInv : Inv t r0)
    (hr : r0.isReader = true) (hd : r0.dead = false) (L : Nat) (hL : r0.visible ≤ L) (ops : List Op)
    (hc : ∀ op ∈ ops, op.isCall = true) (sched : List Nat)
    (hg : ∀ x ∈ (run cfg t (growTo r0 L) ops).2, x.isGood = true) :
    ∃ zs, (run cfg t (growTo r0 L) ops).2 = resumeRun cfg t L sched ops r0 ++ zs ∧
      (L ≤ r0.visible + sched.sum → zs = []) := by
  apply resumeRun_spec cfg hI ht hst L sched ops r0 (growTo r0 L) ?_ hc hg
  cases ops with
  | nil => exact hL
  | cons op rest => exact Mid.start hInv hr hd ⟨0, rfl, hL, Sim.refl _⟩ op

/-- … in particular, with a schedule that delivers everything, exactly the results of that run -/
theorem C05_resume_complete (cfg : Cfg) (hI : cfg.InflateOk) (t : TCfg) (ht : t.Ok) (hst : t.Stable) (r0 : R)
    (hInv : Inv t r0) (hr : r0.isReader = true) (hd : r0.dead = false) (L : Nat) (hL : r0.visible ≤ L) (ops : List Op)
    (hc : ∀ op ∈ ops, op.isCall = true) (sched : List Nat) (hs : L ≤ r0.visible + sched.sum)
    (hg : ∀ x ∈ (run cfg t (growTo r0 L) ops).2, x.isGood = true) :
    resumeRun cfg t L sched ops r0 = (run cfg t (growTo r0 L) ops).2 := by
  obtain ⟨zs, h1, h2⟩ := C05_resume cfg hI t ht hst r0 hInv hr hd L hL ops hc sched hg
  rw [h1, h2 hs, List.append_nil]

/-- **`read_info_on_longer_input`**: a `read_info` that succeeded on the visible prefix succeeds on every
    longer prefix, with the same `Reader` (only more is visible) -/
theorem read_info_on_longer_input (cfg : Cfg) (hI : cfg.InflateOk) (t : TCfg) (a r0 : R) (L : Nat) (hP : PreInv a)
    (hv : a.visible ≤ L) (h : readInfo cfg t a = (r0, .header)) :
    readInfo cfg t (growTo a L) = (growTo r0 L, .header) :=
  readInfo_stable cfg hI t a r0 L hP hv h

/-- **`C05_resume_from_start`**: a `Decoder` `a` (`PreInv`: in particular a new one, `rinv_init`) that sees a
    prefix of the input on which `read_info` succeeds; the caller then makes the calls `ops`, retrying
    every call that runs out of input (`resumeRun`).  If no call of the run `read_info, ops` on the
    whole input (`L` bytes, all visible from the start) fails, the retrying caller's results other than
    `UnexpectedEof` are the first results of that run, and all of them if the schedule delivers
    everything -/
theorem C05_resume_from_start (cfg : Cfg) (hI : cfg.InflateOk) (t : TCfg) (ht : t.Ok) (hst : t.Stable) (a r0 : R)
    (hP : PreInv a) (hr : a.isReader = false) (hd : a.dead = false) (L : Nat) (hv : a.visible ≤ L)
    (h : step cfg t a .readInfo = (r0, .header)) (ops : List Op) (hc : ∀ op ∈ ops, op.isCall = true) (sched : List Nat)
    (hg : ∀ x ∈ (run cfg t (growTo a L) (.readInfo :: ops)).2, x.isGood = true) :
    ∃ zs, (run cfg t (growTo a L) (.readInfo :: ops)).2 = .header :: (resumeRun cfg t L sched ops r0 ++ zs) ∧
      (L ≤ a.visible + sched.sum → zs = []) :=
  resumeRun_from_start cfg hI ht hst a r0 hP hr hd L hv h ops hc sched hg

/-! ## (6) image data and errors of one call; the hypothesis "no failure" of `C05_resume*` -/

/-- **a failing `update` call has appended nothing to the caller's `image_data`**: for every decoder, input and error.
    (`update` returns after the first `next_state` that reports an event; the two arms that append image data
    report `ImageData` / `ImageDataFlushed` when they succeed and append nothing when they fail.) -/
theorem failing_update_appends_no_image_data (cfg : Cfg) (d d' : Dec) (buf : Bytes) (e : Err)
    (h : update cfg d buf = (d', .error e)) : d'.out = d.out :=
  update_error_out cfg d d' buf e h

/-- where the error of an `update` call is raised: in a poisoned decoder, or in the LAST `next_state` of the call, all
    earlier ones of the same call having reported `Nothing` and appended nothing — image data and an error never come
    from different `next_state` calls of one `update` -/
theorem update_error_site (cfg : Cfg) (d d' : Dec) (buf : Bytes) (st : St) (e : Err) (hs : d.state = some st)
    (h : update cfg d buf = (d', .error e)) :
    ∃ (dl : Dec) (bl : Bytes), dl.out = d.out ∧ d' = { dl with state := none } ∧
      (dl.state = none ∨ ∃ st', dl.state = some st' ∧ nextState cfg dl st' bl = .error e) := by
  unfold update at h
  rw [hs] at h
  exact updateLoop_error_site cfg _ d buf 0 d' e h

/-- **the model's `decode_next` drops no image data when it fails**: the variant that hands over what `update`
    appended to `image_data` ALSO when the call fails (`decodeNextKeep`, what read_decoder.rs:61-72 does) returns the
    same reader and the same result, and no data with an error -/
theorem decode_next_drops_no_data (cfg : Cfg) (r : R) :
    (decodeNextKeep cfg r).1 = (decodeNext' cfg r).1 ∧
    (decodeNextKeep cfg r).2 = (match (decodeNext' cfg r).2 with
      | .ok (ev, data) => (data, .ok ev)
      | .error e => ([], .error e)) :=
  decodeNextKeep_eq cfg r

/-- **`C05_resume` up to the first failure.**  `good` are calls none of which fails or runs out of input on the
    reader that sees all `L` bytes from the start; `more` are ANY further calls (they may fail).  Then
    * the run that sees everything, on `good ++ more`, begins with its results on `good`;
    * these are, up to a tail `zs` that is empty when the schedule delivers all `L` bytes, the results of the retrying
      caller on `good` (`C05_resume`);
    * the retrying caller's results on `good ++ more` begin with its results on `good`.
    With a schedule that delivers everything: BOTH result lists begin with the results of the uninterrupted run up
    to (excluding) its first failure. -/
theorem C05_resume_until_failure (cfg : Cfg) (hI : cfg.InflateOk) (t : TCfg) (ht : t.Ok) (hst : t.Stable) (r0 : R)
    (hInv : Inv t r0) (hr : r0.isReader = true) (hd : r0.dead = false) (L : Nat) (hL : r0.visible ≤ L)
    (good more : List Op) (hc : ∀ op ∈ good, op.isCall = true) (sched : List Nat)
    (hg : ∀ x ∈ (run cfg t (growTo r0 L) good).2, x.isGood = true) :
    ∃ ys zs zs', (run cfg t (growTo r0 L) (good ++ more)).2 = (run cfg t (growTo r0 L) good).2 ++ ys ∧
      (run cfg t (growTo r0 L) good).2 = resumeRun cfg t L sched good r0 ++ zs ∧
      (L ≤ r0.visible + sched.sum → zs = []) ∧
      resumeRun cfg t L sched (good ++ more) r0 = resumeRun cfg t L sched good r0 ++ zs' :=
  resumeRun_until_failure cfg hI ht hst r0 hInv hr hd L hL good more hc sched hg

/-- … from a `Decoder` whose `read_info` succeeds on the visible prefix -/
theorem C05_resume_from_start_until_failure (cfg : Cfg) (hI : cfg.InflateOk) (t : TCfg) (ht : t.Ok) (hst : t.Stable)
    (a r0 : R) (hP : PreInv a) (hr : a.isReader = false) (hd : a.dead = false) (L : Nat) (hv : a.visible ≤ L)
    (h : step cfg t a .readInfo = (r0, .header)) (good more : List Op) (hc : ∀ op ∈ good, op.isCall = true)
    (sched : List Nat) (hg : ∀ x ∈ (run cfg t (growTo a L) (.readInfo :: good)).2, x.isGood = true) :
    ∃ ys zs zs', (run cfg t (growTo a L) (.readInfo :: (good ++ more))).2 =
        (run cfg t (growTo a L) (.readInfo :: good)).2 ++ ys ∧
      (run cfg t (growTo a L) (.readInfo :: good)).2 = .header :: (resumeRun cfg t L sched good r0 ++ zs) ∧
      (L ≤ a.visible + sched.sum → zs = []) ∧
      resumeRun cfg t L sched (good ++ more) r0 = resumeRun cfg t L sched good r0 ++ zs' :=
  resumeRun_from_start_until_failure cfg hI ht hst a r0 hP hr hd L hv h good more hc sched hg

open Png.Reader.Toy Png.Framing.Toy Png.Reader.ToyLate in
/-- the two runs behind `C05_resume_needs_good_run`: a 1×2 image whose data stream is fine for the first row and corrupt
    after it, an inflater that (like a real one) notices when it gets there.  With all 62 bytes visible the first
    `next_row` fails (`Format(CorruptFlateStream)`, then `Parameter`); from the first 44 bytes it delivers row 0, and
    the retried second call fails. -/
theorem late_corruption_runs :
    (run lateCfg idT (growTo lateReader imgLate.length) [.nextRow, .nextRow]).2 =
      [.err .format "CorruptFlateStream", .err .parameter "PolledAfterFatalError"] ∧
    resumeRun lateCfg idT imgLate.length [100] [.nextRow, .nextRow] lateReader =
      [.row (.null 0) [9], .err .format "CorruptFlateStream"] := by decide +kernel

open Png.Reader.Toy Png.Framing.Toy Png.Reader.ToyLate in
/-- **the hypothesis "no call of the run that sees everything fails" of `C05_resume` cannot be dropped**: without it the
    results of the retrying caller need not even be the first results of that run (witness: `late_corruption_runs`; all
    other hypotheses of `C05_resume` hold, the schedule delivers everything) -/
theorem C05_resume_needs_good_run :
    ¬ (∀ (cfg : Cfg), cfg.InflateOk → ∀ (t : TCfg), t.Ok → t.Stable → ∀ (r0 : R), Inv t r0 → r0.isReader = true →
        r0.dead = false → ∀ (L : Nat), r0.visible ≤ L → ∀ (ops : List Op), (∀ op ∈ ops, op.isCall = true) →
        ∀ (sched : List Nat), L ≤ r0.visible + sched.sum →
        ∃ zs, (run cfg t (growTo r0 L) ops).2 = resumeRun cfg t L sched ops r0 ++ zs) := by
  intro h
  have hR := (run_no_panic lateCfg idT_ok [.readInfo] _ (rinv_init idT {} 1000 {} imgLate cut (by decide +kernel))
    ⟨fun h => (by cases h), by decide⟩).1
  have hr : lateReader.isReader = true := by decide +kernel
  have hInv : Inv idT lateReader := by
    rcases hR with ⟨_, h2⟩ | ⟨_, _, h2⟩ | ⟨_, h2, _⟩
    · exact absurd (show lateReader.isReader = false from h2) (by rw [hr]; decide)
    · exact h2
    · exact absurd (show lateReader.isReader = false from h2) (by rw [hr]; decide)
  obtain ⟨zs, hz⟩ := h lateCfg late_inflateOk idT idT_ok idT_stable lateReader hInv hr (by decide +kernel) imgLate.length
    (by decide +kernel) [.nextRow, .nextRow] (by decide) [100] (by decide +kernel)
  rw [late_corruption_runs.1, late_corruption_runs.2] at hz
  cases hz

/-! ## Non-vacuity -/

open Png.Reader.Toy Png.Framing.Toy

/-- the inflater contract is satisfiable (the toy inflater of `Proofs/FramingToy.lean`) -/
example : toyCfg.InflateOk := toy_inflateOk

/-- `afterInfo`: the reader after `read_info` on the first 100 bytes of the toy APNG (one byte of `IDAT`
    data visible); `afterEof`: after a `next_row` that ran out of input -/
example : nextInterlacedRow toyCfg idT afterInfo = (afterEof, .err .eof "UnexpectedEof") := next_row_hits_eof

/-- the failed call consumed the visible byte and kept it: position 99 → 100 -/
example : (afterInfo.pos, afterEof.pos, afterEof.visible) = (99, 100, 100) := by decide +kernel

/-- retried after growth, and on the grown input at once: the same row, the same position -/
example : ((nextInterlacedRow toyCfg idT (growTo afterEof 175)).2, (nextInterlacedRow toyCfg idT (growTo afterEof 175)).1.pos) =
    ((nextInterlacedRow toyCfg idT (growTo afterInfo 175)).2, (nextInterlacedRow toyCfg idT (growTo afterInfo 175)).1.pos) := by
  decide +kernel

/-- the theorem's instance for this run (its hypotheses hold) -/
example : OpResumeEq (nextInterlacedRow toyCfg idT (growTo afterEof 175)) (nextInterlacedRow toyCfg idT (growTo afterInfo 175)) := by
  have hR := (run_no_panic toyCfg idT_ok [.readInfo] _ (rinv_init idT {} (2 ^ 64 - 1) {} apng 100 (by decide +kernel))
    ⟨fun h => (by cases h), by decide⟩).1
  have hInv : Inv idT afterInfo := by
    rcases hR with ⟨h, _⟩ | ⟨_, _, h⟩ | ⟨_, h, _⟩
    · exact absurd h (by decide +kernel)
    · exact h
    · exact absurd h (by decide +kernel)
  obtain ⟨i, hi, _⟩ := hInv.info
  exact next_row_resumable toyCfg toy_inflateOk idT idT_ok afterInfo afterEof i _ 175 hInv hi (by decide +kernel)
    next_row_hits_eof

/-- a whole schedule: byte-by-byte growth with retries ends like the one-shot run -/
example : (run toyCfg idT (a0 99)
    [.readInfo, .nextRow, .grow 1, .nextRow, .grow 1, .nextRow, .grow 1, .nextRow, .nextRow, .grow 1000, .nextFrameInfo, .nextRow, .finish]).2.map code =
    [1, 10, 5, 10, 5, 10, 5, 201, 10, 5, 4, 201, 5] := by decide +kernel
example : (run toyCfg idT (a0 apng.length) [.readInfo, .nextRow, .nextRow, .nextFrameInfo, .nextRow, .finish]).2.map code =
    [1, 201, 3, 4, 201, 5] := by decide +kernel

/-! ### (5) -/

/-- the contract `TCfg.Stable` is satisfiable (the identity transformation) -/
example : idT.Stable := by
  intro i j f hc _
  simp only [Info.core, Prod.mk.injEq] at hc
  show (j.color, j.depth) = (i.color, i.depth)
  rw [hc.2.2.2.1, hc.2.2.1]

/-- `next_frame` on `afterInfo` (one byte of the first frame's data visible) runs out of input -/
example : (step toyCfg idT afterInfo (.nextFrame 7)).2 = .err .eof "UnexpectedEof" := by decide +kernel

/-- the retrying caller on the toy APNG, the input arriving as 1 + 1 + the rest: `next_frame` runs out of
    input twice; and the same calls with everything visible -/
example : (resumeRun toyCfg idT apng.length [1, 1, 1000] [.nextFrame 7, .nextFrameInfo, .nextFrame 7, .finish] afterInfo).map code =
    [101, 4, 101, 5] := by decide +kernel
example : ((run toyCfg idT (growTo afterInfo apng.length) [.nextFrame 7, .nextFrameInfo, .nextFrame 7, .finish]).2).map code =
    [101, 4, 101, 5] := by decide +kernel

/-- the theorem's instance for this run (its hypotheses hold): the same results, frames included -/
example : resumeRun toyCfg idT apng.length [1, 1, 1000] [.nextFrame 7, .nextFrameInfo, .nextFrame 7, .finish] afterInfo =
    (run toyCfg idT (growTo afterInfo apng.length) [.nextFrame 7, .nextFrameInfo, .nextFrame 7, .finish]).2 := by
  have hR := (run_no_panic toyCfg idT_ok [.readInfo] _ (rinv_init idT {} (2 ^ 64 - 1) {} apng 100 (by decide +kernel))
    ⟨fun h => (by cases h), by decide⟩).1
  have hInv : Inv idT afterInfo := by
    rcases hR with ⟨h, _⟩ | ⟨_, _, h⟩ | ⟨_, h, _⟩
    · exact absurd h (by decide +kernel)
    · exact h
    · exact absurd h (by decide +kernel)
  have hst : idT.Stable := by
    intro i j f hc _
    simp only [Info.core, Prod.mk.injEq] at hc
    show (j.color, j.depth) = (i.color, i.depth)
    rw [hc.2.2.2.1, hc.2.2.1]
  exact C05_resume_complete toyCfg toy_inflateOk idT idT_ok hst afterInfo hInv (by decide +kernel) (by decide +kernel)
    apng.length (by decide +kernel) _ (by decide) [1, 1, 1000] (by decide +kernel) (by decide +kernel)

/-- `C05_resume_until_failure` on the same run followed by a call that FAILS (`next_frame` after `finish`:
    `Parameter`): the hypothesis holds for the four good calls, the fifth result of the run that sees everything is a
    failure (so `C05_resume` does not apply to the five calls), and both result lists begin with the four good results -/
example : (∀ x ∈ (run toyCfg idT (growTo afterInfo apng.length) [.nextFrame 7, .nextFrameInfo, .nextFrame 7, .finish]).2,
      x.isGood = true) ∧
    ((run toyCfg idT (growTo afterInfo apng.length)
      ([.nextFrame 7, .nextFrameInfo, .nextFrame 7, .finish] ++ [.nextFrame 7])).2).map code = [101, 4, 101, 5, 12] ∧
    (resumeRun toyCfg idT apng.length [1, 1, 1000] ([.nextFrame 7, .nextFrameInfo, .nextFrame 7, .finish] ++ [.nextFrame 7])
      afterInfo).map code = [101, 4, 101, 5, 12] := by decide +kernel

/-- from the `Decoder`: `read_info` on the first 100 bytes, then the retrying caller; and the run on the
    whole input -/
example : (step toyCfg idT (a0 100) .readInfo).2 = .header := by decide +kernel
example : ((run toyCfg idT (growTo (a0 100) apng.length) [.readInfo, .nextFrame 7, .nextFrameInfo, .nextFrame 7, .finish]).2).map code =
    1 :: (resumeRun toyCfg idT apng.length [1, 1, 1000] [.nextFrame 7, .nextFrameInfo, .nextFrame 7, .finish]
      (step toyCfg idT (a0 100) .readInfo).1).map code := by decide +kernel

end Png.C05
