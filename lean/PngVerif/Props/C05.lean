import PngVerif.Proofs.ReaderResume
import PngVerif.Proofs.ReaderToy
/-!
# C05 — Truncation gives a resumable end-of-input error; resuming completes identically

Property theorems only (lemmas: `Proofs/ReaderSplit.lean` for `update`, `Proofs/ReaderResume.lean`
and `Proofs/ReaderEnd.lean` for the `Reader`), about `Model/Framing.lean` (`update`) and
`Model/Reader.lean`.  The input of the model is a byte string of which a prefix of `visible` bytes
exists so far; `growTo r v` makes `v` bytes visible.

Parameters (hypotheses, never axioms): `cfg : Cfg` with the inflater contract `Cfg.InflateOk`
(prefix-monotone, done-stable — as in C04) where two deliveries are compared; `t : TCfg` with
`TCfg.Ok` and the protocol invariant `Inv` (which holds in every reachable state: `Png.C02`) for the
public calls.

What is proved: (1) end of input changes nothing; (2) `update` on a longer buffer (the
`update`-level core); (3) every loop of `ReadDecoder`/`Reader` is resumable; (4) the public calls
`read_row`, `next_row`/`next_interlaced_row`, `next_frame_info`, `finish`, `read_header_info` are
resumable, and the part of `read_row`, `next_frame_info`, `finish` that runs before the first
`decode_next` is idempotent under retry.  NOT proved here: resumability of `next_frame` as a whole
call.  Its loops are covered by (3), but a row delivered *before* the input ran out can leave the
run on the longer input ahead of the retried run (its `decode_next` call took more image data at
once), and the two unfiltering buffers are then compacted at different times: the final readers are
equal only up to the abstraction `UB.abs` (previous row, pending bytes), not as states, so the
statement needs a simulation relation instead of the state equality used here.  For the same reason
the theorems compare ONE retried call with the same call on the grown input, from the same state.

"The same outcome" is `ResumeEq` / `OpResumeEq`: the two runs return the same result AND the same
reader state — or both fail with the same fatal error (then the poisoned states may differ in how
much of the failing data chunk was consumed, the exemption C04 also makes).
-/
namespace Png.C05
open Png Png.Framing Png.Reader

/-! ## (1) End of input changes nothing -/

/-- **`eof_no_state_change`**: `decode_next` with nothing visible beyond the read position reports
    `UnexpectedEof` and leaves the reader — stream decoder, position, buffers — exactly as it was -/
theorem eof_no_state_change (cfg : Cfg) (r : R) (h : avail r = []) :
    decodeNext' cfg r = (r, .error (.err .eof "UnexpectedEof")) :=
  Reader.eof_no_state_change cfg r h

/-- conversely `UnexpectedEof` is only reported when everything visible was consumed, and then nothing
    changed -/
theorem eof_only_at_end_of_input (cfg : Cfg) (r r' : R) (w : String)
    (h : decodeNext' cfg r = (r', .error (.err .eof w))) : r' = r ∧ avail r = [] :=
  decodeNext'_eof_iff cfg r r' w h

/-- at end of input every loop of `ReadDecoder` returns `UnexpectedEof` with the reader unchanged -/
theorem loops_at_eof (cfg : Cfg) (r : R) (h : avail r = []) (fuel : Nat) :
    (r.dec.info.isSome = false → readHeaderInfo cfg (fuel + 1) r = (r, .error (.err .eof "UnexpectedEof"))) ∧
    rdReadUntilImageData cfg (fuel + 1) r = (r, .error (.err .eof "UnexpectedEof")) ∧
    finishDecodingImageData cfg (fuel + 1) r = (r, .error (.err .eof "UnexpectedEof")) ∧
    readUntilEndOfInput cfg (fuel + 1) r = (r, .error (.err .eof "UnexpectedEof")) :=
  Reader.loops_at_eof cfg r h fuel

/-! ## (2) `update` on a longer buffer -/

/-- **`update cfg d a` versus `update cfg d (a ++ b)`** for a live decoder with nothing pending in
    `image_data` (`PrefixRel`):
    * if the call on `a` failed, the call on `a ++ b` fails with the same error;
    * if the call on `a` stopped before the end of `a`, or at an event other than `Nothing` /
      `ImageData`, the call on `a ++ b` returns exactly the same decoder, count, event, image data;
    * otherwise the call on `a` consumed all of `a` with `Nothing` (no image data) or `ImageData`
      (standing inside the data chunk) and the call on `a ++ b` is that call merged with the
      following call on `b` (`MergedN`): same final decoder, `|a|` more bytes consumed, the second
      call's event, the image data of both calls concatenated. -/
theorem update_on_longer_input (cfg : Cfg) (hI : cfg.InflateOk) (a b : Bytes) (d : Dec) (ha : a ≠ []) (hb : b ≠ [])
    (hs : d.state ≠ none) (hd : d.out = []) : PrefixRel cfg d a b :=
  update_prefix cfg hI a d b ha hb hs hd

/-- the same for `decode_next` of a reader whose visible prefix grows (`GrowRel`) -/
theorem decode_next_on_longer_input (cfg : Cfg) (hI : cfg.InflateOk) (r : R) (v : Nat) (hv : r.visible ≤ v)
    (hpos : r.pos ≤ min r.visible r.input.length) : GrowRel cfg r v :=
  decodeNext'_grow cfg hI r v hv hpos

/-! ## (3) `eof_resumable`: the loops -/

/-- **`eof_resumable`**: each loop of `ReadDecoder` / `Reader` — `read_header_info`,
    `read_until_image_data`, `finish_decoding_image_data`, `read_until_end_of_input`,
    `next_raw_interlaced_row` — run on a visible prefix until it reports `UnexpectedEof` (state `r1`),
    then run again from `r1` after the input grew to `v` bytes, ends with the same final reader and
    the same result as running it once from the original state on the grown input. -/
theorem eof_resumable (cfg : Cfg) (hI : cfg.InflateOk) (r r1 : R) (w : String) (v : Nat)
    (hpos : r.pos ≤ min r.visible r.input.length) (hv : r.visible ≤ v) :
    (readHeaderInfo cfg (fuelOf r) r = (r1, .error (.err .eof w)) →
      ResumeEq (readHeaderInfo cfg (fuelOf (growTo r1 v)) (growTo r1 v)) (readHeaderInfo cfg (fuelOf (growTo r v)) (growTo r v))) ∧
    (rdReadUntilImageData cfg (fuelOf r) r = (r1, .error (.err .eof w)) →
      ResumeEq (rdReadUntilImageData cfg (fuelOf (growTo r1 v)) (growTo r1 v))
        (rdReadUntilImageData cfg (fuelOf (growTo r v)) (growTo r v))) ∧
    (finishDecodingImageData cfg (fuelOf r) r = (r1, .error (.err .eof w)) →
      ResumeEq (finishDecodingImageData cfg (fuelOf (growTo r1 v)) (growTo r1 v))
        (finishDecodingImageData cfg (fuelOf (growTo r v)) (growTo r v))) ∧
    (readUntilEndOfInput cfg (fuelOf r) r = (r1, .error (.err .eof w)) →
      ResumeEq (readUntilEndOfInput cfg (fuelOf (growTo r1 v)) (growTo r1 v))
        (readUntilEndOfInput cfg (fuelOf (growTo r v)) (growTo r v))) ∧
    (∀ rowlen, r.ub.Inv → nextRawRow cfg rowlen (fuelOf r) r = (r1, .error (.err .eof w)) →
      ResumeEq (nextRawRow cfg rowlen (fuelOf (growTo r1 v)) (growTo r1 v))
        (nextRawRow cfg rowlen (fuelOf (growTo r v)) (growTo r v))) :=
  ⟨readHeaderInfo_resumable cfg hI r r1 w v hpos hv, rdReadUntilImageData_resumable cfg hI r r1 w v hpos hv,
   finishDecodingImageData_resumable cfg hI r r1 w v hpos hv, readUntilEndOfInput_resumable cfg hI r r1 w v hpos hv,
   fun rowlen hu => nextRawRow_resumable cfg hI rowlen r r1 w v hpos hu hv⟩

/-- the general form: any loop around `decode_next` whose body satisfies `Body.Ok` is resumable, for
    any sufficient fuel -/
theorem loop_resumable {α : Type} (cfg : Cfg) (hI : cfg.InflateOk) (B : Body α) (I : R → Prop) (hB : B.Ok I)
    (f1 : Nat) (r r1 : R) (w : String) (hpos : PosOk r) (hi : I r)
    (h : gloop cfg B f1 r = (r1, .error (.err .eof w))) (v f2 f3 : Nat) (hv : r.visible ≤ v)
    (h2 : M (growTo r1 v) < f2) (h3 : M (growTo r v) < f3) :
    ResumeEq (gloop cfg B f2 (growTo r1 v)) (gloop cfg B f3 (growTo r v)) :=
  gloop_resume cfg hI B hB f1 r r1 w hpos hi h v f2 f3 hv h2 h3

/-! ## (4) The public calls -/

/-- **`read_row` is resumable**: a `read_row` that ran out of input, repeated after the input grew,
    returns what `read_row` returns on the grown input — the same row (or `None`) and the same
    reader state -/
theorem read_row_resumable (cfg : Cfg) (hI : cfg.InflateOk) (t : TCfg) (ht : t.Ok) (r r1 : R) (bufLen : Nat)
    (i : Info) (w : String) (v : Nat) (hInv : Inv t r) (hi : r.dec.info = some i)
    (hbuf : outLineSize t i r.flags r.sub.width ≤ bufLen) (hv : r.visible ≤ v)
    (h : readRow cfg t r bufLen = (r1, .err .eof w)) :
    OpResumeEq (readRow cfg t (growTo r1 v) bufLen) (readRow cfg t (growTo r v) bufLen) :=
  readRow_resumable cfg hI ht r r1 bufLen i w v hInv hi hbuf hv h

/-- **`next_row` / `next_interlaced_row` is resumable**: the partially filled unfiltering buffer, the
    current Adam7 pass and line, and the frame counters are all carried by the state the failed call
    left -/
theorem next_row_resumable (cfg : Cfg) (hI : cfg.InflateOk) (t : TCfg) (ht : t.Ok) (r r1 : R) (i : Info) (w : String)
    (v : Nat) (hInv : Inv t r) (hi : r.dec.info = some i) (hv : r.visible ≤ v)
    (h : nextInterlacedRow cfg t r = (r1, .err .eof w)) :
    OpResumeEq (nextInterlacedRow cfg t (growTo r1 v)) (nextInterlacedRow cfg t (growTo r v)) :=
  nextInterlacedRow_resumable cfg hI ht r r1 i w v hInv hi hv h

/-- **`next_frame_info` is resumable**: wherever the input ran out — while the rest of the current
    frame was being skipped, or on the way to the next `fcTL`/`fdAT` — repeating the call after the
    input grew ends exactly as the call on the grown input; a frame the failed call already flushed
    is not skipped twice and `remaining_frames` is decremented once -/
theorem next_frame_info_resumable (cfg : Cfg) (hI : cfg.InflateOk) (t : TCfg) (r r1 : R) (w : String) (v : Nat)
    (hInv : Inv t r) (hv : r.visible ≤ v) (h : nextFrameInfo cfg t r = (r1, .err .eof w)) :
    OpResumeEq (nextFrameInfo cfg t (growTo r1 v)) (nextFrameInfo cfg t (growTo r v)) :=
  nextFrameInfo_resumable cfg hI r r1 w v hInv hv h

/-- **`finish` is resumable** -/
theorem finish_resumable (cfg : Cfg) (hI : cfg.InflateOk) (t : TCfg) (r r1 : R) (w : String) (v : Nat) (hInv : Inv t r)
    (hfin : r.finished = false) (hv : r.visible ≤ v) (h : finish cfg r = (r1, .err .eof w)) :
    OpResumeEq (finish cfg (growTo r1 v)) (finish cfg (growTo r v)) :=
  Reader.finish_resumable cfg hI r r1 w v hInv hfin hv h

/-- **`Decoder::read_header_info` is resumable** -/
theorem read_header_info_resumable (cfg : Cfg) (hI : cfg.InflateOk) (t : TCfg) (r r1 : R) (w : String) (v : Nat)
    (hpos : r.pos ≤ min r.visible r.input.length) (hv : r.visible ≤ v)
    (h : step cfg t r .readHeader = (r1, .err .eof w)) :
    step cfg t (growTo r1 v) .readHeader = step cfg t (growTo r v) .readHeader ∨
    ∃ ra rb e, step cfg t (growTo r1 v) .readHeader = (ra, e) ∧ step cfg t (growTo r v) .readHeader = (rb, e) ∧
      ∀ w, e ≠ .err .eof w :=
  readHeader_resumable cfg hI t r r1 w v hpos hv h

/-- **`op_retry_idempotent_prelude`, `read_row`**: after a `read_row` that ran out of input the
    current row is still the same one, and the reset of the previous row that `read_row` performs at
    line 0 is the identity on the state the failed call left -/
theorem retry_prelude_read_row (cfg : Cfg) (t : TCfg) (ht : t.Ok) (r r1 : R) (bufLen : Nat) (i : Info) (ii : IInfo)
    (w : String) (hI : Inv t r) (hi : r.dec.info = some i) (hbuf : outLineSize t i r.flags r.sub.width ≤ bufLen)
    (hcur : r.sub.cur = some ii) (h : readRow cfg t r bufLen = (r1, .err .eof w)) :
    r1.sub.cur = some ii ∧ (if ii.line = 0 then { r1 with ub := r1.ub.resetPrev } else r1) = r1 :=
  readRow_retry cfg ht r r1 bufLen i ii w hI hi hbuf hcur h

/-- **`op_retry_idempotent_prelude`, `next_frame_info`**: the retry starts from the same count of
    remaining frames as the failed call (a frame the failed call already flushed is not counted
    twice), and the rest of the skipped frame stays skipped -/
theorem retry_prelude_next_frame_info (cfg : Cfg) (t : TCfg) (r r1 : R) (w : String) (hI : Inv t r)
    (h : nextFrameInfo cfg t r = (r1, .err .eof w)) :
    rfOf r1 = rfOf r ∧ (r1.sub.caf = false → r1.sub.cur = none) :=
  nextFrameInfo_retry cfg r r1 w hI h

/-- **`op_retry_idempotent_prelude`, `finish`**: `remaining_frames := 0`, the fresh unfiltering buffer
    and the discarded frame are the identity on the state a failed `finish` left -/
theorem retry_prelude_finish (cfg : Cfg) (t : TCfg) (r r1 : R) (e : Reader.Res) (hI : Inv t r) (hfin : r.finished = false)
    (h : finish cfg r = (r1, e)) (he : e.isErr = true) :
    r1.finished = false ∧
    ({ r1 with remaining := 0, ub := UB.new, sub := { r1.sub with cur := none, caf := true } } : R) = r1 :=
  finish_retry cfg r r1 e hI hfin h he

/-! ## Non-vacuity -/

open Png.Reader.Toy Png.Framing.Toy

/-- the inflater contract is satisfiable (the toy inflater of `Proofs/FramingToy.lean`) -/
example : toyCfg.InflateOk := toy_inflateOk

/-- `afterInfo`: the reader after `read_info` on the first 100 bytes of the toy APNG (one byte of `IDAT`
    data visible); `afterEof`: after a `next_row` that ran out of input -/
example : nextInterlacedRow toyCfg idT afterInfo = (afterEof, .err .eof "UnexpectedEof") := next_row_hits_eof

/-- the failed call consumed the visible byte and kept it: position 99 → 100 -/
example : (afterInfo.pos, afterEof.pos, afterEof.visible) = (99, 100, 100) := by decide +kernel

/-- retried after growth, and on the grown input at once: the same row, the same position -/
example : ((nextInterlacedRow toyCfg idT (growTo afterEof 175)).2, (nextInterlacedRow toyCfg idT (growTo afterEof 175)).1.pos) =
    ((nextInterlacedRow toyCfg idT (growTo afterInfo 175)).2, (nextInterlacedRow toyCfg idT (growTo afterInfo 175)).1.pos) := by
  decide +kernel

/-- the theorem's instance for this run (its hypotheses hold) -/
example : OpResumeEq (nextInterlacedRow toyCfg idT (growTo afterEof 175)) (nextInterlacedRow toyCfg idT (growTo afterInfo 175)) := by
  have hR := (run_no_panic toyCfg idT_ok [.readInfo] _ (rinv_init idT {} (2 ^ 64 - 1) {} apng 100 (by decide +kernel))
    ⟨fun h => (by cases h), by decide⟩).1
  have hInv : Inv idT afterInfo := by
    rcases hR with ⟨h, _⟩ | ⟨_, _, h⟩ | ⟨_, h, _⟩
    · exact absurd h (by decide +kernel)
    · exact h
    · exact absurd h (by decide +kernel)
  obtain ⟨i, hi, _⟩ := hInv.info
  exact next_row_resumable toyCfg toy_inflateOk idT idT_ok afterInfo afterEof i _ 175 hInv hi (by decide +kernel)
    next_row_hits_eof

/-- a whole schedule: byte-by-byte growth with retries ends like the one-shot run -/
example : (run toyCfg idT (a0 99)
    [.readInfo, .nextRow, .grow 1, .nextRow, .grow 1, .nextRow, .grow 1, .nextRow, .nextRow, .grow 1000, .nextFrameInfo, .nextRow, .finish]).2.map code =
    [1, 10, 5, 10, 5, 10, 5, 201, 10, 5, 4, 201, 5] := by decide +kernel
example : (run toyCfg idT (a0 apng.length) [.readInfo, .nextRow, .nextRow, .nextFrameInfo, .nextRow, .finish]).2.map code =
    [1, 201, 3, 4, 201, 5] := by decide +kernel

end Png.C05
