import PngVerif.Proofs.ComposeDecode
import PngVerif.Proofs.ComposeAnc
import PngVerif.Proofs.ComposeAncBig
import PngVerif.Proofs.ComposeRows
import PngVerif.Proofs.ComposeL1
import PngVerif.Proofs.ComposeSpec
import PngVerif.Proofs.ComposeRealT
import PngVerif.Proofs.ReaderToy
/-!
# C01 — Decoded pixels equal the PNG specification's reconstruction: the end-to-end composition

Specification side: `Model/WellFormed.lean` (byte layout of a well-formed datastream, scanline geometry, reverse
filtering with the specification's `reconRow`, de-interlacing with the specification's `Adam7.deinterlace`).
Implementation side: the models of `StreamingDecoder` (`Model/Framing.lean`), `Decoder` / `Reader` / `ReadDecoder`
(`Model/Reader.lean`), `UnfilteringBuffer` (`Model/Unfiltering.lean`), `unfilter` (`Model/Filter.lean`) and
`expand_pass` (`Model/Adam7.lean`).

Layers (all in `Proofs/Compose*.lean`):
* L1 `Framing.ihdr_trace`, `Framing.anc_chunks`, `Framing.idat_sequence_trace`: the events and the image data the
  stream decoder reports call by call on a well-formed chunk sequence;
* L2 `Reader.readInfo_wf`, `Reader.frameInto_trace` (through `nextRawRow_trace`, `frameRows_trace`,
  `frameInterlaced_trace`, `finishDecoding_trace`): what the `Reader` makes of them;
* `C01_decode` = L1 ∘ L2.

Parameters outside image-png, used through their contracts only: the inflater (`Cfg.InflateOk`: eager,
prefix-monotone, done-stable), the CRC function (`Cfg.CrcOk`: 32-bit values) and the row transformation
(`TCfg.IsIdentity`: with no transformation flag set it copies the row).
-/
namespace Png.C01
open Png Png.Framing Png.Reader Png.WellFormed

/-- **C01, full statement.**  For every inflater and CRC function satisfying their contracts, every identity row
    transformation, all decoder options and limits, every valid header `h` (each of the fifteen colour type / bit
    depth pairs, both interlace methods, all widths and heights `1 ≤ · < 2^32`), every byte string `anc` of chunks
    between `IHDR` and the image data that the stream decoder reads without image data / `ImageEnd` / the begin of a
    data chunk and that leave it between two chunks with the header's fields and no frame control (`AncTrace`,
    `Idle`; `ancillary_chunks_ok` shows that any sequence of chunks accepted by `parse_chunk` qualifies), every cut
    `zs ≠ []` of a zlib stream into `IDAT` chunks (empty chunks included) whose inflated stream `raw` consists of the
    header's scanlines with filter types `≤ 4` (`RawOk`: every filter assignment), any chunks `post` behind the
    image data, `IEND`:

    if the image passes the two size checks of the decoder — `line_size · height < 2^64` (`read_info`, mod.rs:215)
    and `line_size ≤` the limit left after the chunks before `IDAT` (`read_until_image_data`, mod.rs:369) — then
    `read_info` succeeds and `next_frame`, into a buffer of `output_buffer_size()` bytes pre-filled with any byte `p`,
    succeeds, reports the header's geometry (width, height, colour type, bit depth, line size) and leaves exactly
    `specPixels h raw` in the buffer, which has the header's `line_size · height` bytes. -/
def C01_decode_statement : Prop :=
  ∀ (cfg : Cfg) (t : TCfg) (f : Flags) (opts : Options) (limit : Nat) (h : Header) (anc : Bytes) (dA : Dec)
    (zs : List Bytes) (raw : Bytes) (post : List (ChunkType × Bytes)) (p : UInt8),
    cfg.InflateOk → cfg.CrcOk → t.IsIdentity f → h.Valid →
    AncTrace cfg (afterIhdr cfg opts limit h) anc dA → Idle dA h.info.core →
    zs ≠ [] → (∀ z ∈ zs, z.length < 2 ^ 32) → cfg.inflate zs.flatten = some (raw, true) → RawOk h raw →
    (∀ c ∈ post, c.1 ≠ IDAT ∧ c.1 < 2 ^ 32 ∧ c.2.length < 2 ^ 32) →
    h.lineSize * h.height < 2 ^ 64 → h.lineSize ≤ dA.limit →
    ∃ buf,
      (Reader.run cfg t
        (R.init opts limit f
          (signature ++ chunk cfg IHDR h.body ++ anc ++ idats cfg zs ++ chunks cfg post ++ chunk cfg IEND [])
          (signature ++ chunk cfg IHDR h.body ++ anc ++ idats cfg zs ++ chunks cfg post ++ chunk cfg IEND []).length)
        [.readInfo, .nextFrame p]).2 =
        [.header, .frame { width := h.width, height := h.height, color := h.color, depth := h.depth,
                           lineSize := h.lineSize } buf] ∧
      specPixels h raw (List.replicate h.bufferSize p) = some buf ∧ buf.length = h.bufferSize

/-- what follows the image data begins with the length and the type (not `IDAT`) of a chunk -/
theorem tail_shape (cfg : Cfg) (post : List (ChunkType × Bytes))
    (hpost : ∀ c ∈ post, c.1 ≠ IDAT ∧ c.1 < 2 ^ 32 ∧ c.2.length < 2 ^ 32) :
    ∃ len' t' rest', chunks cfg post ++ chunk cfg IEND [] = be32Bytes len' ++ typeBytes t' ++ rest' ∧
      len' < 2 ^ 32 ∧ t' < 2 ^ 32 ∧ t' ≠ IDAT := by
  cases post with
  | nil =>
    refine ⟨0, IEND, [] ++ (be32Bytes (cfg.crc (typeBytes IEND ++ [])) ++ []), ?_, by decide, IEND_lt,
      fun h => IDAT_ne_IEND' h.symm⟩
    simp only [chunks, List.map_nil, List.flatten_nil, List.nil_append]
    have := chunk_append cfg IEND [] []
    simpa using this
  | cons c post =>
    obtain ⟨h1, h2, h3⟩ := hpost c (by simp)
    refine ⟨c.2.length, c.1, c.2 ++ (be32Bytes (cfg.crc (typeBytes c.1 ++ c.2)) ++ (chunks cfg post ++ chunk cfg IEND [])),
      ?_, h3, h2, h1⟩
    have : chunks cfg (c :: post) = chunk cfg c.1 c.2 ++ chunks cfg post := by simp [chunks]
    rw [this, List.append_assoc, chunk_append]

/-- **C01** (the composition L1 ∘ L2 at full strength) -/
theorem C01_decode : C01_decode_statement := by
  intro cfg t f opts limit h anc dA zs raw post p hI hC ht hv hanc hidle hzs hlen hinf hraw hpost hsize hlimit
  obtain ⟨len', t', rest', htail, h1, h2, h3⟩ := tail_shape cfg post hpost
  cases zs with
  | nil => exact absurd rfl hzs
  | cons z zs =>
    have hfile : signature ++ chunk cfg IHDR h.body ++ anc ++ idats cfg (z :: zs) ++ chunks cfg post ++ chunk cfg IEND [] =
        signature ++ (chunk cfg IHDR h.body ++ (anc ++ (idats cfg (z :: zs) ++ (be32Bytes len' ++ typeBytes t' ++ rest')))) := by
      rw [← htail]; simp only [List.append_assoc]
    rw [hfile]
    exact decode_wf cfg hI hC ht opts limit h hv anc dA hanc hidle z zs raw (hlen z (by simp))
      (fun z' hz' => hlen z' (by simp [hz'])) hinf hraw len' t' rest' h1 h2 h3 hsize hlimit p

/-- **the side condition on the chunks before the image data is satisfiable by chunk sequences**: every list `cs` of
    chunks each of which `parse_chunk` accepts in turn (`AncChunks`: any type but `IHDR`, `IDAT`, `fdAT`, `IEND`, `fcTL`;
    body no longer than the chunk buffer, 32 KiB) is read as `AncTrace` demands and leaves the decoder `Idle` with
    the header's fields; the limit only decreases -/
theorem ancillary_chunks_ok (cfg : Cfg) (hC : cfg.CrcOk) (opts : Options) (limit : Nat) (h : Header)
    (cs : List (ChunkType × Bytes)) (dA : Dec) (hcs : AncChunks cfg (afterIhdr cfg opts limit h) cs dA) :
    AncTrace cfg (afterIhdr cfg opts limit h) (chunks cfg cs) dA ∧ Idle dA h.info.core ∧ dA.limit ≤ limit :=
  (anc_chunks cfg hC (idle_afterIhdr cfg opts limit h) hcs).imp_right fun x => ⟨x.1, x.2.1⟩

/-- a chunk of unknown type (not a data chunk, not `IEND`) that fits the chunk buffer is accepted in any state -/
theorem ancillary_unknown_ok (cfg : Cfg) (d : Dec) (t : ChunkType) (body : Bytes) (hk : t ∉ knownTypes)
    (h1 : t ≠ IDAT) (h2 : t ≠ fdAT) (h3 : t ≠ IEND) (hlt : t < 2 ^ 32) (hlen : body.length < 2 ^ 32)
    (hcap : body.length ≤ d.cap) : ∃ d', AncStep cfg d t body d' :=
  ancStep_unknown cfg d t body hk h1 h2 h3 hlt hlen hcap

/-- `gAMA` before the image data is accepted when no gamma is stored yet -/
theorem ancillary_gAMA_ok (cfg : Cfg) (d : Dec) (i : Info) (g : Nat) (hg : g < 2 ^ 32) (hi : d.info = some i)
    (hn : i.gama = none) (hh : d.haveIdat = false) (hcap : 4 ≤ d.cap) : ∃ d', AncStep cfg d gAMA (be32Bytes g) d' :=
  ancStep_gAMA cfg d i g hg hi hn hh hcap

/-- `tEXt` with a legal keyword is accepted within the limits -/
theorem ancillary_tEXt_ok (cfg : Cfg) (d : Dec) (i : Info) (kw text : Bytes) (hi : d.info = some i) (hk : KeywordOk kw)
    (ho : d.opts.ignoreText = false) (hlim : (kw ++ 0 :: text).length ≤ d.limit)
    (hcap : (kw ++ 0 :: text).length ≤ d.cap) (hlen : (kw ++ 0 :: text).length < 2 ^ 32) :
    ∃ d', AncStep cfg d tEXt (kw ++ 0 :: text) d' :=
  ancStep_tEXt cfg d i kw text hi hk ho hlim hcap hlen

/-- **chunks of any length**: the same for chunks whose body does not fit the chunk buffer (`AncChunksG`): the buffer
    grows in rounds (`growCap`: each round at most doubles it and is charged to the limit; `PartialChunk` is reported)
    until the body is complete; then `parse_chunk` must accept it -/
theorem ancillary_chunks_ok_any_length (cfg : Cfg) (hC : cfg.CrcOk) (opts : Options) (limit : Nat) (h : Header)
    (cs : List (ChunkType × Bytes)) (dA : Dec) (hcs : AncChunksG cfg (afterIhdr cfg opts limit h) cs dA) :
    AncTrace cfg (afterIhdr cfg opts limit h) (chunks cfg cs) dA ∧ Idle dA h.info.core ∧ dA.limit ≤ limit :=
  (anc_chunks_g cfg hC (idle_afterIhdr cfg opts limit h) (by show 0 < Params.chunkBufferSize; decide) hcs).imp_right
    fun x => ⟨x.1, x.2.1⟩

/-- a chunk of unknown type of ANY length is accepted when the limits let the chunk buffer grow to its length -/
theorem ancillary_unknown_any_length (cfg : Cfg) (d : Dec) (t : ChunkType) (body : Bytes) (hk : t ∉ knownTypes)
    (h1 : t ≠ IDAT) (h2 : t ≠ fdAT) (h3 : t ≠ IEND) (hlt : t < 2 ^ 32) (hlen : body.length < 2 ^ 32) (cap' limit' : Nat)
    (hg : growCap body.length (body.length + 1) d.cap d.limit = some (cap', limit')) : ∃ d', AncStepG cfg d t body d' := by
  have hk' := hk
  simp only [knownTypes, List.mem_cons, List.mem_nil_iff, or_false, not_or] at hk'
  exact ⟨_, hk'.1, h1, h2, h3, hk'.2.2.2.2.2.2.2.1, hlt, hlen, cap', limit', hg, .partialChunk t, _,
    parseChunk_of_ok (dispatch_unknown cfg _ t (Or.inl hk)), rfl⟩

-- with the default limit (64 MiB) a 100 000-byte chunk needs two rounds: 32 768 → 65 536 → 131 072
example : growCap 100000 100001 Params.chunkBufferSize Params.defaultLimitBytes = some (131072, 67108864 - 98304) := by
  decide +kernel

/-- **C01 for `wellFormedStill`, chunks of any length before the image data** -/
theorem C01_decode_chunks_any_length (cfg : Cfg) (t : TCfg) (f : Flags) (opts : Options) (limit : Nat) (h : Header)
    (cs : List (ChunkType × Bytes)) (dA : Dec) (zs : List Bytes) (raw : Bytes) (post : List (ChunkType × Bytes)) (p : UInt8)
    (hI : cfg.InflateOk) (hC : cfg.CrcOk) (ht : t.IsIdentity f) (hv : h.Valid)
    (hcs : AncChunksG cfg (afterIhdr cfg opts limit h) cs dA)
    (hzs : zs ≠ []) (hlen : ∀ z ∈ zs, z.length < 2 ^ 32) (hinf : cfg.inflate zs.flatten = some (raw, true))
    (hraw : RawOk h raw) (hpost : ∀ c ∈ post, c.1 ≠ IDAT ∧ c.1 < 2 ^ 32 ∧ c.2.length < 2 ^ 32)
    (hsize : h.lineSize * h.height < 2 ^ 64) (hlimit : h.lineSize ≤ dA.limit) :
    ∃ buf,
      (Reader.run cfg t
        (R.init opts limit f (wellFormedStill cfg h cs zs post) (wellFormedStill cfg h cs zs post).length)
        [.readInfo, .nextFrame p]).2 =
        [.header, .frame { width := h.width, height := h.height, color := h.color, depth := h.depth,
                           lineSize := h.lineSize } buf] ∧
      specPixels h raw (List.replicate h.bufferSize p) = some buf ∧ buf.length = h.bufferSize := by
  obtain ⟨a1, a2, _⟩ := ancillary_chunks_ok_any_length cfg hC opts limit h cs dA hcs
  exact C01_decode cfg t f opts limit h (chunks cfg cs) dA zs raw post p hI hC ht hv a1 a2 hzs hlen hinf hraw hpost hsize hlimit

/-- **C01 for `wellFormedStill`**: the chunks before the image data given as a list accepted by `parse_chunk` -/
theorem C01_decode_chunks (cfg : Cfg) (t : TCfg) (f : Flags) (opts : Options) (limit : Nat) (h : Header)
    (cs : List (ChunkType × Bytes)) (dA : Dec) (zs : List Bytes) (raw : Bytes) (post : List (ChunkType × Bytes)) (p : UInt8)
    (hI : cfg.InflateOk) (hC : cfg.CrcOk) (ht : t.IsIdentity f) (hv : h.Valid)
    (hcs : AncChunks cfg (afterIhdr cfg opts limit h) cs dA)
    (hzs : zs ≠ []) (hlen : ∀ z ∈ zs, z.length < 2 ^ 32) (hinf : cfg.inflate zs.flatten = some (raw, true))
    (hraw : RawOk h raw) (hpost : ∀ c ∈ post, c.1 ≠ IDAT ∧ c.1 < 2 ^ 32 ∧ c.2.length < 2 ^ 32)
    (hsize : h.lineSize * h.height < 2 ^ 64) (hlimit : h.lineSize ≤ dA.limit) :
    ∃ buf,
      (Reader.run cfg t
        (R.init opts limit f (wellFormedStill cfg h cs zs post) (wellFormedStill cfg h cs zs post).length)
        [.readInfo, .nextFrame p]).2 =
        [.header, .frame { width := h.width, height := h.height, color := h.color, depth := h.depth,
                           lineSize := h.lineSize } buf] ∧
      specPixels h raw (List.replicate h.bufferSize p) = some buf ∧ buf.length = h.bufferSize := by
  obtain ⟨a1, a2, _⟩ := ancillary_chunks_ok cfg hC opts limit h cs dA hcs
  exact C01_decode cfg t f opts limit h (chunks cfg cs) dA zs raw post p hI hC ht hv a1 a2 hzs hlen hinf hraw hpost hsize hlimit

/-- **C01 without chunks between `IHDR` and `IDAT`**: the limit hypothesis is about the decoder's initial limit -/
theorem C01_decode_plain (cfg : Cfg) (t : TCfg) (f : Flags) (opts : Options) (limit : Nat) (h : Header)
    (zs : List Bytes) (raw : Bytes) (p : UInt8)
    (hI : cfg.InflateOk) (hC : cfg.CrcOk) (ht : t.IsIdentity f) (hv : h.Valid)
    (hzs : zs ≠ []) (hlen : ∀ z ∈ zs, z.length < 2 ^ 32) (hinf : cfg.inflate zs.flatten = some (raw, true))
    (hraw : RawOk h raw) (hsize : h.lineSize * h.height < 2 ^ 64) (hlimit : h.lineSize ≤ limit) :
    ∃ buf,
      (Reader.run cfg t
        (R.init opts limit f (wellFormedStill cfg h [] zs []) (wellFormedStill cfg h [] zs []).length)
        [.readInfo, .nextFrame p]).2 =
        [.header, .frame { width := h.width, height := h.height, color := h.color, depth := h.depth,
                           lineSize := h.lineSize } buf] ∧
      specPixels h raw (List.replicate h.bufferSize p) = some buf ∧ buf.length = h.bufferSize :=
  C01_decode_chunks cfg t f opts limit h [] (afterIhdr cfg opts limit h) zs raw [] p hI hC ht hv (.nil _) hzs hlen hinf hraw
    (fun _ hc => by cases hc) hsize hlimit


/-- **C01, `read_info`**: under the same hypotheses `read_info` succeeds and `info()` then reports the header's width,
    height, bit depth, colour type and interlace method -/
theorem C01_read_info (cfg : Cfg) (t : TCfg) (f : Flags) (opts : Options) (limit : Nat) (h : Header) (anc : Bytes) (dA : Dec)
    (zs : List Bytes) (raw : Bytes) (post : List (ChunkType × Bytes))
    (hI : cfg.InflateOk) (hC : cfg.CrcOk) (ht : t.IsIdentity f) (hv : h.Valid)
    (hanc : AncTrace cfg (afterIhdr cfg opts limit h) anc dA) (hidle : Idle dA h.info.core)
    (hzs : zs ≠ []) (hlen : ∀ z ∈ zs, z.length < 2 ^ 32) (hinf : cfg.inflate zs.flatten = some (raw, true))
    (hpost : ∀ c ∈ post, c.1 ≠ IDAT ∧ c.1 < 2 ^ 32 ∧ c.2.length < 2 ^ 32)
    (hsize : h.lineSize * h.height < 2 ^ 64) (hlimit : h.lineSize ≤ dA.limit) :
    ∃ r i,
      Reader.run cfg t
        (R.init opts limit f
          (signature ++ chunk cfg IHDR h.body ++ anc ++ idats cfg zs ++ chunks cfg post ++ chunk cfg IEND [])
          (signature ++ chunk cfg IHDR h.body ++ anc ++ idats cfg zs ++ chunks cfg post ++ chunk cfg IEND []).length)
        [.readInfo] = (r, [.header]) ∧
      infoOf r = some i ∧ i.width = h.width ∧ i.height = h.height ∧ i.depth = h.depth ∧ i.color = h.color ∧
      i.interlaced = h.interlaced := by
  obtain ⟨len', t', rest', htail, h1, h2, h3⟩ := tail_shape cfg post hpost
  cases zs with
  | nil => exact absurd rfl hzs
  | cons z zs =>
    have hfile : signature ++ chunk cfg IHDR h.body ++ anc ++ idats cfg (z :: zs) ++ chunks cfg post ++ chunk cfg IEND [] =
        signature ++ (chunk cfg IHDR h.body ++ (anc ++ (idats cfg (z :: zs) ++ (be32Bytes len' ++ typeBytes t' ++ rest')))) := by
      rw [← htail]; simp only [List.append_assoc]
    rw [hfile]
    obtain ⟨r, i, N, dEnd, hri, hR, hcore, hfctl, _⟩ :=
      readInfo_wf cfg hI hC ht opts limit h hv anc dA none hanc hidle z zs raw (hlen z (by simp))
        (fun z' hz' => hlen z' (by simp [hz'])) hinf len' t' rest' h1 h2 h3 hsize
        (fun j hc hf => by rw [hdrOf_eq hc hf]; exact hlimit)
    simp only [Info.core, Header.info, Prod.mk.injEq] at hcore
    obtain ⟨pend, hP, _⟩ := hR.pend
    refine ⟨r, i, ?_, hP.info, hcore.1, hcore.2.1, hcore.2.2.1, hcore.2.2.2.1, hcore.2.2.2.2⟩
    generalize (signature ++ (chunk cfg IHDR h.body ++ (anc ++ (idats cfg (z :: zs) ++
      (be32Bytes len' ++ typeBytes t' ++ rest'))))) = file at hri ⊢
    have hdead : (R.init opts limit f file file.length).dead = false := rfl
    generalize R.init opts limit f file file.length = r0 at hri hdead ⊢
    have hs1 : Reader.step cfg t r0 .readInfo = (r, .header) := by
      show (if r0.dead then _ else readInfo cfg t r0) = _
      rw [hdead]; exact hri
    simp [Reader.run, hs1]

/-- **C01 row by row.**  The same hypotheses; the caller pulls the image with `next_row` instead of `next_frame`: one
    call per scanline of the header (`h.scanlines`: the image rows, or the rows of the seven reduced images in
    transmission order) returns the specification's reconstructed scanline with its `InterlaceInfo`; one more call
    returns `None`. -/
theorem C01_decode_rows (cfg : Cfg) (t : TCfg) (f : Flags) (opts : Options) (limit : Nat) (h : Header) (anc : Bytes) (dA : Dec)
    (zs : List Bytes) (raw : Bytes) (post : List (ChunkType × Bytes))
    (hI : cfg.InflateOk) (hC : cfg.CrcOk) (ht : t.IsIdentity f) (hv : h.Valid)
    (hanc : AncTrace cfg (afterIhdr cfg opts limit h) anc dA) (hidle : Idle dA h.info.core)
    (hzs : zs ≠ []) (hlen : ∀ z ∈ zs, z.length < 2 ^ 32) (hinf : cfg.inflate zs.flatten = some (raw, true))
    (hraw : RawOk h raw) (hpost : ∀ c ∈ post, c.1 ≠ IDAT ∧ c.1 < 2 ^ 32 ∧ c.2.length < 2 ^ 32)
    (hsize : h.lineSize * h.height < 2 ^ 64) (hlimit : h.lineSize ≤ dA.limit) :
    (Reader.run cfg t
      (R.init opts limit f
        (signature ++ chunk cfg IHDR h.body ++ anc ++ idats cfg zs ++ chunks cfg post ++ chunk cfg IEND [])
        (signature ++ chunk cfg IHDR h.body ++ anc ++ idats cfg zs ++ chunks cfg post ++ chunk cfg IEND []).length)
      (.readInfo :: List.replicate (h.scanlines.length + 1) .nextRow)).2 =
      .header :: (((h.scanlines.zip (specScanlines h raw)).map fun x => Reader.Res.row (iinfoOf h.interlaced x.1) x.2) ++ [.noRow]) := by
  obtain ⟨len', t', rest', htail, h1, h2, h3⟩ := tail_shape cfg post hpost
  cases zs with
  | nil => exact absurd rfl hzs
  | cons z zs =>
    have hfile : signature ++ chunk cfg IHDR h.body ++ anc ++ idats cfg (z :: zs) ++ chunks cfg post ++ chunk cfg IEND [] =
        signature ++ (chunk cfg IHDR h.body ++ (anc ++ (idats cfg (z :: zs) ++ (be32Bytes len' ++ typeBytes t' ++ rest')))) := by
      rw [← htail]; simp only [List.append_assoc]
    rw [hfile]
    exact decode_rows_wf cfg hI hC ht opts limit h hv anc dA hanc hidle z zs raw (hlen z (by simp))
      (fun z' hz' => hlen z' (by simp [hz'])) hinf hraw len' t' rest' h1 h2 h3 hsize hlimit

/-- **Layer L1 on its own: the stream decoder on a whole well-formed still image** (`IEND` right behind the image
    data).  Calling `update` on what is left of the file until the end — the caller taking the image data away after
    every call, as `ReadDecoder::decode_next` does — never fails and reports, in this order: `ChunkBegin IHDR`, the header
    event with the header's fields, `ChunkComplete`; the events of the chunks before the image data (none with image
    data); `ChunkBegin IDAT`; the events of the `IDAT` sequence — only `ImageData`, `ChunkComplete`, `ChunkBegin`, the
    last one `ImageDataFlushed` — whose image data concatenates to exactly the inflated stream; `ChunkBegin IEND`,
    `PartialChunk IEND`, `ImageEnd`.  Then the decoder is finished and `info` holds the header's fields.
    (Delivery in other pieces: `Png.C04`.) -/
theorem C01_framing (cfg : Cfg) (hI : cfg.InflateOk) (hC : cfg.CrcOk) (opts : Options) (limit : Nat) (h : Header)
    (hv : h.Valid) (anc : Bytes) (dA : Dec) (hanc : AncTrace cfg (afterIhdr cfg opts limit h) anc dA)
    (hidle : Idle dA h.info.core) (z : Bytes) (zs : List Bytes) (raw : Bytes) (hz : z.length < 2 ^ 32)
    (hzs : ∀ z' ∈ zs, z'.length < 2 ^ 32) (hinf : cfg.inflate (z :: zs).flatten = some (raw, true)) :
    ∃ evA evD i dEnd,
      Trace cfg (fun _ => True) (dec0 opts limit)
        (signature ++ (chunk cfg IHDR h.body ++ (anc ++ (idats cfg (z :: zs) ++ chunk cfg IEND []))))
        ((([(.chunkBegin 13 IHDR, []), (.header h.width h.height h.depth h.color h.interlaced, []),
            (.chunkComplete (cfg.crc (typeBytes IHDR ++ h.body)) IHDR, [])] ++ evA ++ [(.chunkBegin z.length IDAT, [])]) ++ evD) ++
          [(.chunkBegin 0 IEND, []), (.partialChunk IEND, []), (.imageEnd, [])]) dEnd [] ∧
      (∀ e ∈ evA, PreEv e) ∧ DataEvs evD ∧ dataOf evD = raw ∧
      dEnd.state = none ∧ dEnd.info = some i ∧ i.core = h.info.core ∧ i.fctl = none :=
  wellFormed_trace cfg hI hC opts limit h hv anc dA hanc hidle z zs raw hz hzs hinf

/-! ## The specification side, tied to the existing specifications -/

/-- without interlacing, the scanlines `specPixels` packs are `Png.specRows` (`Model/Unfiltering.lean`, the
    specification of `C01.unfiltering_refines`) of the inflated stream: every row reconstructed with `reconRow`
    (`Model/Filter.lean`, C14) against the row before -/
theorem spec_noninterlaced (h : Header) (hil : h.interlaced = false) (raw bg : Bytes) (hraw : RawOk h raw) :
    specPixels h raw bg = some (specRows h.filterUnit (1 + h.rowBytes h.width) raw).flatten := by
  unfold specPixels
  rw [hil, specScanlines_eq_specRows h hil raw hraw]; rfl

/-- with Adam7, the scanlines are those of seven images of their own: the stream is cut into the streams of the
    passes (`passSize` bytes each, nothing for an empty pass) and each is reconstructed with `Png.specRows` with the
    pass's own row length (section 8.2 / 9.2 of the specification: filtering is applied to each reduced image) -/
theorem spec_interlaced_passes (h : Header) (hil : h.interlaced = true) (raw : Bytes) (hraw : RawOk h raw) :
    specScanlines h raw = passScanlines h [1, 2, 3, 4, 5, 6, 7] raw :=
  specScanlines_passes h hil raw hraw

/-- with Adam7, `specPixels` pixel by pixel: the field of pixel `(x, y)` holds pixel number `specSrc(x, y).index` of
    scanline `specSrc(x, y).line` of pass `specSrc(x, y).pass` (`Adam7.specSrc`, C15: the placement of the
    specification's 8×8 pattern); every bit outside the pixel fields is the buffer's -/
theorem spec_interlaced_pixels (h : Header) (hv : h.Valid) (hil : h.interlaced = true) (raw : Bytes) (hraw : RawOk h raw)
    (bg : Bytes) (hbg : bg.length = h.bufferSize) :
    ∃ buf, specPixels h raw bg = some buf ∧ buf.length = bg.length ∧
      (∀ x y t, x < h.width → y < h.height → t < h.bitsPerPixel →
        Adam7.bitAt buf (Adam7.pixelBit h.lineSize h.bitsPerPixel x y + t) =
          Adam7.bitAt (specPassRow h raw (Adam7.specSrc x y).1 (Adam7.specSrc x y).2.1)
            ((Adam7.specSrc x y).2.2 * h.bitsPerPixel + t)) ∧
      (∀ k, (∀ x y, x < h.width → y < h.height →
          ¬ (Adam7.pixelBit h.lineSize h.bitsPerPixel x y ≤ k ∧ k < Adam7.pixelBit h.lineSize h.bitsPerPixel x y + h.bitsPerPixel)) →
        Adam7.bitAt buf k = Adam7.bitAt bg k) :=
  specPixels_interlaced h hv hil raw hraw bg hbg

/-- **the decoded pixels do not depend on what the buffer held before**: for two pre-fills the results agree on every
    pixel field; they are equal unless the image is interlaced AND its rows end in padding bits -/
theorem spec_prefill_independent (h : Header) (hv : h.Valid) (raw : Bytes) (hraw : RawOk h raw) (p1 p2 : UInt8) :
    ∃ b1 b2, specPixels h raw (List.replicate h.bufferSize p1) = some b1 ∧
      specPixels h raw (List.replicate h.bufferSize p2) = some b2 ∧ b1.length = b2.length ∧
      (∀ x y t, x < h.width → y < h.height → t < h.bitsPerPixel →
        Adam7.bitAt b1 (Adam7.pixelBit h.lineSize h.bitsPerPixel x y + t) =
          Adam7.bitAt b2 (Adam7.pixelBit h.lineSize h.bitsPerPixel x y + t)) ∧
      ((h.interlaced = false ∨ h.width * h.bitsPerPixel = h.lineSize * 8) → b1 = b2) :=
  specPixels_indep h hv raw hraw _ _ (by simp) (by simp)

/-- **the identity contract holds for the transformation model**: `Model/Transform.lean`, as the driver wires it into
    the `Reader` model (`Driver.realT`), satisfies `TCfg.IsIdentity` for `Transformations::IDENTITY` -/
theorem identity_contract_of_transform_model : Png.Driver.realT.IsIdentity {} := Png.Driver.realT_isIdentity

/-! ## Non-vacuity: the hypotheses hold for the toy inflater / CRC / identity transformation and small streams,
    and the model really returns the specification's pixels there -/

section Examples
open Png.Framing.Toy Png.Reader.Toy

/-- the identity `TCfg` of `Proofs/ReaderToy.lean` satisfies the contract -/
theorem idT_isIdentity : idT.IsIdentity {} :=
  ⟨fun _ => rfl, fun _ _ => rfl, fun _ _ row _ _ => by simp [idT]⟩

theorem toy_crcOk : toyCfg.CrcOk := fun _ => by show (0 : Nat) < 2 ^ 32; decide

/-- 1×1, 8-bit grayscale, not interlaced -/
def hGray1 : Header := ⟨1, 1, 0, 8, false⟩
/-- 2×2, 8-bit grayscale, Adam7 -/
def hGray2i : Header := ⟨2, 2, 0, 8, true⟩
/-- 3×2, 2-bit palette, Adam7 (rows end in padding bits) -/
def hPal3i : Header := ⟨3, 2, 3, 2, true⟩

example : hGray1.Valid ∧ hGray2i.Valid ∧ hPal3i.Valid := by decide
-- the toy stream of `Proofs/ReaderToy.lean` is `wellFormedStill` of a one-scanline image
example : wellFormedStill toyCfg hGray1 [] [[2, 0, 9]] [] = img := by decide
example : toyCfg.inflate [[2, 0, 9]].flatten = some ([0, 9], true) ∧ RawOk hGray1 [0, 9] := by decide
example : specPixels hGray1 [0, 9] (List.replicate hGray1.bufferSize 7) = some [9] := by decide
example : hGray1.lineSize * hGray1.height < 2 ^ 64 ∧ hGray1.lineSize ≤ 2 ^ 64 - 1 := by decide
example : (Reader.run toyCfg idT (R.init {} (2 ^ 64 - 1) {} img img.length) [.readInfo, .nextFrame 7]).2 =
    [.header, .frame ⟨1, 1, 0, 8, 1⟩ [9]] := by decide +kernel

/-- an interlaced 2×2 image: three scanlines (passes 1, 6, 7; filter types None, Sub, Sub), the zlib stream cut into four
    `IDAT` chunks, one of them empty -/
def zs2 : List Bytes := [[7, 0], [], [10, 1, 20], [1, 30, 5]]
def raw2 : Bytes := [0, 10, 1, 20, 1, 30, 5]
example : toyCfg.inflate zs2.flatten = some (raw2, true) ∧ RawOk hGray2i raw2 ∧ hGray2i.scanlines = [(1, 0, 1), (6, 0, 1), (7, 0, 2)] := by
  decide
example : specScanlines hGray2i raw2 = [[10], [20], [30, 35]] := by decide
example : specPixels hGray2i raw2 (List.replicate hGray2i.bufferSize 7) = some [10, 20, 30, 35] := by decide +kernel
example : (Reader.run toyCfg idT (R.init {} (2 ^ 64 - 1) {} (wellFormedStill toyCfg hGray2i [] zs2 [])
      (wellFormedStill toyCfg hGray2i [] zs2 []).length) [.readInfo, .nextFrame 7]).2 =
    [.header, .frame ⟨2, 2, 0, 8, 2⟩ [10, 20, 30, 35]] := by decide +kernel

/-- chunks before and after the image data: `gAMA`, `tEXt` and a private chunk `prVt`; `tIME`-like unknown chunk behind -/
def ancToy : List (ChunkType × Bytes) :=
  [(gAMA, be32Bytes 45455), (tEXt, [65, 0, 66]), (mkType 'p' 'r' 'V' 't', [1, 2, 3])]
def postToy : List (ChunkType × Bytes) := [(mkType 't' 'I' 'M' 'E', [0, 0])]
example : (Reader.run toyCfg idT (R.init {} (2 ^ 64 - 1) {} (wellFormedStill toyCfg hGray2i ancToy zs2 postToy)
      (wellFormedStill toyCfg hGray2i ancToy zs2 postToy).length) [.readInfo, .nextFrame 7]).2 =
    [.header, .frame ⟨2, 2, 0, 8, 2⟩ [10, 20, 30, 35]] := by decide +kernel

/-- 3×2 two-bit pixels, Adam7 (four scanlines of one byte; rows of the image end in two padding bits) -/
def raw3 : Bytes := [0, 0x40, 0, 0xC0, 0, 0x80, 0, 0x6C]
def zs3 : List Bytes := [[8, 0, 0x40, 0], [0xC0, 0, 0x80, 0, 0x6C]]
example : toyCfg.inflate zs3.flatten = some (raw3, true) ∧ RawOk hPal3i raw3 ∧ hPal3i.lineSize = 1 ∧ hPal3i.bufferSize = 2 := by
  decide
example : (Reader.run toyCfg idT (R.init {} (2 ^ 64 - 1) {} (wellFormedStill toyCfg hPal3i [] zs3 [])
      (wellFormedStill toyCfg hPal3i [] zs3 []).length) [.readInfo, .nextFrame 0xFF]).2 =
    [.header, .frame ⟨3, 2, 3, 2, 1⟩ [0x6F, 0x6F]] := by decide +kernel

/-- **the padding bits of an interlaced image keep the buffer's previous contents**: `expand_pass` writes pixel
    fields only, so for `width · bits per pixel` not a multiple of 8 the result depends on the pre-fill in exactly the
    padding bits (here the two low bits of each row); `specPixels` takes the buffer's contents as `bg` for this reason.
    All pixel bits are independent of `bg`: `specPixels_pixel_bits`. -/
theorem interlaced_padding_keeps_prefill :
    specPixels hPal3i raw3 [0xFF, 0xFF] = some [0x6F, 0x6F] ∧ specPixels hPal3i raw3 [0, 0] = some [0x6C, 0x6C] := by
  decide +kernel

end Examples

end Png.C01
