import PngVerif.Generated.KernelsZlib
import PngVerif.Model.ZlibWindow
import PngVerif.Proofs.KernelTactic
/-!
# Tie A, part 2 (translator): the growth rule `ZlibStream::decoding_size` of `src/decoder/zlib.rs`

The buffer-growth arithmetic translated from the current source equals `decodingSize` of `Model/ZlibWindow.lean` (the function
`zlib_window_bounded` / `zlib_space_invariant` are about) for every buffer length, chunk size and `max_total_output`.
-/
namespace Png.Kernels
open Png

theorem kernel_decoding_size (c : ZCfg) (len mt : Nat) (hl : len ≤ usizeMax) (hc : c.chunk ≤ usizeMax) :
    Gen.ZlibStream_decoding_size len c.chunk mt = (decodingSize c len mt : Nat) ∧
    Gen.ZlibStream_decoding_size_ok len c.chunk mt = true := by
  refine ⟨?_, rfl⟩
  unfold Gen.ZlibStream_decoding_size decodingSize satAdd usizeMax isizeMax
  simp only [usizeMax] at hl hc
  omega

example : Gen.ZlibStream_decoding_size 0 32768 100 = 100 ∧ Gen.ZlibStream_decoding_size 65536 32768 18446744073709551615 = 131072 := by decide

end Png.Kernels
