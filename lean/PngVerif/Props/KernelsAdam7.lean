import PngVerif.Generated.KernelsAdam7
import PngVerif.Model.Adam7
import PngVerif.Proofs.KernelTactic
/-!
# Tie A, part 2 (translator): Adam7 pass geometry and bit positions of `src/adam7.rs`

`Generated/KernelsAdam7.lean` is rewritten by `tools/rs2lean.py` from `/repo/src/adam7.rs` on every run:
* `Adam7Iterator::init_pass` — the `f64` arithmetic is translated as exact rational arithmetic (numerator over a power-of-two
  denominator known at translation time; `_ok` demands every numerator below 2^53 in magnitude, where IEEE-754 binary64 is exact for
  `+`, `-`, division by a power of two and `ceil`; `as u32` on the integral result saturates).  For EVERY `u32` width and height and
  every pass the translated function returns the model's `passW` / `passH` (`Model/Adam7.lean`, which `C15.pass_dims` relates to the
  specification's count of pattern columns / rows).  An integer rewrite of `init_pass` is read by the same translator (the seeded
  changes C01_4, C15_1, C02_2 are of that kind) and has to satisfy the same theorem.
* `expand_adam7_bits` — the iterator chain `(0..width).map(..).map(..).map(..)` is translated as the function "index ↦ element";
  for every stride, pixel size, line, pass and index it is the `i`-th element of the model's `expandBits`, and `_ok` (no `usize`
  overflow) holds as soon as the resulting bit offsets fit 64 bits.
-/
namespace Png.Kernels
open Png Png.Adam7

theorem kernel_init_pass (w h p : Nat) (hw : w < 2 ^ 32) (hh : h < 2 ^ 32) (hp : 1 ≤ p ∧ p ≤ 7) :
    Gen.Adam7Iterator_init_pass w h p = (((passW w p : Nat) : Int), ((passH h p : Nat) : Int), (0 : Int)) ∧
    Gen.Adam7Iterator_init_pass_ok w h p = true := by
  have : p = 1 ∨ p = 2 ∨ p = 3 ∨ p = 4 ∨ p = 5 ∨ p = 6 ∨ p = 7 := by omega
  rcases this with h | h | h | h | h | h | h <;> subst h <;>
  (constructor
   · simp [Gen.Adam7Iterator_init_pass, passW, passH, passParams, Params.adam7Pass, dim]
     refine ⟨?_, ?_⟩ <;> (repeat' split) <;> omega
   · simp [Gen.Adam7Iterator_init_pass_ok]
     try omega)

/-- outside passes 1..7 the source reaches `unreachable!()` -/
theorem kernel_init_pass_unreachable (w h p : Nat) (hp : p = 0 ∨ 7 < p) : Gen.Adam7Iterator_init_pass_ok w h p = false := by
  have h1 : (p : Int) ≠ 1 := by omega
  have h2 : (p : Int) ≠ 2 := by omega
  have h3 : (p : Int) ≠ 3 := by omega
  have h4 : (p : Int) ≠ 4 := by omega
  have h5 : (p : Int) ≠ 5 := by omega
  have h6 : (p : Int) ≠ 6 := by omega
  have h7 : (p : Int) ≠ 7 := by omega
  simp [Gen.Adam7Iterator_init_pass_ok, h1, h2, h3, h4, h5, h6, h7]

/-- the `i`-th bit offset `expand_adam7_bits` yields, as translated from the source, is the model's -/
theorem kernel_expand_bits (stride bpp line p width i : Nat) (hp : 1 ≤ p ∧ p ≤ 7) (hi : i < width) :
    (expandBits stride ⟨p, line, width⟩ bpp)[i]?.map Int.ofNat = some (Gen.expand_adam7_bits stride bpp line p width i) := by
  have : p = 1 ∨ p = 2 ∨ p = 3 ∨ p = 4 ∨ p = 5 ∨ p = 6 ∨ p = 7 := by omega
  rcases this with h | h | h | h | h | h | h <;> subst h <;>
  (simp [expandBits, destX, destY, bitsParams, Params.adam7Bits, Gen.expand_adam7_bits, hi]
   try (push_cast; rfl))

/-- `_ok` for `expand_adam7_bits`: no `usize` overflow as soon as the bit offsets themselves fit `usize` -/
theorem kernel_expand_bits_ok (stride bpp line p width i : Nat) (hp : 1 ≤ p ∧ p ≤ 7) (hl : line < 4294967296) (hi : i < 4294967296)
    (h1 : destY p line * stride * 8 < 18446744073709551616)
    (h2 : destX p i * bpp + destY p line * stride * 8 < 18446744073709551616) :
    Gen.expand_adam7_bits_ok stride bpp line p width i = true := by
  have b1 : ((destY p line * stride * 8 : Nat) : Int) < 18446744073709551616 := by omega
  have b2 : ((destX p i * bpp + destY p line * stride * 8 : Nat) : Int) < 18446744073709551616 := by omega
  have a1 := Int.natCast_nonneg (destY p line * stride)
  have a2 := Int.natCast_nonneg (destX p i * bpp)
  clear h1 h2
  have : p = 1 ∨ p = 2 ∨ p = 3 ∨ p = 4 ∨ p = 5 ∨ p = 6 ∨ p = 7 := by omega
  rcases this with h | h | h | h | h | h | h <;> subst h <;>
  (simp [destX, destY, bitsParams, Params.adam7Bits] at a1 a2 b1 b2
   simp [Gen.expand_adam7_bits_ok]
   omega)

example : Gen.Adam7Iterator_init_pass 4294967295 3 2 = (536870912, 1, 0) ∧ Gen.Adam7Iterator_init_pass 4 4 2 = (0, 1, 0) ∧
    Gen.expand_adam7_bits 10 4 3 5 7 2 = 4 * 4 + (4 * 3 + 2) * 10 * 8 := by decide

end Png.Kernels
